import Op2Proofs.Vol.Layout
import Op2Proofs.SortLemmas
/-!
# VOL creation: what `plan` decides, and `emit` = the reference encoding of the sorted inputs
-/
namespace Op2.Vol
open Op2

/-- the member an input file becomes -/
def memberOf (f : InFile) : Spec.Member :=
  { name := nameOf f, payload := f.content.toBytes, size := f.content.len, comp := uncompressed }
/-- the description of the archive made from the (sorted) list `l` -/
def descOf (l : List InFile) : Spec.Desc := { members := l.map memberOf, unused := 0, slack := 0 }

theorem nameTable_length : ∀ l : List InFile, (Spec.nameTable (l.map memberOf)).length = tableLen l
  | [] => rfl
  | f :: fs => by
    have ih := nameTable_length fs
    have e1 : Spec.nameTable ((f :: fs).map memberOf) = (nameOf f ++ [0]) ++ Spec.nameTable (fs.map memberOf) := by
      simp [Spec.nameTable, memberOf]
    have e2 : tableLen (f :: fs) = (nameOf f).length + 1 + tableLen fs := by simp [tableLen]
    rw [e1, e2, List.length_append, ih]; simp

theorem headerLen_descOf (l : List InFile) :
    Spec.headerLen (descOf l) = 32 + Spec.pad4 (4 + tableLen l) + Spec.pad4 (14 * l.length) := by
  simp only [Spec.headerLen, Spec.volsLen, Spec.voliLen, descOf, nameTable_length, List.length_map, Nat.add_zero]
  omega

/-- what `plan` computes on a sorted list when nothing wraps -/
def planOf (l : List InFile) : Plan :=
  { files := l, names := l.map nameOf, stl := tableLen l, itl := 14 * l.length,
    paddedS := Spec.pad4 (4 + tableLen l), paddedI := Spec.pad4 (14 * l.length),
    entries := mkOffsets (Spec.headerLen (descOf l)) (mkEntries l 0) }

/-- everything `CreateArchive` requires of the sorted inputs -/
structure Good (out : Bytes) (l : List InFile) : Prop where
  nodup : Str.hasAdjacentDup (l.map nameOf) = false
  small : allSmall l
  header : Spec.headerLen (descOf l) < 2147483648
  fit : offsFit (Spec.headerLen (descOf l)) (mkEntries l 0)
  notSelf : l.any (fun f => Path.pathsAreEqual out f.path) = false
  outNonempty : out.isEmpty = false

section arith
variable (l : List InFile) (hH : Spec.headerLen (descOf l) < 2147483648)
include hH

theorem ar_tbl : tableLen l ≤ uint32Max := by
  rw [headerLen_descOf] at hH; simp only [Spec.pad4, uint32Max] at *; omega
theorem ar_cnt : ¬ l.length * entrySize > uint32Max := by
  rw [headerLen_descOf] at hH; simp only [Spec.pad4, uint32Max, entrySize] at *; omega
theorem ar_itl : u32 (u32 l.length * entrySize) = 14 * l.length := by
  rw [headerLen_descOf] at hH; simp only [Spec.pad4, u32, W32, entrySize] at *; omega
theorem ar_ps : mask32 (u32 (tableLen l + namePad)) = Spec.pad4 (4 + tableLen l) := by
  rw [headerLen_descOf] at hH
  have : u32 (tableLen l + namePad) = tableLen l + 7 := by simp only [Spec.pad4, u32, W32, namePad] at *; omega
  rw [this, mask32_eq _ (by simp only [Spec.pad4] at *; omega)]
  simp only [Spec.pad4]; omega
theorem ar_pi : mask32 (u32 (14 * l.length + indexPad)) = Spec.pad4 (14 * l.length) := by
  rw [headerLen_descOf] at hH
  have : u32 (14 * l.length + indexPad) = 14 * l.length + 3 := by simp only [Spec.pad4, u32, W32, indexPad] at *; omega
  rw [this, mask32_eq _ (by simp only [Spec.pad4] at *; omega)]
  simp only [Spec.pad4]
theorem ar_first : u32 (Spec.pad4 (4 + tableLen l) + Spec.pad4 (14 * l.length) + firstBlockExtra) = Spec.headerLen (descOf l) := by
  rw [headerLen_descOf] at hH ⊢
  simp only [u32, W32, firstBlockExtra] at *; omega
end arith
theorem ar_first4 (l : List InFile) : Spec.headerLen (descOf l) % 4 = 0 := by
  rw [headerLen_descOf]; simp only [Spec.pad4]; omega

theorem plan_err (out : Bytes) (files : List InFile) (e : Err) (h : plan out files = .error e) : e = .refused := by
  unfold plan at h
  simp only at h
  split at h
  · simp at h; exact h.symm
  · split at h
    · rename_i e' he; simp at h; subst h; exact prepLoop_err _ _ _ he
    · split at h
      · simp at h; exact h.symm
      · split at h
        · rename_i e' he; simp at h; subst h; exact assignOffsets_err _ _ _ he
        · split at h
          · simp at h; exact h.symm
          · split at h
            · simp at h; exact h.symm
            · simp at h

theorem plan_of_good (out : Bytes) (files : List InFile) (g : Good out (Str.sortCI nameOf files)) :
    plan out files = .ok (planOf (Str.sortCI nameOf files)) := by
  have hH := g.header
  unfold plan
  simp only
  rw [if_neg (by rw [g.nodup]; simp)]
  rw [prepLoop_succeeds _ 0 g.small (by have := ar_tbl _ hH; omega)]
  simp only [Nat.zero_add]
  rw [if_neg (ar_cnt _ hH), ar_itl _ hH, ar_ps _ hH, ar_pi _ hH, ar_first _ hH]
  rw [assignOffsets_ok _ _ (ar_first4 _) (by simp only [uint32Max]; omega) (mkEntries_sizesSmall _ _ g.small) g.fit]
  simp only
  rw [if_neg (by rw [g.notSelf]; simp), if_neg (by rw [g.outNonempty]; simp)]
  rfl

theorem plan_ok_good (out : Bytes) (files : List InFile) (p : Plan) (h : plan out files = .ok p)
    (hH : Spec.headerLen (descOf (Str.sortCI nameOf files)) < 2147483648) :
    Good out (Str.sortCI nameOf files) ∧ p = planOf (Str.sortCI nameOf files) := by
  have h0 := h
  unfold plan at h
  simp only at h
  split at h
  · simp at h
  · rename_i hdup
    split at h
    · simp at h
    · rename_i es stl hprep
      obtain ⟨r1, r2, _, r4⟩ := prepLoop_ok _ _ _ _ hprep (by simp [uint32Max])
      simp only [Nat.zero_add] at r2
      subst r1 r2
      split at h
      · simp at h
      · rw [ar_itl _ hH, ar_ps _ hH, ar_pi _ hH, ar_first _ hH] at h
        split at h
        · simp at h
        · rename_i es' hoff
          have hfit : offsFit (Spec.headerLen (descOf (Str.sortCI nameOf files))) (mkEntries (Str.sortCI nameOf files) 0) := by
            apply Classical.byContradiction
            intro hc
            rw [assignOffsets_refuses _ _ (ar_first4 _) (by simp only [uint32Max]; omega) (mkEntries_sizesSmall _ _ r4) hc] at hoff
            simp at hoff
          split at h
          · simp at h
          · rename_i hself
            split at h
            · simp at h
            · rename_i hout
              have g : Good out (Str.sortCI nameOf files) :=
                { nodup := by simpa using hdup, small := r4, header := hH, fit := hfit,
                  notSelf := by simpa using hself, outNonempty := by simpa using hout }
              refine ⟨g, ?_⟩
              rw [plan_of_good out files g] at h0
              simp at h0; exact h0.symm

/-! ## emission -/

theorem sec_eq (tag : Bytes) (len : Nat) (h : len < 2147483648) : sec tag len = Spec.sec tag len := by
  unfold sec Spec.sec padFlag
  rw [Nat.mod_eq_of_lt h]

theorem entries_eq : ∀ (l : List InFile) (stl off : Nat),
    (mkOffsets off (mkEntries l stl)).flatMap encEntry = Spec.entries stl off (l.map memberOf)
  | [], _, _ => rfl
  | f :: fs, stl, off => by
    simp only [mkEntries, mkOffsets, List.flatMap_cons, List.map_cons, Spec.entries]
    rw [entries_eq fs]
    simp only [encEntry, memberOf, Spec.blockLen, Content.toBytes_length, List.append_assoc]
    congr 5
    omega

theorem files_eq : ∀ (l : List InFile) (stl off : Nat), allSmall l →
    writeFiles l (mkOffsets off (mkEntries l stl)) = (l.map memberOf).flatMap Spec.block
  | [], _, _, _ => rfl
  | f :: fs, stl, off, hs => by
    simp only [mkEntries, mkOffsets, writeFiles, List.map_cons, List.flatMap_cons]
    rw [files_eq fs _ _ (fun g hg => hs g (by simp [hg]))]
    congr 1
    have hf : f.content.len < 2147483648 := by have := hs f (by simp); simp only [int32Max] at this; omega
    simp only [writeBlock, Spec.block, memberOf, Content.toBytes_length, copyAll_eq]
    rw [sec_eq _ _ hf]
    have : (4 - f.content.len % 4) % 4 = Spec.pad4 f.content.len - f.content.len := by simp only [Spec.pad4]; omega
    rw [this]; rfl

theorem names_eq (l : List InFile) : (l.map nameOf).flatMap (fun n => n ++ [0]) = Spec.nameTable (l.map memberOf) := by
  induction l with
  | nil => rfl
  | cons f fs ih =>
    simp only [List.map_cons, List.flatMap_cons, Spec.nameTable] at ih ⊢
    rw [ih]; rfl

theorem emit_planOf (l : List InFile) (hH : Spec.headerLen (descOf l) < 2147483648) (hs : allSmall l) :
    emit (planOf l) = Spec.refEncode (descOf l) := by
  have hH' := hH
  rw [headerLen_descOf] at hH'
  unfold emit Spec.refEncode
  congr 1
  · unfold writeHeader Spec.header
    simp only [planOf]
    have e1 : u32 (Spec.pad4 (4 + tableLen l) + Spec.pad4 (14 * l.length) + headerExtra) = Spec.headerLen (descOf l) - 8 := by
      rw [headerLen_descOf]; simp only [u32, W32, headerExtra]; omega
    have e2 : u32 (W32 + Spec.pad4 (4 + tableLen l) - u32 (tableLen l + 4))
        = Spec.volsLen (descOf l) - 4 - (Spec.nameTable (descOf l).members).length := by
      simp only [Spec.volsLen, descOf]
      rw [nameTable_length]
      simp only [u32, W32, Spec.pad4] at *; omega
    have e3 : u32 (W32 + Spec.pad4 (14 * l.length) - 14 * l.length)
        = Spec.pad4 (Spec.voliLen (descOf l)) - 14 * ((descOf l).members.length + (descOf l).unused) := by
      simp only [Spec.voliLen, descOf, List.length_map, Nat.add_zero]
      simp only [u32, W32, Spec.pad4] at *; omega
    have e4 : Spec.volsLen (descOf l) = Spec.pad4 (4 + tableLen l) := by simp only [Spec.volsLen, descOf]; rw [nameTable_length]
    have e5 : Spec.voliLen (descOf l) = 14 * l.length := by simp only [Spec.voliLen, descOf, List.length_map, Nat.add_zero]
    rw [e1, e2, e3, names_eq, entries_eq, e4, e5]
    rw [sec_eq tagVOL _ (by omega), sec_eq tagVOLH 0 (by decide), sec_eq tagVOLS _ (by simp only [Spec.pad4] at *; omega),
      sec_eq tagVOLI _ (by simp only [Spec.pad4] at *; omega)]
    simp only [descOf, nameTable_length, tagVOL, tagVOLH, tagVOLS, tagVOLI, List.replicate_zero, List.flatten_nil, List.append_nil,
      List.append_assoc]
  · simp only [planOf, descOf]
    exact files_eq l 0 _ hs

/-- all refusals of `create` are `refused` -/
theorem create_err (out : Bytes) (files : List InFile) (e : Err) (h : create out files = .error e) : e = .refused := by
  unfold create at h
  split at h
  · simp at h
  · rename_i e' he; simp at h; subst h; exact plan_err _ _ _ he

theorem create_of_good (out : Bytes) (files : List InFile) (g : Good out (Str.sortCI nameOf files)) :
    create out files = .ok (Spec.refEncode (descOf (Str.sortCI nameOf files))) := by
  unfold create
  rw [plan_of_good out files g]
  simp only
  rw [emit_planOf _ g.header g.small]

theorem create_ok (out : Bytes) (files : List InFile) (b : Bytes) (h : create out files = .ok b)
    (hH : Spec.headerLen (descOf (Str.sortCI nameOf files)) < 2147483648) :
    Good out (Str.sortCI nameOf files) ∧ b = Spec.refEncode (descOf (Str.sortCI nameOf files)) := by
  unfold create at h
  split at h
  · rename_i p hp
    obtain ⟨g, rfl⟩ := plan_ok_good out files p hp hH
    simp at h
    exact ⟨g, by rw [← h, emit_planOf _ g.header g.small]⟩
  · simp at h

end Op2.Vol
