import Op2Model.Vol
import Op2Proofs.StrOrder
import Op2Proofs.SortLemmas
/-!
# Lemmas: the frozen spec's order and its binary-search lookup (C01, C02)

* the spec's fold `lowerU` and the library's `lowerI` coincide away from byte 0xFF, hence so do the
  orders `ltSpec` / `ltCI` and the folded equalities;
* `increasing` (an adjacent chain) is pairwise sortedness, and follows from the library's strict sortedness;
* `bsearch` finds the unique equivalent entry of a strictly increasing list (generic comparator), and whatever
  it returns is an equivalent entry (any list);
* `lookup` finds a name written in any letter case.
-/
namespace Op2.Vol.Spec
open Op2 Op2.Str

/-! ## 1. the spec order versus the library order -/

theorem toNat_ne_255 (b : UInt8) (h : b ≠ 255) : b.toNat ≠ 255 := by
  intro hb
  apply h
  apply UInt8.toNat_inj.mp
  rw [hb]; rfl

theorem lowerU_eq_lowerI (b : UInt8) (h : b ≠ 255) : lowerU b = Str.lowerI b := by
  unfold lowerU Str.lowerI
  split
  · rfl
  · rw [if_neg (toNat_ne_255 b h)]

theorem ltF_congr {α : Type} (f g : α → Int) : ∀ (a c : List α), (∀ x ∈ a, f x = g x) → (∀ x ∈ c, f x = g x) →
    Str.ltF f a c = Str.ltF g a c
  | [], [], _, _ => rfl
  | [], _ :: _, _, _ => rfl
  | _ :: _, [], _, _ => rfl
  | a :: as, b :: bs, ha, hc => by
    simp only [ltF]
    rw [ha a (List.mem_cons_self ..), hc b (List.mem_cons_self ..),
      ltF_congr f g as bs (fun x hx => ha x (List.mem_cons_of_mem _ hx)) (fun x hx => hc x (List.mem_cons_of_mem _ hx))]

theorem eqF_congr {α : Type} (f g : α → Int) : ∀ (a c : List α), (∀ x ∈ a, f x = g x) → (∀ x ∈ c, f x = g x) →
    Str.eqF f a c = Str.eqF g a c
  | [], [], _, _ => rfl
  | [], _ :: _, _, _ => rfl
  | _ :: _, [], _, _ => rfl
  | a :: as, b :: bs, ha, hc => by
    simp only [eqF]
    rw [ha a (List.mem_cons_self ..), hc b (List.mem_cons_self ..),
      eqF_congr f g as bs (fun x hx => ha x (List.mem_cons_of_mem _ hx)) (fun x hx => hc x (List.mem_cons_of_mem _ hx))]

theorem ltSpec_eq_ltCI (a c : Bytes) (ha : ∀ x ∈ a, x ≠ 255) (hc : ∀ x ∈ c, x ≠ 255) : ltSpec a c = Str.ltCI a c :=
  ltF_congr lowerU lowerI a c (fun x hx => lowerU_eq_lowerI x (ha x hx)) (fun x hx => lowerU_eq_lowerI x (hc x hx))

theorem eqSpec_eq_eqCI (a c : Bytes) (ha : ∀ x ∈ a, x ≠ 255) (hc : ∀ x ∈ c, x ≠ 255) :
    Str.eqF lowerU a c = Str.eqCI a c :=
  eqF_congr lowerU lowerI a c (fun x hx => lowerU_eq_lowerI x (ha x hx)) (fun x hx => lowerU_eq_lowerI x (hc x hx))

/-! ## 2. `increasing` is pairwise sortedness -/

theorem increasing_pairwise : ∀ (l : List Bytes), increasing l = true → l.Pairwise (fun a b => ltSpec a b = true)
  | [], _ => List.Pairwise.nil
  | [_], _ => List.pairwise_singleton _ _
  | a :: b :: r, h => by
    simp only [increasing, Bool.and_eq_true] at h
    have ih := increasing_pairwise (b :: r) h.2
    rw [List.pairwise_cons]
    refine ⟨?_, ih⟩
    intro c hc
    rcases List.mem_cons.mp hc with rfl | hc
    · exact h.1
    · exact ltF_trans lowerU a b c h.1 ((List.pairwise_cons.mp ih).1 c hc)

theorem pairwise_increasing : ∀ (l : List Bytes), l.Pairwise (fun a b => ltSpec a b = true) → increasing l = true
  | [], _ => rfl
  | [_], _ => rfl
  | a :: b :: r, h => by
    rw [List.pairwise_cons] at h
    simp only [increasing, Bool.and_eq_true]
    exact ⟨h.1 b (List.mem_cons_self ..), pairwise_increasing (b :: r) h.2⟩

theorem increasing_iff_pairwise (l : List Bytes) : increasing l = true ↔ l.Pairwise (fun a b => ltSpec a b = true) :=
  ⟨increasing_pairwise l, pairwise_increasing l⟩

/-- a list strictly sorted by the library's comparator, whose names avoid 0xFF, is increasing in the spec's order -/
theorem increasing_of_sortedS (l : List Bytes) (h : Str.SortedS id l) (h255 : ∀ n ∈ l, ∀ x ∈ n, x ≠ 255) :
    increasing l = true := by
  apply pairwise_increasing
  unfold SortedS at h
  refine List.Pairwise.imp_of_mem ?_ h
  intro a b ha hb hab
  rw [ltSpec_eq_ltCI a b (h255 a ha) (h255 b hb)]
  exact hab

/-! ## 3. binary search -/

/-- completeness for a generic comparator: the search interval always contains `i` -/
theorem bsearch_finds (lt : Bytes → Bytes → Bool)
    (htrans : ∀ a b c, lt a b = true → lt b c = true → lt a c = true) (hirr : ∀ a, lt a a = false)
    (names : List Bytes) (x : Bytes) (i : Nat) (hi : i < names.length)
    (hx1 : lt x names[i] = false) (hx2 : lt names[i] x = false)
    (hcomp : ∀ j (hj : j < names.length), j < i → lt names[j] x = true)
    (hcomp2 : ∀ j (hj : j < names.length), i < j → lt x names[j] = true) :
    ∀ fuel lo hi', lo ≤ i → i < hi' → hi' ≤ names.length → hi' - lo < fuel →
      bsearch lt names x fuel lo hi' = some i := by
  intro fuel
  induction fuel with
  | zero => intro lo hi' _ _ _ h; omega
  | succ fuel ih =>
    intro lo hi' h1 h2 h3 h4
    have hmid : (lo + hi') / 2 < names.length := by omega
    simp only [bsearch]
    rw [if_neg (by omega), List.getElem?_eq_getElem hmid]
    simp only []
    rcases Nat.lt_trichotomy ((lo + hi') / 2) i with hlt | heq | hgt
    · have a := hcomp _ hmid hlt
      have b : lt x names[(lo + hi') / 2] = false := by
        cases hb : lt x names[(lo + hi') / 2]
        · rfl
        · have := htrans _ _ _ hb a
          rw [hirr] at this; exact absurd this (by simp)
      rw [b, a]
      simp only [Bool.false_eq_true, if_false, if_true]
      exact ih ((lo + hi') / 2 + 1) hi' (by omega) h2 h3 (by omega)
    · have e : names[(lo + hi') / 2] = names[i] := by simp only [heq]
      rw [e, hx1, hx2]
      simp only [Bool.false_eq_true, if_false, heq]
    · rw [hcomp2 _ hmid hgt]
      simp only [if_true]
      exact ih lo ((lo + hi') / 2) h1 hgt (by omega) (by omega)

/-- soundness for any comparator and any list: a reported index lies in the interval and its entry is incomparable with `x` -/
theorem bsearch_sound (lt : Bytes → Bytes → Bool) (names : List Bytes) (x : Bytes) :
    ∀ fuel lo hi' i, bsearch lt names x fuel lo hi' = some i →
      ∃ h : i < names.length, lt x names[i] = false ∧ lt names[i] x = false ∧ lo ≤ i ∧ i < hi' := by
  intro fuel
  induction fuel with
  | zero => intro lo hi' i h; simp [bsearch] at h
  | succ fuel ih =>
    intro lo hi' i h
    simp only [bsearch] at h
    split at h
    · exact absurd h (by simp)
    · rename_i hlo
      split at h
      · exact absurd h (by simp)
      · rename_i n hn
        have ⟨hm, hn'⟩ := List.getElem?_eq_some_iff.mp hn
        split at h
        · have ⟨a, b, c, d, e⟩ := ih _ _ _ h
          exact ⟨a, b, c, d, by omega⟩
        · rename_i hl1
          split at h
          · have ⟨a, b, c, d, e⟩ := ih _ _ _ h
            exact ⟨a, b, c, by omega, e⟩
          · rename_i hl2
            have hi : (lo + hi') / 2 = i := by simpa using h
            subst hi
            refine ⟨hm, ?_, ?_, by omega, by omega⟩
            · rw [hn']; simpa using hl1
            · rw [hn']; simpa using hl2

/-- `a < b` and `b ~ c` give `a < c` -/
theorem ltF_of_eqF_right {α : Type} (f : α → Int) (a b c : List α) (hab : ltF f a b = true) (hbc : eqF f b c = true) :
    ltF f a c = true := by
  cases hac : ltF f a c
  · cases hca : ltF f c a
    · have e1 : eqF f a c = true := (incomp_iff_eqF f a c).mp ⟨hac, hca⟩
      have e2 : eqF f a b = true := eqF_trans f a c b e1 (eqF_symm f b c hbc)
      have := (incomp_iff_eqF f a b).mpr e2
      rw [hab] at this; exact absurd this.1 (by simp)
    · have hcb : ltF f c b = true := ltF_trans f c a b hca hab
      have := (incomp_iff_eqF f b c).mpr hbc
      rw [hcb] at this; exact absurd this.2 (by simp)
  · rfl

/-- completeness for any strict weak ordering over a pairwise sorted list -/
theorem bsearch_finds_sorted (lt : Bytes → Bytes → Bool)
    (htrans : ∀ a b c, lt a b = true → lt b c = true → lt a c = true) (hirr : ∀ a, lt a a = false)
    (hleft : ∀ a b c, lt a b = true → lt a c = false → lt c a = false → lt c b = true)
    (hright : ∀ a b c, lt a b = true → lt b c = false → lt c b = false → lt a c = true)
    (names : List Bytes) (hs : names.Pairwise (fun a b => lt a b = true))
    (x : Bytes) (i : Nat) (hi : i < names.length)
    (hx1 : lt x names[i] = false) (hx2 : lt names[i] x = false) :
    bsearch lt names x (names.length + 1) 0 names.length = some i := by
  rw [List.pairwise_iff_getElem] at hs
  refine bsearch_finds lt htrans hirr names x i hi hx1 hx2 ?_ ?_ _ _ _ (Nat.zero_le _) hi (Nat.le_refl _) (by omega)
  · intro j hj hji
    exact hright _ _ _ (hs j i hj hi hji) hx2 hx1
  · intro j hj hij
    exact hleft _ _ _ (hs i j hi hj hij) hx2 hx1

/-- the lookup finds the (unique) entry equal to `x` ignoring case -/
theorem lookup_finds (names : List Bytes) (hs : increasing names = true) (i : Nat) (hi : i < names.length)
    (x : Bytes) (hx : Str.eqF lowerU x names[i] = true) : lookup names x = some i := by
  have hinc := (incomp_iff_eqF lowerU x names[i]).mpr hx
  unfold lookup
  refine bsearch_finds_sorted ltSpec (ltF_trans lowerU) (ltF_irrefl lowerU) ?_ ?_ names (increasing_pairwise names hs)
    x i hi hinc.1 hinc.2
  · intro a b c hab h1 h2
    exact ltF_of_eqF_left lowerU a b c hab ((incomp_iff_eqF lowerU a c).mp ⟨h1, h2⟩)
  · intro a b c hab h1 h2
    exact ltF_of_eqF_right lowerU a b c hab ((incomp_iff_eqF lowerU b c).mp ⟨h1, h2⟩)

theorem lookup_finds_self (names : List Bytes) (hs : increasing names = true) (i : Nat) (hi : i < names.length) :
    lookup names names[i] = some i :=
  lookup_finds names hs i hi names[i] (eqF_refl lowerU _)

/-- whatever the list, a reported index names an entry equal to `x` ignoring case -/
theorem lookup_sound (names : List Bytes) (x : Bytes) (i : Nat) (h : lookup names x = some i) :
    ∃ hi : i < names.length, Str.eqF lowerU x names[i] = true := by
  have ⟨hi, a, b, _, _⟩ := bsearch_sound ltSpec names x _ _ _ _ h
  exact ⟨hi, (incomp_iff_eqF lowerU x names[i]).mp ⟨a, b⟩⟩

/-- on an increasing list the lookup reports `i` exactly when `x` is the `i`-th name ignoring case -/
theorem lookup_eq_some_iff (names : List Bytes) (hs : increasing names = true) (x : Bytes) (i : Nat) :
    lookup names x = some i ↔ ∃ hi : i < names.length, Str.eqF lowerU x names[i] = true :=
  ⟨lookup_sound names x i, fun ⟨hi, hx⟩ => lookup_finds names hs i hi x hx⟩

/-- on an increasing list the lookup fails exactly when no name equals `x` ignoring case -/
theorem lookup_eq_none_iff (names : List Bytes) (hs : increasing names = true) (x : Bytes) :
    lookup names x = none ↔ ∀ n ∈ names, Str.eqF lowerU x n = false := by
  constructor
  · intro h n hn
    have ⟨i, hi, e⟩ := List.getElem_of_mem hn
    cases hx : eqF lowerU x n
    · rfl
    · subst e
      rw [lookup_finds names hs i hi x hx] at h
      exact absurd h (by simp)
  · intro h
    cases hl : lookup names x with
    | none => rfl
    | some i =>
      have ⟨hi, e⟩ := lookup_sound names x i hl
      rw [h _ (List.getElem_mem hi)] at e
      exact absurd e (by simp)

/-! ## 4. any letter case -/

/-- swap the case of an ASCII letter -/
def flipCase (b : UInt8) : UInt8 :=
  if 65 ≤ b.toNat ∧ b.toNat ≤ 90 then UInt8.ofNat (b.toNat + 32)
  else if 97 ≤ b.toNat ∧ b.toNat ≤ 122 then UInt8.ofNat (b.toNat - 32)
  else b

theorem lowerU_flipCase (b : UInt8) : lowerU (flipCase b) = lowerU b := by
  have hb := b.toNat_lt
  unfold flipCase
  split
  · rename_i h
    unfold lowerU
    have e : (UInt8.ofNat (b.toNat + 32)).toNat = b.toNat + 32 := by
      rw [UInt8.toNat_ofNat']; omega
    rw [e, if_pos h, if_neg (by omega)]
  · rename_i h
    split
    · rename_i h2
      unfold lowerU
      have e : (UInt8.ofNat (b.toNat - 32)).toNat = b.toNat - 32 := by
        rw [UInt8.toNat_ofNat']; omega
      rw [e, if_neg h, if_pos (by omega)]
      have : b.toNat - 32 + 32 = b.toNat := by omega
      rw [this]
    · rfl

/-- `n` with the case of the letters selected by `mask` swapped (positions beyond the mask unchanged) -/
def anyCase (mask : List Bool) (n : Bytes) : Bytes :=
  List.zipWith (fun m b => if m then flipCase b else b) (mask ++ List.replicate n.length false) n

theorem anyCase_length (mask : List Bool) (n : Bytes) : (anyCase mask n).length = n.length := by
  unfold anyCase
  rw [List.length_zipWith, List.length_append, List.length_replicate]
  omega

theorem eqF_zipWith_flipCase : ∀ (ms : List Bool) (n : Bytes), n.length ≤ ms.length →
    Str.eqF lowerU (List.zipWith (fun m b => if m then flipCase b else b) ms n) n = true
  | _, [], _ => by simp [eqF]
  | [], _ :: _, h => by simp at h
  | m :: ms, b :: n, h => by
    simp only [List.zipWith_cons_cons, eqF, Bool.and_eq_true, beq_iff_eq]
    refine ⟨?_, eqF_zipWith_flipCase ms n (by simpa using h)⟩
    cases m
    · simp
    · simp [lowerU_flipCase]

theorem eqF_map_flipCase (n : Bytes) (mask : List Bool) : Str.eqF lowerU (anyCase mask n) n = true := by
  unfold anyCase
  apply eqF_zipWith_flipCase
  rw [List.length_append, List.length_replicate]
  omega

/-- the lookup finds a name spelled in any letter case -/
theorem lookup_any_case (names : List Bytes) (hs : increasing names = true) (i : Nat) (hi : i < names.length)
    (mask : List Bool) : lookup names (anyCase mask names[i]) = some i :=
  lookup_finds names hs i hi _ (eqF_map_flipCase names[i] mask)

/-! ## non-vacuity -/

example : increasing [[65], [98], [67, 49]] = true := by decide
example : lookup [[65], [98], [67, 49]] [99, 49] = some 2 := by decide
example : lookup [[65], [98], [67, 49]] [66] = some 1 := by decide
example : lookup [[65], [98], [67, 49]] [100] = none := by decide
example : anyCase [true, false, true] [97, 98, 67, 49] = [65, 98, 99, 49] := by decide
example : lookup [[65], [98], [67, 49]] (anyCase [true, true] [67, 49]) = some 2 :=
  lookup_any_case [[65], [98], [67, 49]] (by decide) 2 (by decide) [true, true]
/-- the two folds differ at 0xFF, so the side condition of `lowerU_eq_lowerI` is needed -/
example : lowerU 255 ≠ Str.lowerI 255 := by decide

end Op2.Vol.Spec
