import Op2Model.Vol
import Op2Proofs.WriterLemmas
/-!
# VOL creation: the 32/64-bit layout arithmetic of `PrepareHeader` equals the declarative layout of the format
-/
namespace Op2.Vol
open Op2

/-! ## `& ~3` -/
theorem and_mask_eq (k : Nat) (x : Nat) (h : x < 2 ^ (k + 2)) : x &&& ((2 ^ k - 1) <<< 2) = x / 4 * 4 := by
  apply Nat.eq_of_testBit_eq
  intro i
  rw [Nat.testBit_and, Nat.testBit_shiftLeft, Nat.testBit_two_pow_sub_one]
  have e2 : x / 4 * 4 = (x >>> 2) <<< 2 := by
    rw [Nat.shiftLeft_eq, Nat.shiftRight_eq_div_pow]
  rw [e2, Nat.testBit_shiftLeft, Nat.testBit_shiftRight]
  by_cases h2 : 2 ≤ i
  · have : 2 + (i - 2) = i := by omega
    simp only [h2, decide_true, Bool.true_and, this]
    by_cases h3 : i - 2 < k
    · simp [h3]
    · simp only [h3, decide_false, Bool.and_false]
      have : x < 2 ^ i := by
        have : (2:Nat) ^ (k + 2) ≤ 2 ^ i := Nat.pow_le_pow_right (by decide) (by omega)
        omega
      exact (Nat.testBit_lt_two_pow this).symm
  · simp [h2]

theorem mask32_eq (x : Nat) (h : x < 4294967296) : mask32 x = x / 4 * 4 := by
  have e : (4294967292 : Nat) = (2 ^ 30 - 1) <<< 2 := by decide
  unfold mask32; rw [e]; exact and_mask_eq 30 x (by simpa using h)

theorem mask64_eq (x : Nat) (h : x < 18446744073709551616) : mask64 x = x / 4 * 4 := by
  have e : (18446744073709551612 : Nat) = (2 ^ 62 - 1) <<< 2 := by decide
  unfold mask64; rw [e]; exact and_mask_eq 62 x (by simpa using h)

/-! ## the chunked copy delivers the content -/
theorem Content.toBytes_length (c : Content) : c.toBytes.length = c.len := by
  cases c <;> simp [Content.toBytes, Content.len, Op2.zeros]

theorem copyAll_eq (c : Content) : copyAll c = c.toBytes := by
  unfold copyAll
  have := Stream.copy_spec copyChunk (by decide) (c.len + 1) { data := c.toBytes, pos := 0 } []
    (by simp) (by simp [Content.toBytes_length])
  rw [this]; simp

/-! ## first loop of `PrepareHeader` -/
def tableLen (l : List InFile) : Nat := (l.map (fun f => (nameOf f).length + 1)).sum

def mkEntries : List InFile → Nat → List Entry
  | [], _ => []
  | f :: fs, stl =>
    { nameOff := stl, dataOff := 0, size := f.content.len, comp := uncompressed } :: mkEntries fs (stl + (nameOf f).length + 1)

def allSmall (l : List InFile) : Prop := ∀ f ∈ l, f.content.len ≤ int32Max

theorem prepLoop_err : ∀ (l : List InFile) (stl : Nat) (e : Err), prepLoop l stl = .error e → e = .refused
  | [], _, e, h => by simp [prepLoop] at h
  | f :: fs, stl, e, h => by
    simp only [prepLoop] at h
    split at h
    · simp at h; exact h.symm
    · split at h
      · simp at h; exact h.symm
      · split at h
        · simp at h
        · rename_i e' he
          simp at h; subst h
          exact prepLoop_err fs _ _ he

theorem prepLoop_ok : ∀ (l : List InFile) (stl : Nat) (es : List Entry) (stl' : Nat),
    prepLoop l stl = .ok (es, stl') → stl ≤ uint32Max →
    es = mkEntries l stl ∧ stl' = stl + tableLen l ∧ stl' ≤ uint32Max ∧ allSmall l
  | [], stl, es, stl', h, hs => by
    simp [prepLoop] at h
    obtain ⟨rfl, rfl⟩ := h
    simp [mkEntries, tableLen, allSmall, hs]
  | f :: fs, stl, es, stl', h, hs => by
    simp only [prepLoop] at h
    split at h
    · simp at h
    · rename_i h1
      split at h
      · simp at h
      · rename_i h2
        split at h
        · rename_i es0 stl0 he
          simp at h
          obtain ⟨rfl, rfl⟩ := h
          have e1 : u32 (stl + u32 (nameOf f).length + 1) = stl + (nameOf f).length + 1 := by
            simp only [u32, W32, uint32Max] at *; omega
          rw [e1] at he
          obtain ⟨r1, r2, r3, r4⟩ := prepLoop_ok fs _ _ _ he (by simp only [uint32Max] at *; omega)
          refine ⟨by rw [r1]; rfl, ?_, r3, ?_⟩
          · rw [r2]; simp only [tableLen, List.map_cons, List.sum_cons]; omega
          · intro g hg
            rcases List.mem_cons.mp hg with rfl | hg
            · omega
            · exact r4 g hg
        · simp at h

theorem prepLoop_succeeds : ∀ (l : List InFile) (stl : Nat), allSmall l → stl + tableLen l ≤ uint32Max →
    prepLoop l stl = .ok (mkEntries l stl, stl + tableLen l)
  | [], stl, _, _ => by simp [prepLoop, mkEntries, tableLen]
  | f :: fs, stl, ha, hs => by
    have hf : f.content.len ≤ int32Max := ha f (by simp)
    simp only [tableLen, List.map_cons, List.sum_cons] at hs
    have hs' : (List.map (fun f => (nameOf f).length + 1) fs).sum = tableLen fs := rfl
    rw [hs'] at hs
    simp only [prepLoop]
    rw [if_neg (by omega), if_neg (by omega)]
    have e1 : u32 (stl + u32 (nameOf f).length + 1) = stl + (nameOf f).length + 1 := by
      simp only [u32, W32, uint32Max] at *; omega
    rw [e1, prepLoop_succeeds fs _ (fun g hg => ha g (by simp [hg])) (by omega)]
    simp only [mkEntries, tableLen, List.map_cons, List.sum_cons]
    congr 2; omega

theorem prepLoop_big : ∀ (l : List InFile) (stl : Nat), (∃ f ∈ l, f.content.len > int32Max) →
    prepLoop l stl = .error .refused
  | [], _, h => by simp at h
  | f :: fs, stl, h => by
    simp only [prepLoop]
    by_cases h1 : f.content.len > int32Max
    · rw [if_pos h1]
    · rw [if_neg h1]
      split
      · rfl
      · obtain ⟨g, hg, hgl⟩ := h
        rcases List.mem_cons.mp hg with rfl | hg
        · exact absurd hgl h1
        · rw [prepLoop_big fs _ ⟨g, hg, hgl⟩]

theorem mkEntries_length : ∀ (l : List InFile) (stl : Nat), (mkEntries l stl).length = l.length
  | [], _ => rfl
  | _ :: fs, stl => by simp [mkEntries, mkEntries_length fs]

/-! ## second loop: block offsets -/
def mkOffsets : Nat → List Entry → List Entry
  | _, [] => []
  | off, e :: es => { e with dataOff := off } :: mkOffsets (off + 8 + Spec.pad4 e.size) es

/-- every offset handed out from `off` on fits 32 bits -/
def offsFit : Nat → List Entry → Prop
  | _, [] => True
  | off, e :: es => off ≤ uint32Max ∧ offsFit (off + 8 + Spec.pad4 e.size) es

def sizesSmall (es : List Entry) : Prop := ∀ e ∈ es, e.size ≤ int32Max

theorem next_off (po ps : Nat) (h4 : po % 4 = 0) (hpo : po ≤ uint32Max) (hps : ps ≤ int32Max) :
    mask64 (u64 (po + ps + blockPad)) = po + 8 + Spec.pad4 ps := by
  have hlt : po + ps + blockPad < 18446744073709551616 := by simp only [uint32Max, int32Max, blockPad] at *; omega
  have : u64 (po + ps + blockPad) = po + ps + blockPad := by simp only [u64, W64]; omega
  rw [this, mask64_eq _ hlt]
  simp only [Spec.pad4, blockPad]; omega

theorem offLoop_ok : ∀ (es : List Entry) (po ps : Nat), po % 4 = 0 → po ≤ uint32Max → ps ≤ int32Max → sizesSmall es →
    offsFit (po + 8 + Spec.pad4 ps) es → offLoop po ps es = .ok (mkOffsets (po + 8 + Spec.pad4 ps) es)
  | [], _, _, _, _, _, _, _ => by simp [offLoop, mkOffsets]
  | e :: es, po, ps, h4, hpo, hps, hs, hf => by
    simp only [offLoop]
    rw [next_off po ps h4 hpo hps]
    obtain ⟨hf1, hf2⟩ := hf
    rw [if_neg (by omega)]
    have e1 : u32 (po + 8 + Spec.pad4 ps) = po + 8 + Spec.pad4 ps := by simp only [u32, W32, uint32Max] at *; omega
    rw [e1, offLoop_ok es _ _ (by simp only [Spec.pad4]; omega) hf1 (hs e (by simp)) (fun x hx => hs x (by simp [hx])) hf2]
    simp [mkOffsets]

theorem offLoop_refuses : ∀ (es : List Entry) (po ps : Nat), po % 4 = 0 → po ≤ uint32Max → ps ≤ int32Max → sizesSmall es →
    ¬ offsFit (po + 8 + Spec.pad4 ps) es → offLoop po ps es = .error .refused
  | [], _, _, _, _, _, _, hf => by simp [offsFit] at hf
  | e :: es, po, ps, h4, hpo, hps, hs, hf => by
    simp only [offLoop]
    rw [next_off po ps h4 hpo hps]
    by_cases h1 : po + 8 + Spec.pad4 ps > uint32Max
    · rw [if_pos h1]
    · rw [if_neg h1]
      have e1 : u32 (po + 8 + Spec.pad4 ps) = po + 8 + Spec.pad4 ps := by simp only [u32, W32, uint32Max] at *; omega
      have hf2 : ¬ offsFit (po + 8 + Spec.pad4 ps + 8 + Spec.pad4 e.size) es := by
        intro hc; exact hf ⟨by omega, hc⟩
      rw [e1, offLoop_refuses es _ _ (by simp only [Spec.pad4]; omega) (by omega) (hs e (by simp)) (fun x hx => hs x (by simp [hx])) hf2]

theorem offLoop_err : ∀ (es : List Entry) (po ps : Nat) (x : Err), offLoop po ps es = .error x → x = .refused
  | [], _, _, x, h => by simp [offLoop] at h
  | e :: es, po, ps, x, h => by
    simp only [offLoop] at h
    split at h
    · simp at h; exact h.symm
    · split at h
      · simp at h
      · rename_i x' hx
        simp at h; subst h
        exact offLoop_err es _ _ _ hx

theorem assignOffsets_err (first : Nat) (es : List Entry) (x : Err) (h : assignOffsets first es = .error x) : x = .refused := by
  cases es with
  | nil => simp [assignOffsets] at h
  | cons e es =>
    simp only [assignOffsets] at h
    split at h
    · simp at h
    · rename_i x' hx
      simp at h; subst h
      exact offLoop_err _ _ _ _ hx

theorem assignOffsets_ok (first : Nat) (es : List Entry) (h4 : first % 4 = 0) (hf : first ≤ uint32Max) (hs : sizesSmall es)
    (hfit : offsFit first es) : assignOffsets first es = .ok (mkOffsets first es) := by
  cases es with
  | nil => simp [assignOffsets, mkOffsets]
  | cons e es =>
    simp only [assignOffsets]
    rw [offLoop_ok es first e.size h4 hf (hs e (by simp)) (fun x hx => hs x (by simp [hx])) hfit.2]
    simp [mkOffsets]

theorem assignOffsets_refuses (first : Nat) (es : List Entry) (h4 : first % 4 = 0) (hf : first ≤ uint32Max) (hs : sizesSmall es)
    (hfit : ¬ offsFit first es) : assignOffsets first es = .error .refused := by
  cases es with
  | nil => simp [offsFit] at hfit
  | cons e es =>
    simp only [assignOffsets]
    have : ¬ offsFit (first + 8 + Spec.pad4 e.size) es := fun hc => hfit ⟨hf, hc⟩
    rw [offLoop_refuses es first e.size h4 hf (hs e (by simp)) (fun x hx => hs x (by simp [hx])) this]

theorem mkEntries_sizesSmall : ∀ (l : List InFile) (stl : Nat), allSmall l → sizesSmall (mkEntries l stl)
  | [], _, _ => by simp [mkEntries, sizesSmall]
  | f :: fs, stl, h => by
    intro e he
    simp only [mkEntries, List.mem_cons] at he
    rcases he with rfl | he
    · exact h f (by simp)
    · exact mkEntries_sizesSmall fs _ (fun g hg => h g (by simp [hg])) e he

end Op2.Vol
