import Op2Model.Vol
import Op2Proofs.ParserLemmas
import Op2Proofs.Vol.ReadRef
/-!
# Op2Proofs.Vol.StrictDec — completeness of the executable conformance check; `Spec.StrictWF` is decidable

`Spec.parse` reads the fields of an archive back without validating anything.  On the reference encoding of a strict
description it recovers that description (`parse_refEncode`), so `Spec.strictWF` (parse, check strictness, re-encode,
compare) accepts every conforming archive (`strictWF_complete`).  With the soundness direction this gives
`strictWF b = true ↔ StrictWF b` and a `Decidable (StrictWF b)` instance.
-/
namespace Op2.Vol.Spec
open Op2

/-! ## reads at the end of an explicit prefix -/

theorem at32_split (b pre post : Bytes) (v p : Nat) (hb : b = pre ++ (encU32 v ++ post)) (hp : p = pre.length)
    (hv : v < 4294967296) : at32 b p = v := by
  subst hb hp
  unfold at32
  rw [List.drop_left' rfl]
  exact Parser.decU32_encU32 v hv post

theorem at16_split (b pre post : Bytes) (v p : Nat) (hb : b = pre ++ (encU16 v ++ post)) (hp : p = pre.length)
    (hv : v < 65536) : at16 b p = v := by
  subst hb hp
  unfold at16
  rw [List.drop_left' rfl]
  exact Parser.decU16_encU16 v hv post

/-! ## the name table, split by the spec's own splitter -/

theorem splitGo_name (name : Bytes) (h0 : ∀ x ∈ name, x ≠ 0) (rest cur : Bytes) (acc : List Bytes) :
    splitGo (name ++ 0 :: rest) cur acc = splitGo rest [] ((cur.reverse ++ name) :: acc) := by
  induction name generalizing cur with
  | nil => simp [splitGo]
  | cons c name ih =>
    have hc : c ≠ 0 := h0 c (by simp)
    rw [List.cons_append, splitGo, if_neg hc, ih (fun x hx => h0 x (by simp [hx]))]
    simp

theorem splitGo_table (ms : List Member) (h0 : ∀ m ∈ ms, ∀ x ∈ m.name, x ≠ 0) (acc : List Bytes) :
    splitGo (nameTable ms) [] acc = acc.reverse ++ ms.map (·.name) := by
  induction ms generalizing acc with
  | nil => simp [nameTable, splitGo]
  | cons m ms ih =>
    rw [nameTable_cons, splitGo_name _ (h0 m (by simp)), ih (fun m' hm => h0 m' (by simp [hm]))]
    simp

theorem splitGo_nameTable (ms : List Member) (h0 : ∀ m ∈ ms, memberOk m = true) :
    splitGo (nameTable ms) [] [] = ms.map (·.name) := by
  rw [splitGo_table ms (fun m hm => memberOk_name m (h0 m hm))]; rfl

/-! ## the members, read back entry by entry -/

/-- `parseMembers` over the tail `rest` of the members: the entries of `rest` sit at `ebase + 14 * k`, their blocks at
    `doff` -/
theorem parseMembers_entries (b : Bytes) (ebase : Nat) : ∀ (rest : List Member) (k noff doff : Nat) (A Q B C : Bytes),
    b = A ++ (entries noff doff rest ++ Q) → A.length = ebase + 14 * k →
    b = B ++ (rest.flatMap block ++ C) → B.length = doff →
    (∀ m ∈ rest, memberOk m = true) → offsetsOk doff rest = true →
    parseMembers b ebase k (rest.map (·.name)) = rest
  | [], _, _, _, _, _, _, _, _, _, _, _, _, _ => rfl
  | m :: ms, k, noff, doff, A, Q, B, C, hA, hAl, hB, hBl, hm, ho => by
    have hmo := hm m (by simp)
    simp only [memberOk, Bool.and_eq_true, decide_eq_true_eq] at hmo
    obtain ⟨⟨⟨_, hpl⟩, hsz⟩, hcp⟩ := hmo
    simp only [offsetsOk, Bool.and_eq_true, decide_eq_true_eq] at ho
    obtain ⟨hd, ho'⟩ := ho
    -- the four reads of the entry
    have r4 : at32 b (ebase + 14 * k + 4) = doff :=
      at32_split b (A ++ encU32 noff) _ doff _
        (by rw [hA]; simp only [entries, List.append_assoc]; rfl)
        (by rw [List.length_append, hAl, Parser.encU32_length]) hd
    have r8 : at32 b (ebase + 14 * k + 8) = m.size :=
      at32_split b (A ++ (encU32 noff ++ encU32 doff)) _ m.size _
        (by rw [hA]; simp only [entries, List.append_assoc]; rfl)
        (by simp only [List.length_append, hAl, Parser.encU32_length]) hsz
    have r12 : at16 b (ebase + 14 * k + 12) = m.comp :=
      at16_split b (A ++ (encU32 noff ++ (encU32 doff ++ encU32 m.size))) _ m.comp _
        (by rw [hA]; simp only [entries, List.append_assoc]; rfl)
        (by simp only [List.length_append, hAl, Parser.encU32_length]) hcp
    -- the block header and the payload
    have rl : at32 b (doff + 4) = 2147483648 + m.payload.length :=
      at32_split b (B ++ [86, 66, 76, 75]) _ _ _
        (by rw [hB]; simp only [List.flatMap_cons, block, sec, List.append_assoc]; rfl)
        (by rw [List.length_append, hBl]; rfl) (by omega)
    have rp : (b.drop (doff + 8)).take m.payload.length = m.payload := by
      rw [hB]
      simp only [List.flatMap_cons, block, List.append_assoc]
      rw [← List.append_assoc]
      exact Op2.Vol.drop_take_mid _ _ _ _ _ (by rw [List.length_append, hBl, sec_length _ _ rfl]) rfl
    have hlen : (2147483648 + m.payload.length) % 2147483648 = m.payload.length := by omega
    -- the tail
    have ih := parseMembers_entries b ebase ms (k + 1) (noff + m.name.length + 1) (doff + blockLen m)
      (A ++ (encU32 noff ++ (encU32 doff ++ (encU32 m.size ++ encU16 m.comp)))) Q (B ++ block m) C
      (by rw [hA]; simp only [entries, List.append_assoc])
      (by simp only [List.length_append, hAl, Parser.encU32_length, Parser.encU16_length]; omega)
      (by rw [hB]; simp only [List.flatMap_cons, List.append_assoc])
      (by rw [List.length_append, hBl, block_length])
      (fun m' h' => hm m' (by simp [h'])) ho'
    rw [List.map_cons, parseMembers]
    simp only [r4, r8, r12, rl, hlen, rp, ih]

/-! ## strictness, unpacked -/

theorem strict_parts (d : Desc) (h : d.Strict) : d.WF ∧ d.unused = 0 ∧ d.slack = 0 := by
  simp only [Desc.Strict, Desc.strict, Bool.and_eq_true, decide_eq_true_eq] at h
  exact ⟨h.1.1.1.1, h.1.1.1.2, h.1.1.2⟩

/-! ## the header fields -/

section fields
variable (hl sl il : Nat) (N Z1 X : Bytes)

theorem lay_at20 (hsl : sl < 2147483648) : at32 (layout hl sl il N Z1 X) 20 = 2147483648 + sl :=
  at32_split _ (sec [86, 79, 76, 32] hl ++ (sec [118, 111, 108, 104] 0 ++ [118, 111, 108, 115])) _ _ _
    (by simp only [layout, sec, List.append_assoc]; rfl)
    (by simp only [List.length_append]; rw [sec_length _ _ rfl, sec_length _ _ rfl]; rfl) (by omega)

theorem lay_at24 (hN : N.length < 4294967296) : at32 (layout hl sl il N Z1 X) 24 = N.length :=
  at32_split _ (sec [86, 79, 76, 32] hl ++ (sec [118, 111, 108, 104] 0 ++ sec [118, 111, 108, 115] sl)) _ _ _
    (by simp only [layout, List.append_assoc]; rfl)
    (by simp only [List.length_append]; rw [sec_length _ _ rfl, sec_length _ _ rfl, sec_length _ _ rfl]) hN

theorem lay_names : ((layout hl sl il N Z1 X).drop 28).take N.length = N := by
  have e : layout hl sl il N Z1 X = (sec [86, 79, 76, 32] hl ++ (sec [118, 111, 108, 104] 0
      ++ (sec [118, 111, 108, 115] sl ++ encU32 N.length))) ++ (N ++ (Z1 ++ (sec [118, 111, 108, 105] il ++ X))) := by
    simp only [layout, List.append_assoc]
  rw [e]
  exact Op2.Vol.drop_take_mid _ N _ 28 N.length
    (by simp only [List.length_append, Parser.encU32_length]
        rw [sec_length _ _ rfl, sec_length _ _ rfl, sec_length _ _ rfl]) rfl

/-- everything in front of the index entries -/
def front : Bytes :=
  sec [86, 79, 76, 32] hl ++ (sec [118, 111, 108, 104] 0 ++ (sec [118, 111, 108, 115] sl
    ++ (encU32 N.length ++ (N ++ (Z1 ++ sec [118, 111, 108, 105] il)))))

theorem front_length : (front hl sl il N Z1).length = 36 + N.length + Z1.length := by
  simp only [front, List.length_append, Parser.encU32_length]
  rw [sec_length _ _ rfl, sec_length _ _ rfl, sec_length _ _ rfl, sec_length _ _ rfl]
  omega

theorem layout_front : layout hl sl il N Z1 X = front hl sl il N Z1 ++ X := by
  simp only [layout, front, List.append_assoc]

end fields

/-! ## the loose reader on the reference encoding -/

theorem parseMembers_refEncode (d : Desc) (h : d.WF) :
    parseMembers (refEncode d) (32 + volsLen d) 0 (d.members.map (·.name)) = d.members := by
  obtain ⟨hm, _, ho, _⟩ := wf_parts d h
  have hz := namePad0_length d
  refine parseMembers_entries (refEncode d) (32 + volsLen d) d.members 0 0 (headerLen d)
    (front (headerLen d - 8) (volsLen d) (voliLen d) (nameTable d.members) (namePad0 d))
    ((List.replicate d.unused unusedEntry).flatten
      ++ (zeros (pad4 (voliLen d) - 14 * (d.members.length + d.unused)) ++ d.members.flatMap block))
    (header d) [] ?_ ?_ ?_ (header_length d) hm ho
  · rw [refEncode_eq, layout_front]; simp only [idxBody, List.append_assoc]
  · rw [front_length]; omega
  · rw [List.append_nil]; rfl

/-- the loose field reader recovers a well-formed description without unused slots or slack from its encoding -/
theorem parse_refEncode_wf (d : Desc) (h : d.WF) (hu : d.unused = 0) (hs : d.slack = 0) :
    parse (refEncode d) = d := by
  obtain ⟨hm, hh, _, _⟩ := wf_parts d h
  have h1 := nameTable_lt_header d
  have hv : volsLen d < 2147483648 := by simp only [headerLen] at hh; omega
  have e20 : at32 (refEncode d) 20 % 2147483648 = volsLen d := by
    rw [refEncode_eq, lay_at20 _ _ _ _ _ _ hv]; omega
  have e24 : at32 (refEncode d) 24 = (nameTable d.members).length := by
    rw [refEncode_eq, lay_at24 _ _ _ _ _ _ (by omega)]
  have enm : ((refEncode d).drop 28).take (nameTable d.members).length = nameTable d.members := by
    rw [refEncode_eq, lay_names]
  unfold parse
  simp only [e20, e24, enm, splitGo_nameTable d.members hm, parseMembers_refEncode d h]
  cases d
  simp only at hu hs
  simp only [hu, hs]

/-- the loose field reader recovers a strict description from its encoding -/
theorem parse_refEncode (d : Desc) (h : d.Strict) : parse (refEncode d) = d := by
  obtain ⟨hw, hu, hs⟩ := strict_parts d h
  exact parse_refEncode_wf d hw hu hs

/-! ## the executable check decides conformance -/

/-- completeness: every conforming archive passes the executable check -/
theorem strictWF_complete (b : Bytes) (h : StrictWF b) : strictWF b = true := by
  obtain ⟨d, hd, rfl⟩ := h
  unfold strictWF
  simp only [parse_refEncode d hd, Bool.and_eq_true, beq_iff_eq]
  exact ⟨hd, trivial⟩

theorem strictWF_sound (b : Bytes) (h : strictWF b = true) : StrictWF b := by
  unfold strictWF at h
  simp only [Bool.and_eq_true, beq_iff_eq] at h
  exact ⟨parse b, h.1, h.2⟩

theorem strictWF_iff (b : Bytes) : strictWF b = true ↔ StrictWF b :=
  ⟨strictWF_sound b, strictWF_complete b⟩

instance (b : Bytes) : Decidable (StrictWF b) := decidable_of_iff _ (strictWF_iff b)

/-- a conforming archive determines its description: the one the loose reader returns -/
theorem strict_desc_unique (d : Desc) (b : Bytes) (hd : d.Strict) (hb : refEncode d = b) : d = parse b := by
  rw [← hb, parse_refEncode d hd]

/-- the reference encoder is injective on strict descriptions -/
theorem refEncode_injective_strict (d₁ d₂ : Desc) (h₁ : d₁.Strict) (h₂ : d₂.Strict)
    (h : refEncode d₁ = refEncode d₂) : d₁ = d₂ := by
  rw [← parse_refEncode d₁ h₁, ← parse_refEncode d₂ h₂, h]

/-! ## non-vacuity -/
example : StrictWF (refEncode ⟨[⟨[65], [1, 2, 3], 3, 256⟩], 0, 0⟩) := by decide
example : StrictWF (refEncode ⟨[⟨[65], [1, 2, 3], 3, 256⟩, ⟨[98, 46, 99], [], 0, 256⟩], 0, 0⟩) := by decide
example : StrictWF (refEncode ⟨[], 0, 0⟩) := by decide
example : ¬ StrictWF [1, 2, 3] := by decide
/-- a well-formed but not strict description (compression code 259) does not conform -/
example : ¬ StrictWF (refEncode ⟨[⟨[65], [1, 2, 3], 3, 259⟩], 0, 0⟩) := by decide
example : parse (refEncode ⟨[⟨[65], [1, 2, 3], 3, 256⟩], 0, 0⟩) = ⟨[⟨[65], [1, 2, 3], 3, 256⟩], 0, 0⟩ := by decide

end Op2.Vol.Spec
