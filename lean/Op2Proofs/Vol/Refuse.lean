import Op2Proofs.Vol.Create
import Op2Proofs.Vol.Search
/-!
# VOL creation: refusals, order independence, and the strictness of what is written
-/
namespace Op2.Vol
open Op2 Op2.Str

theorem sorted_names_sortedW (files : List InFile) : SortedW id ((sortCI nameOf files).map nameOf) := by
  have := sortCI_sorted nameOf files
  unfold SortedW at *
  rw [List.pairwise_map]
  exact this

theorem nodup_names_iff (l : List InFile) : NoDupCI id (l.map nameOf) ↔ NoDupCI nameOf l := by
  unfold NoDupCI; rw [List.pairwise_map]; rfl

/-- the adjacent-duplicate test on the sorted names decides exactly "two inputs have names equal ignoring case" -/
theorem adjDup_iff (files : List InFile) :
    hasAdjacentDup ((sortCI nameOf files).map nameOf) = true ↔ ¬ NoDupCI nameOf files := by
  rw [hasAdjacentDup_iff _ (sorted_names_sortedW files)]
  unfold HasDupCI
  rw [nodup_names_iff]
  constructor
  · intro h hn; exact h (hn.perm nameOf (sortCI_perm nameOf files).symm)
  · intro h hn; exact h (hn.perm nameOf (sortCI_perm nameOf files))

theorem plan_dup_refused (out : Bytes) (files : List InFile) (h : ¬ NoDupCI nameOf files) :
    plan out files = .error .refused := by
  unfold plan
  simp only
  rw [if_pos ((adjDup_iff files).mpr h)]

/-- what a successful `plan` implies, with no assumption on the size of the header -/
theorem plan_ok_basic (out : Bytes) (files : List InFile) (p : Plan) (h : plan out files = .ok p) :
    NoDupCI nameOf files ∧ allSmall (sortCI nameOf files) ∧
    (sortCI nameOf files).any (fun f => Path.pathsAreEqual out f.path) = false ∧ out.isEmpty = false := by
  unfold plan at h
  simp only at h
  split at h
  · simp at h
  · rename_i hdup
    split at h
    · simp at h
    · rename_i es stl hprep
      obtain ⟨_, _, _, r4⟩ := prepLoop_ok _ _ _ _ hprep (by simp [uint32Max])
      split at h
      · simp at h
      · split at h
        · simp at h
        · split at h
          · simp at h
          · rename_i hself
            split at h
            · simp at h
            · rename_i hout
              refine ⟨?_, r4, by simpa using hself, by simpa using hout⟩
              apply Classical.byContradiction
              intro hc
              exact hdup ((adjDup_iff files).mpr hc)

theorem create_ok_basic (out : Bytes) (files : List InFile) (b : Bytes) (h : create out files = .ok b) :
    NoDupCI nameOf files ∧ allSmall (sortCI nameOf files) ∧
    (sortCI nameOf files).any (fun f => Path.pathsAreEqual out f.path) = false ∧ out.isEmpty = false := by
  unfold create at h
  split at h
  · rename_i p hp; exact plan_ok_basic out files p hp
  · simp at h

/-- `create` either succeeds or refuses with `refused`; to show a refusal it is enough to refute success -/
theorem create_refused_of_not_ok (out : Bytes) (files : List InFile) (h : ∀ b, create out files ≠ .ok b) :
    create out files = .error .refused := by
  cases hc : create out files with
  | ok b => exact absurd hc (h b)
  | error e => rw [create_err out files e hc]

theorem createFs_refused (out : Bytes) (files : List InFile) (fs : Fs) (h : create out files = .error .refused) :
    createFs out files fs = (fs, .error .refused) := by
  unfold createFs; rw [h]

/-- `plan` looks at the inputs only through their sorted arrangement -/
theorem plan_congr (out : Bytes) (files files' : List InFile) (h : sortCI nameOf files = sortCI nameOf files') :
    plan out files = plan out files' := by
  unfold plan; simp only; rw [h]

/-! ## declarative block offsets -/

/-- where the k-th block of the archive made from the sorted list `l` starts -/
def blockOffset (l : List InFile) (k : Nat) : Nat :=
  Spec.headerLen (descOf l) + ((l.take k).map (fun f => 8 + Spec.pad4 f.content.len)).sum

theorem offsFit_iff : ∀ (l : List InFile) (stl off : Nat),
    offsFit off (mkEntries l stl) ↔ ∀ k, k < l.length → off + ((l.take k).map (fun f => 8 + Spec.pad4 f.content.len)).sum ≤ uint32Max
  | [], _, _ => by simp [mkEntries, offsFit]
  | f :: fs, stl, off => by
    simp only [mkEntries, offsFit]
    rw [offsFit_iff fs]
    constructor
    · rintro ⟨h0, h1⟩ k hk
      cases k with
      | zero => simpa using h0
      | succ j =>
        have := h1 j (by simpa using hk)
        simp only [List.take_succ_cons, List.map_cons, List.sum_cons]
        omega
    · intro h
      refine ⟨by simpa using h 0 (by simp), ?_⟩
      intro j hj
      have := h (j + 1) (by simpa using hj)
      simp only [List.take_succ_cons, List.map_cons, List.sum_cons] at this
      omega

theorem offsetsOk_of_offsFit : ∀ (l : List InFile) (stl off : Nat), offsFit off (mkEntries l stl) →
    Spec.offsetsOk off (l.map memberOf) = true
  | [], _, _, _ => rfl
  | f :: fs, stl, off, h => by
    simp only [mkEntries, offsFit] at h
    simp only [List.map_cons, Spec.offsetsOk, Bool.and_eq_true, decide_eq_true_eq]
    refine ⟨by have := h.1; simp only [uint32Max] at this; omega, ?_⟩
    have := offsetsOk_of_offsFit fs _ _ h.2
    simpa [Spec.blockLen, memberOf, Content.toBytes_length, Nat.add_assoc] using this

/-- all the conditions under which `CreateArchive` must succeed, in ℕ -/
structure Fits (out : Bytes) (files : List InFile) : Prop where
  nodup : NoDupCI nameOf files
  small : ∀ f ∈ files, f.content.len < 2147483648
  header : Spec.headerLen (descOf (sortCI nameOf files)) < 2147483648
  offsets : ∀ k, k < files.length → blockOffset (sortCI nameOf files) k ≤ 4294967295
  notSelf : ∀ f ∈ files, Path.pathsAreEqual out f.path = false
  outNonempty : out ≠ []

theorem Fits.good {out : Bytes} {files : List InFile} (h : Fits out files) : Good out (sortCI nameOf files) where
  nodup := by
    cases hd : hasAdjacentDup ((sortCI nameOf files).map nameOf)
    · rfl
    · exact absurd h.nodup ((adjDup_iff files).mp hd)
  small := by
    intro f hf
    have := h.small f ((sortCI_perm nameOf files).mem_iff.mp hf)
    simp only [int32Max]; omega
  header := h.header
  fit := by
    rw [offsFit_iff]
    intro k hk
    have hl : (sortCI nameOf files).length = files.length := (sortCI_perm nameOf files).length_eq
    have := h.offsets k (by omega)
    simp only [blockOffset, uint32Max] at *; omega
  notSelf := by
    rw [List.any_eq_false]
    intro f hf
    rw [h.notSelf f ((sortCI_perm nameOf files).mem_iff.mp hf)]; simp
  outNonempty := by
    cases hout : out with
    | nil => exact absurd hout h.outNonempty
    | cons _ _ => rfl

/-! ## what is written is a strict description -/

def NameOk (n : Bytes) : Prop := ∀ x ∈ n, x ≠ 0 ∧ x ≠ 255

theorem descOf_strict (out : Bytes) (l : List InFile) (g : Good out l) (hs : SortedW id (l.map nameOf))
    (hn : ∀ f ∈ l, NameOk (nameOf f)) : (descOf l).Strict := by
  have hnd : NoDupCI id (l.map nameOf) := by
    apply Classical.byContradiction
    intro hc
    have := hasAdjacentDup_complete _ hs hc
    rw [g.nodup] at this; simp at this
  have hinc : Spec.increasing (l.map nameOf) = true := by
    apply Spec.increasing_of_sortedS _ (hs.strict id hnd)
    intro n hn' x hx
    obtain ⟨f, hf, rfl⟩ := List.mem_map.mp hn'
    exact (hn f hf x hx).2
  have hmem : (l.map memberOf).all Spec.memberOk = true := by
    rw [List.all_eq_true]
    intro m hm
    obtain ⟨f, hf, rfl⟩ := List.mem_map.mp hm
    have h1 := g.small f hf
    simp only [Spec.memberOk, memberOf, Content.toBytes_length, Bool.and_eq_true, Bool.not_eq_true', decide_eq_true_eq, uncompressed]
    simp only [int32Max] at h1
    refine ⟨⟨⟨?_, by omega⟩, by apply decide_eq_true; show f.content.len < 4294967296; omega⟩, by apply decide_eq_true; omega⟩
    cases hc : (nameOf f).contains 0
    · rfl
    · have := List.contains_iff_mem.mp hc
      exact absurd rfl (hn f hf 0 this).1
  have hall : (l.map memberOf).all (fun m => decide (m.comp = 256) && decide (m.size = m.payload.length)) = true := by
    rw [List.all_eq_true]
    intro m hm
    obtain ⟨f, hf, rfl⟩ := List.mem_map.mp hm
    simp [memberOf, uncompressed, Content.toBytes_length]
  have hnames : (l.map memberOf).map (·.name) = l.map nameOf := by simp [memberOf]
  unfold Spec.Desc.Strict Spec.Desc.strict Spec.Desc.wf
  simp only [descOf, hmem, hall, hnames, hinc, Bool.and_eq_true, Bool.or_eq_true, decide_eq_true_eq, and_true, true_and]
  have hh := g.header
  have hf := offsetsOk_of_offsFit _ _ _ g.fit
  simp only [descOf] at hh hf
  exact ⟨⟨decide_eq_true hh, hf⟩, Or.inl (by apply decide_eq_true; omega)⟩

theorem Strict.wf {d : Spec.Desc} (h : d.Strict) : d.WF := by
  unfold Spec.Desc.Strict Spec.Desc.strict at h
  simp only [Bool.and_eq_true] at h
  exact h.1.1.1.1

theorem extract_of_kind_stream (v : View) (i : Nat) (b : Bytes) (hk : v.kind i = .ok uncompressed) (hs : v.stream i = .ok b) :
    v.extract i = .ok (some b) := by
  unfold View.extract
  unfold View.kind at hk
  cases he : v.entry i with
  | error e => rw [he] at hk; simp [Except.map] at hk
  | ok e =>
    rw [he] at hk
    simp only [Except.map, Except.ok.injEq] at hk
    simp only [hk, if_true, hs, Except.map]

end Op2.Vol
