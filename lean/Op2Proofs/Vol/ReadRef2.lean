import Op2Proofs.Vol.ReadRef1
/-!
# Op2Proofs.Vol.ReadRef2 — the header walk of `openWith` over an abstractly given header
-/
namespace Op2.Vol
open Op2

/-- the byte layout `openWith` walks through: three section headers, the name table with its own length and its
    padding, the index section header, and whatever follows (`X`: entries, padding, blocks) -/
def layout (hl sl il : Nat) (N Z1 X : Bytes) : Bytes :=
  Spec.sec [86, 79, 76, 32] hl ++ (Spec.sec [118, 111, 108, 104] 0 ++ (Spec.sec [118, 111, 108, 115] sl
    ++ (encU32 N.length ++ (N ++ (Z1 ++ (Spec.sec [118, 111, 108, 105] il ++ X))))))

theorem layout_length (hl sl il : Nat) (N Z1 X : Bytes) :
    (layout hl sl il N Z1 X).length = 36 + N.length + Z1.length + X.length := by
  simp only [layout, List.length_append, Parser.encU32_length]
  rw [sec_length _ _ rfl, sec_length _ _ rfl, sec_length _ _ rfl, sec_length _ _ rfl]
  omega

section walk
variable (hl sl il : Nat) (N Z1 X : Bytes)

theorem lay_r0 (hhl : hl < 2147483648) : readTag (layout hl sl il N Z1 X) 0 tagVOL = .ok hl :=
  readTag_split _ [] _ tagVOL 0 hl rfl rfl rfl hhl

theorem lay_r8 : readTag (layout hl sl il N Z1 X) 8 tagVOLH = .ok 0 :=
  readTag_split _ (Spec.sec [86, 79, 76, 32] hl) _ tagVOLH 8 0 rfl (sec_length _ _ rfl).symm rfl (by omega)

theorem lay_r16 (hsl : sl < 2147483648) : readTag (layout hl sl il N Z1 X) 16 tagVOLS = .ok sl :=
  readTag_split _ (Spec.sec [86, 79, 76, 32] hl ++ Spec.sec [118, 111, 108, 104] 0) _ tagVOLS 16 sl
    (by simp only [layout, List.append_assoc]; rfl)
    (by rw [List.length_append, sec_length _ _ rfl, sec_length _ _ rfl]) rfl hsl

theorem lay_r24 : readAt (layout hl sl il N Z1 X) 24 4 = .ok (encU32 N.length) :=
  readAt_split _ (Spec.sec [86, 79, 76, 32] hl ++ (Spec.sec [118, 111, 108, 104] 0
      ++ Spec.sec [118, 111, 108, 115] sl)) _
    (N ++ (Z1 ++ (Spec.sec [118, 111, 108, 105] il ++ X))) 24 4
    (by simp only [layout, List.append_assoc])
    (by simp only [List.length_append]; rw [sec_length _ _ rfl, sec_length _ _ rfl, sec_length _ _ rfl])
    rfl

theorem lay_r28 : readAt (layout hl sl il N Z1 X) 28 N.length = .ok N :=
  readAt_split _ (Spec.sec [86, 79, 76, 32] hl ++ (Spec.sec [118, 111, 108, 104] 0
      ++ (Spec.sec [118, 111, 108, 115] sl ++ encU32 N.length))) _
    (Z1 ++ (Spec.sec [118, 111, 108, 105] il ++ X)) 28 N.length
    (by simp only [layout, List.append_assoc])
    (by simp only [List.length_append, Parser.encU32_length]
        rw [sec_length _ _ rfl, sec_length _ _ rfl, sec_length _ _ rfl])
    rfl

theorem lay_rI (hZ : 4 + N.length + Z1.length = sl) (hil : il < 2147483648) :
    readTag (layout hl sl il N Z1 X) (24 + sl) tagVOLI = .ok il :=
  readTag_split _ (Spec.sec [86, 79, 76, 32] hl ++ (Spec.sec [118, 111, 108, 104] 0
      ++ (Spec.sec [118, 111, 108, 115] sl ++ (encU32 N.length ++ (N ++ Z1))))) X tagVOLI (24 + sl) il
    (by simp only [layout, List.append_assoc]; rfl)
    (by simp only [List.length_append, Parser.encU32_length]
        rw [sec_length _ _ rfl, sec_length _ _ rfl, sec_length _ _ rfl]; omega)
    rfl hil

theorem lay_rE (hZ : 4 + N.length + Z1.length = sl) (n : Nat) (hn : n ≤ X.length) :
    readAt (layout hl sl il N Z1 X) (24 + sl + 8) n = .ok (X.take n) :=
  readAt_take _ (Spec.sec [86, 79, 76, 32] hl ++ (Spec.sec [118, 111, 108, 104] 0
      ++ (Spec.sec [118, 111, 108, 115] sl ++ (encU32 N.length ++ (N ++ (Z1
      ++ Spec.sec [118, 111, 108, 105] il)))))) X (24 + sl + 8) n
    (by simp only [layout, List.append_assoc])
    (by simp only [List.length_append, Parser.encU32_length]
        rw [sec_length _ _ rfl, sec_length _ _ rfl, sec_length _ _ rfl, sec_length _ _ rfl]; omega)
    hn

/-- the refusal the encoder's well-formedness does not exclude: a name table of `allocCap` bytes or more -/
theorem openWith_layout_alloc (cfg : Cfg) (hhl : hl < 2147483648) (hsl : sl < 2147483648)
    (hZ : 4 + N.length + Z1.length = sl) (hh : sl + il + 24 ≤ hl) (hfl : hl + 8 ≤ (layout hl sl il N Z1 X).length)
    (hN : allocCap ≤ N.length) (hN32 : N.length < 4294967296) :
    openWith cfg (layout hl sl il N Z1 X) = .error (.err .alloc) := by
  have dec : decU32 (encU32 N.length) = N.length := by
    have := Parser.decU32_encU32 N.length hN32 []
    rwa [List.append_nil] at this
  have g1 : ¬ (layout hl sl il N Z1 X).length < secSize := by simp only [secSize]; omega
  have g2 : ¬ (layout hl sl il N Z1 X).length < hl + secSize := by simp only [secSize]; omega
  have g3 : ¬ hl < sl + secSize * 2 + 4 := by simp only [secSize]; omega
  have g4 : N.length ≥ allocCap := hN
  unfold openWith
  simp only [lay_r0 hl sl il N Z1 X hhl, lay_r8, lay_r16 hl sl il N Z1 X hsl, lay_r24, dec, g1, g2, g3, g4,
    ne_eq, not_true_eq_false, ↓reduceIte]

theorem openWith_layout (hhl : hl < 2147483648) (hsl : sl < 2147483648) (hil : il < 2147483648)
    (hZ : 4 + N.length + Z1.length = sl) (hh : sl + il + 24 ≤ hl) (hfl : hl + 8 ≤ (layout hl sl il N Z1 X).length)
    (hN : N.length < allocCap) (hX : il / 14 * 14 ≤ X.length) (hI : il / 14 * 14 ≤ allocCap)
    (hcv : countValid (decEntries (il / 14) X) ≤ (splitNames N).length) :
    openWith Cfg.fixed (layout hl sl il N Z1 X) =
      .ok { file := layout hl sl il N Z1 X, names := splitNames N, entries := decEntries (il / 14) X,
            count := countValid (decEntries (il / 14) X) } := by
  have dec : decU32 (encU32 N.length) = N.length := by
    have := Parser.decU32_encU32 N.length (by simp only [allocCap] at hN; omega) []
    rwa [List.append_nil] at this
  have g1 : ¬ (layout hl sl il N Z1 X).length < secSize := by simp only [secSize]; omega
  have g2 : ¬ (layout hl sl il N Z1 X).length < hl + secSize := by simp only [secSize]; omega
  have g3 : ¬ hl < sl + secSize * 2 + 4 := by simp only [secSize]; omega
  have g4 : ¬ N.length ≥ allocCap := by omega
  have hp : 28 + N.length + u32 (2 * W32 + sl - N.length - 4) = 24 + sl := by
    simp only [u32, W32]; omega
  have g5 : ¬ il / entrySize * entrySize > allocCap := by simp only [entrySize]; omega
  have rE := lay_rE hl sl il N Z1 X hZ (il / entrySize * entrySize) hX
  have hc : copyInto (il / entrySize * entrySize) (X.take (il / entrySize * entrySize))
      = .ok (X.take (il / entrySize * entrySize)) := by
    unfold copyInto; rw [if_pos]; rw [List.length_take]; omega
  have hde : decEntries (il / entrySize) (X.take (il / entrySize * entrySize)) = decEntries (il / entrySize) X :=
    decEntries_take _ _ _ (Nat.le_refl _)
  have g6 : ¬ hl < u32 (sl + il + headerExtra) := by simp only [u32, W32, headerExtra]; omega
  have g7 : ¬ countValid (decEntries (il / entrySize) X) > (splitNames N).length := by
    show ¬ countValid (decEntries (il / 14) X) > (splitNames N).length
    omega
  unfold openWith
  by_cases hpos : il > 0
  · simp only [lay_r0 hl sl il N Z1 X hhl, lay_r8, lay_r16 hl sl il N Z1 X hsl, lay_r24, dec, lay_r28, hp,
      lay_rI hl sl il N Z1 X hZ hil, rE, hc, hde, g1, g2, g3, g4, g5, g6, g7, hpos, Cfg.fixed,
      ne_eq, not_true_eq_false, ↓reduceIte, Bool.true_and, decide_false,
      Bool.false_eq_true]
    rfl
  · have h0 : il = 0 := by omega
    subst h0
    have g6' : ¬ hl < u32 (sl + 0 + headerExtra) := g6
    simp only [lay_r0 hl sl 0 N Z1 X hhl, lay_r8, lay_r16 hl sl 0 N Z1 X hsl, lay_r24, dec, lay_r28, hp,
      lay_rI hl sl 0 N Z1 X hZ hil, g1, g2, g3, g4, g6', Cfg.fixed,
      ne_eq, not_true_eq_false, ↓reduceIte, Bool.true_and, decide_false,
      Bool.false_eq_true, Nat.lt_irrefl, gt_iff_lt, countValid, Nat.not_lt_zero]
    rfl

end walk

end Op2.Vol
