import Op2Proofs.Lzh.Good
import Op2Proofs.Lzh.EncBits
import Op2Proofs.Huff.J
/-!
# Reading back one Huffman code: `nextCode` along the encoder's root-to-leaf bits ends on that symbol's leaf
-/
namespace Op2.Lzh
open Op2 Op2.Huff Op2.Lzh.Spec

/-- the stream holds the bits `bs` at positions `p, p+1, …`, all of them before its end -/
def Starts (data : Array UInt8) (p : Nat) (bs : List Nat) : Prop :=
  p + bs.length ≤ bitSize data ∧ ∀ i, i < bs.length → bitAt data (p + i) = bs.getD i 0

theorem Starts.append {data : Array UInt8} {p : Nat} {a b : List Nat} (h : Starts data p (a ++ b)) :
    Starts data p a ∧ Starts data (p + a.length) b := by
  obtain ⟨h1, h2⟩ := h
  rw [List.length_append] at h1
  refine ⟨⟨by omega, ?_⟩, ⟨by omega, ?_⟩⟩
  · intro i hi
    have := h2 i (by rw [List.length_append]; omega)
    rw [this]
    simp only [List.getD_eq_getElem?_getD]
    rw [List.getElem?_append_left hi]
  · intro i hi
    have := h2 (a.length + i) (by rw [List.length_append]; omega)
    rw [show p + a.length + i = p + (a.length + i) by omega, this]
    simp only [List.getD_eq_getElem?_getD]
    rw [List.getElem?_append_right (by omega)]
    rw [show a.length + i - a.length = i by omega]

theorem Starts.cons {data : Array UInt8} {p b : Nat} {bs : List Nat} (h : Starts data p (b :: bs)) :
    readBit data p = (b, p + 1) ∧ Starts data (p + 1) bs := by
  obtain ⟨h1, h2⟩ := h
  simp only [List.length_cons] at h1 h2
  refine ⟨?_, ⟨by omega, ?_⟩⟩
  · unfold readBit
    rw [if_neg (by omega)]
    have := h2 0 (by omega)
    rw [Nat.add_zero, List.getD_cons_zero] at this
    rw [this]
  · intro i hi
    have := h2 (i + 1) (by omega)
    rw [List.getD_cons_succ] at this
    rw [show p + 1 + i = p + (i + 1) by omega, this]

theorem Starts.lt {data : Array UInt8} {p b : Nat} {bs : List Nat} (h : Starts data p (b :: bs)) : p < bitSize data := by
  have := h.1; simp only [List.length_cons] at this; omega

/-- the leaf-to-root path of a node is no longer than its distance from the root -/
theorem up_length_le {t : TF} (s : TF.Struct t) : ∀ fuel j, j < t.n → (TF.up t j fuel).length ≤ t.root - j := by
  intro fuel
  induction fuel with
  | zero => intro j _; simp [TF.up]
  | succ f ih =>
    intro j hj
    simp only [TF.up]
    split
    · simp
    · rename_i e
      have hj' : j < t.n - 1 := by unfold TF.root at e; omega
      obtain ⟨hp, _, hlt, _⟩ := s.parent_lt hj'
      have := ih (t.par j) hp
      simp only [List.length_cons]
      unfold TF.root at *
      omega

/-- walking the decoder along the reversed leaf-to-root bits of node `j` arrives at `j` with the cursor moved by
    the path length -/
theorem nextCode_up {t : TA} (k : TreeOk t) (data : Array UInt8) : ∀ fuel j, j < t.n → t.root - j ≤ fuel → ∀ F p,
    Starts data p (TF.up t.view j fuel).reverse →
    nextCode t data (F + (TF.up t.view j fuel).length) t.root p = nextCode t data F j (p + (TF.up t.view j fuel).length) := by
  intro fuel
  induction fuel with
  | zero =>
    intro j hj hd F p _
    have : j = t.root := by unfold TA.root at *; omega
    subst this; simp [TF.up]
  | succ f ih =>
    intro j hj hd F p hs
    simp only [TF.up] at hs ⊢
    split
    · rename_i e
      have : j = t.root := e
      subst this; simp
    · rename_i e
      rw [if_neg e] at hs
      have hj' : j < t.view.n - 1 := by
        have : t.view.root = t.view.n - 1 := rfl
        have : t.view.n = t.n := rfl
        omega
      obtain ⟨hp, hinner, hlt, _⟩ := k.wf.st.parent_lt hj'
      have hdown := k.wf.st.down hj'
      rw [List.reverse_cons] at hs
      obtain ⟨hs1, hs2⟩ := hs.append
      rw [List.length_reverse] at hs2
      obtain ⟨hb, _⟩ := hs2.cons
      have := ih (t.view.par j) hp (by unfold TA.root at *; omega) (F + 1) p hs1
      simp only [List.length_cons]
      rw [show F + ((TF.up t.view (t.view.par j) f).length + 1) = F + 1 + (TF.up t.view (t.view.par j) f).length by omega, this]
      have hnot : ¬ (t.view.par j ≥ t.n) := by have : t.view.n = t.n := rfl; omega
      have hl : ¬ (t.link.getD (t.view.par j) 0 ≥ t.n) := by
        have : t.view.link (t.view.par j) = t.link.getD (t.view.par j) 0 := rfl
        have : t.view.n = t.n := rfl
        omega
      simp only [nextCode, TA.isLeaf, TA.child, if_neg hnot, decide_eq_false hl, hb]
      have : t.link.getD (t.view.par j) 0 + j % 2 = j := hdown
      rw [this]
      rw [show p + (TF.up t.view (t.view.par j) f).length + 1 = p + ((TF.up t.view (t.view.par j) f).length + 1) by omega]

theorem up_pos (t : TF) (j fuel : Nat) (hne : j ≠ t.root) (hf : 0 < fuel) : 0 < (TF.up t j fuel).length := by
  cases fuel with
  | zero => omega
  | succ f => simp only [TF.up, if_neg hne, List.length_cons]; omega

/-- every symbol's code is at least one bit long (its leaf is not the root) -/
theorem codeBits_pos {t : TA} (k : TreeOk t) {c : Nat} (hc : c < t.T) : 0 < (codeBits t c).length := by
  obtain ⟨h1, h2⟩ := k.wf.st.chC (c + t.view.n) (by omega) (by have : t.view.T = t.T := rfl; omega)
  have hri := k.wf.st.rootInner
  have hne : t.view.par (c + t.view.n) ≠ t.view.root := by
    intro e; rw [e] at h2; omega
  have hT := k.wf.st.hT
  have hn : 0 < t.view.n := by have : t.view.n = 2 * t.view.T - 1 := rfl; omega
  unfold codeBits TF.encode
  rw [List.length_reverse]
  exact up_pos _ _ _ hne hn

theorem codeBits_bits (t : TA) (c : Nat) : ∀ b ∈ codeBits t c, b < 2 := by
  intro b hb
  unfold codeBits TF.encode at hb
  rw [List.mem_reverse] at hb
  exact TF.up_bits _ _ _ b hb

/-- **one Huffman code round trip**: if the stream continues with the encoder's bits for `c`, `GetNextCode` returns
    `c` and has consumed exactly those bits -/
theorem nextCode_encode {t : TA} (k : TreeOk t) (data : Array UInt8) {c : Nat} (hc : c < t.T) (p : Nat)
    (hs : Starts data p (codeBits t c)) : nextCode t data t.n t.root p = .ok (c, p + (codeBits t c).length) := by
  have hvn : t.view.n = t.n := rfl
  obtain ⟨h1, h2⟩ := k.wf.st.chC (c + t.view.n) (by omega) (by have : t.view.T = t.T := rfl; omega)
  have hlen := up_length_le k.wf.st t.view.n _ h1
  unfold codeBits TF.encode at hs ⊢
  rw [List.length_reverse]
  generalize hj : t.view.par (c + t.view.n) = j at *
  have hroot : t.view.root = t.n - 1 := rfl
  have hF : t.n = (t.n - (TF.up t.view j t.view.n).length - 1 + 1) + (TF.up t.view j t.view.n).length := by omega
  have := nextCode_up k data t.view.n j (by omega) (by unfold TA.root; omega) (t.n - (TF.up t.view j t.view.n).length - 1 + 1) p hs
  rw [← hF] at this
  rw [this]
  have hnot : ¬ (j ≥ t.n) := by omega
  have hl : t.link.getD j 0 ≥ t.n := by
    have : t.view.link j = t.link.getD j 0 := rfl
    omega
  simp only [nextCode, TA.isLeaf, TA.nodeData, if_neg hnot, decide_eq_true hl]
  have : t.link.getD j 0 - t.n = c := by
    have : t.view.link j = t.link.getD j 0 := rfl
    omega
  rw [this]

end Op2.Lzh
