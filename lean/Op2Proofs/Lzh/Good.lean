import Op2Proofs.Lzh.Step
import Op2Proofs.Huff.Agree
/-!
# The reference run: tree well-formedness along it, progress of the bit cursor, termination, monotone history
-/
namespace Op2.Lzh
open Op2 Op2.Huff Op2.Lzh.Spec

/-- the tree of a decoder state: constructor sizes, well formed, 314 symbols -/
structure TreeOk (t : TA) : Prop where
  sized : t.Sized
  wf : TF.WF t.view
  hT : t.T = symbolCount

theorem treeOk_init : TreeOk (TA.init symbolCount) := by
  obtain ⟨w, s, t⟩ := TA.init_wf symbolCount (by decide)
  exact ⟨s, w, t⟩

theorem TreeOk.update {t t' : TA} {code : Nat} (k : TreeOk t) (h : t.updateChecked code = .ok t') : TreeOk t' := by
  have hv := TA.updateChecked_view t k.sized k.wf code
  rw [h] at hv
  obtain ⟨hv1, hv2⟩ := hv
  have hc := updateChecked_lt h
  unfold TF.updateChecked at hv1
  have h1 : ¬ (code ≥ t.view.T) := by show ¬ (code ≥ t.T); omega
  rw [if_neg h1] at hv1
  split at hv1
  · simp at hv1
  · simp only [Except.ok.injEq] at hv1
    refine ⟨hv2, ?_, ?_⟩
    · rw [← hv1]; exact TF.update_wf k.wf (show code < t.view.T from hc)
    · have : t'.view.T = t.view.T := by rw [← hv1]; exact TF.update_T _ _
      exact this.trans k.hT

/-! ### the bit cursor never moves backwards, and a code read before the end moves it -/

theorem readBit_mono (data : Array UInt8) (p : Nat) : p ≤ (readBit data p).2 := by
  unfold readBit; split <;> simp

theorem readBit_progress (data : Array UInt8) (p : Nat) (h : p < bitSize data) : (readBit data p).2 = p + 1 := by
  unfold readBit; rw [if_neg (by omega)]

theorem read8_mono (data : Array UInt8) (p : Nat) : p ≤ (read8 data p).2 := by
  unfold read8; split <;> simp

theorem readExtra_mono (data : Array UInt8) : ∀ k acc p, p ≤ (readExtra data k acc p).2 := by
  intro k
  induction k with
  | zero => intro acc p; exact Nat.le_refl _
  | succ k ih =>
    intro acc p
    simp only [readExtra]
    exact Nat.le_trans (readBit_mono data p) (ih _ _)

theorem repeatOffset_mono (data : Array UInt8) (p : Nat) : p ≤ (repeatOffset data p).2 := by
  unfold repeatOffset
  exact Nat.le_trans (read8_mono data p) (readExtra_mono data _ _ _)

theorem nextCode_mono (t : TA) (data : Array UInt8) : ∀ fuel node p code p1,
    nextCode t data fuel node p = .ok (code, p1) → p ≤ p1 := by
  intro fuel
  induction fuel with
  | zero => intro node p code p1 h; simp [nextCode] at h
  | succ f ih =>
    intro node p code p1 h
    simp only [nextCode] at h
    split at h
    · simp at h
    · split at h
      · simp only [Except.ok.injEq, Prod.mk.injEq] at h; omega
      · simp at h
    · split at h
      · exact Nat.le_trans (readBit_mono data p) (ih _ _ _ _ h)
      · simp at h

/-- the root of a well-formed tree is an inner node, so every code consumes a bit while the stream lasts -/
theorem nextCode_progress {t : TA} (k : TreeOk t) (data : Array UInt8) (p code p1 : Nat)
    (h : nextCode t data t.n t.root p = .ok (code, p1)) (hp : p < bitSize data) : p < p1 := by
  have hT := k.wf.st.hT
  have hn : t.n = (t.n - 1) + 1 := by have : t.n = 2 * t.view.T - 1 := rfl; omega
  have hri := k.wf.st.rootInner
  have hroot : ¬ (t.root ≥ t.n) := by unfold TA.root; omega
  have hleaf : t.isLeaf t.root = .ok false := by
    unfold TA.isLeaf
    rw [if_neg hroot]
    have : ¬ (t.link.getD t.root 0 ≥ t.n) := by
      have : t.view.link t.view.root < t.view.n := hri
      exact Nat.not_le.mpr this
    rw [decide_eq_false this]
  rw [hn] at h
  simp only [nextCode, hleaf] at h
  split at h
  · have := nextCode_mono t data _ _ _ _ _ h
    rw [readBit_progress data p hp] at this
    omega
  · simp at h

theorem decodeSym_lit {data : Array UInt8} {t t' : TA} {p p1 c : Nat} (k : TreeOk t)
    (h : decodeSym data t p = .lit t' p1 c) : TreeOk t' ∧ p ≤ p1 ∧ (p < bitSize data → p < p1) := by
  unfold decodeSym at h
  split at h
  · simp at h
  · rename_i code q hn
    split at h
    · simp at h
    · rename_i t2 hu
      split at h
      · simp only [Sym.lit.injEq] at h
        obtain ⟨rfl, rfl, _⟩ := h
        exact ⟨k.update hu, nextCode_mono t data _ _ _ _ _ hn, nextCode_progress k data p code _ hn⟩
      · simp at h

theorem decodeSym_mat_tree {data : Array UInt8} {t t' : TA} {p p2 off len : Nat} (k : TreeOk t)
    (h : decodeSym data t p = .mat t' p2 off len) : TreeOk t' ∧ p ≤ p2 ∧ (p < bitSize data → p < p2) := by
  unfold decodeSym at h
  split at h
  · simp at h
  · rename_i code q hn
    split at h
    · simp at h
    · rename_i t2 hu
      split at h
      · simp at h
      · simp only [Sym.mat.injEq] at h
        obtain ⟨rfl, rfl, _, _⟩ := h
        have m := nextCode_mono t data _ _ _ _ _ hn
        have pr := nextCode_progress k data p code _ hn
        have := repeatOffset_mono data q
        exact ⟨k.update hu, by omega, fun h => by have := pr h; omega⟩

/-- a step that goes on has moved the bit cursor forward, stays before the end, and keeps the tree well formed -/
theorem step_next {data : Array UInt8} {t t' : TA} {p p' : Nat} {hist hist' : List UInt8} (k : TreeOk t)
    (h : Spec.step data t p hist = .next t' p' hist') : TreeOk t' ∧ p < p' ∧ p' < bitSize data ∧ hist <:+ hist' := by
  unfold Spec.step at h
  split at h
  · simp at h
  · simp at h
  · rename_i t2 p1 c hs
    have hd := decodeSym_lit k hs
    split at h
    · simp at h
    · rename_i he
      simp only [SRes.next.injEq] at h
      obtain ⟨rfl, rfl, rfl⟩ := h
      have hlt : p1 < bitSize data := by simpa [endOfStream] using he
      exact ⟨hd.1, hd.2.2 (by omega), hlt, List.suffix_cons _ _⟩
  · rename_i t2 p2 off len hs
    have hd := decodeSym_mat_tree k hs
    split at h
    · simp at h
    · rename_i he
      simp only [SRes.next.injEq] at h
      obtain ⟨rfl, rfl, rfl⟩ := h
      have hlt : p2 < bitSize data := by simpa [endOfStream] using he
      exact ⟨hd.1, hd.2.2 (by omega), hlt, copy_suffix _ _ _⟩

theorem step_last_suffix {data : Array UInt8} {t : TA} {p : Nat} {hist hist' : List UInt8}
    (h : Spec.step data t p hist = .last hist') : hist <:+ hist' := by
  unfold Spec.step at h
  split at h
  · simp at h
  · simp at h
  · split at h
    · simp only [SRes.last.injEq] at h; rw [← h]; exact List.suffix_cons _ _
    · simp at h
  · split at h
    · simp only [SRes.last.injEq] at h; rw [← h]; exact copy_suffix _ _ _
    · simp at h

/-- **termination of the reference decoder**: every code but the last consumes a bit, so `bitSize − p + 1` rounds suffice -/
theorem run_terminates (data : Array UInt8) : ∀ fuel (t : TA) (p : Nat) (hist : List UInt8), TreeOk t →
    bitSize data - p + 1 ≤ fuel → (Spec.run data fuel t p hist).2 ≠ .fuel := by
  intro fuel
  induction fuel with
  | zero => intro t p hist _ h; omega
  | succ f ih =>
    intro t p hist k h
    simp only [Spec.run]
    cases hs : Spec.step data t p hist with
    | cap => simp
    | last hist' => simp
    | next t' p' hist' =>
      obtain ⟨k', h1, h2, _⟩ := step_next k hs
      exact ih t' p' hist' k' (by omega)

/-- the history only grows -/
theorem run_suffix (data : Array UInt8) : ∀ fuel (t : TA) (p : Nat) (hist : List UInt8),
    hist <:+ (Spec.run data fuel t p hist).1 := by
  intro fuel
  induction fuel with
  | zero => intro t p hist; exact List.suffix_refl _
  | succ f ih =>
    intro t p hist
    simp only [Spec.run]
    cases hs : Spec.step data t p hist with
    | cap => exact List.suffix_refl _
    | last hist' => exact step_last_suffix hs
    | next t' p' hist' =>
      have : hist <:+ hist' := by
        unfold Spec.step at hs
        split at hs
        · simp at hs
        · simp at hs
        · split at hs
          · simp at hs
          · simp only [SRes.next.injEq] at hs; rw [← hs.2.2]; exact List.suffix_cons _ _
        · split at hs
          · simp at hs
          · simp only [SRes.next.injEq] at hs; rw [← hs.2.2]; exact copy_suffix _ _ _
      exact List.IsSuffix.trans this (ih t' p' hist')

/-- "continuing the reference decoder from this state gives `res`" -/
def Good (data : Array UInt8) (t : TA) (p : Nat) (hist : List UInt8) (res : List UInt8 × Status) : Prop :=
  ∃ F, Spec.run data F t p hist = res ∧ res.2 ≠ .fuel

theorem good_init (data : Array UInt8) :
    Good data (TA.init symbolCount) 0 [] (Spec.run data (bitSize data + 2) (TA.init symbolCount) 0 []) :=
  ⟨_, rfl, run_terminates data _ _ _ _ treeOk_init (by omega)⟩

theorem Good.next {data : Array UInt8} {t t' : TA} {p p' : Nat} {hist hist' : List UInt8} {res : List UInt8 × Status}
    (g : Good data t p hist res) (h : Spec.step data t p hist = .next t' p' hist') : Good data t' p' hist' res := by
  obtain ⟨F, hF, hne⟩ := g
  cases F with
  | zero => simp only [Spec.run] at hF; rw [← hF] at hne; simp at hne
  | succ F => simp only [Spec.run, h] at hF; exact ⟨F, hF, hne⟩

theorem Good.last {data : Array UInt8} {t : TA} {p : Nat} {hist hist' : List UInt8} {res : List UInt8 × Status}
    (g : Good data t p hist res) (h : Spec.step data t p hist = .last hist') : res = (hist', .done) := by
  obtain ⟨F, hF, hne⟩ := g
  cases F with
  | zero => simp only [Spec.run] at hF; rw [← hF] at hne; simp at hne
  | succ F => simp only [Spec.run, h] at hF; exact hF.symm

theorem Good.cap {data : Array UInt8} {t : TA} {p : Nat} {hist : List UInt8} {res : List UInt8 × Status}
    (g : Good data t p hist res) (h : Spec.step data t p hist = .cap) : res = (hist, .capacity) := by
  obtain ⟨F, hF, hne⟩ := g
  cases F with
  | zero => simp only [Spec.run] at hF; rw [← hF] at hne; simp at hne
  | succ F => simp only [Spec.run, h] at hF; exact hF.symm

theorem Good.suffix {data : Array UInt8} {t : TA} {p : Nat} {hist : List UInt8} {res : List UInt8 × Status}
    (g : Good data t p hist res) : hist <:+ res.1 := by
  obtain ⟨F, hF, _⟩ := g
  rw [← hF]; exact run_suffix data F t p hist

end Op2.Lzh

namespace Op2.Lzh
open Op2 Op2.Huff Op2.Lzh.Spec

theorem readBit_le (data : Array UInt8) (p : Nat) : (readBit data p).1 ≤ 1 := by
  unfold readBit; split
  · exact Nat.zero_le _
  · exact bitAt_le data p

/-- on a well-formed tree the walk from any node never meets a refused query, ends on a leaf and yields a symbol -/
theorem nextCode_ok {t : TA} (k : TreeOk t) (data : Array UInt8) : ∀ fuel node p, node < t.n → node < fuel →
    ∃ code p1, nextCode t data fuel node p = .ok (code, p1) ∧ code < t.T := by
  intro fuel
  induction fuel with
  | zero => intro node p _ h; omega
  | succ f ih =>
    intro node p hn hf
    have hnot : ¬ (node ≥ t.n) := by omega
    have rng := k.wf.st.rng node hn
    have hl : t.view.link node = t.link.getD node 0 := rfl
    have hvn : t.view.n = t.n := rfl
    have hvT : t.view.T = t.T := rfl
    simp only [nextCode, TA.isLeaf, TA.nodeData, TA.child, if_neg hnot]
    by_cases hleaf : t.link.getD node 0 ≥ t.n
    · rw [decide_eq_true hleaf]
      refine ⟨_, _, rfl, ?_⟩
      rcases rng with h | h
      · omega
      · omega
    · rw [decide_eq_false hleaf]
      have hb := readBit_le data p
      rcases rng with h | h
      · exact ih _ _ (by omega) (by omega)
      · omega

/-- what `decodeSym` is on a well-formed tree: the walk yields a symbol, and the only refusal is the full counter -/
theorem decodeSym_eq {t : TA} (k : TreeOk t) (data : Array UInt8) (p : Nat) :
    ∃ code p1, code < t.T ∧ decodeSym data t p =
      (if t.cnt.getD t.root 0 ≥ TF.maxCount then Sym.full p1
       else if code < 256 then Sym.lit (t.update code) p1 code
       else Sym.mat (t.update code) (repeatOffset data p1).2 (repeatOffset data p1).1 (code - matchBase)) := by
  have hT := k.wf.st.hT
  have hn : t.root < t.n := by unfold TA.root; have : t.n = 2 * t.view.T - 1 := rfl; omega
  obtain ⟨code, p1, h, hc⟩ := nextCode_ok k data t.n t.root p hn hn
  refine ⟨code, p1, hc, ?_⟩
  unfold decodeSym
  rw [h]
  simp only [TA.updateChecked, if_neg (show ¬ (code ≥ t.T) by omega)]
  by_cases hfull : t.cnt.getD t.root 0 ≥ TF.maxCount
  · rw [if_pos hfull, if_pos hfull]
  · rw [if_neg hfull, if_neg hfull]

/-- so on a well-formed tree the only way a code can fail is the tree's refusal of the update -/
theorem decodeSym_not_badQuery {t : TA} (k : TreeOk t) (data : Array UInt8) (p : Nat) : decodeSym data t p ≠ .badQuery := by
  obtain ⟨code, p1, _, h⟩ := decodeSym_eq k data p
  rw [h]
  split
  · simp
  · split <;> simp

/-- **a code is refused exactly when the tree's root counter is full** (65535 = 314 symbols + 65221 updates) -/
theorem step_cap_iff_full {t : TA} (k : TreeOk t) (data : Array UInt8) (p : Nat) (hist : List UInt8) :
    Spec.step data t p hist = .cap ↔ t.cnt.getD t.root 0 ≥ TF.maxCount := by
  obtain ⟨code, p1, _, h⟩ := decodeSym_eq k data p
  unfold Spec.step
  rw [h]
  by_cases hfull : t.cnt.getD t.root 0 ≥ TF.maxCount
  · rw [if_pos hfull]
    exact ⟨fun _ => hfull, fun _ => rfl⟩
  · rw [if_neg hfull]
    by_cases hl : code < 256
    · rw [if_pos hl]
      simp only []
      constructor
      · intro h2; split at h2 <;> simp at h2
      · intro h2; exact absurd h2 hfull
    · rw [if_neg hl]
      simp only []
      constructor
      · intro h2; split at h2 <;> simp at h2
      · intro h2; exact absurd h2 hfull

end Op2.Lzh
