import Op2Proofs.Lzh.EncWalk
/-!
# Reading back one offset code: `GetRepeatOffset` on `offsetBits off` returns `off` (bit-level lemmas and the three short prefix classes; the rest is in `EncOffsetHi`)
-/
namespace Op2.Lzh
open Op2 Op2.Huff Op2.Lzh.Spec

theorem bitsOf_3 (v : Nat) : bitsOf 3 v = [v / 4 % 2, v / 2 % 2, v % 2] := by
  unfold bitsOf
  rw [show List.range 3 = [0, 1, 2] from rfl]
  simp [Nat.shiftRight_eq_div_pow]
theorem bitsOf_4 (v : Nat) : bitsOf 4 v = [v / 8 % 2, v / 4 % 2, v / 2 % 2, v % 2] := by
  unfold bitsOf
  rw [show List.range 4 = [0, 1, 2, 3] from rfl]
  simp [Nat.shiftRight_eq_div_pow]
theorem bitsOf_5 (v : Nat) : bitsOf 5 v = [v / 16 % 2, v / 8 % 2, v / 4 % 2, v / 2 % 2, v % 2] := by
  unfold bitsOf
  rw [show List.range 5 = [0, 1, 2, 3, 4] from rfl]
  simp [Nat.shiftRight_eq_div_pow]
theorem bitsOf_6 (v : Nat) : bitsOf 6 v = [v / 32 % 2, v / 16 % 2, v / 8 % 2, v / 4 % 2, v / 2 % 2, v % 2] := by
  unfold bitsOf
  rw [show List.range 6 = [0, 1, 2, 3, 4, 5] from rfl]
  simp [Nat.shiftRight_eq_div_pow]
theorem bitsOf_7 (v : Nat) : bitsOf 7 v = [v / 64 % 2, v / 32 % 2, v / 16 % 2, v / 8 % 2, v / 4 % 2, v / 2 % 2, v % 2] := by
  unfold bitsOf
  rw [show List.range 7 = [0, 1, 2, 3, 4, 5, 6] from rfl]
  simp [Nat.shiftRight_eq_div_pow]
theorem bitsOf_8 (v : Nat) : bitsOf 8 v = [v / 128 % 2, v / 64 % 2, v / 32 % 2, v / 16 % 2, v / 8 % 2, v / 4 % 2, v / 2 % 2, v % 2] := by
  unfold bitsOf
  rw [show List.range 8 = [0, 1, 2, 3, 4, 5, 6, 7] from rfl]
  simp [Nat.shiftRight_eq_div_pow]

theorem bitsOf_lt (k v : Nat) : ∀ b ∈ bitsOf k v, b < 2 := by
  intro b hb
  unfold bitsOf at hb
  rw [List.mem_map] at hb
  obtain ⟨i, _, rfl⟩ := hb
  omega

theorem offsetBits_bits (off : Nat) : ∀ b ∈ offsetBits off, b < 2 := by
  intro b hb
  unfold offsetBits at hb
  simp only [List.mem_append] at hb
  rcases hb with hb | hb
  · split at hb
    · exact bitsOf_lt _ _ b hb
    · split at hb
      · exact bitsOf_lt _ _ b hb
      · split at hb
        · exact bitsOf_lt _ _ b hb
        · split at hb
          · exact bitsOf_lt _ _ b hb
          · split at hb
            · exact bitsOf_lt _ _ b hb
            · exact bitsOf_lt _ _ b hb
  · exact bitsOf_lt _ _ b hb

/-- the extra bits: `offset = (offset << 1) + bit` along the stream -/
theorem readExtra_starts (data : Array UInt8) : ∀ (ex : List Nat) (acc p : Nat), Starts data p ex →
    readExtra data ex.length acc p = (ex.foldl (fun a b => a * 2 + b) acc, p + ex.length) := by
  intro ex
  induction ex with
  | nil => intro acc p _; rfl
  | cons b bs ih =>
    intro acc p h
    obtain ⟨h1, h2⟩ := h.cons
    simp only [List.length_cons, readExtra, h1, List.foldl_cons]
    rw [ih _ _ h2]
    rw [show p + 1 + bs.length = p + (bs.length + 1) by omega]

theorem read8_starts (data : Array UInt8) (p b0 b1 b2 b3 b4 b5 b6 b7 : Nat) (rest : List Nat)
    (h : Starts data p ([b0, b1, b2, b3, b4, b5, b6, b7] ++ rest)) :
    read8 data p = (b0 * 128 + b1 * 64 + b2 * 32 + b3 * 16 + b4 * 8 + b5 * 4 + b6 * 2 + b7, p + 8) := by
  obtain ⟨⟨h1, h2⟩, _⟩ := h.append
  simp only [List.length_cons, List.length_nil] at h1 h2
  unfold read8 bits8
  rw [if_neg (by omega)]
  have e0 := h2 0 (by omega); have e1 := h2 1 (by omega); have e2 := h2 2 (by omega); have e3 := h2 3 (by omega)
  have e4 := h2 4 (by omega); have e5 := h2 5 (by omega); have e6 := h2 6 (by omega); have e7 := h2 7 (by omega)
  rw [Nat.add_zero] at e0
  rw [e0, e1, e2, e3, e4, e5, e6, e7]
  rfl

/-- `GetRepeatOffset` on a stream that continues with eight bits and then `ex`, when the table asks for `|ex|` more -/
theorem repeatOffset_bits (data : Array UInt8) (p b0 b1 b2 b3 b4 b5 b6 b7 : Nat) (ex : List Nat) (o u : Nat)
    (h : Starts data p ([b0, b1, b2, b3, b4, b5, b6, b7] ++ ex))
    (ho : b0 * 128 + b1 * 64 + b2 * 32 + b3 * 16 + b4 * 8 + b5 * 4 + b6 * 2 + b7 = o)
    (hm : offsetMods o = (ex.length, u)) :
    repeatOffset data p = (u * 64 + (ex.foldl (fun a b => a * 2 + b) o) % 64, p + 8 + ex.length) := by
  have h8 := read8_starts data p b0 b1 b2 b3 b4 b5 b6 b7 ex h
  rw [ho] at h8
  obtain ⟨_, hx⟩ := h.append
  have hr := readExtra_starts data ex o _ hx
  simp only [List.length_cons, List.length_nil] at hr
  unfold repeatOffset
  simp only [h8, hm, hr]

theorem offsetBits_eq (off : Nat) : offsetBits off =
    (if off / 64 = 0 then bitsOf 3 0
     else if off / 64 < 4 then bitsOf 4 (off / 64 + 1)
     else if off / 64 < 12 then bitsOf 5 (off / 64 + 6)
     else if off / 64 < 24 then bitsOf 6 (off / 64 + 24)
     else if off / 64 < 48 then bitsOf 7 (off / 64 + 72)
     else bitsOf 8 (off / 64 + 192)) ++ bitsOf 6 (off % 64) := rfl

theorem off_class1 (data : Array UInt8) (p off : Nat) (hc : off / 64 = 0) (h : Starts data p (offsetBits off)) :
    repeatOffset data p = (off, p + (offsetBits off).length) := by
  have hb : offsetBits off = [0, 0, 0, off % 64 / 32 % 2, off % 64 / 16 % 2, off % 64 / 8 % 2, off % 64 / 4 % 2, off % 64 / 2 % 2]
      ++ [off % 64 % 2] := by
    rw [offsetBits_eq, if_pos hc, bitsOf_3, bitsOf_6]; rfl
  rw [hb] at h ⊢
  rw [repeatOffset_bits data p _ _ _ _ _ _ _ _ _ (off % 64 / 2) 0 h (by omega)
    (by unfold offsetMods; rw [if_pos (by omega)]; rfl)]
  simp only [List.foldl_cons, List.foldl_nil, List.length_append, List.length_cons, List.length_nil]
  refine Prod.ext ?_ ?_ <;> simp only [] <;> omega

theorem off_class2 (data : Array UInt8) (p off : Nat) (h1 : off / 64 ≠ 0) (h2 : off / 64 < 4) (h : Starts data p (offsetBits off)) :
    repeatOffset data p = (off, p + (offsetBits off).length) := by
  have hb : offsetBits off = [(off / 64 + 1) / 8 % 2, (off / 64 + 1) / 4 % 2, (off / 64 + 1) / 2 % 2, (off / 64 + 1) % 2, (off % 64) / 32 % 2, (off % 64) / 16 % 2, (off % 64) / 8 % 2, (off % 64) / 4 % 2]
      ++ [(off % 64) / 2 % 2, (off % 64) % 2] := by
    rw [offsetBits_eq, if_neg (by omega), if_pos (by omega), bitsOf_4, bitsOf_6]; rfl
  rw [hb] at h ⊢
  rw [repeatOffset_bits data p _ _ _ _ _ _ _ _ _ ((off / 64 + 1) * 16 + off % 64 / 4) (off / 64) h (by omega)
    (by unfold offsetMods; rw [if_neg (by omega), if_pos (by omega)] <;> (refine Prod.ext ?_ ?_ <;> simp only [List.length_cons, List.length_nil] <;> omega))]
  simp only [List.foldl_cons, List.foldl_nil, List.length_append, List.length_cons, List.length_nil]
  refine Prod.ext ?_ ?_ <;> simp only [] <;> omega

theorem off_class3 (data : Array UInt8) (p off : Nat) (h1 : 4 ≤ off / 64) (h2 : off / 64 < 12) (h : Starts data p (offsetBits off)) :
    repeatOffset data p = (off, p + (offsetBits off).length) := by
  have hb : offsetBits off = [(off / 64 + 6) / 16 % 2, (off / 64 + 6) / 8 % 2, (off / 64 + 6) / 4 % 2, (off / 64 + 6) / 2 % 2, (off / 64 + 6) % 2, (off % 64) / 32 % 2, (off % 64) / 16 % 2, (off % 64) / 8 % 2]
      ++ [(off % 64) / 4 % 2, (off % 64) / 2 % 2, (off % 64) % 2] := by
    rw [offsetBits_eq, if_neg (by omega), if_neg (by omega), if_pos (by omega), bitsOf_5, bitsOf_6]; rfl
  rw [hb] at h ⊢
  rw [repeatOffset_bits data p _ _ _ _ _ _ _ _ _ ((off / 64 + 6) * 8 + off % 64 / 8) (off / 64) h (by omega)
    (by unfold offsetMods; rw [if_neg (by omega), if_neg (by omega), if_pos (by omega)] <;> (refine Prod.ext ?_ ?_ <;> simp only [List.length_cons, List.length_nil] <;> omega))]
  simp only [List.foldl_cons, List.foldl_nil, List.length_append, List.length_cons, List.length_nil]
  refine Prod.ext ?_ ?_ <;> simp only [] <;> omega

end Op2.Lzh
