import Op2Proofs.Lzh.Good
/-!
# The output queue: `fill`, `CopyAvailableData`, `GetData`, `GetInternalBuffer` deliver the reference output in order
-/
namespace Op2.Lzh
open Op2 Op2.Huff Op2.Lzh.Spec

/-- the bridging obligation on the regenerated tuning constant: the window can always take one more code -/
theorem maxFill_safe : 0 < maxFill ∧ maxFill + 60 < N := by decide

/-- `hist` (most recent first) is what has been decoded, the first `taken` bytes of it have been delivered -/
structure Inv (data : Array UInt8) (st : St) (hist : List UInt8) (taken : Nat) (res : List UInt8 × Status) : Prop where
  hdata : st.data = data
  win : WInv st.buf st.w hist
  hr : st.r < N
  cnt : taken + st.unread = hist.length
  opn : st.eos = false → Good data st.tree st.pos hist res ∧ TreeOk st.tree
  closed : st.eos = true → res = (hist, .done)

theorem inv_init (data : Array UInt8) :
    Inv data (St.init data) [] 0 (Spec.run data (bitSize data + 2) (TA.init symbolCount) 0 []) :=
  ⟨rfl, init_winv, by show (0 : Nat) < N; decide, by show 0 + (0 + N - 0) % N = 0; decide,
   fun _ => ⟨good_init data, treeOk_init⟩, fun h => by simp [St.init] at h⟩

theorem Inv.suffix {data st hist taken res} (i : Inv data st hist taken res) : hist <:+ res.1 := by
  cases h : st.eos with
  | false => exact (i.opn h).1.suffix
  | true => rw [i.closed h]; exact List.suffix_refl _

theorem unread_lt (st : St) : st.unread < N := Nat.mod_lt _ (by decide)

/-! ### FillDecompressBuffer -/

theorem fillLoop_spec (data : Array UInt8) (res : List UInt8 × Status) (taken : Nat) :
    ∀ fuel (st : St) (hist : List UInt8), Inv data st hist taken res → st.eos = false →
      maxFill - st.unread ≤ fuel →
      ((fillLoop fuel st).2 = true ∧ res.2 = .capacity) ∨
      ((fillLoop fuel st).2 = false ∧ ∃ hist', Inv data (fillLoop fuel st).1 hist' taken res ∧
          ((fillLoop fuel st).1.eos = true ∨ maxFill ≤ (fillLoop fuel st).1.unread) ∧ (fillLoop fuel st).1.r = st.r) := by
  intro fuel
  induction fuel with
  | zero =>
    intro st hist i he hf
    right
    exact ⟨rfl, hist, i, Or.inr (by show maxFill ≤ st.unread; omega), rfl⟩
  | succ f ih =>
    intro st hist i he hf
    simp only [fillLoop]
    by_cases hu : st.unread < maxFill
    · rw [if_pos hu]
      obtain ⟨g, tk⟩ := i.opn he
      have hd := dc_refines st hist i.win tk.hT
      rw [i.hdata] at hd
      have hms := maxFill_safe
      have hcnt := i.cnt
      cases hs : Spec.step data st.tree st.pos hist with
      | cap =>
        rw [hs] at hd
        obtain ⟨st', e, _⟩ := hd
        rw [e]
        left
        exact ⟨rfl, by rw [g.cap hs]⟩
      | last hist' =>
        rw [hs] at hd
        obtain ⟨st', e, S⟩ := hd
        rw [e]
        right
        obtain ⟨k, k1, k60, kl, kw⟩ := S.grow
        have hw := i.win.hw
        have hr := i.hr
        have hun : ({ st' with eos := true } : St).unread = st.unread + k := by
          show (st'.w + N - st'.r) % N = (st.w + N - st.r) % N + k
          rw [S.r, kw]
          have : (st.w + N - st.r) % N < maxFill := hu
          unfold N at *; omega
        refine ⟨rfl, hist', ⟨by show st'.data = data; rw [S.data]; exact i.hdata, S.win, by show st'.r < N; rw [S.r]; exact hr,
          by rw [hun, kl]; omega, fun h => by simp at h, fun _ => g.last hs⟩, Or.inl rfl, S.r⟩
      | next t' p' hist' =>
        rw [hs] at hd
        obtain ⟨st', e, e1, e2, S⟩ := hd
        rw [e]
        obtain ⟨k, k1, k60, kl, kw⟩ := S.grow
        have hw := i.win.hw
        have hr := i.hr
        have hun : st'.unread = st.unread + k := by
          show (st'.w + N - st'.r) % N = (st.w + N - st.r) % N + k
          rw [S.r, kw]
          have : (st.w + N - st.r) % N < maxFill := hu
          unfold N at *; omega
        obtain ⟨tk', _, _, _⟩ := step_next tk hs
        have i' : Inv data st' hist' taken res :=
          ⟨by rw [S.data]; exact i.hdata, S.win, by rw [S.r]; exact hr, by rw [hun, kl]; omega,
           fun _ => ⟨by rw [e1, e2]; exact g.next hs, by rw [e1]; exact tk'⟩,
           fun h => by rw [S.eos, he] at h; simp at h⟩
        have := ih st' hist' i' (by rw [S.eos]; exact he) (by rw [hun]; omega)
        rcases this with ⟨a, b⟩ | ⟨a, h', b, c, d⟩
        · left; exact ⟨a, b⟩
        · right; exact ⟨a, h', b, c, by rw [d, S.r]⟩
    · rw [if_neg hu]
      right
      exact ⟨rfl, hist, i, Or.inr (by show maxFill ≤ st.unread; omega), rfl⟩

theorem fill_spec (data : Array UInt8) (res : List UInt8 × Status) (taken : Nat) (st : St) (hist : List UInt8)
    (i : Inv data st hist taken res) :
    ((fill st).2 = true ∧ res.2 = .capacity) ∨
    ((fill st).2 = false ∧ ∃ hist', Inv data (fill st).1 hist' taken res ∧
        ((fill st).1.eos = true ∨ maxFill ≤ (fill st).1.unread) ∧ (fill st).1.r = st.r) := by
  unfold fill
  cases he : st.eos with
  | true =>
    right
    rw [if_pos rfl]
    exact ⟨rfl, hist, i, Or.inl he, rfl⟩
  | false =>
    rw [if_neg (by simp)]
    exact fillLoop_spec data res taken (maxFill + 1) st hist i he (by omega)

/-! ### the bytes waiting in the window are the undelivered part of the history -/

theorem seg_length (buf : Array UInt8) (start k : Nat) : (seg buf start k).length = k := by simp [seg]

theorem seg_append (buf : Array UInt8) (r a b : Nat) : seg buf r a ++ seg buf ((r + a) % N) b = seg buf r (a + b) := by
  unfold seg
  rw [List.range_add, List.map_append, List.map_map]
  congr 1
  apply List.map_congr_left
  intro i _
  show buf.getD (((r + a) % N + i) % N) 0 = buf.getD ((r + (a + i)) % N) 0
  congr 1
  unfold N; omega

theorem seg_spec {data st hist taken res} (i : Inv data st hist taken res) (k : Nat) (hk : k ≤ st.unread) :
    seg st.buf st.r k = (hist.reverse.drop taken).take k := by
  have hc := i.cnt
  have hw := i.win.hw
  have hr := i.hr
  have hu : st.unread = (st.w + N - st.r) % N := rfl
  apply List.ext_getElem
  · rw [seg_length, List.length_take, List.length_drop, List.length_reverse]; omega
  · intro j h1 h2
    rw [seg_length] at h1
    simp only [seg, List.getElem_map, List.getElem_range]
    have hd : st.unread - 1 - j < N := by have := unread_lt st; omega
    have hb := i.win.win _ hd
    have e1 : (st.w + N - 1 - (st.unread - 1 - j)) % N = (st.r + j) % N := by
      have hj : j < st.unread := by omega
      generalize st.unread = u at *
      generalize st.w = w at *
      generalize st.r = r at *
      unfold N at *; omega
    rw [e1] at hb
    show vwB st.buf ((st.r + j) % N) = _
    rw [hb]
    rw [List.getElem_take, List.getElem_drop, List.getElem_reverse]
    unfold histAt
    rw [List.getD_eq_getElem?_getD, List.getElem?_eq_getElem (by omega)]
    simp only [Option.getD_some]
    congr 1
    omega

/-- moving the read index forward by `m` waiting bytes delivers them -/
theorem Inv.advance {data st hist taken res} (i : Inv data st hist taken res) (m : Nat) (hm : m ≤ st.unread) :
    Inv data { st with r := (st.r + m) % N } hist (taken + m) res := by
  have hc := i.cnt
  have hw := i.win.hw
  have hr := i.hr
  have hu : st.unread = (st.w + N - st.r) % N := rfl
  refine ⟨i.hdata, i.win, Nat.mod_lt _ (by decide), ?_, i.opn, i.closed⟩
  show taken + m + (st.w + N - (st.r + m) % N) % N = hist.length
  generalize st.unread = u at *
  generalize st.w = w at *
  generalize st.r = r at *
  unfold N at *; omega

/-- `CopyAvailableData` delivers `min size waiting` bytes from the read index, across the wrap-around -/
theorem copyAvailable_eq (st : St) (size : Nat) (hw : st.w < N) (hr : st.r < N) :
    copyAvailable st size = (seg st.buf st.r (min size st.unread), { st with r := (st.r + min size st.unread) % N }) := by
  have hu : st.unread = (st.w + N - st.r) % N := rfl
  unfold copyAvailable
  by_cases e : st.w = st.r
  · rw [if_pos e]
    have : st.unread = 0 := by rw [hu, e]; unfold N at *; omega
    rw [this, Nat.min_zero, Nat.add_zero, Nat.mod_eq_of_lt hr]
    rfl
  · rw [if_neg e]
    by_cases lt : st.w < st.r
    · simp only [lt, if_true]
      have hun : st.unread = st.w + N - st.r := by rw [hu]; unfold N at *; omega
      by_cases c : size < N - st.r
      · -- everything asked for lies before the wrap-around
        have n1 : min (N - st.r) size = size := by omega
        have m : min size st.unread = size := by omega
        rw [n1, m, Nat.sub_self, Nat.min_zero]
        simp only [Nat.lt_irrefl, if_false]
      · have n1 : min (N - st.r) size = N - st.r := by omega
        have r1 : (st.r + (N - st.r)) % N = 0 := by unfold N at *; omega
        rw [n1, r1]
        have u : u64 (W64 + st.w - 0) = st.w := by unfold u64 W64; unfold N at *; omega
        rw [u]
        have m : min size st.unread = (N - st.r) + min st.w (size - (N - st.r)) := by omega
        by_cases z : min st.w (size - (N - st.r)) > 0
        · rw [if_pos z]
          have sa := seg_append st.buf st.r (N - st.r) (min st.w (size - (N - st.r)))
          rw [r1] at sa
          rw [sa, m]
          congr 2
          unfold N at *; omega
        · rw [if_neg z]
          have z0 : min st.w (size - (N - st.r)) = 0 := by omega
          rw [m, z0, Nat.add_zero]
          congr 2
          unfold N at *; omega
    · simp only [lt, if_false]
      have gt : st.r < st.w := by omega
      have hun : st.unread = st.w - st.r := by rw [hu]; unfold N at *; omega
      have u : u64 (W64 + st.w - st.r) = st.w - st.r := by unfold u64 W64; unfold N at *; omega
      rw [u, hun]
      have mm : min (st.w - st.r) size = min size (st.w - st.r) := Nat.min_comm _ _
      rw [mm]
      by_cases z : min size (st.w - st.r) > 0
      · rw [if_pos z]
        simp only [List.nil_append]
        congr 2
        unfold N at *; omega
      · rw [if_neg z]
        have z0 : min size (st.w - st.r) = 0 := by omega
        rw [z0, Nat.add_zero, Nat.mod_eq_of_lt hr]
        rfl

theorem copyAvailable_spec {data st hist taken res} (i : Inv data st hist taken res) (size : Nat) :
    (copyAvailable st size).1 = (hist.reverse.drop taken).take (min size st.unread) ∧
    (copyAvailable st size).1.length = min size st.unread ∧
    Inv data (copyAvailable st size).2 hist (taken + min size st.unread) res ∧
    (copyAvailable st size).2.eos = st.eos ∧
    (copyAvailable st size).2.unread = st.unread - min size st.unread := by
  rw [copyAvailable_eq st size i.win.hw i.hr]
  have hm : min size st.unread ≤ st.unread := Nat.min_le_right _ _
  refine ⟨seg_spec i _ hm, seg_length _ _ _, i.advance _ hm, rfl, ?_⟩
  have hw := i.win.hw
  have hr := i.hr
  have hu : st.unread = (st.w + N - st.r) % N := rfl
  show (st.w + N - (st.r + min size st.unread) % N) % N = st.unread - min size st.unread
  generalize min size st.unread = m at *
  generalize st.unread = u at *
  generalize st.w = w at *
  generalize st.r = r at *
  unfold N at *; omega

/-! ### what is waiting is a piece of the final reference output -/

theorem take_drop_prefix {α : Type} {p l : List α} (h : p <+: l) (a m : Nat) (ham : a + m ≤ p.length) :
    (p.drop a).take m = (l.drop a).take m := by
  obtain ⟨s, rfl⟩ := h
  rw [List.drop_append_of_le_length (by omega), List.take_append_of_le_length (by rw [List.length_drop]; omega)]

theorem Inv.pending {data st hist taken res} (i : Inv data st hist taken res) (m : Nat) (hm : m ≤ st.unread) :
    (hist.reverse.drop taken).take m = (res.1.reverse.drop taken).take m := by
  have hp : hist.reverse <+: res.1.reverse := List.reverse_prefix.mpr i.suffix
  exact take_drop_prefix hp taken m (by rw [List.length_reverse]; have := i.cnt; omega)

theorem take_split {α : Type} (l : List α) (m size : Nat) (h : m ≤ size) :
    l.take size = l.take m ++ (l.drop m).take (size - m) := by
  have : size = m + (size - m) := by omega
  rw [this, List.take_add]; simp

/-- at the end of the stream with nothing waiting, everything has been delivered -/
theorem Inv.done_nil {data st hist taken res} (i : Inv data st hist taken res) (he : st.eos = true) (h0 : st.unread = 0)
    (size : Nat) : (res.1.reverse.drop taken).take size = [] := by
  have hc := i.cnt
  have hres := i.closed he
  have : res.1 = hist := by rw [hres]
  rw [this, h0] at *
  rw [List.drop_of_length_le (by rw [List.length_reverse]; omega)]
  exact List.take_nil

/-! ### GetData -/

theorem getDataLoop_spec (data : Array UInt8) (res : List UInt8 × Status) :
    ∀ fuel (st : St) (size : Nat) (acc : List UInt8) (hist : List UInt8) (taken : Nat), Inv data st hist taken res →
      (st.eos = true ∨ size ≤ fuel) → (st.eos = true → size = 0 ∨ st.unread = 0) →
      ((∃ e, getDataLoop fuel st size acc = .error e) ∧ res.2 = .capacity) ∨
      (∃ st' hist', getDataLoop fuel st size acc = .ok (acc ++ (res.1.reverse.drop taken).take size, st') ∧
          Inv data st' hist' (taken + ((res.1.reverse.drop taken).take size).length) res) := by
  intro fuel
  induction fuel with
  | zero =>
    intro st size acc hist taken i hf hp
    right
    refine ⟨st, hist, ?_, ?_⟩
    all_goals
      have hnil : (res.1.reverse.drop taken).take size = [] := by
        rcases hf with he | hs
        · rcases hp he with h0 | h0
          · rw [h0]; rfl
          · exact i.done_nil he h0 size
        · have : size = 0 := by omega
          rw [this]; rfl
      rw [hnil]
    · simp [getDataLoop]
    · simpa using i
  | succ f ih =>
    intro st size acc hist taken i hf hp
    simp only [getDataLoop]
    by_cases hc : size > 0 ∧ ¬ (st.eos = true)
    · rw [if_pos hc]
      have he : st.eos = false := by cases h : st.eos <;> simp_all
      rcases fill_spec data res taken st hist i with ⟨f1, f2⟩ | ⟨f1, hist1, i1, f3, f4⟩
      · left
        refine ⟨⟨.refused, ?_⟩, f2⟩
        cases hfill : fill st with
        | mk st1 flag => rw [hfill] at f1; simp only at f1; subst f1; rfl
      · cases hfill : fill st with
        | mk st1 flag =>
          rw [hfill] at f1 i1 f3 f4
          simp only at f1 i1 f3 f4
          subst f1
          simp only []
          obtain ⟨c1, c2, c3, c4, c5⟩ := copyAvailable_spec i1 size
          have hm : min size st1.unread ≤ st1.unread := Nat.min_le_right _ _
          have hb : (copyAvailable st1 size).1 = (res.1.reverse.drop taken).take (min size st1.unread) := by
            rw [c1]; exact i1.pending _ hm
          have hms := maxFill_safe
          have := ih (copyAvailable st1 size).2 (size - (copyAvailable st1 size).1.length) (acc ++ (copyAvailable st1 size).1)
            hist1 (taken + min size st1.unread) c3
            (by
              rw [c4, c2]
              rcases f3 with e | e
              · left; exact e
              · right
                have : 1 ≤ min size st1.unread := by omega
                have hsz : size ≤ f + 1 := by
                  rcases hf with h | h
                  · rw [he] at h; simp at h
                  · exact h
                omega)
            (by
              intro _
              rw [c2, c5]; omega)
          rcases this with ⟨a, b⟩ | ⟨st', hist', a, b⟩
          · left; exact ⟨a, b⟩
          · right
            have hsplit := take_split (res.1.reverse.drop taken) (min size st1.unread) size (Nat.min_le_left _ _)
            rw [List.drop_drop] at hsplit
            have hlen : ((res.1.reverse.drop taken).take size).length =
                min size st1.unread + ((res.1.reverse.drop (taken + min size st1.unread)).take (size - min size st1.unread)).length := by
              have := congrArg List.length hsplit
              rw [List.length_append, ← hb, c2] at this
              exact this
            refine ⟨st', hist', ?_, ?_⟩
            · rw [a, c2, List.append_assoc, hb, hsplit]
            · rw [c2] at b
              rw [hlen, ← Nat.add_assoc]; exact b
    · rw [if_neg hc]
      right
      have hnil : (res.1.reverse.drop taken).take size = [] := by
        by_cases h0 : size = 0
        · rw [h0]; rfl
        · have he : st.eos = true := by
            cases h : st.eos with
            | true => rfl
            | false => exact absurd ⟨by omega, by simp [h]⟩ hc
          rcases hp he with h1 | h1
          · exact absurd h1 h0
          · exact i.done_nil he h1 size
      refine ⟨st, hist, by rw [hnil, List.append_nil], by rw [hnil]; simpa using i⟩

/-- **`GetData(size)` delivers exactly the next `min size remaining` bytes of the reference output** (or fails, and
    only when the reference decoder ends at capacity) -/
theorem getData_spec (data : Array UInt8) (res : List UInt8 × Status) (st : St) (size : Nat) (hist : List UInt8)
    (taken : Nat) (i : Inv data st hist taken res) :
    ((∃ e, getData st size = .error e) ∧ res.2 = .capacity) ∨
    (∃ st' hist', getData st size = .ok ((res.1.reverse.drop taken).take size, st') ∧
        Inv data st' hist' (taken + ((res.1.reverse.drop taken).take size).length) res) := by
  unfold getData
  rcases fill_spec data res taken st hist i with ⟨f1, f2⟩ | ⟨f1, hist1, i1, f3, f4⟩
  · left
    refine ⟨⟨.refused, ?_⟩, f2⟩
    cases hfill : fill st with
    | mk st1 flag => rw [hfill] at f1; simp only at f1; subst f1; rfl
  · cases hfill : fill st with
    | mk st1 flag =>
      rw [hfill] at f1 i1 f3 f4
      simp only at f1 i1 f3 f4
      subst f1
      simp only []
      obtain ⟨c1, c2, c3, c4, c5⟩ := copyAvailable_spec i1 size
      have hm : min size st1.unread ≤ st1.unread := Nat.min_le_right _ _
      have hb : (copyAvailable st1 size).1 = (res.1.reverse.drop taken).take (min size st1.unread) := by
        rw [c1]; exact i1.pending _ hm
      have := getDataLoop_spec data res (size - (copyAvailable st1 size).1.length) (copyAvailable st1 size).2
        (size - (copyAvailable st1 size).1.length) (copyAvailable st1 size).1 hist1 (taken + min size st1.unread) c3
        (Or.inr (Nat.le_refl _)) (by intro _; rw [c2, c5]; omega)
      rcases this with ⟨a, b⟩ | ⟨st', hist', a, b⟩
      · left; exact ⟨a, b⟩
      · right
        have hsplit := take_split (res.1.reverse.drop taken) (min size st1.unread) size (Nat.min_le_left _ _)
        rw [List.drop_drop] at hsplit
        have hlen : ((res.1.reverse.drop taken).take size).length =
            min size st1.unread + ((res.1.reverse.drop (taken + min size st1.unread)).take (size - min size st1.unread)).length := by
          have := congrArg List.length hsplit
          rw [List.length_append, ← hb, c2] at this
          exact this
        refine ⟨st', hist', ?_, ?_⟩
        · rw [a, c2, hb, hsplit]
        · rw [c2] at b
          rw [hlen, ← Nat.add_assoc]; exact b

/-! ### GetInternalBuffer -/

/-- **`GetInternalBuffer` hands out the next undelivered bytes of the reference output**, and hands out nothing
    exactly when everything has been delivered -/
theorem getInternal_spec (data : Array UInt8) (res : List UInt8 × Status) (st : St) (hist : List UInt8)
    (taken : Nat) (i : Inv data st hist taken res) :
    ((∃ e, getInternal st = .error e) ∧ res.2 = .capacity) ∨
    (∃ st' hist' bytes, getInternal st = .ok (bytes, st') ∧ bytes = (res.1.reverse.drop taken).take bytes.length ∧
        Inv data st' hist' (taken + bytes.length) res ∧ (bytes = [] → taken = res.1.length)) := by
  unfold getInternal
  rcases fill_spec data res taken st hist i with ⟨f1, f2⟩ | ⟨f1, hist1, i1, f3, f4⟩
  · left
    refine ⟨⟨.refused, ?_⟩, f2⟩
    cases hfill : fill st with
    | mk st1 flag => rw [hfill] at f1; simp only at f1; subst f1; rfl
  · cases hfill : fill st with
    | mk st1 flag =>
      rw [hfill] at f1 i1 f3 f4
      simp only at f1 i1 f3 f4
      subst f1
      simp only []
      right
      have hw := i1.win.hw
      have hr := i1.hr
      have hu : st1.unread = (st1.w + N - st1.r) % N := rfl
      have hsz : (if st1.w < st1.r then N - st1.r else st1.w - st1.r) ≤ st1.unread := by
        rw [hu]; split <;> (unfold N at *; omega)
      refine ⟨_, hist1, _, rfl, ?_, ?_, ?_⟩
      · rw [seg_length, seg_spec i1 _ hsz]; exact i1.pending _ hsz
      · rw [seg_length]; exact i1.advance _ hsz
      · intro hnil
        have hl : (if st1.w < st1.r then N - st1.r else st1.w - st1.r) = 0 := by
          have := congrArg List.length hnil
          rw [seg_length] at this; simpa using this
        have hu0 : st1.unread = 0 := by
          rw [hu]; split at hl <;> (unfold N at *; omega)
        have hms := maxFill_safe
        have he : st1.eos = true := by
          rcases f3 with e | e
          · exact e
          · omega
        have hc := i1.cnt
        have hres := i1.closed he
        have : res.1 = hist1 := by rw [hres]
        rw [this]; omega

/-! ### any drain schedule -/

theorem call_spec (data : Array UInt8) (res : List UInt8 × Status) (st : St) (c : Call) (hist : List UInt8)
    (taken : Nat) (i : Inv data st hist taken res) :
    ((∃ e, call st c = .error e) ∧ res.2 = .capacity) ∨
    (∃ st' hist' bytes, call st c = .ok (bytes, st') ∧ bytes = (res.1.reverse.drop taken).take bytes.length ∧
        Inv data st' hist' (taken + bytes.length) res) := by
  cases c with
  | data k =>
    rcases getData_spec data res st k hist taken i with h | ⟨st', hist', a, b⟩
    · left; exact h
    · right
      refine ⟨st', hist', _, a, ?_, b⟩
      rw [List.length_take]
      by_cases hk : k ≤ (res.1.reverse.drop taken).length
      · rw [Nat.min_eq_left hk]
      · rw [Nat.min_eq_right (by omega), List.take_of_length_le (by omega), List.take_of_length_le (Nat.le_refl _)]
  | internal =>
    rcases getInternal_spec data res st hist taken i with h | ⟨st', hist', bytes, a, b, c, _⟩
    · left; exact h
    · right; exact ⟨st', hist', bytes, a, b, c⟩

/-- **every drain schedule delivers a prefix of the reference output, in order, without gaps** -/
theorem drain_spec (data : Array UInt8) (res : List UInt8 × Status) :
    ∀ (calls : List Call) (st : St) (hist : List UInt8) (taken : Nat), Inv data st hist taken res →
      (drain st calls).1.flatten = (res.1.reverse.drop taken).take (drain st calls).1.flatten.length ∧
      ((drain st calls).2 = true → res.2 = .capacity) := by
  intro calls
  induction calls with
  | nil => intro st hist taken _; exact ⟨by simp [drain], by simp [drain]⟩
  | cons c cs ih =>
    intro st hist taken i
    rcases call_spec data res st c hist taken i with ⟨⟨e, he⟩, hcap⟩ | ⟨st', hist', bytes, a, b, i'⟩
    · simp only [drain, he]
      exact ⟨by simp, fun _ => hcap⟩
    · simp only [drain, a]
      obtain ⟨h1, h2⟩ := ih st' hist' (taken + bytes.length) i'
      refine ⟨?_, h2⟩
      simp only [List.flatten_cons, List.length_append]
      have hsplit := take_split (res.1.reverse.drop taken) bytes.length (bytes.length + (drain st' cs).1.flatten.length) (by omega)
      rw [List.drop_drop, Nat.add_sub_cancel_left] at hsplit
      rw [hsplit, ← b, ← h1]

end Op2.Lzh
