import Op2Proofs.Lzh.EncOffsetHi
import Op2Proofs.Huff.M
/-!
# The encoder round trip (C04): what an independent encoder writes, the reference decoder reads back

`Spec.encode` turns a token list (literal | match) into bytes with its own copy of the adaptive tree; `Spec.decode` is
the reference decoder.  Token by token the decoder recovers the symbol (`nextCode_encode`), the offset
(`repeatOffset_offsetBits`) and updates its tree the same way, so its output begins with the payload; after the last
token at most seven padding bits remain and every further code consumes at least one of them.
-/
namespace Op2.Lzh
open Op2 Op2.Huff Op2.Lzh.Spec

namespace Spec
/-- a token the format can express: a byte, or a match of 3..60 bytes at distance 1..4096 -/
def Token.WF : Token → Prop
  | .lit b => b < 256
  | .mat len dist => 3 ≤ len ∧ len ≤ 60 ∧ 1 ≤ dist ∧ dist ≤ 4096

/-- the symbol a token is written as -/
def Token.code : Token → Nat
  | .lit b => b
  | .mat len _ => len + matchBase

/-- the bits `encodeBits` writes for one token with tree `t` -/
def tokenBits (t : TA) : Token → List Nat
  | .lit b => codeBits t b
  | .mat len dist => codeBits t (len + matchBase) ++ offsetBits (dist - 1)

/-- what one token appends to the history -/
def tokExpand (hist : List UInt8) : Token → List UInt8
  | .lit b => UInt8.ofNat b :: hist
  | .mat len dist => copy hist (dist - 1) len

/-- what the decoder should make of one token -/
def tokSym (t' : TA) (q : Nat) : Token → Sym
  | .lit b => .lit t' q b
  | .mat len dist => .mat t' q (dist - 1) len
end Spec

theorem Token.code_lt {tok : Token} (h : tok.WF) : tok.code < symbolCount := by
  cases tok with
  | lit b => have : b < 256 := h; show b < 314; omega
  | mat len dist => obtain ⟨_, h2, _, _⟩ := h; show len + 253 < 314; omega

theorem expand_cons (hist : List UInt8) (tok : Token) (rest : List Token) :
    expand hist (tok :: rest) = expand (tokExpand hist tok) rest := by
  cases tok <;> rfl

theorem tokExpand_suffix (hist : List UInt8) (tok : Token) : hist <:+ tokExpand hist tok := by
  cases tok with
  | lit b => exact List.suffix_cons _ _
  | mat len dist => exact copy_suffix _ _ _

/-- the root counter: symbol count plus the number of updates so far -/
def rootCnt (t : TA) : Nat := t.cnt.getD t.root 0

theorem updateChecked_ok {t : TA} {code : Nat} (hc : code < t.T) (hr : rootCnt t < TF.maxCount) :
    t.updateChecked code = .ok (t.update code) := by
  unfold TA.updateChecked
  rw [if_neg (by omega), if_neg (by unfold rootCnt at hr; omega)]

theorem TreeOk.update_cnt {t t' : TA} {code : Nat} (k : TreeOk t) (h : t.updateChecked code = .ok t') :
    rootCnt t' = rootCnt t + 1 := by
  have hv := TA.updateChecked_view t k.sized k.wf code
  rw [h] at hv
  obtain ⟨hv1, _⟩ := hv
  have hc := updateChecked_lt h
  unfold TF.updateChecked at hv1
  rw [if_neg (show ¬ (code ≥ t.view.T) by show ¬ (code ≥ t.T); omega)] at hv1
  split at hv1
  · simp at hv1
  · simp only [Except.ok.injEq] at hv1
    have hT : t'.view.T = t.view.T := by rw [← hv1]; exact TF.update_T _ _
    have hroot : t'.view.root = t.view.root := by unfold TF.root TF.n; rw [hT]
    have := TF.update_root_cnt k.wf (show code < t.view.T from hc)
    show t'.view.cnt t'.view.root = t.view.cnt t.view.root + 1
    rw [hroot, ← hv1]; exact this

theorem rootCnt_init : rootCnt (TA.init symbolCount) = symbolCount := by
  have := TA.init_root_cnt symbolCount (by decide)
  rw [TA.view_cnt, TA.view_root] at this
  exact this

/-! ### the encoder's bits -/

theorem encodeBits_cons {t t' : TA} (tok : Token) (rest : List Token) (h : t.updateChecked tok.code = .ok t') :
    encodeBits t (tok :: rest) = tokenBits t tok ++ encodeBits t' rest := by
  cases tok with
  | lit b =>
    have h' : t.updateChecked b = .ok t' := h
    simp only [encodeBits, h', tokenBits]
  | mat len dist =>
    have h' : t.updateChecked (len + matchBase) = .ok t' := h
    simp only [encodeBits, h', tokenBits, List.append_assoc]

theorem tokenBits_pos {t : TA} (k : TreeOk t) {tok : Token} (h : tok.WF) : 0 < (tokenBits t tok).length := by
  have hc := Token.code_lt h
  rw [← k.hT] at hc
  cases tok with
  | lit b => exact codeBits_pos k hc
  | mat len dist =>
    have := codeBits_pos k (c := len + matchBase) hc
    simp only [tokenBits, List.length_append]; omega

theorem encodeBits_bits : ∀ (ts : List Token) (t : TA), ∀ b ∈ encodeBits t ts, b < 2 := by
  intro ts
  induction ts with
  | nil => intro t b hb; simp [encodeBits] at hb
  | cons tok rest ih =>
    intro t b hb
    cases tok with
    | lit c =>
      simp only [encodeBits] at hb
      split at hb
      · rcases List.mem_append.mp hb with h | h
        · exact codeBits_bits _ _ b h
        · exact ih _ b h
      · simp at hb
    | mat len dist =>
      simp only [encodeBits] at hb
      split at hb
      · rcases List.mem_append.mp hb with h | h
        · rcases List.mem_append.mp h with h | h
          · exact codeBits_bits _ _ b h
          · exact offsetBits_bits _ b h
        · exact ih _ b h
      · simp at hb

/-! ### one token -/

/-- **one token round trip**: on a stream that continues with the token's bits the decoder recovers the token,
    consumes exactly its bits and updates its tree as the encoder did -/
theorem decodeSym_token {t t' : TA} (k : TreeOk t) (data : Array UInt8) (p : Nat) {tok : Token} (hw : tok.WF)
    (hu : t.updateChecked tok.code = .ok t') (hs : Starts data p (tokenBits t tok)) :
    decodeSym data t p = tokSym t' (p + (tokenBits t tok).length) tok := by
  have hc := Token.code_lt hw
  rw [← k.hT] at hc
  cases tok with
  | lit b =>
    have hb : b < 256 := hw
    have hu' : t.updateChecked b = .ok t' := hu
    have hn := nextCode_encode k data (c := b) hc p hs
    unfold decodeSym
    simp only [hn, hu', if_pos hb, tokSym, tokenBits]
  | mat len dist =>
    obtain ⟨h1, h2, h3, h4⟩ := hw
    have hu' : t.updateChecked (len + matchBase) = .ok t' := hu
    obtain ⟨hs1, hs2⟩ := (show Starts data p (codeBits t (len + matchBase) ++ offsetBits (dist - 1)) from hs).append
    have hn := nextCode_encode k data (c := len + matchBase) hc p hs1
    have ho := repeatOffset_offsetBits data _ (dist - 1) (by omega) hs2
    have hnl : ¬ (len + matchBase < 256) := by unfold matchBase; omega
    unfold decodeSym
    simp only [hn, hu', if_neg hnl, ho, tokSym, tokenBits, List.length_append, Nat.add_sub_cancel, Nat.add_assoc]

/-- one round of the reference run (and of its code counter) on a recovered token -/
theorem run_sym {data : Array UInt8} {t t' : TA} {p q : Nat} {tok : Token} (h : decodeSym data t p = tokSym t' q tok)
    (F : Nat) (hist : List UInt8) (k0 : Nat) :
    Spec.run data (F + 1) t p hist =
      (if endOfStream data q then (tokExpand hist tok, .done) else Spec.run data F t' q (tokExpand hist tok)) ∧
    Spec.runCodes data (F + 1) t p k0 = (if endOfStream data q then k0 + 1 else Spec.runCodes data F t' q (k0 + 1)) := by
  cases tok with
  | lit b =>
    simp only [tokSym] at h
    simp only [Spec.run, Spec.step, Spec.runCodes, h, tokExpand]
    by_cases he : endOfStream data q = true
    · simp only [if_pos he]; refine ⟨?_, ?_⟩ <;> first | rfl | trivial
    · simp only [if_neg he]; refine ⟨?_, ?_⟩ <;> first | rfl | trivial
  | mat len dist =>
    simp only [tokSym] at h
    simp only [Spec.run, Spec.step, Spec.runCodes, h, tokExpand]
    by_cases he : endOfStream data q = true
    · simp only [if_pos he]; refine ⟨?_, ?_⟩ <;> first | rfl | trivial
    · simp only [if_neg he]; refine ⟨?_, ?_⟩ <;> first | rfl | trivial

/-! ### the tail: codes decoded from the padding bits -/

/-- from any cursor the run ends normally as long as the counters hold out; it decodes at most one code per
    remaining bit (one code if none remains), and only appends -/
theorem run_tail (data : Array UInt8) : ∀ (F : Nat) (t : TA) (p : Nat) (hist : List UInt8) (k0 : Nat), TreeOk t →
    rootCnt t + max 1 (bitSize data - p) ≤ TF.maxCount → bitSize data - p + 1 ≤ F →
    ∃ out, Spec.run data F t p hist = (out, .done) ∧ hist <:+ out ∧
      Spec.runCodes data F t p k0 ≤ k0 + max 1 (bitSize data - p) := by
  intro F
  induction F with
  | zero => intro t p hist k0 _ _ h; omega
  | succ F ih =>
    intro t p hist k0 k hcnt hF
    obtain ⟨code, p1, hc, hd⟩ := decodeSym_eq k data p
    have hr : rootCnt t < TF.maxCount := by omega
    rw [if_neg (show ¬ (t.cnt.getD t.root 0 ≥ TF.maxCount) by unfold rootCnt at hr; omega)] at hd
    have hu := updateChecked_ok hc hr
    have k' := k.update hu
    have hcnt' := k.update_cnt hu
    by_cases hl : code < 256
    · rw [if_pos hl] at hd
      obtain ⟨_, hm, hp⟩ := decodeSym_lit k hd
      obtain ⟨r1, r2⟩ := run_sym (tok := .lit code) (show decodeSym data t p = tokSym (t.update code) p1 (.lit code) from hd) F hist k0
      rw [r1, r2]
      by_cases he : endOfStream data p1 = true
      · simp only [if_pos he]
        exact ⟨_, rfl, List.suffix_cons _ _, by omega⟩
      · simp only [if_neg he]
        have hlt : p1 < bitSize data := by simpa [endOfStream] using he
        have hpp : p < p1 := hp (by omega)
        obtain ⟨out, o1, o2, o3⟩ := ih (t.update code) p1 (tokExpand hist (.lit code)) (k0 + 1) k' (by omega) (by omega)
        exact ⟨out, o1, List.IsSuffix.trans (List.suffix_cons _ _) o2, by omega⟩
    · rw [if_neg hl] at hd
      obtain ⟨_, hm, hp⟩ := decodeSym_mat_tree k hd
      obtain ⟨r1, r2⟩ := run_sym (tok := .mat (code - matchBase) ((repeatOffset data p1).1 + 1))
        (show decodeSym data t p = tokSym (t.update code) (repeatOffset data p1).2 (.mat (code - matchBase) ((repeatOffset data p1).1 + 1)) from hd) F hist k0
      rw [r1, r2]
      by_cases he : endOfStream data (repeatOffset data p1).2 = true
      · simp only [if_pos he]
        exact ⟨_, rfl, tokExpand_suffix _ _, by omega⟩
      · simp only [if_neg he]
        have hlt : (repeatOffset data p1).2 < bitSize data := by simpa [endOfStream] using he
        have hpp : p < (repeatOffset data p1).2 := hp (by omega)
        obtain ⟨out, o1, o2, o3⟩ := ih (t.update code) (repeatOffset data p1).2 (tokExpand hist (.mat (code - matchBase) ((repeatOffset data p1).1 + 1)))
          (k0 + 1) k' (by omega) (by omega)
        exact ⟨out, o1, List.IsSuffix.trans (tokExpand_suffix _ _) o2, by omega⟩

/-! ### the whole token list -/

theorem encodeBits_pos {t : TA} (k : TreeOk t) {ts : List Token} (hne : ts ≠ []) (hw : ∀ tok ∈ ts, tok.WF)
    (hr : rootCnt t < TF.maxCount) : 0 < (encodeBits t ts).length := by
  cases ts with
  | nil => exact absurd rfl hne
  | cons tok rest =>
    have hwf := hw tok (by simp)
    have hc := Token.code_lt hwf
    rw [← k.hT] at hc
    rw [encodeBits_cons tok rest (updateChecked_ok hc hr), List.length_append]
    have := tokenBits_pos k hwf
    omega

/-- the reference run over a stream that continues with the encoder's bits for `ts` and then fewer than eight more
    bits: it ends normally, its history ends with (= its output begins with) the payload, and it decodes at most one
    code per token plus one per left-over bit -/
theorem run_tokens (data : Array UInt8) : ∀ (ts : List Token) (t : TA) (p : Nat) (hist : List UInt8) (k0 F : Nat),
    TreeOk t → (∀ tok ∈ ts, tok.WF) → Starts data p (encodeBits t ts) →
    rootCnt t + ts.length + (bitSize data - (p + (encodeBits t ts).length)) ≤ TF.maxCount →
    (ts = [] → p < bitSize data) → bitSize data - p + 1 ≤ F →
    ∃ out, Spec.run data F t p hist = (out, .done) ∧ expand hist ts <:+ out ∧
      Spec.runCodes data F t p k0 ≤ k0 + ts.length + (bitSize data - (p + (encodeBits t ts).length)) := by
  intro ts
  induction ts with
  | nil =>
    intro t p hist k0 F k _ _ hcnt hp hF
    have hlt := hp rfl
    simp only [encodeBits, List.length_nil, Nat.add_zero] at hcnt ⊢
    obtain ⟨out, o1, o2, o3⟩ := run_tail data F t p hist k0 k (by omega) hF
    exact ⟨out, o1, o2, by omega⟩
  | cons tok rest ih =>
    intro t p hist k0 F k hw hs hcnt _ hF
    have hwf := hw tok (by simp)
    have hc := Token.code_lt hwf
    rw [← k.hT] at hc
    simp only [List.length_cons] at hcnt ⊢
    have hr : rootCnt t < TF.maxCount := by omega
    have hu := updateChecked_ok hc hr
    have k' := k.update hu
    have hcnt' := k.update_cnt hu
    rw [encodeBits_cons tok rest hu] at hs hcnt ⊢
    rw [List.length_append] at hcnt ⊢
    obtain ⟨hs1, hs2⟩ := hs.append
    have hpos := tokenBits_pos k hwf
    have hd := decodeSym_token k data p hwf hu hs1
    obtain ⟨F', rfl⟩ : ∃ F', F = F' + 1 := ⟨F - 1, by omega⟩
    obtain ⟨r1, r2⟩ := run_sym hd F' hist k0
    rw [r1, r2, expand_cons]
    by_cases he : endOfStream data (p + (tokenBits t tok).length) = true
    · simp only [if_pos he]
      have hge : p + (tokenBits t tok).length ≥ bitSize data := by simpa [endOfStream] using he
      have hrest : rest = [] := by
        apply Classical.byContradiction
        intro hne
        have hl : 0 < rest.length := List.length_pos_iff.mpr hne
        have := encodeBits_pos k' hne (fun x hx => hw x (List.mem_cons_of_mem _ hx)) (by omega)
        have := hs2.1
        omega
      subst hrest
      exact ⟨_, rfl, List.suffix_refl _, by omega⟩
    · simp only [if_neg he]
      have hlt : p + (tokenBits t tok).length < bitSize data := by simpa [endOfStream] using he
      obtain ⟨out, o1, o2, o3⟩ := ih (t.update tok.code) (p + (tokenBits t tok).length) (tokExpand hist tok) (k0 + 1) F' k'
        (fun x hx => hw x (List.mem_cons_of_mem _ hx)) hs2 (by omega) (fun _ => hlt) (by omega)
      exact ⟨out, o1, o2, by omega⟩

/-! ### the round-trip law -/

/-- the bound under which the tree's counters cannot fill: the payload's codes plus up to seven codes decoded from the
    padding bits fit into the 65221 updates the 314-symbol tree accepts -/
def tokenLimit : Nat := TF.maxCount - symbolCount - 7

/-- the zero bits the encoder adds to fill the last byte -/
def paddingBits (ts : List Token) : Nat :=
  bitSize (Spec.encode ts).toArray - (encodeBits (TA.init symbolCount) ts).length

theorem paddingBits_lt (ts : List Token) : paddingBits ts < 8 := by
  unfold paddingBits Spec.encode
  rw [bitSize_packBits]; omega

/-- **encoder round trip**: every well-formed token list, compressed by the independent encoder, decodes normally to
    an output that begins with the payload; beyond the payload's codes the decoder reads at most one code per padding
    bit (exactly one code in all for the empty payload) -/
theorem decode_encode_prefix (ts : List Token) (hw : ∀ tok ∈ ts, tok.WF) (hlen : ts.length ≤ tokenLimit) :
    ∃ out, Spec.decode (Spec.encode ts).toArray = (out, .done) ∧ (Spec.expand [] ts).reverse <+: out ∧
      Spec.codeCount (Spec.encode ts).toArray ≤ max 1 (ts.length + paddingBits ts) := by
  have hlen' : ts.length + 7 ≤ 65221 := by unfold tokenLimit TF.maxCount symbolCount at hlen; omega
  have hbits := encodeBits_bits ts (TA.init symbolCount)
  have hpad := paddingBits_lt ts
  unfold paddingBits at hpad ⊢
  have hsize : bitSize (Spec.encode ts).toArray = 8 * (((encodeBits (TA.init symbolCount) ts).length + 7) / 8) :=
    bitSize_packBits _
  have hstart : Starts (Spec.encode ts).toArray 0 (encodeBits (TA.init symbolCount) ts) := by
    refine ⟨by rw [hsize]; omega, ?_⟩
    intro i _
    rw [Nat.zero_add]
    exact bitAt_packBits _ hbits i
  have hroot := rootCnt_init
  have hmax : TF.maxCount = 65535 := rfl
  have hsym : symbolCount = 314 := rfl
  unfold Spec.decode Spec.codeCount
  generalize (Spec.encode ts).toArray = data at *
  by_cases hne : ts = []
  · subst hne
    have hz : bitSize data = 0 := by rw [hsize]; simp [encodeBits]
    obtain ⟨out, o1, o2, o3⟩ := run_tail data (bitSize data + 2) (TA.init symbolCount) 0 [] 0 treeOk_init (by omega) (by omega)
    refine ⟨out.reverse, by rw [o1], ?_, ?_⟩
    · simp [expand]
    · simp only [List.length_nil]; omega
  · obtain ⟨out, o1, o2, o3⟩ := run_tokens data ts (TA.init symbolCount) 0 [] 0 (bitSize data + 2) treeOk_init hw hstart
      (by omega) (fun h => absurd h hne) (by omega)
    refine ⟨out.reverse, by rw [o1], List.reverse_prefix.mpr o2, ?_⟩
    omega

end Op2.Lzh
