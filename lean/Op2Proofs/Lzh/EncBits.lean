import Op2Model.Lzh
/-!
# The encoder's bit packing read back by the decoder's bit function

`bitAt (packBits bs).toArray p = bs.getD p 0` for every position (zero padding past the end of the list), and the
packed stream is `8 * ⌈|bs| / 8⌉` bits long.
-/
namespace Op2.Lzh
open Op2 Op2.Lzh.Spec

theorem list_eight (l : List Nat) (h : l.length = 8) : ∃ a0 a1 a2 a3 a4 a5 a6 a7, l = [a0, a1, a2, a3, a4, a5, a6, a7] := by
  rcases l with _ | ⟨a0, l⟩; · simp at h
  rcases l with _ | ⟨a1, l⟩; · simp at h
  rcases l with _ | ⟨a2, l⟩; · simp at h
  rcases l with _ | ⟨a3, l⟩; · simp at h
  rcases l with _ | ⟨a4, l⟩; · simp at h
  rcases l with _ | ⟨a5, l⟩; · simp at h
  rcases l with _ | ⟨a6, l⟩; · simp at h
  rcases l with _ | ⟨a7, l⟩; · simp at h
  rcases l with _ | ⟨a8, l⟩
  · exact ⟨_, _, _, _, _, _, _, _, rfl⟩
  · simp at h

/-- bit `j` (MSB first) of a byte assembled from eight bits -/
theorem byte_of_eight (a0 a1 a2 a3 a4 a5 a6 a7 j : Nat) (h0 : a0 < 2) (h1 : a1 < 2) (h2 : a2 < 2) (h3 : a3 < 2)
    (h4 : a4 < 2) (h5 : a5 < 2) (h6 : a6 < 2) (h7 : a7 < 2) (hj : j < 8) :
    ((((((((((0 * 2 + a0) * 2 + a1) * 2 + a2) * 2 + a3) * 2 + a4) * 2 + a5) * 2 + a6) * 2 + a7) % 256) / 2 ^ (7 - j)) % 2
      = [a0, a1, a2, a3, a4, a5, a6, a7].getD j 0 := by
  have : j = 0 ∨ j = 1 ∨ j = 2 ∨ j = 3 ∨ j = 4 ∨ j = 5 ∨ j = 6 ∨ j = 7 := by omega
  rcases this with rfl | rfl | rfl | rfl | rfl | rfl | rfl | rfl <;>
    (simp only [Nat.reduceSub, Nat.reducePow, List.getD_cons_zero, List.getD_cons_succ]; omega)

theorem getD_pad (chunk : List Nat) (k j : Nat) : (chunk ++ List.replicate k 0).getD j 0 = chunk.getD j 0 := by
  simp only [List.getD_eq_getElem?_getD]
  by_cases h : j < chunk.length
  · rw [List.getElem?_append_left h]
  · rw [List.getElem?_append_right (by omega), List.getElem?_eq_none (show chunk.length ≤ j by omega)]
    by_cases h2 : j - chunk.length < k
    · rw [List.getElem?_replicate_of_lt h2]; rfl
    · rw [List.getElem?_eq_none (by simp; omega)]

/-- the packed byte gives back the bits of its chunk, and zeros after them -/
theorem byteOfBits_bit (chunk : List Nat) (hb : ∀ b ∈ chunk, b < 2) (hl : chunk.length ≤ 8) (j : Nat) (hj : j < 8) :
    ((byteOfBits chunk).toNat >>> (7 - j)) % 2 = chunk.getD j 0 := by
  unfold byteOfBits
  have hlen : (chunk ++ List.replicate (8 - chunk.length) 0).length = 8 := by simp; omega
  have hbits : ∀ b ∈ chunk ++ List.replicate (8 - chunk.length) 0, b < 2 := by
    intro b hm
    rcases List.mem_append.mp hm with h | h
    · exact hb b h
    · have := List.eq_of_mem_replicate h; omega
  rw [← getD_pad chunk (8 - chunk.length) j]
  generalize chunk ++ List.replicate (8 - chunk.length) 0 = l at *
  obtain ⟨a0, a1, a2, a3, a4, a5, a6, a7, rfl⟩ := list_eight l hlen
  simp only [List.foldl_cons, List.foldl_nil, UInt8.toNat_ofNat', Nat.shiftRight_eq_div_pow]
  exact byte_of_eight a0 a1 a2 a3 a4 a5 a6 a7 j (hbits _ (by simp)) (hbits _ (by simp)) (hbits _ (by simp))
    (hbits _ (by simp)) (hbits _ (by simp)) (hbits _ (by simp)) (hbits _ (by simp)) (hbits _ (by simp)) hj

/-- bit `p` of a byte list (the list form of `bitAt`) -/
def bitOfBytes (l : List UInt8) (p : Nat) : Nat := ((l.getD (p / 8) 0).toNat >>> (7 - p % 8)) % 2

theorem bitOfBytes_nil (p : Nat) : bitOfBytes [] p = 0 := by
  unfold bitOfBytes; simp

theorem bit_packAux : ∀ (fuel : Nat) (bs : List Nat), bs.length ≤ fuel → (∀ b ∈ bs, b < 2) → ∀ p,
    bitOfBytes (packAux fuel bs) p = bs.getD p 0 := by
  intro fuel
  induction fuel using Nat.strongRecOn with
  | _ fuel ih =>
    intro bs hl hb p
    cases fuel with
    | zero =>
      have : bs = [] := List.eq_nil_of_length_eq_zero (by omega)
      subst this
      simp only [packAux, bitOfBytes_nil, List.getD_nil]
    | succ f =>
      cases bs with
      | nil => simp only [packAux, bitOfBytes_nil, List.getD_nil]
      | cons b bs =>
        simp only [packAux]
        by_cases hp : p < 8
        · have e1 : p / 8 = 0 := by omega
          have e2 : p % 8 = p := by omega
          unfold bitOfBytes
          rw [e1, e2, List.getD_cons_zero]
          rw [byteOfBits_bit _ (fun x hx => hb x (List.mem_of_mem_take hx)) (List.length_take_le _ _) p hp]
          simp only [List.getD_eq_getElem?_getD, List.getElem?_take, if_pos hp]
        · have e1 : p / 8 = (p - 8) / 8 + 1 := by omega
          have e2 : p % 8 = (p - 8) % 8 := by omega
          have hrec := ih f (by omega) ((b :: bs).drop 8) (by simp only [List.length_drop, List.length_cons] at hl ⊢; omega)
            (fun x hx => hb x (List.mem_of_mem_drop hx)) (p - 8)
          unfold bitOfBytes at hrec ⊢
          rw [e1, e2, List.getD_cons_succ, hrec]
          simp only [List.getD_eq_getElem?_getD, List.getElem?_drop]
          rw [show 8 + (p - 8) = p by omega]

theorem length_packAux : ∀ (fuel : Nat) (bs : List Nat), bs.length ≤ fuel → (packAux fuel bs).length = (bs.length + 7) / 8 := by
  intro fuel
  induction fuel using Nat.strongRecOn with
  | _ fuel ih =>
    intro bs hl
    cases fuel with
    | zero =>
      have : bs = [] := List.eq_nil_of_length_eq_zero (by omega)
      subst this; rfl
    | succ f =>
      cases bs with
      | nil => rfl
      | cons b bs =>
        simp only [packAux, List.length_cons]
        rw [ih f (by omega) ((b :: bs).drop 8) (by simp only [List.length_drop, List.length_cons] at hl ⊢; omega)]
        simp only [List.length_drop, List.length_cons]
        omega

/-- **the decoder's bit function on the packed stream is the encoder's bit list, zero past its end** -/
theorem bitAt_packBits (bs : List Nat) (hb : ∀ b ∈ bs, b < 2) (p : Nat) : bitAt (packBits bs).toArray p = bs.getD p 0 := by
  have := bit_packAux bs.length bs (Nat.le_refl _) hb p
  unfold bitOfBytes at this
  unfold bitAt packBits
  rw [← this]
  congr 3
  simp [Array.getD_eq_getD_getElem?, List.getD_eq_getElem?_getD]

/-- the packed stream is the bit list rounded up to whole bytes -/
theorem bitSize_packBits (bs : List Nat) : bitSize (packBits bs).toArray = 8 * ((bs.length + 7) / 8) := by
  unfold bitSize packBits
  rw [List.size_toArray, length_packAux _ _ (Nat.le_refl _)]

end Op2.Lzh
