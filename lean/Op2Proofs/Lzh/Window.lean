import Op2Model.Lzh
/-!
# The circular window holds the last 4096 bytes of the unbounded history (C04)

`hist` is the output history, most recent byte first.  `WInv buf w hist`: the byte `d + 1` positions back in the
history sits at circular index `w - 1 - d`.
-/
namespace Op2.Lzh
open Op2 Op2.Lzh.Spec

def vwB (a : Array UInt8) : Nat → UInt8 := fun i => a.getD i 0

theorem vwB_set (a : Array UInt8) (i : Nat) (v : UInt8) (h : i < a.size) (j : Nat) :
    vwB (a.setIfInBounds i v) j = if j = i then v else vwB a j := by
  simp only [vwB, Array.getD_eq_getD_getElem?, Array.getElem?_setIfInBounds]
  by_cases e : j = i
  · subst e; simp [h]
  · have : ¬ (i = j) := fun h => e h.symm
    simp [e, this]

structure WInv (buf : Array UInt8) (w : Nat) (hist : List UInt8) : Prop where
  size : buf.size = N
  hw : w < N
  win : ∀ d, d < N → vwB buf ((w + N - 1 - d) % N) = histAt hist d

theorem histAt_cons_zero (hist : List UInt8) (c : UInt8) : histAt (c :: hist) 0 = c := rfl
theorem histAt_cons_succ (hist : List UInt8) (c : UInt8) (d : Nat) : histAt (c :: hist) (d + 1) = histAt hist d := rfl

theorem init_winv : WInv (Array.replicate N fillByte) 0 [] := by
  refine ⟨by simp, by decide, ?_⟩
  intro d hd
  have hlt : (0 + N - 1 - d) % N < N := Nat.mod_lt _ (by decide)
  show (Array.replicate N fillByte).getD ((0 + N - 1 - d) % N) 0 = histAt [] d
  rw [Array.getD_eq_getD_getElem?, Array.getElem?_replicate, if_pos hlt]
  simp [histAt]

/-- `WriteCharToBuffer` appends to the history; the store is inside the buffer -/
theorem put_inv {buf : Array UInt8} {w : Nat} {hist : List UInt8} (h : WInv buf w hist) (c : UInt8) :
    WInv (put buf w c).1 (put buf w c).2 (c :: hist) := by
  obtain ⟨hs, hw, hb⟩ := h
  refine ⟨by simp [put, hs], Nat.mod_lt _ (by decide), ?_⟩
  intro d hd
  show vwB (buf.setIfInBounds w c) (((w + 1) % N + N - 1 - d) % N) = _
  rw [vwB_set _ _ _ (by omega)]
  cases d with
  | zero =>
    have : ((w + 1) % N + N - 1 - 0) % N = w := by unfold N at *; omega
    rw [this, if_pos rfl, histAt_cons_zero]
  | succ d =>
    have e : ((w + 1) % N + N - 1 - (d + 1)) % N = (w + N - 1 - d) % N := by unfold N at *; omega
    have ne : (w + N - 1 - d) % N ≠ w := by unfold N at *; omega
    rw [e, histAt_cons_succ, if_neg ne]
    exact hb d (by omega)

theorem put_w (buf : Array UInt8) (w : Nat) (c : UInt8) : (put buf w c).2 = (w + 1) % N := rfl

/-- the copy loop of a repeat block refines the byte-by-byte copy on the unbounded history, for any length and any
    (also overlapping) offset; the write index advances by the length -/
theorem copy_refines : ∀ len (buf : Array UInt8) (w : Nat) (hist : List UInt8) (off start : Nat), WInv buf w hist → off < N →
    start = (w + N - off - 1) % N →
    WInv (copyMatch buf w start len).1 (copyMatch buf w start len).2 (Spec.copy hist off len) ∧
    (copyMatch buf w start len).2 = (w + len) % N := by
  intro len
  induction len with
  | zero => intro buf w hist off start h _ _; exact ⟨h, by have := h.hw; simp [copyMatch, Nat.mod_eq_of_lt this]⟩
  | succ len ih =>
    intro buf w hist off start h hoff hst
    simp only [copyMatch, Spec.copy]
    have hbyte : buf.getD start 0 = histAt hist off := by
      have := h.win off hoff
      rw [hst]
      have e : (w + N - off - 1) % N = (w + N - 1 - off) % N := by
        have := h.hw; unfold N at *; omega
      rw [e]; exact this
    rw [hbyte]
    have hw := h.hw
    obtain ⟨i1, i2⟩ := ih (put buf w (histAt hist off)).1 (put buf w (histAt hist off)).2 (histAt hist off :: hist) off
      ((start + 1) % N) (put_inv h _) hoff (by rw [put_w, hst]; unfold N at *; omega)
    refine ⟨i1, ?_⟩
    rw [i2, put_w]; unfold N at *; omega

theorem copy_length (hist : List UInt8) (off : Nat) : ∀ len, (Spec.copy hist off len).length = hist.length + len := by
  intro len
  induction len generalizing hist with
  | zero => rfl
  | succ len ih => simp only [Spec.copy]; rw [ih]; simp; omega

/-- a copy only adds bytes in front of (= after, in time) the history -/
theorem copy_suffix (hist : List UInt8) (off : Nat) : ∀ len, hist <:+ Spec.copy hist off len := by
  intro len
  induction len generalizing hist with
  | zero => exact List.suffix_refl _
  | succ len ih => simp only [Spec.copy]; exact List.IsSuffix.trans (List.suffix_cons _ _) (ih _)

end Op2.Lzh
