import Op2Model.Lzh
/-!
# `BitStreamReader`'s shift register is the pure bit function

`CBits` is the class as written (cursor + one-byte shift register `m_ReadBuff`); `readBit / read8` are the stream as a
function of the data and the cursor alone.  Under the register invariant they return the same values and cursors.
-/
namespace Op2.Lzh
open Op2

/-- byte `i` of the data (0 past the end) -/
def byteAt (data : Array UInt8) (i : Nat) : Nat := (data.getD i 0).toNat

theorem byteAt_lt (data : Array UInt8) (i : Nat) : byteAt data i < 256 := by
  unfold byteAt; exact UInt8.toNat_lt _

theorem bitAt_eq (data : Array UInt8) (p : Nat) : bitAt data p = (byteAt data (p / 8) / 2 ^ (7 - p % 8)) % 2 := by
  unfold bitAt byteAt; rw [Nat.shiftRight_eq_div_pow]

/-- inside a byte that is not yet exhausted the register holds the byte shifted left by the bits already read -/
def CInv (data : Array UInt8) (c : CBits) : Prop :=
  c.pos % 8 ≠ 0 → c.pos < bitSize data → c.buf = (byteAt data (c.pos / 8) * 2 ^ (c.pos % 8)) % 256

theorem cinv_init (data : Array UInt8) : CInv data { pos := 0, buf := 0 } := by
  intro h; simp at h

/-- the eight cases of "bit `k` of a byte through the shifted register" -/
theorem reg_bit (B k : Nat) (hB : B < 256) (hk : k < 8) :
    (if (B * 2 ^ k) % 256 / 128 % 2 = 1 then 1 else 0) = (B / 2 ^ (7 - k)) % 2 := by
  have : k = 0 ∨ k = 1 ∨ k = 2 ∨ k = 3 ∨ k = 4 ∨ k = 5 ∨ k = 6 ∨ k = 7 := by omega
  rcases this with rfl | rfl | rfl | rfl | rfl | rfl | rfl | rfl <;> (simp only [Nat.reducePow, Nat.reduceSub]; split <;> omega)

theorem reg_shift (B k : Nat) (hk : k < 7) : ((B * 2 ^ k) % 256 * 2) % 256 = (B * 2 ^ (k + 1)) % 256 := by
  have : k = 0 ∨ k = 1 ∨ k = 2 ∨ k = 3 ∨ k = 4 ∨ k = 5 ∨ k = 6 := by omega
  rcases this with rfl | rfl | rfl | rfl | rfl | rfl | rfl <;> (simp only [Nat.reducePow, Nat.reduceAdd]; omega)

/-- **`ReadNextBit`**: same bit, same cursor, invariant kept -/
theorem readBit_refines (data : Array UInt8) (c : CBits) (h : CInv data c) :
    (CBits.readBit data c).1 = (readBit data c.pos).1 ∧ (CBits.readBit data c).2.pos = (readBit data c.pos).2 ∧
    CInv data (CBits.readBit data c).2 := by
  unfold CBits.readBit readBit
  by_cases he : c.pos ≥ bitSize data
  · rw [if_pos he, if_pos he]; exact ⟨rfl, rfl, h⟩
  · rw [if_neg he, if_neg he]
    have hlt : c.pos < bitSize data := by omega
    have hB := byteAt_lt data (c.pos / 8)
    have hk : c.pos % 8 < 8 := Nat.mod_lt _ (by omega)
    -- the register after the (possible) reload
    have hreg : (if c.pos % 8 = 0 then (data.getD (c.pos / 8) 0).toNat else c.buf) = (byteAt data (c.pos / 8) * 2 ^ (c.pos % 8)) % 256 := by
      by_cases hz : c.pos % 8 = 0
      · rw [if_pos hz, hz]; show byteAt data (c.pos / 8) = _; omega
      · rw [if_neg hz]; exact h hz hlt
    rw [hreg]
    refine ⟨?_, ?_, ?_⟩
    · rw [bitAt_eq]; exact reg_bit _ _ hB hk
    · rfl
    · intro hnz hlt'
      show ((byteAt data (c.pos / 8) * 2 ^ (c.pos % 8)) % 256 * 2) % 256 = (byteAt data ((c.pos + 1) / 8) * 2 ^ ((c.pos + 1) % 8)) % 256
      have hk7 : c.pos % 8 < 7 := by
        have : (c.pos + 1) % 8 ≠ 0 := hnz
        omega
      have e1 : (c.pos + 1) / 8 = c.pos / 8 := by omega
      have e2 : (c.pos + 1) % 8 = c.pos % 8 + 1 := by omega
      rw [e1, e2]; exact reg_shift _ _ hk7

/-- a byte is the sum of its bits -/
theorem byte_bits (B : Nat) (hB : B < 256) :
    (B / 128) % 2 * 128 + (B / 64) % 2 * 64 + (B / 32) % 2 * 32 + (B / 16) % 2 * 16 + (B / 8) % 2 * 8 + (B / 4) % 2 * 4 +
      (B / 2) % 2 * 2 + B % 2 = B := by omega

/-- the aligned case of `ReadNext8Bits`: the eight bits from a byte boundary are that byte -/
theorem bits8_aligned (data : Array UInt8) (p : Nat) (hp : p % 8 = 0) : bits8 data p = byteAt data (p / 8) := by
  unfold bits8
  have hB := byteAt_lt data (p / 8)
  have e : ∀ j, j < 8 → bitAt data (p + j) = (byteAt data (p / 8) / 2 ^ (7 - j)) % 2 := by
    intro j hj
    rw [bitAt_eq]
    have e1 : (p + j) / 8 = p / 8 := by omega
    have e2 : (p + j) % 8 = j := by omega
    rw [e1, e2]
  have e0 := e 0 (by omega)
  rw [Nat.add_zero] at e0
  rw [e0, e 1 (by omega), e 2 (by omega), e 3 (by omega), e 4 (by omega), e 5 (by omega), e 6 (by omega), e 7 (by omega)]
  simp only [Nat.reduceSub, Nat.reducePow, Nat.div_one]
  exact byte_bits _ hB

theorem bitAt_split (data : Array UInt8) (p j : Nat) (hj : j < 8) :
    bitAt data (p + j) = if p % 8 + j < 8 then (byteAt data (p / 8) / 2 ^ (7 - (p % 8 + j))) % 2
                         else (byteAt data (p / 8 + 1) / 2 ^ (7 - (p % 8 + j - 8))) % 2 := by
  rw [bitAt_eq]
  by_cases h : p % 8 + j < 8
  · rw [if_pos h]
    have e1 : (p + j) / 8 = p / 8 := by omega
    have e2 : (p + j) % 8 = p % 8 + j := by omega
    rw [e1, e2]
  · rw [if_neg h]
    have e1 : (p + j) / 8 = p / 8 + 1 := by omega
    have e2 : (p + j) % 8 = p % 8 + j - 8 := by omega
    rw [e1, e2]

/-- the unaligned case: what is left of the current byte, then the top bits of the next one -/
theorem bits8_unaligned (data : Array UInt8) (p : Nat) (hk : p % 8 ≠ 0) :
    bits8 data p = (byteAt data (p / 8) * 2 ^ (p % 8)) % 256 + byteAt data (p / 8 + 1) / 2 ^ (8 - p % 8) := by
  have hB := byteAt_lt data (p / 8)
  have hN := byteAt_lt data (p / 8 + 1)
  unfold bits8
  have e0 := bitAt_split data p 0 (by omega)
  rw [Nat.add_zero] at e0
  rw [e0, bitAt_split data p 1 (by omega), bitAt_split data p 2 (by omega), bitAt_split data p 3 (by omega),
    bitAt_split data p 4 (by omega), bitAt_split data p 5 (by omega), bitAt_split data p 6 (by omega), bitAt_split data p 7 (by omega)]
  generalize byteAt data (p / 8) = B at *
  generalize byteAt data (p / 8 + 1) = N at *
  have : p % 8 = 1 ∨ p % 8 = 2 ∨ p % 8 = 3 ∨ p % 8 = 4 ∨ p % 8 = 5 ∨ p % 8 = 6 ∨ p % 8 = 7 := by omega
  rcases this with h | h | h | h | h | h | h <;>
    (rw [h]; simp only [Nat.reduceAdd, Nat.reduceSub, Nat.reducePow, Nat.reduceLT, if_true, if_false, Nat.lt_irrefl, Nat.div_one]; omega)

/-- OR of the register with the shifted-down next byte is their sum (the two occupy disjoint bit ranges) -/
theorem reg_or (B N k : Nat) (hB : B < 256) (hN : N < 256) (hk1 : 1 ≤ k) (hk7 : k ≤ 7) :
    ((B * 2 ^ k) % 256) ||| (N >>> (8 - k)) = (B * 2 ^ k) % 256 + N / 2 ^ (8 - k) := by
  have e : (B * 2 ^ k) % 256 = (B % 2 ^ (8 - k)) <<< k := by
    rw [Nat.shiftLeft_eq]
    have : k = 1 ∨ k = 2 ∨ k = 3 ∨ k = 4 ∨ k = 5 ∨ k = 6 ∨ k = 7 := by omega
    rcases this with rfl | rfl | rfl | rfl | rfl | rfl | rfl <;> (simp only [Nat.reducePow, Nat.reduceSub]; omega)
  have hlt : N / 2 ^ (8 - k) < 2 ^ k := by
    have : k = 1 ∨ k = 2 ∨ k = 3 ∨ k = 4 ∨ k = 5 ∨ k = 6 ∨ k = 7 := by omega
    rcases this with rfl | rfl | rfl | rfl | rfl | rfl | rfl <;> (simp only [Nat.reducePow, Nat.reduceSub]; omega)
  rw [Nat.shiftRight_eq_div_pow, e, ← Nat.shiftLeft_add_eq_or_of_lt hlt]

/-- **`ReadNext8Bits`**: same value, same cursor, invariant kept -/
theorem read8_refines (data : Array UInt8) (c : CBits) (h : CInv data c) :
    (CBits.read8 data c).1 = (read8 data c.pos).1 ∧ (CBits.read8 data c).2.pos = (read8 data c.pos).2 ∧
    CInv data (CBits.read8 data c).2 := by
  unfold CBits.read8 read8
  by_cases he : c.pos ≥ bitSize data
  · rw [if_pos he, if_pos he]; exact ⟨rfl, rfl, h⟩
  · rw [if_neg he, if_neg he]
    have hlt : c.pos < bitSize data := by omega
    by_cases hz : c.pos % 8 = 0
    · simp only [hz, if_true]
      refine ⟨?_, ?_, ?_⟩
      · show byteAt data (c.pos / 8) = bits8 data c.pos
        exact (bits8_aligned data c.pos hz).symm
      · first | rfl | trivial
      · intro hnz; exact absurd (show (c.pos + 8) % 8 = 0 by omega) hnz
    · simp only [hz, if_false]
      have hreg := h hz hlt
      have hB := byteAt_lt data (c.pos / 8)
      have hk : c.pos % 8 < 8 := Nat.mod_lt _ (by omega)
      -- the next byte as the code fetches it: 0 when the cursor would be at or past the end
      have hnb : (if c.pos + 8 ≥ bitSize data then 0 else (data.getD ((c.pos + 8) / 8) 0).toNat) = byteAt data (c.pos / 8 + 1) := by
        have e1 : (c.pos + 8) / 8 = c.pos / 8 + 1 := by omega
        by_cases hend : c.pos + 8 ≥ bitSize data
        · rw [if_pos hend]
          unfold byteAt
          have : data.size ≤ c.pos / 8 + 1 := by unfold bitSize at hend; omega
          simp [Array.getD_eq_getD_getElem?, this]
        · rw [if_neg hend, e1]; rfl
      rw [hnb]
      have hN := byteAt_lt data (c.pos / 8 + 1)
      refine ⟨?_, ?_, ?_⟩
      · show c.buf ||| (byteAt data (c.pos / 8 + 1) >>> (8 - c.pos % 8)) = bits8 data c.pos
        rw [hreg, reg_or _ _ _ hB hN (by omega) (by omega), bits8_unaligned data c.pos hz]
      · first | rfl | trivial
      · intro hnz hlt'
        show (byteAt data (c.pos / 8 + 1) <<< (c.pos % 8)) % 256 = (byteAt data ((c.pos + 8) / 8) * 2 ^ ((c.pos + 8) % 8)) % 256
        have e1 : (c.pos + 8) / 8 = c.pos / 8 + 1 := by omega
        have e2 : (c.pos + 8) % 8 = c.pos % 8 := by omega
        rw [e1, e2, Nat.shiftLeft_eq]

/-- a whole sequence of reads: the class as written and the pure stream agree on every value and every cursor -/
inductive BitOp where | bit | byte
  deriving DecidableEq, Repr

def runC (data : Array UInt8) : CBits → List BitOp → List (Nat × Nat)
  | _, [] => []
  | c, .bit :: ops => let r := CBits.readBit data c; (r.1, r.2.pos) :: runC data r.2 ops
  | c, .byte :: ops => let r := CBits.read8 data c; (r.1, r.2.pos) :: runC data r.2 ops

def runA (data : Array UInt8) : Nat → List BitOp → List (Nat × Nat)
  | _, [] => []
  | p, .bit :: ops => let r := readBit data p; (r.1, r.2) :: runA data r.2 ops
  | p, .byte :: ops => let r := read8 data p; (r.1, r.2) :: runA data r.2 ops

theorem run_refines (data : Array UInt8) : ∀ (ops : List BitOp) (c : CBits), CInv data c → runC data c ops = runA data c.pos ops := by
  intro ops
  induction ops with
  | nil => intro c _; rfl
  | cons op ops ih =>
    intro c h
    cases op with
    | bit =>
      obtain ⟨h1, h2, h3⟩ := readBit_refines data c h
      simp only [runC, runA]
      rw [h1, h2, ih _ h3, h2]
    | byte =>
      obtain ⟨h1, h2, h3⟩ := read8_refines data c h
      simp only [runC, runA]
      rw [h1, h2, ih _ h3, h2]

end Op2.Lzh
