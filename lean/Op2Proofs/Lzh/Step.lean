import Op2Proofs.Lzh.Window
/-!
# One code: `DecompressCode` on the circular window refines the reference step on the unbounded history
-/
namespace Op2.Lzh
open Op2 Op2.Huff Op2.Lzh.Spec

theorem bitAt_le (data : Array UInt8) (p : Nat) : bitAt data p ≤ 1 := by
  unfold bitAt; omega

theorem bits8_lt (data : Array UInt8) (p : Nat) : bits8 data p < 256 := by
  unfold bits8
  have := bitAt_le data p; have := bitAt_le data (p + 1); have := bitAt_le data (p + 2); have := bitAt_le data (p + 3)
  have := bitAt_le data (p + 4); have := bitAt_le data (p + 5); have := bitAt_le data (p + 6); have := bitAt_le data (p + 7)
  omega

theorem read8_lt (data : Array UInt8) (p : Nat) : (read8 data p).1 < 256 := by
  unfold read8; split
  · show (0 : Nat) < 256; omega
  · exact bits8_lt data p

theorem offsetMods_up (o : Nat) (h : o < 256) : (offsetMods o).2 ≤ 63 := by
  unfold offsetMods
  split; · simp
  split; · simp; omega
  split; · simp; omega
  split; · simp; omega
  split; · simp; omega
  simp; omega

/-- a decoded offset is a 12-bit number: the copy source is always inside the window -/
theorem repeatOffset_lt (data : Array UInt8) (p : Nat) : (repeatOffset data p).1 < N := by
  unfold repeatOffset
  have h1 := read8_lt data p
  have h2 := offsetMods_up (read8 data p).1 h1
  show (offsetMods (read8 data p).1).2 * 64 + _ % 64 < N
  unfold N; omega

theorem updateChecked_lt {t t' : TA} {code : Nat} (h : t.updateChecked code = .ok t') : code < t.T := by
  unfold TA.updateChecked at h
  split at h
  · simp at h
  · omega

/-- what one successful `DecompressCode` does to the object: `k` bytes appended, everything else untouched -/
structure Stepped (st st' : St) (hist hist' : List UInt8) : Prop where
  data : st'.data = st.data
  r : st'.r = st.r
  eos : st'.eos = st.eos
  win : WInv st'.buf st'.w hist'
  grow : ∃ k, 1 ≤ k ∧ k ≤ 60 ∧ hist'.length = hist.length + k ∧ st'.w = (st.w + k) % N
  suffix : hist <:+ hist'

structure Refused (st st' : St) : Prop where
  data : st'.data = st.data
  r : st'.r = st.r
  eos : st'.eos = st.eos
  buf : st'.buf = st.buf
  w : st'.w = st.w
  tree : st'.tree = st.tree

/-- what a decoded symbol guarantees: a literal is a byte, a repeat block is 3..60 bytes from inside the window -/
theorem decodeSym_mat {data : Array UInt8} {t t' : TA} {p p2 off len : Nat} (hT : t.T = symbolCount)
    (h : decodeSym data t p = .mat t' p2 off len) : off < N ∧ 3 ≤ len ∧ len ≤ 60 := by
  unfold decodeSym at h
  split at h
  · simp at h
  · rename_i code p1 _
    split at h
    · simp at h
    · rename_i t'' hu
      have hc : code < symbolCount := by rw [← hT]; exact updateChecked_lt hu
      split at h
      · simp at h
      · rename_i hl
        simp only [Sym.mat.injEq] at h
        obtain ⟨_, _, h3, h4⟩ := h
        rw [← h3, ← h4]
        exact ⟨repeatOffset_lt _ _, by unfold matchBase; omega, by unfold matchBase symbolCount at *; omega⟩

theorem dc_refines (st : St) (hist : List UInt8) (h : WInv st.buf st.w hist) (hT : st.tree.T = symbolCount) :
    match Spec.step st.data st.tree st.pos hist with
    | .next t' p' hist' => ∃ st', decompressCode st = (st', .more) ∧ st'.tree = t' ∧ st'.pos = p' ∧ Stepped st st' hist hist'
    | .last hist' => ∃ st', decompressCode st = (st', .eos) ∧ Stepped st st' hist hist'
    | .cap => ∃ st', decompressCode st = (st', .err) ∧ Refused st st' := by
  unfold Spec.step decompressCode
  cases hs : decodeSym st.data st.tree st.pos with
  | badQuery => exact ⟨st, rfl, ⟨rfl, rfl, rfl, rfl, rfl, rfl⟩⟩
  | full p1 => exact ⟨_, rfl, ⟨rfl, rfl, rfl, rfl, rfl, rfl⟩⟩
  | lit t' p1 c =>
    have hp := put_inv h (UInt8.ofNat c)
    have hS : Stepped st { st with pos := p1, tree := t', buf := (put st.buf st.w (UInt8.ofNat c)).1, w := (put st.buf st.w (UInt8.ofNat c)).2 }
        hist (UInt8.ofNat c :: hist) :=
      ⟨rfl, rfl, rfl, hp, ⟨1, by omega, by omega, by simp, rfl⟩, List.suffix_cons _ _⟩
    by_cases he : endOfStream st.data p1
    · simp only [he, if_true]; exact ⟨_, rfl, hS⟩
    · simp only [he]; exact ⟨_, rfl, rfl, rfl, hS⟩
  | mat t' p2 off len =>
    obtain ⟨hoff, hl3, hl60⟩ := decodeSym_mat hT hs
    obtain ⟨c1, c2⟩ := copy_refines len st.buf st.w hist off ((st.w + N - off - 1) % N) h hoff rfl
    have hS : Stepped st (St.mk st.data p2 t' (copyMatch st.buf st.w ((st.w + N - off - 1) % N) len).1
          (copyMatch st.buf st.w ((st.w + N - off - 1) % N) len).2 st.r st.eos) hist (Spec.copy hist off len) :=
      ⟨rfl, rfl, rfl, c1, ⟨len, by omega, hl60, copy_length _ _ _, c2⟩, copy_suffix _ _ _⟩
    by_cases he : endOfStream st.data p2
    · simp only [he, if_true]; exact ⟨_, rfl, hS⟩
    · simp only [he]; exact ⟨_, rfl, rfl, rfl, hS⟩

end Op2.Lzh
