import Op2Proofs.Lzh.EncOffset
/-!
# Reading back one offset code, continued: the three long prefix classes and the round-trip lemma for all 4096 offsets
-/
namespace Op2.Lzh
open Op2 Op2.Huff Op2.Lzh.Spec

theorem off_class4 (data : Array UInt8) (p off : Nat) (h1 : 12 ≤ off / 64) (h2 : off / 64 < 24) (h : Starts data p (offsetBits off)) :
    repeatOffset data p = (off, p + (offsetBits off).length) := by
  have hb : offsetBits off = [(off / 64 + 24) / 32 % 2, (off / 64 + 24) / 16 % 2, (off / 64 + 24) / 8 % 2, (off / 64 + 24) / 4 % 2, (off / 64 + 24) / 2 % 2, (off / 64 + 24) % 2, (off % 64) / 32 % 2, (off % 64) / 16 % 2]
      ++ [(off % 64) / 8 % 2, (off % 64) / 4 % 2, (off % 64) / 2 % 2, (off % 64) % 2] := by
    rw [offsetBits_eq, if_neg (by omega), if_neg (by omega), if_neg (by omega), if_pos (by omega), bitsOf_6, bitsOf_6]; rfl
  rw [hb] at h ⊢
  rw [repeatOffset_bits data p _ _ _ _ _ _ _ _ _ ((off / 64 + 24) * 4 + off % 64 / 16) (off / 64) h (by omega)
    (by unfold offsetMods; rw [if_neg (by omega), if_neg (by omega), if_neg (by omega), if_pos (by omega)] <;> (refine Prod.ext ?_ ?_ <;> simp only [List.length_cons, List.length_nil] <;> omega))]
  simp only [List.foldl_cons, List.foldl_nil, List.length_append, List.length_cons, List.length_nil]
  refine Prod.ext ?_ ?_ <;> simp only [] <;> omega

theorem off_class5 (data : Array UInt8) (p off : Nat) (h1 : 24 ≤ off / 64) (h2 : off / 64 < 48) (h : Starts data p (offsetBits off)) :
    repeatOffset data p = (off, p + (offsetBits off).length) := by
  have hb : offsetBits off = [(off / 64 + 72) / 64 % 2, (off / 64 + 72) / 32 % 2, (off / 64 + 72) / 16 % 2, (off / 64 + 72) / 8 % 2, (off / 64 + 72) / 4 % 2, (off / 64 + 72) / 2 % 2, (off / 64 + 72) % 2, (off % 64) / 32 % 2]
      ++ [(off % 64) / 16 % 2, (off % 64) / 8 % 2, (off % 64) / 4 % 2, (off % 64) / 2 % 2, (off % 64) % 2] := by
    rw [offsetBits_eq, if_neg (by omega), if_neg (by omega), if_neg (by omega), if_neg (by omega), if_pos (by omega), bitsOf_7, bitsOf_6]; rfl
  rw [hb] at h ⊢
  rw [repeatOffset_bits data p _ _ _ _ _ _ _ _ _ ((off / 64 + 72) * 2 + off % 64 / 32) (off / 64) h (by omega)
    (by unfold offsetMods; rw [if_neg (by omega), if_neg (by omega), if_neg (by omega), if_neg (by omega), if_pos (by omega)] <;> (refine Prod.ext ?_ ?_ <;> simp only [List.length_cons, List.length_nil] <;> omega))]
  simp only [List.foldl_cons, List.foldl_nil, List.length_append, List.length_cons, List.length_nil]
  refine Prod.ext ?_ ?_ <;> simp only [] <;> omega

theorem off_class6 (data : Array UInt8) (p off : Nat) (h1 : 48 ≤ off / 64) (h2 : off / 64 < 64) (h : Starts data p (offsetBits off)) :
    repeatOffset data p = (off, p + (offsetBits off).length) := by
  have hb : offsetBits off = [(off / 64 + 192) / 128 % 2, (off / 64 + 192) / 64 % 2, (off / 64 + 192) / 32 % 2, (off / 64 + 192) / 16 % 2, (off / 64 + 192) / 8 % 2, (off / 64 + 192) / 4 % 2, (off / 64 + 192) / 2 % 2, (off / 64 + 192) % 2]
      ++ [(off % 64) / 32 % 2, (off % 64) / 16 % 2, (off % 64) / 8 % 2, (off % 64) / 4 % 2, (off % 64) / 2 % 2, (off % 64) % 2] := by
    rw [offsetBits_eq, if_neg (by omega), if_neg (by omega), if_neg (by omega), if_neg (by omega), if_neg (by omega), bitsOf_8, bitsOf_6]
  rw [hb] at h ⊢
  rw [repeatOffset_bits data p _ _ _ _ _ _ _ _ _ ((off / 64 + 192) * 1 + off % 64 / 64) (off / 64) h (by omega)
    (by unfold offsetMods; rw [if_neg (by omega), if_neg (by omega), if_neg (by omega), if_neg (by omega), if_neg (by omega)] <;> (refine Prod.ext ?_ ?_ <;> simp only [List.length_cons, List.length_nil] <;> omega))]
  simp only [List.foldl_cons, List.foldl_nil, List.length_append, List.length_cons, List.length_nil]
  refine Prod.ext ?_ ?_ <;> simp only [] <;> omega

/-- **one offset code round trip**: every 12-bit offset written by the encoder is read back by `GetRepeatOffset`,
    which consumes exactly the encoder's bits -/
theorem repeatOffset_offsetBits (data : Array UInt8) (p off : Nat) (hoff : off < 4096) (h : Starts data p (offsetBits off)) :
    repeatOffset data p = (off, p + (offsetBits off).length) := by
  by_cases c1 : off / 64 = 0
  · exact off_class1 data p off c1 h
  by_cases c2 : off / 64 < 4
  · exact off_class2 data p off c1 c2 h
  by_cases c3 : off / 64 < 12
  · exact off_class3 data p off (by omega) c3 h
  by_cases c4 : off / 64 < 24
  · exact off_class4 data p off (by omega) c4 h
  by_cases c5 : off / 64 < 48
  · exact off_class5 data p off (by omega) c5 h
  · exact off_class6 data p off (by omega) (by omega) h

theorem offsetBits_pos (off : Nat) : 0 < (offsetBits off).length := by
  have : (bitsOf 6 (off % 64)).length = 6 := by rw [bitsOf_6]; rfl
  rw [offsetBits_eq, List.length_append]; omega

end Op2.Lzh
