import Op2Proofs.SysLemmas
/-!
# No operation changes what an object exposes

"a slice exposes exactly those n bytes … and nothing else", over histories: whatever is done to a reader object (reads,
seeks in and out of bounds, slices and copies taken from it), and whatever is done to the other objects, the bytes it
exposes stay the bytes it was created over.
-/
namespace Op2.Stream

/-- every operation of the wrapped stream keeps `key` (its data, or its data and window) -/
structure Keeps {σ κ : Type} (W : Wrapped σ) (key : σ → κ) : Prop where
  read : ∀ s k b s', W.read s k = .ok (b, s') → key s' = key s
  readPartial : ∀ s k, key (W.readPartial s k).2 = key s
  seek : ∀ s p s', W.seek s p = .ok s' → key s' = key s
  fwd : ∀ s d s', W.fwd s d = .ok s' → key s' = key s
  back : ∀ s d s', W.back s d = .ok s' → key s' = key s

theorem keeps_file : Keeps fileWrapped (fun s : FileR => s.data) where
  read s k b s' h := by
    simp only [fileWrapped, FileR.read] at h
    split at h
    · cases h; rfl
    · cases h
  readPartial s k := rfl
  seek s p s' h := by simp only [fileWrapped, FileR.seek] at h; cases h; rfl
  fwd s d s' h := by
    simp only [fileWrapped, FileR.fwd] at h
    split at h
    · cases h
    · cases h; rfl
  back s d s' h := by
    simp only [fileWrapped, FileR.back] at h
    split at h
    · cases h
    · cases h; rfl

/-- the window coordinates and the wrapped stream's key, for a slice -/
def sliceKey {σ κ : Type} (key : σ → κ) (s : Slice σ) : κ × Nat × Nat := (key s.w, s.start, s.len)

section
variable {σ κ : Type} {W : Wrapped σ} {key : σ → κ}

theorem slice_read_keeps (K : Keeps W key) (s : Slice σ) (k : Nat) (b : Bytes) (s' : Slice σ)
    (h : Slice.read W s k = .ok (b, s')) : sliceKey key s' = sliceKey key s := by
  unfold Slice.read at h
  split at h
  · cases h
  · split at h
    · cases h
    · rename_i b' w' hw
      cases h
      simp only [sliceKey, K.read _ _ _ _ hw]

theorem slice_readPartial_keeps (K : Keeps W key) (s : Slice σ) (k : Nat) :
    sliceKey key (Slice.readPartial W s k).2 = sliceKey key s := by
  simp only [Slice.readPartial, sliceKey, K.readPartial]

theorem slice_seek_keeps (K : Keeps W key) (s : Slice σ) (p : Nat) (s' : Slice σ)
    (h : Slice.seek W s p = .ok s') : sliceKey key s' = sliceKey key s := by
  unfold Slice.seek at h
  split at h
  · cases h
  · split at h
    · cases h
    · rename_i w' hw
      cases h
      simp only [sliceKey, K.seek _ _ _ hw]

theorem slice_fwd_keeps (K : Keeps W key) (s : Slice σ) (d : Nat) (s' : Slice σ)
    (h : Slice.fwd W s d = .ok s') : sliceKey key s' = sliceKey key s := by
  unfold Slice.fwd at h
  split at h
  · cases h
  · split at h
    · cases h
    · rename_i w' hw
      cases h
      simp only [sliceKey, K.fwd _ _ _ hw]

theorem slice_back_keeps (K : Keeps W key) (s : Slice σ) (d : Nat) (s' : Slice σ)
    (h : Slice.back W s d = .ok s') : sliceKey key s' = sliceKey key s := by
  unfold Slice.back at h
  split at h
  · cases h
  · split at h
    · cases h
    · rename_i w' hw
      cases h
      simp only [sliceKey, K.back _ _ _ hw]

/-- a slice is again such a stream (so the statement climbs to any nesting depth) -/
theorem keeps_slice (K : Keeps W key) : Keeps (Slice.asWrapped W) (sliceKey key) where
  read := slice_read_keeps K
  readPartial := slice_readPartial_keeps K
  seek := slice_seek_keeps K
  fwd := slice_fwd_keeps K
  back := slice_back_keeps K

/-- every public operation of a slice, with any argument, succeeding or not -/
theorem slice_step_keeps (K : Keeps W key) (s : Slice σ) (op : ROp) :
    sliceKey key (Slice.step W s op).2 = sliceKey key s := by
  cases op with
  | read k =>
    simp only [Slice.step]; split
    · rename_i b s' h; exact slice_read_keeps K s k b s' h
    · rfl
  | readPartial k => exact slice_readPartial_keeps K s k
  | peek k =>
    simp only [Slice.step]; split
    · rename_i b s' h
      unfold Slice.peek at h
      split at h
      · cases h
      · rename_i bb s1 h1
        split at h
        · cases h
        · rename_i s2 h2
          cases h
          rw [slice_back_keeps K s1 k _ h2, slice_read_keeps K s k _ s1 h1]
    · rfl
  | seek p =>
    simp only [Slice.step]; split
    · rename_i s' h; exact slice_seek_keeps K s p s' h
    · rfl
  | fwd d =>
    simp only [Slice.step]; split
    · rename_i s' h; exact slice_fwd_keeps K s d s' h
    · rfl
  | back d =>
    simp only [Slice.step]; split
    · rename_i s' h; exact slice_back_keeps K s d s' h
    · rfl
  | seekBegin =>
    simp only [Slice.step]; split
    · rename_i s' h; exact slice_seek_keeps K s 0 s' h
    · rfl
  | seekEnd =>
    simp only [Slice.step]; split
    · rename_i s' h; exact slice_fwd_keeps K s _ s' h
    · rfl
end

/-- the memory reader (and the abstract reader): no operation touches the data -/
theorem rspec_step_data (s : RSpec) (op : ROp) : (RSpec.step s op).2.data = s.data := by
  cases op <;> simp only [RSpec.step] <;> (try split) <;> rfl

theorem mem_read_data (s : MemR) (k : Nat) (b : Bytes) (s' : MemR) (h : MemR.read s k = .ok (b, s')) : s'.data = s.data := by
  unfold MemR.read at h
  split at h
  · cases h
  · cases h; rfl
theorem mem_seek_data (s : MemR) (p : Nat) (s' : MemR) (h : MemR.seek s p = .ok s') : s'.data = s.data := by
  unfold MemR.seek at h
  split at h
  · cases h
  · cases h; rfl
theorem mem_fwd_data (s : MemR) (d : Nat) (s' : MemR) (h : MemR.fwd s d = .ok s') : s'.data = s.data := by
  simp only [MemR.fwd] at h
  split at h
  · cases h
  · cases h; rfl
theorem mem_back_data (s : MemR) (d : Nat) (s' : MemR) (h : MemR.back s d = .ok s') : s'.data = s.data := by
  unfold MemR.back at h
  split at h
  · cases h
  · cases h; rfl

theorem mem_step_data (s : MemR) (op : ROp) : (MemR.step s op).2.data = s.data := by
  cases op with
  | read k =>
    simp only [MemR.step]; split
    · rename_i b s' h; exact mem_read_data s k b s' h
    · rfl
  | readPartial k => rfl
  | peek k =>
    simp only [MemR.step]; split
    · rename_i b s' h
      unfold MemR.peek at h
      split at h
      · cases h
      · rename_i bb s1 h1
        split at h
        · cases h
        · rename_i s2 h2
          cases h
          simp only
          rw [mem_back_data s1 k _ h2, mem_read_data s k _ s1 h1]
    · rfl
  | seek p =>
    simp only [MemR.step]; split
    · rename_i s' h; exact mem_seek_data s p s' h
    · rfl
  | fwd d =>
    simp only [MemR.step]; split
    · rename_i s' h; exact mem_fwd_data s d s' h
    · rfl
  | back d =>
    simp only [MemR.step]; split
    · rename_i s' h; exact mem_back_data s d s' h
    · rfl
  | seekBegin =>
    simp only [MemR.step]; split
    · rename_i s' h; exact mem_seek_data s 0 s' h
    · rfl
  | seekEnd =>
    simp only [MemR.step]; split
    · rename_i s' h; exact mem_fwd_data s _ s' h
    · rfl

end Op2.Stream

namespace Op2.Stream

theorem Rd.step_content (r : Rd) (op : ROp) : (r.step op).2.content = r.content := by
  cases r with
  | mem s => simp only [Rd.step, Rd.content]; exact mem_step_data s op
  | file s => simp only [Rd.step, Rd.content]; exact rspec_step_data s op
  | fsl s =>
    have h := slice_step_keeps keeps_file s op
    simp only [sliceKey, Prod.mk.injEq] at h
    obtain ⟨h1, h2, h3⟩ := h
    simp only [Rd.step, Rd.content, h1, h2, h3]
  | fss s =>
    have h := slice_step_keeps (keeps_slice keeps_file) s op
    simp only [sliceKey, Prod.mk.injEq] at h
    obtain ⟨⟨h1, h2, h3⟩, h4, h5⟩ := h
    simp only [Rd.step, Rd.content, fslW, h1, h2, h3, h4, h5]

/-- taking a slice or a copy of an object — also the form that advances it — leaves what it exposes unchanged -/
theorem Rd.derive_content (r : Rd) (d : DOp) (n r' : Rd) (h : r.derive d = some (.ok (n, r'))) : r'.content = r.content := by
  cases d with
  | slice a b =>
    cases r with
    | mem m =>
      simp only [Rd.derive, Option.some.injEq] at h
      cases hm : MemR.slice2 m a b with
      | error e => rw [hm] at h; cases h
      | ok x => rw [hm] at h; cases h; rfl
    | file f =>
      simp only [Rd.derive, Option.some.injEq] at h
      cases hm : Slice.create fileWrapped { f with pos := 0 } a b with
      | error e => rw [hm] at h; cases h
      | ok x => rw [hm] at h; cases h; rfl
    | fsl s =>
      simp only [Rd.derive, Option.some.injEq] at h
      cases hm : Slice.slice2 fileWrapped s a b with
      | error e => rw [hm] at h; cases h
      | ok x => rw [hm] at h; cases h; rfl
    | fss s => simp [Rd.derive] at h
  | here a =>
    cases r with
    | mem m =>
      simp only [Rd.derive, Option.some.injEq] at h
      cases hm : MemR.slice1 m a with
      | error e => rw [hm] at h; cases h
      | ok x =>
        rw [hm] at h; cases h
        unfold MemR.slice1 at hm
        split at hm
        · cases hm
        · split at hm
          · cases hm
          · rename_i s' hf
            cases hm
            exact mem_fwd_data m a s' hf
    | file f =>
      simp only [Rd.derive, Option.some.injEq] at h
      split at h
      · cases h
      · split at h
        · cases h
        · rename_i f' hf
          cases h
          exact keeps_file.fwd f a f' hf
    | fsl s =>
      simp only [Rd.derive, Option.some.injEq] at h
      cases hm : Slice.slice1 fileWrapped s a with
      | error e => rw [hm] at h; cases h
      | ok x =>
        rw [hm] at h; cases h
        unfold Slice.slice1 at hm
        split at hm
        · cases hm
        · split at hm
          · cases hm
          · rename_i s' hf
            cases hm
            have hk := slice_fwd_keeps keeps_file s a s' hf
            simp only [sliceKey, Prod.mk.injEq] at hk
            obtain ⟨h1, h2, h3⟩ := hk
            simp only [Rd.content, h1, h2, h3]
    | fss s => simp [Rd.derive] at h
  | copy =>
    cases r with
    | mem m => simp only [Rd.derive, Option.some.injEq] at h; cases h; rfl
    | file f => simp only [Rd.derive, Option.some.injEq] at h; cases h; rfl
    | fsl s =>
      simp only [Rd.derive, Option.some.injEq] at h
      cases hm : Slice.create fileWrapped s.w s.start s.len with
      | error e => rw [hm] at h; cases h
      | ok x => rw [hm] at h; cases h; rfl
    | fss s => simp [Rd.derive] at h

theorem Rd.ostep_content (r : Rd) (o : OOp) : (r.ostep o).2.content = r.content := by
  cases o with
  | op x => exact Rd.step_content r x
  | derive d =>
    simp only [Rd.ostep]
    cases hd : r.derive d with
    | none => rfl
    | some e =>
      cases e with
      | error e => rfl
      | ok p => obtain ⟨n, r'⟩ := p; exact Rd.derive_content r d n r' hd

theorem runObj_content (ops : List OOp) : ∀ r : Rd, (runObj r ops).2.content = r.content := by
  induction ops with
  | nil => intro r; rfl
  | cons o os ih => intro r; simp only [runObj]; rw [ih, Rd.ostep_content]

/-- **confinement over histories**: whatever interleaved history runs, every object that existed at its start still
    exposes exactly the bytes it exposed then -/
theorem Sys.run_content (h : List (Nat × OOp)) (objs : Sys) (j : Nat) (r : Rd) (hr : objs[j]? = some r) :
    ∃ r', (Sys.run objs h).2[j]? = some r' ∧ r'.content = r.content := by
  obtain ⟨_, h2⟩ := Sys.run_projection h objs j r hr
  exact ⟨_, h2, runObj_content _ r⟩

end Op2.Stream
