import Op2Proofs.SliceLemmas
namespace Op2.Stream
open Op2

theorem memWrappedOK : WrappedOK memWrapped id RSpec.Inv where
  inv s h := h
  len _ _ := rfl
  pos _ _ := rfl
  read s k h hin := by
    obtain ⟨h1, h2⟩ := h
    refine ⟨{ s with pos := s.pos + k }, ?_, ⟨by simpa using hin, h2⟩, rfl⟩
    have e0 : u64 (W64 + s.data.length - s.pos) = s.data.length - s.pos := by unfold u64 W64 at *; omega
    have e : u64 (s.pos + k) = s.pos + k := by simp only [id] at hin; unfold u64 W64 at *; omega
    have c : ¬ k > s.data.length - s.pos := by simp only [id] at hin; omega
    simp [memWrapped, MemR.read, e0, e, c]
  readPartial s k h hin := by
    obtain ⟨h1, h2⟩ := h
    simp only [id] at hin
    refine ⟨{ s with pos := s.pos + k }, ?_, ⟨by simpa using hin, h2⟩, rfl⟩
    have e0 : u64 (W64 + s.data.length - s.pos) = s.data.length - s.pos := by unfold u64 W64 at *; omega
    have e : u64 (s.pos + k) = s.pos + k := by unfold u64 W64 at *; omega
    have e2 : (if k < s.data.length - s.pos then k else s.data.length - s.pos) = k := by split <;> omega
    simp [memWrapped, MemR.readPartial, e0, e2, e]
  seek s p h hp := by
    obtain ⟨h1, h2⟩ := h
    simp only [id] at hp
    refine ⟨{ s with pos := p }, ?_, ⟨by simpa using hp, h2⟩, rfl⟩
    have c : ¬ p > s.data.length := by omega
    simp [memWrapped, MemR.seek, c]
  fwd s d h hin := by
    obtain ⟨h1, h2⟩ := h
    simp only [id] at hin
    refine ⟨{ s with pos := s.pos + d }, ?_, ⟨by simpa using hin, h2⟩, rfl⟩
    have e : u64 (s.pos + d) = s.pos + d := by unfold u64 W64 at *; omega
    have c : ¬ (s.pos + d > s.data.length ∨ s.pos + d < s.pos) := by omega
    simp [memWrapped, MemR.fwd, e, c]
  back s d h hin := by
    obtain ⟨h1, h2⟩ := h
    simp only [id] at hin
    refine ⟨{ s with pos := s.pos - d }, ?_, ⟨by simp; omega, h2⟩, rfl⟩
    have e : u64 (W64 + s.pos - d) = s.pos - d := by unfold u64 W64 at *; omega
    have c : ¬ d > s.pos := by omega
    simp [memWrapped, MemR.back, e, c]

theorem fileWrappedOK : WrappedOK fileWrapped id RSpec.Inv where
  inv s h := h
  len _ _ := rfl
  pos _ _ := rfl
  read s k h hin := by
    obtain ⟨h1, h2⟩ := h
    simp only [id] at hin
    exact ⟨{ s with pos := s.pos + k }, by simp [fileWrapped, FileR.read, hin], ⟨by simpa using hin, h2⟩, rfl⟩
  readPartial s k h hin := by
    obtain ⟨h1, h2⟩ := h
    simp only [id] at hin
    have e : min k (s.data.length - s.pos) = k := by omega
    exact ⟨{ s with pos := s.pos + k }, by simp [fileWrapped, FileR.readPartial, e], ⟨by simpa using hin, h2⟩, rfl⟩
  seek s p h hp := by
    obtain ⟨h1, h2⟩ := h
    simp only [id] at hp
    exact ⟨{ s with pos := p }, by simp [fileWrapped, FileR.seek], ⟨by simpa using hp, h2⟩, rfl⟩
  fwd s d h hin := by
    obtain ⟨h1, h2⟩ := h
    simp only [id] at hin
    have e : u64 (s.pos + d) = s.pos + d := by unfold u64 W64 at *; omega
    have c : ¬ (s.pos + d < s.pos) := by omega
    exact ⟨{ s with pos := s.pos + d }, by simp [fileWrapped, FileR.fwd, e, c], ⟨by simpa using hin, h2⟩, rfl⟩
  back s d h hin := by
    obtain ⟨h1, h2⟩ := h
    simp only [id] at hin
    have c : ¬ d > s.pos := by omega
    exact ⟨{ s with pos := s.pos - d }, by simp [fileWrapped, FileR.back, c], ⟨by simp; omega, h2⟩, rfl⟩

variable {σ : Type} {W : Wrapped σ} {ab : σ → RSpec} {G : σ → Prop}

/-- a slice is again a well-behaved wrapped stream: the induction step for any nesting depth -/
theorem sliceWrappedOK (ok : WrappedOK W ab G) : WrappedOK (Slice.asWrapped W) (sliceAbs ab) (sliceGood G ab) where
  inv s hs := by
    have hl := sliceAbs_len (ab := ab) s hs.2.1
    obtain ⟨hg, h1, h2, h3⟩ := hs
    obtain ⟨_, hi2⟩ := ok.inv s.w hg
    refine ⟨?_, ?_⟩
    · rw [hl]; show (ab s.w).pos - s.start ≤ s.len; omega
    · rw [hl]; omega
  len s hs := by simp [Slice.asWrapped, sliceAbs_len (ab := ab) s hs.2.1]
  pos s hs := slice_position_eq ok s hs
  read s k hs hin := by
    rw [sliceAbs_len (ab := ab) s hs.2.1] at hin
    exact slice_read_ok ok s hs k hin
  readPartial s k hs hin := by
    rw [sliceAbs_len (ab := ab) s hs.2.1] at hin
    have hin' : relPos ab s + k ≤ s.len := hin
    obtain ⟨s', e, g, a⟩ := slice_readPartial_ok ok s hs k
    have em : min k (s.len - relPos ab s) = k := by omega
    rw [em] at e a
    exact ⟨s', e, g, a⟩
  seek s p hs hp := by
    rw [sliceAbs_len (ab := ab) s hs.2.1] at hp
    exact slice_seek_ok ok s hs p hp
  fwd s d hs hin := by
    rw [sliceAbs_len (ab := ab) s hs.2.1] at hin
    exact slice_fwd_ok ok s hs d hin
  back s d hs hin := slice_back_ok ok s hs d hin

/-! ### creating a slice: the guard is exact, the window is the one asked for -/

theorem slice_create_ok (ok : WrappedOK W ab G) (w : σ) (hw : G w) (start len : Nat)
    (hfit : start + len ≤ (ab w).data.length) :
    ∃ s, Slice.create W w start len = .ok s ∧ sliceGood G ab s ∧
      sliceAbs ab s = { data := ((ab w).data.drop start).take len, pos := 0 } := by
  obtain ⟨_, hi2⟩ := ok.inv w hw
  obtain ⟨w', e1, g', a'⟩ := ok.seek w start hw (by omega)
  have c1 : ¬ len > W64 - 1 - start := by unfold W64 at *; omega
  have e : u64 (start + len) = start + len := by unfold u64 W64 at *; omega
  have c2 : ¬ start + len > W.length w := by rw [ok.len w hw]; omega
  refine ⟨{ w := w', start := start, len := len }, ?_, ⟨g', ?_, ?_, ?_⟩, ?_⟩
  · simp only [Slice.create, c1, if_false, e, c2, e1]
  · simp [a']; exact hfit
  · simp [a']
  · simp [a']
  · simp [sliceAbs, a']

theorem slice_create_err (ok : WrappedOK W ab G) (w : σ) (hw : G w) (start len : Nat)
    (hs : start < W64) (hl : len < W64) (hout : ¬ start + len ≤ (ab w).data.length) :
    Slice.create W w start len = .error .bounds := by
  obtain ⟨_, hi2⟩ := ok.inv w hw
  simp only [Slice.create]
  by_cases c1 : len > W64 - 1 - start
  · simp [c1]
  · have e : u64 (start + len) = start + len := by unfold u64 W64 at *; omega
    have c2 : start + len > W.length w := by rw [ok.len w hw]; omega
    simp [c1, e, c2]

/-! ### every finite history -/

def runSlice (W : Wrapped σ) : Slice σ → List ROp → List Out := runWith (Slice.step W)
def runSpec : RSpec → List ROp → List Out := runWith RSpec.step

theorem slice_refines_hist (ok : WrappedOK W ab G) (ops : List ROp) :
    ∀ (s : Slice σ), sliceGood G ab s → (∀ op ∈ ops, op.argOk) →
      runWith (Slice.step W) s ops = runWith RSpec.step (sliceAbs ab s) ops := by
  induction ops with
  | nil => intros; rfl
  | cons op ops ih =>
    intro s hs ha
    obtain ⟨e1, g, a⟩ := slice_refines ok s hs op (ha op (by simp))
    simp only [runWith]
    rw [e1, ih _ g (fun o ho => ha o (by simp [ho])), a]

theorem mem_refines_hist (ops : List ROp) : ∀ (s : MemR), s.Inv → (∀ op ∈ ops, op.argOk) →
    runWith MemR.step s ops = runWith RSpec.step s ops := by
  induction ops with
  | nil => intros; rfl
  | cons op ops ih =>
    intro s h ha
    have e := mem_refines s h op (ha op (by simp))
    simp only [runWith, e]
    congr 1
    exact ih _ (spec_inv s h op) (fun o ho => ha o (by simp [ho]))

/-! ### nesting to any depth over a file -/

/-- `SliceN n` = a slice of a slice of … (n times) of a `FileReader` -/
def SliceN : Nat → Type
  | 0 => FileR
  | n + 1 => Slice (SliceN n)

def wrappedN : (n : Nat) → Wrapped (SliceN n)
  | 0 => fileWrapped
  | n + 1 => Slice.asWrapped (wrappedN n)

def absN : (n : Nat) → SliceN n → RSpec
  | 0 => id
  | n + 1 => sliceAbs (absN n)

def goodN : (n : Nat) → SliceN n → Prop
  | 0 => RSpec.Inv
  | n + 1 => sliceGood (goodN n) (absN n)

theorem wrappedN_ok : ∀ n, WrappedOK (wrappedN n) (absN n) (goodN n)
  | 0 => fileWrappedOK
  | n + 1 => sliceWrappedOK (wrappedN_ok n)

end Op2.Stream
