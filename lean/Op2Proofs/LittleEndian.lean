import Op2Proofs.TypedReads
namespace Op2.Stream
open Op2

/-- little-endian bytes of `v` at `w` bytes, by recursion (the form `writePrefixed` spells with `List.range`) -/
def encLE : Nat → Nat → Bytes
  | 0, _ => []
  | w + 1, v => UInt8.ofNat v :: encLE w (v / 256)

theorem range_map_eq_encLE (w v : Nat) : (List.range w).map (fun i => UInt8.ofNat (v / 2 ^ (8 * i))) = encLE w v := by
  induction w generalizing v with
  | zero => rfl
  | succ w ih =>
    rw [List.range_succ_eq_map, List.map_cons, List.map_map, encLE, ← ih (v / 256)]
    simp only [Nat.mul_zero, Nat.pow_zero, Nat.div_one]
    congr 1
    apply List.map_congr_left
    intro i _
    simp only [Function.comp, Nat.div_div_eq_div_mul]
    congr 2
    rw [show 8 * (i + 1) = 8 + 8 * i by omega, Nat.pow_add]

theorem encLE_length (w v : Nat) : (encLE w v).length = w := by
  induction w generalizing v with
  | zero => rfl
  | succ w ih => simp [encLE, ih]

theorem leVal_encLE (w v : Nat) : leVal (encLE w v) = v % 2 ^ (8 * w) := by
  induction w generalizing v with
  | zero => simp [encLE, leVal, Nat.mod_one]
  | succ w ih =>
    rw [encLE, leVal, ih, UInt8.toNat_ofNat', show 8 * (w + 1) = 8 + 8 * w by omega, Nat.pow_add, Nat.mod_mul]

theorem leVal_lt (b : Bytes) : leVal b < 2 ^ (8 * b.length) := by
  induction b with
  | nil => simp [leVal]
  | cons c t ih =>
    have hc := c.toNat_lt
    rw [leVal, List.length_cons, show 8 * (t.length + 1) = 8 + 8 * t.length by omega, Nat.pow_add]
    have : (2:Nat) ^ 8 = 256 := by decide
    rw [this]; omega

theorem encLE_leVal (b : Bytes) : encLE b.length (leVal b) = b := by
  induction b with
  | nil => rfl
  | cons c t ih =>
    have hc := c.toNat_lt
    rw [List.length_cons, encLE, leVal]
    have h1 : (c.toNat + 256 * leVal t) / 256 = leVal t := by omega
    have h2 : UInt8.ofNat (c.toNat + 256 * leVal t) = c := by
      apply UInt8.toNat_inj.mp
      rw [UInt8.toNat_ofNat']; omega
    rw [h1, h2, ih]
end Op2.Stream

namespace Op2.Stream
open Op2

theorem take_append_len {α} (a b : List α) (n : Nat) (h : a.length = n) : (a ++ b).take n = a := by
  subst h; exact List.take_left
theorem drop_append_len {α} (a b : List α) (n : Nat) (h : a.length = n) : (a ++ b).drop n = b := by
  subst h; exact List.drop_left

/-- an in-bounds checked read of the abstract reader -/
theorem rd_window (d : Bytes) (p k : Nat) (h : p + k ≤ d.length) :
    RSpec.rd { data := d, pos := p } k = .ok ((d.drop p).take k, { data := d, pos := p + k }) := by
  simp [RSpec.rd, RSpec.step, RSpec.window, h]

/-- **size-prefixed write, then size-prefixed read**: whatever `Write<SizeType>(container)` accepted,
    `Read<SizeType>(container)` gives back — for every prefix width, signed or unsigned, every element size, at any
    position of any stream, whatever follows -/
theorem prefixed_roundtrip (width : Nat) (signed : Bool) (esz maxSize allocCap count : Nat) (payload out pre rest : Bytes)
    (hw : writePrefixed width signed payload count = .ok out) (hlen : payload.length = count * esz)
    (hmax : count ≤ maxSize) (hcap : count * esz < allocCap) (hwd : 0 < width) :
    readPrefixed RSpec.rd width signed esz maxSize allocCap { data := pre ++ out ++ rest, pos := pre.length } =
      .ok (payload, { data := pre ++ out ++ rest, pos := pre.length + out.length }) := by
  unfold writePrefixed at hw
  split at hw
  · cases hw
  · rename_i hfit
    have hout : out = encLE width count ++ payload := by
      rw [range_map_eq_encLE] at hw; exact (Except.ok.inj hw).symm
    have hpow : (2:Nat) ^ (8 * width - 1) * 2 = 2 ^ (8 * width) := by
      rw [← Nat.pow_succ]; congr 1; omega
    have hpos : 0 < (2:Nat) ^ (8 * width - 1) := Nat.two_pow_pos _
    have hlt : count < 2 ^ (8 * width) := by
      unfold prefixMax at hfit; split at hfit <;> omega
    have hval : leVal (encLE width count) = count := by rw [leVal_encLE, Nat.mod_eq_of_lt hlt]
    have hL := encLE_length width count
    unfold readPrefixed
    rw [rd_window _ _ _ (by simp [hout, hL] <;> omega)]
    have e1 : ((pre ++ out ++ rest).drop pre.length).take width = encLE width count := by
      rw [hout, List.append_assoc, List.drop_left, List.append_assoc, take_append_len _ _ _ hL]
    simp only [e1, hval]
    have c1 : ¬ (signed = true ∧ count ≥ 2 ^ (8 * width - 1)) := by
      intro ⟨hs, hge⟩
      unfold prefixMax at hfit; rw [if_pos hs] at hfit; omega
    rw [if_neg c1, if_neg (by omega), if_neg (by omega)]
    rw [rd_window _ _ _ (by simp [hout, hL, hlen] <;> omega)]
    have e2 : ((pre ++ out ++ rest).drop (pre.length + width)).take (count * esz) = payload := by
      rw [hout, List.append_assoc, ← List.drop_drop, List.drop_left, List.append_assoc, drop_append_len _ _ _ hL,
        take_append_len _ _ _ hlen]
    rw [e2]
    have e3 : pre.length + width + count * esz = pre.length + out.length := by simp [hout, hL, hlen] <;> omega
    rw [e3]

end Op2.Stream

namespace Op2.Stream
open Op2

/-- **simulation for size-prefixed reads**: a reader whose checked `Read(k)` agrees with the abstract reader's for every
    64-bit `k` on every state satisfying `G` runs `Read<SizeType>(container)` in agreement with the abstract reader:
    same decision (negative size, larger than `max_size()`, too large to allocate, out of data), same bytes, and the
    final state abstracts to the abstract final state -/
theorem readPrefixed_sim {σ : Type} (E : Err → Err → Prop) (hE : ∀ e, E e e) (rd : σ → Nat → Except Err (Bytes × σ))
    (ab : σ → RSpec) (G : σ → Prop)
    (hstep : ∀ s k, G s → k < W64 → SimRes E ab G (rd s k) (RSpec.rd (ab s) k))
    (width : Nat) (signed : Bool) (esz maxSize allocCap : Nat) (hw : width < W64) (hcap : allocCap ≤ W64)
    (s : σ) (hs : G s) :
    SimRes E ab G (readPrefixed rd width signed esz maxSize allocCap s)
      (readPrefixed RSpec.rd width signed esz maxSize allocCap (ab s)) := by
  have h := hstep s width hs hw
  unfold readPrefixed
  cases h1 : rd s width with
  | error e =>
    cases h2 : RSpec.rd (ab s) width with
    | error e' => rw [h1, h2] at h; exact h
    | ok p' => rw [h1, h2] at h; exact h.elim
  | ok p =>
    cases h2 : RSpec.rd (ab s) width with
    | error e' => rw [h1, h2] at h; exact h.elim
    | ok p' =>
      obtain ⟨b, s'⟩ := p
      obtain ⟨b', a'⟩ := p'
      rw [h1, h2] at h
      obtain ⟨hb, ha, hg⟩ := h
      subst hb; subst ha
      simp only
      split
      · exact hE _
      · split
        · exact hE _
        · split
          · exact hE _
          · rename_i hlt
            exact hstep s' _ hg (by omega)

end Op2.Stream
