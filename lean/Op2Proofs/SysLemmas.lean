import Op2Model.StreamSys
/-!
# Lemmas about `Sys` (several live reader objects): frame and projection
-/
namespace Op2.Stream

theorem Sys.step_none (objs : Sys) (i : Nat) (o : OOp) (h : objs[i]? = none) : Sys.step objs i o = (none, objs) := by
  simp [Sys.step, h]

/-- a step never removes an object -/
theorem Sys.step_length_le (objs : Sys) (i : Nat) (o : OOp) : objs.length ≤ (Sys.step objs i o).2.length := by
  unfold Sys.step
  split
  · simp
  · split; split <;> simp

/-- **frame**: a request to object `i` leaves every other existing object exactly as it was -/
theorem Sys.step_frame (objs : Sys) (i j : Nat) (o : OOp) (hij : j ≠ i) (hj : j < objs.length) :
    (Sys.step objs i o).2[j]? = objs[j]? := by
  unfold Sys.step
  split
  · rfl
  · split; split
    · rw [List.getElem?_append_left (by simpa using hj), List.getElem?_set_ne (Ne.symm hij)]
    all_goals exact List.getElem?_set_ne (Ne.symm hij)

/-- the addressed object answers, and becomes, what it would alone -/
theorem Sys.step_self (objs : Sys) (i : Nat) (o : OOp) (r : Rd) (h : objs[i]? = some r) :
    (Sys.step objs i o).1 = some (r.ostep o).1 ∧ (Sys.step objs i o).2[i]? = some (r.ostep o).2 := by
  have hi : i < objs.length := by
    rcases Nat.lt_or_ge i objs.length with h' | h'
    · exact h'
    · rw [List.getElem?_eq_none h'] at h; cases h
  unfold Sys.step
  rw [h]
  simp only
  split
  · rename_i n hx
    refine ⟨by rw [hx], ?_⟩
    have : i < (objs.set i (r.ostep o).2).length := by simpa using hi
    rw [List.getElem?_append_left this, List.getElem?_set_self hi]
  · exact ⟨rfl, List.getElem?_set_self hi⟩

/-- a refused derivation changes nothing at all (not even the addressed object) -/
theorem Sys.step_failed (objs : Sys) (i : Nat) (d : DOp) (h : (Sys.step objs i (.derive d)).1 = some .failed) :
    (Sys.step objs i (.derive d)).2 = objs := by
  unfold Sys.step at h ⊢
  cases hr : objs[i]? with
  | none => simp
  | some r =>
    rw [hr] at h
    simp only [Rd.ostep] at h ⊢
    cases hd : r.derive d with
    | none => rw [hd] at h; simp at h
    | some e =>
      cases e with
      | error e =>
        simp only
        have hi : i < objs.length := by
          rcases Nat.lt_or_ge i objs.length with h' | h'
          · exact h'
          · rw [List.getElem?_eq_none h'] at hr; cases hr
        have : objs[i] = r := by rw [List.getElem?_eq_getElem hi] at hr; exact Option.some.inj hr
        rw [← this]; exact List.set_getElem_self hi
      | ok p => rw [hd] at h; simp at h

end Op2.Stream

namespace Op2.Stream

/-- the requests of an interleaved history that address object `j` -/
def projOps (j : Nat) (h : List (Nat × OOp)) : List OOp := (h.filter (fun p => p.1 == j)).map (·.2)
/-- the answers that object `j` gave -/
def projOuts (j : Nat) (xs : List (Nat × Option OOut)) : List (Option OOut) := (xs.filter (fun p => p.1 == j)).map (·.2)

theorem lt_of_getElem?_some {α} {l : List α} {i : Nat} {a : α} (h : l[i]? = some a) : i < l.length := by
  rcases Nat.lt_or_ge i l.length with h' | h'
  · exact h'
  · rw [List.getElem?_eq_none h'] at h; cases h

/-- **projection**: under any interleaved history, an object answers and ends exactly as it would have if the requests
    addressed to it had been applied to it alone — whatever was done to the others in between, including creating
    slices of it, copies of it, and slices of those -/
theorem Sys.run_projection (h : List (Nat × OOp)) : ∀ (objs : Sys) (j : Nat) (r : Rd), objs[j]? = some r →
    projOuts j (Sys.run objs h).1 = (runObj r (projOps j h)).1.map some ∧
    (Sys.run objs h).2[j]? = some (runObj r (projOps j h)).2 := by
  induction h with
  | nil => intro objs j r hr; simp [Sys.run, projOuts, projOps, runObj, hr]
  | cons p h ih =>
    obtain ⟨i, o⟩ := p
    intro objs j r hr
    by_cases hij : i = j
    · subst hij
      obtain ⟨h1, h2⟩ := Sys.step_self objs i o r hr
      obtain ⟨ih1, ih2⟩ := ih (Sys.step objs i o).2 i (r.ostep o).2 h2
      have e1 : projOps i ((i, o) :: h) = o :: projOps i h := by simp [projOps]
      have e2 : ∀ x xs, projOuts i ((i, x) :: xs) = x :: projOuts i xs := by intro x xs; simp [projOuts]
      simp only [Sys.run, e1, runObj, e2, List.map_cons]
      exact ⟨by rw [ih1, h1], ih2⟩
    · have hj := lt_of_getElem?_some hr
      have hf := Sys.step_frame objs i j o (Ne.symm hij) hj
      rw [hr] at hf
      obtain ⟨ih1, ih2⟩ := ih (Sys.step objs i o).2 j r hf
      have hb : (i == j) = false := by simpa using hij
      have e1 : projOps j ((i, o) :: h) = projOps j h := by simp [projOps, hb]
      have e2 : ∀ x xs, projOuts j ((i, x) :: xs) = projOuts j xs := by intro x xs; simp [projOuts, hb]
      simp only [Sys.run, e1, e2]
      exact ⟨ih1, ih2⟩

/-- objects are never removed or renumbered by a history -/
theorem Sys.run_length_le (h : List (Nat × OOp)) : ∀ objs : Sys, objs.length ≤ (Sys.run objs h).2.length := by
  induction h with
  | nil => intro objs; simp [Sys.run]
  | cons p h ih =>
    intro objs
    simp only [Sys.run]
    exact Nat.le_trans (Sys.step_length_le objs p.1 p.2) (ih _)

theorem Sys.run_append (h1 h2 : List (Nat × OOp)) : ∀ objs : Sys,
    Sys.run objs (h1 ++ h2) = ((Sys.run objs h1).1 ++ (Sys.run (Sys.run objs h1).2 h2).1, (Sys.run (Sys.run objs h1).2 h2).2) := by
  induction h1 with
  | nil => intro objs; simp [Sys.run]
  | cons p h ih => intro objs; simp only [List.cons_append, Sys.run, ih]

end Op2.Stream
