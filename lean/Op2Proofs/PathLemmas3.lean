import Op2Proofs.PathLemmas2
/-!
# Op2Proofs.PathLemmas3 — the path laws of C19 on the model

* a leading `./` is ignored by `pathsAreEqual` exactly on relative paths;
* `xAppend d n` for relative `d`, plain `n`: result, its elements, its file name;
* `getDirectory` / `getFilename` / `xAppend` re-join to a path with the same elements.
-/
namespace Op2.Path
open Op2

/-! ## (a) leading `./` -/

theorem getLast_cons_cons_ne_nil (a b : UInt8) (q : Bytes) (h : q ≠ []) :
    (a :: b :: q).getLast? = q.getLast? := by
  rw [List.getLast?_cons_cons, List.getLast?_cons_of_ne_nil h]

theorem elems_dotslash (q : Bytes) (h : Rel q) (hq : q ≠ []) :
    elems ([dot, sep] ++ q) = [dot] :: elems q := by
  have hr : Rel ([dot, sep] ++ q) := by
    show (some dot : Option UInt8) ≠ some sep
    decide
  rw [elems_rel _ hr, elems_rel q h]
  have e : [dot, sep] ++ q = [dot] ++ sep :: q := rfl
  rw [e, toks_append_sep]
  have e2 : ([dot] ++ sep :: q).getLast? = q.getLast? := getLast_cons_cons_ne_nil dot sep q hq
  rw [e2]
  rfl

theorem stripDots_dot_cons (l : List Bytes) : stripDots ([dot] :: l) = stripDots l := by
  simp [stripDots]

theorem toUpper_dotslash (p : Bytes) : Str.toUpper ([dot, sep] ++ p) = [dot, sep] ++ Str.toUpper p := by
  rw [toUpper_append]; rfl

theorem pathsAreEqual_dotslash (p : Bytes) (h : Rel p) : pathsAreEqual ([dot, sep] ++ p) p = true := by
  simp only [pathsAreEqual, beq_iff_eq]
  rw [toUpper_dotslash]
  by_cases hp : p = []
  · subst hp; decide
  · have hq : Str.toUpper p ≠ [] := by
      intro e; apply hp
      cases p with
      | nil => rfl
      | cons c r => simp [Str.toUpper] at e
    rw [elems_dotslash _ ((rel_toUpper p).mpr h) hq, stripDots_dot_cons]

/-! ## (b) joining a relative directory and a plain name -/

theorem getLast_append_plain (a n : Bytes) (hn : Plain n) : (a ++ n).getLast? ≠ some sep := by
  rw [List.getLast?_append]
  cases h : n.getLast? with
  | none => simp at h; exact absurd h hn.1
  | some l =>
    intro e
    simp only [Option.some_or, Option.some.injEq] at e
    rw [e] at h; exact plain_getLast hn h

theorem toks_nosep_plain (n : Bytes) (hn : Plain n) : toks n [] = [n] := by
  rw [toks_nosep n [] hn.2]; simp [hn.1]

/-- the raw join of a relative directory and a plain name is relative and its elements are the
    directory's tokens followed by the name -/
theorem appendRaw_rel_plain (d n : Bytes) (hd : Rel d) (hn : Plain n) :
    Rel (appendRaw d n) ∧ elems (appendRaw d n) = toks d [] ++ [n] := by
  by_cases hd0 : d = []
  · subst hd0
    rw [appendRaw_nil_left]
    exact ⟨plain_rel hn, by rw [elems_plain n hn]; rfl⟩
  · have hrel : ∀ x : Bytes, Rel (d ++ x) := by
      intro x
      cases d with
      | nil => exact absurd rfl hd0
      | cons c r => exact hd
    by_cases hl : d.getLast? = some sep
    · rw [appendRaw_endsSep d n hl]
      refine ⟨hrel _, ?_⟩
      obtain ⟨d', rfl⟩ := List.getLast?_eq_some_iff.mp hl
      rw [elems_rel _ (hrel _), if_neg (getLast_append_plain _ n hn)]
      have e : d' ++ [sep] ++ n = d' ++ sep :: n := by simp
      have e2 : d' ++ [sep] = d' ++ sep :: [] := rfl
      rw [e, toks_append_sep, e2, toks_append_sep, toks_nosep_plain n hn]
      simp [toks]
    · rw [appendRaw_plain d n hd0 hl hn]
      refine ⟨hrel _, ?_⟩
      rw [elems_rel _ (hrel _)]
      have e : d ++ sep :: n = d ++ [sep] ++ n := by simp
      rw [e, if_neg (getLast_append_plain _ n hn), ← e, toks_append_sep, toks_nosep_plain n hn]
      simp

theorem xAppend_rel_plain (d n : Bytes) (hd : Rel d) (hn : Plain n) :
    xAppend d n = .ok (joinT (toks d [] ++ [n])) := by
  unfold xAppend
  rw [hasRootComponent_rel n (plain_rel hn)]
  have ⟨h1, h2⟩ := appendRaw_rel_plain d n hd hn
  rw [genericString_rel _ h1, h2]
  rfl

theorem toks_append_plain (d n : Bytes) (hn : Plain n) : ∀ t ∈ toks d [] ++ [n], Plain t := by
  intro t ht
  rw [List.mem_append] at ht
  rcases ht with ht | ht
  · exact toks_plain d [] (by simp) t ht
  · simp only [List.mem_singleton] at ht; rw [ht]; exact hn

theorem filename_joinT_snoc (ts : List Bytes) (n : Bytes) (h : ∀ t ∈ ts ++ [n], Plain t) :
    filename (joinT (ts ++ [n])) = n := by
  rw [filename_eq, elems_joinT _ h]
  simp

/-! ## (c) directory / file name / re-join -/

theorem elems_ne_nil_of_rel (p : Bytes) (h : Rel p) (hp : p ≠ []) : elems p ≠ [] := by
  rw [elems_rel p h]
  intro e
  exact toks_ne_nil_of_rel p h hp (List.append_eq_nil_iff.mp e).1

theorem isEmpty_eq_false {α : Type} {l : List α} (h : l ≠ []) : l.isEmpty = false := by
  cases l with
  | nil => exact absurd rfl h
  | cons a r => rfl

/-- the directory part of a relative path is relative and its tokens are all elements but the last -/
theorem getDirectory_rel (p : Bytes) (h : Rel p) (hp : p ≠ []) :
    Rel (getDirectory p) ∧ toks (getDirectory p) [] = (elems p).dropLast := by
  unfold getDirectory
  rw [isEmpty_eq_false hp]
  simp only [Bool.false_eq_true, if_false]
  by_cases hl : p.getLast? = some sep
  · rw [if_pos hl]
    refine ⟨h, ?_⟩
    rw [elems_rel p h, if_pos hl, List.dropLast_concat]
  · rw [if_neg hl]
    have hpl : ∀ t ∈ (elems p).dropLast, Plain t :=
      fun t ht => elems_rel_plain p h t (List.dropLast_subset _ ht)
    rw [parentPath_rel p h, genericString_joinT _ hpl]
    by_cases hd : (elems p).dropLast = []
    · rw [hd]
      exact ⟨by decide, by rfl⟩
    · have hne : joinT (elems p).dropLast ≠ [] := fun e => hd ((joinT_eq_nil _ hpl).mp e)
      rw [isEmpty_eq_false hne]
      simp only [Bool.false_eq_true, if_false]
      constructor
      · have := joinT_rel _ hpl
        revert this hne
        generalize joinT (elems p).dropLast = j
        intro hne hr
        cases j with
        | nil => exact absurd rfl hne
        | cons c r => exact hr
      · have e2 : joinT (elems p).dropLast ++ [sep] = joinT (elems p).dropLast ++ sep :: [] := rfl
        rw [e2, toks_append_sep, toks_joinT _ hpl]
        simp [toks]

theorem filename_rel_plain (p : Bytes) (h : Rel p) (hp : p ≠ []) :
    Plain (filename p) ∧ (elems p).dropLast ++ [filename p] = elems p := by
  have hne := elems_ne_nil_of_rel p h hp
  rw [filename_eq]
  obtain ⟨ys, a, e⟩ : ∃ ys a, elems p = ys ++ [a] := by
    have := List.dropLast_concat_getLast hne
    exact ⟨_, _, this.symm⟩
  rw [e]
  simp only [List.getLast?_append, List.getLast?_singleton, Option.some_or, Option.getD_some,
    List.dropLast_concat, and_true]
  apply elems_rel_plain p h
  rw [e]; simp

/-- re-joining directory and file name of a relative path yields the generic form of the path -/
theorem rejoin_rel (p : Bytes) (h : Rel p) :
    xAppend (getDirectory p) (getFilename p) = .ok (joinT (elems p)) := by
  by_cases hp : p = []
  · subst hp; rfl
  · have ⟨hd1, hd2⟩ := getDirectory_rel p h hp
    have ⟨hf1, hf2⟩ := filename_rel_plain p h hp
    unfold getFilename
    rw [xAppend_rel_plain _ _ hd1 hf1, hd2, hf2]

end Op2.Path
