import Op2Proofs.PathLemmas5
/-!
# Op2Proofs.PathLemmas6 — the extension law for *every* path `f`

Whatever precedes it (root name, root directory, directories, nothing), a path that ends in a plain
name `n` has a last component whose text ends in `n`, and that component is a file name unless it is
the only component.  Hence `extension (B ++ "." ++ s) = "." ++ s` for every `B`.
-/
namespace Op2.Path
open Op2

/-- the component list ends in a component whose text ends in `n`; it is a file name or the only one -/
def EndsWith (cs : List Cmpt) (n : Bytes) : Prop :=
  ∃ X c t, cs = X ++ [c] ∧ c.text = t ++ n ∧ (X = [] ∨ c.kind = Kind.file)

theorem scan_endsWith (n : Bytes) (hn : Plain n) (a : Bytes) : ∀ (off start : Nat) (cur : Bytes) (acc : List Cmpt),
    ∃ X c t, scan (a ++ n) off start cur acc = X ++ [c] ∧ c.text = t ++ n ∧ c.kind = Kind.file := by
  induction a with
  | nil =>
    intro off start cur acc
    rw [List.nil_append, scan_nosep n off start cur acc hn.2 (fun h => hn.1 h.2)]
    exact ⟨acc.reverse, { kind := Kind.file, pos := start, text := cur.reverse ++ n }, cur.reverse, by simp, rfl, rfl⟩
  | cons c r ih =>
    intro off start cur acc
    simp only [List.cons_append, scan]
    split
    · split
      · exact ih _ _ _ _
      · exact ih _ _ _ _
    · exact ih _ _ _ _

theorem withTrailingDot_noop (s : Bytes) (cs : List Cmpt) (h : s.getLast? ≠ some sep) :
    withTrailingDot s cs = cs := by
  unfold withTrailingDot
  split
  · rename_i l last hl _
    have : l ≠ sep := by intro e; apply h; rw [hl, e]
    simp [this]
  · rfl

theorem afterRootDir_endsWith (s : Bytes) (pre : List Cmpt) (a n : Bytes) (off : Nat) (hn : Plain n)
    (hs : s.getLast? ≠ some sep) : EndsWith (afterRootDir s pre (a ++ n) off) n := by
  obtain ⟨X, c, t, e, ht, hk⟩ := scan_endsWith n hn a off off [] []
  unfold afterRootDir
  simp only [e]
  have hne : (X ++ [c]).isEmpty = false := by cases X <;> rfl
  rw [hne]
  simp only [Bool.false_eq_true, false_and, if_false]
  rw [withTrailingDot_noop _ _ hs]
  exact ⟨pre ++ X, c, t, by simp, ht, Or.inr hk⟩

/-- if `x ++ n` is cut at a separator and `n` has none, the part after the cut still ends in `n` -/
theorem cut_keeps_suffix (x n u v : Bytes) (hn : sep ∉ n) (h : x ++ n = u ++ sep :: v) : ∃ a, v = a ++ n := by
  induction x generalizing u with
  | nil =>
    exfalso; apply hn
    rw [List.nil_append] at h; rw [h]; simp
  | cons c r ih =>
    cases u with
    | nil =>
      simp only [List.cons_append, List.nil_append, List.cons.injEq] at h
      exact ⟨r, h.2.symm⟩
    | cons d u' =>
      simp only [List.cons_append, List.cons.injEq] at h
      exact ih u' h.2

theorem takeWhile_eq_self_of_dropWhile_nil (p : UInt8 → Bool) (l : Bytes) (h : l.dropWhile p = []) :
    l.takeWhile p = l := by
  have := List.takeWhile_append_dropWhile (p := p) (l := l)
  rw [h, List.append_nil] at this
  exact this

theorem dropWhile_head_sep (l : Bytes) (c : UInt8) (r : Bytes) (h : l.dropWhile (· ≠ sep) = c :: r) : c = sep := by
  have := List.head?_dropWhile_not (· ≠ sep) l
  rw [h] at this
  simpa using this

/-- every path that ends in a plain name -/
theorem split_endsWith (B n : Bytes) (hn : Plain n) : EndsWith (split (B ++ n)) n := by
  have hlast : ∀ x : Bytes, (x ++ n).getLast? ≠ some sep := fun x => getLast_append_plain x n hn
  by_cases hrel : Rel B
  · -- relative
    have hr : Rel (B ++ n) := by
      cases B with
      | nil => exact plain_rel hn
      | cons c r => exact hrel
    rw [split_rel _ hr, withTrailingDot_noop _ _ (hlast B)]
    obtain ⟨X, c, t, e, ht, hk⟩ := scan_endsWith n hn B 0 0 [] []
    exact ⟨X, c, t, e, ht, Or.inr hk⟩
  · obtain ⟨r0, rfl⟩ := (not_rel_iff B).mp hrel
    have hs := hlast (sep :: r0)
    rw [List.cons_append] at hs ⊢
    unfold split
    simp only [if_true]
    -- what follows the first separator
    cases r0 with
    | nil =>
      -- "/" ++ n
      obtain ⟨c1, n', rfl⟩ : ∃ c1 n', n = c1 :: n' := by
        cases n with
        | nil => exact absurd rfl hn.1
        | cons c1 n' => exact ⟨_, _, rfl⟩
      have hc1 : c1 ≠ sep := by intro e; apply hn.2; simp [e]
      simp only [List.nil_append, if_neg hc1]
      exact afterRootDir_endsWith _ _ [] _ 1 hn hs
    | cons c1 r1 =>
      simp only [List.cons_append]
      split
      · -- "//" …
        rename_i hc1
        cases hr1 : r1 ++ n with
        | nil =>
          exfalso
          exact hn.1 (List.append_eq_nil_iff.mp hr1).2
        | cons c2 r2 =>
          simp only
          split
          · -- root name "//name…"
            rename_i hc2
            rw [← hr1]
            split
            · rename_i hafter
              have hname := takeWhile_eq_self_of_dropWhile_nil _ _ hafter
              refine ⟨[], _, sep :: sep :: r1, rfl, ?_, Or.inl rfl⟩
              simp only [hname]
              simp
            · rename_i c' after' hafter
              have hc' : c' = sep := dropWhile_head_sep _ _ _ hafter
              have hsplit := List.takeWhile_append_dropWhile (p := (· ≠ sep)) (l := r1 ++ n)
              rw [hafter, hc'] at hsplit
              obtain ⟨a, ha⟩ := cut_keeps_suffix r1 n _ _ hn.2 hsplit.symm
              rw [ha]
              exact afterRootDir_endsWith _ _ a n _ hn (hlast (sep :: c1 :: r1))
          · -- "///…"
            rw [← hr1, ← List.cons_append]
            exact afterRootDir_endsWith _ _ (c1 :: r1) n 1 hn (hlast (sep :: c1 :: r1))
      · rw [← List.cons_append]
        exact afterRootDir_endsWith _ _ (c1 :: r1) n 1 hn hs

theorem extCmpt_endsWith (x n : Bytes) (h : EndsWith (split x) n) : ∃ p t, extCmpt x = some (p, t ++ n) := by
  obtain ⟨X, c, t, e, ht, hk⟩ := h
  unfold extCmpt
  rw [e]
  cases X with
  | nil => exact ⟨c.pos, t, by simp [ht]⟩
  | cons x1 X' =>
    have hkf : c.kind = Kind.file := by
      rcases hk with hk | hk
      · exact absurd hk (by simp)
      · exact hk
    refine ⟨c.pos, t, ?_⟩
    cases X' with
    | nil => simp [hkf, ht]
    | cons y X'' =>
      have hl : (y :: (X'' ++ [c])).getLast? = some c :=
        List.getLast?_eq_some_iff.mpr ⟨y :: X'', by simp⟩
      simp [hl, hkf, ht]

/-- the extension of `anything.body` is `.body` -/
theorem extension_any_dot_body (B s : Bytes) (hs : s ≠ []) (hd : dot ∉ s) (hsep : sep ∉ s) :
    extension (B ++ dot :: s) = dot :: s := by
  have hn : Plain (dot :: s) := by
    refine ⟨by simp, ?_⟩
    simp only [List.mem_cons, not_or]
    exact ⟨by decide, hsep⟩
  obtain ⟨p, t, e⟩ := extCmpt_endsWith _ _ (split_endsWith B (dot :: s) hn)
  unfold extension
  rw [e]
  simp only [extPos_stem_dot_body t s hs hd, List.drop_left]

theorem replaceExtension_shape_any (f : Bytes) :
    ∃ base, ∀ e, replaceExtension f e =
      if !e.isEmpty ∧ e.head? ≠ some dot then base ++ [dot] ++ e else base ++ e :=
  ⟨match extCmpt f with
    | some (p, fn) => (match extPos fn with | some i => f.take (p + i) | none => f)
    | none => f, fun _ => rfl⟩

theorem extension_replaceExtension_any (f e : Bytes) (he : IsExt e) :
    extension (replaceExtension f e) = dot :: extBody e := by
  obtain ⟨base, hr⟩ := replaceExtension_shape_any f
  have : replaceExtension f e = base ++ dot :: extBody e := by
    rw [hr e]
    cases e with
    | nil => exact absurd rfl he.1
    | cons c r =>
      by_cases hc : c = dot
      · subst hc; simp [extBody]
      · simp [extBody, hc]
  rw [this]
  exact extension_any_dot_body base (extBody e) he.1 he.2.1 he.2.2

theorem chext_matches_any (f e e' : Bytes) (he : IsExt e) (hu : Str.toUpper e' = Str.toUpper e) :
    extensionMatches (changeFileExtension f e) e' = true :=
  extensionMatches_of _ e e' he (extension_replaceExtension_any f e he) hu

end Op2.Path
