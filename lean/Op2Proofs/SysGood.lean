import Op2Proofs.SysContent
import Op2Proofs.SliceNesting
/-!
# Every reachable object is well-formed and exposes a window of its parent

`Rd.Good` is the class invariant of each backend (`MemoryReader`: cursor inside the data, data shorter than 2^64;
`SliceReader<W>`: window inside the wrapped data, wrapped cursor inside the window, recursively).  It is kept by every
request with 64-bit arguments, and every object created from a good object is good and exposes a contiguous window of its
parent's bytes — so, by induction over the history, every object of every reachable system exposes a contiguous window of
some initial object's bytes.
-/
namespace Op2.Stream

def Rd.Good : Rd → Prop
  | .mem s => s.Inv
  | .file s => s.Inv
  | .fsl s => sliceGood RSpec.Inv id s
  | .fss s => sliceGood (sliceGood RSpec.Inv id) (sliceAbs id) s

def DOp.argOk : DOp → Prop
  | .slice a b => a < W64 ∧ b < W64
  | .here a => a < W64
  | .copy => True

def OOp.argOk : OOp → Prop
  | .op o => o.argOk
  | .derive d => d.argOk

/-- `l` is a contiguous window of `d` -/
def IsWindow (l d : Bytes) : Prop := ∃ a b, l = (d.drop a).take b

theorem IsWindow.refl (d : Bytes) : IsWindow d d := ⟨0, d.length, by simp⟩

theorem IsWindow.trans {l m d : Bytes} (h1 : IsWindow l m) (h2 : IsWindow m d) : IsWindow l d := by
  obtain ⟨a, b, rfl⟩ := h1
  obtain ⟨c, e, rfl⟩ := h2
  refine ⟨c + a, min b (e - a), ?_⟩
  rw [List.drop_take, List.take_take, List.drop_drop]

/-! ## requests keep the invariant -/

theorem Rd.step_good (r : Rd) (op : ROp) (hr : r.Good) (ha : op.argOk) : (r.step op).2.Good := by
  cases r with
  | mem s =>
    simp only [Rd.step, Rd.Good] at *
    rw [mem_refines s hr op ha]; exact spec_inv s hr op
  | file s => simp only [Rd.step, Rd.Good] at *; exact spec_inv s hr op
  | fsl s => simp only [Rd.step, Rd.Good] at *; exact (slice_refines fileWrappedOK s hr op ha).2.1
  | fss s =>
    simp only [Rd.step, Rd.Good, fslW] at *
    exact (slice_refines (sliceWrappedOK fileWrappedOK) s hr op ha).2.1

/-- a successful `Slice.create` was in bounds, hence well-formed over exactly the requested window -/
theorem create_ok_good {σ : Type} {W : Wrapped σ} {ab : σ → RSpec} {G : σ → Prop} (ok : WrappedOK W ab G)
    (w : σ) (hw : G w) (a b : Nat) (ha : a < W64) (hb : b < W64) (s : Slice σ) (h : Slice.create W w a b = .ok s) :
    sliceGood G ab s ∧ sliceAbs ab s = { data := ((ab w).data.drop a).take b, pos := 0 } := by
  by_cases hfit : a + b ≤ (ab w).data.length
  · obtain ⟨s', e, g, x⟩ := slice_create_ok ok w hw a b hfit
    rw [h] at e; cases e; exact ⟨g, x⟩
  · rw [slice_create_err ok w hw a b ha hb hfit] at h; cases h

theorem fsl_content_abs (s : Slice FileR) : Rd.content (.fsl s) = (sliceAbs id s).data := rfl

end Op2.Stream

namespace Op2.Stream

theorem mem_slice2_good (m : MemR) (hm : m.Inv) (a b : Nat) (n : MemR) (h : MemR.slice2 m a b = .ok n) :
    n.Inv ∧ IsWindow n.data m.data := by
  unfold MemR.slice2 at h
  split at h
  · cases h
  · cases h
    obtain ⟨_, h2⟩ := hm
    refine ⟨⟨Nat.zero_le _, ?_⟩, a, b, rfl⟩
    simp only [List.length_take, List.length_drop]; omega

theorem mem_fwd_good (m : MemR) (hm : m.Inv) (d : Nat) (hd : d < W64) (m' : MemR) (h : MemR.fwd m d = .ok m') : m'.Inv := by
  have hs := Rd.step_good (.mem m) (.fwd d) hm hd
  simp only [Rd.step, MemR.step, h, Rd.Good] at hs
  exact hs

theorem fsl_fwd_good (s : Slice FileR) (hs : sliceGood RSpec.Inv id s) (d : Nat) (hd : d < W64) (s' : Slice FileR)
    (h : Slice.fwd fileWrapped s d = .ok s') : sliceGood RSpec.Inv id s' := by
  have hg := Rd.step_good (.fsl s) (.fwd d) hs hd
  simp only [Rd.step, Slice.step, h, Rd.Good] at hg
  exact hg

/-- `Slice(start, len)` on a file slice: a success was in bounds (C13_subslice read backwards) -/
theorem fsl_slice2_good (s : Slice FileR) (hs : sliceGood RSpec.Inv id s) (a b : Nat) (ha : a < W64) (hb : b < W64)
    (t : Slice FileR) (h : Slice.slice2 fileWrapped s a b = .ok t) :
    sliceGood RSpec.Inv id t ∧ IsWindow (Rd.content (.fsl t)) (Rd.content (.fsl s)) := by
  obtain ⟨hg, g1, g2, g3⟩ := hs
  obtain ⟨_, hi2⟩ := fileWrappedOK.inv s.w hg
  simp only [id] at *
  unfold Slice.slice2 at h
  split at h
  · cases h
  · rename_i c
    have hfit : a + b ≤ s.len := by
      have : ¬ (u64 (a + b) > s.len) ∧ ¬ (b > W64 - 1 - a) := by
        constructor <;> intro x <;> exact c (by first | exact Or.inl x | exact Or.inr x)
      have e1 : u64 (a + b) = a + b := by unfold u64 W64 at *; omega
      omega
    have e2 : u64 (s.start + a) = s.start + a := by unfold u64 W64 at *; omega
    rw [e2] at h
    obtain ⟨g, x⟩ := create_ok_good fileWrappedOK s.w hg (s.start + a) b (by unfold W64 at *; omega) hb t h
    refine ⟨g, a, b, ?_⟩
    rw [fsl_content_abs, x]
    simp only [id, Rd.content]
    rw [List.drop_take, List.take_take, List.drop_drop]
    congr 1; omega

end Op2.Stream
