import Op2Proofs.SysContent
import Op2Proofs.SliceNesting
/-!
# Every reachable object is well-formed and exposes a window of its parent

`Rd.Good` is the class invariant of each backend (`MemoryReader`: cursor inside the data, data shorter than 2^64;
`SliceReader<W>`: window inside the wrapped data, wrapped cursor inside the window, recursively).  It is kept by every
request with 64-bit arguments, and every object created from a good object is good and exposes a contiguous window of its
parent's bytes — so, by induction over the history, every object of every reachable system exposes a contiguous window of
some initial object's bytes.
-/
namespace Op2.Stream

def Rd.Good : Rd → Prop
  | .mem s => s.Inv
  | .file s => s.Inv
  | .fsl s => sliceGood RSpec.Inv id s
  | .fss s => sliceGood (sliceGood RSpec.Inv id) (sliceAbs id) s

def DOp.argOk : DOp → Prop
  | .slice a b => a < W64 ∧ b < W64
  | .here a => a < W64
  | .copy => True

def OOp.argOk : OOp → Prop
  | .op o => o.argOk
  | .derive d => d.argOk

/-- `l` is a contiguous window of `d` -/
def IsWindow (l d : Bytes) : Prop := ∃ a b, l = (d.drop a).take b

theorem IsWindow.refl (d : Bytes) : IsWindow d d := ⟨0, d.length, by simp⟩

theorem IsWindow.trans {l m d : Bytes} (h1 : IsWindow l m) (h2 : IsWindow m d) : IsWindow l d := by
  obtain ⟨a, b, rfl⟩ := h1
  obtain ⟨c, e, rfl⟩ := h2
  refine ⟨c + a, min b (e - a), ?_⟩
  rw [List.drop_take, List.take_take, List.drop_drop]

/-! ## requests keep the invariant -/

theorem Rd.step_good (r : Rd) (op : ROp) (hr : r.Good) (ha : op.argOk) : (r.step op).2.Good := by
  cases r with
  | mem s =>
    simp only [Rd.step, Rd.Good] at *
    rw [mem_refines s hr op ha]; exact spec_inv s hr op
  | file s => simp only [Rd.step, Rd.Good] at *; exact spec_inv s hr op
  | fsl s => simp only [Rd.step, Rd.Good] at *; exact (slice_refines fileWrappedOK s hr op ha).2.1
  | fss s =>
    simp only [Rd.step, Rd.Good, fslW] at *
    exact (slice_refines (sliceWrappedOK fileWrappedOK) s hr op ha).2.1

/-- a successful `Slice.create` was in bounds, hence well-formed over exactly the requested window -/
theorem create_ok_good {σ : Type} {W : Wrapped σ} {ab : σ → RSpec} {G : σ → Prop} (ok : WrappedOK W ab G)
    (w : σ) (hw : G w) (a b : Nat) (ha : a < W64) (hb : b < W64) (s : Slice σ) (h : Slice.create W w a b = .ok s) :
    sliceGood G ab s ∧ sliceAbs ab s = { data := ((ab w).data.drop a).take b, pos := 0 } := by
  by_cases hfit : a + b ≤ (ab w).data.length
  · obtain ⟨s', e, g, x⟩ := slice_create_ok ok w hw a b hfit
    rw [h] at e; cases e; exact ⟨g, x⟩
  · rw [slice_create_err ok w hw a b ha hb hfit] at h; cases h

theorem fsl_content_abs (s : Slice FileR) : Rd.content (.fsl s) = (sliceAbs id s).data := rfl

end Op2.Stream

namespace Op2.Stream

theorem mem_slice2_good (m : MemR) (hm : m.Inv) (a b : Nat) (n : MemR) (h : MemR.slice2 m a b = .ok n) :
    n.Inv ∧ IsWindow n.data m.data := by
  unfold MemR.slice2 at h
  split at h
  · cases h
  · cases h
    obtain ⟨_, h2⟩ := hm
    refine ⟨⟨Nat.zero_le _, ?_⟩, a, b, rfl⟩
    simp only [List.length_take, List.length_drop]; omega

theorem mem_fwd_good (m : MemR) (hm : m.Inv) (d : Nat) (hd : d < W64) (m' : MemR) (h : MemR.fwd m d = .ok m') : m'.Inv := by
  have hs := Rd.step_good (.mem m) (.fwd d) hm hd
  simp only [Rd.step, MemR.step, h, Rd.Good] at hs
  exact hs

theorem fsl_fwd_good (s : Slice FileR) (hs : sliceGood RSpec.Inv id s) (d : Nat) (hd : d < W64) (s' : Slice FileR)
    (h : Slice.fwd fileWrapped s d = .ok s') : sliceGood RSpec.Inv id s' := by
  have hg := Rd.step_good (.fsl s) (.fwd d) hs hd
  simp only [Rd.step, Slice.step, h, Rd.Good] at hg
  exact hg

/-- `Slice(start, len)` on a file slice: a success was in bounds (C13_subslice read backwards) -/
theorem fsl_slice2_good (s : Slice FileR) (hs : sliceGood RSpec.Inv id s) (a b : Nat) (ha : a < W64) (hb : b < W64)
    (t : Slice FileR) (h : Slice.slice2 fileWrapped s a b = .ok t) :
    sliceGood RSpec.Inv id t ∧ IsWindow (Rd.content (.fsl t)) (Rd.content (.fsl s)) := by
  obtain ⟨hg, g1, g2, g3⟩ := hs
  obtain ⟨_, hi2⟩ := fileWrappedOK.inv s.w hg
  simp only [id] at *
  unfold Slice.slice2 at h
  split at h
  · cases h
  · rename_i c
    have hfit : a + b ≤ s.len := by
      have : ¬ (u64 (a + b) > s.len) ∧ ¬ (b > W64 - 1 - a) := by
        constructor <;> intro x <;> exact c (by first | exact Or.inl x | exact Or.inr x)
      have e1 : u64 (a + b) = a + b := by unfold u64 W64 at *; omega
      omega
    have e2 : u64 (s.start + a) = s.start + a := by unfold u64 W64 at *; omega
    rw [e2] at h
    obtain ⟨g, x⟩ := create_ok_good fileWrappedOK s.w hg (s.start + a) b (by unfold W64 at *; omega) hb t h
    refine ⟨g, a, b, ?_⟩
    rw [fsl_content_abs, x]
    simp only [id, Rd.content]
    rw [List.drop_take, List.take_take, List.drop_drop]
    congr 1; omega

end Op2.Stream

namespace Op2.Stream

theorem inv_rewind (f : RSpec) (h : f.Inv) : RSpec.Inv { f with pos := 0 } := ⟨Nat.zero_le _, h.2⟩

/-- **derivations**: from a well-formed object, with 64-bit arguments, a successful `Slice(start,len)`, `Slice(len)` or
    copy yields a well-formed new object exposing a contiguous window of the bytes the parent exposes, and leaves the
    parent well-formed -/
theorem Rd.derive_good (r : Rd) (d : DOp) (hr : r.Good) (hd : d.argOk) (n r' : Rd) (h : r.derive d = some (.ok (n, r'))) :
    n.Good ∧ r'.Good ∧ IsWindow n.content r.content := by
  cases d with
  | slice a b =>
    obtain ⟨ha, hb⟩ := hd
    cases r with
    | mem m =>
      simp only [Rd.derive, Option.some.injEq] at h
      cases hm : MemR.slice2 m a b with
      | error e => rw [hm] at h; cases h
      | ok x =>
        rw [hm] at h; cases h
        obtain ⟨g, w⟩ := mem_slice2_good m hr a b x hm
        exact ⟨g, hr, w⟩
    | file f =>
      simp only [Rd.derive, Option.some.injEq] at h
      cases hm : Slice.create fileWrapped { f with pos := 0 } a b with
      | error e => rw [hm] at h; cases h
      | ok x =>
        rw [hm] at h; cases h
        obtain ⟨g, w⟩ := create_ok_good fileWrappedOK _ (inv_rewind f hr) a b ha hb x hm
        refine ⟨g, hr, a, b, ?_⟩
        rw [fsl_content_abs, w]; rfl
    | fsl s =>
      simp only [Rd.derive, Option.some.injEq] at h
      cases hm : Slice.slice2 fileWrapped s a b with
      | error e => rw [hm] at h; cases h
      | ok x =>
        rw [hm] at h; cases h
        obtain ⟨g, w⟩ := fsl_slice2_good s hr a b ha hb x hm
        exact ⟨g, hr, w⟩
    | fss s => simp [Rd.derive] at h
  | here a =>
    have ha : a < W64 := hd
    cases r with
    | mem m =>
      simp only [Rd.derive, Option.some.injEq] at h
      cases hm : MemR.slice1 m a with
      | error e => rw [hm] at h; cases h
      | ok x =>
        rw [hm] at h; cases h
        unfold MemR.slice1 at hm
        split at hm
        · cases hm
        · rename_i sl hsl
          split at hm
          · cases hm
          · rename_i s' hf
            cases hm
            obtain ⟨g, w⟩ := mem_slice2_good m hr m.pos a sl hsl
            exact ⟨g, mem_fwd_good m hr a ha s' hf, w⟩
    | file f =>
      simp only [Rd.derive, Option.some.injEq] at h
      split at h
      · cases h
      · rename_i x hx
        split at h
        · cases h
        · rename_i f' hf
          cases h
          have hp : f.pos < W64 := by obtain ⟨h1, h2⟩ := hr; omega
          obtain ⟨g, w⟩ := create_ok_good fileWrappedOK _ (inv_rewind f hr) f.pos a hp ha x hx
          have hfit : f.pos + a ≤ f.data.length := by
            rcases Nat.lt_or_ge f.data.length (f.pos + a) with hlt | hle
            · rw [slice_create_err fileWrappedOK _ (inv_rewind f hr) f.pos a hp ha (by simp only [id]; omega)] at hx; cases hx
            · exact hle
          refine ⟨g, ?_, f.pos, a, ?_⟩
          · simp only [FileR.fwd] at hf
            split at hf
            · cases hf
            · cases hf
              obtain ⟨h1, h2⟩ := hr
              have : u64 (f.pos + a) = f.pos + a := by unfold u64 W64 at *; omega
              exact ⟨by simp only [this]; exact hfit, h2⟩
          · rw [fsl_content_abs, w]; rfl
    | fsl s =>
      simp only [Rd.derive, Option.some.injEq] at h
      cases hm : Slice.slice1 fileWrapped s a with
      | error e => rw [hm] at h; cases h
      | ok x =>
        rw [hm] at h; cases h
        unfold Slice.slice1 at hm
        split at hm
        · cases hm
        · rename_i sl hsl
          split at hm
          · cases hm
          · rename_i s' hf
            cases hm
            have hp : Slice.position fileWrapped s < W64 := by
              unfold Slice.position u64; exact Nat.mod_lt _ (by unfold W64; omega)
            obtain ⟨g, w⟩ := fsl_slice2_good s hr _ a hp ha sl hsl
            exact ⟨g, fsl_fwd_good s hr a ha s' hf, w⟩
    | fss s => simp [Rd.derive] at h
  | copy =>
    cases r with
    | mem m => simp only [Rd.derive, Option.some.injEq] at h; cases h; exact ⟨hr, hr, IsWindow.refl _⟩
    | file f =>
      simp only [Rd.derive, Option.some.injEq] at h; cases h
      exact ⟨inv_rewind f hr, hr, IsWindow.refl _⟩
    | fsl s =>
      simp only [Rd.derive, Option.some.injEq] at h
      cases hm : Slice.create fileWrapped s.w s.start s.len with
      | error e => rw [hm] at h; cases h
      | ok x =>
        rw [hm] at h; cases h
        obtain ⟨hg, g1, g2, g3⟩ := hr
        obtain ⟨_, hi2⟩ := fileWrappedOK.inv s.w hg
        simp only [id] at g1 hi2
        obtain ⟨g, w⟩ := create_ok_good fileWrappedOK s.w hg s.start s.len (by omega) (by omega) x hm
        refine ⟨g, ⟨hg, g1, g2, g3⟩, 0, s.len, ?_⟩
        rw [fsl_content_abs, w]
        simp only [id, Rd.content, List.drop_zero]
        rw [List.take_take, Nat.min_self]
    | fss s => simp [Rd.derive] at h

end Op2.Stream

namespace Op2.Stream

/-- every object is well-formed and exposes a contiguous window of `root` -/
def Sys.Rooted (root : Bytes) (objs : Sys) : Prop := ∀ r ∈ objs, r.Good ∧ IsWindow r.content root

theorem Rd.ostep_rooted (root : Bytes) (r : Rd) (o : OOp) (hr : r.Good ∧ IsWindow r.content root) (ho : o.argOk) :
    ((r.ostep o).2.Good ∧ IsWindow (r.ostep o).2.content root) ∧
    ∀ n, (r.ostep o).1 = .made n → n.Good ∧ IsWindow n.content root := by
  obtain ⟨hg, hw⟩ := hr
  cases o with
  | op x =>
    refine ⟨⟨Rd.step_good r x hg ho, ?_⟩, ?_⟩
    · rw [show (r.ostep (.op x)).2 = (r.step x).2 from rfl, Rd.step_content]; exact hw
    · intro n hn; simp [Rd.ostep] at hn
  | derive d =>
    simp only [Rd.ostep]
    cases hd : r.derive d with
    | none => exact ⟨⟨hg, hw⟩, by intro n hn; cases hn⟩
    | some e =>
      cases e with
      | error e => exact ⟨⟨hg, hw⟩, by intro n hn; cases hn⟩
      | ok p =>
        obtain ⟨n, r'⟩ := p
        obtain ⟨gn, gr, wn⟩ := Rd.derive_good r d hg ho n r' hd
        refine ⟨⟨gr, ?_⟩, ?_⟩
        · rw [Rd.derive_content r d n r' hd]; exact hw
        · intro m hm
          simp only [OOut.made.injEq] at hm
          subst hm
          exact ⟨gn, wn.trans hw⟩

theorem Sys.step_rooted (root : Bytes) (objs : Sys) (i : Nat) (o : OOp) (h : Sys.Rooted root objs) (ho : o.argOk) :
    Sys.Rooted root (Sys.step objs i o).2 := by
  unfold Sys.step
  cases hi : objs[i]? with
  | none => exact h
  | some r =>
    have hr : r ∈ objs := List.mem_of_getElem? hi
    obtain ⟨h1, h2⟩ := Rd.ostep_rooted root r o (h r hr) ho
    simp only
    cases hx : (r.ostep o).1 with
    | made n =>
      simp only
      intro q hq
      rcases List.mem_append.mp hq with hq | hq
      · rcases List.mem_or_eq_of_mem_set hq with hq | hq
        · exact h q hq
        · subst hq; exact h1
      · simp only [List.mem_singleton] at hq
        rw [hq]; exact h2 n hx
    | out y =>
      simp only
      intro q hq
      rcases List.mem_or_eq_of_mem_set hq with hq | hq
      · exact h q hq
      · subst hq; exact h1
    | failed =>
      simp only
      intro q hq
      rcases List.mem_or_eq_of_mem_set hq with hq | hq
      · exact h q hq
      · subst hq; exact h1
    | unsupported =>
      simp only
      intro q hq
      rcases List.mem_or_eq_of_mem_set hq with hq | hq
      · exact h q hq
      · subst hq; exact h1

/-- **every reachable system**: whatever interleaved history of requests with 64-bit arguments runs — reads and seeks in and
    out of bounds, slices of slices to any depth, copies, slices at the cursor — every object alive afterwards satisfies
    its class invariant and exposes a contiguous window of the root's bytes, nothing else -/
theorem Sys.run_rooted (root : Bytes) (h : List (Nat × OOp)) : ∀ objs : Sys, Sys.Rooted root objs → (∀ p ∈ h, p.2.argOk) →
    Sys.Rooted root (Sys.run objs h).2 := by
  induction h with
  | nil => intro objs hr _; exact hr
  | cons p h ih =>
    intro objs hr ha
    simp only [Sys.run]
    exact ih _ (Sys.step_rooted root objs p.1 p.2 hr (ha p (List.mem_cons_self ..)))
      (fun q hq => ha q (List.mem_cons_of_mem _ hq))

theorem Sys.rooted_init_mem (data : Bytes) (hd : data.length < W64) : Sys.Rooted data [Rd.mem { data := data, pos := 0 }] := by
  intro r hr
  simp only [List.mem_singleton] at hr
  subst hr
  exact ⟨⟨Nat.zero_le _, hd⟩, IsWindow.refl _⟩

theorem Sys.rooted_init_file (data : Bytes) (hd : data.length < W64) : Sys.Rooted data [Rd.file { data := data, pos := 0 }] := by
  intro r hr
  simp only [List.mem_singleton] at hr
  subst hr
  exact ⟨⟨Nat.zero_le _, hd⟩, IsWindow.refl _⟩

end Op2.Stream
