import Op2Proofs.SliceNesting
import Op2Proofs.TypedReads
import Op2Proofs.LittleEndian
import Op2Proofs.SysAtomic
import Op2Proofs.SysTyped
/-!
# C12 — readers deliver exactly the addressed bytes and fail atomically at bounds

`RSpec.step` is the property itself in executable form (ℕ arithmetic, failure = no-op).  The theorems say the
implementation models — `MemoryReader` with its u64 guards, `SliceReader<W>` over any in-bounds-correct `W`,
file slices nested to any depth — are *equal* to it on every operation with every 64-bit argument, hence on
every finite history; the clauses of the property are then read off the spec.
-/
namespace Op2.Props.C12
open Op2 Op2.Stream

/-! ## refinement, all histories -/

theorem C12_memory_reader_refines (ops : List ROp) (s : MemR) (h : s.Inv) (ha : ∀ op ∈ ops, op.argOk) :
    runWith MemR.step s ops = runWith RSpec.step s ops := mem_refines_hist ops s h ha

/-- `SliceReader<W>` for any wrapped stream that is correct on in-bounds calls -/
theorem C12_slice_reader_refines {σ : Type} {W : Wrapped σ} {ab : σ → RSpec} {G : σ → Prop}
    (ok : WrappedOK W ab G) (ops : List ROp) (s : Slice σ) (hs : sliceGood G ab s) (ha : ∀ op ∈ ops, op.argOk) :
    runWith (Slice.step W) s ops = runWith RSpec.step (sliceAbs ab s) ops := slice_refines_hist ok ops s hs ha

/-- file slices nested `n + 1` deep -/
theorem C12_nested_file_slice_refines (n : Nat) (ops : List ROp) (s : SliceN (n + 1)) (hs : goodN (n + 1) s)
    (ha : ∀ op ∈ ops, op.argOk) :
    runWith (Slice.step (wrappedN n)) s ops = runWith RSpec.step (absN (n + 1) s) ops :=
  slice_refines_hist (wrappedN_ok n) ops s hs ha

/-- slices of memory-backed streams -/
theorem C12_memory_slice_refines (ops : List ROp) (s : Slice MemR) (hs : sliceGood RSpec.Inv id s)
    (ha : ∀ op ∈ ops, op.argOk) :
    runWith (Slice.step memWrapped) s ops = runWith RSpec.step (sliceAbs id s) ops :=
  slice_refines_hist memWrappedOK ops s hs ha

/-! ## what the abstract reader guarantees (the clauses of the property) -/

theorem window_length (s : RSpec) (k : Nat) : (s.window k).length = min k (s.data.length - s.pos) := by
  simp [RSpec.window, List.length_take, List.length_drop]

/-- a successful read returns exactly the source bytes at the position and advances by the count delivered -/
theorem C12_read_exact (s : RSpec) (k : Nat) (b : Bytes) (s' : RSpec) (h : RSpec.step s (.read k) = (.bytes b, s')) :
    b = (s.data.drop s.pos).take k ∧ b.length = k ∧ s'.pos = s.pos + k ∧ s'.data = s.data := by
  simp only [RSpec.step] at h
  split at h
  · rename_i hin
    simp only [Prod.mk.injEq, Out.bytes.injEq] at h
    obtain ⟨hb, hs⟩ := h
    subst hb; subst hs
    refine ⟨rfl, ?_, rfl, rfl⟩
    rw [window_length]; omega
  · simp at h

/-- a partial read delivers `min(requested, remaining)` bytes, exactly those at the position -/
theorem C12_partial_read (s : RSpec) (h : s.Inv) (k : Nat) :
    ∃ b s', RSpec.step s (.readPartial k) = (.bytes b, s') ∧ b = (s.data.drop s.pos).take (min k (s.data.length - s.pos)) ∧
      b.length = min k (s.data.length - s.pos) ∧ s'.pos = s.pos + b.length := by
  refine ⟨_, _, rfl, rfl, ?_, ?_⟩
  · rw [window_length]; omega
  · simp only; rw [window_length]; congr 1; omega

/-- peeking never moves the position -/
theorem C12_peek_keeps_position (s : RSpec) (k : Nat) : (RSpec.step s (.peek k)).2 = s := by
  simp only [RSpec.step]; split <;> rfl

/-- any operation that would leave the bounds fails and leaves the stream exactly as it was -/
theorem C12_failure_is_noop (s : RSpec) (op : ROp) (h : (RSpec.step s op).1 = .err) : (RSpec.step s op).2 = s := by
  cases op <;> simp only [RSpec.step] at h ⊢ <;> first | (split <;> simp_all) | simp_all

/-- an operation fails exactly when its target lies outside `[0, length]` -/
theorem C12_fails_iff_out_of_bounds (s : RSpec) :
    (∀ k, (RSpec.step s (.read k)).1 = .err ↔ ¬ s.pos + k ≤ s.data.length) ∧
    (∀ p, (RSpec.step s (.seek p)).1 = .err ↔ ¬ p ≤ s.data.length) ∧
    (∀ d, (RSpec.step s (.fwd d)).1 = .err ↔ ¬ s.pos + d ≤ s.data.length) ∧
    (∀ d, (RSpec.step s (.back d)).1 = .err ↔ ¬ d ≤ s.pos) := by
  refine ⟨?_, ?_, ?_, ?_⟩ <;> intro x <;> simp only [RSpec.step] <;> split <;> simp_all

/-- the position never exceeds the length, after any history -/
theorem C12_position_bounded (ops : List ROp) : ∀ s : RSpec, s.Inv →
    (ops.foldl (fun st op => (RSpec.step st op).2) s).Inv := by
  induction ops with
  | nil => intro s h; exact h
  | cons op ops ih => intro s h; exact ih _ (spec_inv s h op)

/-- non-vacuity: a concrete file slice of a 5-byte file satisfies the hypotheses, and a read near 2^64 is refused -/
example : sliceGood RSpec.Inv id ({ w := { data := [1, 2, 3, 4, 5], pos := 1 }, start := 1, len := 3 } : Slice FileR) := by
  refine ⟨⟨by decide, by decide⟩, by decide, by decide, by decide⟩

/-! ## typed helpers -/

/-- the abstract reader's `read` as the helpers see it -/
def specRead (s : RSpec) (k : Nat) : Except Err (Bytes × RSpec) :=
  if s.pos + k ≤ s.data.length then .ok (s.window k, { s with pos := s.pos + k }) else .error .bounds

/-- a size-prefixed read consumes exactly prefix + payload, or fails -/
theorem C12_prefixed_consumes_exactly (w esz maxSize cap : Nat) (signed : Bool) (s s' : RSpec) (b : Bytes)
    (h : readPrefixed specRead w signed esz maxSize cap s = .ok (b, s')) :
    ∃ n, n = leVal (s.window w) ∧ s'.pos = s.pos + w + n * esz ∧
      b = ((s.data.drop (s.pos + w)).take (n * esz)) ∧ s.pos + w + n * esz ≤ s.data.length := by
  unfold readPrefixed specRead at h
  split at h
  · simp at h
  · rename_i pb s1 e1
    split at e1
    · rename_i hin1
      simp only [Except.ok.injEq, Prod.mk.injEq] at e1
      obtain ⟨rfl, rfl⟩ := e1
      simp only at h
      split at h
      · simp at h
      · split at h
        · simp at h
        · split at h
          · simp at h
          · split at h
            · rename_i hin2
              simp only [Except.ok.injEq, Prod.mk.injEq] at h
              obtain ⟨rfl, rfl⟩ := h
              exact ⟨_, rfl, by simp [Nat.add_assoc], rfl, by simpa [Nat.add_assoc] using hin2⟩
            · simp at h
    · simp at e1

/-- negative sizes are rejected -/
theorem C12_prefixed_rejects_negative (w esz maxSize cap : Nat) (s : RSpec)
    (hin : s.pos + w ≤ s.data.length) (hneg : leVal (s.window w) ≥ 2 ^ (8 * w - 1)) :
    readPrefixed specRead w true esz maxSize cap s = .error .refused := by
  unfold readPrefixed specRead
  simp [hin, hneg]

/-- sizes no container can hold are rejected -/
theorem C12_prefixed_rejects_unsatisfiable (w esz maxSize cap : Nat) (signed : Bool) (s : RSpec)
    (hin : s.pos + w ≤ s.data.length) (hbig : leVal (s.window w) > maxSize) :
    ∃ e, readPrefixed specRead w signed esz maxSize cap s = .error e := by
  unfold readPrefixed specRead
  simp only [hin, if_true]
  split
  · exact ⟨_, rfl⟩
  · simp [hbig]

/-! ## `ReadNullTerminatedString(maxCount)`: exactly the NUL-free prefix, terminator consumed, never more than `maxCount` -/

/-- every content, cursor and `maxCount`: the loop over the `MemoryReader` model (u64 guards) delivers what the
    description `ntSpec` says and leaves the cursor after the consumed bytes; the data ending first is an error -/
theorem C12_null_terminated (m : Nat) (s : MemR) (h : s.Inv) :
    readNT MemR.rd m s [] =
      match ntSpec (s.data.drop s.pos) m with
      | some (str, n) => .ok (str, { s with pos := s.pos + n })
      | none => .error .bounds := by
  rw [readNT_mem m s [] h, readNT_spec m s [] h.1]
  cases ntSpec (s.data.drop s.pos) m with
  | none => rfl
  | some p => obtain ⟨str, n⟩ := p; simp

/-- a terminator within reach: the string is everything before it and the cursor ends just behind it -/
theorem C12_null_terminated_found (m : Nat) (s : MemR) (h : s.Inv) (str tail : Bytes)
    (hd : s.data.drop s.pos = str ++ 0 :: tail) (hz : ∀ c ∈ str, c ≠ 0) (hm : str.length < m) :
    readNT MemR.rd m s [] = .ok (str, { s with pos := s.pos + str.length + 1 }) := by
  rw [C12_null_terminated m s h, hd]
  have htw : ((str ++ 0 :: tail).take m).takeWhile (· != 0) = str := by
    have : (str ++ 0 :: tail).take m = str ++ (0 :: tail).take (m - str.length) := by
      rw [List.take_append]; congr 1; exact List.take_of_length_le (by omega)
    rw [this]
    obtain ⟨k, hk⟩ : ∃ k, m - str.length = k + 1 := ⟨m - str.length - 1, by omega⟩
    rw [hk, List.take_succ_cons, List.takeWhile_append_of_pos (by intro c hc; simpa using hz c hc)]
    simp
  have hlen : str.length < ((str ++ 0 :: tail).take m).length := by
    simp only [List.length_take, List.length_append, List.length_cons]; omega
  unfold ntSpec
  simp only [htw, hlen, if_true, Nat.add_assoc]

theorem takeWhile_all (p : UInt8 → Bool) : ∀ l : Bytes, (∀ c ∈ l, p c = true) → l.takeWhile p = l
  | [], _ => rfl
  | c :: t, h => by
    simp only [List.takeWhile_cons, h c (by simp), if_true]
    rw [takeWhile_all p t (fun d hd => h d (by simp [hd]))]

/-- no terminator among the first `maxCount` bytes: exactly `maxCount` bytes, cursor `maxCount` further -/
theorem C12_null_terminated_maxcount (m : Nat) (s : MemR) (h : s.Inv) (hm : m ≤ s.data.length - s.pos)
    (hz : ∀ c ∈ (s.data.drop s.pos).take m, c ≠ 0) :
    readNT MemR.rd m s [] = .ok ((s.data.drop s.pos).take m, { s with pos := s.pos + m }) := by
  rw [C12_null_terminated m s h]
  have htw : ((s.data.drop s.pos).take m).takeWhile (· != 0) = (s.data.drop s.pos).take m := by
    apply takeWhile_all; intro c hc; simpa using hz c hc
  have hl : m ≤ (s.data.drop s.pos).length := by simp; omega
  unfold ntSpec
  simp only [htw, Nat.lt_irrefl, if_false, hl, if_true]

/-- the data ends before a terminator and before `maxCount` characters: an error, never a short string -/
theorem C12_null_terminated_runs_out (m : Nat) (s : MemR) (h : s.Inv) (hm : s.data.length - s.pos < m)
    (hz : ∀ c ∈ s.data.drop s.pos, c ≠ 0) :
    readNT MemR.rd m s [] = .error .bounds := by
  rw [C12_null_terminated m s h]
  have ht : (s.data.drop s.pos).take m = s.data.drop s.pos := List.take_of_length_le (by simp; omega)
  have htw : (s.data.drop s.pos).takeWhile (· != 0) = s.data.drop s.pos := by
    apply takeWhile_all; intro c hc; simpa using hz c hc
  have hl : ¬ m ≤ (s.data.drop s.pos).length := by simp; omega
  unfold ntSpec
  simp only [ht, htw, Nat.lt_irrefl, if_false, hl]

/-- the executable driver cuts `maxCount` (possibly 2^64-1) at remaining + 1: same answer -/
theorem C12_null_terminated_fuel_cut (m : Nat) (s : MemR) (h : s.Inv) :
    readNT MemR.rd m s [] = readNT MemR.rd (min m (s.data.length - s.pos + 1)) s [] := by
  rw [C12_null_terminated m s h, C12_null_terminated _ s h, ntSpec_fuel_cut]
  simp

example : readNT MemR.rd 10 { data := [1, 65, 66, 0, 67], pos := 1 } [] = .ok ([65, 66], { data := [1, 65, 66, 0, 67], pos := 4 }) := by
  rfl
example : readNT MemR.rd 1 { data := [1, 65, 66, 0, 67], pos := 1 } [] = .ok ([65], { data := [1, 65, 66, 0, 67], pos := 2 }) := by
  rfl
example : readNT MemR.rd 9 { data := [1, 65, 66], pos := 1 } [] = .error .bounds := by rfl


/-! ## `ReadNullTerminatedString` over every slice: the same theorem, by refinement (no correspondence argument) -/

/-- the bytes of a slice's window that lie ahead of its cursor -/
def sliceAhead {σ : Type} (ab : σ → RSpec) (s : Slice σ) : Bytes :=
  (sliceAbs ab s).data.drop (sliceAbs ab s).pos

/-- `SliceReader<W>` over ANY wrapped stream that is correct on in-bounds calls, every window, cursor and `maxCount`:
    the loop delivers what `ntSpec` says of the window ahead of the cursor (the NUL-free prefix of the first `maxCount`
    bytes, terminator consumed when met); the slice stays well-formed, still exposes the same window, and its own
    `Position()` has advanced by exactly the consumed count; the window ending first is `Err.bounds` -/
theorem C12_null_terminated_slice {σ : Type} {W : Wrapped σ} {ab : σ → RSpec} {G : σ → Prop}
    (ok : WrappedOK W ab G) (m : Nat) (s : Slice σ) (hs : sliceGood G ab s) :
    match ntSpec (sliceAhead ab s) m with
    | some (str, n) => ∃ s', readNT (Slice.rd W) m s [] = .ok (str, s') ∧ sliceGood G ab s' ∧
        sliceAbs ab s' = { sliceAbs ab s with pos := (sliceAbs ab s).pos + n } ∧
        Slice.position W s' = Slice.position W s + n
    | none => readNT (Slice.rd W) m s [] = .error .bounds := by
  have h := readNT_slice_spec ok m s hs
  unfold sliceAhead
  cases hn : ntSpec ((sliceAbs ab s).data.drop (sliceAbs ab s).pos) m with
  | none => rw [hn] at h; exact h
  | some q =>
    obtain ⟨str, n⟩ := q
    rw [hn] at h
    obtain ⟨s', e, g, a⟩ := h
    refine ⟨s', e, g, a, ?_⟩
    rw [slice_position_abs ok s' g, slice_position_abs ok s hs, a]

/-- file slices nested `n + 1` deep -/
theorem C12_null_terminated_nested (n m : Nat) (s : SliceN (n + 1)) (hs : goodN (n + 1) s) :
    match ntSpec (sliceAhead (absN n) s) m with
    | some (str, k) => ∃ s' : SliceN (n + 1), readNT (Slice.rd (wrappedN n)) m s [] = .ok (str, s') ∧ goodN (n + 1) s' ∧
        absN (n + 1) s' = { absN (n + 1) s with pos := (absN (n + 1) s).pos + k } ∧
        Slice.position (wrappedN n) s' = Slice.position (wrappedN n) s + k
    | none => readNT (Slice.rd (wrappedN n)) m s [] = .error .bounds :=
  C12_null_terminated_slice (wrappedN_ok n) m s hs

/-- slices of memory-backed streams, with the window written out -/
theorem C12_null_terminated_memory_slice (m : Nat) (s : Slice MemR) (hs : sliceGood RSpec.Inv id s) :
    match ntSpec (((s.w.data.drop s.start).take s.len).drop (s.w.pos - s.start)) m with
    | some (str, n) => ∃ s', readNT (Slice.rd memWrapped) m s [] = .ok (str, s') ∧ sliceGood RSpec.Inv id s' ∧
        sliceAbs id s' = { sliceAbs id s with pos := (sliceAbs id s).pos + n } ∧
        Slice.position memWrapped s' = Slice.position memWrapped s + n
    | none => readNT (Slice.rd memWrapped) m s [] = .error .bounds :=
  C12_null_terminated_slice memWrappedOK m s hs

/-- slices of files, with the window written out (depth 1 of `C12_null_terminated_nested`) -/
theorem C12_null_terminated_file_slice (m : Nat) (s : Slice FileR) (hs : sliceGood RSpec.Inv id s) :
    match ntSpec (((s.w.data.drop s.start).take s.len).drop (s.w.pos - s.start)) m with
    | some (str, n) => ∃ s', readNT (Slice.rd fileWrapped) m s [] = .ok (str, s') ∧ sliceGood RSpec.Inv id s' ∧
        sliceAbs id s' = { sliceAbs id s with pos := (sliceAbs id s).pos + n } ∧
        Slice.position fileWrapped s' = Slice.position fileWrapped s + n
    | none => readNT (Slice.rd fileWrapped) m s [] = .error .bounds :=
  C12_null_terminated_slice fileWrappedOK m s hs

/-- the `FileReader` model (in-bounds behaviour of `std::ifstream`, trusted base) reads like the abstract reader -/
theorem fileR_read_eq (s : FileR) (k : Nat) : FileR.read s k = RSpec.rd s k := by
  unfold FileR.read RSpec.rd
  simp only [RSpec.step]
  by_cases h : s.pos + k ≤ s.data.length
  · rw [if_pos h, if_pos h]
  · rw [if_neg h, if_neg h]

/-- a bare `FileReader` (model `FileR`): the same description -/
theorem C12_null_terminated_file (m : Nat) (s : FileR) (h : s.Inv) :
    readNT FileR.read m s [] =
      match ntSpec (s.data.drop s.pos) m with
      | some (str, n) => .ok (str, { s with pos := s.pos + n })
      | none => .error .bounds := by
  have e : FileR.read = RSpec.rd := by funext s k; exact fileR_read_eq s k
  rw [e, readNT_spec m s [] h.1]
  cases ntSpec (s.data.drop s.pos) m with
  | none => rfl
  | some p => obtain ⟨str, n⟩ := p; simp

/-- what lies ahead of a well-formed slice's cursor is `len − Position()` bytes long -/
theorem sliceAhead_length {σ : Type} {W : Wrapped σ} {ab : σ → RSpec} {G : σ → Prop}
    (ok : WrappedOK W ab G) (s : Slice σ) (hs : sliceGood G ab s) :
    (sliceAhead ab s).length = s.len - Slice.position W s := by
  unfold sliceAhead
  rw [List.length_drop, sliceAbs_len s hs.2.1, slice_position_abs ok s hs]

/-- the executable driver cuts `maxCount` (possibly 2^64-1) at remaining + 1 on slice backends too: the cut loop
    satisfies the description for the uncut `maxCount` -/
theorem C12_null_terminated_slice_fuel_cut {σ : Type} {W : Wrapped σ} {ab : σ → RSpec} {G : σ → Prop}
    (ok : WrappedOK W ab G) (m : Nat) (s : Slice σ) (hs : sliceGood G ab s) :
    match ntSpec (sliceAhead ab s) m with
    | some (str, n) => ∃ s', readNT (Slice.rd W) (min m (s.len - Slice.position W s + 1)) s [] = .ok (str, s') ∧
        sliceGood G ab s' ∧ sliceAbs ab s' = { sliceAbs ab s with pos := (sliceAbs ab s).pos + n } ∧
        Slice.position W s' = Slice.position W s + n
    | none => readNT (Slice.rd W) (min m (s.len - Slice.position W s + 1)) s [] = .error .bounds := by
  have h := C12_null_terminated_slice ok (min m (s.len - Slice.position W s + 1)) s hs
  rw [← sliceAhead_length ok s hs, ← ntSpec_fuel_cut] at h
  rw [← sliceAhead_length ok s hs]
  exact h

/-- a memory slice `[2,5)` of an 8-byte buffer: the hypotheses hold, the string stops at the NUL inside the window,
    the terminator is consumed, the bytes outside the window (another NUL-free run) are never looked at -/
example : sliceGood RSpec.Inv id ({ w := { data := [9, 9, 65, 0, 66, 67, 0, 9], pos := 2 }, start := 2, len := 3 } : Slice MemR) := by
  refine ⟨⟨by decide, by decide⟩, by decide, by decide, by decide⟩
example : readNT (Slice.rd memWrapped) 10 { w := { data := [9, 9, 65, 0, 66, 67, 0, 9], pos := 2 }, start := 2, len := 3 } [] =
    .ok ([65], { w := { data := [9, 9, 65, 0, 66, 67, 0, 9], pos := 4 }, start := 2, len := 3 }) := by rfl
/-- … and from behind that NUL the window ends (at offset 5) before the next terminator (at offset 6): an error -/
example : readNT (Slice.rd memWrapped) 10 { w := { data := [9, 9, 65, 0, 66, 67, 0, 9], pos := 4 }, start := 2, len := 3 } [] =
    .error .bounds := by rfl
example : ntSpec (sliceAhead id ({ w := { data := [9, 9, 65, 0, 66, 67, 0, 9], pos := 2 }, start := 2, len := 3 } : Slice MemR)) 10 =
    some ([65], 2) := by decide
/-- a file slice of a file slice (depth 2) of the same bytes -/
example : readNT (Slice.rd (wrappedN 1)) 10
    ({ w := { w := { data := [9, 9, 65, 0, 66, 67, 0, 9], pos := 2 }, start := 1, len := 6 }, start := 1, len := 3 } : SliceN 2) [] =
    .ok ([65], { w := { w := { data := [9, 9, 65, 0, 66, 67, 0, 9], pos := 4 }, start := 1, len := 6 }, start := 1, len := 3 }) := by rfl

/-! ## size-prefixed reads over every refining reader (not only the abstract one) -/

/-- `Read<SizeType>(container)` over a `SliceReader<W>` of ANY in-bounds-correct stream decides, delivers and advances
    exactly as over the abstract reader of the slice's window: same refusals (negative size, beyond `max_size()`,
    beyond the data), same bytes, and the slice stays well-formed over the same window -/
theorem C12_prefixed_slice {σ : Type} {W : Wrapped σ} {ab : σ → RSpec} {G : σ → Prop}
    (ok : WrappedOK W ab G) (s : Slice σ) (hs : sliceGood G ab s)
    (width : Nat) (signed : Bool) (esz maxSize cap : Nat) (hw : width < W64) (hcap : cap ≤ W64) :
    SimRes Eq (sliceAbs ab) (sliceGood G ab) (readPrefixed (Slice.rd W) width signed esz maxSize cap s)
      (readPrefixed RSpec.rd width signed esz maxSize cap (sliceAbs ab s)) :=
  readPrefixed_sim Eq (fun _ => rfl) (Slice.rd W) (sliceAbs ab) (sliceGood G ab)
    (fun t k ht hk => slice_rd_sim ok t ht k hk) width signed esz maxSize cap hw hcap s hs

/-- … over file slices nested to any depth -/
theorem C12_prefixed_nested (n : Nat) (s : SliceN (n + 1)) (hs : goodN (n + 1) s)
    (width : Nat) (signed : Bool) (esz maxSize cap : Nat) (hw : width < W64) (hcap : cap ≤ W64) :
    SimRes Eq (absN (n + 1)) (goodN (n + 1)) (readPrefixed (Slice.rd (wrappedN n)) width signed esz maxSize cap s)
      (readPrefixed RSpec.rd width signed esz maxSize cap (absN (n + 1) s)) :=
  C12_prefixed_slice (wrappedN_ok n) s hs width signed esz maxSize cap hw hcap

/-- … and over the `MemoryReader` model with its u64 guards: equal to the abstract reader outright -/
theorem C12_prefixed_memory (s : MemR) (h : s.Inv)
    (width : Nat) (signed : Bool) (esz maxSize cap : Nat) (hw : width < W64) (hcap : cap ≤ W64) :
    SimRes Eq id RSpec.Inv (readPrefixed MemR.rd width signed esz maxSize cap s)
      (readPrefixed RSpec.rd width signed esz maxSize cap s) := by
  refine readPrefixed_sim Eq (fun _ => rfl) MemR.rd id RSpec.Inv ?_ width signed esz maxSize cap hw hcap s h
  intro t k ht hk
  rw [memrd_eq t ht k hk]
  simp only [id]
  cases hr : RSpec.rd t k with
  | error e => exact rfl
  | ok p => obtain ⟨b, t'⟩ := p; exact ⟨rfl, rfl, rd_inv t t' b k ht hr⟩

/-! ## failing atomically — on the implementation models themselves, from any state -/

/-- a refused `Read` / `Peek` / `Seek…` leaves the reader exactly as it was — cursor, window, wrapped stream — on the `MemoryReader`
    model, the file model, a file slice and a slice of a file slice; no invariant is assumed and the argument is arbitrary
    (`C12_failure_is_noop` says it of the specification; this says it of every implementation model directly) -/
theorem C12_failure_is_noop_every_backend (r : Rd) (op : ROp) (h : (r.step op).1 = .err) : (r.step op).2 = r :=
  Rd.step_err_noop r op h

/-- the same for the slice-creating requests: a refused `Slice(start,len)` / `Slice(len)` changes nothing -/
theorem C12_refused_request_is_noop (r : Rd) (o : OOp)
    (h : (r.ostep o).1 = .out .err ∨ (r.ostep o).1 = .failed ∨ (r.ostep o).1 = .unsupported) : (r.ostep o).2 = r :=
  Rd.ostep_refused_noop r o h

/-! ## the typed helpers as the correspondence run executes them: over `Rd.read` of a live object of any backend -/

/-- `ReadNullTerminatedString` over the checked `Read(1)` of ANY backend object (memory, file, file slice, slice of a file slice — the
    exact function the `z` tokens of the correspondence run execute) runs as over the abstract reader of what the object exposes:
    same success / failure, same string, and the object ends well-formed where the abstract reader ends -/
theorem C12_null_terminated_every_backend (r : Rd) (hr : r.Good) (fuel : Nat) (acc : Bytes) :
    SimRes Eq Rd.abs Rd.Good (readNT Rd.read fuel r acc) (readNT RSpec.rd fuel r.abs acc) := Rd.readNT_sim r hr fuel acc

/-- `Read<SizeType>(container)` likewise (the `q` / `i` / `v` tokens) -/
theorem C12_prefixed_every_backend (r : Rd) (hr : r.Good) (width : Nat) (signed : Bool) (esz maxSize cap : Nat)
    (hw : width < W64) (hcap : cap ≤ W64) :
    SimRes Eq Rd.abs Rd.Good (readPrefixed Rd.read width signed esz maxSize cap r)
      (readPrefixed RSpec.rd width signed esz maxSize cap r.abs) := Rd.readPrefixed_sim r hr width signed esz maxSize cap hw hcap

end Op2.Props.C12
