import Op2Proofs.Huff.M
import Op2Proofs.Huff.Agree
import Op2Proofs.Huff.RefEq
/-!
# C15 — the adaptive Huffman tree stays a valid code on every history
-/
namespace Op2.Props.C15
open Op2 Op2.Huff Op2.Huff.TF

/-- a history of `UpdateCodeCount` calls; the first refused call ends it with an error -/
def runChecked (t : TF) : List Nat → Except Err TF
  | [] => .ok t
  | c :: cs => match updateChecked t c with
    | .ok t' => runChecked t' cs
    | .error e => .error e

/-! ## the invariant holds initially and is preserved by every accepted update -/

theorem C15_wf_init (T : Nat) (hT : 2 ≤ T) : WF (init T) := init_wf hT

theorem C15_wf_step {t t' : TF} {code : Nat} (w : WF t) (h : updateChecked t code = .ok t') :
    WF t' ∧ t'.T = t.T ∧ t'.cnt t'.root = t.cnt t.root + 1 ∧ code < t.T ∧ t.cnt t.root < maxCount := by
  unfold updateChecked at h
  split at h
  · simp at h
  · split at h
    · simp at h
    · rename_i h1 h2
      simp only [Except.ok.injEq] at h
      subst h
      have hc : code < t.T := by omega
      have hT := update_T t code
      have hroot : (t.update code).root = t.root := by unfold root n; rw [hT]
      exact ⟨update_wf w hc, hT, by rw [hroot]; exact update_root_cnt w hc, hc, by omega⟩

/-- every reachable tree is well formed, and its root counter is `T` plus the number of updates -/
theorem C15_wf_reachable (T : Nat) (hT : 2 ≤ T) (codes : List Nat) (t : TF)
    (h : runChecked (init T) codes = .ok t) :
    WF t ∧ t.T = T ∧ t.cnt t.root = T + codes.length := by
  suffices ∀ (codes : List Nat) (s : TF) (k : Nat), WF s → s.T = T → s.cnt s.root = T + k →
      runChecked s codes = .ok t → WF t ∧ t.T = T ∧ t.cnt t.root = T + k + codes.length from by
    have := this codes (init T) 0 (init_wf hT) rfl (by rw [init_root_cnt T hT]; rfl) h
    simpa using this
  intro codes
  induction codes with
  | nil => intro s k w hs hk h; simp only [runChecked, Except.ok.injEq] at h; subst h; exact ⟨w, hs, by simpa using hk⟩
  | cons c cs ih =>
    intro s k w hs hk h
    simp only [runChecked] at h
    split at h
    · rename_i s' e
      obtain ⟨w', hT', hc', _, _⟩ := C15_wf_step w e
      have := ih s' (k + 1) w' (by rw [hT', hs]) (by rw [hc', hk]; omega) h
      simp only [List.length_cons]
      refine ⟨this.1, this.2.1, ?_⟩
      rw [this.2.2]; omega
    · simp at h

/-- **within capacity no counter leaves the 16-bit range**: the ℕ counts of the model are the `unsigned short`
    counts of the implementation -/
theorem C15_counts_fit_16_bits (T : Nat) (hT : 2 ≤ T) (hT2 : T ≤ maxCount) (codes : List Nat) (t : TF)
    (h : runChecked (init T) codes = .ok t) : ∀ i, i < t.n → 1 ≤ t.cnt i ∧ t.cnt i ≤ maxCount := by
  suffices ∀ (codes : List Nat) (s : TF), WF s → s.cnt s.root ≤ maxCount → runChecked s codes = .ok t →
      WF t ∧ t.cnt t.root ≤ maxCount from by
    obtain ⟨w, hr⟩ := this codes (init T) (init_wf hT) (by rw [init_root_cnt T hT]; exact hT2) h
    intro i hi
    exact ⟨w.pos i hi, Nat.le_trans (w.cnt_le_root i hi) hr⟩
  intro codes
  induction codes with
  | nil => intro s w hr h; simp only [runChecked, Except.ok.injEq] at h; subst h; exact ⟨w, hr⟩
  | cons c cs ih =>
    intro s w hr h
    simp only [runChecked] at h
    split at h
    · rename_i s' e
      obtain ⟨w', _, hc', _, hcap⟩ := C15_wf_step w e
      exact ih s' w' (by rw [hc']; omega) h
    · simp at h

/-- capacity: from the initial tree exactly `65535 − T` updates are accepted (65 221 for the 314-symbol tree) -/
theorem C15_capacity (T : Nat) (hT : 2 ≤ T) (codes : List Nat) (t : TF)
    (h : runChecked (init T) codes = .ok t) : T + codes.length ≤ maxCount ∨ codes = [] := by
  cases codes with
  | nil => right; rfl
  | cons c cs =>
    left
    -- look at the last accepted update: before it the root counter was below the limit
    suffices ∀ (cs : List Nat) (s : TF) (k : Nat) (c : Nat), WF s → s.T = T → s.cnt s.root = T + k →
        runChecked s (c :: cs) = .ok t → T + k + (c :: cs).length ≤ maxCount from by
      have := this cs (init T) 0 c (init_wf hT) rfl (by rw [init_root_cnt T hT]; rfl) h
      simpa using this
    intro cs
    induction cs with
    | nil =>
      intro s k c w hs hk h
      simp only [runChecked] at h
      split at h
      · rename_i s' e
        obtain ⟨_, _, _, _, hcap⟩ := C15_wf_step w e
        simp only [List.length_cons, List.length_nil]; omega
      · simp at h
    | cons c2 cs ih =>
      intro s k c w hs hk h
      simp only [runChecked] at h
      split at h
      · rename_i s' e
        obtain ⟨w', hT', hc', _, _⟩ := C15_wf_step w e
        have := ih s' (k + 1) c2 w' (by rw [hT', hs]) (by rw [hc', hk]; omega) (by simpa [runChecked] using h)
        simp only [List.length_cons] at this ⊢; omega
      · simp at h

/-! ## refusals leave the tree as it was (the caller keeps the old value: no new tree is produced) -/

theorem C15_refuses (t : TF) (code : Nat) (h : code ≥ t.T ∨ t.cnt t.root ≥ maxCount) :
    updateChecked t code = .error .refused := by
  unfold updateChecked
  rcases h with h | h
  · rw [if_pos h]
  · by_cases h1 : code ≥ t.T
    · rw [if_pos h1]
    · rw [if_neg h1, if_pos h]

/-! ## a well-formed tree is a full binary prefix code over exactly its symbol set -/

/-- the encoder's bit string drives the decoder's walk from the root to that symbol's leaf -/
theorem C15_prefix_code {t : TF} (w : WF t) (code : Nat) (hcode : code < t.T) :
    let leaf := walk t t.root (encode t code)
    leaf < t.n ∧ isLeaf t leaf = true ∧ nodeData t leaf = code ∧ (∀ b ∈ encode t code, b < 2) := by
  intro leaf
  obtain ⟨h1, h2⟩ := decode_encode w.st hcode
  refine ⟨h1, ?_, ?_, ?_⟩
  · show decide (t.link leaf ≥ t.n) = true
    have : t.link leaf = code + t.n := h2
    simp [this]
  · show t.link leaf - t.n = code
    have : t.link leaf = code + t.n := h2
    omega
  · intro b hb
    unfold encode at hb
    rw [List.mem_reverse] at hb
    exact up_bits t _ _ b hb

/-- every node is a leaf holding a symbol or an inner node with two children below it that name it as parent -/
theorem C15_full_binary {t : TF} (w : WF t) (i : Nat) (hi : i < t.n) :
    (t.n ≤ t.link i ∧ t.link i < t.n + t.T) ∨
    (t.link i + 1 < i ∧ t.par (t.link i) = i ∧ t.par (t.link i + 1) = i) := by
  rcases w.st.rng i hi with h | h
  · right; exact ⟨h.2.2, w.st.parL i hi, w.st.parR i hi (by omega)⟩
  · left; exact h

/-- each symbol sits on exactly one leaf -/
theorem C15_symbol_on_one_leaf {t : TF} (w : WF t) (code : Nat) (hcode : code < t.T) :
    ∃ i, i < t.n ∧ t.link i = code + t.n ∧ ∀ j, j < t.n → t.link j = code + t.n → j = i := by
  obtain ⟨h1, h2⟩ := w.st.chC (code + t.n) (by omega) (by omega)
  refine ⟨t.par (code + t.n), h1, h2, ?_⟩
  intro j hj hl
  have := w.st.parL j hj
  rw [hl] at this
  exact this.symm

/-- every node is reachable from the root (by the reversed leaf-to-root bits) -/
theorem C15_all_reachable {t : TF} (w : WF t) (j : Nat) (hj : j < t.n) :
    walk t t.root (up t j t.n).reverse = j :=
  walk_up w.st t.n j hj (by unfold root; omega)

/-! ## the shape equals that of the independent (LZHUF-style) reference update, on every history -/

/-- one update: the reference and the modelled update produce the same tables -/
theorem C15_ref {t : TF} (w : WF t) {code : Nat} (hcode : code < t.T) : Ref.update t code = t.update code :=
  ref_update_eq w hcode

/-- a history run through the reference update (same refusals) -/
def runRef (t : TF) : List Nat → Except Err TF
  | [] => .ok t
  | c :: cs =>
    if c ≥ t.T then .error .refused
    else if t.cnt t.root ≥ maxCount then .error .refused
    else runRef (Ref.update t c) cs

/-- every history: the reference run and the modelled run end in the same tree (or are both refused) -/
theorem C15_ref_history (T : Nat) (hT : 2 ≤ T) (codes : List Nat) :
    runRef (init T) codes = runChecked (init T) codes := by
  suffices ∀ (codes : List Nat) (s : TF), WF s → runRef s codes = runChecked s codes from this codes _ (init_wf hT)
  intro codes
  induction codes with
  | nil => intro s _; rfl
  | cons c cs ih =>
    intro s w
    simp only [runRef, runChecked, updateChecked]
    by_cases h1 : c ≥ s.T
    · rw [if_pos h1, if_pos h1]
    · rw [if_neg h1, if_neg h1]
      by_cases h2 : s.cnt s.root ≥ maxCount
      · rw [if_pos h2, if_pos h2]
      · rw [if_neg h2, if_neg h2]
        rw [C15_ref w (by omega)]
        exact ih _ (update_wf w (by omega))

/-! ## the executable array tree (what the drivers run, and the shape of the C++ object) refines all of the above -/

def runCheckedA (a : TA) : List Nat → Except Err TA
  | [] => .ok a
  | c :: cs => match a.updateChecked c with
    | .ok a' => runCheckedA a' cs
    | .error e => .error e

/-- **memory safety of the update**: on a well-formed tree whose tables have the constructor's sizes, every table
    index `UpdateCodeCount` reads or writes lies inside the tables — the bounds-checked array run equals the
    function-level run, sizes are kept -/
theorem C15_array_update_in_bounds (a : TA) (s : a.Sized) (w : WF a.view) (code : Nat) (hcode : code < a.T) :
    (a.update code).view = a.view.update code ∧ (a.update code).Sized ∧ (a.update code).T = a.T :=
  TA.update_view a s w code hcode

/-- every tree the array implementation can reach from the constructor is well formed, keeps its table sizes, and
    is the frozen form of the function-level tree of the same history -/
theorem C15_array_reachable (T : Nat) (hT : 2 ≤ T) (codes : List Nat) (a : TA)
    (h : runCheckedA (TA.init T) codes = .ok a) :
    a.Sized ∧ WF a.view ∧ a.T = T ∧ a.view.cnt a.view.root = T + codes.length := by
  suffices ∀ (codes : List Nat) (s : TA) (k : Nat), s.Sized → WF s.view → s.T = T → s.view.cnt s.view.root = T + k →
      runCheckedA s codes = .ok a → a.Sized ∧ WF a.view ∧ a.T = T ∧ a.view.cnt a.view.root = T + k + codes.length from by
    obtain ⟨w0, s0, t0⟩ := TA.init_wf T hT
    have := this codes (TA.init T) 0 s0 w0 t0 (by rw [TA.init_root_cnt T hT]; rfl) h
    simpa using this
  intro codes
  induction codes with
  | nil =>
    intro s k sz w hs hk h
    simp only [runCheckedA, Except.ok.injEq] at h; subst h; exact ⟨sz, w, hs, by simpa using hk⟩
  | cons c cs ih =>
    intro s k sz w hs hk h
    simp only [runCheckedA] at h
    have hv := TA.updateChecked_view s sz w c
    split at h
    · rename_i s' e
      rw [e] at hv
      obtain ⟨hv1, hv2⟩ := hv
      obtain ⟨w', hT', hc', _, _⟩ := C15_wf_step w hv1
      have := ih s' (k + 1) hv2 w' (by have : s'.view.T = s.view.T := hT'; exact this.trans hs) (by rw [hc', hk]; omega) h
      simp only [List.length_cons]
      refine ⟨this.1, this.2.1, this.2.2.1, ?_⟩
      rw [this.2.2.2]; omega
    · simp at h

/-- an out-of-range node index is refused by every query, and a query never changes the tree (it returns no tree) -/
theorem C15_node_refused (a : TA) (node : Nat) (h : node ≥ a.n) (bit : Nat) :
    a.child node bit = .error .bounds ∧ a.isLeaf node = .error .bounds ∧ a.nodeData node = .error .bounds := by
  unfold TA.child TA.isLeaf TA.nodeData
  rw [if_pos h, if_pos h, if_pos h]; exact ⟨rfl, rfl, rfl⟩

/-- in range the queries read the tables -/
theorem C15_node_queries (a : TA) (node : Nat) (h : node < a.n) (bit : Nat) :
    a.child node bit = .ok (a.view.link node + bit) ∧ a.isLeaf node = .ok (TF.isLeaf a.view node) ∧
    a.nodeData node = .ok (TF.nodeData a.view node) := by
  unfold TA.child TA.isLeaf TA.nodeData
  have : ¬ node ≥ a.n := by omega
  rw [if_neg this, if_neg this, if_neg this]; exact ⟨rfl, rfl, rfl⟩

/-- non-vacuity: a concrete history on the array tree is accepted (so the hypotheses above are satisfiable) -/
theorem C15_first_update_accepted (T : Nat) (hT : 2 ≤ T) (hT2 : T < maxCount) (c : Nat) (hc : c < T) :
    ∃ a, runCheckedA (TA.init T) [c] = .ok a := by
  have hr : ¬ ((TA.init T).cnt.getD (TA.init T).root 0 ≥ maxCount) := by
    have := TA.init_root_cnt T hT
    rw [TA.view_cnt, TA.view_root] at this
    rw [this]; omega
  have hc' : ¬ (c ≥ (TA.init T).T) := by show ¬ (c ≥ T); omega
  refine ⟨(TA.init T).update c, ?_⟩
  simp only [runCheckedA, TA.updateChecked]
  rw [if_neg hc', if_neg hr]
example : ∃ a, runCheckedA (TA.init 314) [5] = .ok a :=
  C15_first_update_accepted 314 (by omega) (by decide) 5 (by omega)

/-- non-vacuity: the 314-symbol tree of the format is covered -/
example : (2 : Nat) ≤ 314 ∧ 314 ≤ maxCount := by decide

end Op2.Props.C15
