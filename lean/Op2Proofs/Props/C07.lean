import Op2Model.Map
namespace Op2.Props.C07
theorem C07_placeholder : True := trivial
end Op2.Props.C07
