import Op2Proofs.GenTactics
import Op2Proofs.Map.Read
import Op2Proofs.Map.Saved
import Op2Model.Gen.Layout
import Op2Model.Gen.Constants
import Op2Model.Gen.Formulas
/-!
# C07 — map and saved-game readers are safe and self-consistent on arbitrary bytes

`read` / `readSavedGame` are the models of `Map::ReadMap(Stream::Reader&)` / `Map::ReadSavedGame(BidirectionalReader&)`
(`Op2Model/Map.lean`).  Every statement is for **all** byte strings.
-/
namespace Op2.Props.C07
open Op2 Op2.Map Op2.Parser

/-! ## generated facts the model relies on (re-measured from the current source on every run) -/

theorem C07_gen_layout :
    Gen.Layout.size_MapHeader = headerSize ∧ Gen.Layout.off_MapHeader_versionTag = 0 ∧
    Gen.Layout.off_MapHeader_bSavedGame = 4 ∧ Gen.Layout.off_MapHeader_lgWidthInTiles = 8 ∧
    Gen.Layout.off_MapHeader_heightInTiles = 12 ∧ Gen.Layout.off_MapHeader_tilesetCount = 16 ∧
    Gen.Layout.MinMapVersion = minMapVersion ∧ Gen.Layout.size_Tile = 4 ∧ Gen.Layout.size_Rect = rectSize ∧
    Gen.Layout.size_TileMapping = mappingSize ∧ Gen.Layout.size_TerrainType = terrainSize ∧
    Gen.Layout.size_ObjectType1 = object1Size ∧ Gen.Layout.savedGame_unitsArrayBytes = unitsArrayBytes ∧
    Gen.Layout.savedGame_freeUnitsBytes = freeUnitsBytes ∧ Gen.Layout.DefaultSizeOfUnit = defaultSizeOfUnit := by decide

theorem C07_gen_constants :
    (Gen.Constants.map_savedGameSkip_scraped = true → Gen.Constants.map_savedGameSkip = savedGameSkip) ∧
    (Gen.Constants.map_tilesetHeader_scraped = true → Gen.Constants.map_tilesetHeader = marker.map (·.toNat)) := by decide

/-- `MapHeader::WidthInTiles` as translated from the source is the checked shift wherever that is defined -/
theorem C07_gen_WidthInTiles : Gen.Formulas.gen_WidthInTiles_translated = true →
    ∀ k : Nat, k < 32 → Gen.Formulas.gen_WidthInTiles (k : Int) = ((2 ^ k : Nat) : Int) := by
  decide

theorem C07_shlOne (k : Nat) (hk : k < 32) : shlOne k = .ok (2 ^ k) := by
  have hp : 2 ^ k ≤ 2 ^ 31 := Nat.pow_le_pow_right (by omega) (by omega)
  unfold shlOne; rw [if_neg (by omega)]; unfold u32 W32; rw [Nat.mod_eq_of_lt (by omega)]

open Op2.GenTactics in
/-- `MapHeader::TileCount` as translated from the source is `height << lg` reduced to 32 bits -/
theorem C07_gen_TileCount (h k : Nat) (hk : k < 32) : Gen.Formulas.gen_TileCount_translated = true →
    Gen.Formulas.gen_TileCount (h : Int) (k : Int) = ((u32 (h * 2 ^ k) : Nat) : Int) ∧ shl32 h k = .ok (u32 (h * 2 ^ k)) := by
  gen_guard =>
  constructor
  · unfold Gen.Formulas.gen_TileCount Gen.Formulas.castU u32 W32
    simp only [Int.toNat_natCast]
    norm_cast
  · unfold shl32; rw [if_neg (by omega)]

/-! ## no undefined arithmetic -/

/-- the map reader never executes an over-wide shift (nor any other modelled undefined operation), whatever the bytes -/
theorem C07_no_fault (b : Bytes) (f : Fault) : read b ≠ .fault f := by
  intro h
  obtain ⟨r, hp⟩ := outcome_fault h
  obtain ⟨_, _, _, _, _, _, _, _, _, he⟩ := pMap_ok hp
  cases he

/-- the same for the saved-game reader -/
theorem C07_no_fault_saved (b : Bytes) (f : Fault) : readSavedGame b ≠ .fault f := by
  intro h
  obtain ⟨r, hp⟩ := outcome_fault h
  obtain ⟨_, _, _, _, _, _, _, _, _, he⟩ := pSavedGame_ok hp
  cases he

/-- the guard is what makes it so: without it the very same shifts do fault (the pinned tree, D13) -/
example : dims 32 1 = .error .shiftTooWide ∧ dimsOk 32 1 = false := ⟨rfl, by decide⟩
example : dims 31 2 = .ok (2147483648, 0) ∧ dimsOk 31 2 = false := ⟨rfl, by decide⟩   -- the truncated "success"

/-! ## shape of a returned map -/

/-- a returned map has a power-of-two width (2^k, k < 32) and exactly width × height tiles — the product taken in ℕ,
    not modulo 2^32 -/
theorem C07_shape (b : Bytes) (m : Map) (n : Nat) (h : read b = .ok m n) :
    ∃ k, k < 32 ∧ m.width = 2 ^ k ∧ m.tiles.length = m.width * m.height := by
  obtain ⟨r, hp, _⟩ := outcome_ok h
  obtain ⟨m0, r1, _, _, gs, hb, _, _, _, he⟩ := pMap_ok hp
  obtain ⟨m0', e0, hbo⟩ := pBeginning_ok hb
  cases e0; cases he
  obtain ⟨k, hk, hw, hl, _, _⟩ := beginning_shape hbo
  exact ⟨k, hk, hw, hl⟩

theorem C07_shape_saved (b : Bytes) (m : Map) (n : Nat) (h : readSavedGame b = .ok m n) :
    ∃ k, k < 32 ∧ m.width = 2 ^ k ∧ m.tiles.length = m.width * m.height := by
  obtain ⟨r, hp, _⟩ := outcome_ok h
  obtain ⟨m0, r1, _, _, _, hb, _, _, _, he⟩ := pSavedGame_ok hp
  obtain ⟨m0', e0, hbo⟩ := pBeginning_ok hb
  cases e0; cases he
  obtain ⟨k, hk, hw, hl, _, _⟩ := beginning_shape hbo
  exact ⟨k, hk, hw, hl⟩

/-! ## prefixes are refused, never returned as a smaller success -/

/-- every proper prefix that cuts into the bytes the map reader consumed is an ordinary error -/
theorem C07_prefix_strict (b : Bytes) (m : Map) (n : Nat) (h : read b = .ok m n) (k : Nat) (hk : k < n) :
    ∃ e, read (b.take k) = .err e := prefix_strict_of_local local_pMap b m n h k hk

theorem C07_prefix_strict_saved (b : Bytes) (m : Map) (n : Nat) (h : readSavedGame b = .ok m n) (k : Nat) (hk : k < n) :
    ∃ e, readSavedGame (b.take k) = .err e := prefix_strict_of_local local_pSavedGame b m n h k hk

/-- the consumed count never exceeds the input, and bytes after it do not matter (saved games; for maps see C06_trailing) -/
theorem C07_trailing_saved (b : Bytes) (m : Map) (n : Nat) (h : readSavedGame b = .ok m n) (junk : Bytes) :
    n ≤ b.length ∧ readSavedGame (b.take n ++ junk) = .ok m n := by
  obtain ⟨r, hpb, rfl⟩ := outcome_ok h
  obtain ⟨hle, _⟩ := (local_pSavedGame).consumed hpb
  refine ⟨by omega, ?_⟩
  have := (local_pSavedGame).trailing hpb junk
  have e := outcome_of_ok this
  unfold readSavedGame; rw [e]
  simp [List.length_take]

/-! ## a saved game and a map file holding the same embedded map portion -/

/-- number of bytes `ReadMapBeginning` consumes of `b` (0 if it fails) -/
def beginLen (b : Bytes) : Nat :=
  match Parser.run pBeginning b with
  | .ok (_, k) => k
  | .error _ => 0

/-- the fields the property names (plus the two header fields that come with them) -/
def SameMapPart (m1 m2 : Map) : Prop :=
  m1.width = m2.width ∧ m1.height = m2.height ∧ m1.tiles = m2.tiles ∧ m1.clip = m2.clip ∧ m1.sources = m2.sources ∧
  m1.mappings = m2.mappings ∧ m1.terrains = m2.terrains ∧ m1.versionTag = m2.versionTag ∧ m1.savedGame = m2.savedGame

/-- if the bytes after the fixed saved-game header agree with a map file on the portion `ReadMapBeginning` consumes of that
    map file, both readers return the same dimensions, tiles, clip rectangle, tileset sources, mappings and terrain types -/
theorem C07_saved_game_same_map (s b : Bytes) (m1 m2 : Map) (n1 n2 : Nat)
    (h1 : readSavedGame s = .ok m1 n1) (h2 : read b = .ok m2 n2)
    (same : (s.drop savedGameSkip).take (beginLen b) = b.take (beginLen b)) : SameMapPart m1 m2 := by
  obtain ⟨r2, hp2, _⟩ := outcome_ok h2
  obtain ⟨m0, rb, _, _, gs, hb, _, _, _, he⟩ := pMap_ok hp2
  cases he
  obtain ⟨r1, hp1, _⟩ := outcome_ok h1
  obtain ⟨m0', rb', _, _, _, hb', _, _, _, he'⟩ := pSavedGame_ok hp1
  cases he'
  obtain ⟨n, hn, hrb, det, _⟩ := local_pBeginning b _ _ hb
  have hlen : beginLen b = n := by
    unfold beginLen; rw [run_of_ok hb, hrb]; simp [List.length_drop]; omega
  rw [hlen] at same
  have hge : n ≤ (s.drop savedGameSkip).length := by
    have := congrArg List.length same
    simp only [List.length_take] at this
    omega
  have := det (s.drop savedGameSkip) hge same
  rw [this] at hb'
  have e : m1 = m0 := by
    have := (Prod.mk.inj (Except.ok.inj hb')).1
    exact (Except.ok.inj this).symm
  subst e
  exact ⟨rfl, rfl, rfl, rfl, rfl, rfl, rfl, rfl, rfl⟩

/-! ## saved games exist: every well-formed map portion has them, and both readers return it -/

/-- saved games exist for every well-formed map portion and read to exactly that portion: a file made of any 0x1E025 bytes,
    the map's beginning, the tag, a unit block, the tag, anything; and the map file with the same beginning reads to the
    same fields (plus its groups) -/
theorem C07_saved_game_reads (m : Map) (wf : Spec.WF m) (k : Nat) (hk : k < 32) (hw : m.width = 2 ^ k)
    (pad u rest : Bytes) (hpad : pad.length = savedGameSkip) (hu : u.length = unitsArrayBytes) :
    readSavedGame (pad ++ beginBytes m k ++ encU32 m.versionTag ++ emptyUnits u ++ encU32 m.versionTag ++ rest) =
      .ok { m with groups := [] } (savedGameSkip + (beginBytes m k).length + 4 + (emptyUnits u).length + 4) ∧
    read (beginBytes m k ++ encU32 m.versionTag ++ encU32 m.versionTag ++ encGroups m.groups ++ rest) =
      .ok m ((beginBytes m k).length + 4 + 4 + (encGroups m.groups).length) := by
  constructor
  · have hr : Reads pSavedGame (pad ++ beginBytes m k ++ encU32 m.versionTag ++ emptyUnits u ++ encU32 m.versionTag)
        (.ok { m with groups := [] }) := by
      intro r
      unfold pSavedGame
      simp only [List.append_assoc]
      rw [bind_reads (reads_take' pad savedGameSkip hpad), bind_reads (reads_beginBytes m k hk hw wf)]
      simp only []
      rw [bind_reads (reads_pVersionTag _ wf.tagMin wf.tagLt), bind_reads (reads_pUnits_empty u hu),
        bind_reads (reads_pVersionTag _ wf.tagMin wf.tagLt)]
      rfl
    have := outcome_of_ok (hr rest)
    unfold readSavedGame; rw [this]
    simp [List.length_append, hpad, encU32_length]
    omega
  · have e : beginBytes m k ++ encU32 m.versionTag ++ encU32 m.versionTag ++ encGroups m.groups = layout m k := by
      simp [layout, beginBytes, List.append_assoc]
    rw [e]
    have := outcome_of_ok (reads_layout m k hk hw wf rest)
    unfold Map.read; rw [this, ← e]
    simp [List.length_append, encU32_length]
    omega

/-! ## non-vacuity: concrete files on which the hypotheses hold -/

/-- a 2 x 1 map with one named tileset source, one mapping, one tile group -/
def sampleMap : Map :=
  { versionTag := 0x1011, savedGame := false, width := 2, height := 1, tiles := [0x12345678, 7], clip := zeros 16,
    sources := [⟨[119, 101, 108, 108, 48, 48, 48, 49], 40⟩, ⟨[], 0⟩], mappings := [zeros 8], terrains := [],
    groups := [⟨[114, 111, 99, 107], 1, 2, [5, 6]⟩] }

def sampleBytes : Bytes := Spec.encode sampleMap

example : read sampleBytes = .ok sampleMap sampleBytes.length := by decide +kernel
example : read (sampleBytes ++ [1, 2, 3]) = .ok sampleMap sampleBytes.length := by decide +kernel
example : read (sampleBytes.take 40) = .err .bounds := by decide +kernel
-- a header asking for a 2^31 x 2 map (the D13 witness) is refused with an ordinary error
example : read (encU32 0x1011 ++ encU32 0 ++ encU32 31 ++ encU32 2 ++ encU32 0 ++ zeros 64) = .err .format := by decide
example : read (encU32 0x1011 ++ encU32 0 ++ encU32 32 ++ encU32 1 ++ encU32 0 ++ zeros 64) = .err .format := by decide

end Op2.Props.C07
