import Op2Model.Gen.Constants
import Op2Model.Gen.Layout
import Op2Proofs.Vol.Refuse
import Op2Proofs.Vol.Search
import Op2Proofs.Vol.ReadRef
import Op2Proofs.Vol.StrictDec
/-!
# C02 — written VOLs conform to an independent description of the format; archives from an independent encoder are read

`Spec.refEncode` is the frozen reference encoder (declarative: every offset is the actual position of what it points to),
`Spec.Desc.Strict d` describes the archives the library itself writes (no unused slots, no slack, every member
uncompressed with size = stored length, names strictly increasing in the `_stricmp`-style order `ltSpec`), and
`Spec.StrictWF b` says `b` is the encoding of a strict description.
-/
namespace Op2.Vol
open Op2 Op2.Str

/-! ## facts regenerated from the source -/
theorem C02_gen_entryLayout :
    Gen.Layout.off_VolIndexEntry_filenameOffset = 0 ∧ Gen.Layout.off_VolIndexEntry_dataBlockOffset = 4 ∧
    Gen.Layout.off_VolIndexEntry_fileSize = 8 ∧ Gen.Layout.off_VolIndexEntry_compressionType = 12 ∧
    Gen.Layout.size_VolIndexEntry = entrySize := by decide
theorem C02_gen_codes : Gen.Layout.vol_Uncompressed = uncompressed ∧ Gen.Layout.vol_LZH = lzh := by decide
theorem C02_gen_sectionHeader :
    Gen.Layout.size_VolSectionHeader = secSize ∧ Gen.Layout.mask_VolSectionHeader_length = lenMask ∧
    Gen.Layout.mask_VolSectionHeader_padding = padFlag := by decide
/-- the padding constants of `PrepareHeader` are the ones under which its 32-bit formulas equal the declarative layout
    (`(x+7)&~3 = pad4 (x+4)`, `(x+3)&~3 = pad4 x`, `(off+size+11)&~3 = off + 8 + pad4 size`, first block at header end,
    `'VOL '` length = header − 8) -/
theorem C02_gen_layoutConstants :
    (Gen.Constants.vol_namePad_scraped = true → Gen.Constants.vol_namePad = namePad) ∧ (Gen.Constants.vol_indexPad_scraped = true → Gen.Constants.vol_indexPad = indexPad) ∧
    (Gen.Constants.vol_blockPad_scraped = true → Gen.Constants.vol_blockPad = blockPad) ∧
    (Gen.Constants.vol_firstBlockExtra_scraped = true → Gen.Constants.vol_firstBlockExtra = firstBlockExtra) ∧
    (Gen.Constants.vol_headerExtra_scraped = true → Gen.Constants.vol_headerExtra = headerExtra) := by decide

/-- **every archive the library writes is the reference encoding of a strict description** (∀ output path, ∀ file lists).
    Hypotheses: names are what file names can be (no NUL; no byte 0xFF, where the library's signed-char fold and the
    format's unsigned fold would order differently — outside C02's alphabet), and the header is below 2 GiB
    (about 150 million members). -/
theorem C02_writer_conforms (out : Bytes) (files : List InFile) (b : Bytes) (h : create out files = .ok b)
    (hn : ∀ f ∈ files, NameOk (nameOf f))
    (hH : Spec.headerLen (descOf (sortCI nameOf files)) < 2147483648) : Spec.StrictWF b := by
  obtain ⟨g, rfl⟩ := create_ok out files b h hH
  refine ⟨descOf (sortCI nameOf files), ?_, rfl⟩
  exact descOf_strict out _ g (sorted_names_sortedW files)
    (fun f hf => hn f ((sortCI_perm nameOf files).mem_iff.mp hf))

/-- the executable check used by the harness decides `StrictWF` exactly (so `StrictWF` is decidable: `decide` works on it) -/
theorem C02_strictWF_sound (b : Bytes) (h : Spec.strictWF b = true) : Spec.StrictWF b := Spec.strictWF_sound b h
theorem C02_strictWF_complete (b : Bytes) (h : Spec.StrictWF b) : Spec.strictWF b = true := Spec.strictWF_complete b h
/-- a conforming archive has exactly one strict description: the encoder is injective on strict descriptions -/
theorem C02_description_unique (d₁ d₂ : Spec.Desc) (h₁ : d₁.Strict) (h₂ : d₂.Strict)
    (h : Spec.refEncode d₁ = Spec.refEncode d₂) : d₁ = d₂ := Spec.refEncode_injective_strict d₁ d₂ h₁ h₂ h

/-- **on a conforming archive a case-insensitive binary search over the index order finds every member, in any letter
    case**, and finds nothing else -/
theorem C02_binary_search (d : Spec.Desc) (hd : d.Strict) (i : Nat) (hi : i < d.members.length) (mask : List Bool) :
    Spec.lookup (d.members.map (·.name)) (Spec.anyCase mask d.members[i].name) = some i := by
  have hinc : Spec.increasing (d.members.map (·.name)) = true := by
    unfold Spec.Desc.Strict Spec.Desc.strict at hd
    simp only [Bool.and_eq_true] at hd
    exact hd.2
  have := Spec.lookup_any_case (d.members.map (·.name)) hinc i (by simpa using hi) mask
  simpa using this

theorem C02_binary_search_sound (d : Spec.Desc) (x : Bytes) (i : Nat)
    (h : Spec.lookup (d.members.map (·.name)) x = some i) :
    ∃ hi : i < d.members.length, Str.eqF Spec.lowerU x d.members[i].name = true := by
  obtain ⟨hi, he⟩ := Spec.lookup_sound _ x i h
  exact ⟨by simpa using hi, by simpa using he⟩

/-- **every archive of the reference encoder is opened with the same names, sizes, kinds and stored payloads** — including
    unused trailing index slots, over-long index sections and arbitrary compression codes (`d.WF`).  `hcap`: the header is
    below the allocation cap of the harness (1 GiB), above which the reader model answers `alloc`. -/
theorem C02_reader_accepts_ref (d : Spec.Desc) (h : d.WF) (hcap : Spec.headerLen d ≤ allocCap) :
    ∃ v : View, Vol.open (Spec.refEncode d) = .ok v ∧ v.count = d.members.length ∧
      v.names = d.members.map (·.name) ∧
      ∀ (i : Nat) (hi : i < d.members.length),
        v.name i = .ok d.members[i].name ∧ v.size i = .ok d.members[i].size ∧
        v.kind i = .ok d.members[i].comp ∧ v.stream i = .ok d.members[i].payload := by
  obtain ⟨v, h1, _, h3, h4, h5⟩ := open_refEncode d h hcap
  exact ⟨v, h1, h3, h4, h5⟩

/-! ## non-vacuity -/
example : Spec.StrictWF (Spec.refEncode ⟨[⟨[65], [1, 2, 3], 3, 256⟩, ⟨[98, 46, 99], [], 0, 256⟩], 0, 0⟩) :=
  ⟨_, by show Spec.Desc.strict _ = true; decide, rfl⟩
example : (⟨[⟨[97], [1, 2, 3], 3, 256⟩, ⟨[98], [4], 77, 259⟩], 1, 1⟩ : Spec.Desc).WF := by
  show Spec.Desc.wf _ = true; decide
example : ¬ Spec.StrictWF (Spec.refEncode ⟨[⟨[65], [1, 2, 3], 3, 259⟩], 0, 0⟩) := by decide
example : ∃ b, create [111] [⟨[100, 47, 98], .bytes [7]⟩, ⟨[65], .bytes [1, 2, 3]⟩] = .ok b ∧ Spec.strictWF b = true :=
  ⟨_, rfl, by decide⟩

end Op2.Vol
