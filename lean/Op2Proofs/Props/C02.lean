import Op2Model.Vol
import Op2Model.Gen.Constants
import Op2Model.Gen.Layout
/-! # C02 — written VOLs conform to the format; conforming VOLs are read (theorems; work in progress) -/
namespace Op2.Vol
open Op2

theorem C02_gen_entryLayout :
    Gen.Layout.off_VolIndexEntry_filenameOffset = 0 ∧ Gen.Layout.off_VolIndexEntry_dataBlockOffset = 4 ∧
    Gen.Layout.off_VolIndexEntry_fileSize = 8 ∧ Gen.Layout.off_VolIndexEntry_compressionType = 12 ∧
    Gen.Layout.size_VolIndexEntry = entrySize := by decide
theorem C02_gen_codes : Gen.Layout.vol_Uncompressed = uncompressed ∧ Gen.Layout.vol_LZH = lzh := by decide
theorem C02_gen_sectionHeader :
    Gen.Layout.size_VolSectionHeader = secSize ∧ Gen.Layout.mask_VolSectionHeader_length = lenMask ∧
    Gen.Layout.mask_VolSectionHeader_padding = padFlag := by decide

end Op2.Vol
