import Op2Proofs.Map.SpecEq
import Op2Proofs.Props.C16
import Op2Model.Gen.Layout
import Op2Model.Gen.Constants
import Op2Model.Gen.Formulas
/-!
# C06 — map read/write round-trips every field and is byte-stable (also after the public edits)

`read` = `Map::ReadMap(Stream::Reader&)`, `write` = `Map::Write(Stream::Writer&)`, the four edits = `SetCellType`,
`SetLavaPossible`, `SetVersionTag`, `TrimTilesetSources` (`Op2Model/Map.lean`).  A `Map` value holds every public field
(dimensions, version tag, saved-game flag, tiles, clip rectangle, tileset sources, mappings, terrain types, tile groups),
so `m = m'` below is equality in every field.  All statements are for **all** byte strings / all maps / all edit histories.
-/
namespace Op2.Props.C06
open Op2 Op2.Map Op2.Parser

/-! ## generated facts the model relies on -/

theorem C06_gen_layout :
    Gen.Layout.size_MapHeader = headerSize ∧ Gen.Layout.off_MapHeader_versionTag = 0 ∧
    Gen.Layout.off_MapHeader_bSavedGame = 4 ∧ Gen.Layout.off_MapHeader_lgWidthInTiles = 8 ∧
    Gen.Layout.off_MapHeader_heightInTiles = 12 ∧ Gen.Layout.off_MapHeader_tilesetCount = 16 ∧
    Gen.Layout.MinMapVersion = minMapVersion ∧ Gen.Layout.size_Tile = 4 ∧ Gen.Layout.size_Rect = rectSize ∧
    Gen.Layout.size_TileMapping = mappingSize ∧ Gen.Layout.size_TerrainType = terrainSize := by decide

theorem C06_gen_marker : Gen.Constants.map_tilesetHeader_scraped = true → Gen.Constants.map_tilesetHeader = marker.map (·.toNat) := by decide

/-- the writer's `Log2OfPowerOf2` / `IsPowerOf2` (as translated from the source) invert the reader's `1 << lg` -/
theorem C06_gen_log2 : (Gen.Formulas.gen_Log2OfPowerOf2_translated && Gen.Formulas.gen_IsPowerOf2_translated &&
      Gen.Formulas.gen_WidthInTiles_translated) = true → ∀ k : Nat, k < 32 →
    Gen.Formulas.gen_Log2OfPowerOf2 ((2 : Int) ^ k) = k ∧ Gen.Formulas.gen_IsPowerOf2 ((2 : Int) ^ k) = 1 ∧
    Gen.Formulas.gen_WidthInTiles (k : Int) = ((2 ^ k : Nat) : Int) := by decide

theorem C06_lgOf_inverts_width (k : Nat) (hk : k < 32) : lgOf (2 ^ k) = .ok k := lgOf_pow k hk

/-! ## what the reader returns is well-formed; what the writer emits is the frozen format -/

/-- every map the reader returns satisfies the format's well-formedness conditions -/
theorem C06_read_wf (b : Bytes) (m : Map) (n : Nat) (h : read b = .ok m n) : Spec.WF m := by
  obtain ⟨r, hp, _⟩ := outcome_ok h
  exact (pMap_wf hp).1

/-- on every well-formed map the writer succeeds and emits exactly the frozen description of the format -/
theorem C06_writer_conforms (m : Map) (h : Spec.WF m) : write m = .ok (Spec.encode m) := by
  obtain ⟨k, hk, hw⟩ := h.width
  rw [write_layout h k hk hw, layout_eq_encode h k hk hw]

/-- … and the reader accepts that file, returns the same map in every field, and consumes exactly the file
    (whatever follows it) -/
theorem C06_reader_accepts_spec (m : Map) (h : Spec.WF m) (junk : Bytes) :
    read (Spec.encode m ++ junk) = .ok m (Spec.encode m).length := by
  obtain ⟨k, hk, hw⟩ := h.width
  rw [← layout_eq_encode h k hk hw]
  have := outcome_of_ok (reads_layout m k hk hw h junk)
  unfold Map.read; rw [this]; simp

/-! ## round trip, stability, trailing bytes -/

/-- for every byte string the reader accepts: writing the map succeeds and reading the written bytes gives a map equal in
    every field, consuming all of them -/
theorem C06_rt_fields (b : Bytes) (m : Map) (n : Nat) (h : read b = .ok m n) :
    ∃ out, write m = .ok out ∧ read out = .ok m out.length := by
  have wf := C06_read_wf b m n h
  refine ⟨Spec.encode m, C06_writer_conforms m wf, ?_⟩
  simpa using C06_reader_accepts_spec m wf []

/-- writing is byte-stable from then on: re-reading what was written and writing again gives the same bytes -/
theorem C06_stable (b : Bytes) (m : Map) (n : Nat) (h : read b = .ok m n) (out : Bytes) (hw : write m = .ok out)
    (m2 : Map) (n2 : Nat) (h2 : read out = .ok m2 n2) : write m2 = .ok out := by
  obtain ⟨out', hw', hr'⟩ := C06_rt_fields b m n h
  rw [hw] at hw'; cases hw'
  rw [h2] at hr'; cases hr'
  exact hw

/-- trailing bytes are ignored: only the consumed prefix matters, whatever follows it -/
theorem C06_trailing (b : Bytes) (m : Map) (n : Nat) (h : read b = .ok m n) (junk : Bytes) :
    n ≤ b.length ∧ read (b.take n ++ junk) = .ok m n := by
  obtain ⟨r, hpb, rfl⟩ := outcome_ok h
  obtain ⟨hle, _⟩ := local_pMap.consumed hpb
  refine ⟨by omega, ?_⟩
  have e := outcome_of_ok (local_pMap.trailing hpb junk)
  unfold Map.read; rw [e]
  simp [List.length_take]

/-! ## the written bytes are the consumed bytes, except for the two regenerated words -/

/-- The bytes the reader consumed are `pre ++ flagWord ++ mid ++ unknownWord ++ groups` with the saved-game word at offset 4
    and the undocumented word right after the tile-group count; the writer emits the same `pre`, `mid`, `groups`, the flag
    as 0/1 and the undocumented word regenerated as (number of groups − 1). -/
theorem C06_bytes (b : Bytes) (m : Map) (n : Nat) (h : read b = .ok m n) :
    ∃ pre flagWord mid unkWord grp : Bytes,
      b.take n = pre ++ flagWord ++ mid ++ unkWord ++ grp ∧
      write m = .ok (pre ++ encU32 (if m.savedGame then 1 else 0) ++ mid ++ encU32 (m.groups.length - 1) ++ grp) ∧
      pre.length = 4 ∧ flagWord.length = 4 ∧ unkWord.length = 4 ∧ grp = m.groups.flatMap encGroup ∧
      (m.savedGame = true ↔ flagWord ≠ encU32 0) := by
  obtain ⟨r, hp, hn⟩ := outcome_ok h
  obtain ⟨wf, k, sg, unk, hk, hw, hsg, esg, hunk, ex⟩ := pMap_wf hp
  obtain ⟨hle, hr⟩ := local_pMap.consumed hp
  refine ⟨encU32 m.versionTag, encU32 sg,
    encU32 k ++ encU32 m.height ++ encU32 m.sources.length ++ bodyLayout m ++ encU32 m.versionTag ++ encU32 m.versionTag ++
      encU32 m.groups.length, encU32 unk, m.groups.flatMap encGroup, ?_, ?_, rfl, rfl, rfl, rfl, ?_⟩
  · have hlen : n = (b.length - r.length) := hn
    have : b = (encU32 m.versionTag ++ encU32 sg ++ (encU32 k ++ encU32 m.height ++ encU32 m.sources.length ++ bodyLayout m ++
        encU32 m.versionTag ++ encU32 m.versionTag ++ encU32 m.groups.length) ++ encU32 unk ++ m.groups.flatMap encGroup) ++ r := by
      conv => lhs; rw [ex]
      simp only [List.append_assoc]
    have hl : b.length - r.length = (encU32 m.versionTag ++ encU32 sg ++ (encU32 k ++ encU32 m.height ++ encU32 m.sources.length ++
        bodyLayout m ++ encU32 m.versionTag ++ encU32 m.versionTag ++ encU32 m.groups.length) ++ encU32 unk ++
        m.groups.flatMap encGroup).length := by
      have := congrArg List.length this
      rw [List.length_append] at this
      omega
    rw [hlen, hl]
    conv => lhs; arg 2; rw [this]
    exact List.take_left' rfl
  · rw [write_layout wf k hk hw]
    unfold layout encHeader encGroups
    rw [unknownWord_eq _ wf.ngrp]
    simp only [List.append_assoc]
  · rw [esg]
    constructor
    · intro hne heq
      have := congrArg decU32 heq
      rw [show encU32 sg = encU32 sg ++ [] by simp, show encU32 0 = encU32 0 ++ [] by simp,
        decU32_encU32 sg hsg, decU32_encU32 0 (by omega)] at this
      simp [this] at hne
    · intro hne
      cases hz : (sg != 0)
      · have : sg = 0 := by simpa using hz
        rw [this] at hne; exact absurd rfl hne
      · rfl

/-! ### the same as a function: `write m = normalise (consumed bytes)` -/

/-- what the writer normalises in a file that reads as `m`: the saved-game word (offset 4) becomes 0/1 and the word after
    the tile-group count (8 bytes of count + word, then the groups, end the file) becomes `count − 1` -/
def normalise (m : Map) (bs : Bytes) : Bytes :=
  setWord (setWord bs 4 (if m.savedGame then 1 else 0)) (bs.length - (m.groups.flatMap encGroup).length - 4) (m.groups.length - 1)

theorem C06_bytes_normalise (b : Bytes) (m : Map) (n : Nat) (h : read b = .ok m n) :
    write m = .ok (normalise m (b.take n)) := by
  obtain ⟨pre, fw, mid, uw, grp, e1, e2, l1, l2, l3, eg, _⟩ := C06_bytes b m n h
  rw [e2]; congr 1
  unfold normalise
  rw [e1]
  have s1 : setWord (pre ++ fw ++ mid ++ uw ++ grp) 4 (if m.savedGame then 1 else 0) =
      pre ++ encU32 (if m.savedGame then 1 else 0) ++ mid ++ uw ++ grp := by
    have := setWord_mid pre fw (mid ++ uw ++ grp) (if m.savedGame then 1 else 0) l2
    rw [l1] at this
    simpa [List.append_assoc] using this
  rw [s1]
  have hl : (pre ++ fw ++ mid ++ uw ++ grp).length - (m.groups.flatMap encGroup).length - 4 =
      (pre ++ encU32 (if m.savedGame then 1 else 0) ++ mid).length := by
    rw [← eg]; simp [List.length_append, l1, l2, l3, encU32_length]; omega
  rw [hl]
  have := setWord_mid (pre ++ encU32 (if m.savedGame then 1 else 0) ++ mid) uw grp (m.groups.length - 1) l3
  exact this.symm

/-! ## the public edits: each changes exactly what it names -/

/-- `SetCellType` with an acceptable value changes the tile list only, and there only the addressed tile, and of that tile
    only the cell-type field, which then reads back as the given value; an out-of-range value is refused and changes nothing -/
theorem C06_edit_frame_cellType (m m' : Map) (v x y : Nat) (h : setCellType m v x y = .ok (.ok m')) :
    v ≤ 31 ∧ m' = { m with tiles := m'.tiles } ∧ m'.tiles.length = m.tiles.length ∧
    (∀ j, j ≠ Tile.tileIndex m.height x y → m'.tiles[j]? = m.tiles[j]?) ∧
    (m'.tiles[Tile.tileIndex m.height x y]? = (m.tiles[Tile.tileIndex m.height x y]?).map (fun w => Tile.withCellType w v)) ∧
    (∀ w, Tile.cellTypeOf (Tile.withCellType w v) = v ∧ Tile.mappingIndexOf (Tile.withCellType w v) = Tile.mappingIndexOf w ∧
      Tile.unitIndexOf (Tile.withCellType w v) = Tile.unitIndexOf w ∧ Tile.lavaOf (Tile.withCellType w v) = Tile.lavaOf w ∧
      Tile.lavaPossibleOf (Tile.withCellType w v) = Tile.lavaPossibleOf w ∧
      Tile.expansionOf (Tile.withCellType w v) = Tile.expansionOf w ∧ Tile.microbeOf (Tile.withCellType w v) = Tile.microbeOf w ∧
      Tile.wallOf (Tile.withCellType w v) = Tile.wallOf w) := by
  unfold setCellType at h
  split at h
  · cases h
  · rename_i hv
    simp only [] at h
    split at h
    · cases h
      refine ⟨by omega, rfl, by simp [Tile.modifyAt], fun j hj => C16.C16_setter_touches_one_tile _ _ _ _ (Ne.symm hj),
        C16.C16_setter_hits_addressed_tile _ _ _, fun w => ?_⟩
      have f := C16.C16_cellType_set_frame w v
      exact ⟨C16.C16_cellType_get_set w v (by omega), f.1, f.2.1, f.2.2.1, f.2.2.2.1, f.2.2.2.2.1, f.2.2.2.2.2.1, f.2.2.2.2.2.2⟩
    · cases h

theorem C06_edit_cellType_refused (m : Map) (v x y : Nat) (hv : v > 31) : setCellType m v x y = .ok (.error .refused) := by
  unfold setCellType; rw [if_pos hv]

/-- `SetLavaPossible` changes only the lava-possible bit of the addressed tile -/
theorem C06_edit_frame_lava (m m' : Map) (b : Bool) (x y : Nat) (h : setLavaPossible m b x y = .ok m') :
    m' = { m with tiles := m'.tiles } ∧ m'.tiles.length = m.tiles.length ∧
    (∀ j, j ≠ Tile.tileIndex m.height x y → m'.tiles[j]? = m.tiles[j]?) ∧
    (m'.tiles[Tile.tileIndex m.height x y]? = (m.tiles[Tile.tileIndex m.height x y]?).map (fun w => Tile.withLavaPossible w b)) ∧
    (∀ w, Tile.lavaPossibleOf (Tile.withLavaPossible w b) = b ∧ Tile.cellTypeOf (Tile.withLavaPossible w b) = Tile.cellTypeOf w ∧
      Tile.mappingIndexOf (Tile.withLavaPossible w b) = Tile.mappingIndexOf w ∧
      Tile.unitIndexOf (Tile.withLavaPossible w b) = Tile.unitIndexOf w ∧ Tile.lavaOf (Tile.withLavaPossible w b) = Tile.lavaOf w ∧
      Tile.expansionOf (Tile.withLavaPossible w b) = Tile.expansionOf w ∧
      Tile.microbeOf (Tile.withLavaPossible w b) = Tile.microbeOf w ∧ Tile.wallOf (Tile.withLavaPossible w b) = Tile.wallOf w) := by
  unfold setLavaPossible at h
  simp only [] at h
  split at h
  · cases h
    refine ⟨rfl, by simp [Tile.modifyAt], fun j hj => C16.C16_setter_touches_one_tile _ _ _ _ (Ne.symm hj),
      C16.C16_setter_hits_addressed_tile _ _ _, fun w => ?_⟩
    have f := C16.C16_lava_set_frame w b
    exact ⟨C16.C16_lava_get_set w b, f.1, f.2.1, f.2.2.1, f.2.2.2.1, f.2.2.2.2.1, f.2.2.2.2.2.1, f.2.2.2.2.2.2⟩
  · cases h

/-- `SetVersionTag` changes the version tag and nothing else -/
theorem C06_edit_frame_versionTag (m : Map) (v : Nat) :
    setVersionTag m v = { m with versionTag := v } := rfl

/-- `TrimTilesetSources` changes the source list only: it keeps, in order, exactly the sources that have both a name and a
    non-zero tile count -/
theorem C06_edit_frame_trim (m : Map) :
    trimTilesetSources m = { m with sources := (trimTilesetSources m).sources } ∧
    (trimTilesetSources m).sources = m.sources.filter (fun s => s.numTiles != 0 && !s.name.isEmpty) ∧
    (trimTilesetSources m).sources.Sublist m.sources := by
  refine ⟨rfl, ?_, List.filter_sublist⟩
  unfold trimTilesetSources Source.isEmpty
  simp only []
  congr 1; funext s
  show (!(s.numTiles == 0 || s.name.isEmpty)) = (!(s.numTiles == 0) && !s.name.isEmpty)
  cases (s.numTiles == 0) <;> cases s.name.isEmpty <;> rfl

/-! ## the round trip holds after every finite sequence of edits -/

/-- maps reachable from `m0` by the public edits (coordinates inside the map — C16's subject —, cell types the setter
    accepts or refuses, version tags the format allows) -/
inductive Edited (m0 : Map) : Map → Prop
  | start : Edited m0 m0
  | cellType {m m' : Map} (v x y : Nat) : Edited m0 m → setCellType m v x y = .ok (.ok m') → Edited m0 m'
  | cellTypeRefused {m : Map} (v x y : Nat) : Edited m0 m → setCellType m v x y = .ok (.error .refused) → Edited m0 m
  | lava {m m' : Map} (b : Bool) (x y : Nat) : Edited m0 m → setLavaPossible m b x y = .ok m' → Edited m0 m'
  | versionTag {m : Map} (v : Nat) : Edited m0 m → minMapVersion ≤ v → v < W32 → Edited m0 (setVersionTag m v)
  | trim {m : Map} : Edited m0 m → Edited m0 (trimTilesetSources m)

theorem C06_edits_preserve_wf (m0 m : Map) (h0 : Spec.WF m0) (h : Edited m0 m) : Spec.WF m := by
  induction h with
  | start => exact h0
  | cellType v x y _ he ih => exact wf_setCellType ih he
  | cellTypeRefused v x y _ _ ih => exact ih
  | lava b x y _ he ih => exact wf_setLavaPossible ih he
  | versionTag v _ h1 h2 ih => exact wf_setVersionTag ih h1 h2
  | trim _ ih => exact wf_trim ih

/-- after any finite sequence of public edits on a map that was read: writing succeeds, emits the frozen format, reads back
    equal in every field consuming everything (with or without trailing bytes), and a second write gives the same bytes -/
theorem C06_rt_after_edits (b : Bytes) (m0 : Map) (n : Nat) (h : read b = .ok m0 n) (m : Map) (he : Edited m0 m) (junk : Bytes) :
    write m = .ok (Spec.encode m) ∧ read (Spec.encode m ++ junk) = .ok m (Spec.encode m).length := by
  have wf := C06_edits_preserve_wf m0 m (C06_read_wf b m0 n h) he
  exact ⟨C06_writer_conforms m wf, C06_reader_accepts_spec m wf junk⟩

/-- the excluded branch of `SetVersionTag`: a tag below `MinMapVersion` is written, and the written file is then refused by
    the reader (its documented refusal) -/
theorem C06_bad_tag_refused (m : Map) (wf : Spec.WF m) (v : Nat) (hv : v < minMapVersion) :
    ∃ out, write (setVersionTag m v) = .ok out ∧ ∃ e, read out = .err e := by
  obtain ⟨k, hk, hw⟩ := wf.width
  have hf : fits (setVersionTag m v) = true := (fits_of_wf wf : fits m = true)
  have hv32 : v < W32 := by unfold minMapVersion at hv; unfold W32; omega
  have hk32 : k < W32 := by unfold W32; omega
  refine ⟨layout (setVersionTag m v) k, ?_, .format, ?_⟩
  · unfold write
    show (match lgOf m.width with | .error e => _ | .ok lg => _) = _
    rw [hw, lgOf_pow k hk]
    simp only []
    rw [if_pos hf]
    simp only [layout, bodyLayout, List.append_assoc, setVersionTag]
  · apply outcome_of_err
    unfold pMap
    apply bind_err
    unfold layout pBeginning setVersionTag
    simp only [List.append_assoc]
    rw [bind_reads (reads_pHeader v m.savedGame k m.height m.sources.length hv32 hk32 wf.heightLt wf.nsrc)]
    simp only []
    rw [decide_eq_false (by omega : ¬ minMapVersion ≤ v)]
    rfl

/-! ## the writer refuses what does not fit its 32-bit size prefixes (the map part of C20) -/

/-- a container with more than 2^32 − 1 elements (tileset sources, a tileset or group name, mappings, terrain types, tile
    groups) makes `Map::Write` fail instead of writing a wrapped size -/
theorem C06_writer_refuses_oversize (m : Map) (h : fits m = false) : ∃ e, write m = .error e := by
  unfold write
  split
  · exact ⟨_, rfl⟩
  · rw [h]; exact ⟨_, rfl⟩

/-! ## non-vacuity -/

def sampleMap : Map :=
  { versionTag := 0x1011, savedGame := true, width := 2, height := 1, tiles := [0x12345678, 7], clip := zeros 16,
    sources := [⟨[119, 101, 108, 108, 48, 48, 48, 49], 40⟩, ⟨[], 0⟩, ⟨[120], 0⟩], mappings := [zeros 8], terrains := [],
    groups := [⟨[114, 111, 99, 107], 1, 2, [5, 6]⟩, ⟨[], 0, 7, []⟩] }

def patchAt (bs : Bytes) (off : Nat) (w : Bytes) : Bytes := bs.take off ++ w ++ bs.drop (off + w.length)

/-- a file whose saved-game word is 0x100 and whose undocumented word (40 bytes before the end: two groups of 24 and 12
    bytes follow it) is 99: accepted, and re-written normalised -/
def sampleFile : Bytes :=
  patchAt (patchAt (Spec.encode sampleMap) 4 (encU32 0x100)) ((Spec.encode sampleMap).length - 40) (encU32 99)

example : read sampleFile = .ok sampleMap sampleFile.length := by decide +kernel
example : sampleFile ≠ Spec.encode sampleMap := by decide +kernel
example : (write sampleMap).toOption = some (Spec.encode sampleMap) := by decide +kernel
example : read (Spec.encode sampleMap ++ [9, 9]) = .ok sampleMap (Spec.encode sampleMap).length := by decide +kernel
example : setCellType sampleMap 21 1 0 = .ok (.ok { sampleMap with tiles := [0x12345678, 21] }) := rfl
example : (trimTilesetSources sampleMap).sources = [⟨[119, 101, 108, 108, 48, 48, 48, 49], 40⟩] := by decide +kernel
example : ∃ e, read ((write (setVersionTag sampleMap 0x100F)).toOption.getD []) = .err e := ⟨.format, by decide +kernel⟩

end Op2.Props.C06
