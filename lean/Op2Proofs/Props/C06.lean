import Op2Model.Map
namespace Op2.Props.C06
theorem C06_placeholder : True := trivial
end Op2.Props.C06
