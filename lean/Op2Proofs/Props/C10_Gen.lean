import Op2Model.Prt
import Op2Proofs.GenGuards
/-!
# C10 / C20 (PRT) — the refusal conditions of `ArtFile::WriteFrame` and of one iteration of
`ArtFile::ValidateImageMetadata`, as regenerated from the current C++ (`Op2Model/Gen/Guards.lean`), are those of the
model (`Prt.writeFrame`, `Prt.imageOk`) for ALL values of the C++ types.

Ranges: the recorded layer count is a 7-bit field, `layers.size()` / `palettes.size()` are `size_t` (`< 2^63`),
`scanLineByteWidth` and `width` are `uint32_t`, `paletteIndex` is a `uint16_t`.
-/
set_option linter.unusedSimpArgs false
set_option linter.unusedVariables false
namespace Op2.Props.C10Gen
open Op2 Op2.Prt Op2.Gen.Guards Op2.GenTactics Op2.GenGuards

theorem writeFrame_refused (f : Frame) : refused (writeFrame f) = decide (f.layerMeta.count ≠ f.layers.length) := by
  simp only [writeFrame]
  by_cases h : f.layerMeta.count = f.layers.length <;> simp [h]

/-- `WriteFrame`: refused iff the recorded 7-bit count differs from the number of layers -/
theorem C10_gen_writeFrame_refuses : ArtFile_WriteFrame_guards_translated = true →
    ∀ (f : Frame), f.layerMeta.count < 128 → f.layers.length < 2 ^ 63 →
      ArtFile_WriteFrame_refuses f.layerMeta.count f.layers.length = refused (writeFrame f) := by
  gen_guard =>
    intro f h1 h2
    rw [writeFrame_refused]
    generalize f.layerMeta.count = c at *
    generalize f.layers.length = n at *
    unfold ArtFile_WriteFrame_refuses
    guard_beq
    guard_norm; omega

/-- `ValidateImageMetadata`, one image: refused iff the scan-line width is not the width rounded up to a multiple of 4
    (computed in 64 bits) or the palette index is not below the number of palettes — the negation of `Prt.imageOk` -/
theorem C10_gen_imageOk : ArtFile_ValidateImageMetadata_guards_translated = true →
    ∀ (np : Nat) (im : ImageMeta), im.scanLineByteWidth < W32 → im.width < W32 → im.paletteIndex < 65536 → np < 2 ^ 63 →
      ArtFile_ValidateImageMetadata_refuses im.scanLineByteWidth im.width im.paletteIndex np = !imageOk np im := by
  gen_guard =>
    intro np im h1 h2 h3 h4
    unfold imageOk
    generalize im.scanLineByteWidth = s at *
    generalize im.width = w at *
    generalize im.paletteIndex = p at *
    unfold ArtFile_ValidateImageMetadata_refuses
    guard_beq
    simp only [u64, W32, W64] at *
    guard_norm
    repeat rw [and_mask64 _ (by omega)]
    nowrap s; nowrap w; nowrap p
    omega

end Op2.Props.C10Gen
