import Op2Proofs.GenValidate
import Op2Proofs.Bmp.GenBridge
/-!
# C08 — bridging lemmas: the validation functions of `src/Bitmap/ImageHeader.cpp` and `src/Bitmap/BitmapFile.cpp`, as translated
from the current C++ on this run (`Op2Model/Gen/Validate.lean`), decide exactly what the hand-written model `Op2Model/Bmp.lean`
decides (`ImageHeader.Valid`, `verifyPixelSize`, `verifyPalette`, the `bitCount ≤ 8` guard of the reader and the writer), for
every value of the C++ field types.  `none` = the C++ function throws.
-/
set_option linter.unusedSimpArgs false
set_option linter.unusedVariables false
namespace Op2.Props.C08
open Op2 Op2.Bmp Op2.GenBridge Op2.GenValidate
open Op2.Gen.Validate

/-- `ImageHeader::IsValidBitCount(uint16_t)`: membership in the model's `validBitCounts`, for all 65536 arguments -/
theorem C08_gen_isValidBitCount : ImageHeader_IsValidBitCount_translated = true →
    ∀ bits : Nat, bits < 65536 →
      ImageHeader_IsValidBitCount bits = some (if bits ∈ validBitCounts then 1 else 0) := by
  gen_bridge =>
    intro bits hb
    gen_validate_simp [validBitCounts, List.mem_cons, List.mem_nil_iff, or_false]
    genv_norm
    genv_close

/-- `ImageHeader::IsIndexedImage(uint16_t)`: the model's guard `bitCount ≤ 8` -/
theorem C08_gen_isIndexedImage : ImageHeader_IsIndexedImage_translated = true →
    ∀ bits : Nat, bits < 65536 →
      ImageHeader_IsIndexedImage bits = some (if bits ≤ 8 then 1 else 0) := by
  gen_bridge =>
    intro bits hb
    gen_validate_unfold
    genv_norm
    genv_close

/-- `ImageHeader::CalcMaxIndexedPaletteSize` (static and member): throws above 8 bits, else `2 ^ bitCount` -/
theorem C08_gen_calcMaxIndexedPaletteSize :
    (ImageHeader_CalcMaxIndexedPaletteSize_translated && ImageHeader_CalcMaxIndexedPaletteSize0_translated) = true →
    ∀ bits : Nat, bits < 65536 →
      ImageHeader_CalcMaxIndexedPaletteSize bits = (if bits ≤ 8 then some ((2 ^ bits : Nat) : Int) else none) ∧
      ImageHeader_CalcMaxIndexedPaletteSize0 bits = (if bits ≤ 8 then some ((2 ^ bits : Nat) : Int) else none) := by
  gen_bridge =>
    intro bits hb
    by_cases h8 : bits ≤ 8
    · genv_bits bits h8 <;> (gen_validate_unfold; genv_norm; genv_shifts; and_intros <;> genv_close)
    · gen_validate_unfold
      genv_norm
      and_intros <;> genv_close

/-- the statement of `C08_gen_imageHeader_validate` on the fields (proved per indexed depth below: one declaration per case keeps
    each within the default heartbeat budget) -/
def ValidateAgrees (hs : Nat) (w ht : Int) (pl bits used imp : Nat) : Prop :=
  hs < 4294967296 → -2147483648 ≤ w → w ≤ 2147483647 → -2147483648 ≤ ht → ht ≤ 2147483647 → pl < 65536 → bits < 65536 →
    used < 4294967296 → imp < 4294967296 →
    ImageHeader_Validate hs w ht pl bits used imp =
      if (hs = 40 ∧ pl = 1 ∧ (bits = 1 ∨ bits = 4 ∨ bits = 8 ∨ bits = 16 ∨ bits = 24 ∨ bits = 32) ∧ 0 ≤ w ∧ ht ≠ -2147483648 ∧
          bits ≤ 8 ∧ used ≤ 2 ^ bits ∧ imp ≤ 2 ^ bits) then some () else none

theorem C08_gen_validate_1 : ImageHeader_Validate_translated = true →
    ∀ (hs : Nat) (w ht : Int) (pl used imp : Nat), ValidateAgrees hs w ht pl 1 used imp := by
  gen_bridge =>
    unfold ValidateAgrees; intro hs w ht pl used imp h1 h2 h3 h4 h5 h6 h7 h8 h9
    gen_validate_unfold; genv_norm; genv_shifts; genv_close
theorem C08_gen_validate_4 : ImageHeader_Validate_translated = true →
    ∀ (hs : Nat) (w ht : Int) (pl used imp : Nat), ValidateAgrees hs w ht pl 4 used imp := by
  gen_bridge =>
    unfold ValidateAgrees; intro hs w ht pl used imp h1 h2 h3 h4 h5 h6 h7 h8 h9
    gen_validate_unfold; genv_norm; genv_shifts; genv_close
theorem C08_gen_validate_8 : ImageHeader_Validate_translated = true →
    ∀ (hs : Nat) (w ht : Int) (pl used imp : Nat), ValidateAgrees hs w ht pl 8 used imp := by
  gen_bridge =>
    unfold ValidateAgrees; intro hs w ht pl used imp h1 h2 h3 h4 h5 h6 h7 h8 h9
    gen_validate_unfold; genv_norm; genv_shifts; genv_close
/-- elsewhere the palette limit `2 ^ bitCount` is never compared (the shift stays an atom) -/
theorem C08_gen_validate_other : ImageHeader_Validate_translated = true →
    ∀ (hs : Nat) (w ht : Int) (pl bits used imp : Nat), bits ≠ 1 ∧ bits ≠ 4 ∧ bits ≠ 8 → ValidateAgrees hs w ht pl bits used imp := by
  gen_bridge =>
    unfold ValidateAgrees; intro hs w ht pl bits used imp hne h1 h2 h3 h4 h5 h6 h7 h8 h9
    gen_validate_unfold; genv_norm; genv_close

/-- `ImageHeader::Validate` (with `VerifyValidBitCount`, `VerifyDimensions`, `CalcMaxIndexedPaletteSize` as it calls them): it
    returns exactly on the headers the model calls `Valid`, for every value of the seven fields it reads -/
theorem C08_gen_imageHeader_validate : ImageHeader_Validate_translated = true →
    ∀ h : ImageHeader, h.headerSize < W32 → I32_MIN ≤ h.width → h.width ≤ I32_MAX → I32_MIN ≤ h.height → h.height ≤ I32_MAX →
      h.planes < W16 → h.bitCount < W16 → h.used < W32 → h.important < W32 →
      ImageHeader_Validate h.headerSize h.width h.height h.planes h.bitCount h.used h.important = returns (decide h.Valid) := by
  gen_bridge hflag =>
    intro h
    obtain ⟨hs, w, ht, pl, bits, comp, isz, xr, yr, used, imp⟩ := h
    simp only [ImageHeader.Valid, I32_MIN, I32_MAX, W16, W32, sizeImageHeader, validBitCounts, List.mem_cons, List.mem_nil_iff, or_false,
      returns_decide]
    have hcases : bits = 1 ∨ bits = 4 ∨ bits = 8 ∨ (bits ≠ 1 ∧ bits ≠ 4 ∧ bits ≠ 8) := by omega
    rcases hcases with e | e | e | hne
    · subst e; exact C08_gen_validate_1 hflag hs w ht pl used imp
    · subst e; exact C08_gen_validate_4 hflag hs w ht pl used imp
    · subst e; exact C08_gen_validate_8 hflag hs w ht pl used imp
    · exact C08_gen_validate_other hflag hs w ht pl bits used imp hne

/-- `BitmapFile::VerifyPixelSizeMatchesImageDimensionsWithPitch(bitCount, width, height, n)` composed with the translated
    `CalculatePitch`: wherever the model sees no fault (`height ≠ INT32_MIN`, where `std::abs` is undefined) it returns
    exactly when the model's `verifyPixelSize` does — same pitch, same product in `size_t` -/
theorem C08_gen_verifyPixelSize :
    (BitmapFile_VerifyPixelSize_translated && Op2.Gen.Formulas.gen_CalcPixelByteWidth_translated) = true →
    ∀ (bits : Nat) (w h : Int) (n : Nat), bits < W16 → I32_MIN ≤ w → w ≤ I32_MAX → I32_MIN ≤ h → h ≤ I32_MAX → n < W64 →
      (verifyPixelSize bits w h n).isFault = false →
      BitmapFile_VerifyPixelSize bits w h n = returns (verifyPixelSize bits w h n).isOk := by
  gen_bridge =>
    intro bits w h n hb hw1 hw2 hh1 hh2 hn
    have hp := gen_CalculatePitch_eq bits w hb (by decide)
    have hmin : I32_MIN = -2147483648 := rfl
    have hmax : I32_MAX = 2147483647 := rfl
    simp only [verifyPixelSize, absI32]
    gen_validate_unfold
    rw [hp]
    generalize pitch bits w = p
    by_cases hm : h = I32_MIN
    · simp only [if_pos hm, Out.isFault]; intro hf; exact absurd hf (by decide)
    · intro _
      simp only [if_neg hm]
      have hq : ((p * h.natAbs : Nat) : Int) = (p : Int) * (h.natAbs : Int) := Int.natCast_mul p h.natAbs
      generalize hpa : p * h.natAbs = pa at *
      have hcast : ((h.natAbs : Nat) : Int) = if h < 0 then -h else h := by split <;> omega
      by_cases hc : n = pa % W64
      · simp only [if_pos hc, Out.isOk, returns_true]
        simp only [W64, W16] at hc hn hb
        genv_norm
        by_cases hneg : h < 0
        · simp only [if_pos hneg] at hcast ⊢; genv_close
        · simp only [if_neg hneg] at hcast ⊢; genv_close
      · simp only [if_neg hc, Out.isOk, returns_false]
        simp only [W64, W16] at hc hn hb
        genv_norm
        by_cases hneg : h < 0
        · simp only [if_pos hneg] at hcast ⊢; genv_close
        · simp only [if_neg hneg] at hcast ⊢; genv_close

/-- `BitmapFile::VerifyIndexedPaletteSizeDoesNotExceedBitCount(bitCount, paletteSize)`: the model's `verifyPalette` -/
theorem C08_gen_verifyPaletteSize : BitmapFile_VerifyIndexedPaletteSize_translated = true →
    ∀ f : Bmp, f.ih.bitCount < W16 → f.palette.length < W64 →
      BitmapFile_VerifyIndexedPaletteSize f.ih.bitCount f.palette.length = returns (verifyPalette f).isOk := by
  gen_bridge =>
    intro f
    simp only [verifyPalette, W16, W64, isOk_ite, returns_decide]
    generalize f.palette.length = n
    generalize f.ih.bitCount = bits
    intro hb hn
    by_cases hb8 : bits ≤ 8
    · genv_bits bits hb8 <;> (gen_validate_unfold; genv_norm; genv_shifts; genv_close)
    · gen_validate_unfold
      genv_norm
      genv_close

/-- `BitmapFile::VerifyIndexedImageForSerialization(bitCount)`: the guard `bitCount ≤ 8` of the model's reader
    (`Rd.imageHeader`) and writer (`write`) -/
theorem C08_gen_verifyIndexedForSerialization : BitmapFile_VerifyIndexedImageForSerialization_translated = true →
    ∀ bits : Nat, bits < W16 →
      BitmapFile_VerifyIndexedImageForSerialization bits = returns (decide (bits ≤ 8)) := by
  gen_bridge =>
    intro bits
    simp only [W16, returns, decide_eq_true_eq]
    intro hb
    gen_validate_unfold
    genv_norm
    genv_close

end Op2.Props.C08
