import Op2Proofs.Clm.Create
import Op2Model.Gen.Constants
/-!
# C05, part clm — the CLM reader and the WAV intake of CLM creation are safe on arbitrary bytes

Property theorems only (helper lemmas: `Op2Proofs/Clm/Walk.lean`, `Reader.lean`).
"Always returns" is the statement that the fuelled chunk walk never runs out of the fuel `len / 8 + 1`;
"never reads outside" is the statement that every read the model performs lies inside the file.
-/
namespace Op2.Props.C05_Clm
open Op2 Op2.Wave Op2.Clm

/-! ## the chunk walk always returns -/

/-- `FindChunk` on arbitrary bytes: some fuel not larger than `len / 8 + 1` suffices, whatever the chunk lengths say
    (files are shorter than 2^63 bytes: `off_t`) -/
theorem C05_walk_terminates (c : Content) (tag : Bytes) (hlen : c.len < 2 ^ 63) :
    ∃ fuel, fuel ≤ c.len / 8 + 1 ∧ walk cursorW c tag fuel riffHeaderSize ≠ .fuelOut := by
  refine ⟨c.len / 8 + 1, Nat.le_refl _, ?_⟩
  apply walk_terminates
  · unfold cursorW W64 W32; omega
  · unfold riffHeaderSize; omega

/-- … and the answer does not depend on how much more fuel is given -/
theorem C05_walk_fuel_independent (c : Content) (tag : Bytes) (fuel pos k : Nat)
    (h : walk cursorW c tag fuel pos ≠ .fuelOut) : walk cursorW c tag (fuel + k) pos = walk cursorW c tag fuel pos :=
  walk_fuel_mono cursorW c tag fuel pos k h

/-- arbitrary bytes offered as WAVs to CLM creation end in an error or an archive — never in a hang -/
theorem C05_create_returns (files : List (Bytes × Content)) (hlen : ∀ f ∈ files, f.2.len < 2 ^ 63) :
    create files ≠ .hang := create_ne_hang files hlen

/-- non-vacuity: on a real two-chunk file the walk passes a chunk and finds `data` -/
example : find ⟨tagRIFF ++ encU32 28 ++ tagWAVE ++ [0x4c, 0x49, 0x53, 0x54] ++ encU32 2 ++ [1, 2] ++ tagData ++ encU32 2 ++ [7, 8], 0⟩ tagData
    = .at 2 30 := by decide

/-! ## D9: the pinned 32-bit cursor does not have this property -/

/-- `RIFF` 20 `WAVE`, one chunk `junk` whose length field is 0xFFFFFFF8, 8 more bytes -/
def d9Witness : Content :=
  ⟨tagRIFF ++ encU32 20 ++ tagWAVE ++ [0x6a, 0x75, 0x6e, 0x6b] ++ encU32 0xFFFFFFF8 ++ zeros 8, 0⟩

/-- with `uint32_t currentPosition` (the pinned code) no amount of fuel is enough: position 12 is reached again and again -/
theorem C05_D9_32bit_cursor_never_returns : ∀ fuel, walk W32 d9Witness tagFmt fuel 12 = .fuelOut
  | 0 => rfl
  | fuel + 1 => by
    rw [walk_succ]
    have h1 : 12 + chunkHeaderSize ≤ d9Witness.len := by decide
    have h2 : ¬ (d9Witness.read 12 chunkHeaderSize).take 4 = tagFmt := by decide
    have h3 : (12 + (decU32 ((d9Witness.read 12 chunkHeaderSize).drop 4) + chunkHeaderSize)) % W32 = 12 := by decide
    rw [if_pos h1, if_neg h2, h3, if_pos (by decide)]
    exact C05_D9_32bit_cursor_never_returns fuel

/-- the same file is answered (refused) by the 64-bit cursor in one round -/
example : find d9Witness tagFmt = .none := by decide

/-! ## streams deliver exactly the recorded extent, or refuse — never short -/

/-- a stream that is delivered is exactly the file bytes at the extent the index entry records, all of them -/
theorem C05_stream_exact (v : View) (file : Bytes) (i : Nat) (b : Bytes) (h : v.stream file i = .ok b) :
    ∃ e, v.entries[i]? = some e ∧ e.off + e.len ≤ file.length ∧ b = (file.drop e.off).take e.len ∧ b.length = e.len := by
  unfold View.stream View.entry at h
  cases he : v.entries[i]? with
  | none => rw [he] at h; cases h
  | some e =>
    rw [he] at h
    simp only [bind, Except.bind] at h
    unfold extent at h
    split at h
    · rename_i hin
      injection h with h
      refine ⟨e, rfl, hin, h.symm, ?_⟩
      rw [← h, List.length_take, List.length_drop]; omega
    · cases h

/-- a member whose recorded extent does not lie inside the file is refused -/
theorem C05_stream_refuses_outside (v : View) (file : Bytes) (i : Nat) (e : Entry)
    (he : v.entries[i]? = some e) (hout : file.length < e.off + e.len) : v.stream file i = .error .bounds := by
  unfold View.stream View.entry
  rw [he]
  simp only [bind, Except.bind]
  unfold extent
  rw [if_neg (by omega)]

/-- an index beyond the member count is refused by every call -/
theorem C05_index_out_of_bounds (v : View) (file : Bytes) (i : Nat) (h : v.count ≤ i) :
    v.name i = .error .bounds ∧ v.size i = .error .bounds ∧ v.stream file i = .error .bounds ∧
    v.extractWav file i = .error .bounds := by
  have he : v.entries[i]? = none := List.getElem?_eq_none (by unfold View.count at h; omega)
  unfold View.name View.size View.stream View.extractWav View.entry
  rw [he]
  exact ⟨rfl, rfl, rfl, rfl⟩

/-- extraction writes the 46-byte header followed by exactly the recorded extent, or refuses -/
theorem C05_extract_exact (v : View) (file : Bytes) (i : Nat) (w : Bytes) (h : v.extractWav file i = .ok w) :
    ∃ e, v.entries[i]? = some e ∧ e.off + e.len ≤ file.length ∧ w = wavHeader v.fmt e.len ++ (file.drop e.off).take e.len := by
  unfold View.extractWav View.entry at h
  cases he : v.entries[i]? with
  | none => rw [he] at h; cases h
  | some e =>
    rw [he] at h
    simp only [bind, Except.bind] at h
    by_cases hin : e.off + e.len ≤ file.length
    · unfold extent at h
      rw [if_pos hin] at h
      simp only [pure, Except.pure] at h
      injection h with h
      exact ⟨e, rfl, hin, h.symm⟩
    · unfold extent at h
      rw [if_neg hin] at h
      cases h

/-! ## opening reads only inside the file, and the view is what the file records -/

/-- a file is opened only when the whole header and the whole index (as many entries as the header announces) lie inside it;
    entry `i` of the view is the 16 bytes at `60 + 16 i` -/
theorem C05_open_reads_inside (b : Bytes) (v : View) (h : Clm.open b = .ok v) :
    60 + 16 * v.count ≤ b.length ∧ v.count = decU32 (b.drop 56) ∧
    ∀ i, i < v.count → v.entries[i]? =
      some ⟨(b.drop (60 + 16 * i)).take 8, decU32 (b.drop (60 + 16 * i + 8)), decU32 (b.drop (60 + 16 * i + 12))⟩ := by
  obtain ⟨_, _, _, _, h5, rfl⟩ := open_ok h
  have hc : View.count ⟨(b.drop 32).take 18, parseEntries (decU32 (b.drop 56)) (b.drop headerSize)⟩ = decU32 (b.drop 56) := by
    simp [View.count, parseEntries_length]
  rw [hc]
  refine ⟨by unfold headerSize entrySize at h5; omega, rfl, ?_⟩
  intro i hi
  simp only
  rw [parseEntries_get _ _ i hi]
  simp only [List.drop_drop, headerSize]
  have e1 : 60 + 16 * i + 8 = 60 + (16 * i + 8) := by omega
  have e2 : 60 + 16 * i + 12 = 60 + (16 * i + 12) := by omega
  rw [e1, e2]

/-- every prefix that cuts into the header or the index is refused -/
theorem C05_truncated_refused (b : Bytes) (v : View) (h : Clm.open b = .ok v) (k : Nat) (hk : k < 60 + 16 * v.count) :
    ∀ v', Clm.open (b.take k) ≠ .ok v' := by
  intro v' h'
  have a := C05_open_reads_inside b v h
  have a' := C05_open_reads_inside (b.take k) v' h'
  have hlen : (b.take k).length = min k b.length := List.length_take
  have h60 : 60 ≤ k := by omega
  -- the count field lies inside the common prefix
  have hcnt : decU32 ((b.take k).drop 56) = decU32 (b.drop 56) := by
    have : (b.take k).drop 56 = (b.drop 56).take (k - 56) := by rw [List.drop_take]
    rw [this]
    have hl : 4 ≤ ((b.drop 56).take (k - 56)).length := by rw [List.length_take, List.length_drop]; omega
    have hl2 : 4 ≤ (b.drop 56).length := by rw [List.length_drop]; omega
    generalize b.drop 56 = t at hl hl2 ⊢
    match t, hl2 with
    | x0 :: x1 :: x2 :: x3 :: rest, _ =>
      have : k - 56 = (k - 60) + 4 := by omega
      rw [this]
      simp [List.take, decU32]
  rw [a'.2.1, hcnt, ← a.2.1] at a'
  omega

/-! ## calls do not change the archive object -/

/-- the opened archive is a value: a call's outcome is a function of the view, the file and the call's own argument, so
    a failed (or any) call cannot influence a later one.  (The C++ object keeps no mutable state after construction —
    every stream is served by a fresh `FileReader`; the tie to the code is the long-lived-vs-fresh comparison of the
    correspondence run.) -/
theorem C05_history_independent (v : View) (file : Bytes) (before : List Nat) (i : Nat) :
    (before.map (fun j => v.stream file j), v.stream file i).2 = v.stream file i := rfl

/-! ## bridging lemmas -/

/-- the cursor of `FindChunk` in the current source has the width the model uses -/
theorem C05_gen_cursor_width : Gen.Constants.clm_cursorBits_scraped = true → 2 ^ Gen.Constants.clm_cursorBits = Wave.cursorW := by decide

end Op2.Props.C05_Clm
