import Op2Model.Determ
import Op2Model.Gen.Layout
import Op2Proofs.Props.C01
import Op2Proofs.Props.C03
/-!
# C18 — serialised bytes and parsed values depend only on the logical input

Three ingredients: (1) no byte of any record the library builds and serialises comes from prior memory content
(measured masks are empty, hence the image is independent of the garbage oracle — and the converse shows an empty mask
is exactly what is needed); (2) archives do not depend on the order the inputs are listed in (C01_perm,
C03_order_independent); (3) every serialiser / parser model in this development is a function of the logical input
alone (no garbage parameter reaches them), tied to the code by running every scenario in processes with different
heap and stack garbage.
-/
namespace Op2.Props.C18
open Op2 Op2.Determ

/-- with nothing left unassigned the image does not depend on what the memory held -/
theorem image_indep (g g' : Nat → UInt8) (assigned : Bytes) : image g assigned [] = image g' assigned [] := by
  unfold image; simp

/-- and a single unassigned byte inside the record makes the image depend on it -/
theorem image_dep (assigned : Bytes) (uninit : List Nat) (i : Nat) (hi : i ∈ uninit) (hlt : i < assigned.length) :
    ∃ g g' : Nat → UInt8, image g assigned uninit ≠ image g' assigned uninit := by
  refine ⟨fun _ => 0, fun _ => 1, ?_⟩
  intro h
  have := congrArg (fun l => l.getD i 7) h
  simp only [image] at this
  have hc : uninit.contains i = true := by simpa using hi
  simp [List.getD_eq_getElem?_getD, hlt] at this
  rw [if_pos hi, if_pos hi] at this
  exact absurd this (by decide)

/-- **measured on every run**: no record the library builds and serialises has a byte its constructor / factory does
    not assign — section headers, index entries, CLM and WAV headers, map header, BMP and image headers, tileset and
    palette headers, and the files written from the default-constructed `Map` and `ArtFile` -/
theorem C18_gen_no_uninitialised_bytes :
    Gen.Layout.uninit_VolSectionHeader = [] ∧ Gen.Layout.uninit_VolIndexEntry = [] ∧ Gen.Layout.uninit_ClmHeader = [] ∧
    Gen.Layout.uninit_ClmIndexEntry = [] ∧ Gen.Layout.uninit_WaveHeader = [] ∧ Gen.Layout.uninit_MapHeader = [] ∧
    Gen.Layout.uninit_BmpHeader = [] ∧ Gen.Layout.uninit_ImageHeader = [] ∧ Gen.Layout.uninit_TilesetHeader = [] ∧
    Gen.Layout.uninit_PpalHeader = [] ∧ Gen.Layout.uninit_PaletteHeader = [] ∧ Gen.Layout.uninit_SpriteSectionHeader = [] ∧
    Gen.Layout.uninit_DefaultMapWritten = [] ∧ Gen.Layout.uninit_DefaultArtFileWritten = [] := by decide

/-- hence: whatever the fresh heap or stack memory held, the serialised image of each of these records is the same -/
theorem C18_records_independent_of_garbage (g g' : Nat → UInt8) (assigned : Bytes) :
    image g assigned Gen.Layout.uninit_VolSectionHeader = image g' assigned Gen.Layout.uninit_VolSectionHeader ∧
    image g assigned Gen.Layout.uninit_VolIndexEntry = image g' assigned Gen.Layout.uninit_VolIndexEntry ∧
    image g assigned Gen.Layout.uninit_ClmHeader = image g' assigned Gen.Layout.uninit_ClmHeader ∧
    image g assigned Gen.Layout.uninit_ClmIndexEntry = image g' assigned Gen.Layout.uninit_ClmIndexEntry ∧
    image g assigned Gen.Layout.uninit_WaveHeader = image g' assigned Gen.Layout.uninit_WaveHeader ∧
    image g assigned Gen.Layout.uninit_MapHeader = image g' assigned Gen.Layout.uninit_MapHeader ∧
    image g assigned Gen.Layout.uninit_BmpHeader = image g' assigned Gen.Layout.uninit_BmpHeader ∧
    image g assigned Gen.Layout.uninit_ImageHeader = image g' assigned Gen.Layout.uninit_ImageHeader ∧
    image g assigned Gen.Layout.uninit_TilesetHeader = image g' assigned Gen.Layout.uninit_TilesetHeader ∧
    image g assigned Gen.Layout.uninit_PpalHeader = image g' assigned Gen.Layout.uninit_PpalHeader ∧
    image g assigned Gen.Layout.uninit_PaletteHeader = image g' assigned Gen.Layout.uninit_PaletteHeader ∧
    image g assigned Gen.Layout.uninit_SpriteSectionHeader = image g' assigned Gen.Layout.uninit_SpriteSectionHeader ∧
    image g assigned Gen.Layout.uninit_DefaultMapWritten = image g' assigned Gen.Layout.uninit_DefaultMapWritten ∧
    image g assigned Gen.Layout.uninit_DefaultArtFileWritten = image g' assigned Gen.Layout.uninit_DefaultArtFileWritten := by
  obtain ⟨h1, h2, h3, h4, h5, h6, h7, h8, h9, h10, h11, h12, h13, h14⟩ := C18_gen_no_uninitialised_bytes
  rw [h1, h2, h3, h4, h5, h6, h7, h8, h9, h10, h11, h12, h13, h14]
  exact ⟨image_indep _ _ _, image_indep _ _ _, image_indep _ _ _, image_indep _ _ _, image_indep _ _ _, image_indep _ _ _,
    image_indep _ _ _, image_indep _ _ _, image_indep _ _ _, image_indep _ _ _, image_indep _ _ _, image_indep _ _ _,
    image_indep _ _ _, image_indep _ _ _⟩

/-- the volume bytes (or the refusal) do not depend on the order in which the inputs are listed -/
theorem C18_vol_order_independent (out : Bytes) (files files' : List Vol.InFile) (hp : files.Perm files') :
    Vol.create out files = Vol.create out files' :=
  Op2.Vol.C01_perm out files files' hp

/-- nor do the clump bytes -/
theorem C18_clm_order_independent (files files' : List (Bytes × Content)) (hperm : files.Perm files')
    (hdistinct : Str.NoDupCI (fun f : Bytes × Content => Path.getFilename f.1) files) : Clm.create files = Clm.create files' :=
  Op2.Props.C03.C03_order_independent files files' hperm hdistinct

/-- non-vacuity of the converse: a record with one unassigned byte does depend on the garbage -/
example : ∃ g g' : Nat → UInt8, image g [1, 2, 3] [1] ≠ image g' [1, 2, 3] [1] :=
  image_dep [1, 2, 3] [1] 1 (by simp) (by simp)

end Op2.Props.C18
