import Op2Model.Determ
import Op2Model.Gen.Layout
import Op2Proofs.Props.C01
import Op2Proofs.Props.C03
import Op2Proofs.PathSpelling
/-!
# C18 — serialised bytes and parsed values depend only on the logical input

Three ingredients: (1) no byte of any record the library builds and serialises comes from prior memory content
(measured masks are empty, hence the image is independent of the garbage oracle — and the converse shows an empty mask
is exactly what is needed); (2) archives do not depend on the order the inputs are listed in (C01_perm,
C03_order_independent); (3) every serialiser / parser model in this development is a function of the logical input
alone (no garbage parameter reaches them), tied to the code by running every scenario in processes with different
heap and stack garbage; (4) archives do not depend on how the input paths are spelled (`C18_vol_spelling`,
`C18_clm_spelling`): the writers look at an input path only through `XFile::GetFilename`, with the single exception of the
`PathsAreEqual(output, input)` refusal of the VOL writer, which is the stated side condition.
-/
namespace Op2.Props.C18
open Op2 Op2.Determ

/-- with nothing left unassigned the image does not depend on what the memory held -/
theorem image_indep (g g' : Nat → UInt8) (assigned : Bytes) : image g assigned [] = image g' assigned [] := by
  unfold image; simp

/-- and a single unassigned byte inside the record makes the image depend on it -/
theorem image_dep (assigned : Bytes) (uninit : List Nat) (i : Nat) (hi : i ∈ uninit) (hlt : i < assigned.length) :
    ∃ g g' : Nat → UInt8, image g assigned uninit ≠ image g' assigned uninit := by
  refine ⟨fun _ => 0, fun _ => 1, ?_⟩
  intro h
  have := congrArg (fun l => l.getD i 7) h
  simp only [image] at this
  have hc : uninit.contains i = true := by simpa using hi
  simp [List.getD_eq_getElem?_getD, hlt] at this
  rw [if_pos hi, if_pos hi] at this
  exact absurd this (by decide)

/-- **measured on every run**: no record the library builds and serialises has a byte its constructor / factory does
    not assign — section headers, index entries, CLM and WAV headers, map header, BMP and image headers, tileset and
    palette headers, and the files written from the default-constructed `Map` and `ArtFile` -/
theorem C18_gen_no_uninitialised_bytes :
    Gen.Layout.uninit_VolSectionHeader = [] ∧ Gen.Layout.uninit_VolIndexEntry = [] ∧ Gen.Layout.uninit_ClmHeader = [] ∧
    Gen.Layout.uninit_ClmIndexEntry = [] ∧ Gen.Layout.uninit_WaveHeader = [] ∧ Gen.Layout.uninit_MapHeader = [] ∧
    Gen.Layout.uninit_BmpHeader = [] ∧ Gen.Layout.uninit_ImageHeader = [] ∧ Gen.Layout.uninit_TilesetHeader = [] ∧
    Gen.Layout.uninit_PpalHeader = [] ∧ Gen.Layout.uninit_PaletteHeader = [] ∧ Gen.Layout.uninit_SpriteSectionHeader = [] ∧
    Gen.Layout.uninit_DefaultMapWritten = [] ∧ Gen.Layout.uninit_DefaultArtFileWritten = [] := by decide

/-- hence: whatever the fresh heap or stack memory held, the serialised image of each of these records is the same -/
theorem C18_records_independent_of_garbage (g g' : Nat → UInt8) (assigned : Bytes) :
    image g assigned Gen.Layout.uninit_VolSectionHeader = image g' assigned Gen.Layout.uninit_VolSectionHeader ∧
    image g assigned Gen.Layout.uninit_VolIndexEntry = image g' assigned Gen.Layout.uninit_VolIndexEntry ∧
    image g assigned Gen.Layout.uninit_ClmHeader = image g' assigned Gen.Layout.uninit_ClmHeader ∧
    image g assigned Gen.Layout.uninit_ClmIndexEntry = image g' assigned Gen.Layout.uninit_ClmIndexEntry ∧
    image g assigned Gen.Layout.uninit_WaveHeader = image g' assigned Gen.Layout.uninit_WaveHeader ∧
    image g assigned Gen.Layout.uninit_MapHeader = image g' assigned Gen.Layout.uninit_MapHeader ∧
    image g assigned Gen.Layout.uninit_BmpHeader = image g' assigned Gen.Layout.uninit_BmpHeader ∧
    image g assigned Gen.Layout.uninit_ImageHeader = image g' assigned Gen.Layout.uninit_ImageHeader ∧
    image g assigned Gen.Layout.uninit_TilesetHeader = image g' assigned Gen.Layout.uninit_TilesetHeader ∧
    image g assigned Gen.Layout.uninit_PpalHeader = image g' assigned Gen.Layout.uninit_PpalHeader ∧
    image g assigned Gen.Layout.uninit_PaletteHeader = image g' assigned Gen.Layout.uninit_PaletteHeader ∧
    image g assigned Gen.Layout.uninit_SpriteSectionHeader = image g' assigned Gen.Layout.uninit_SpriteSectionHeader ∧
    image g assigned Gen.Layout.uninit_DefaultMapWritten = image g' assigned Gen.Layout.uninit_DefaultMapWritten ∧
    image g assigned Gen.Layout.uninit_DefaultArtFileWritten = image g' assigned Gen.Layout.uninit_DefaultArtFileWritten := by
  obtain ⟨h1, h2, h3, h4, h5, h6, h7, h8, h9, h10, h11, h12, h13, h14⟩ := C18_gen_no_uninitialised_bytes
  rw [h1, h2, h3, h4, h5, h6, h7, h8, h9, h10, h11, h12, h13, h14]
  exact ⟨image_indep _ _ _, image_indep _ _ _, image_indep _ _ _, image_indep _ _ _, image_indep _ _ _, image_indep _ _ _,
    image_indep _ _ _, image_indep _ _ _, image_indep _ _ _, image_indep _ _ _, image_indep _ _ _, image_indep _ _ _,
    image_indep _ _ _, image_indep _ _ _⟩

/-- the volume bytes (or the refusal) do not depend on the order in which the inputs are listed -/
theorem C18_vol_order_independent (out : Bytes) (files files' : List Vol.InFile) (hp : files.Perm files') :
    Vol.create out files = Vol.create out files' :=
  Op2.Vol.C01_perm out files files' hp

/-- nor do the clump bytes -/
theorem C18_clm_order_independent (files files' : List (Bytes × Content)) (hperm : files.Perm files')
    (hdistinct : Str.NoDupCI (fun f : Bytes × Content => Path.getFilename f.1) files) : Clm.create files = Clm.create files' :=
  Op2.Props.C03.C03_order_independent files files' hperm hdistinct


/-! ## path spelling -/

/-- two spellings of one logical VOL input: same final path component (`XFile::GetFilename`), same content -/
def SameVolInput (f g : Vol.InFile) : Prop := Path.getFilename f.path = Path.getFilename g.path ∧ f.content = g.content

/-- two spellings of one logical CLM input -/
def SameClmInput (f g : Bytes × Content) : Prop := Path.getFilename f.1 = Path.getFilename g.1 ∧ f.2 = g.2

/-- the spellings the property speaks of: a plain name `n` (non-empty, no '/'), given bare or behind any directory part
    `dir/` with `dir ≠ "/"` — `a/x.txt`, `./x.txt`, `./d/e/x.txt`, `/abs//x.txt` … — has the same file name -/
theorem getFilename_spelled (dir n : Bytes) (hn : Path.Plain n) (hd : dir ≠ [Path.sep]) :
    Path.getFilename (dir ++ [Path.sep] ++ n) = Path.getFilename n := by
  rw [List.append_assoc, List.singleton_append]
  exact Path.getFilename_dir dir n hn hd

theorem sameVolInput_spelled (dir n : Bytes) (c : Vol.Content) (hn : Path.Plain n) (hd : dir ≠ [Path.sep]) :
    SameVolInput ⟨n, c⟩ ⟨dir ++ [Path.sep] ++ n, c⟩ := ⟨(getFilename_spelled dir n hn hd).symm, rfl⟩

theorem sameClmInput_spelled (dir n : Bytes) (c : Content) (hn : Path.Plain n) (hd : dir ≠ [Path.sep]) :
    SameClmInput (n, c) (dir ++ [Path.sep] ++ n, c) := ⟨(getFilename_spelled dir n hn hd).symm, rfl⟩

/-- equal length, and entry by entry two spellings of the same logical input -/
def SpelledAs {α : Type} (same : α → α → Prop) (files files' : List α) : Prop :=
  files.length = files'.length ∧ ∀ (i : Nat) (h : i < files.length) (h' : i < files'.length), same files[i] files'[i]

theorem vol_logical_eq {files files' : List Vol.InFile} (h : SpelledAs SameVolInput files files') :
    files.map Vol.logical = files'.map Vol.logical := by
  apply List.ext_getElem
  · rw [List.length_map, List.length_map, h.1]
  · intro i h1 h2
    rw [List.length_map] at h1 h2
    rw [List.getElem_map, List.getElem_map]
    unfold Vol.logical
    rw [(h.2 i h1 h2).1, (h.2 i h1 h2).2]

theorem clm_logical_eq {files files' : List (Bytes × Content)} (h : SpelledAs SameClmInput files files') :
    files.map Clm.logical = files'.map Clm.logical := by
  apply List.ext_getElem
  · rw [List.length_map, List.length_map, h.1]
  · intro i h1 h2
    rw [List.length_map] at h1 h2
    rw [List.getElem_map, List.getElem_map]
    unfold Clm.logical
    rw [(h.2 i h1 h2).1, (h.2 i h1 h2).2]

/-- the VOL writer looks at its inputs only through `(GetFilename(path), content)`, except for the test whether the
    output path names one of the inputs: with the same outcome of that test, two lists of inputs that agree entry by
    entry in file name and content give the same archive bytes, or the same refusal (duplicate names, sizes, name-table
    and offset overflows, empty output path: all covered) -/
theorem C18_vol_spelling_gate (out : Bytes) (files files' : List Vol.InFile)
    (hsame : SpelledAs SameVolInput files files')
    (hgate : files.any (fun f => Path.pathsAreEqual out f.path) = files'.any (fun f => Path.pathsAreEqual out f.path)) :
    Vol.create out files = Vol.create out files' := by
  rw [Vol.create_factors out files, Vol.create_factors out files', vol_logical_eq hsame]
  unfold Vol.outClash
  rw [hgate]

/-- **the VOL archive does not depend on how the input paths are spelled**: two lists of equal length whose i-th entries
    have the same `GetFilename` and the same content give the same archive bytes — or the same refusal — provided the
    output path is not `PathsAreEqual` to an input path in either spelling (that refusal does depend on the spelling) -/
theorem C18_vol_spelling (out : Bytes) (files files' : List Vol.InFile)
    (hsame : SpelledAs SameVolInput files files')
    (hout : files.any (fun f => Path.pathsAreEqual out f.path) = false)
    (hout' : files'.any (fun f => Path.pathsAreEqual out f.path) = false) :
    Vol.create out files = Vol.create out files' :=
  C18_vol_spelling_gate out files files' hsame (hout.trans hout'.symm)

/-- without any side condition: whenever both spellings are accepted, the bytes are the same; and when one spelling is
    accepted and the other is not, the refused one has an input that is `PathsAreEqual` to the output path -/
theorem C18_vol_spelling_any (out : Bytes) (files files' : List Vol.InFile)
    (hsame : SpelledAs SameVolInput files files') :
    (∀ b b', Vol.create out files = .ok b → Vol.create out files' = .ok b' → b = b') ∧
    (∀ b e, Vol.create out files = .ok b → Vol.create out files' = .error e →
      e = .refused ∧ files'.any (fun f => Path.pathsAreEqual out f.path) = true) := by
  rw [Vol.create_factors out files, Vol.create_factors out files', vol_logical_eq hsame]
  unfold Vol.outClash
  cases Vol.createCore (files'.map Vol.logical) with
  | error e => exact ⟨fun _ _ h => (nomatch h), fun _ _ h => (nomatch h)⟩
  | ok c =>
    simp only []
    by_cases h1 : files.any (fun f => Path.pathsAreEqual out f.path) = true
    · rw [if_pos h1]; exact ⟨fun _ _ h => (nomatch h), fun _ _ h => (nomatch h)⟩
    · rw [if_neg h1]
      by_cases h0 : out.isEmpty = true
      · rw [if_pos h0]; exact ⟨fun _ _ h => (nomatch h), fun _ _ h => (nomatch h)⟩
      · rw [if_neg h0]
        by_cases h2 : files'.any (fun f => Path.pathsAreEqual out f.path) = true
        · rw [if_pos h2]
          refine ⟨fun _ _ _ h => (nomatch h), fun _ e _ h => ?_⟩
          cases h; exact ⟨rfl, h2⟩
        · rw [if_neg h2]
          refine ⟨fun b b' h h' => ?_, fun _ _ _ h => nomatch h⟩
          cases h; cases h'; rfl

/-! ### non-vacuity: three files, given bare and as `d/a.txt`, `./B.bin`, `./d/e//c` -/

def exBare : List Vol.InFile :=
  [⟨[97, 46, 116, 120, 116], .bytes [1, 2, 3]⟩, ⟨[66, 46, 98, 105, 110], .bytes []⟩, ⟨[99], .zeros 5⟩]
def exSpelled : List Vol.InFile :=
  [⟨[100, 47, 97, 46, 116, 120, 116], .bytes [1, 2, 3]⟩, ⟨[46, 47, 66, 46, 98, 105, 110], .bytes []⟩, ⟨[46, 47, 100, 47, 101, 47, 47, 99], .zeros 5⟩]
/-- `o.vol` -/
def exOut : Bytes := [111, 46, 118, 111, 108]

/-- the hypotheses of `C18_vol_spelling` hold for this pair … -/
example : SpelledAs SameVolInput exBare exSpelled ∧
    exBare.any (fun f => Path.pathsAreEqual exOut f.path) = false ∧
    exSpelled.any (fun f => Path.pathsAreEqual exOut f.path) = false := by
  refine ⟨⟨rfl, fun i h h' => ?_⟩, by decide, by decide⟩
  match i, h, h' with
  | 0, _, _ => exact sameVolInput_spelled [100] [97, 46, 116, 120, 116] _ (by decide) (by decide)
  | 1, _, _ => exact sameVolInput_spelled [46] [66, 46, 98, 105, 110] _ (by decide) (by decide)
  | 2, _, _ => exact sameVolInput_spelled [46, 47, 100, 47, 101, 47] [99] _ (by decide) (by decide)
set_option maxRecDepth 8192 in
/-- … the archive is written, and is the same for both spellings (evaluated, not deduced) -/
example : (Vol.create exOut exBare).toOption = (Vol.create exOut exSpelled).toOption ∧
    ((Vol.create exOut exBare).toOption.map List.length) = some 132 := by decide
/-- a refusal that does not concern the output path is the same too: `a.txt` twice, once as `d/A.TXT` -/
example : (Vol.create exOut (⟨[65, 46, 84, 88, 84], .bytes []⟩ :: exBare)).toOption = none ∧
    (Vol.create exOut (⟨[100, 47, 65, 46, 84, 88, 84], .bytes []⟩ :: exSpelled)).toOption = none := by decide
/-- **the side condition is needed**: with the output path `d/a.txt` the bare spelling is packed and the spelling that
    contains `d/a.txt` is refused -/
example : (Vol.create [100, 47, 97, 46, 116, 120, 116] exBare).toOption.isSome = true ∧
    (Vol.create [100, 47, 97, 46, 116, 120, 116] exSpelled).toOption = none ∧
    exBare.any (fun f => Path.pathsAreEqual [100, 47, 97, 46, 116, 120, 116] f.path) = false ∧
    exSpelled.any (fun f => Path.pathsAreEqual [100, 47, 97, 46, 116, 120, 116] f.path) = true := by decide
/-- … and so does the bare output path `a.txt` against the spelling `./a.txt` (`PathsAreEqual` drops a leading `./`)
    but not against `d/a.txt` -/
example : (Vol.create [97, 46, 116, 120, 116] [⟨[46, 47, 97, 46, 116, 120, 116], .bytes [7]⟩]).toOption = none ∧
    (Vol.create [97, 46, 116, 120, 116] [⟨[100, 47, 97, 46, 116, 120, 116], .bytes [7]⟩]).toOption.isSome = true := by decide

/-- **the CLM archive does not depend on how the input paths are spelled** — unconditionally (the CLM writer is not
    given the output path): same `GetFilename` and same content entry by entry give the same archive, or the same
    failure -/
theorem C18_clm_spelling (files files' : List (Bytes × Content))
    (hsame : SpelledAs SameClmInput files files') : Clm.create files = Clm.create files' := by
  rw [Clm.create_factors files, Clm.create_factors files', clm_logical_eq hsame]

/-! ### non-vacuity: three tracks, given bare and as `w/trk1.wav`, `./Eden.WAV`, `./w/b.wav` -/

def exClmBare : List (Bytes × Content) :=
  [([116, 114, 107, 49, 46, 119, 97, 118], ⟨C03.exWav.enc, 0⟩), ([69, 100, 101, 110, 46, 87, 65, 86], ⟨C03.exWav.enc, 0⟩), ([98, 46, 119, 97, 118], ⟨C03.exWav.enc, 0⟩)]
def exClmSpelled : List (Bytes × Content) :=
  [([119, 47, 116, 114, 107, 49, 46, 119, 97, 118], ⟨C03.exWav.enc, 0⟩), ([46, 47, 69, 100, 101, 110, 46, 87, 65, 86], ⟨C03.exWav.enc, 0⟩), ([46, 47, 119, 47, 98, 46, 119, 97, 118], ⟨C03.exWav.enc, 0⟩)]

/-- the hypothesis of `C18_clm_spelling` holds for this pair … -/
example : SpelledAs SameClmInput exClmBare exClmSpelled := by
  refine ⟨rfl, fun i h h' => ?_⟩
  match i, h, h' with
  | 0, _, _ => exact sameClmInput_spelled [119] [116, 114, 107, 49, 46, 119, 97, 118] _ (by decide) (by decide)
  | 1, _, _ => exact sameClmInput_spelled [46] [69, 100, 101, 110, 46, 87, 65, 86] _ (by decide) (by decide)
  | 2, _, _ => exact sameClmInput_spelled [46, 47, 119] [98, 46, 119, 97, 118] _ (by decide) (by decide)
set_option maxRecDepth 8192 in
/-- … the archive is written, and is the same for both spellings (evaluated, not deduced) -/
example : C03.bytesOf? (Clm.create exClmBare) = C03.bytesOf? (Clm.create exClmSpelled) ∧
    (C03.bytesOf? (Clm.create exClmBare)).map List.length = some (60 + 3 * 16 + 3 * 4) := by decide
/-- and a failure is the same too: `b.wav` and `w/B.WAV` -/
example : C03.bytesOf? (Clm.create (([66, 46, 87, 65, 86], ⟨C03.exWav.enc, 0⟩) :: exClmBare)) = none ∧
    C03.bytesOf? (Clm.create (([119, 47, 66, 46, 87, 65, 86], ⟨C03.exWav.enc, 0⟩) :: exClmSpelled)) = none := by decide

/-- non-vacuity of the converse: a record with one unassigned byte does depend on the garbage -/
example : ∃ g g' : Nat → UInt8, image g [1, 2, 3] [1] ≠ image g' [1, 2, 3] [1] :=
  image_dep [1, 2, 3] [1] 1 (by simp) (by simp)

end Op2.Props.C18
