import Op2Proofs.WriterLemmas
import Op2Proofs.LittleEndian
import Op2Proofs.SysCopy
import Op2Model.Gen.Layout
/-!
# C14 — writers write exactly what the history implies and refuse what does not fit
-/
namespace Op2.Props.C14
open Op2 Op2.Stream

/-! ## fixed-buffer writer -/

/-- every history: the u64-guarded implementation model equals the ℕ specification -/
theorem C14_fixed_writer_refines (ops : List WOp) (s : MemW) (h : s.Inv) (ha : ∀ op ∈ ops, op.argOk) :
    runW MemW.step s ops = runW MemW.spec s ops := memw_refines_hist ops s h ha

/-- a write or seek that would leave the buffer — including through wrap-around — fails without writing or moving;
    the buffer never changes size -/
theorem C14_fixed_writer_refusal (s : MemW) (h : s.Inv) (op : WOp) :
    (MemW.spec s op).2.buf.length = s.buf.length ∧ ((MemW.spec s op).1 = false → (MemW.spec s op).2 = s) :=
  memw_spec_frame s h op

theorem C14_fixed_writer_refuses_iff (s : MemW) :
    (∀ b, (MemW.spec s (.write b)).1 = false ↔ ¬ s.pos + b.length ≤ s.buf.length) ∧
    (∀ p, (MemW.spec s (.seek p)).1 = false ↔ ¬ p ≤ s.buf.length) ∧
    (∀ d, (MemW.spec s (.fwd d)).1 = false ↔ ¬ s.pos + d ≤ s.buf.length) ∧
    (∀ d, (MemW.spec s (.back d)).1 = false ↔ ¬ d ≤ s.pos) := by
  refine ⟨?_, ?_, ?_, ?_⟩ <;> intro x <;> simp only [MemW.spec] <;> split <;> simp_all

/-- a successful write changes exactly the bytes at the implied positions -/
theorem C14_write_touches_only_target (buf : Bytes) (pos : Nat) (b : Bytes) (h : pos + b.length ≤ buf.length) :
    (∀ i, i < pos ∨ pos + b.length ≤ i → (patch buf pos b)[i]? = buf[i]?) ∧
    (∀ i, i < b.length → (patch buf pos b)[pos + i]? = b[i]?) ∧ (patch buf pos b).length = buf.length :=
  ⟨fun i hi => patch_outside buf pos b h i hi, fun i hi => patch_inside buf pos b h i hi, patch_length buf pos b h⟩

/-- non-vacuity: the wrap-around witnesses of the repaired defect are refused by the implementation model -/
example : (MemW.step { buf := [0, 0, 0, 0, 0], pos := 1 } (.fwd (W64 - 1))).1 = false ∧
    (MemW.step { buf := [0, 0, 0, 0, 0], pos := 0 } (.back (W64 - 3))).1 = false := by decide

/-! ## growing writer -/

theorem C14_dynamic_writer (s : DynW) (op : WOp) (hlen : s.content.length ≤ dynCap) (ha : op.argOk) :
    (DynW.step s op).1 = (dynSpec s.content op).1 ∧ (DynW.step s op).2.content = (dynSpec s.content op).2 :=
  dynw_refines s op hlen ha

/-- appends, zero fill on forward seek, truncation on backward seek -/
theorem C14_dynamic_content (c b : Bytes) (d : Nat) :
    (dynSpec c (.write b)).2 = c ++ b ∧
    (c.length + d ≤ dynCap → (dynSpec c (.fwd d)).2 = c ++ zeros d) ∧
    (d ≤ c.length → (dynSpec c (.back d)).2 = c.take (c.length - d)) := by
  refine ⟨rfl, ?_, ?_⟩
  · intro h; simp only [dynSpec]; rw [if_neg (by omega)]
  · intro h; simp only [dynSpec]; rw [if_pos h]

/-- "reading it back returns that content": the reader `GetReader()` hands out over the content (`MemoryReader` model, u64 guards),
    asked for the whole length, returns exactly the content and ends at its end; any longer read is refused without moving -/
theorem C14_dynamic_readback (c : Bytes) (hc : c.length < W64) :
    MemR.step { data := c, pos := 0 } (.read c.length) = (.bytes c, { data := c, pos := c.length }) ∧
    ∀ k, c.length < k → k < W64 → MemR.step { data := c, pos := 0 } (.read k) = (.err, { data := c, pos := 0 }) := by
  have hi : RSpec.Inv ({ data := c, pos := 0 } : RSpec) := ⟨Nat.zero_le _, hc⟩
  constructor
  · rw [mem_refines _ hi (.read c.length) hc]
    simp [RSpec.step, RSpec.window]
  · intro k hk hk64
    rw [mem_refines _ hi (.read k) hk64]
    simp only [RSpec.step, Nat.zero_add]
    rw [if_neg (by omega)]

/-! ## size-prefixed writes refuse containers that do not fit the prefix -/

theorem C14_prefix_refuses (width count : Nat) (signed : Bool) (payload : Bytes) (h : count > prefixMax width signed) :
    writePrefixed width signed payload count = .error .refused := by
  unfold writePrefixed; rw [if_pos h]

theorem C14_prefix_accepts (width count : Nat) (signed : Bool) (payload : Bytes) (h : count ≤ prefixMax width signed) :
    ∃ pre, writePrefixed width signed payload count = .ok (pre ++ payload) ∧ pre.length = width := by
  unfold writePrefixed; rw [if_neg (by omega)]
  exact ⟨_, rfl, by simp⟩

/-- the limits: 255 / 65535 for unsigned one- and two-byte prefixes, 127 / 32767 for signed ones -/
example : prefixMax 1 false = 255 ∧ prefixMax 2 false = 65535 ∧ prefixMax 1 true = 127 ∧ prefixMax 2 true = 32767 := by decide

/-! ## typed writes and typed reads are mutual inverses (the codecs) -/

theorem C14_u16_roundtrip (v : Nat) (h : v < 65536) (rest : Bytes) : decU16 (encU16 v ++ rest) = v := by
  simp only [encU16, decU16, List.cons_append, List.nil_append, UInt8.toNat_ofNat']
  omega

theorem C14_u32_roundtrip (v : Nat) (h : v < 4294967296) (rest : Bytes) : decU32 (encU32 v ++ rest) = v := by
  simp only [encU32, decU32, List.cons_append, List.nil_append, UInt8.toNat_ofNat']
  omega

/-- every integer width at once (`uint8_t` … `uint64_t` and beyond): the `w` little-endian bytes a typed write emits for
    `v` read back as `v` — and as `v mod 2^(8w)`, nothing else, when `v` does not fit -/
theorem C14_le_roundtrip (w v : Nat) :
    leVal ((List.range w).map (fun i => UInt8.ofNat (v / 2 ^ (8 * i)))) = v % 2 ^ (8 * w) ∧
    (v < 2 ^ (8 * w) → leVal ((List.range w).map (fun i => UInt8.ofNat (v / 2 ^ (8 * i)))) = v) := by
  rw [range_map_eq_encLE, leVal_encLE]
  exact ⟨rfl, fun h => Nat.mod_eq_of_lt h⟩

/-- … and the other way round: writing the value read from `b` at `|b|` bytes reproduces `b` (mutual inverses) -/
theorem C14_le_inverse (b : Bytes) :
    (List.range b.length).map (fun i => UInt8.ofNat (leVal b / 2 ^ (8 * i))) = b ∧ leVal b < 2 ^ (8 * b.length) := by
  rw [range_map_eq_encLE, encLE_leVal]
  exact ⟨rfl, leVal_lt b⟩

/-- size-prefixed containers: whatever `Write<SizeType>(container)` accepted, `Read<SizeType>(container)` returns — for every
    prefix width, signedness and element size, at any position of any stream, whatever follows; the reader ends exactly
    behind the container -/
theorem C14_prefixed_roundtrip (width : Nat) (signed : Bool) (esz maxSize allocCap count : Nat) (payload out pre rest : Bytes)
    (hw : writePrefixed width signed payload count = .ok out) (hlen : payload.length = count * esz)
    (hmax : count ≤ maxSize) (hcap : count * esz < allocCap) (hwd : 0 < width) :
    readPrefixed RSpec.rd width signed esz maxSize allocCap { data := pre ++ out ++ rest, pos := pre.length } =
      .ok (payload, { data := pre ++ out ++ rest, pos := pre.length + out.length }) :=
  prefixed_roundtrip width signed esz maxSize allocCap count payload out pre rest hw hlen hmax hcap hwd

/-- the same through the `MemoryReader` model with its u64 guards (what `DynamicMemoryWriter::GetReader()` hands back): written
    by `Write<SizeType>`, read by `Read<SizeType>` -/
theorem C14_prefixed_roundtrip_memory (width : Nat) (signed : Bool) (esz maxSize allocCap count : Nat) (payload out pre rest : Bytes)
    (hw : writePrefixed width signed payload count = .ok out) (hlen : payload.length = count * esz)
    (hmax : count ≤ maxSize) (hcap : count * esz < allocCap) (hwd : 0 < width) (hw64 : width < W64) (hc64 : allocCap ≤ W64)
    (hfit : (pre ++ out ++ rest).length < W64) :
    readPrefixed MemR.rd width signed esz maxSize allocCap ({ data := pre ++ out ++ rest, pos := pre.length } : MemR) =
      .ok (payload, { data := pre ++ out ++ rest, pos := pre.length + out.length }) := by
  have hinv : RSpec.Inv ({ data := pre ++ out ++ rest, pos := pre.length } : RSpec) :=
    ⟨by simp only [List.length_append]; omega, hfit⟩
  have hs := readPrefixed_sim Eq (fun _ => rfl) MemR.rd id RSpec.Inv
    (fun t k ht hk => by
      rw [memrd_eq t ht k hk]
      simp only [id]
      cases hr : RSpec.rd t k with
      | error e => exact rfl
      | ok p => obtain ⟨b, t'⟩ := p; exact ⟨rfl, rfl, rd_inv t t' b k ht hr⟩)
    width signed esz maxSize allocCap hw64 hc64 _ hinv
  rw [show id ({ data := pre ++ out ++ rest, pos := pre.length } : RSpec) = { data := pre ++ out ++ rest, pos := pre.length } from rfl,
    prefixed_roundtrip width signed esz maxSize allocCap count payload out pre rest hw hlen hmax hcap hwd] at hs
  cases hr : readPrefixed MemR.rd width signed esz maxSize allocCap ({ data := pre ++ out ++ rest, pos := pre.length } : MemR) with
  | error e => rw [hr] at hs; exact hs.elim
  | ok p =>
    obtain ⟨b, s'⟩ := p
    rw [hr] at hs
    obtain ⟨hb, ha, _⟩ := hs
    simp only [id] at ha
    rw [hb, ha]

example : writePrefixed 2 true [7, 0, 8, 0, 9, 0] 3 = .ok [3, 0, 7, 0, 8, 0, 9, 0] ∧
    readPrefixed RSpec.rd 2 true 2 1000 1000 { data := [1] ++ [3, 0, 7, 0, 8, 0, 9, 0] ++ [5], pos := 1 } =
      .ok ([7, 0, 8, 0, 9, 0], { data := [1] ++ [3, 0, 7, 0, 8, 0, 9, 0] ++ [5], pos := 9 }) := ⟨rfl, rfl⟩

/-! ## copying a reader into a writer transfers exactly the remaining bytes, for every chunk size -/

theorem C14_copy (B : Nat) (hB : 0 < B) (r : RSpec) (w : Bytes) (hp : r.pos ≤ r.data.length) (fuel : Nat)
    (hf : r.data.length - r.pos < fuel) :
    copyLoop B fuel r w = ({ r with pos := r.data.length }, w ++ r.data.drop r.pos) :=
  copy_spec B hB fuel r w hp hf

/-- … for every reader backend: the copy loop run on a live object of any backend (memory reader, file reader, file slice, slice of
    a file slice — `copyLoopRd`, which the `copy` commands of the correspondence run execute) hands the writer exactly the bytes
    between the reader's cursor and the end of what it exposes, for every chunk size below 2^64, and leaves the reader at its end -/
theorem C14_copy_every_backend (B : Nat) (hB : 0 < B) (hB64 : B < W64) (r : Rd) (hr : r.Good) (w : Bytes) (fuel : Nat)
    (hf : r.abs.data.length - r.abs.pos < fuel) :
    (copyLoopRd B fuel r w).2 = w ++ r.abs.data.drop r.abs.pos ∧
    (copyLoopRd B fuel r w).1.abs = { r.abs with pos := r.abs.data.length } :=
  ⟨(copy_every_backend B hB hB64 r hr w fuel hf).1, (copy_every_backend B hB hB64 r hr w fuel hf).2.1⟩

example : (copyLoopRd 2 9 (Rd.fsl { w := { data := [1, 2, 3, 4, 5, 6, 7], pos := 3 }, start := 2, len := 4 }) [9]).2 = [9, 4, 5, 6] := by decide

/-- the library's chunk size is positive (regenerated from the header on every run) -/
theorem gen_copy_chunk_positive : 0 < Op2.Gen.Layout.DefaultCopyChunkSize := by decide

/-! ## the file writer creates, refuses, truncates, or preserves and appends exactly as its flags say -/

theorem C14_open_flags : ∀ (e n t a ex : Bool) (o : OpenOutcome),
    openDocumented { canOpenExisting := e, canOpenNew := n, truncate := t, append := a } ex = some o →
    openFile { canOpenExisting := e, canOpenNew := n, truncate := t, append := a } ex = o := by decide

/-- a refused open leaves the destination as it was -/
theorem C14_open_refused_leaves_file (f : OpenFlags) (prior : Option Bytes) (b : Bytes)
    (h : openFile f prior.isSome = .refused) : openWriteClose f prior b = (prior, false) := by
  unfold openWriteClose; rw [h]

/-- every history on a writer opened in append mode: whatever seeks it contains, the file ends up as the content it
    had at open followed by the bytes written, in order — existing content is never overwritten -/
theorem C14_append_history (s : FileW) (h : s.app = true) (ops : List WOp) :
    (FileW.run s ops).content = s.content ++ FileW.written ops ∧ (FileW.run s ops).app = true := by
  induction ops generalizing s with
  | nil => simp [FileW.run, FileW.written, h]
  | cons op ops ih =>
    cases op with
    | write b =>
      have := ih (FileW.step s (.write b)).2 (by simp [FileW.step, h])
      simp only [FileW.run, FileW.written]
      rw [this.1, this.2]; simp [FileW.step, h]
    | seek p => simpa [FileW.run, FileW.written, FileW.step] using ih { s with pos := p } h
    | fwd d => simpa [FileW.run, FileW.written, FileW.step] using ih { s with pos := s.pos + d } h
    | back d =>
      simp only [FileW.run, FileW.written, FileW.step]
      split
      · exact ih s h
      · exact ih { s with pos := s.pos - d } h
    | seekBegin => simpa [FileW.run, FileW.written, FileW.step] using ih { s with pos := 0 } h
    | seekEnd =>
      simp only [FileW.run, FileW.written, FileW.step]
      split
      · exact ih s h
      · exact ih { s with pos := s.content.length } h

/-- `Append`, any history, close: prior content (nothing, for a new file) is a prefix of what is on disk and the
    bytes written follow it in order -/
theorem C14_append_preserves (e n : Bool) (prior : Option Bytes) (ops : List WOp) (s : FileW)
    (ho : FileW.opened { canOpenExisting := e, canOpenNew := n, truncate := false, append := true } prior = some s) :
    (FileW.run s ops).content = prior.getD [] ++ FileW.written ops := by
  have hs : s.app = true ∧ s.content = prior.getD [] := by
    revert ho
    cases e <;> cases n <;> cases prior <;> simp [openFile, ofstreamKeeps, FileW.opened] <;> (intro h; subst h; simp)
  rw [(C14_append_history s hs.1 ops).1, hs.2]

/-- a session exists exactly when the open is not refused -/
theorem C14_session_iff_not_refused (f : OpenFlags) (prior : Option Bytes) :
    (FileW.opened f prior).isSome = (openFile f prior.isSome != .refused) := by
  unfold FileW.opened; cases openFile f prior.isSome <;> rfl

example : (FileW.run { content := [1, 2, 3], pos := 3, app := true } [.write [9], .seek 0, .write [8, 7]]).content
    = [1, 2, 3, 9, 8, 7] := by decide
/-- the same history without append mode overwrites: the theorem's hypothesis is what protects the content -/
example : (FileW.run { content := [1, 2, 3], pos := 3, app := false } [.write [9], .seek 0, .write [8, 7]]).content
    = [8, 7, 3, 9] := by decide

end Op2.Props.C14
