import Op2Proofs.GenTactics
import Op2Model.Tile
import Op2Model.Gen.Formulas
import Op2Model.Gen.Layout
/-!
# C16 — map coordinates address distinct tiles; tile accessors are faithful

Width is `32 * m` (for the format `m = 2^(k-5)`, `k ≥ 5`); every statement holds for all `m`, all heights.
-/
namespace Op2.Props.C16
open Op2 Op2.Tile

/-! ## addressing is a bijection `[0,32m) × [0,h) → [0, 32·m·h)` in 32-column block order -/

theorem div_of_mul_add {q h y : Nat} (hy : y < h) : (q * h + y) / h = q := by
  have hpos : 0 < h := by omega
  rw [Nat.add_comm, Nat.mul_comm, Nat.add_mul_div_left _ _ hpos, Nat.div_eq_of_lt hy, Nat.zero_add]

theorem mod_of_mul_add {q h y : Nat} (hy : y < h) : (q * h + y) % h = y := by
  rw [Nat.add_comm, Nat.mul_comm, Nat.add_mul_mod_self_left, Nat.mod_eq_of_lt hy]

/-- range -/
theorem C16_index_in_range (m h x y : Nat) (hx : x < 32 * m) (hy : y < h) :
    tileIndexN h x y < 32 * m * h := by
  unfold tileIndexN
  have hq : x / 32 < m := by omega
  have h1 : (x / 32) * h + y < (x / 32 + 1) * h := by rw [Nat.add_mul]; omega
  have h2 : (x / 32 + 1) * h ≤ m * h := Nat.mul_le_mul_right h hq
  have h3 : 32 * m * h = 32 * (m * h) := Nat.mul_assoc _ _ _
  have : x % 32 < 32 := Nat.mod_lt _ (by omega)
  omega

/-- distinct coordinates address distinct tiles -/
theorem C16_index_injective (h x y x' y' : Nat) (hy : y < h) (hy' : y' < h)
    (e : tileIndexN h x y = tileIndexN h x' y') : x = x' ∧ y = y' := by
  unfold tileIndexN at e
  have r1 : x % 32 < 32 := Nat.mod_lt _ (by omega)
  have r2 : x' % 32 < 32 := Nat.mod_lt _ (by omega)
  have e1 : (x / 32) * h + y = (x' / 32) * h + y' := by omega
  have e2 : x % 32 = x' % 32 := by omega
  have q : x / 32 = x' / 32 := by
    have := congrArg (· / h) e1
    simpa [div_of_mul_add hy, div_of_mul_add hy'] using this
  have yy : y = y' := by
    have := congrArg (· % h) e1
    simpa [mod_of_mul_add hy, mod_of_mul_add hy'] using this
  exact ⟨by omega, yy⟩

/-- every tile is addressed by some in-range coordinate (explicit inverse) -/
theorem C16_index_surjective (m h i : Nat) (hi : i < 32 * m * h) :
    ∃ x y, x < 32 * m ∧ y < h ∧ tileIndexN h x y = i := by
  have hpos : 0 < h := by
    rcases Nat.eq_zero_or_pos h with rfl | hp
    · simp at hi
    · exact hp
  refine ⟨(i / 32 / h) * 32 + i % 32, (i / 32) % h, ?_, Nat.mod_lt _ hpos, ?_⟩
  · have h3 : 32 * m * h = 32 * (m * h) := Nat.mul_assoc _ _ _
    have : i / 32 < m * h := by omega
    have : i / 32 / h < m := (Nat.div_lt_iff_lt_mul hpos).mpr this
    have : i % 32 < 32 := Nat.mod_lt _ (by omega)
    omega
  · unfold tileIndexN
    have r : i % 32 < 32 := Nat.mod_lt _ (by omega)
    have a1 : (i / 32 / h * 32 + i % 32) / 32 = i / 32 / h := by omega
    have a2 : (i / 32 / h * 32 + i % 32) % 32 = i % 32 := by omega
    rw [a1, a2]
    have := Nat.div_add_mod (i / 32) h
    have c : i / 32 / h * h = h * (i / 32 / h) := Nat.mul_comm _ _
    omega

/-- the coordinates cover the tile array exactly once: `(x, y) ↦ index` is a bijection onto `[0, w·h)` -/
theorem C16_bijective (m h : Nat) :
    (∀ x y, x < 32 * m → y < h → tileIndexN h x y < 32 * m * h) ∧
    (∀ x y x' y', y < h → y' < h → tileIndexN h x y = tileIndexN h x' y' → x = x' ∧ y = y') ∧
    (∀ i, i < 32 * m * h → ∃ x y, x < 32 * m ∧ y < h ∧ tileIndexN h x y = i) :=
  ⟨fun x y hx hy => C16_index_in_range m h x y hx hy,
   fun x y x' y' hy hy' e => C16_index_injective h x y x' y' hy hy' e,
   fun i hi => C16_index_surjective m h i hi⟩

/-- block order: blocks of 32 columns follow one another, each stored row by row -/
theorem C16_block_order (h x y : Nat) :
    tileIndexN h x y = 32 * ((x / 32) * h + y) + x % 32 := by unfold tileIndexN; omega

/-- the machine formula (64-bit `size_t`, shifts and masks) is the ℕ formula whenever the array fits 64 bits -/
theorem C16_machine_index (m h x y : Nat) (hx : x < 32 * m) (hy : y < h) (hfit : 32 * m * h < W64) :
    tileIndex h x y = tileIndexN h x y := by
  have hr := C16_index_in_range m h x y hx hy
  unfold tileIndex tileIndexN u64 at *
  have s : x >>> 5 = x / 32 := by rw [Nat.shiftRight_eq_div_pow]
  have a : x &&& 31 = x % 32 := Nat.and_two_pow_sub_one_eq_mod x 5
  rw [s, a]
  have r : x % 32 < 32 := Nat.mod_lt _ (by omega)
  have b1 : x / 32 * h ≤ (x / 32 * h + y) * 32 + x % 32 := by omega
  rw [Nat.mod_eq_of_lt (a := x / 32 * h) (by omega)]
  rw [Nat.mod_eq_of_lt (a := x / 32 * h + y) (by omega)]
  rw [Nat.mod_eq_of_lt (a := (x / 32 * h + y) * 32) (by omega)]
  exact Nat.mod_eq_of_lt (by omega)

/-- non-vacuity: a 64×3 map -/
example : tileIndexN 3 37 2 = 165 ∧ 37 < 32 * 2 ∧ 2 < 3 := by decide

/-! ## accessors are faithful; setters change only the addressed field -/

theorem C16_cellType_get_set (w v : Nat) (hv : v < 32) : cellTypeOf (withCellType w v) = v := by
  unfold cellTypeOf withCellType; omega

theorem C16_cellType_set_frame (w v : Nat) :
    mappingIndexOf (withCellType w v) = mappingIndexOf w ∧ unitIndexOf (withCellType w v) = unitIndexOf w ∧
    lavaOf (withCellType w v) = lavaOf w ∧ lavaPossibleOf (withCellType w v) = lavaPossibleOf w ∧
    expansionOf (withCellType w v) = expansionOf w ∧ microbeOf (withCellType w v) = microbeOf w ∧
    wallOf (withCellType w v) = wallOf w := by
  have e : (w - w % 32 + v % 32) / 32 = w / 32 := by omega
  unfold mappingIndexOf unitIndexOf lavaOf lavaPossibleOf expansionOf microbeOf wallOf withCellType
  have f : ∀ d, 32 ∣ d → 0 < d → (w - w % 32 + v % 32) / d = w / d := by
    intro d ⟨c, hc⟩ hd
    subst hc
    have hc : 0 < c := Nat.pos_of_mul_pos_left hd
    rw [← Nat.div_div_eq_div_mul, ← Nat.div_div_eq_div_mul, e]
  refine ⟨by rw [e], ?_, ?_, ?_, ?_, ?_, ?_⟩ <;> rw [f _ (by decide) (by decide)]

theorem C16_cellType_stays_32bit (w v : Nat) (hw : w < W32) : withCellType w v < W32 := by
  unfold withCellType W32 at *; omega

theorem C16_lava_get_set (w : Nat) (b : Bool) : lavaPossibleOf (withLavaPossible w b) = b := by
  unfold lavaPossibleOf withLavaPossible
  have h1 := Nat.div_add_mod w 268435456
  have h2 : w % 268435456 < 268435456 := Nat.mod_lt _ (by omega)
  cases b
  · simp only [Bool.false_eq_true, if_false, decide_eq_false_iff_not]
    omega
  · simp only [if_true, decide_eq_true_eq]
    omega

theorem C16_lava_set_frame (w : Nat) (b : Bool) :
    cellTypeOf (withLavaPossible w b) = cellTypeOf w ∧ mappingIndexOf (withLavaPossible w b) = mappingIndexOf w ∧
    unitIndexOf (withLavaPossible w b) = unitIndexOf w ∧ lavaOf (withLavaPossible w b) = lavaOf w ∧
    expansionOf (withLavaPossible w b) = expansionOf w ∧ microbeOf (withLavaPossible w b) = microbeOf w ∧
    wallOf (withLavaPossible w b) = wallOf w := by
  unfold cellTypeOf mappingIndexOf unitIndexOf lavaOf expansionOf microbeOf wallOf withLavaPossible
  cases b
  · simp only [Bool.false_eq_true, if_false]
    refine ⟨by omega, by omega, by omega, ?_, ?_, ?_, ?_⟩ <;> (apply decide_eq_decide.mpr; omega)
  · simp only [if_true]
    refine ⟨by omega, by omega, by omega, ?_, ?_, ?_, ?_⟩ <;> (apply decide_eq_decide.mpr; omega)

/-- out-of-range cell types (as the unsigned value the setter sees) are refused; nothing changes -/
theorem C16_cellType_range (w v : Nat) : (v > 31 → setCellType v w = .error .refused) ∧
    (v ≤ 31 → setCellType v w = .ok (withCellType w v)) := by
  unfold setCellType
  constructor <;> intro h
  · rw [if_pos h]
  · rw [if_neg (by omega)]

/-- a setter touches only the addressed tile -/
theorem C16_setter_touches_one_tile (tiles : List Nat) (i j : Nat) (f : Nat → Nat) (hij : i ≠ j) :
    (modifyAt tiles i f)[j]? = tiles[j]? := by
  unfold modifyAt
  rw [List.getElem?_modify]
  simp [hij]

theorem C16_setter_hits_addressed_tile (tiles : List Nat) (i : Nat) (f : Nat → Nat) :
    (modifyAt tiles i f)[i]? = (tiles[i]?).map f := by
  unfold modifyAt
  rw [List.getElem?_modify]
  simp

/-! ## bridging lemmas: the formula translated from `Map::GetTileIndex`, and the measured `Tile` layout -/

open Op2.Gen.Formulas in
theorem castU_nat (n : Nat) (h : n < 2 ^ 64) : castU 64 (n : Int) = (n : Int) := by
  unfold castU; omega

open Op2.Gen.Formulas Op2.GenTactics in
/-- `Map::GetTileIndex`, as translated from the current source, is the model's ℕ formula
    for every coordinate whose index fits `size_t` -/
theorem gen_GetTileIndex_eq (h x y : Nat) (hh : h < W32)
    (hfit : ((x / 32) * h + y) * 32 + x % 32 < W64) : gen_GetTileIndex_translated = true →
    gen_GetTileIndex (h : Int) (x : Int) (y : Int) = (tileIndexN h x y : Nat) := by
  gen_guard =>
  -- spelling-independent: x = 32q + r; collapse the nested `% 2^64` to the outermost one; the polynomial identity is `grind`'s
  unfold W32 W64 at *
  obtain ⟨q, r, hr, rfl⟩ : ∃ q r, r < 32 ∧ x = 32 * q + r := ⟨x / 32, x % 32, Nat.mod_lt _ (by omega), by omega⟩
  have hq : (32 * q + r) / 32 = q := by omega
  have hm : (32 * q + r) % 32 = r := by omega
  have e1 : ((32 * q + r : Nat) : Int) / 32 = (q : Int) := by omega
  have e2 : ((32 * q + r : Nat) : Int) % 32 = (r : Int) := by omega
  have e3 : (32 * q + r) &&& 31 = r := by rw [Nat.and_two_pow_sub_one_eq_mod _ 5]; omega
  unfold tileIndexN
  rw [hq, hm] at hfit ⊢
  unfold gen_GetTileIndex castU
  simp only [Int.reducePow, Int.reduceMod, Int.reduceToNat, Int.toNat_natCast, e1, e2, e3, Int.ofNat_eq_natCast]
  simp only [emod_mul_l, emod_mul_r, emod_add_l, emod_add_r]
  have hT : (((q * h + y) * 32 + r : Nat) : Int) % 18446744073709551616 = ((q * h + y) * 32 + r : Nat) :=
    Int.emod_eq_of_lt (Int.natCast_nonneg _) (by omega)
  refine Eq.trans ?_ hT
  congr 1 <;> (push_cast; grind)

open Op2.Gen.Layout in
/-- the bit-fields of `Tile` sit where the model's accessors read them, and the cell-type field is unsigned -/
theorem gen_tile_layout :
    size_Tile = 4 ∧ mask_Tile_cellType = 31 ∧ mask_Tile_tileMappingIndex = 2047 * 32 ∧
    mask_Tile_unitIndex = 2047 * 65536 ∧ mask_Tile_bLava = 134217728 ∧ mask_Tile_bLavaPossible = 268435456 ∧
    mask_Tile_bExpansion = 536870912 ∧ mask_Tile_bMicrobe = 1073741824 ∧ mask_Tile_bWallOrBuilding = 2147483648 ∧
    CellType_Tube5 = 31 ∧ tile_cellType_allOnes_isNonNegative = true ∧
    size_TileMapping = 8 ∧ off_TileMapping_tilesetIndex = 0 ∧ off_TileMapping_tileGraphicIndex = 2 := by decide

end Op2.Props.C16
