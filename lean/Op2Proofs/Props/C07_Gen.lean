import Op2Model.Map
import Op2Proofs.GenGuards
/-!
# C07 (MAP) — the refusal conditions of `Map::ReadMapBeginning` (dimension guard) and `Map::CheckMinVersionTag`, as
regenerated from the current C++ (`Op2Model/Gen/Guards.lean`), are those of the model (`Map.dimsOk`, `minMapVersion ≤ tag`
in `Map.pBeginning` / `Map.pVersionTag`) for ALL `uint32_t` values of the header fields.

The shift count ranges over all of `uint32_t`: for `lg ≥ 32` both sides refuse whatever the second disjunct says (in C++ it
is not evaluated); for each of the 32 remaining counts `2^lg` is a literal and the comparison is linear arithmetic, so
`(uint64(h) << lg) > UINT32_MAX`, `((uint64(h) << lg) >> 32) != 0` and `h > (UINT32_MAX >> lg)` are the same refusal,
while `> 32`, a 32-bit shift or `INT32_MAX` are not.
-/
set_option linter.unusedSimpArgs false
set_option linter.unusedVariables false
namespace Op2.Props.C07Gen
open Op2 Op2.Map Op2.Gen.Guards Op2.GenTactics Op2.GenGuards

/-- `ReadMapBeginning`: the map is refused iff `Map.dimsOk lg height` is false -/
theorem C07_gen_dims_refuses : Map_ReadMapBeginning_guards_translated = true →
    ∀ (lg h : Nat), lg < W32 → h < W32 →
      Map_ReadMapBeginning_refuses lg h = !dimsOk lg h := by
  gen_guard =>
    intro lg h h1 h2
    unfold dimsOk
    by_cases hl : lg < 32
    · rw [if_pos hl]
      unfold Map_ReadMapBeginning_refuses
      have hc : lg = 0 ∨ lg = 1 ∨ lg = 2 ∨ lg = 3 ∨ lg = 4 ∨ lg = 5 ∨ lg = 6 ∨ lg = 7 ∨ lg = 8 ∨ lg = 9 ∨ lg = 10 ∨ lg = 11 ∨
          lg = 12 ∨ lg = 13 ∨ lg = 14 ∨ lg = 15 ∨ lg = 16 ∨ lg = 17 ∨ lg = 18 ∨ lg = 19 ∨ lg = 20 ∨ lg = 21 ∨ lg = 22 ∨
          lg = 23 ∨ lg = 24 ∨ lg = 25 ∨ lg = 26 ∨ lg = 27 ∨ lg = 28 ∨ lg = 29 ∨ lg = 30 ∨ lg = 31 := by omega
      rcases hc with e | e | e | e | e | e | e | e | e | e | e | e | e | e | e | e | e | e | e | e | e | e | e | e | e | e |
        e | e | e | e | e | e <;> subst e <;> guard_beq <;> simp only [u64, W32, W64, Int.toNat_natCast] at * <;>
        guard_norm <;> omega
    · rw [if_neg hl]
      unfold Map_ReadMapBeginning_refuses
      guard_beq
      simp only [W32] at *
      guard_norm
      generalize (2 : Int) ^ (lg : Int).toNat = pw at *
      generalize (2 : Nat) ^ lg = pn at *
      omega

/-- `CheckMinVersionTag`: a tag is refused iff it is below `Map.minMapVersion` -/
theorem C07_gen_minVersion_refuses : Map_CheckMinVersionTag_guards_translated = true →
    ∀ (t : Nat), t < W32 →
      (Map_CheckMinVersionTag_refuses t = true ↔ ¬ minMapVersion ≤ t) := by
  gen_guard =>
    intro t h1
    unfold Map_CheckMinVersionTag_refuses
    guard_iff
    simp only [minMapVersion, W32, Op2.Gen.Layout.MinMapVersion] at *
    guard_norm; omega

end Op2.Props.C07Gen
