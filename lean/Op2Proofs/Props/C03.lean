import Op2Proofs.Clm.Sets
import Op2Proofs.Clm.Reference
import Op2Proofs.Clm.Names
import Op2Proofs.Clm.Dirs
import Op2Model.Gen.Layout
import Op2Model.Gen.Constants
/-!
# C03 — CLM pack → reopen → extract preserves every track's audio data and format
-/
namespace Op2.Props.C03
open Op2 Op2.Clm Op2.Wave
open Op2.Parser (encU32_length)

/-! ## bridging lemmas: facts regenerated from the current source are the model's -/

theorem C03_gen_version : Gen.Constants.clm_fileVersion_scraped = true → Gen.Constants.clm_fileVersion = Clm.version.map (·.toNat) := by decide
theorem C03_gen_unknown : Gen.Constants.clm_unknown_scraped = true → Gen.Constants.clm_unknown = Clm.unknown.map (·.toNat) := by decide
theorem C03_gen_header_layout :
    Gen.Layout.size_ClmHeader = Clm.headerSize ∧ Gen.Layout.off_ClmHeader_waveFormat = 32 ∧
    Gen.Layout.off_ClmHeader_unknown = 50 ∧ Gen.Layout.off_ClmHeader_packedFilesCount = 56 ∧
    Gen.Layout.size_WaveFormatEx = Wave.formatSize := by decide
theorem C03_gen_index_layout :
    Gen.Layout.size_ClmIndexEntry = Clm.entrySize ∧ Gen.Layout.off_ClmIndexEntry_dataOffset = 8 ∧
    Gen.Layout.off_ClmIndexEntry_dataLength = 12 := by decide
theorem C03_gen_wave_layout :
    Gen.Layout.size_RiffHeader = Wave.riffHeaderSize ∧ Gen.Layout.size_ChunkHeader = Wave.chunkHeaderSize ∧
    Gen.Layout.size_FormatChunk = 26 ∧ Gen.Layout.size_WaveHeader = 46 := by decide
/-- `WaveFormatEx{tag, channels, rate, avgBytes, blockAlign, bits, cbSize}` as its 18 bytes -/
def formatBytes : List Nat → Bytes
  | [a, b, c, d, e, f, g] => encU16 a ++ encU16 b ++ encU32 c ++ encU32 d ++ encU16 e ++ encU16 f ++ encU16 g
  | _ => []
/-- `PrepareWaveFormat`'s default (PCM, mono, 22 050 Hz, 44 100 B/s, block 2, 16 bit, cbSize 0) as laid out in 18 bytes -/
theorem C03_gen_default_format : Gen.Constants.clm_defaultFormat_scraped = true → formatBytes Gen.Constants.clm_defaultFormat = Clm.defaultFmt := by decide
/-- the frozen description's header constants are the ones the library writes -/
theorem C03_spec_constants : Spec.versionText = Clm.version ∧ Spec.unknownBytes = Clm.unknown := by decide

/-! ## layout: every archive `create` returns is a well-formed clump file (all inputs, no hypothesis) -/

/-- header, member count, index offsets and lengths agree with the independent description, offsets are the true running
    sums starting right after the index, and the file ends with the last member's data -/
theorem C03_layout (files : List (Bytes × Content)) (a : Archive) (h : create files = .ok a) : Spec.WF a.toBytes := by
  obtain ⟨infos, idx, hc⟩ := (create_ok_iff files a).mp h
  have sh := hc.shape
  obtain ⟨_, _, _, _, hidx, _, _⟩ := hc
  have hstart : headerSize + (namesOf files).length * entrySize
      = 60 + 16 * ((namesOf files).zip (infos.map (·.dataLen))).length := by
    rw [sh.items_len, sh.n_eq]; unfold headerSize entrySize; omega
  rw [hstart] at hidx
  have hn : ((namesOf files).zip (infos.map (·.dataLen))).length < W32 := by
    rw [sh.items_len]
    by_cases he : files = []
    · subst he; decide
    · have := sh.fits he
      unfold headerSize entrySize offsetLimit at this; unfold W32; omega
  have := wf_of_prepared (fmtOf infos) _ idx (a.datas.flatMap Content.toBytes) sh.fmt_len hidx
    (by rw [flatMap_toBytes_length, sh.datas_lens, sh.items_lens]) hn
  rw [sh.bytes]
  rw [sh.items_len] at this
  exact this

/-! ## reopening: whatever was packed is listed, streamed and extracted as intake found it (all inputs) -/

/-- every archive `create` returns is accepted by the reader; it lists one member per file, in the sorted order; each
    member's size is the `data` chunk length, its stream is exactly the `dataLen` bytes of the source at the data
    position, and its extraction is the canonical header followed by those bytes -/
theorem C03_reopen (files : List (Bytes × Content)) (a : Archive) (h : create files = .ok a)
    (hcap : files.length * 16 ≤ allocCap) :
    ∃ v infos, Clm.open a.toBytes = .ok v ∧ v.count = files.length ∧
      intakeAll ((sorted files).map (·.2)) = .ok infos ∧ v.fmt = fmtOf infos ∧
      ∀ (i : Nat) (p : Bytes) (c : Content) (info : Info), (sorted files)[i]? = some (p, c) → infos[i]? = some info →
        v.name i = .ok ((padName (nameOf p)).takeWhile (· ≠ 0)) ∧
        v.size i = .ok info.dataLen ∧
        v.stream a.toBytes i = .ok ((c.toBytes.drop info.dataPos).take info.dataLen) ∧
        v.extractWav a.toBytes i = .ok (wavHeader (fmtOf infos) info.dataLen ++ (c.toBytes.drop info.dataPos).take info.dataLen) := by
  obtain ⟨infos, idx, hc⟩ := (create_ok_iff files a).mp h
  obtain ⟨v, hopen, hfmt, hcount, hmem⟩ := reopen_created hc hcap
  refine ⟨v, infos, hopen, hcount, hc.1, hfmt, ?_⟩
  intro i p c info hs hi
  obtain ⟨_, off, he, hext⟩ := hmem i p c info hs hi
  refine ⟨?_, ?_, ?_, ?_⟩
  · simp [View.name, View.entry, he, entryName, Except.map]
  · simp [View.size, View.entry, he, Except.map]
  · simp only [View.stream, View.entry, he, bind, Except.bind]; exact hext
  · simp only [View.extractWav, View.entry, he, bind, Except.bind, hext, pure, Except.pure, hfmt]

/-! ## the round trip on the property's quantifier: sets of RIFF/WAVE files with a common format -/

/-- the sources: `(path, description)`; the files handed to `CreateArchive` are their encodings -/
def filesOf (srcs : List (Bytes × Desc)) : List (Bytes × Content) := srcs.map (fun s => (s.1, ⟨s.2.enc, 0⟩))
/-- the sources in archive order (sorted by file name, ignoring case) -/
def sortedSrcs (srcs : List (Bytes × Desc)) : List (Bytes × Desc) := Str.sortCI (fun s : Bytes × Desc => Path.getFilename s.1) srcs

/-- **C03 round trip.**  For every finite list of sources that are RIFF/WAVE files by the grammar (any other chunks before
    and between `fmt ` and `data`, anything after the data), share the 16 format bytes, have names (file name without
    extension) of at most 8 bytes without NUL that are pairwise distinct ignoring case, and whose index and data fit
    32 bits: creation succeeds; the reader accepts the archive; it lists exactly the sources in sorted order, by name;
    each size is that file's data-chunk length; each stream is exactly that chunk's bytes; each extraction is a
    self-consistent WAV carrying the common format and those bytes. -/
theorem C03_roundtrip (srcs : List (Bytes × Desc)) (fmt16 : Bytes)
    (hvalid : ∀ s ∈ srcs, s.2.Valid) (hfmt : ∀ s ∈ srcs, s.2.fmt16 = fmt16)
    (hname : ∀ s ∈ srcs, (nameOf s.1).length ≤ nameMax ∧ ∀ x ∈ nameOf s.1, x ≠ 0)
    (hdistinct : Str.NoDupCI (fun s : Bytes × Desc => nameOf s.1) srcs)
    (hfits : headerSize + srcs.length * entrySize + (srcs.map (·.2.data.length)).sum ≤ offsetLimit)
    (hcap : srcs.length * 16 ≤ allocCap) :
    ∃ a v, create (filesOf srcs) = .ok a ∧ Clm.open a.toBytes = .ok v ∧ v.count = srcs.length ∧
      (srcs ≠ [] → v.fmt = fmt16 ++ [0, 0]) ∧
      ∀ (i : Nat) (p : Bytes) (d : Desc), (sortedSrcs srcs)[i]? = some (p, d) →
        v.name i = .ok (nameOf p) ∧
        v.size i = .ok d.data.length ∧
        v.stream a.toBytes i = .ok d.data ∧
        ∃ w, v.extractWav a.toBytes i = .ok w ∧ Spec.SelfConsistentWav w fmt16 d.data := by
  -- the sorted files are the encodings of the sorted sources
  let g : Bytes × Desc → Bytes × Content := fun s => (s.1, ⟨s.2.enc, 0⟩)
  have hsorted : sorted (filesOf srcs) = (sortedSrcs srcs).map g := sortCI_map g _ srcs
  have hperm : (sortedSrcs srcs).Perm srcs := Str.sortCI_perm _ srcs
  have hmemS : ∀ s ∈ sortedSrcs srcs, s ∈ srcs := fun s hs => hperm.mem_iff.mp hs
  let info : Bytes × Desc → Info := fun s => ⟨s.2.fmt16 ++ [0, 0], s.2.dataPos, s.2.data.length⟩
  have hin : ∀ s ∈ sortedSrcs srcs, intake (g s).2 = .ok (info s) ∧
      (info s).dataPos + (info s).dataLen ≤ (g s).2.len ∧
      ((g s).2.toBytes.drop s.2.dataPos).take s.2.data.length = s.2.data := by
    intro s hs
    exact intake_desc (g s).2 s.2 (by simp [g, Content.toBytes, zeros]) (hvalid s (hmemS s hs))
  -- creation succeeds
  have hint : intakeAll ((sorted (filesOf srcs)).map (·.2)) = .ok ((sortedSrcs srcs).map info) := by
    rw [hsorted, List.map_map]
    exact intakeAll_of_forall _ (fun s => (g s).2) info (fun s hs => (hin s hs).1)
  have hnames : namesOf (filesOf srcs) = (sortedSrcs srcs).map (fun s => nameOf s.1) := by
    show (sorted (filesOf srcs)).map _ = _
    rw [hsorted, List.map_map]; rfl
  have hlens : ((sortedSrcs srcs).map info).map (·.dataLen) = (sortedSrcs srcs).map (·.2.data.length) := by
    rw [List.map_map]; rfl
  have hflen : (filesOf srcs).length = srcs.length := by simp [filesOf]
  obtain ⟨ds, hds⟩ := slices_of_forall (sortedSrcs srcs) (fun s => (g s).2) info (fun s hs => (hin s hs).2.1)
  have hnl : (namesOf (filesOf srcs)).length = srcs.length := by rw [namesOf_length, hflen]
  have hidx : ∃ idx, prepareIndex (headerSize + (namesOf (filesOf srcs)).length * entrySize)
      ((namesOf (filesOf srcs)).zip (((sortedSrcs srcs).map info).map (·.dataLen))) = some idx := by
    cases hp : prepareIndex (headerSize + (namesOf (filesOf srcs)).length * entrySize)
      ((namesOf (filesOf srcs)).zip (((sortedSrcs srcs).map info).map (·.dataLen))) with
    | some idx => exact ⟨idx, rfl⟩
    | none =>
      exfalso
      obtain ⟨_, hgt⟩ := (prepareIndex_none_iff _ _).mp hp
      rw [List.map_snd_zip (by rw [hnl, hlens, List.length_map, hperm.length_eq]; omega), hlens, hnl] at hgt
      have : ((sortedSrcs srcs).map (·.2.data.length)).sum = (srcs.map (·.2.data.length)).sum :=
        (hperm.map _).sum_nat
      omega
  obtain ⟨idx, hidx⟩ := hidx
  let a : Archive := ⟨version ++ fmtOf ((sortedSrcs srcs).map info) ++ unknown ++ encU32 (namesOf (filesOf srcs)).length ++ idx, ds⟩
  have hcreated : Created (filesOf srcs) a ((sortedSrcs srcs).map info) idx := by
    refine ⟨hint, ?_, ?_, ?_, hidx, ?_, rfl⟩
    · apply allSameFmt_of_forall _ (fmt16 ++ [0, 0])
      intro i hi
      obtain ⟨s, hs, rfl⟩ := List.mem_map.mp hi
      simp only [info]; rw [hfmt s (hmemS s hs)]
    · intro n hn
      rw [hnames] at hn
      obtain ⟨s, hs, rfl⟩ := List.mem_map.mp hn
      exact (hname s (hmemS s hs)).1
    · rw [hnames]
      cases hd : Str.hasAdjacentDup ((sortedSrcs srcs).map (fun s => nameOf s.1))
      · rfl
      · exfalso
        have := Str.hasAdjacentDup_sound _ hd
        apply this
        unfold Str.NoDupCI
        rw [List.pairwise_map]
        exact (hdistinct.perm _ hperm.symm)
    · show slices (((sorted (filesOf srcs)).map (·.2)).zip _) = some ds
      rw [hsorted, List.map_map]; exact hds
  have hcreate : create (filesOf srcs) = .ok a := (create_ok_iff _ _).mpr ⟨_, _, hcreated⟩
  obtain ⟨v, hopen, hvfmt, hcount, hmem⟩ := reopen_created hcreated (by rw [hflen]; exact hcap)
  refine ⟨a, v, hcreate, hopen, by rw [hcount, hflen], ?_, ?_⟩
  · intro hne
    rw [hvfmt]
    cases hss : sortedSrcs srcs with
    | nil => exact absurd (by rw [← hperm.length_eq, hss]; rfl : srcs.length = 0) (by
        intro h0; exact hne (List.eq_nil_of_length_eq_zero h0))
    | cons s rest =>
      have hs : s ∈ sortedSrcs srcs := by rw [hss]; simp
      simp only [fmtOf, List.map_cons, info]
      rw [hfmt s (hmemS s hs)]
  · intro i p d hs
    have hs' : (sorted (filesOf srcs))[i]? = some (p, ⟨d.enc, 0⟩) := by
      rw [hsorted, List.getElem?_map, hs]; rfl
    have hi' : ((sortedSrcs srcs).map info)[i]? = some (info (p, d)) := by
      rw [List.getElem?_map, hs]; rfl
    have hmemi : (p, d) ∈ sortedSrcs srcs := List.mem_of_getElem? hs
    obtain ⟨_, off, he, hext⟩ := hmem i p ⟨d.enc, 0⟩ (info (p, d)) hs' hi'
    have hslice := (hin (p, d) hmemi).2.2
    simp only [g, info] at hslice hext
    rw [hslice] at hext
    have hnm := hname (p, d) (hmemS _ hmemi)
    have hv := hvalid (p, d) (hmemS _ hmemi)
    refine ⟨?_, ?_, ?_, ?_⟩
    · simp only [View.name, View.entry, he, Except.map]
      rw [entryName_padName _ hnm.2 hnm.1]
    · simp [View.size, View.entry, he, Except.map, info]
    · simp only [View.stream, View.entry, he, bind, Except.bind]; exact hext
    · refine ⟨wavHeader v.fmt d.data.length ++ d.data, ?_, ?_⟩
      · simp only [View.extractWav, View.entry, he, bind, Except.bind, hext, pure, Except.pure, info]
      · have hvf : v.fmt = fmt16 ++ [0, 0] := by
          rw [hvfmt]
          cases hss : sortedSrcs srcs with
          | nil => rw [hss] at hmemi; simp at hmemi
          | cons s rest =>
            have hs0 : s ∈ sortedSrcs srcs := by rw [hss]; simp
            simp only [fmtOf, List.map_cons, info]
            rw [hfmt s (hmemS s hs0)]
        have h16 : fmt16.length = 16 := by rw [← hfmt (p, d) (hmemS _ hmemi)]; exact hv.1
        have := wavHeader_selfConsistent v.fmt d.data (by rw [hvf]; simp [h16]) (by
          -- the data is part of a file shorter than 2^32 - 38: the source itself carries a 44-byte header
          have hsmall : d.enc.length < W32 := hv.2.2.2
          have h16' : d.fmt16.length = 16 := hv.1
          have : d.enc.length ≥ d.data.length + 44 := by
            rw [Desc.enc_eq, List.length_append, riff12_length]
            simp only [Desc.body, List.length_append, Chunk.enc, Desc.fmtChunk, Desc.dataChunk, encU32_length, tagFmt, tagData,
              List.length_cons, List.length_nil, h16']
            omega
          omega)
        rw [hvf] at this ⊢
        have ht : (fmt16 ++ [0, 0]).take 16 = fmt16 := take_app_len h16
        rw [ht] at this
        exact this

/-! ## the archive is, byte for byte, the reference encoding -/

/-- under the hypotheses of `C03_roundtrip` (and at least one source) the bytes `create` writes are exactly what the frozen
    reference encoder `Clm.Spec.encode` writes for the common format and the `(name, audio data)` pairs in sorted order —
    nothing of any chunk before, between or after `fmt ` / `data` reaches the archive -/
theorem C03_bytes_are_reference (srcs : List (Bytes × Desc)) (fmt16 : Bytes)
    (hvalid : ∀ s ∈ srcs, s.2.Valid) (hfmt : ∀ s ∈ srcs, s.2.fmt16 = fmt16)
    (hname : ∀ s ∈ srcs, (nameOf s.1).length ≤ nameMax ∧ ∀ x ∈ nameOf s.1, x ≠ 0)
    (hdistinct : Str.NoDupCI (fun s : Bytes × Desc => nameOf s.1) srcs)
    (hfits : headerSize + srcs.length * entrySize + (srcs.map (·.2.data.length)).sum ≤ offsetLimit)
    (hcap : srcs.length * 16 ≤ allocCap) (hne : srcs ≠ []) :
    ∃ a, create (filesOf srcs) = .ok a ∧
      a.toBytes = Spec.encode (fmt16 ++ [0, 0]) ((sortedSrcs srcs).map (fun s => (nameOf s.1, s.2.data))) := by
  obtain ⟨a, _, hcreate, _⟩ := C03_roundtrip srcs fmt16 hvalid hfmt hname hdistinct hfits hcap
  refine ⟨a, hcreate, ?_⟩
  obtain ⟨infos, idx, hc⟩ := (create_ok_iff _ a).mp hcreate
  have sh := hc.shape
  let g : Bytes × Desc → Bytes × Content := fun s => (s.1, ⟨s.2.enc, 0⟩)
  have hsorted : sorted (filesOf srcs) = (sortedSrcs srcs).map g := sortCI_map g _ srcs
  have hperm : (sortedSrcs srcs).Perm srcs := Str.sortCI_perm _ srcs
  have hmemS : ∀ s ∈ sortedSrcs srcs, s ∈ srcs := fun s hs => hperm.mem_iff.mp hs
  let info : Bytes × Desc → Info := fun s => ⟨s.2.fmt16 ++ [0, 0], s.2.dataPos, s.2.data.length⟩
  have hin : ∀ s ∈ sortedSrcs srcs, intake (g s).2 = .ok (info s) ∧
      (info s).dataPos + (info s).dataLen ≤ (g s).2.len ∧
      ((g s).2.toBytes.drop s.2.dataPos).take s.2.data.length = s.2.data := by
    intro s hs
    exact intake_desc (g s).2 s.2 (by simp [g, Content.toBytes, zeros]) (hvalid s (hmemS s hs))
  have hinfos : infos = (sortedSrcs srcs).map info := by
    have h0 := hc.1
    rw [hsorted, List.map_map] at h0
    have h1 : intakeAll (List.map (fun s => (g s).2) (sortedSrcs srcs)) = .ok infos := h0
    rw [intakeAll_of_forall _ (fun s => (g s).2) info (fun s hs => (hin s hs).1)] at h1
    injection h1 with h1; exact h1.symm
  subst hinfos
  -- the data extents
  have hdatas : a.datas = (sortedSrcs srcs).map (fun s => (g s).2.slice (info s).dataPos (info s).dataLen) := by
    have h0 := hc.2.2.2.2.2.1
    rw [hsorted, List.map_map] at h0
    have h2 : slices ((List.map (fun s => (g s).2) (sortedSrcs srcs)).zip (List.map info (sortedSrcs srcs))) = some a.datas := h0
    rw [slices_explicit _ (fun s => (g s).2) info (fun s hs => (hin s hs).2.1)] at h2
    injection h2 with h2; exact h2.symm
  have hflat : a.datas.flatMap Content.toBytes = ((sortedSrcs srcs).map (fun s => (nameOf s.1, s.2.data))).flatMap (·.2) := by
    rw [hdatas, List.flatMap_map, List.flatMap_map]
    apply flatMap_eq_of_forall
    intro s hs
    rw [Content.slice_toBytes _ _ _ (hin s hs).2.1]
    exact (hin s hs).2.2
  -- the index
  have hnames : namesOf (filesOf srcs) = (sortedSrcs srcs).map (fun s => nameOf s.1) := by
    show (sorted (filesOf srcs)).map _ = _
    rw [hsorted, List.map_map]; rfl
  have hitems : (namesOf (filesOf srcs)).zip (((sortedSrcs srcs).map info).map (·.dataLen))
      = ((sortedSrcs srcs).map (fun s => (nameOf s.1, s.2.data))).map (fun m => (m.1, m.2.length)) := by
    rw [hnames, List.map_map, List.zip_map', List.map_map]; rfl
  have hlenS : (sortedSrcs srcs).length = srcs.length := hperm.length_eq
  have hflen : (filesOf srcs).length = srcs.length := by simp [filesOf]
  have hidx := prepareIndex_eq_indexOf _ _ _ hc.2.2.2.2.1
  rw [hitems] at hidx
  have hstart : headerSize + (namesOf (filesOf srcs)).length * entrySize
      = 60 + 16 * ((sortedSrcs srcs).map (fun s => (nameOf s.1, s.2.data))).length := by
    rw [namesOf_length, hflen, List.length_map, hlenS]; unfold headerSize entrySize; omega
  rw [hstart] at hidx
  -- the format
  have hf : fmtOf ((sortedSrcs srcs).map info) = fmt16 ++ [0, 0] := by
    cases hss : sortedSrcs srcs with
    | nil => exact absurd (by rw [← hlenS, hss]; rfl : srcs.length = 0) (fun h0 => hne (List.eq_nil_of_length_eq_zero h0))
    | cons s rest =>
      have hs : s ∈ sortedSrcs srcs := by rw [hss]; simp
      simp only [fmtOf, List.map_cons, info]
      rw [hfmt s (hmemS s hs)]
  rw [sh.bytes, hf, hflat, hidx]
  unfold Spec.encode
  simp only
  rw [spec_index_eq _ _ (by
    intro m hm
    obtain ⟨s, hs, rfl⟩ := List.mem_map.mp hm
    exact ⟨(hname s (hmemS s hs)).2, (hname s (hmemS s hs)).1⟩)]
  rw [C03_spec_constants.1, C03_spec_constants.2, hflen, List.length_map, hlenS]

/-! ## the result does not depend on the order in which the files are given -/

/-- every ordering of a set whose file names are pairwise distinct ignoring case gives the same outcome, byte for byte -/
theorem C03_order_independent (files files' : List (Bytes × Content)) (hperm : files.Perm files')
    (hdistinct : Str.NoDupCI (fun f : Bytes × Content => Path.getFilename f.1) files) : create files = create files' := by
  unfold create
  rw [Str.sortCI_perm_invariant _ hperm hdistinct]

/-! ## names come out in case-insensitive order -/

/-- `std::sort` orders the *file names* (with extension).  When stripping the extension does not change how two of the
    given paths compare (true for the property's alphabet: stems of letters, digits, underscores — all above '.' —
    see `C03_order_compatible_example`), the listed names are strictly increasing in the case-insensitive order. -/
theorem C03_names_sorted (srcs : List (Bytes × Desc))
    (hcompat : ∀ s ∈ srcs, ∀ t ∈ srcs, Str.ltCI (Path.getFilename t.1) (Path.getFilename s.1) = false →
      Str.ltCI (nameOf t.1) (nameOf s.1) = false)
    (hdistinct : Str.NoDupCI (fun s : Bytes × Desc => nameOf s.1) srcs) :
    Str.SortedS (fun s : Bytes × Desc => nameOf s.1) (sortedSrcs srcs) := by
  have hperm : (sortedSrcs srcs).Perm srcs := Str.sortCI_perm _ srcs
  have hsw : Str.SortedW (fun s : Bytes × Desc => nameOf s.1) (sortedSrcs srcs) := by
    have := Str.sortCI_sorted (fun s : Bytes × Desc => Path.getFilename s.1) srcs
    unfold Str.SortedW at this ⊢
    exact this.imp_of_mem (fun {s t} hs ht h => hcompat s (hperm.mem_iff.mp hs) t (hperm.mem_iff.mp ht) h)
  exact hsw.strict _ (hdistinct.perm _ hperm.symm)

/-! ## refusals -/

/-- a file that does not start with `RIFF`, or does not carry `WAVE` at offset 8 (or is shorter than 12 bytes), fails intake -/
theorem C03_not_wave_fails_intake (c : Content)
    (h : c.len < 12 ∨ c.toBytes.take 4 ≠ tagRIFF ∨ (c.toBytes.drop 8).take 4 ≠ tagWAVE) : ∀ i, intake c ≠ .ok i := by
  intro i hi
  have hok := (intake_ok hi).1
  unfold headerOk at hok
  simp only [Bool.and_eq_true, decide_eq_true_eq, beq_iff_eq] at hok
  obtain ⟨⟨⟨h12, hr⟩, hw⟩, _⟩ := hok
  rw [Content.read_eq] at hr hw
  unfold riffHeaderSize at h12 hr hw
  rcases h with h | h | h
  · omega
  · apply h
    rw [← hr, List.drop_zero, List.take_take]; rfl
  · apply h
    rw [← hw, List.drop_zero, List.drop_take]

/-- **refusals**: a set is refused with an error (never an archive, never a hang) when one of its files is not RIFF/WAVE,
    when two of its files carry different formats, when a name is longer than 8 characters, or when two names that come
    out next to each other are equal ignoring case -/
theorem C03_refusals (files : List (Bytes × Content)) (hlen : ∀ f ∈ files, f.2.len < 2 ^ 63) :
    ((∃ f ∈ files, f.2.len < 12 ∨ f.2.toBytes.take 4 ≠ tagRIFF ∨ (f.2.toBytes.drop 8).take 4 ≠ tagWAVE) → create files = .err) ∧
    ((∃ f ∈ files, ∃ g ∈ files, ∃ i j, intake f.2 = .ok i ∧ intake g.2 = .ok j ∧ i.fmt ≠ j.fmt) → create files = .err) ∧
    ((∃ f ∈ files, (nameOf f.1).length > nameMax) → create files = .err) ∧
    (Str.hasAdjacentDup (namesOf files) = true → create files = .err) := by
  refine ⟨?_, ?_, ?_, ?_⟩ <;> intro h <;> apply create_err_of_not_ok files hlen <;> intro a ha <;>
    obtain ⟨infos, idx, hc⟩ := (create_ok_iff files a).mp ha
  · obtain ⟨f, hf, hbad⟩ := h
    obtain ⟨i, _, hi⟩ := hc.intake_each f hf
    exact C03_not_wave_fails_intake f.2 hbad i hi
  · obtain ⟨f, hf, g, hg, i, j, hi, hj, hne⟩ := h
    obtain ⟨i', hi'm, hi'⟩ := hc.intake_each f hf
    obtain ⟨j', hj'm, hj'⟩ := hc.intake_each g hg
    rw [hi] at hi'; rw [hj] at hj'
    injection hi' with hi'; injection hj' with hj'
    subst hi' hj'
    exact hne ((allSameFmt_iff infos).mp hc.2.1 i hi'm j hj'm)
  · obtain ⟨f, hf, hl⟩ := h
    have := hc.2.2.1 (nameOf f.1) (List.mem_map.mpr ⟨f, mem_sorted.mpr hf, rfl⟩)
    omega
  · rw [hc.2.2.2.1] at h; cases h

/-- duplicates are always next to each other — hence always refused — when the sort by file name also orders the names -/
theorem C03_duplicates_refused (files : List (Bytes × Content)) (hlen : ∀ f ∈ files, f.2.len < 2 ^ 63)
    (hcompat : ∀ s ∈ files, ∀ t ∈ files, Str.ltCI (Path.getFilename t.1) (Path.getFilename s.1) = false →
      Str.ltCI (nameOf t.1) (nameOf s.1) = false)
    (hdup : ¬ Str.NoDupCI (fun f : Bytes × Content => nameOf f.1) files) : create files = .err := by
  apply (C03_refusals files hlen).2.2.2
  have hperm : (sorted files).Perm files := Str.sortCI_perm _ files
  have hsw : Str.SortedW id (namesOf files) := by
    have := Str.sortCI_sorted (fun f : Bytes × Content => Path.getFilename f.1) files
    unfold Str.SortedW at this ⊢
    rw [List.pairwise_map]
    exact this.imp_of_mem (fun {s t} hs ht h => hcompat s (hperm.mem_iff.mp hs) t (hperm.mem_iff.mp ht) h)
  apply Str.hasAdjacentDup_complete _ hsw
  intro hn
  apply hdup
  unfold Str.NoDupCI at hn ⊢
  rw [List.pairwise_map] at hn
  exact (Str.NoDupCI.perm (fun f : Bytes × Content => nameOf f.1) hn hperm)

/-! ## non-vacuity: a concrete set meets every hypothesis, and the model's bytes are the reference encoder's -/

def exFmt : Bytes := [1, 0, 1, 0, 0x22, 0x56, 0, 0, 0x44, 0xac, 0, 0, 2, 0, 16, 0]
/-- `b.wav` (minimal), `A_1.WAV` (a LIST chunk before `fmt `, an 18-byte `fmt `, a `fact` chunk between, a LIST chunk
    after the data), `a.wav` (empty data) — given out of order -/
def exSrcs : List (Bytes × Desc) :=
  [ ([98, 46, 119, 97, 118], ⟨[], exFmt, [], [], [66, 66, 66, 66], []⟩),
    ([65, 95, 49, 46, 87, 65, 86],
      ⟨[⟨[76, 73, 83, 84], [1, 2]⟩], exFmt, [0, 0], [⟨[102, 97, 99, 116], [4, 0, 0, 0]⟩], [65, 65, 65, 65, 65],
       [76, 73, 83, 84, 2, 0, 0, 0, 9, 9]⟩),
    ([97, 46, 119, 97, 118], ⟨[], exFmt, [], [], [], []⟩) ]

instance (d : Desc) : Decidable d.Valid := by unfold Desc.Valid; exact inferInstance

example : (∀ s ∈ exSrcs, s.2.Valid) ∧ (∀ s ∈ exSrcs, s.2.fmt16 = exFmt) ∧
    (∀ s ∈ exSrcs, (nameOf s.1).length ≤ nameMax ∧ ∀ x ∈ nameOf s.1, x ≠ 0) ∧
    headerSize + exSrcs.length * entrySize + (exSrcs.map (·.2.data.length)).sum ≤ offsetLimit ∧
    exSrcs.length * 16 ≤ allocCap := by decide
example : Str.NoDupCI (fun s : Bytes × Desc => nameOf s.1) exSrcs := by unfold Str.NoDupCI; decide
/-- the order-compatibility hypothesis of `C03_names_sorted` holds on this set … -/
theorem C03_order_compatible_example : ∀ s ∈ exSrcs, ∀ t ∈ exSrcs,
    Str.ltCI (Path.getFilename t.1) (Path.getFilename s.1) = false → Str.ltCI (nameOf t.1) (nameOf s.1) = false := by decide
/-- … and the names come out as `a`, `A_1`, `b` -/
example : (sortedSrcs exSrcs).map (fun s => nameOf s.1) = [[97], [65, 95, 49], [98]] := by decide

def exWav : Desc := ⟨[], exFmt, [], [], [66, 66, 66, 66], []⟩
def bytesOf? : Res Archive → Option Bytes
  | .ok a => some a.toBytes
  | _ => none
/-- the model's archive for this set is, byte for byte, what the frozen reference encoder writes for
    `(a, ""), (A_1, "AAAAA"), (b, "BBBB")` — in particular nothing of the LIST chunk behind `A_1`'s data (D8) -/
example : bytesOf? (create (filesOf exSrcs)) =
    some (Spec.encode (exFmt ++ [0, 0]) [([97], []), ([65, 95, 49], [65, 65, 65, 65, 65]), ([98], [66, 66, 66, 66])]) := by decide
/-- refusal examples: a ninth name character; names equal ignoring case; a text file -/
example : bytesOf? (create [([97, 98, 99, 100, 101, 102, 103, 104, 105, 46, 119], ⟨exWav.enc, 0⟩)]) = none := by decide
example : bytesOf? (create [([97, 46, 119], ⟨exWav.enc, 0⟩), ([65, 46, 119, 97, 118], ⟨exWav.enc, 0⟩)]) = none := by decide
example : bytesOf? (create [([97, 46, 119], ⟨[104, 101, 108, 108, 111, 32, 119, 111, 114, 108, 100, 33, 33, 33, 33, 33, 33, 33, 33, 33, 33], 0⟩)]) = none := by decide

/-! ## names in order, unconditionally for bare paths over the property's alphabet -/

/-- for bare paths `stem` / `stem.ext` whose stem characters are above '.' (letters, digits, underscore) and contain no
    '/', stripping the extension does not change how two paths compare -/
theorem C03_order_compatible_bare (stemS stemT : Bytes) (sfxS sfxT : Suffix)
    (hS : StemOk stemS) (hT : StemOk stemT) (hxS : sfxS.Ok) (hxT : sfxT.Ok)
    (h : Str.ltCI (Path.getFilename (stemT ++ sfxT.bytes)) (Path.getFilename (stemS ++ sfxS.bytes)) = false) :
    Str.ltCI (nameOf (stemT ++ sfxT.bytes)) (nameOf (stemS ++ sfxS.bytes)) = false := by
  rw [(bare_names stemS sfxS hS hxS).1, (bare_names stemT sfxT hT hxT).1] at h
  rw [(bare_names stemS sfxS hS hxS).2, (bare_names stemT sfxT hT hxT).2]
  cases hlt : Str.ltCI stemT stemS
  · rfl
  · have := ltCI_stems stemT stemS sfxT sfxS (fun x hx => ⟨(hT.2 x hx).1, (hT.2 x hx).2.1⟩)
      (fun x hx => ⟨(hS.2 x hx).1, (hS.2 x hx).2.1⟩) hlt
    rw [this] at h; cases h

/-- **names come out in case-insensitive order**: for sources given as bare `stem[.ext]` paths with stems over the
    property's alphabet and pairwise distinct ignoring case, the archive order is strictly increasing by name -/
theorem C03_names_sorted_bare (srcs : List (Bytes × Desc))
    (hbare : ∀ s ∈ srcs, ∃ stem sfx, s.1 = stem ++ Suffix.bytes sfx ∧ StemOk stem ∧ sfx.Ok)
    (hdistinct : Str.NoDupCI (fun s : Bytes × Desc => nameOf s.1) srcs) :
    Str.SortedS (fun s : Bytes × Desc => nameOf s.1) (sortedSrcs srcs) := by
  apply C03_names_sorted srcs _ hdistinct
  intro s hs t ht h
  obtain ⟨stemS, sfxS, es, hS, hxS⟩ := hbare s hs
  obtain ⟨stemT, sfxT, et, hT, hxT⟩ := hbare t ht
  rw [es, et] at h ⊢
  exact C03_order_compatible_bare stemS stemT sfxS sfxT hS hT hxS hxT h

/-- the example set consists of such paths -/
example : ∀ s ∈ exSrcs, ∃ stem sfx, s.1 = stem ++ Suffix.bytes sfx ∧ StemOk stem ∧ sfx.Ok := by
  intro s hs
  simp only [exSrcs, List.mem_cons, List.not_mem_nil, or_false] at hs
  rcases hs with rfl | rfl | rfl
  · exact ⟨[98], .withExt [119, 97, 118], rfl, ⟨by simp, by decide⟩, by show ∀ x ∈ _, _; decide⟩
  · exact ⟨[65, 95, 49], .withExt [87, 65, 86], rfl, ⟨by simp, by decide⟩, by show ∀ x ∈ _, _; decide⟩
  · exact ⟨[97], .withExt [119, 97, 118], rfl, ⟨by simp, by decide⟩, by show ∀ x ∈ _, _; decide⟩

/-- for bare paths over the property's alphabet, two names equal ignoring case are always refused, wherever they stand -/
theorem C03_duplicates_refused_bare (files : List (Bytes × Content)) (hlen : ∀ f ∈ files, f.2.len < 2 ^ 63)
    (hbare : ∀ f ∈ files, ∃ stem sfx, f.1 = stem ++ Suffix.bytes sfx ∧ StemOk stem ∧ sfx.Ok)
    (hdup : ¬ Str.NoDupCI (fun f : Bytes × Content => nameOf f.1) files) : create files = .err := by
  apply C03_duplicates_refused files hlen _ hdup
  intro s hs t ht h
  obtain ⟨stemS, sfxS, es, hS, hxS⟩ := hbare s hs
  obtain ⟨stemT, sfxT, et, hT, hxT⟩ := hbare t ht
  rw [es, et] at h ⊢
  exact C03_order_compatible_bare stemS stemT sfxS sfxT hS hT hxS hxT h

/-! ## names in order, unconditionally, for paths with a directory part -/

/-- a path as the property hands it over: bare `stem[.ext]`, or `dir/stem[.ext]` for **any** byte string `dir`
    (relative or rooted, any number of levels, doubled or trailing separators, empty — a leading "/" —, any bytes);
    the stem is over the property's alphabet (`StemOk`: non-empty, every byte above '.' and below 255, no '/'), the
    extension (if any) contains neither '.' nor '/' -/
def PathOk (p : Bytes) : Prop :=
  ∃ stem sfx, StemOk stem ∧ Suffix.Ok sfx ∧
    (p = stem ++ Suffix.bytes sfx ∨ ∃ dir : Bytes, p = dir ++ [Path.sep] ++ stem ++ Suffix.bytes sfx)

/-- the directory part does not reach the file name or the stored name: for every `dir` other than `"/"` itself,
    `dir/stem[.ext]` has file name `stem[.ext]` and name `stem`.  (Side condition found: `"//stem.ext"` is a *root
    name* for `std::experimental::filesystem::path` — one component — so there `filename()` is the whole string and the
    name is `"//stem"`; see `C03_rootname_names`.) -/
theorem C03_dir_names (dir stem : Bytes) (sfx : Suffix) (hS : StemOk stem) (hx : sfx.Ok) (hd : dir ≠ [Path.sep]) :
    Path.getFilename (dir ++ [Path.sep] ++ stem ++ Suffix.bytes sfx) = stem ++ Suffix.bytes sfx ∧
    nameOf (dir ++ [Path.sep] ++ stem ++ Suffix.bytes sfx) = stem :=
  dir_names dir stem sfx hS hx hd

/-- the corner excluded above: `"//stem[.ext]"` keeps its two slashes in the file name and in the name -/
theorem C03_rootname_names (stem : Bytes) (sfx : Suffix) (hS : StemOk stem) (hx : sfx.Ok) :
    Path.getFilename ([Path.sep] ++ [Path.sep] ++ stem ++ Suffix.bytes sfx) = Path.sep :: Path.sep :: stem ++ Suffix.bytes sfx ∧
    nameOf ([Path.sep] ++ [Path.sep] ++ stem ++ Suffix.bytes sfx) = Path.sep :: Path.sep :: stem :=
  rootName_names stem sfx hS hx

/-- the general form of the path lemma: whatever precedes the last separator (except a lone "/"), the file name and the
    name of `B/n` are those of `n`, for every non-empty separator-free `n` -/
theorem C03_dir_transparent (B n : Bytes) (hn : n ≠ [] ∧ Path.sep ∉ n) (hB : B ≠ [Path.sep]) :
    Path.getFilename (B ++ Path.sep :: n) = Path.getFilename n ∧ nameOf (B ++ Path.sep :: n) = nameOf n :=
  ⟨Path.getFilename_dir B n hn hB, nameOf_dir B n hn hB⟩

/-- for paths that are bare or directory-qualified (each independently, any directories — `"/"` included, since '/'
    itself sorts above '.'), stripping the extension does not change how two paths compare -/
theorem C03_order_compatible_dirs (s t : Bytes) (hs : PathOk s) (ht : PathOk t)
    (h : Str.ltCI (Path.getFilename t) (Path.getFilename s) = false) :
    Str.ltCI (nameOf t) (nameOf s) = false := by
  have shape : ∀ p, PathOk p → NameShape p := by
    intro p hp
    obtain ⟨stem, sfx, hS, hx, e | ⟨dir, e⟩⟩ := hp
    · rw [e]; exact shape_bare stem sfx hS hx
    · rw [e]; exact shape_dir_any dir stem sfx hS hx
  exact compat_of_shape s t (shape s hs) (shape t ht) h

/-- **names come out in case-insensitive order**, whatever directories the sources are in: for sources given as
    `stem[.ext]` or `dir/stem[.ext]` (any mix, any directories) with stems over the property's alphabet and names
    pairwise distinct ignoring case, the archive order is strictly increasing by name — the directory part plays no
    role in the order -/
theorem C03_names_sorted_dirs (srcs : List (Bytes × Desc))
    (hpaths : ∀ s ∈ srcs, PathOk s.1)
    (hdistinct : Str.NoDupCI (fun s : Bytes × Desc => nameOf s.1) srcs) :
    Str.SortedS (fun s : Bytes × Desc => nameOf s.1) (sortedSrcs srcs) := by
  apply C03_names_sorted srcs _ hdistinct
  intro s hs t ht h
  exact C03_order_compatible_dirs s.1 t.1 (hpaths s hs) (hpaths t ht) h

/-- for such paths, two names equal ignoring case are always refused, wherever they stand and whichever directories
    they come from (`a/Track.wav` and `b/TRACK.WAV` cannot both be packed) -/
theorem C03_duplicates_refused_dirs (files : List (Bytes × Content)) (hlen : ∀ f ∈ files, f.2.len < 2 ^ 63)
    (hpaths : ∀ f ∈ files, PathOk f.1)
    (hdup : ¬ Str.NoDupCI (fun f : Bytes × Content => nameOf f.1) files) : create files = .err := by
  apply C03_duplicates_refused files hlen _ hdup
  intro s hs t ht h
  exact C03_order_compatible_dirs s.1 t.1 (hpaths s hs) (hpaths t ht) h

/-- non-vacuity: `base/mike.wav`, `base/Zulu.wav`, `extra/Alpha.wav`, `bravo.wav`, `/abs/deep//Echo.WAV` — bare and
    directory-qualified paths mixed, and the order of the directories (`/abs/deep/` < `base` < `extra`) contradicts
    the order of the names -/
def exDirSrcs : List (Bytes × Desc) :=
  [ ([98, 97, 115, 101, 47, 109, 105, 107, 101, 46, 119, 97, 118], exWav),
    ([98, 97, 115, 101, 47, 90, 117, 108, 117, 46, 119, 97, 118], exWav),
    ([101, 120, 116, 114, 97, 47, 65, 108, 112, 104, 97, 46, 119, 97, 118], exWav),
    ([98, 114, 97, 118, 111, 46, 119, 97, 118], exWav),
    ([47, 97, 98, 115, 47, 100, 101, 101, 112, 47, 47, 69, 99, 104, 111, 46, 87, 65, 86], exWav) ]

example : ∀ s ∈ exDirSrcs, PathOk s.1 := by
  intro s hs
  simp only [exDirSrcs, List.mem_cons, List.not_mem_nil, or_false] at hs
  rcases hs with rfl | rfl | rfl | rfl | rfl
  · exact ⟨[109, 105, 107, 101], .withExt [119, 97, 118], ⟨by simp, by decide⟩, by show ∀ x ∈ _, _; decide, Or.inr ⟨[98, 97, 115, 101], rfl⟩⟩
  · exact ⟨[90, 117, 108, 117], .withExt [119, 97, 118], ⟨by simp, by decide⟩, by show ∀ x ∈ _, _; decide, Or.inr ⟨[98, 97, 115, 101], rfl⟩⟩
  · exact ⟨[65, 108, 112, 104, 97], .withExt [119, 97, 118], ⟨by simp, by decide⟩, by show ∀ x ∈ _, _; decide, Or.inr ⟨[101, 120, 116, 114, 97], rfl⟩⟩
  · exact ⟨[98, 114, 97, 118, 111], .withExt [119, 97, 118], ⟨by simp, by decide⟩, by show ∀ x ∈ _, _; decide, Or.inl rfl⟩
  · exact ⟨[69, 99, 104, 111], .withExt [87, 65, 86], ⟨by simp, by decide⟩, by show ∀ x ∈ _, _; decide, Or.inr ⟨[47, 97, 98, 115, 47, 100, 101, 101, 112, 47], rfl⟩⟩
example : Str.NoDupCI (fun s : Bytes × Desc => nameOf s.1) exDirSrcs := by unfold Str.NoDupCI; decide
/-- the names come out as `Alpha`, `bravo`, `Echo`, `mike`, `Zulu` … -/
example : (sortedSrcs exDirSrcs).map (fun s => nameOf s.1) = [[65, 108, 112, 104, 97], [98, 114, 97, 118, 111], [69, 99, 104, 111], [109, 105, 107, 101], [90, 117, 108, 117]] := by decide
/-- … whereas the paths as given, compared as whole strings, would start with `/abs/deep//Echo.WAV` -/
example : (sortedSrcs exDirSrcs).map (·.1) =
    [[101, 120, 116, 114, 97, 47, 65, 108, 112, 104, 97, 46, 119, 97, 118],
     [98, 114, 97, 118, 111, 46, 119, 97, 118],
     [47, 97, 98, 115, 47, 100, 101, 101, 112, 47, 47, 69, 99, 104, 111, 46, 87, 65, 86],
     [98, 97, 115, 101, 47, 109, 105, 107, 101, 46, 119, 97, 118],
     [98, 97, 115, 101, 47, 90, 117, 108, 117, 46, 119, 97, 118]] := by decide
/-- and a duplicate across directories (`base/mike.wav`, `extra/MIKE.WAV`) is refused -/
example : bytesOf? (create [([98, 97, 115, 101, 47, 109, 105, 107, 101, 46, 119, 97, 118], ⟨exWav.enc, 0⟩),
    ([98, 114, 97, 118, 111, 46, 119, 97, 118], ⟨exWav.enc, 0⟩), ([101, 120, 116, 114, 97, 47, 77, 73, 75, 69, 46, 87, 65, 86], ⟨exWav.enc, 0⟩)]) = none := by decide

end Op2.Props.C03
