import Op2Model.Clm
import Op2Model.Gen.Layout
import Op2Model.Gen.Constants
/-!
# C03 — CLM pack → reopen → extract preserves every track's audio data and format
-/
namespace Op2.Props.C03
open Op2 Op2.Clm

/-! ## bridging lemmas: facts regenerated from the current source are the model's -/

theorem C03_gen_version : Gen.Constants.clm_fileVersion = Clm.version.map (·.toNat) := by decide
theorem C03_gen_unknown : Gen.Constants.clm_unknown = Clm.unknown.map (·.toNat) := by decide
theorem C03_gen_header_layout :
    Gen.Layout.size_ClmHeader = Clm.headerSize ∧ Gen.Layout.off_ClmHeader_waveFormat = 32 ∧
    Gen.Layout.off_ClmHeader_unknown = 50 ∧ Gen.Layout.off_ClmHeader_packedFilesCount = 56 ∧
    Gen.Layout.size_WaveFormatEx = Wave.formatSize := by decide
theorem C03_gen_index_layout :
    Gen.Layout.size_ClmIndexEntry = Clm.entrySize ∧ Gen.Layout.off_ClmIndexEntry_dataOffset = 8 ∧
    Gen.Layout.off_ClmIndexEntry_dataLength = 12 := by decide
theorem C03_gen_wave_layout :
    Gen.Layout.size_RiffHeader = Wave.riffHeaderSize ∧ Gen.Layout.size_ChunkHeader = Wave.chunkHeaderSize ∧
    Gen.Layout.size_FormatChunk = 26 ∧ Gen.Layout.size_WaveHeader = 46 := by decide
/-- the frozen description's header constants are the ones the library writes -/
theorem C03_spec_constants : Spec.versionText = Clm.version ∧ Spec.unknownBytes = Clm.unknown := by decide

end Op2.Props.C03
