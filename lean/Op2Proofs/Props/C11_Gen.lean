import Op2Proofs.GenValidate
/-!
# C11 — bridging lemma: the two argument checks of `ImageHeader::Create` (`VerifyValidBitCount`, `VerifyDimensions`,
`src/Bitmap/ImageHeader.cpp`), as translated from the current C++ on this run, refuse exactly what the model's
`ImageHeader.create` refuses — in particular a negative width and the height `INT32_MIN`, the two values on which the
no-fault theorems of `C11_Bmp.lean` rest (`std::abs(INT32_MIN)`, `height *= -1`).
-/
set_option linter.unusedSimpArgs false
set_option linter.unusedVariables false
namespace Op2.Props.C11
open Op2 Op2.Bmp Op2.GenBridge Op2.GenValidate
open Op2.Gen.Validate

theorem C11_gen_create_guards :
    (ImageHeader_VerifyValidBitCount_translated && ImageHeader_VerifyDimensions_translated) = true →
    ∀ (bits : Nat) (w h : Int), bits < W16 → I32_MIN ≤ w → w ≤ I32_MAX → I32_MIN ≤ h → h ≤ I32_MAX →
      ((ImageHeader_VerifyValidBitCount bits).bind fun _ => ImageHeader_VerifyDimensions w h) =
        returns (ImageHeader.create w h bits).isOk := by
  gen_bridge =>
    intro bits w h
    simp only [ImageHeader.create]
    by_cases hG : (bits ∈ validBitCounts ∧ 0 ≤ w ∧ h ≠ I32_MIN)
    · simp only [if_pos hG, Except.isOk, Except.toBool, returns_true]
      simp only [validBitCounts, List.mem_cons, List.mem_nil_iff, or_false, W16, I32_MIN, I32_MAX] at *
      intro h1 h2 h3 h4 h5
      gen_validate_unfold; genv_norm; genv_close
    · simp only [if_neg hG, Except.isOk, Except.toBool, returns_false]
      simp only [validBitCounts, List.mem_cons, List.mem_nil_iff, or_false, W16, I32_MIN, I32_MAX] at *
      intro h1 h2 h3 h4 h5
      gen_validate_unfold; genv_norm; genv_close

end Op2.Props.C11
