import Op2Proofs.Props.C12_Gen
/-!
# C13 — bridging lemmas: creation of slices.  The constructor `SliceReader(wrapped, start, length)` (with
`Initialize()`), `Slice(start, length) const` and `Slice(length)`, as translated from the current C++ on this run,
are the model's `Slice.create`, `Slice.slice2`, `Slice.slice1` (shown on the recording stream `probeW`, see
`C12_Gen.lean`): same refusals — the wrap tests included — same window, same seek of the wrapped stream.
-/
set_option linter.unusedSimpArgs false
set_option linter.unusedVariables false
namespace Op2.Props.C13
open Op2 Op2.Stream Op2.GenBridge
open Op2.Gen.Streams
open Op2.Props.C12 (probeSlice ProbeGood)

/-- what the generated constructor can see of a created slice: `startingOffset`, `sliceLength`, the position the
    wrapped stream was sent to -/
def sliceView (t : Slice Probe) : Int × Int × Int := ((t.start : Int), (t.len : Int), t.w.arg)

/-- the constructor: overflow test on `start + length`, end test against the wrapped stream's length, seek to `start` -/
theorem C13_gen_slice_create : (SliceReader_Create_translated && SliceReader_Initialize_translated) = true →
    ∀ (wl wp start len : Nat), wl < W64 → start < W64 → len < W64 →
      SliceReader_Create wl start len = okOr sliceView (Slice.create probeW { length := wl, position := wp } start len) := by
  gen_bridge =>
    intro wl wp start len h1 h2 h3
    simp only [Slice.create, probeW]
    (repeat' split) <;> simp only [sliceView, okOr_ok, okOr_error, reduceCtorEq] at * <;>
    simp only [SliceReader_Create, SliceReader_Initialize, bind_ite, bind_none', bind_some', u64, W64] at * <;> gen_close

/-- `Initialize()` on its own (copy constructor path): end test and seek.  Stated where `Initialize` is reachable — both
    constructors have established that `start + len` does not wrap (the slicing constructor by its overflow test, the copy
    constructor because it copies the members of an existing slice) — so a spelling of the end test that is equal only without
    wrap-around (`start > N || len > N - start`) is accepted, as it must be. -/
theorem C13_gen_slice_initialize : SliceReader_Initialize_translated = true →
    ∀ (wl start len : Nat), wl < W64 → start + len < W64 →
      SliceReader_Initialize start len wl =
        if start + len > wl then none else some (start : Int) := by
  gen_bridge =>
    intro wl start len h1 h2
    split <;> simp only [SliceReader_Initialize, u64, W64] at * <;> gen_close

/-- `Slice(start, length) const` followed by the construction it returns = the model's `slice2` -/
theorem C13_gen_subslice : (SliceReader_Slice2_translated && SliceReader_Create_translated &&
      SliceReader_Initialize_translated) = true →
    ∀ (wl wp start len a n : Nat), ProbeGood wl start len wp → a < W64 → n < W64 →
      (SliceReader_Slice2 start len wp a n).bind (fun c => SliceReader_Create wl c.1 c.2) =
        okOr sliceView (Slice.slice2 probeW (probeSlice wl start len wp) a n) := by
  gen_bridge =>
    intro wl wp start len a n hg h5 h6
    obtain ⟨g1, g2, g3, g4⟩ := hg
    simp only [Slice.slice2, Slice.create, probeW, probeSlice]
    (repeat' split) <;> simp only [sliceView, okOr_ok, okOr_error, reduceCtorEq] at * <;>
    simp only [SliceReader_Slice2, SliceReader_Create, SliceReader_Initialize, bind_ite, bind_none', bind_some', u64, W64] at * <;> gen_close

/-- `Slice(length)` is `Slice(Position(), length)` followed by `SeekForward(length)` on this slice — the definition of
    the model's `slice1` in terms of `slice2` and `fwd`, whose generated counterparts are tied above and in `C12_Gen`;
    it fails when either step fails and reports both the construction and the distance advanced -/
theorem C13_gen_slice_at_position : (SliceReader_Slice1_translated && SliceReader_Slice2_translated &&
      SliceReader_SeekForward_translated && SliceReader_Position_translated) = true →
    ∀ (start len wp n : Int),
      SliceReader_Slice1 start len wp n =
        (SliceReader_Position start len wp).bind fun p =>
        (SliceReader_Slice2 start len wp p n).bind fun (c0, c1) =>
        (SliceReader_SeekForward start len wp n).bind fun f => some (c0, c1, f) := by
  gen_bridge =>
    intro start len wp n
    simp only [SliceReader_Slice1, SliceReader_Position, bind_some']

end Op2.Props.C13
