import Op2Proofs.Props.C08
import Op2Proofs.Bmp.RoundTrip
/-!
# C08 — write-then-read round trips (`WriteIndexed` followed by `ReadIndexed`)

Helper lemmas: `Op2Proofs/Bmp/RoundTrip.lean` (`read_written`, `normalize`, `shape_rt`).
-/
namespace Op2.Props.C08
open Op2 Op2.Bmp

/-- whatever the reader accepted can be written, and the written bytes read back with the same geometry and depth, the
    palette extended entry for entry to `2^bits` colours, and every stored row equal to its meaningful bytes followed by
    zero padding -/
theorem C08_rt (b : Bytes) (f : Bmp) (h : Bmp.read b = .ok f) :
    ∃ w f', write f = .ok w ∧ Bmp.read w = .ok f' ∧
      f'.ih.width = f.ih.width ∧ f'.ih.height = f.ih.height ∧ f'.ih.bitCount = f.ih.bitCount ∧
      f.palette <+: f'.palette ∧ f'.palette.length = 2 ^ f.ih.bitCount ∧
      f'.pixels.length = f.pixels.length ∧
      storedRows f'.pixels (pitch f.ih.bitCount f.ih.width) f.ih.height.natAbs =
        (storedRows f.pixels (pitch f.ih.bitCount f.ih.width) f.ih.height.natAbs).map
          (fun r => r.take (pixByteWidth f.ih.bitCount f.ih.width) ++
                    zeros (pitch f.ih.bitCount f.ih.width - pixByteWidth f.ih.bitCount f.ih.width)) := by
  have L := read_loaded h
  refine ⟨Loaded.written f, normalize f, L.write_ok, read_written L, rfl, rfl, rfl, ?_, L.fullPalette_length,
          normalize_pixels_length L, ?_⟩
  · exact List.prefix_append _ _
  · exact storedRows_padded _ _ _ _ (pixByteWidth_le_pitch _ _) (by rw [L.npix, Nat.mul_comm]; exact Nat.le_refl _)

/-- a 1-bit 1×1 file: 14 + 40 header bytes, two palette entries, one padded row -/
def sample : Bytes :=
  [0x42, 0x4D, 0x42, 0, 0, 0, 0, 0, 0, 0, 0x3E, 0, 0, 0,
   0x28, 0, 0, 0, 1, 0, 0, 0, 1, 0, 0, 0, 1, 0, 1, 0, 0, 0, 0, 0, 0, 0, 0, 0, 0, 0, 0, 0, 0, 0, 0, 0, 0, 0, 0, 0, 0, 0, 0, 0,
   0, 0, 0, 0, 0xFF, 0xFF, 0xFF, 0,
   0x80, 0, 0, 0]

/-- non-vacuity: the reader accepts `sample` -/
example : (Bmp.read sample).isOk = true := by decide

/-- padding bytes of every stored row are zero -/
def CleanPadding (f : Bmp) : Prop :=
  ∀ r ∈ storedRows f.pixels (pitch f.ih.bitCount f.ih.width) f.ih.height.natAbs,
    r.drop (pixByteWidth f.ih.bitCount f.ih.width) = zeros (pitch f.ih.bitCount f.ih.width - pixByteWidth f.ih.bitCount f.ih.width)

/-- `CreateIndexed(bitCount, width, height)`: what it returns is written and read back unchanged -/
theorem C08_factory_rt1 (bits w : Nat) (h : Int) (f : Bmp) (hh : -2147483648 ≤ h ∧ h < 2147483648)
    (hc : create1 bits w h = .ok f) : ∃ wr, write f = .ok wr ∧ Bmp.read wr = .ok f := by
  obtain ⟨s, hs, e⟩ := create1_inv hc
  subst e
  exact shape_rt_zeros hs hh _ (by rw [List.length_replicate]; exact (createShape_ok hs).2.2.2.2.2.2.2.2.2)

/-- `CreateIndexed(bitCount, width, height, palette)` -/
theorem C08_factory_rt2 (bits w : Nat) (h : Int) (pal : List Color) (f : Bmp) (hh : -2147483648 ≤ h ∧ h < 2147483648)
    (hc : create2 bits w h pal = .ok f) : ∃ wr, write f = .ok wr ∧ Bmp.read wr = .ok f := by
  obtain ⟨s, hs, hp, e⟩ := create2_inv hc
  subst e
  exact shape_rt_zeros hs hh _ (create2_palette_length (createShape_ok hs).2.2.2.2.2.2.2.2.2 hp)

/-- `CreateIndexed(bitCount, width, height, palette, pixels)`: unchanged when the supplied rows have zero padding -/
theorem C08_factory_rt3 (bits w : Nat) (h : Int) (pal : List Color) (px : Bytes) (f : Bmp)
    (hh : -2147483648 ≤ h ∧ h < 2147483648) (hc : create3 bits w h pal px = .ok f) (hp : CleanPadding f) :
    ∃ wr, write f = .ok wr ∧ Bmp.read wr = .ok f := by
  obtain ⟨s, hs, hl, e, hv⟩ := create3_inv hc
  subst e
  exact shape_rt hs hh _ px (create2_palette_length (createShape_ok hs).2.2.2.2.2.2.2.2.2 hl) (verify_npix hs hv) hp

/-- non-vacuity of the factory round trips: each factory returns an object for small arguments -/
example : (create1 8 3 (-2)).isOk = true := by decide
example : (create2 4 5 2 [⟨1, 2, 3, 0⟩]).isOk = true := by decide
example : (create3 1 1 1 [] [0x80, 0, 0, 0]).isOk = true := by decide

/-- the hypothesis `CleanPadding` of `C08_factory_rt3` cannot be dropped: a supplied row with a non-zero padding byte is
    accepted by the factory and comes back changed (the writer zeroes the padding) -/
example : ∃ f wr f', create3 1 1 1 [] [0x80, 1, 0, 0] = .ok f ∧ write f = .ok wr ∧ Bmp.read wr = .ok f' ∧ f' ≠ f :=
  ⟨_, _, _, rfl, rfl, rfl, by decide⟩

end Op2.Props.C08
