import Op2Model.Res
import Op2Model.Vol
import Op2Proofs.Props.C19
/-!
# C17 — name lookup and resource resolution are case-blind, consistent, loose-file-first

Archives are seen through their member names (index order) and bytes; the directory layout, the archive load order and
the pattern predicate are parameters, so every statement holds for every order and every pattern.
-/
namespace Op2.Props.C17
open Op2 Op2.Res Op2.Path

/-! ## lookup in one archive -/

theorem findIdx_some_iff_any {α : Type} (p : α → Bool) (l : List α) : (∃ i, l.findIdx? p = some i) ↔ l.any p = true := by
  induction l with
  | nil => simp
  | cons x xs ih =>
    simp only [List.findIdx?_cons, List.any_cons, Bool.or_eq_true]
    by_cases hx : p x = true
    · simp [hx]
    · simp only [hx, Bool.false_eq_true, if_false, false_or]
      rw [← ih]
      constructor
      · rintro ⟨i, hi⟩
        cases h : xs.findIdx? p with
        | none => simp [h] at hi
        | some j => exact ⟨j, rfl⟩
      · rintro ⟨j, hj⟩; exact ⟨j + 1, by simp [hj]⟩

/-- membership and index lookup agree -/
theorem C17_contains_iff_index (a : Arch) (n : Bytes) : a.contains n = true ↔ ∃ i, a.index n = some i := by
  unfold Arch.contains Arch.index
  exact (findIdx_some_iff_any _ _).symm

/-- the index returned names a member equal to the query (ignoring case and a leading `./`), and no earlier member is -/
theorem C17_index_names_member (a : Arch) (n : Bytes) (i : Nat) (h : a.index n = some i) :
    ∃ hi : i < a.names.length, pathsAreEqual a.names[i] n = true ∧
      ∀ j (hj : j < i), pathsAreEqual (a.names[j]'(Nat.lt_trans hj hi)) n = false := by
  unfold Arch.index at h
  have h1 := List.findIdx?_eq_some_iff_getElem.mp h
  obtain ⟨hi, hp, hlt⟩ := h1
  refine ⟨hi, hp, ?_⟩
  intro j hj
  have := hlt j hj
  simpa using this

/-- lookup does not depend on how the query is spelled: spellings equal under `PathsAreEqual` (letter case, leading
    `./`) find the same index and give the same membership answer -/
theorem C17_lookup_spelling (a : Arch) (n n' : Bytes) (h : pathsAreEqual n n' = true) :
    a.index n = a.index n' ∧ a.contains n = a.contains n' := by
  have key : ∀ m : Bytes, pathsAreEqual m n = pathsAreEqual m n' := by
    intro m
    cases h1 : pathsAreEqual m n with
    | true =>
      exact (C19.C19_pathEq_trans m n n' h1 h).symm
    | false =>
      cases h2 : pathsAreEqual m n' with
      | false => rfl
      | true =>
        have := C19.C19_pathEq_trans m n' n h2 (C19.C19_pathEq_symm n n' h)
        rw [h1] at this; exact this
  unfold Arch.index Arch.contains
  have : (fun m => pathsAreEqual m n) = (fun m => pathsAreEqual m n') := funext key
  rw [this]; exact ⟨rfl, rfl⟩

/-- in particular lookup is blind to letter case -/
theorem C17_lookup_case_blind (a : Arch) (n n' : Bytes) (h : Str.eqCI n n' = true) :
    a.index n = a.index n' ∧ a.contains n = a.contains n' :=
  C17_lookup_spelling a n n' (C19.C19_pathEq_contains_eqCI n n' h)

/-- … and to a leading `./` on any relative name -/
theorem C17_lookup_ignores_dot_slash (a : Arch) (n : Bytes) (hrel : n.head? ≠ some sep) :
    a.index ([dot, sep] ++ n) = a.index n ∧ a.contains ([dot, sep] ++ n) = a.contains n :=
  C17_lookup_spelling a _ _ (C19.C19_pathEq_ignores_leading_dot_slash n hrel)

/-- in a duplicate-free archive looking up the i-th name returns i -/
theorem C17_self_index (a : Arch) (hnd : ∀ i j (hi : i < a.names.length) (hj : j < a.names.length), i ≠ j →
      pathsAreEqual a.names[i] a.names[j] = false) (i : Nat) (hi : i < a.names.length) :
    a.index a.names[i] = some i := by
  unfold Arch.index
  rw [List.findIdx?_eq_some_iff_getElem]
  refine ⟨hi, C19.C19_pathEq_refl _, ?_⟩
  intro j hj
  have := hnd j i (Nat.lt_trans hj hi) hi (by omega)
  simp [this]

/-- out-of-range indices are refused by the per-member calls -/
theorem C17_out_of_range (a : Arch) (i : Nat) (h : a.count ≤ i) : a.name i = .error .bounds ∧ a.stream i = .error .bounds := by
  unfold Arch.name Arch.stream Arch.count at *
  have : ¬ (i < a.names.length) := by omega
  simp [this]

/-! ## resource resolution, stated outright -/

/-- rooted names are refused -/
theorem C17_rooted_refused (L : Layout) (n : Bytes) (acc : Bool) (h : hasRootComponent n = true) :
    getStream L n acc = .error .refused := by
  unfold getStream; rw [if_pos h]

/-- a loose file wins, whatever the archives hold -/
theorem C17_loose_first (L : Layout) (n b : Bytes) (acc : Bool) (hr : hasRootComponent n = false) (h : L.file n = some b) :
    getStream L n acc = .ok (some b) := by
  unfold getStream; rw [if_neg (by simp [hr]), h]

/-- with archive access disabled only loose files are considered -/
theorem C17_no_access (L : Layout) (n : Bytes) (hr : hasRootComponent n = false) (h : L.file n = none) :
    getStream L n false = .ok none := by
  unfold getStream; rw [if_neg (by simp [hr]), h]; rfl

/-- otherwise the bytes of a member of that name from the first loaded archive containing it; otherwise nothing -/
theorem C17_from_archive (L : Layout) (n : Bytes) (hr : hasRootComponent n = false) (h : L.file n = none) :
    (∀ a ∈ L.archives, a.contains n = false) ∧ getStream L n true = .ok none ∨
    ∃ a i, a ∈ L.archives ∧ a.index n = some i ∧ (∃ hi : i < a.names.length, pathsAreEqual a.names[i] n = true) ∧
      getStream L n true = .ok (some (a.contents.getD i [])) := by
  unfold getStream
  rw [if_neg (by simp [hr]), h]
  simp only [Bool.not_true, Bool.false_eq_true, if_false]
  cases hf : L.archives.find? (fun a => a.contains n) with
  | none =>
    left
    refine ⟨?_, rfl⟩
    intro a ha
    have := List.find?_eq_none.mp hf a ha
    simpa using this
  | some a =>
    right
    have hc : a.contains n = true := by simpa using List.find?_some hf
    have ha : a ∈ L.archives := List.mem_of_find?_eq_some hf
    obtain ⟨i, hi⟩ := (C17_contains_iff_index a n).mp hc
    obtain ⟨hlt, hp, _⟩ := C17_index_names_member a n i hi
    exact ⟨a, i, ha, hi, ⟨hlt, hp⟩, by simp [hi]⟩

/-- a reported containing archive is a loaded archive and really contains the name; nothing is reported only if no
    loaded archive contains it -/
theorem C17_containing (L : Layout) (n : Bytes) :
    (containing L n = none ∧ ∀ a ∈ L.archives, a.contains n = false) ∨
    ∃ a, a ∈ L.archives ∧ a.contains n = true ∧ containing L n = some a.file := by
  unfold containing
  cases hf : L.archives.find? (fun a => a.contains n) with
  | none =>
    left
    refine ⟨rfl, ?_⟩
    intro a ha
    have := List.find?_eq_none.mp hf a ha
    simpa using this
  | some a =>
    right
    exact ⟨a, List.mem_of_find?_eq_some hf, by simpa using List.find?_some hf, rfl⟩

/-! ## listings -/

/-- the pattern listing is exactly: loose names satisfying the pattern, then member names satisfying it -/
theorem C17_pattern_listing (L : Layout) (pat : Bytes → Bool) (n : Bytes) :
    n ∈ allMatching L pat true ↔
      pat n = true ∧ (n ∈ L.loose.map (·.1) ∨ ∃ a ∈ L.archives, n ∈ a.names) := by
  unfold allMatching
  simp only [Bool.not_true, Bool.false_eq_true, if_false, List.mem_append, List.mem_filter, List.mem_flatMap]
  constructor
  · rintro (⟨h1, h2⟩ | ⟨a, ha, h1, h2⟩)
    · exact ⟨h2, Or.inl h1⟩
    · exact ⟨h2, Or.inr ⟨a, ha, h1⟩⟩
  · rintro ⟨h2, h1 | ⟨a, ha, h1⟩⟩
    · exact Or.inl ⟨h1, h2⟩
    · exact Or.inr ⟨a, ha, h1, h2⟩

theorem C17_pattern_listing_no_access (L : Layout) (pat : Bytes → Bool) :
    allMatching L pat false = (L.loose.map (·.1)).filter pat := by
  unfold allMatching; simp

/-- adding the members of one archive to a type listing: what was listed stays, every addition is a member with a
    matching extension, and a member with a matching extension is left out only if a listed name equals it ignoring case -/
theorem addOfType_spec (ext : Bytes) : ∀ (ns cur : List Bytes),
    (∀ x ∈ cur, x ∈ addOfType ext cur ns) ∧
    (∀ x ∈ addOfType ext cur ns, x ∈ cur ∨ (x ∈ ns ∧ extensionMatches x ext = true)) ∧
    (∀ x ∈ ns, extensionMatches x ext = true → x ∈ addOfType ext cur ns ∨ isDup (addOfType ext cur ns) x = true) := by
  intro ns
  induction ns with
  | nil =>
    intro cur
    exact ⟨fun x h => h, fun x h => Or.inl h, fun x h => by simp at h⟩
  | cons n ns ih =>
    intro cur
    simp only [addOfType]
    by_cases hc : (extensionMatches n ext && !isDup cur n) = true
    · rw [if_pos hc]
      obtain ⟨i1, i2, i3⟩ := ih (cur ++ [n])
      have hm : extensionMatches n ext = true := by
        simp only [Bool.and_eq_true] at hc; exact hc.1
      refine ⟨fun x h => i1 x (List.mem_append_left _ h), ?_, ?_⟩
      · intro x hx
        rcases i2 x hx with h | ⟨h, h'⟩
        · rcases List.mem_append.mp h with h | h
          · exact Or.inl h
          · simp only [List.mem_singleton] at h; subst h; exact Or.inr ⟨List.mem_cons_self, hm⟩
        · exact Or.inr ⟨List.mem_cons_of_mem _ h, h'⟩
      · intro x hx hxm
        rcases List.mem_cons.mp hx with h | h
        · subst h
          -- `n` itself was just listed: it equals itself
          exact Or.inl (i1 x (List.mem_append_right _ (List.mem_singleton.mpr rfl)))
        · exact i3 x h hxm
    · rw [if_neg hc]
      obtain ⟨i1, i2, i3⟩ := ih cur
      refine ⟨i1, ?_, ?_⟩
      · intro x hx
        rcases i2 x hx with h | ⟨h, h'⟩
        · exact Or.inl h
        · exact Or.inr ⟨List.mem_cons_of_mem _ h, h'⟩
      · intro x hx hxm
        rcases List.mem_cons.mp hx with h | h
        · subst h
          have : isDup cur x = true := by
            simp only [Bool.and_eq_true, Bool.not_eq_true', not_and, Bool.not_eq_false] at hc
            exact hc hxm
          right
          unfold isDup at this ⊢
          rw [List.any_eq_true] at this ⊢
          obtain ⟨c, hc1, hc2⟩ := this
          exact ⟨c, i1 c hc1, hc2⟩
        · exact i3 x h hxm

/-- **type listing**: every loose file whose extension is the argument is listed; everything listed is such a loose
    file or a member (of a loaded archive) whose extension matches ignoring case and an optional dot; and a matching
    member is left out only when a listed name equals it ignoring case -/
theorem C17_type_listing (L : Layout) (ext : Bytes) :
    (∀ n ∈ L.loose.map (·.1), extension n = ext → n ∈ allOfType L ext true) ∧
    (∀ x ∈ allOfType L ext true, (x ∈ L.loose.map (·.1) ∧ extension x = ext) ∨
        ∃ a ∈ L.archives, x ∈ a.names ∧ extensionMatches x ext = true) ∧
    (∀ a ∈ L.archives, ∀ x ∈ a.names, extensionMatches x ext = true →
        x ∈ allOfType L ext true ∨ isDup (allOfType L ext true) x = true) := by
  unfold allOfType
  simp only [Bool.not_true, Bool.false_eq_true, if_false]
  generalize hl : (L.loose.map (·.1)).filter (fun n => extension n == ext) = loose0
  have hloose : ∀ n, n ∈ loose0 ↔ n ∈ L.loose.map (·.1) ∧ extension n = ext := by
    intro n; rw [← hl]; simp [List.mem_filter]
  -- fold over the archives, generalising the accumulator
  suffices ∀ (as : List Arch) (cur : List Bytes),
      (∀ x ∈ cur, x ∈ as.foldl (fun c a => addOfType ext c a.names) cur) ∧
      (∀ x ∈ as.foldl (fun c a => addOfType ext c a.names) cur, x ∈ cur ∨ ∃ a ∈ as, x ∈ a.names ∧ extensionMatches x ext = true) ∧
      (∀ a ∈ as, ∀ x ∈ a.names, extensionMatches x ext = true →
        x ∈ as.foldl (fun c a => addOfType ext c a.names) cur ∨ isDup (as.foldl (fun c a => addOfType ext c a.names) cur) x = true) from by
    obtain ⟨s1, s2, s3⟩ := this L.archives loose0
    refine ⟨fun n hn he => s1 n ((hloose n).mpr ⟨hn, he⟩), ?_, s3⟩
    intro x hx
    rcases s2 x hx with h | h
    · exact Or.inl ((hloose x).mp h)
    · exact Or.inr h
  intro as
  induction as with
  | nil => intro cur; exact ⟨fun x h => h, fun x h => Or.inl h, fun a ha => by simp at ha⟩
  | cons a as ih =>
    intro cur
    simp only [List.foldl_cons]
    obtain ⟨a1, a2, a3⟩ := addOfType_spec ext a.names cur
    obtain ⟨i1, i2, i3⟩ := ih (addOfType ext cur a.names)
    refine ⟨fun x h => i1 x (a1 x h), ?_, ?_⟩
    · intro x hx
      rcases i2 x hx with h | ⟨b, hb, h1, h2⟩
      · rcases a2 x h with h | ⟨h1, h2⟩
        · exact Or.inl h
        · exact Or.inr ⟨a, List.mem_cons_self, h1, h2⟩
      · exact Or.inr ⟨b, List.mem_cons_of_mem _ hb, h1, h2⟩
    · intro b hb x hx hm
      rcases List.mem_cons.mp hb with h | h
      · subst h
        rcases a3 x hx hm with h | h
        · exact Or.inl (i1 x h)
        · right
          unfold isDup at h ⊢
          rw [List.any_eq_true] at h ⊢
          obtain ⟨c, hc1, hc2⟩ := h
          exact ⟨c, i1 c hc1, hc2⟩
      · exact i3 b h x hx hm

/-- non-vacuity: a concrete layout in which a loose file shadows an archive member spelled in another letter case -/
def exArch : Arch := { file := [120, 46, 118, 111, 108], names := [[65, 46, 84, 88, 84]], contents := [[1, 2, 3]] }
def exLayout : Layout := { loose := [([97, 46, 116, 120, 116], [9])], dirs := [], sub := [], archives := [exArch] }
def okIs (r : Except Err (Option Bytes)) (b : Option Bytes) : Bool := match r with | .ok x => x == b | .error _ => false
example : okIs (getStream exLayout [97, 46, 116, 120, 116] true) (some [9]) = true ∧
    okIs (getStream exLayout [65, 46, 116, 120, 116] true) (some [1, 2, 3]) = true ∧
    okIs (getStream exLayout [65, 46, 116, 120, 116] false) none = true := by decide

/-! ## out-of-range indices on the VOL object itself

`Vol.View` (the opened archive of `Op2Model/Vol.lean`, tied to `VolFile` by the C02/C05/C17 runs) distinguishes the member
count from the number of index slots: a foreign archive may have unused trailing slots, and an index that names such a slot
is as out of range as any other. -/

theorem C17_vol_out_of_range (v : Vol.View) (i : Nat) (h : v.count ≤ i) :
    v.name i = .error (.err .bounds) ∧ v.size i = .error (.err .bounds) ∧ v.kind i = .error (.err .bounds) ∧
    v.stream i = .error (.err .bounds) ∧ v.extract i = .error (.err .bounds) ∧ v.lzhLoad i = .error (.err .bounds) := by
  have hv : v.verify i = .error (.err .bounds) := by unfold Vol.View.verify; rw [if_pos h]
  have he : v.entry i = .error (.err .bounds) := by unfold Vol.View.entry; rw [hv]
  have hb : v.blockHeader i = .error (.err .bounds) := by unfold Vol.View.blockHeader; rw [he]
  refine ⟨?_, ?_, ?_, ?_, ?_, ?_⟩
  · unfold Vol.View.name; rw [hv]
  · unfold Vol.View.size; rw [he]; rfl
  · unfold Vol.View.kind; rw [he]; rfl
  · unfold Vol.View.stream; rw [hb]
  · unfold Vol.View.extract; rw [he]
  · unfold Vol.View.lzhLoad; rw [hb]

/-- non-vacuity: more slots than members -/
example : ∃ v : Vol.View, v.count = 1 ∧ v.entries.length = 3 ∧ v.size 1 = .error (.err .bounds) :=
  ⟨{ file := [], names := [[97]], count := 1, entries := [default, default, default] }, rfl, rfl, rfl⟩

end Op2.Props.C17
