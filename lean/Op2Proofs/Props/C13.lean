import Op2Proofs.SliceNesting
/-!
# C13 — slices are confined, independent, and equivalent across stream backends
-/
namespace Op2.Props.C13
open Op2 Op2.Stream

variable {σ : Type} {W : Wrapped σ} {ab : σ → RSpec} {G : σ → Prop}

/-! ## a slice `[s, s+n)` exposes exactly those bytes as positions `0..n` -/

/-- creation succeeds iff the window lies inside the parent (in ℕ — the wrap tests in the code are exact),
    and then the slice *is* the abstract reader over that window, at position 0 -/
theorem C13_slice_window (ok : WrappedOK W ab G) (w : σ) (hw : G w) (start len : Nat)
    (hs : start < W64) (hl : len < W64) :
    (start + len ≤ (ab w).data.length →
      ∃ s, Slice.create W w start len = .ok s ∧ sliceGood G ab s ∧
        sliceAbs ab s = { data := ((ab w).data.drop start).take len, pos := 0 }) ∧
    (¬ start + len ≤ (ab w).data.length → Slice.create W w start len = .error .bounds) :=
  ⟨slice_create_ok ok w hw start len, slice_create_err ok w hw start len hs hl⟩

/-- … however deeply nested over a file: level `n+1` exposes the requested window of level `n` -/
theorem C13_nested_window (n : Nat) (w : SliceN n) (hw : goodN n w) (start len : Nat)
    (hfit : start + len ≤ (absN n w).data.length) :
    ∃ s : SliceN (n + 1), Slice.create (wrappedN n) w start len = .ok s ∧ goodN (n + 1) s ∧
      absN (n + 1) s = { data := ((absN n w).data.drop start).take len, pos := 0 } :=
  slice_create_ok (wrappedN_ok n) w hw start len hfit

/-- `Slice(start, len)` on an existing slice: contained ⇒ the sub-window; not contained (including through
    wrap-around) ⇒ error.  The parent is a value here, so "parent untouched" is the statement that the
    operation has no other result. -/
theorem C13_subslice (ok : WrappedOK W ab G) (s : Slice σ) (hs : sliceGood G ab s) (start len : Nat)
    (h1 : start < W64) (h2 : len < W64) :
    (start + len ≤ s.len →
      ∃ t, Slice.slice2 W s start len = .ok t ∧ sliceGood G ab t ∧
        sliceAbs ab t = { data := ((sliceAbs ab s).data.drop start).take len, pos := 0 }) ∧
    (¬ start + len ≤ s.len → Slice.slice2 W s start len = .error .bounds) := by
  obtain ⟨hg, g1, g2, g3⟩ := hs
  obtain ⟨_, hi2⟩ := ok.inv s.w hg
  constructor
  · intro hfit
    have e1 : u64 (start + len) = start + len := by unfold u64 W64 at *; omega
    have c : ¬ (start + len > s.len ∨ len > W64 - 1 - start) := by unfold W64 at *; omega
    have e2 : u64 (s.start + start) = s.start + start := by unfold u64 W64 at *; omega
    obtain ⟨t, e, g, a⟩ := slice_create_ok ok s.w hg (s.start + start) len (by omega)
    refine ⟨t, ?_, g, ?_⟩
    · simp only [Slice.slice2, e1, c, if_false, e2, e]
    · rw [a]
      simp only [sliceAbs]
      congr 1
      rw [List.drop_take, List.take_take, List.drop_drop]
      congr 1; omega
  · intro hout
    simp only [Slice.slice2]
    by_cases c1 : len > W64 - 1 - start
    · simp [c1]
    · have e1 : u64 (start + len) = start + len := by unfold u64 W64 at *; omega
      have : start + len > s.len := by omega
      simp [e1, this]

/-- the form that slices at the current position advances the parent by `n` exactly when it succeeds -/
theorem C13_slice_here_memory (s : MemR) (h : s.Inv) (n : Nat) (hn : n < W64) :
    (s.pos + n ≤ s.data.length →
      MemR.slice1 s n = .ok ({ data := (s.data.drop s.pos).take n, pos := 0 }, { s with pos := s.pos + n })) ∧
    (¬ s.pos + n ≤ s.data.length → MemR.slice1 s n = .error .bounds) := by
  obtain ⟨h1, h2⟩ := h
  constructor
  · intro hin
    have e : u64 (s.pos + n) = s.pos + n := by unfold u64 W64 at *; omega
    have c : ¬ (s.pos + n > s.data.length ∨ s.pos + n < s.pos) := by omega
    simp [MemR.slice1, MemR.slice2, MemR.fwd, e, c]
  · intro hout
    have c : u64 (s.pos + n) > s.data.length ∨ u64 (s.pos + n) < s.pos := by unfold u64 W64 at *; omega
    simp [MemR.slice1, MemR.slice2, c]

theorem C13_memory_slice_window (s : MemR) (h : s.Inv) (start len : Nat) (hs : start < W64) (hl : len < W64) :
    (start + len ≤ s.data.length → MemR.slice2 s start len = .ok { data := (s.data.drop start).take len, pos := 0 }) ∧
    (¬ start + len ≤ s.data.length → MemR.slice2 s start len = .error .bounds) := by
  obtain ⟨h1, h2⟩ := h
  constructor
  · intro hin
    have e : u64 (start + len) = start + len := by unfold u64 W64 at *; omega
    have c : ¬ (start + len > s.data.length ∨ start + len < start) := by omega
    simp [MemR.slice2, e, c]
  · intro hout
    have c : u64 (start + len) > s.data.length ∨ u64 (start + len) < start := by unfold u64 W64 at *; omega
    simp [MemR.slice2, c]

/-! ## backend equivalence: the same bytes behave the same in memory, in a file, in a slice of either -/

/-- every history (not only in-bounds ones) observes the same on a memory reader over `d` and on any slice
    whose window is `d`, both starting at the same position -/
theorem C13_backend_equivalence (ok : WrappedOK W ab G) (s : Slice σ) (hs : sliceGood G ab s)
    (m : MemR) (hm : m.Inv) (heq : sliceAbs ab s = m) (ops : List ROp) (ha : ∀ op ∈ ops, op.argOk) :
    runWith (Slice.step W) s ops = runWith MemR.step m ops := by
  rw [slice_refines_hist ok ops s hs ha, mem_refines_hist ops m hm ha, heq]

/-- in particular a slice of a file and a slice of a slice of a file -/
theorem C13_file_slice_equals_nested (n k : Nat) (s : SliceN (n + 1)) (t : SliceN (k + 1))
    (hs : goodN (n + 1) s) (ht : goodN (k + 1) t) (heq : absN (n + 1) s = absN (k + 1) t)
    (ops : List ROp) (ha : ∀ op ∈ ops, op.argOk) :
    runWith (Slice.step (wrappedN n)) s ops = runWith (Slice.step (wrappedN k)) t ops := by
  rw [slice_refines_hist (wrappedN_ok n) ops s hs ha, slice_refines_hist (wrappedN_ok k) ops t ht ha]
  exact congrArg (fun x => runWith RSpec.step x ops) heq

end Op2.Props.C13
