import Op2Proofs.SliceNesting
import Op2Proofs.SysLemmas
import Op2Proofs.SysContent
import Op2Proofs.SysGood
import Op2Proofs.SysEquiv
import Op2Proofs.SysAtomic
import Op2Model.Vol
import Op2Model.Clm
/-!
# C13 — slices are confined, independent, and equivalent across stream backends
-/
namespace Op2.Props.C13
open Op2 Op2.Stream

variable {σ : Type} {W : Wrapped σ} {ab : σ → RSpec} {G : σ → Prop}

/-! ## a slice `[s, s+n)` exposes exactly those bytes as positions `0..n` -/

/-- creation succeeds iff the window lies inside the parent (in ℕ — the wrap tests in the code are exact),
    and then the slice *is* the abstract reader over that window, at position 0 -/
theorem C13_slice_window (ok : WrappedOK W ab G) (w : σ) (hw : G w) (start len : Nat)
    (hs : start < W64) (hl : len < W64) :
    (start + len ≤ (ab w).data.length →
      ∃ s, Slice.create W w start len = .ok s ∧ sliceGood G ab s ∧
        sliceAbs ab s = { data := ((ab w).data.drop start).take len, pos := 0 }) ∧
    (¬ start + len ≤ (ab w).data.length → Slice.create W w start len = .error .bounds) :=
  ⟨slice_create_ok ok w hw start len, slice_create_err ok w hw start len hs hl⟩

/-- … however deeply nested over a file: level `n+1` exposes the requested window of level `n` -/
theorem C13_nested_window (n : Nat) (w : SliceN n) (hw : goodN n w) (start len : Nat)
    (hfit : start + len ≤ (absN n w).data.length) :
    ∃ s : SliceN (n + 1), Slice.create (wrappedN n) w start len = .ok s ∧ goodN (n + 1) s ∧
      absN (n + 1) s = { data := ((absN n w).data.drop start).take len, pos := 0 } :=
  slice_create_ok (wrappedN_ok n) w hw start len hfit

/-- `Slice(start, len)` on an existing slice: contained ⇒ the sub-window; not contained (including through
    wrap-around) ⇒ error.  The parent is a value here, so "parent untouched" is the statement that the
    operation has no other result. -/
theorem C13_subslice (ok : WrappedOK W ab G) (s : Slice σ) (hs : sliceGood G ab s) (start len : Nat)
    (h1 : start < W64) (h2 : len < W64) :
    (start + len ≤ s.len →
      ∃ t, Slice.slice2 W s start len = .ok t ∧ sliceGood G ab t ∧
        sliceAbs ab t = { data := ((sliceAbs ab s).data.drop start).take len, pos := 0 }) ∧
    (¬ start + len ≤ s.len → Slice.slice2 W s start len = .error .bounds) := by
  obtain ⟨hg, g1, g2, g3⟩ := hs
  obtain ⟨_, hi2⟩ := ok.inv s.w hg
  constructor
  · intro hfit
    have e1 : u64 (start + len) = start + len := by unfold u64 W64 at *; omega
    have c : ¬ (start + len > s.len ∨ len > W64 - 1 - start) := by unfold W64 at *; omega
    have e2 : u64 (s.start + start) = s.start + start := by unfold u64 W64 at *; omega
    obtain ⟨t, e, g, a⟩ := slice_create_ok ok s.w hg (s.start + start) len (by omega)
    refine ⟨t, ?_, g, ?_⟩
    · simp only [Slice.slice2, e1, c, if_false, e2, e]
    · rw [a]
      simp only [sliceAbs]
      congr 1
      rw [List.drop_take, List.take_take, List.drop_drop]
      congr 1; omega
  · intro hout
    simp only [Slice.slice2]
    by_cases c1 : len > W64 - 1 - start
    · simp [c1]
    · have e1 : u64 (start + len) = start + len := by unfold u64 W64 at *; omega
      have : start + len > s.len := by omega
      simp [e1, this]

/-- the form that slices at the current position advances the parent by `n` exactly when it succeeds -/
theorem C13_slice_here_memory (s : MemR) (h : s.Inv) (n : Nat) (hn : n < W64) :
    (s.pos + n ≤ s.data.length →
      MemR.slice1 s n = .ok ({ data := (s.data.drop s.pos).take n, pos := 0 }, { s with pos := s.pos + n })) ∧
    (¬ s.pos + n ≤ s.data.length → MemR.slice1 s n = .error .bounds) := by
  obtain ⟨h1, h2⟩ := h
  constructor
  · intro hin
    have e : u64 (s.pos + n) = s.pos + n := by unfold u64 W64 at *; omega
    have c : ¬ (s.pos + n > s.data.length ∨ s.pos + n < s.pos) := by omega
    simp [MemR.slice1, MemR.slice2, MemR.fwd, e, c]
  · intro hout
    have c : u64 (s.pos + n) > s.data.length ∨ u64 (s.pos + n) < s.pos := by unfold u64 W64 at *; omega
    simp [MemR.slice1, MemR.slice2, c]

theorem C13_memory_slice_window (s : MemR) (h : s.Inv) (start len : Nat) (hs : start < W64) (hl : len < W64) :
    (start + len ≤ s.data.length → MemR.slice2 s start len = .ok { data := (s.data.drop start).take len, pos := 0 }) ∧
    (¬ start + len ≤ s.data.length → MemR.slice2 s start len = .error .bounds) := by
  obtain ⟨h1, h2⟩ := h
  constructor
  · intro hin
    have e : u64 (start + len) = start + len := by unfold u64 W64 at *; omega
    have c : ¬ (start + len > s.data.length ∨ start + len < start) := by omega
    simp [MemR.slice2, e, c]
  · intro hout
    have c : u64 (start + len) > s.data.length ∨ u64 (start + len) < start := by unfold u64 W64 at *; omega
    simp [MemR.slice2, c]

/-! ## backend equivalence: the same bytes behave the same in memory, in a file, in a slice of either -/

/-- every history (not only in-bounds ones) observes the same on a memory reader over `d` and on any slice
    whose window is `d`, both starting at the same position -/
theorem C13_backend_equivalence (ok : WrappedOK W ab G) (s : Slice σ) (hs : sliceGood G ab s)
    (m : MemR) (hm : m.Inv) (heq : sliceAbs ab s = m) (ops : List ROp) (ha : ∀ op ∈ ops, op.argOk) :
    runWith (Slice.step W) s ops = runWith MemR.step m ops := by
  rw [slice_refines_hist ok ops s hs ha, mem_refines_hist ops m hm ha, heq]

/-- in particular a slice of a file and a slice of a slice of a file -/
theorem C13_file_slice_equals_nested (n k : Nat) (s : SliceN (n + 1)) (t : SliceN (k + 1))
    (hs : goodN (n + 1) s) (ht : goodN (k + 1) t) (heq : absN (n + 1) s = absN (k + 1) t)
    (ops : List ROp) (ha : ∀ op ∈ ops, op.argOk) :
    runWith (Slice.step (wrappedN n)) s ops = runWith (Slice.step (wrappedN k)) t ops := by
  rw [slice_refines_hist (wrappedN_ok n) ops s hs ha, slice_refines_hist (wrappedN_ok k) ops t ht ha]
  exact congrArg (fun x => runWith RSpec.step x ops) heq

/-! ## independence: several live objects under every interleaving

`Sys` (`Op2Model/StreamSys.lean`) is a program's collection of live readers — a memory or file reader, slices of it,
slices of slices, copies — with requests addressed to any of them in any order (`multi …` commands of the
correspondence run execute exactly `Sys.step`).  The model holds objects as values; that the C++ objects share no
hidden cursor is what the correspondence run checks, and these theorems say what then follows for *every* history. -/

/-- a request to object `i` leaves every other live object exactly as it was (position, window, everything) -/
theorem C13_interleaving_frame (objs : Sys) (i j : Nat) (o : OOp) (hij : j ≠ i) (hj : j < objs.length) :
    (Sys.step objs i o).2[j]? = objs[j]? := Sys.step_frame objs i j o hij hj

/-- a refused slice creation leaves the parent — and every other object — untouched, and creates nothing -/
theorem C13_refused_creation_changes_nothing (objs : Sys) (i : Nat) (d : DOp)
    (h : (Sys.step objs i (.derive d)).1 = some .failed) : (Sys.step objs i (.derive d)).2 = objs :=
  Sys.step_failed objs i d h

/-- any refused request — a read, peek or seek out of bounds, a slice creation not contained in its parent, a request to an object
    that does not exist — leaves the whole system exactly as it was (no invariant assumed, any argument) -/
theorem C13_refused_request_changes_nothing (objs : Sys) (i : Nat) (o : OOp)
    (h : (Sys.step objs i o).1 = some (.out .err) ∨ (Sys.step objs i o).1 = some .failed ∨ (Sys.step objs i o).1 = some .unsupported ∨
         (Sys.step objs i o).1 = none) : (Sys.step objs i o).2 = objs := Sys.step_refused_noop objs i o h

/-- **every interleaving**: what an object answers (bytes, results, the slices created from it) and where it ends up
    is what it would have answered and where it would have ended had its own requests been applied to it alone -/
theorem C13_interleaving_independent (h : List (Nat × OOp)) (objs : Sys) (j : Nat) (r : Rd) (hr : objs[j]? = some r) :
    projOuts j (Sys.run objs h).1 = (runObj r (projOps j h)).1.map some ∧
    (Sys.run objs h).2[j]? = some (runObj r (projOps j h)).2 := Sys.run_projection h objs j r hr

/-- … also for an object created in the middle of the history (a slice or copy made by `h1`), from then on -/
theorem C13_interleaving_independent_from_creation (h1 h2 : List (Nat × OOp)) (objs : Sys) (j : Nat) (r : Rd)
    (hr : (Sys.run objs h1).2[j]? = some r) :
    projOuts j (Sys.run (Sys.run objs h1).2 h2).1 = (runObj r (projOps j h2)).1.map some ∧
    (Sys.run objs (h1 ++ h2)).2[j]? = some (runObj r (projOps j h2)).2 := by
  rw [Sys.run_append]
  exact Sys.run_projection h2 _ j r hr

/-- two histories that agree on the requests addressed to `j` are indistinguishable to `j` -/
theorem C13_interleaving_schedule_irrelevant (h h' : List (Nat × OOp)) (objs : Sys) (j : Nat) (hj : j < objs.length)
    (hp : projOps j h = projOps j h') :
    projOuts j (Sys.run objs h).1 = projOuts j (Sys.run objs h').1 ∧ (Sys.run objs h).2[j]? = (Sys.run objs h').2[j]? := by
  obtain ⟨a1, a2⟩ := Sys.run_projection h objs j objs[j] (List.getElem?_eq_getElem hj)
  obtain ⟨b1, b2⟩ := Sys.run_projection h' objs j objs[j] (List.getElem?_eq_getElem hj)
  rw [a1, a2, b1, b2, hp]; exact ⟨rfl, rfl⟩

/-- non-vacuity: a memory reader, a slice of it and a slice-here of it, interleaved — the parent's own answers are
    those of its own three requests -/
example : let objs : Sys := [Rd.mem { data := [10, 11, 12, 13, 14, 15], pos := 0 }]
    let h : List (Nat × OOp) := [(0, .derive (.slice 1 4)), (1, .op (.read 2)), (0, .op (.read 1)), (0, .derive (.here 2)),
                                 (2, .op (.read 2)), (1, .op (.seek 0)), (0, .op (.read 4)), (0, .op (.read 3))]
    ((Sys.run objs h).2.map fun o => (o.pos, o.len)) = [(6, 6), (0, 4), (2, 2)] ∧
    (projOuts 0 (Sys.run objs h).1).length = 5 := by decide

/-! ## confinement over histories: "exactly those n bytes … and nothing else", whatever happens afterwards -/

/-- no request to an object — reads and seeks in or out of bounds, slices and copies taken from it, the slice-here form that
    advances it — changes the bytes it exposes (memory reader, file reader, file slice, slice of a file slice) -/
theorem C13_request_keeps_window (r : Rd) (o : OOp) : (r.ostep o).2.content = r.content := Rd.ostep_content r o

/-- hence under every interleaved history every object still exposes exactly the bytes it was created over -/
theorem C13_confined_under_every_history (h : List (Nat × OOp)) (objs : Sys) (j : Nat) (r : Rd) (hr : objs[j]? = some r) :
    ∃ r', (Sys.run objs h).2[j]? = some r' ∧ r'.content = r.content := Sys.run_content h objs j r hr

/-! ## every reachable object: well-formed, and a window of the root — "however deeply nested" -/

/-- start from one memory reader or one file reader over `data` (shorter than 2^64) and run ANY interleaved history of requests
    with 64-bit arguments — reads, partial reads, peeks and seeks in and out of bounds, `Slice(start,len)`, `Slice(len)` at the
    cursor, copies, of the root, of slices, of slices of slices, to any depth: every object alive afterwards satisfies its class
    invariant (cursor inside its window, window inside its parent) and exposes a contiguous window of `data` and nothing else -/
theorem C13_every_reachable_object_is_a_window (data : Bytes) (hd : data.length < W64) (h : List (Nat × OOp))
    (ha : ∀ p ∈ h, p.2.argOk) :
    (∀ r ∈ (Sys.run [Rd.mem { data := data, pos := 0 }] h).2, r.Good ∧ IsWindow r.content data) ∧
    (∀ r ∈ (Sys.run [Rd.file { data := data, pos := 0 }] h).2, r.Good ∧ IsWindow r.content data) :=
  ⟨Sys.run_rooted data h _ (Sys.rooted_init_mem data hd) ha, Sys.run_rooted data h _ (Sys.rooted_init_file data hd) ha⟩

/-- hence in every reachable system every object reports `Position() ≤ Length()`, and `Length()` is the size of the window of the
    root it exposes — whatever out-of-bounds and wrapping arguments the history threw at it -/
theorem C13_reachable_positions_in_range (data : Bytes) (hd : data.length < W64) (h : List (Nat × OOp)) (ha : ∀ p ∈ h, p.2.argOk) :
    (∀ r ∈ (Sys.run [Rd.mem { data := data, pos := 0 }] h).2, r.pos ≤ r.len ∧ r.len = r.content.length ∧ r.len ≤ data.length) ∧
    (∀ r ∈ (Sys.run [Rd.file { data := data, pos := 0 }] h).2, r.pos ≤ r.len ∧ r.len = r.content.length ∧ r.len ≤ data.length) := by
  have key : ∀ r : Rd, r.Good ∧ IsWindow r.content data → r.pos ≤ r.len ∧ r.len = r.content.length ∧ r.len ≤ data.length := by
    intro r ⟨hg, a, b, hw⟩
    obtain ⟨_, h2, h3⟩ := Rd.observables r hg
    rw [Rd.abs_content] at h2
    refine ⟨h3, h2, ?_⟩
    rw [h2, hw]; simp only [List.length_take, List.length_drop]; omega
  obtain ⟨hm, hf⟩ := C13_every_reachable_object_is_a_window data hd h ha
  exact ⟨fun r hr => key r (hm r hr), fun r hr => key r (hf r hr)⟩

/-- one derivation: the new object exposes a window of what its parent exposes, and both are well-formed afterwards -/
theorem C13_derived_object_is_a_window_of_its_parent (r : Rd) (d : DOp) (hr : r.Good) (hd : d.argOk) (n r' : Rd)
    (h : r.derive d = some (.ok (n, r'))) : n.Good ∧ r'.Good ∧ IsWindow n.content r.content :=
  Rd.derive_good r d hr hd n r' h

/-- non-vacuity: a slice of a slice of a file, taken at the cursor, then read past its end -/
example : let h : List (Nat × OOp) := [(0, .derive (.slice 2 5)), (1, .op (.read 1)), (1, .derive (.here 3)), (2, .op (.read 9)),
                                       (2, .op (.read 3)), (0, .derive .copy)]
    ((Sys.run [Rd.file { data := [10, 11, 12, 13, 14, 15, 16, 17], pos := 0 }] h).2.map fun o => (o.content, o.pos)) =
      [([10, 11, 12, 13, 14, 15, 16, 17], 0), ([12, 13, 14, 15, 16], 4), ([13, 14, 15], 3), ([10, 11, 12, 13, 14, 15, 16, 17], 0)] := by
  decide

/-! ## refinement of whole systems to abstract readers, and backend equivalence of whole systems -/

/-- on every backend, every request except copy construction answers and moves exactly as the ℕ specification `specOStep` says
    of what the object exposes and where its cursor is (`Rd.abs`) — slice creation included: same success condition, same window -/
theorem C13_request_refines_spec (r : Rd) (o : OOp) (hr : r.Good) (hn : r.NoFss) (ho : o.argOk) (hc : o.noCopy) :
    ((r.ostep o).1.abs, (r.ostep o).2.abs) = specOStep r.abs o := (Rd.ostep_refines r o hr hn ho hc).1

/-- a system of well-formed objects of any mix of backends answers every interleaved history as the list of abstract readers does -/
theorem C13_system_refines_spec (h : List (Nat × OOp)) (objs : Sys) (hok : Sys.Ok objs) (ha : ∀ p ∈ h, p.2.argOk ∧ p.2.noCopy) :
    ((Sys.run objs h).1.map (fun p => (p.1, p.2.map OOut.abs)), (Sys.run objs h).2.map Rd.abs) = SSys.run (objs.map Rd.abs) h :=
  Sys.run_refines h objs hok ha

/-- the observables the correspondence run prints after every step of every `multi` history — `Position()` and `Length()` of every
    live object, computed by each backend in its own way (u64 arithmetic on the wrapped cursor for slices) — ARE the relative
    cursor and the size of what the object exposes: the comparison with the C++ objects is a comparison of `Rd.abs` -/
theorem C13_printed_observables_are_abs (r : Rd) (hr : r.Good) : r.pos = r.abs.pos ∧ r.len = r.abs.data.length ∧ r.pos ≤ r.len :=
  Rd.observables r hr

/-- **identical observations in memory and in a file, for whole systems**: the same interleaved history — with every slice, slice of
    a slice and cursor slice it creates — on a memory reader and on a file reader over the same bytes gives the same answers, and
    corresponding objects expose the same bytes at the same positions.  (Copy construction is excluded: a copied file reader reopens
    at position 0, a copied memory reader keeps its position — `Rd.derive`, compared with the C++ by the `multi` runs.) -/
theorem C13_system_backend_equivalence (data : Bytes) (hd : data.length < W64) (h : List (Nat × OOp))
    (ha : ∀ p ∈ h, p.2.argOk ∧ p.2.noCopy) :
    let m := Sys.run [Rd.mem { data := data, pos := 0 }] h
    let f := Sys.run [Rd.file { data := data, pos := 0 }] h
    m.1.map (fun p => (p.1, p.2.map OOut.abs)) = f.1.map (fun p => (p.1, p.2.map OOut.abs)) ∧
    m.2.map Rd.abs = f.2.map Rd.abs := Sys.backend_equivalence data hd h ha

/-- the exclusion is real: after reading one byte, a copy of a file reader is at 0 and a copy of a memory reader at 1 -/
example : (((Sys.run [Rd.mem { data := [7, 8, 9], pos := 0 }] [(0, .op (.read 1)), (0, .derive .copy)]).2.map Rd.pos),
           ((Sys.run [Rd.file { data := [7, 8, 9], pos := 0 }] [(0, .op (.read 1)), (0, .derive .copy)]).2.map Rd.pos)) =
          ([1, 1], [1, 0]) := by decide

/-! ## archive member streams are such slices

`VolFile::OpenStream` hands out a `FileSliceReader` over the archive file.  The VOL model (`Op2Model/Vol.lean`, tied to the
code by the C01/C02/C05 runs) describes its construction a second time, independently, as `View.slice`; this theorem
identifies the two descriptions, so a member stream is an `Rd.fsl` object of `Sys` and everything above applies to it. -/

theorem C13_member_stream_is_slice (file : Bytes) (hf : file.length < W64) (start len : Nat) (hs : start < W64) (hl : len < W64) :
    (start + len ≤ file.length →
      Vol.View.slice file start len = .ok ((file.drop start).take len) ∧
      ∃ s, Slice.create fileWrapped { data := file, pos := 0 } start len = .ok s ∧ sliceGood RSpec.Inv id s ∧
        sliceAbs id s = { data := (file.drop start).take len, pos := 0 }) ∧
    (¬ start + len ≤ file.length →
      Vol.View.slice file start len = .error (.err .bounds) ∧
      Slice.create fileWrapped { data := file, pos := 0 } start len = .error .bounds) := by
  have hi : RSpec.Inv ({ data := file, pos := 0 } : RSpec) := ⟨Nat.zero_le _, hf⟩
  constructor
  · intro hfit
    refine ⟨?_, slice_create_ok fileWrappedOK _ hi start len hfit⟩
    unfold Vol.View.slice
    rw [if_neg (by unfold W64 at *; omega), if_neg (by omega)]
  · intro hout
    refine ⟨?_, slice_create_err fileWrappedOK _ hi start len hs hl hout⟩
    unfold Vol.View.slice
    by_cases c : len > W64 - 1 - start
    · rw [if_pos c]
    · rw [if_neg c, if_pos (by omega)]

/-- the same for `ClmFile::OpenStream` (`Clm.extent`, which states the bound in ℕ) -/
theorem C13_clm_member_stream_is_slice (file : Bytes) (hf : file.length < W64) (off len : Nat) (hs : off < W64) (hl : len < W64) :
    (∀ b, Clm.extent file off len = .ok b →
      ∃ s, Slice.create fileWrapped { data := file, pos := 0 } off len = .ok s ∧ sliceGood RSpec.Inv id s ∧
        sliceAbs id s = { data := b, pos := 0 }) ∧
    (Clm.extent file off len = .error .bounds →
      Slice.create fileWrapped { data := file, pos := 0 } off len = .error .bounds) := by
  have hi : RSpec.Inv ({ data := file, pos := 0 } : RSpec) := ⟨Nat.zero_le _, hf⟩
  unfold Clm.extent
  constructor
  · intro b hb
    split at hb
    · rename_i hfit
      cases hb
      exact slice_create_ok fileWrappedOK _ hi off len hfit
    · cases hb
  · intro he
    split at he
    · cases he
    · rename_i hout
      exact slice_create_err fileWrappedOK _ hi off len hs hl hout

/-- hence: a member stream of an archive, together with any other live objects and under any interleaved history of requests to
    it and to them, keeps exposing exactly the member's recorded extent of the archive file -/
theorem C13_member_stream_confined (file : Bytes) (hf : file.length < W64) (start len : Nat) (hfit : start + len ≤ file.length)
    (others : Sys) (h : List (Nat × OOp)) :
    ∃ s, Slice.create fileWrapped { data := file, pos := 0 } start len = .ok s ∧
      ∃ r', (Sys.run (Rd.fsl s :: others) h).2[0]? = some r' ∧ r'.content = (file.drop start).take len := by
  have hi : RSpec.Inv ({ data := file, pos := 0 } : RSpec) := ⟨Nat.zero_le _, hf⟩
  obtain ⟨s, e, g, a⟩ := slice_create_ok fileWrappedOK _ hi start len hfit
  refine ⟨s, e, ?_⟩
  obtain ⟨r', h1, h2⟩ := Sys.run_content h (Rd.fsl s :: others) 0 (Rd.fsl s) rfl
  refine ⟨r', h1, ?_⟩
  rw [h2, fsl_content_abs, a]; rfl

end Op2.Props.C13
