import Op2Proofs.GenValidate
import Op2Proofs.Tileset.Headers
import Op2Model.Tileset
/-!
# C09 — bridging lemmas: `Tileset::ValidateTileset` (`src/Sprite/TilesetLoader.cpp`), `TilesetHeader::Validate` and
`PpalHeader::Validate` (`src/Sprite/TilesetHeaders.cpp`), as translated from the current C++ on this run
(`Op2Model/Gen/Validate.lean`), decide exactly what the hand-written model `Op2Model/Tileset.lean` decides: `validateTs`, and the
two header guards `tilesetHeaderOk` / `ppalHeaderOk` — the named functions the reader `Rd.custom` calls — for every value of the C++
field types.  A `Tag` is its four bytes.  `none` = the C++ function throws.
`C09_reader_checks_headers` (model only) says that the reader applies exactly these two functions to the fields stored at their
offsets; `C09_gen_reader_headers` puts the two halves together: the reader accepts a file only if the translated C++ functions
return on its header, and refuses with `format` a file on whose header they throw.
-/
set_option linter.unusedSimpArgs false
set_option linter.unusedVariables false
namespace Op2.Props.C09
open Op2 Op2.Bmp Op2.Tileset Op2.GenBridge Op2.GenValidate
open Op2.Gen.Validate

/-- four bytes as the model compares them (a list) against a tag constant, from their values -/
theorem tag_eq (a b c d : UInt8) (x y z t : Nat) (hx : x < 256) (hy : y < 256) (hz : z < 256) (ht : t < 256) :
    ([a, b, c, d] = [UInt8.ofNat x, UInt8.ofNat y, UInt8.ofNat z, UInt8.ofNat t]) ↔
      (a.toNat = x ∧ b.toNat = y ∧ c.toNat = z ∧ d.toNat = t) := by
  simp only [List.cons.injEq, and_true, ← UInt8.toNat_inj, UInt8.toNat_ofNat']
  have e1 : x % 2 ^ 8 = x := by omega
  have e2 : y % 2 ^ 8 = y := by omega
  have e3 : z % 2 ^ 8 = z := by omega
  have e4 : t % 2 ^ 8 = t := by omega
  rw [e1, e2, e3, e4]

/-- `Tileset::ValidateTileset(const BitmapFile&)`: the model's `validateTs` (the height is reduced modulo 2^32 before `% 32`) -/
theorem C09_gen_validateTileset : Tileset_ValidateTileset_translated = true →
    ∀ f : Bmp, f.ih.bitCount < W16 → I32_MIN ≤ f.ih.width → f.ih.width ≤ I32_MAX → I32_MIN ≤ f.ih.height → f.ih.height ≤ I32_MAX →
      Tileset_ValidateTileset f.ih.bitCount f.ih.width f.ih.height = returns (validateTs f).isOk := by
  gen_bridge =>
    intro f
    simp only [validateTs, isOk_ite, returns_decide]
    simp only [Tileset.bitDepth, heightMultiple, toU32, W16, W32, I32_MIN, I32_MAX]
    generalize f.ih.bitCount = bits
    generalize f.ih.width = w
    generalize f.ih.height = h
    intro h1 h2 h3 h4 h5
    gen_validate_unfold
    genv_norm
    genv_close

/-- `TilesetHeader::Validate` decides the model's `tilesetHeaderOk` — the very function the reader `Rd.custom` calls as its second
    guard (see `C09_custom_ok_headers` below) -/
theorem C09_gen_tilesetHeader_validate : TilesetHeader_Validate_translated = true →
    ∀ (t0 t1 t2 t3 : UInt8) (len tagCount pw ph : Nat), len < W32 → tagCount < W32 → pw < W32 → ph < W32 →
      TilesetHeader_Validate t0.toNat t1.toNat t2.toNat t3.toNat len tagCount pw ph =
        returns (tilesetHeaderOk [t0, t1, t2, t3] len tagCount pw ph) := by
  gen_bridge =>
    intro t0 t1 t2 t3 len tagCount pw ph h1 h2 h3 h4
    have ht := tag_eq t0 t1 t2 t3 104 101 97 100 (by decide) (by decide) (by decide) (by decide)
    have hb : tagHead = [UInt8.ofNat 104, UInt8.ofNat 101, UInt8.ofNat 97, UInt8.ofNat 100] := rfl
    simp only [W32] at h1 h2 h3 h4
    cases hG : tilesetHeaderOk [t0, t1, t2, t3] len tagCount pw ph
    · rw [returns_false]
      unfold tilesetHeaderOk at hG
      replace hG := of_decide_eq_false hG
      simp only [hb, ht, headSectionSize, pixelWidth, heightMultiple, headTagCount] at hG
      gen_validate_unfold; genv_norm; genv_close
    · rw [returns_true]
      unfold tilesetHeaderOk at hG
      replace hG := of_decide_eq_true hG
      simp only [hb, ht, headSectionSize, pixelWidth, heightMultiple, headTagCount] at hG
      gen_validate_unfold; genv_norm; genv_close

/-- `PpalHeader::Validate` decides the model's `ppalHeaderOk` — the function the reader `Rd.custom` calls as its third guard -/
theorem C09_gen_ppalHeader_validate : PpalHeader_Validate_translated = true →
    ∀ (p0 p1 p2 p3 h0 h1 h2 h3 : UInt8) (plen hlen tagCount : Nat), plen < W32 → hlen < W32 → tagCount < W32 →
      PpalHeader_Validate p0.toNat p1.toNat p2.toNat p3.toNat plen h0.toNat h1.toNat h2.toNat h3.toNat hlen tagCount =
        returns (ppalHeaderOk [p0, p1, p2, p3] plen [h0, h1, h2, h3] hlen tagCount) := by
  gen_bridge =>
    intro p0 p1 p2 p3 h0 h1 h2 h3 plen hlen tagCount a1 a2 a3
    have hp := tag_eq p0 p1 p2 p3 80 80 65 76 (by decide) (by decide) (by decide) (by decide)
    have hh := tag_eq h0 h1 h2 h3 104 101 97 100 (by decide) (by decide) (by decide) (by decide)
    have hbp : tagPPAL = [UInt8.ofNat 80, UInt8.ofNat 80, UInt8.ofNat 65, UInt8.ofNat 76] := rfl
    have hbh : tagHead = [UInt8.ofNat 104, UInt8.ofNat 101, UInt8.ofNat 97, UInt8.ofNat 100] := rfl
    simp only [W32] at a1 a2 a3
    cases hG : ppalHeaderOk [p0, p1, p2, p3] plen [h0, h1, h2, h3] hlen tagCount
    · rw [returns_false]
      unfold ppalHeaderOk at hG
      replace hG := of_decide_eq_false hG
      simp only [hbp, hbh, hp, hh, ppalSectionSize, ppalHeadSectionSize, ppalTagCount] at hG
      gen_validate_unfold; genv_norm; genv_close
    · rw [returns_true]
      unfold ppalHeaderOk at hG
      replace hG := of_decide_eq_true hG
      simp only [hbp, hbh, hp, hh, ppalSectionSize, ppalHeadSectionSize, ppalTagCount] at hG
      gen_validate_unfold; genv_norm; genv_close

/-! ## the reader and the named guards -/

/-- **model side of the tie.**  The custom-tileset reader applies `tilesetHeaderOk` / `ppalHeaderOk` to the header fields stored at
    their fixed offsets: a file it accepts satisfies both; a file failing either is refused; and when the reader gets as far as the
    guard (file long enough, everything before accepted) the refusal is `format`. -/
theorem C09_reader_checks_headers (b : Bytes) :
    (∀ f, readCustom b = .ok f →
        tilesetHeaderOk (tagAt b 8) (u32At b 12) (u32At b 16) (u32At b 20) (u32At b 24) = true ∧
        ppalHeaderOk (tagAt b 36) (u32At b 40) (tagAt b 44) (u32At b 48) (u32At b 52) = true) ∧
    (tilesetHeaderOk (tagAt b 8) (u32At b 12) (u32At b 16) (u32At b 20) (u32At b 24) = false ∨
     ppalHeaderOk (tagAt b 36) (u32At b 40) (tagAt b 44) (u32At b 48) (u32At b 52) = false → ∃ e, readCustom b = .err e) ∧
    (36 ≤ b.length → tagAt b 0 = tagPBMP → u32At b 4 ≠ 0 →
        tilesetHeaderOk (tagAt b 8) (u32At b 12) (u32At b 16) (u32At b 20) (u32At b 24) = false → readCustom b = .err .format) ∧
    (56 ≤ b.length → tagAt b 0 = tagPBMP → u32At b 4 ≠ 0 →
        tilesetHeaderOk (tagAt b 8) (u32At b 12) (u32At b 16) (u32At b 20) (u32At b 24) = true →
        ppalHeaderOk (tagAt b 36) (u32At b 40) (tagAt b 44) (u32At b 48) (u32At b 52) = false → readCustom b = .err .format) := by
  refine ⟨?_, ?_, ?_, ?_⟩
  · intro f h
    unfold readCustom runOut at h
    split at h
    · rename_i o rest hp; exact custom_headers hp
    · cases h
  · intro hbad
    obtain ⟨e, he⟩ := custom_bad_header (b := b) hbad
    exact ⟨e, by unfold readCustom runOut; rw [he]⟩
  · intro hl hs hn hbad
    unfold readCustom runOut; rw [custom_bad_tilesetHeader hl hs hn hbad]
  · intro hl hs hn hok hbad
    unfold readCustom runOut; rw [custom_bad_ppalHeader hl hs hn hok hbad]

/-- **both halves together.**  On every file long enough to hold the two headers, `TilesetHeader::Validate` / `PpalHeader::Validate` as
    translated from the current C++, applied to the fields stored in the file, return exactly when the model's reader's guards
    hold; hence a file the model's reader accepts is one on which both C++ functions return, and a file (with an accepted signature
    section) on whose tileset header the C++ function throws is refused by the model's reader with `format`. -/
theorem C09_gen_reader_headers : TilesetHeader_Validate_translated = true → PpalHeader_Validate_translated = true →
    ∀ b : Bytes,
      (56 ≤ b.length →
        TilesetHeader_Validate (byteAt b 8).toNat (byteAt b 9).toNat (byteAt b 10).toNat (byteAt b 11).toNat
            (u32At b 12) (u32At b 16) (u32At b 20) (u32At b 24) = returns (tilesetHeaderOkAt b) ∧
        PpalHeader_Validate (byteAt b 36).toNat (byteAt b 37).toNat (byteAt b 38).toNat (byteAt b 39).toNat (u32At b 40)
            (byteAt b 44).toNat (byteAt b 45).toNat (byteAt b 46).toNat (byteAt b 47).toNat (u32At b 48) (u32At b 52) =
          returns (ppalHeaderOkAt b)) ∧
      (∀ f, readCustom b = .ok f →
        TilesetHeader_Validate (byteAt b 8).toNat (byteAt b 9).toNat (byteAt b 10).toNat (byteAt b 11).toNat
            (u32At b 12) (u32At b 16) (u32At b 20) (u32At b 24) = some () ∧
        PpalHeader_Validate (byteAt b 36).toNat (byteAt b 37).toNat (byteAt b 38).toNat (byteAt b 39).toNat (u32At b 40)
            (byteAt b 44).toNat (byteAt b 45).toNat (byteAt b 46).toNat (byteAt b 47).toNat (u32At b 48) (u32At b 52) = some ()) ∧
      (56 ≤ b.length → tagAt b 0 = tagPBMP → u32At b 4 ≠ 0 →
        TilesetHeader_Validate (byteAt b 8).toNat (byteAt b 9).toNat (byteAt b 10).toNat (byteAt b 11).toNat
            (u32At b 12) (u32At b 16) (u32At b 20) (u32At b 24) = none → readCustom b = .err .format) := by
  intro hT hP b
  have key : 56 ≤ b.length →
      TilesetHeader_Validate (byteAt b 8).toNat (byteAt b 9).toNat (byteAt b 10).toNat (byteAt b 11).toNat
          (u32At b 12) (u32At b 16) (u32At b 20) (u32At b 24) = returns (tilesetHeaderOkAt b) ∧
      PpalHeader_Validate (byteAt b 36).toNat (byteAt b 37).toNat (byteAt b 38).toNat (byteAt b 39).toNat (u32At b 40)
          (byteAt b 44).toNat (byteAt b 45).toNat (byteAt b 46).toNat (byteAt b 47).toNat (u32At b 48) (u32At b 52) =
        returns (ppalHeaderOkAt b) := by
    intro hl
    have lt : ∀ n, u32At b n < W32 := fun n => Bmp.decU32_lt _
    unfold tilesetHeaderOkAt ppalHeaderOkAt
    rw [tagAt_bytes b 8 (by omega), tagAt_bytes b 36 (by omega), tagAt_bytes b 44 (by omega)]
    exact ⟨C09_gen_tilesetHeader_validate hT _ _ _ _ _ _ _ _ (lt _) (lt _) (lt _) (lt _),
           C09_gen_ppalHeader_validate hP _ _ _ _ _ _ _ _ _ _ _ (lt _) (lt _) (lt _)⟩
  refine ⟨key, ?_, ?_⟩
  · intro f h
    have hh := (C09_reader_checks_headers b).1 f h
    have hl : 56 ≤ b.length := by
      unfold readCustom runOut at h
      split at h
      · rename_i o rest hp; subst h
        have := (custom_ok hp).2.2.2.2.2.2.1
        omega
      · cases h
    obtain ⟨k1, k2⟩ := key hl
    rw [k1, k2]
    unfold tilesetHeaderOkAt ppalHeaderOkAt
    rw [hh.1, hh.2]
    exact ⟨rfl, rfl⟩
  · intro hl hs hn hnone
    obtain ⟨k1, _⟩ := key hl
    rw [k1] at hnone
    have hbad : tilesetHeaderOkAt b = false := by
      cases hc : tilesetHeaderOkAt b with
      | false => rfl
      | true => rw [hc] at hnone; cases hnone
    exact (C09_reader_checks_headers b).2.2.1 (by omega) hs hn hbad

end Op2.Props.C09
