import Op2Proofs.GenValidate
import Op2Model.Tileset
/-!
# C09 — bridging lemmas: `Tileset::ValidateTileset` (`src/Sprite/TilesetLoader.cpp`), `TilesetHeader::Validate` and
`PpalHeader::Validate` (`src/Sprite/TilesetHeaders.cpp`), as translated from the current C++ on this run
(`Op2Model/Gen/Validate.lean`), decide exactly what the hand-written model `Op2Model/Tileset.lean` decides: `validateTs`, and the
two header guards of the reader `Rd.custom` (stated with the model's constants), for every value of the C++ field types.
A `Tag` is its four bytes.  `none` = the C++ function throws.
-/
set_option linter.unusedSimpArgs false
set_option linter.unusedVariables false
namespace Op2.Props.C09
open Op2 Op2.Bmp Op2.Tileset Op2.GenBridge Op2.GenValidate
open Op2.Gen.Validate

/-- four bytes as the model compares them (a list) against a tag constant, from their values -/
theorem tag_eq (a b c d : UInt8) (x y z t : Nat) (hx : x < 256) (hy : y < 256) (hz : z < 256) (ht : t < 256) :
    ([a, b, c, d] = [UInt8.ofNat x, UInt8.ofNat y, UInt8.ofNat z, UInt8.ofNat t]) ↔
      (a.toNat = x ∧ b.toNat = y ∧ c.toNat = z ∧ d.toNat = t) := by
  simp only [List.cons.injEq, and_true, ← UInt8.toNat_inj, UInt8.toNat_ofNat']
  have e1 : x % 2 ^ 8 = x := by omega
  have e2 : y % 2 ^ 8 = y := by omega
  have e3 : z % 2 ^ 8 = z := by omega
  have e4 : t % 2 ^ 8 = t := by omega
  rw [e1, e2, e3, e4]

/-- `Tileset::ValidateTileset(const BitmapFile&)`: the model's `validateTs` (the height is reduced modulo 2^32 before `% 32`) -/
theorem C09_gen_validateTileset : Tileset_ValidateTileset_translated = true →
    ∀ f : Bmp, f.ih.bitCount < W16 → I32_MIN ≤ f.ih.width → f.ih.width ≤ I32_MAX → I32_MIN ≤ f.ih.height → f.ih.height ≤ I32_MAX →
      Tileset_ValidateTileset f.ih.bitCount f.ih.width f.ih.height = returns (validateTs f).isOk := by
  gen_bridge =>
    intro f
    simp only [validateTs, isOk_ite, returns_decide]
    simp only [Tileset.bitDepth, heightMultiple, toU32, W16, W32, I32_MIN, I32_MAX]
    generalize f.ih.bitCount = bits
    generalize f.ih.width = w
    generalize f.ih.height = h
    intro h1 h2 h3 h4 h5
    gen_validate_unfold
    genv_norm
    genv_close

/-- `TilesetHeader::Validate`: the guard of the model's reader (`Rd.custom`, second guard), with the model's constants -/
theorem C09_gen_tilesetHeader_validate : TilesetHeader_Validate_translated = true →
    ∀ (t0 t1 t2 t3 : UInt8) (len tagCount pw ph : Nat), len < W32 → tagCount < W32 → pw < W32 → ph < W32 →
      TilesetHeader_Validate t0.toNat t1.toNat t2.toNat t3.toNat len tagCount pw ph =
        returns (decide ([t0, t1, t2, t3] = tagHead ∧ len = headSectionSize ∧ pw = pixelWidth ∧ ph % heightMultiple = 0 ∧
                         ph ≤ 2147483647 ∧ tagCount = headTagCount)) := by
  gen_bridge =>
    intro t0 t1 t2 t3 len tagCount pw ph h1 h2 h3 h4
    have ht := tag_eq t0 t1 t2 t3 104 101 97 100 (by decide) (by decide) (by decide) (by decide)
    have hb : tagHead = [UInt8.ofNat 104, UInt8.ofNat 101, UInt8.ofNat 97, UInt8.ofNat 100] := rfl
    simp only [W32] at h1 h2 h3 h4
    by_cases hG : ([t0, t1, t2, t3] = tagHead ∧ len = headSectionSize ∧ pw = pixelWidth ∧ ph % heightMultiple = 0 ∧
                   ph ≤ 2147483647 ∧ tagCount = headTagCount)
    · rw [decide_eq_true hG, returns_true]
      simp only [hb, ht, headSectionSize, pixelWidth, heightMultiple, headTagCount] at hG
      gen_validate_unfold; genv_norm; genv_close
    · rw [decide_eq_false hG, returns_false]
      simp only [hb, ht, headSectionSize, pixelWidth, heightMultiple, headTagCount] at hG
      gen_validate_unfold; genv_norm; genv_close

/-- `PpalHeader::Validate`: the guard of the model's reader (`Rd.custom`, third guard), with the model's constants -/
theorem C09_gen_ppalHeader_validate : PpalHeader_Validate_translated = true →
    ∀ (p0 p1 p2 p3 h0 h1 h2 h3 : UInt8) (plen hlen tagCount : Nat), plen < W32 → hlen < W32 → tagCount < W32 →
      PpalHeader_Validate p0.toNat p1.toNat p2.toNat p3.toNat plen h0.toNat h1.toNat h2.toNat h3.toNat hlen tagCount =
        returns (decide ([p0, p1, p2, p3] = tagPPAL ∧ plen = ppalSectionSize ∧ [h0, h1, h2, h3] = tagHead ∧
                         hlen = ppalHeadSectionSize ∧ tagCount = ppalTagCount)) := by
  gen_bridge =>
    intro p0 p1 p2 p3 h0 h1 h2 h3 plen hlen tagCount a1 a2 a3
    have hp := tag_eq p0 p1 p2 p3 80 80 65 76 (by decide) (by decide) (by decide) (by decide)
    have hh := tag_eq h0 h1 h2 h3 104 101 97 100 (by decide) (by decide) (by decide) (by decide)
    have hbp : tagPPAL = [UInt8.ofNat 80, UInt8.ofNat 80, UInt8.ofNat 65, UInt8.ofNat 76] := rfl
    have hbh : tagHead = [UInt8.ofNat 104, UInt8.ofNat 101, UInt8.ofNat 97, UInt8.ofNat 100] := rfl
    simp only [W32] at a1 a2 a3
    by_cases hG : ([p0, p1, p2, p3] = tagPPAL ∧ plen = ppalSectionSize ∧ [h0, h1, h2, h3] = tagHead ∧
                   hlen = ppalHeadSectionSize ∧ tagCount = ppalTagCount)
    · rw [decide_eq_true hG, returns_true]
      simp only [hbp, hbh, hp, hh, ppalSectionSize, ppalHeadSectionSize, ppalTagCount] at hG
      gen_validate_unfold; genv_norm; genv_close
    · rw [decide_eq_false hG, returns_false]
      simp only [hbp, hbh, hp, hh, ppalSectionSize, ppalHeadSectionSize, ppalTagCount] at hG
      gen_validate_unfold; genv_norm; genv_close

end Op2.Props.C09
