import Op2Model.Vol
import Op2Model.Gen.Constants
import Op2Model.Gen.Layout
/-! # C01 — VOL pack → reopen → extract is the identity on file sets (theorems; work in progress) -/
namespace Op2.Vol
open Op2

/-! ## bridging lemmas: facts regenerated from the source on every run -/
theorem C01_gen_namePad : Gen.Constants.vol_namePad = namePad := by decide
theorem C01_gen_indexPad : Gen.Constants.vol_indexPad = indexPad := by decide
theorem C01_gen_blockPad : Gen.Constants.vol_blockPad = blockPad := by decide
theorem C01_gen_firstBlockExtra : Gen.Constants.vol_firstBlockExtra = firstBlockExtra := by decide
theorem C01_gen_headerExtra : Gen.Constants.vol_headerExtra = headerExtra := by decide
theorem C01_gen_entrySize : Gen.Layout.size_VolIndexEntry = entrySize := by decide
theorem C01_gen_secSize : Gen.Layout.size_VolSectionHeader = secSize := by decide
theorem C01_gen_lenMask : Gen.Layout.mask_VolSectionHeader_length = lenMask := by decide
theorem C01_gen_padFlag : Gen.Layout.mask_VolSectionHeader_padding = padFlag := by decide
theorem C01_gen_uncompressed : Gen.Layout.vol_Uncompressed = uncompressed := by decide
theorem C01_gen_copyChunk : 0 < Gen.Layout.DefaultCopyChunkSize := by decide

end Op2.Vol
