import Op2Model.Gen.Constants
import Op2Model.Gen.Layout
import Op2Proofs.Vol.Refuse
import Op2Proofs.Vol.ReadRef
import Op2Proofs.Vol.Lookup
/-!
# C01 — VOL pack → reopen → extract is the identity on file sets; refusals happen before anything is modified

`create out files` is `VolFile::CreateArchive(out, files)` (the archive bytes or a refusal), `createFs` its effect on the
file system, `Vol.open` the constructor `VolFile(path)`, `View.name/size/kind/stream/extract/index` the calls on the opened
archive.  `sortCI nameOf files` is the input list in the library's order (case-insensitive on the final path component).
-/
namespace Op2.Vol
open Op2 Op2.Str

/-! ## facts regenerated from the source -/
theorem C01_gen_namePad : Gen.Constants.vol_namePad_scraped = true → Gen.Constants.vol_namePad = namePad := by decide
theorem C01_gen_indexPad : Gen.Constants.vol_indexPad_scraped = true → Gen.Constants.vol_indexPad = indexPad := by decide
theorem C01_gen_blockPad : Gen.Constants.vol_blockPad_scraped = true → Gen.Constants.vol_blockPad = blockPad := by decide
theorem C01_gen_firstBlockExtra : Gen.Constants.vol_firstBlockExtra_scraped = true → Gen.Constants.vol_firstBlockExtra = firstBlockExtra := by decide
theorem C01_gen_headerExtra : Gen.Constants.vol_headerExtra_scraped = true → Gen.Constants.vol_headerExtra = headerExtra := by decide
theorem C01_gen_entrySize : Gen.Layout.size_VolIndexEntry = entrySize := by decide
theorem C01_gen_secSize : Gen.Layout.size_VolSectionHeader = secSize := by decide
theorem C01_gen_lenMask : Gen.Layout.mask_VolSectionHeader_length = lenMask := by decide
theorem C01_gen_padFlag : Gen.Layout.mask_VolSectionHeader_padding = padFlag := by decide
theorem C01_gen_uncompressed : Gen.Layout.vol_Uncompressed = uncompressed := by decide
/-- the copy loop is correct for every positive chunk size, so the constant only has to be positive -/
theorem C01_gen_copyChunk : 0 < Gen.Layout.DefaultCopyChunkSize := by decide

/-- **the result does not depend on the order in which the inputs are listed** — the archive bytes, or the refusal, are
    the same for every permutation (any `std::sort` result on duplicate-free input is the unique sorted arrangement; with
    duplicates every arrangement is refused) -/
theorem C01_perm (out : Bytes) (files files' : List InFile) (hp : files.Perm files') :
    create out files = create out files' := by
  by_cases hn : NoDupCI nameOf files
  · have := sortCI_perm_invariant nameOf hp hn
    unfold create
    rw [plan_congr out files files' this]
  · have hn' : ¬ NoDupCI nameOf files' := fun h => hn (h.perm nameOf hp.symm)
    unfold create
    rw [plan_dup_refused out files hn, plan_dup_refused out files' hn']

/-- **two inputs whose names are equal ignoring case: refused, and no file is created or modified** (wherever the two
    stand in the list, whatever their directories) -/
theorem C01_refuse_dup (out : Bytes) (files : List InFile) (fs : Fs) (h : ¬ NoDupCI nameOf files) :
    createFs out files fs = (fs, .error .refused) := by
  apply createFs_refused
  unfold create
  rw [plan_dup_refused out files h]

/-- **the output path names one of the inputs (`PathsAreEqual`: same spelling up to letter case and leading `./`):
    refused, and no file is created or modified** -/
theorem C01_refuse_self (out : Bytes) (files : List InFile) (fs : Fs)
    (h : ∃ f ∈ files, Path.pathsAreEqual out f.path = true) : createFs out files fs = (fs, .error .refused) := by
  apply createFs_refused
  apply create_refused_of_not_ok
  intro b hb
  obtain ⟨_, _, hself, _⟩ := create_ok_basic out files b hb
  obtain ⟨f, hf, he⟩ := h
  rw [List.any_eq_false] at hself
  have := hself f ((sortCI_perm nameOf files).mem_iff.mpr hf)
  rw [he] at this; simp at this

/-- every failure of `CreateArchive` is a refusal that leaves the file system as it was -/
theorem C01_failure_is_atomic (out : Bytes) (files : List InFile) (fs : Fs) (e : Err)
    (h : (createFs out files fs).2 = .error e) : createFs out files fs = (fs, .error .refused) := by
  unfold createFs at h ⊢
  cases hc : create out files with
  | ok b => rw [hc] at h; simp at h
  | error e' => rw [create_err out files e' hc]

/-- the members are the inputs, each exactly once, in ascending case-insensitive order of their final path component -/
theorem C01_order (files : List InFile) (hn : NoDupCI nameOf files) :
    (sortCI nameOf files).Perm files ∧ SortedS nameOf (sortCI nameOf files) :=
  ⟨sortCI_perm nameOf files,
   (sortCI_sorted nameOf files).strict nameOf (hn.perm nameOf (sortCI_perm nameOf files).symm)⟩



/-- **pack → reopen → extract is the identity** (∀ output path, ∀ file lists that fit: names pairwise distinct ignoring
    case, members below 2^31 bytes, block offsets below 2^32, output not among the inputs).  The archive is created; opening
    it lists exactly one member per input, in the sorted order, named by the final path component, with the exact size and
    the `uncompressed` kind; the member stream and the extracted file are the input bytes.
    `hn`: names are NUL- and 0xFF-free; `hcap`: the header is below the harness' 1 GiB allocation cap. -/
theorem C01_roundtrip (out : Bytes) (files : List InFile) (h : Fits out files)
    (hn : ∀ f ∈ files, NameOk (nameOf f))
    (hcap : Spec.headerLen (descOf (sortCI nameOf files)) ≤ allocCap) :
    ∃ b v, create out files = .ok b ∧ Vol.open b = .ok v ∧ v.count = files.length ∧
      v.names = (sortCI nameOf files).map nameOf ∧
      ∀ (i : Nat) (hi : i < (sortCI nameOf files).length),
        v.name i = .ok (nameOf (sortCI nameOf files)[i]) ∧
        v.size i = .ok (sortCI nameOf files)[i].content.len ∧
        v.kind i = .ok uncompressed ∧
        v.stream i = .ok (sortCI nameOf files)[i].content.toBytes ∧
        v.extract i = .ok (some (sortCI nameOf files)[i].content.toBytes) := by
  have g := h.good
  have hstrict := descOf_strict out _ g (sorted_names_sortedW files)
    (fun f hf => hn f ((sortCI_perm nameOf files).mem_iff.mp hf))
  obtain ⟨v, hv, _, hcount, hnames, hmem⟩ := open_refEncode _ (Strict.wf hstrict) hcap
  refine ⟨_, v, create_of_good out files g, hv, ?_, ?_, ?_⟩
  · rw [hcount]; simp [descOf, (sortCI_perm nameOf files).length_eq]
  · rw [hnames]; simp [descOf, memberOf]
  · intro i hi
    have hi' : i < (descOf (sortCI nameOf files)).members.length := by simpa [descOf] using hi
    obtain ⟨h1, h2, h3, h4⟩ := hmem i hi'
    have em : (descOf (sortCI nameOf files)).members[i] = memberOf (sortCI nameOf files)[i] := by
      simp [descOf]
    rw [em] at h1 h2 h3 h4
    simp only [memberOf] at h1 h2 h3 h4
    exact ⟨h1, h2, h3, h4, extract_of_kind_stream v i _ h3 h4⟩

/-- **looking a member up by name succeeds in any letter case** (`GetIndex`, `Contains`, hence `OpenStream(name)` and
    `ExtractFile(name, …)`): on the reopened archive, the name of member `i` with an arbitrary subset of its letters
    flipped is found at index `i`.  `hp`: names are what file names can be (non-empty, no `/`, not `.`). -/
theorem C01_lookup_any_case (out : Bytes) (files : List InFile) (h : Fits out files)
    (hn : ∀ f ∈ files, NameOk (nameOf f)) (hp : ∀ f ∈ files, PlainName (nameOf f))
    (hcap : Spec.headerLen (descOf (sortCI nameOf files)) ≤ allocCap)
    (b : Bytes) (v : View) (hb : create out files = .ok b) (hv : Vol.open b = .ok v)
    (i : Nat) (hi : i < (sortCI nameOf files).length) (mask : List Bool) :
    v.index (Spec.anyCase mask (nameOf (sortCI nameOf files)[i])) = .ok i ∧
    v.contains (Spec.anyCase mask (nameOf (sortCI nameOf files)[i])) = .ok true := by
  obtain ⟨b', v', hb', hv', hcount, hnames, _⟩ := C01_roundtrip out files h hn hcap
  rw [hb] at hb'; simp at hb'; subst hb'
  rw [hv] at hv'; simp at hv'; subst hv'
  have hlen : (sortCI nameOf files).length = files.length := (sortCI_perm nameOf files).length_eq
  have hc : v.count = v.names.length := by rw [hcount, hnames]; simp [hlen]
  have hpl : ∀ n ∈ v.names, PlainName n := by
    intro n hn'
    rw [hnames] at hn'
    obtain ⟨f, hf, rfl⟩ := List.mem_map.mp hn'
    exact hp f ((sortCI_perm nameOf files).mem_iff.mp hf)
  have hnd : NoDupCI id v.names := by
    rw [hnames, nodup_names_iff]
    exact h.nodup.perm nameOf (sortCI_perm nameOf files).symm
  have hi' : i < v.names.length := by rw [hnames]; simpa using hi
  have e : v.names[i] = nameOf (sortCI nameOf files)[i] := by simp [hnames]
  have := index_any_case v hc hpl hnd i hi' mask
  rw [e] at this
  exact this

/-! ## non-vacuity: three files of sizes 0, 5 and 131 073 (one byte more than the copy chunk), listed out of order -/
def exFiles : List InFile :=
  [⟨[100, 47, 98, 46, 116], .bytes [1, 2, 3, 4, 5]⟩, ⟨[67], .zeros 131073⟩, ⟨[46, 47, 97], .bytes []⟩]

example : (sortCI nameOf exFiles).map nameOf = [[97], [98, 46, 116], [67]] := by decide
example : ∃ p, plan [111, 46, 118] exFiles = .ok p ∧ planLength p = 131196 := ⟨_, rfl, by decide⟩
example : createFs [111] [⟨[97], .bytes [1]⟩, ⟨[100, 47, 65], .bytes [2]⟩] [] = ([], .error .refused) :=
  C01_refuse_dup _ _ _ (by unfold NoDupCI; decide)
example : createFs [46, 47, 120] [⟨[88], .bytes [1]⟩] [([88], [1])] = ([([88], [1])], .error .refused) :=
  C01_refuse_self _ _ _ ⟨⟨[88], .bytes [1]⟩, by simp, by decide⟩

end Op2.Vol
