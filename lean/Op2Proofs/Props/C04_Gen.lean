import Op2Proofs.GenBits
import Op2Proofs.Props.C04
/-!
# C04 — bridging lemmas: `BitStreamReader` and the index arithmetic of `HuffLZ`, as translated from the current C++ on this run
(`Op2Model/Gen/Bits.lean`, generator `extract/gen_bits.py`), are the model functions of `Op2Model/Lzh.lean` for which the theorems
of `C04.lean` are proved.

Every lemma is `<fn>_translated = true → ∀ states satisfying the invariant, generated result = view of the model's result`; it is
vacuous when the function left the translator's fragment.  Proofs are semantic: numeral normalisation, bit operations turned into
arithmetic by their meaning (`bits_norm`), case split, `omega` — no step follows one spelling of the source.
The bit reader is tied to the *pure* bit stream (`readBit` / `read8`: MSB first, zero past the end) for every state satisfying the
register invariant `CInv` (the register holds the current byte shifted left by the bits already read); the lemma also shows that
the step re-establishes the invariant.
-/
set_option linter.unusedSimpArgs false
set_option linter.unusedVariables false
namespace Op2.Props.C04
open Op2 Op2.Huff Op2.Lzh Op2.GenBridge Op2.GenBits
open Op2.Gen.Bits

/-! ## BitStreamReader -/

/-- the buffer as the generated definitions see it -/
def memOf (data : Array UInt8) : Int → Int := fun i => (byteAt data i.toNat : Int)

theorem C04_gen_readNextBit : BitStreamReader_ReadNextBit_translated = true →
    ∀ (data : Array UInt8) (c : CBits), bitSize data < 2 ^ 64 → c.buf < 256 → CInv data c →
      ∃ buf' : Nat, buf' < 256 ∧ CInv data ⟨(readBit data c.pos).2, buf'⟩ ∧
        BitStreamReader_ReadNextBit (bitSize data) c.pos c.buf (memOf data) =
          some (((readBit data c.pos).1 : Int), ((readBit data c.pos).2 : Int), (buf' : Int)) := by
  gen_bridge =>
    intro data c hs hb hinv
    obtain ⟨p, buf⟩ := c
    simp only at hb hinv ⊢
    by_cases he : p ≥ bitSize data
    · refine ⟨buf, hb, ?_, ?_⟩
      · simp only [readBit, if_pos he]; exact hinv
      · simp only [readBit, if_pos he, BitStreamReader_ReadNextBit]
        bits_norm
        bits_close
    · -- the register after the (possible) reload, as `readBit_refines` has it
      have hlt : p < bitSize data := by omega
      have hB := byteAt_lt data (p / 8)
      have hk : p % 8 < 8 := Nat.mod_lt _ (by omega)
      obtain ⟨rb, hrb, hrbdef⟩ : ∃ rb, rb = (byteAt data (p / 8) * 2 ^ (p % 8)) % 256 ∧
          rb = (if p % 8 = 0 then byteAt data (p / 8) else buf) := by
        refine ⟨_, rfl, ?_⟩
        by_cases hz : p % 8 = 0
        · rw [if_pos hz, hz]; omega
        · rw [if_neg hz]; exact (hinv hz hlt).symm
      have hrb256 : rb < 256 := by omega
      have hidx : ((p : Int) / 8).toNat = p / 8 := by omega
      refine ⟨(rb * 2) % 256, by omega, ?_, ?_⟩
      · simp only [readBit, if_neg he]
        intro hnz hlt'
        simp only at hnz hlt' ⊢
        have hk7 : p % 8 < 7 := by omega
        have e1 : (p + 1) / 8 = p / 8 := by omega
        have e2 : (p + 1) % 8 = p % 8 + 1 := by omega
        rw [e1, e2, hrb]; exact reg_shift _ _ hk7
      · have hbit : bitAt data p = if rb / 128 % 2 = 1 then 1 else 0 := by
          rw [bitAt_eq, hrb]; exact (reg_bit _ _ hB hk).symm
        simp only [readBit, if_neg he, hbit, BitStreamReader_ReadNextBit, memOf]
        unfold bitSize at *
        bits_num
        simp only [hidx]
        bits_norm
        clear hrb hbit hinv
        split at hrbdef <;> bits_close

theorem byteAt_past (data : Array UInt8) (i : Nat) (h : data.size ≤ i) : byteAt data i = 0 := by
  unfold byteAt; simp [Array.getD_eq_getD_getElem?, h]

set_option maxHeartbeats 1000000 in
theorem C04_gen_readNext8Bits : BitStreamReader_ReadNext8Bits_translated = true →
    ∀ (data : Array UInt8) (c : CBits), bitSize data < 2 ^ 64 → c.buf < 256 → CInv data c →
      ∃ buf' : Nat, buf' < 256 ∧ CInv data ⟨(read8 data c.pos).2, buf'⟩ ∧
        BitStreamReader_ReadNext8Bits (bitSize data) c.pos c.buf (memOf data) =
          some (((read8 data c.pos).1 : Int), ((read8 data c.pos).2 : Int), (buf' : Int)) := by
  gen_bridge =>
    intro data c hs hb hinv
    obtain ⟨p, buf⟩ := c
    simp only at hb hinv ⊢
    by_cases he : p ≥ bitSize data
    · refine ⟨buf, hb, ?_, ?_⟩
      · simp only [read8, if_pos he]; exact hinv
      · simp only [read8, if_pos he, BitStreamReader_ReadNext8Bits]
        unfold bitSize at *
        bits_norm
        bits_close
    · have hlt : p < bitSize data := by omega
      have hB := byteAt_lt data (p / 8)
      have hN := byteAt_lt data (p / 8 + 1)
      have hidx : ((p : Int) / 8).toNat = p / 8 := by omega
      have hidx2 : (((p : Int) + 8) / 8).toNat = p / 8 + 1 := by omega
      -- `idx % 8` spelled on `size_t` (`Int`) is the same atom as `idx & 7` (`Nat`)
      have hkI : (p : Int) % 8 = ((p % 8 : Nat) : Int) := by omega
      have hidx3 : (((p : Int) + 8) % 18446744073709551616 / 8).toNat = p / 8 + 1 := by
        have : bitSize data = 8 * data.size := rfl
        omega
      have hN0 : p + 8 < 8 * data.size ∨ byteAt data (p / 8 + 1) = 0 := by
        by_cases h : p + 8 < 8 * data.size
        · exact Or.inl h
        · exact Or.inr (byteAt_past data _ (by omega))
      by_cases hz : p % 8 = 0
      · refine ⟨buf, hb, ?_, ?_⟩
        · simp only [read8, if_neg he]
          intro hnz; exact absurd (show (p + 8) % 8 = 0 by omega) hnz
        · simp only [read8, if_neg he, bits8_aligned data p hz, BitStreamReader_ReadNext8Bits, memOf]
          unfold bitSize at *
          bits_num
          simp only [hidx, hidx2, hidx3, hkI, hz]
          bits_norm
          clear hinv
          bits_close
      · have hreg := hinv hz hlt
        simp only at hreg
        refine ⟨(byteAt data (p / 8 + 1) * 2 ^ (p % 8)) % 256, Nat.mod_lt _ (by omega), ?_, ?_⟩
        · simp only [read8, if_neg he]
          intro _ _
          have e1 : (p + 8) / 8 = p / 8 + 1 := by omega
          have e2 : (p + 8) % 8 = p % 8 := by omega
          simp only [e1, e2]
        · simp only [read8, if_neg he, bits8_unaligned data p hz, BitStreamReader_ReadNext8Bits, memOf]
          unfold bitSize at *
          clear hinv
          generalize byteAt data (p / 8) = B at *
          have hk : p % 8 = 1 ∨ p % 8 = 2 ∨ p % 8 = 3 ∨ p % 8 = 4 ∨ p % 8 = 5 ∨ p % 8 = 6 ∨ p % 8 = 7 := by omega
          rcases hk with hk | hk | hk | hk | hk | hk | hk <;>
          · bits_num
            try simp only [hkI]
            simp only [hk] at hreg ⊢
            try simp only [Int.cast_ofNat_Int]
            bits_num
            simp only [hidx, hidx2, hidx3, Nat.or_zero]
            generalize byteAt data (p / 8 + 1) = Nb at *
            bits_norm
            try simp only [Nat.or_zero]
            try rw [or_disj (p % 8)]
            all_goals (try simp only [hk, Nat.reducePow])
            all_goals bits_close


/-! ## HuffLZ -/

theorem offsetMods_upper_lt : ∀ o, o < 256 → (offsetMods o).2 < 64 := by
  apply forall_byte; decide +kernel

/-- `GetRepeatOffset`: with `o` = the value `ReadNext8Bits` returned and `o2` = the local `offset` after the extra-bit loop, the
    function returns `upper(o) * 64 + o2 % 64` — the model's `repeatOffset` (`(up * 64 + o2 % 64, p2)`) -/
theorem C04_gen_repeatOffset : (HuffLZ_GetRepeatOffset_translated && Gen.Formulas.gen_GetOffsetModifiers_translated) = true →
    ∀ (o o2 : Nat), o < 256 → o2 < 2 ^ 32 →
      HuffLZ_GetRepeatOffset o o2 = some ((((offsetMods o).2 * 64 + o2 % 64 : Nat)) : Int) := by
  gen_bridge h =>
    intro o o2 ho ho2
    simp only [Bool.and_eq_true] at h
    have hm := C04_gen_offsetModifiers h.2 o ho
    have hu := offsetMods_upper_lt o ho
    have e : ((o : Int) % 4294967296) = Int.ofNat o := by simp only [Int.ofNat_eq_natCast]; omega
    simp only [HuffLZ_GetRepeatOffset, e, hm]
    bits_norm
    try rw [or_disj 6]
    all_goals bits_close

/-- the model's `repeatOffset` is that formula on the two bit-reader results -/
theorem C04_repeatOffset_shape (data : Array UInt8) (p : Nat) :
    (repeatOffset data p).1 =
      (offsetMods (read8 data p).1).2 * 64 +
        (readExtra data (offsetMods (read8 data p).1).1 (read8 data p).1 (read8 data p).2).1 % 64 := rfl

theorem C04_gen_writeChar : HuffLZ_WriteCharToBuffer_translated = true →
    ∀ (buf : Array UInt8) (w : Nat) (c : UInt8), w < N →
      HuffLZ_WriteCharToBuffer w c.toNat = some (((put buf w c).2 : Int), (w : Int), (c.toNat : Int)) ∧
      (put buf w c).1 = buf.setIfInBounds w c := by
  gen_bridge =>
    intro buf w c hw
    refine ⟨?_, rfl⟩
    simp only [HuffLZ_WriteCharToBuffer, put, N] at *
    bits_norm
    bits_close

theorem C04_gen_fill_guard : HuffLZ_FillDecompressBuffer_translated = true → Gen.Constants.huff_maxFill_scraped = true →
    ∀ (st : St), st.w < N → st.r < N →
      HuffLZ_FillDecompressBuffer st.w st.r (if st.eos then 1 else 0) =
        some (if st.eos then -1 else if st.unread < maxFill then 1 else 0) := by
  gen_bridge =>
    intro _ st hw hr
    simp only [HuffLZ_FillDecompressBuffer, St.unread, maxFill, Gen.Constants.huff_maxFill, N] at *
    bits_norm
    cases st.eos <;> simp only [Bool.false_eq_true, if_true, if_false]
    all_goals bits_close

theorem C04_gen_getInternal : HuffLZ_GetInternalBuffer_translated = true →
    ∀ (st : St), st.w < N → st.r < N →
      HuffLZ_GetInternalBuffer st.w st.r =
        some ((st.r : Int), ((if st.w < st.r then N - st.r else st.w - st.r : Nat) : Int),
              (((st.r + (if st.w < st.r then N - st.r else st.w - st.r)) % N : Nat) : Int)) := by
  gen_bridge =>
    intro st hw hr
    simp only [HuffLZ_GetInternalBuffer, N] at *
    bits_norm
    bits_close

theorem C04_gen_endOfStream : (BitStreamReader_EndOfStream_translated && BitStreamReader_GetBitReadPos_translated) = true →
    ∀ (data : Array UInt8) (p buf : Nat),
      BitStreamReader_EndOfStream (bitSize data) p buf = some (if endOfStream data p then 1 else 0) ∧
      BitStreamReader_GetBitReadPos (bitSize data) p buf = some (p : Int) := by
  gen_bridge =>
    intro data p buf
    simp only [BitStreamReader_EndOfStream, BitStreamReader_GetBitReadPos, endOfStream, decide_eq_true_eq]
    refine ⟨?_, ?_⟩ <;> bits_close

theorem C04_gen_reader_create : BitStreamReader_Create_translated = true →
    ∀ (data : Array UInt8), data.size < 2 ^ 64 →
      BitStreamReader_Create data.size = (if data.size < 2 ^ 61 then some ((bitSize data : Int), 0, 0) else none) := by
  gen_bridge =>
    intro data hs
    simp only [BitStreamReader_Create, bitSize] at *
    bits_norm
    bits_close

end Op2.Props.C04
