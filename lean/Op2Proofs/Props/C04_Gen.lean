import Op2Proofs.GenBits
import Op2Proofs.Props.C04
/-!
# C04 — bridging lemmas: `BitStreamReader` and the index arithmetic of `HuffLZ`, as translated from the current C++ on this run
(`Op2Model/Gen/Bits.lean`, generator `extract/gen_bits.py`), are the model functions of `Op2Model/Lzh.lean` for which the theorems
of `C04.lean` are proved.

Every lemma is `<fn>_translated = true → ∀ states satisfying the invariant, generated result = view of the model's result`; it is
vacuous when the function left the translator's fragment.  Proofs are semantic: numeral normalisation, bit operations turned into
arithmetic by their meaning (`bits_norm`), case split, `omega` — no step follows one spelling of the source.
The bit reader is tied to the *pure* bit stream (`readBit` / `read8`: MSB first, zero past the end) for every state satisfying the
register invariant `CInv` (the register holds the current byte shifted left by the bits already read); the lemma also shows that
the step re-establishes the invariant.
-/
set_option linter.unusedSimpArgs false
set_option linter.unusedVariables false
namespace Op2.Props.C04
open Op2 Op2.Huff Op2.Lzh Op2.GenBridge Op2.GenBits
open Op2.Gen.Bits

/-! ## BitStreamReader -/

/-- the buffer as the generated definitions see it -/
def memOf (data : Array UInt8) : Int → Int := fun i => (byteAt data i.toNat : Int)

theorem C04_gen_readNextBit : BitStreamReader_ReadNextBit_translated = true →
    ∀ (data : Array UInt8) (c : CBits), bitSize data < 2 ^ 64 → c.buf < 256 → CInv data c →
      ∃ buf' : Nat, buf' < 256 ∧ CInv data ⟨(readBit data c.pos).2, buf'⟩ ∧
        BitStreamReader_ReadNextBit (bitSize data) c.pos c.buf (memOf data) =
          some (((readBit data c.pos).1 : Int), ((readBit data c.pos).2 : Int), (buf' : Int)) := by
  gen_bridge =>
    intro data c hs hb hinv
    obtain ⟨p, buf⟩ := c
    simp only at hb hinv ⊢
    by_cases he : p ≥ bitSize data
    · refine ⟨buf, hb, ?_, ?_⟩
      · simp only [readBit, if_pos he]; exact hinv
      · simp only [readBit, if_pos he, BitStreamReader_ReadNextBit]
        bits_norm
        bits_close
    · -- the register after the (possible) reload, as `readBit_refines` has it
      have hlt : p < bitSize data := by omega
      have hB := byteAt_lt data (p / 8)
      have hk : p % 8 < 8 := Nat.mod_lt _ (by omega)
      obtain ⟨rb, hrb, hrbdef⟩ : ∃ rb, rb = (byteAt data (p / 8) * 2 ^ (p % 8)) % 256 ∧
          rb = (if p % 8 = 0 then byteAt data (p / 8) else buf) := by
        refine ⟨_, rfl, ?_⟩
        by_cases hz : p % 8 = 0
        · rw [if_pos hz, hz]; omega
        · rw [if_neg hz]; exact (hinv hz hlt).symm
      have hrb256 : rb < 256 := by omega
      have hidx : ((p : Int) / 8).toNat = p / 8 := by omega
      refine ⟨(rb * 2) % 256, by omega, ?_, ?_⟩
      · simp only [readBit, if_neg he]
        intro hnz hlt'
        simp only at hnz hlt' ⊢
        have hk7 : p % 8 < 7 := by omega
        have e1 : (p + 1) / 8 = p / 8 := by omega
        have e2 : (p + 1) % 8 = p % 8 + 1 := by omega
        rw [e1, e2, hrb]; exact reg_shift _ _ hk7
      · have hbit : bitAt data p = if rb / 128 % 2 = 1 then 1 else 0 := by
          rw [bitAt_eq, hrb]; exact (reg_bit _ _ hB hk).symm
        simp only [readBit, if_neg he, hbit, BitStreamReader_ReadNextBit, memOf]
        unfold bitSize at *
        bits_num
        simp only [hidx]
        bits_norm
        clear hrb hbit hinv
        split at hrbdef <;> bits_close

theorem byteAt_past (data : Array UInt8) (i : Nat) (h : data.size ≤ i) : byteAt data i = 0 := by
  unfold byteAt; simp [Array.getD_eq_getD_getElem?, h]

set_option maxHeartbeats 1000000 in
theorem C04_gen_readNext8Bits : BitStreamReader_ReadNext8Bits_translated = true →
    ∀ (data : Array UInt8) (c : CBits), bitSize data < 2 ^ 64 → c.buf < 256 → CInv data c →
      ∃ buf' : Nat, buf' < 256 ∧ CInv data ⟨(read8 data c.pos).2, buf'⟩ ∧
        BitStreamReader_ReadNext8Bits (bitSize data) c.pos c.buf (memOf data) =
          some (((read8 data c.pos).1 : Int), ((read8 data c.pos).2 : Int), (buf' : Int)) := by
  gen_bridge =>
    intro data c hs hb hinv
    obtain ⟨p, buf⟩ := c
    simp only at hb hinv ⊢
    by_cases he : p ≥ bitSize data
    · refine ⟨buf, hb, ?_, ?_⟩
      · simp only [read8, if_pos he]; exact hinv
      · simp only [read8, if_pos he, BitStreamReader_ReadNext8Bits]
        unfold bitSize at *
        bits_norm
        bits_close
    · have hlt : p < bitSize data := by omega
      have hB := byteAt_lt data (p / 8)
      have hN := byteAt_lt data (p / 8 + 1)
      have hidx : ((p : Int) / 8).toNat = p / 8 := by omega
      have hidx2 : (((p : Int) + 8) / 8).toNat = p / 8 + 1 := by omega
      -- `idx % 8` spelled on `size_t` (`Int`) is the same atom as `idx & 7` (`Nat`)
      have hkI : (p : Int) % 8 = ((p % 8 : Nat) : Int) := by omega
      have hidx3 : (((p : Int) + 8) % 18446744073709551616 / 8).toNat = p / 8 + 1 := by
        have : bitSize data = 8 * data.size := rfl
        omega
      have hN0 : p + 8 < 8 * data.size ∨ byteAt data (p / 8 + 1) = 0 := by
        by_cases h : p + 8 < 8 * data.size
        · exact Or.inl h
        · exact Or.inr (byteAt_past data _ (by omega))
      by_cases hz : p % 8 = 0
      · refine ⟨buf, hb, ?_, ?_⟩
        · simp only [read8, if_neg he]
          intro hnz; exact absurd (show (p + 8) % 8 = 0 by omega) hnz
        · simp only [read8, if_neg he, bits8_aligned data p hz, BitStreamReader_ReadNext8Bits, memOf]
          unfold bitSize at *
          bits_num
          simp only [hidx, hidx2, hidx3, hkI, hz]
          bits_norm
          clear hinv
          bits_close
      · have hreg := hinv hz hlt
        simp only at hreg
        refine ⟨(byteAt data (p / 8 + 1) * 2 ^ (p % 8)) % 256, Nat.mod_lt _ (by omega), ?_, ?_⟩
        · simp only [read8, if_neg he]
          intro _ _
          have e1 : (p + 8) / 8 = p / 8 + 1 := by omega
          have e2 : (p + 8) % 8 = p % 8 := by omega
          simp only [e1, e2]
        · simp only [read8, if_neg he, bits8_unaligned data p hz, BitStreamReader_ReadNext8Bits, memOf]
          unfold bitSize at *
          clear hinv
          generalize byteAt data (p / 8) = B at *
          have hk : p % 8 = 1 ∨ p % 8 = 2 ∨ p % 8 = 3 ∨ p % 8 = 4 ∨ p % 8 = 5 ∨ p % 8 = 6 ∨ p % 8 = 7 := by omega
          rcases hk with hk | hk | hk | hk | hk | hk | hk <;>
          · bits_num
            try simp only [hkI]
            simp only [hk] at hreg ⊢
            try simp only [Int.cast_ofNat_Int]
            bits_num
            simp only [hidx, hidx2, hidx3, Nat.or_zero]
            generalize byteAt data (p / 8 + 1) = Nb at *
            bits_norm
            try simp only [Nat.or_zero]
            try rw [or_disj (p % 8)]
            all_goals (try simp only [hk, Nat.reducePow])
            all_goals bits_close


/-! ## HuffLZ -/

theorem offsetMods_upper_lt : ∀ o, o < 256 → (offsetMods o).2 < 64 := by
  apply forall_byte; decide +kernel

/-- `GetRepeatOffset`: with `o` = the value `ReadNext8Bits` returned and `o2` = the local `offset` after the extra-bit loop, the
    function returns `upper(o) * 64 + o2 % 64` — the model's `repeatOffset` (`(up * 64 + o2 % 64, p2)`) -/
theorem C04_gen_repeatOffset : (HuffLZ_GetRepeatOffset_translated && Gen.Formulas.gen_GetOffsetModifiers_translated) = true →
    ∀ (o o2 : Nat), o < 256 → o2 < 2 ^ 32 →
      HuffLZ_GetRepeatOffset o o2 = some ((((offsetMods o).2 * 64 + o2 % 64 : Nat)) : Int) := by
  gen_bridge h =>
    intro o o2 ho ho2
    simp only [Bool.and_eq_true] at h
    have hm := C04_gen_offsetModifiers h.2 o ho
    have hu := offsetMods_upper_lt o ho
    have e : ((o : Int) % 4294967296) = Int.ofNat o := by simp only [Int.ofNat_eq_natCast]; omega
    simp only [HuffLZ_GetRepeatOffset, e, hm]
    bits_norm
    try rw [or_disj 6]
    all_goals bits_close

/-- the model's `repeatOffset` is that formula on the two bit-reader results -/
theorem C04_repeatOffset_shape (data : Array UInt8) (p : Nat) :
    (repeatOffset data p).1 =
      (offsetMods (read8 data p).1).2 * 64 +
        (readExtra data (offsetMods (read8 data p).1).1 (read8 data p).1 (read8 data p).2).1 % 64 := rfl

theorem C04_gen_writeChar : HuffLZ_WriteCharToBuffer_translated = true →
    ∀ (buf : Array UInt8) (w : Nat) (c : UInt8), w < N →
      HuffLZ_WriteCharToBuffer w c.toNat = some (((put buf w c).2 : Int), (w : Int), (c.toNat : Int)) ∧
      (put buf w c).1 = buf.setIfInBounds w c := by
  gen_bridge =>
    intro buf w c hw
    refine ⟨?_, rfl⟩
    simp only [HuffLZ_WriteCharToBuffer, put, N] at *
    bits_norm
    bits_close

theorem C04_gen_fill_guard : HuffLZ_FillDecompressBuffer_translated = true → Gen.Constants.huff_maxFill_scraped = true →
    ∀ (st : St), st.w < N → st.r < N →
      HuffLZ_FillDecompressBuffer st.w st.r (if st.eos then 1 else 0) =
        some (if st.eos then -1 else if st.unread < maxFill then 1 else 0) := by
  gen_bridge =>
    intro _ st hw hr
    simp only [HuffLZ_FillDecompressBuffer, St.unread, maxFill, Gen.Constants.huff_maxFill, N] at *
    bits_norm
    cases st.eos <;> simp only [Bool.false_eq_true, if_true, if_false]
    all_goals bits_close

theorem C04_gen_getInternal : HuffLZ_GetInternalBuffer_translated = true →
    ∀ (st : St), st.w < N → st.r < N →
      HuffLZ_GetInternalBuffer st.w st.r =
        some ((st.r : Int), ((if st.w < st.r then N - st.r else st.w - st.r : Nat) : Int),
              (((st.r + (if st.w < st.r then N - st.r else st.w - st.r)) % N : Nat) : Int)) := by
  gen_bridge =>
    intro st hw hr
    simp only [HuffLZ_GetInternalBuffer, N] at *
    bits_norm
    bits_close

/-! ## `HuffLZ::CopyAvailableData`: the copy half of `GetData`

The generated definition records, per `memcpy` in path order, destination offset, source offset and length (`-1` when that
`memcpy` is not performed), the new `m_BuffReadIndex` and the returned count.  `C04_gen_copyAvailable_extents` is the
index / length statement (unfold, numerals, a case split on every `if`, `omega` — no step follows the order of the tests or the
spelling of a clamp or of the wrap-around); `C04_gen_copyAvailable` derives from it, with model-side lemmas only (`seg_append`,
`copyAvailable_eq`), that the bytes the `memcpy`s read are the bytes the model's `copyAvailable` delivers. -/

/-- the index / length content of a result of the generated `CopyAvailableData` (`w`, `r` the indices before the call):
    returned count and new read index are those of a delivery of `n = min size waiting` bytes, the two recorded `memcpy`
    slots `(dst, src, len)` (absent: `-1`) have lengths adding up to `n`, a slot that moves bytes writes at destination offset
    `0` (first) / length of the first (second), reads from the read index / the read index advanced circularly by the first
    length, and stays inside the `N`-byte buffer -/
def CopyExtents (w r size : Nat) : Option (Int × Int × Int × Int × Int × Int × Int × Int) → Prop
  | none => False
  | some (ret, r', d0, s0, l0, d1, s1, l1) =>
      ret = ((min size ((w + N - r) % N) : Nat) : Int) ∧
      r' = (((r + min size ((w + N - r) % N)) % N : Nat) : Int) ∧
      l0.toNat + l1.toNat = min size ((w + N - r) % N) ∧
      (0 < l0 → d0 = 0 ∧ s0 = (r : Int) ∧ s0 + l0 ≤ (N : Int)) ∧
      (0 < l1 → d1 = (l0.toNat : Int) ∧ s1 = (((r + l0.toNat) % N : Nat) : Int) ∧ s1 + l1 ≤ (N : Int))

set_option maxHeartbeats 400000 in
theorem C04_gen_copyAvailable_extents : HuffLZ_CopyAvailableData_translated = true →
    ∀ (st : St) (size : Nat), st.w < N → st.r < N → size < 2 ^ 64 →
      CopyExtents st.w st.r size (HuffLZ_CopyAvailableData st.w st.r size) := by
  gen_bridge =>
    intro st size hw hr hs
    generalize st.w = w at *
    generalize st.r = r at *
    simp only [HuffLZ_CopyAvailableData, N] at *
    bits_norm
    repeat' split
    -- (no `bits_norm` on the hypotheses of a branch: it would use an infeasible branch's own contradictory hypothesis to
    --  justify dropping a `% 2^64` inside it, after which `omega` no longer sees that the branch is infeasible)
    all_goals (simp only [CopyExtents, N])
    all_goals (and_intros <;> intros <;> and_intros <;> first | trivial | omega)

/-- the bytes one recorded `memcpy(dst, &m_DecompressBuffer[src], len)` reads: `len` consecutive bytes from the *linear* offset
    `src` (no wrap-around: `memcpy` knows nothing of the circular buffer); an absent slot (`len = -1`) reads nothing -/
def memcpyBytes (buf : Array UInt8) (src len : Int) : List UInt8 :=
  (List.range len.toNat).map (fun i => buf.getD (src.toNat + i) 0)

/-- inside the buffer the linear read is the model's circular segment -/
theorem memcpyBytes_eq_seg (buf : Array UInt8) (s l : Nat) (h : s + l ≤ N) :
    memcpyBytes buf (s : Int) (l : Int) = seg buf s l := by
  unfold memcpyBytes seg
  simp only [Int.toNat_natCast]
  apply List.map_congr_left
  intro i hi
  rw [List.mem_range] at hi
  rw [Nat.mod_eq_of_lt (by omega)]

theorem memcpyBytes_nonpos (buf : Array UInt8) (s l : Int) (h : l ≤ 0) : memcpyBytes buf s l = [] := by
  unfold memcpyBytes
  rw [Int.toNat_of_nonpos h]; rfl

/-- … and, the buffer being `N` bytes long, the slice `buf[src, src + len)` -/
theorem memcpyBytes_eq_extract (buf : Array UInt8) (s l : Nat) (hb : buf.size = N) (h : s + l ≤ N) :
    memcpyBytes buf (s : Int) (l : Int) = (buf.extract s (s + l)).toList := by
  unfold memcpyBytes
  simp only [Int.toNat_natCast]
  apply List.ext_getElem
  · simp; omega
  · intro i h1 h2
    simp at h1
    simp [Array.getD, show s + i < buf.size by omega]

/-- **`HuffLZ::CopyAvailableData` as compiled is the model's `copyAvailable`.**  For every window state with indices below `N`
    and every `size_t` request: the returned count is the number of bytes the model delivers, the new `m_BuffReadIndex` is the
    model's, every `memcpy` that moves bytes stays inside the 4096-byte buffer, writes at destination offset `0` (first) /
    directly behind the first (second), and the bytes the two `memcpy` read — in destination order — are the bytes the model
    delivers. -/
theorem C04_gen_copyAvailable : HuffLZ_CopyAvailableData_translated = true →
    ∀ (st : St) (size : Nat), st.w < N → st.r < N → size < 2 ^ 64 →
      ∃ d0 s0 l0 d1 s1 l1 : Int,
        HuffLZ_CopyAvailableData st.w st.r size =
          some ((((copyAvailable st size).1.length : Nat) : Int), (((copyAvailable st size).2.r : Nat) : Int),
                d0, s0, l0, d1, s1, l1) ∧
        (0 < l0 → d0 = 0 ∧ 0 ≤ s0 ∧ s0 + l0 ≤ (N : Int)) ∧
        (0 < l1 → d1 = (l0.toNat : Int) ∧ 0 ≤ s1 ∧ s1 + l1 ≤ (N : Int)) ∧
        memcpyBytes st.buf s0 l0 ++ memcpyBytes st.buf s1 l1 = (copyAvailable st size).1 := by
  intro ht st size hw hr hs
  have hx := C04_gen_copyAvailable_extents ht st size hw hr hs
  rw [copyAvailable_eq st size hw hr]
  simp only [seg_length]
  have hu : st.unread = (st.w + N - st.r) % N := rfl
  cases hg : HuffLZ_CopyAvailableData st.w st.r size with
  | none => rw [hg] at hx; exact hx.elim
  | some t =>
    obtain ⟨ret, r', d0, s0, l0, d1, s1, l1⟩ := t
    rw [hg] at hx
    simp only [CopyExtents] at hx
    obtain ⟨h1, h2, h3, h4, h5⟩ := hx
    rw [← hu] at h1 h2 h3
    refine ⟨d0, s0, l0, d1, s1, l1, ?_, ?_, ?_, ?_⟩
    · rw [h1, h2]
    · intro h; have := h4 h; omega
    · intro h; have := h5 h; omega
    · rw [← h3]
      -- the two slots as model segments
      have e0 : memcpyBytes st.buf s0 l0 = seg st.buf st.r l0.toNat := by
        by_cases h : 0 < l0
        · obtain ⟨_, hs0, hb⟩ := h4 h
          have : l0 = ((l0.toNat : Nat) : Int) := by omega
          rw [hs0, this, memcpyBytes_eq_seg _ _ _ (by omega)]
          simp only [Int.toNat_natCast]
        · rw [memcpyBytes_nonpos _ _ _ (by omega), show l0.toNat = 0 by omega]; rfl
      have e1 : memcpyBytes st.buf s1 l1 = seg st.buf ((st.r + l0.toNat) % N) l1.toNat := by
        by_cases h : 0 < l1
        · obtain ⟨_, hs1, hb⟩ := h5 h
          have : l1 = ((l1.toNat : Nat) : Int) := by omega
          rw [hs1, this, memcpyBytes_eq_seg _ _ _ (by omega)]
          simp only [Int.toNat_natCast]
        · rw [memcpyBytes_nonpos _ _ _ (by omega), show l1.toNat = 0 by omega]; rfl
      rw [e0, e1, seg_append]

theorem C04_gen_endOfStream : (BitStreamReader_EndOfStream_translated && BitStreamReader_GetBitReadPos_translated) = true →
    ∀ (data : Array UInt8) (p buf : Nat),
      BitStreamReader_EndOfStream (bitSize data) p buf = some (if endOfStream data p then 1 else 0) ∧
      BitStreamReader_GetBitReadPos (bitSize data) p buf = some (p : Int) := by
  gen_bridge =>
    intro data p buf
    simp only [BitStreamReader_EndOfStream, BitStreamReader_GetBitReadPos, endOfStream, decide_eq_true_eq]
    refine ⟨?_, ?_⟩ <;> bits_close

theorem C04_gen_reader_create : BitStreamReader_Create_translated = true →
    ∀ (data : Array UInt8), data.size < 2 ^ 64 →
      BitStreamReader_Create data.size = (if data.size < 2 ^ 61 then some ((bitSize data : Int), 0, 0) else none) := by
  gen_bridge =>
    intro data hs
    simp only [BitStreamReader_Create, bitSize] at *
    bits_norm
    bits_close

end Op2.Props.C04
