import Op2Proofs.Prt.Local
import Op2Proofs.Prt.UseFacts
/-!
# C11 (PRT part) — the PRT loader is safe on arbitrary bytes; what it returns is safe to use

The reader model `Prt.readFull` is built from `Reader::Read` (`Parser.take`: all `k` bytes or an error) alone — it has no
raw memory operation, so its only outcomes are a value or an ordinary error.  `Local` makes that precise: the outcome is
a function of the bytes handed out by `take` (nothing beyond the consumed prefix is ever looked at), and cutting into
that prefix is refused.  The follow-up operations index vectors and buffers through checked primitives (`idx`, `slice`)
that return an explicit `Fault`; "safe to use" is the theorem that no `Fault` is reachable on a loaded object.
-/
namespace Op2.Prt
open Op2 Op2.Parser Op2.Parser.PrtInv

/-- loading looks at the consumed prefix only: whatever follows it (other data, the end of the buffer) cannot change the
    outcome, i.e. the loader never reads past what `Reader::Read` delivered -/
theorem C11_no_fault_load (b : Bytes) (r : List Bytes × ArtFile) (rest : Bytes) (h : readFull b = .ok (r, rest)) (junk : Bytes) :
    readFull (b.take (b.length - rest.length) ++ junk) = .ok (r, junk) :=
  local_readFull.trailing h junk

/-- proper prefixes of an accepted file (cutting into what was consumed) are always refused -/
theorem C11_prefix_strict (b : Bytes) (a : ArtFile) (h : read b = .ok a) (k : Nat) (hk : k < consumed b) :
    ∃ e, read (b.take k) = .error e := by
  obtain ⟨hs, rest, hr⟩ := read_eq_ok h
  have hc : consumed b = b.length - rest.length := by unfold consumed; rw [hr]
  obtain ⟨e, he⟩ := local_readFull.prefix_refused hr k (by omega)
  exact ⟨e, by unfold read; rw [he]⟩

/-- every object the loader returns is safe to use: sprite extraction by ANY index against ANY pixel file ends in a
    bitmap or an ordinary error, never in a fault (out-of-range `imageMetas[index]`, `palettes[paletteIndex]`, palette
    copy, pixel slice, row pointer of the bitmap writer) -/
theorem C11_no_fault_use (b : Bytes) (a : ArtFile) (h : read b = .ok a) (i : Nat) (pix : Bytes) :
    ∃ r : Except Err Bytes, extractImage a i pix = .ok r := by
  obtain ⟨hs, rest, hr⟩ := read_eq_ok h
  have := post_readFull _ _ _ hr
  exact extractImage_no_fault this.1 this.2.1 i pix

/-- the other public operations: the index check and `Write` are total functions without raw accesses; the counters
    have no fault for in-range indices -/
theorem C11_no_fault_counts (a : ArtFile) (i j : Nat) (hi : i < a.animations.length) (hj : j < a.animations[i].frames.length) :
    frameCount a i = .ok a.animations[i].frames.length ∧ layerCount a i j = .ok (a.animations[i].frames[j]).layers.length :=
  ⟨frameCount_ok hi, layerCount_ok hi hj⟩

/-- an index at or beyond the image count is refused with an ordinary error (for every structure, loaded or not) -/
theorem C11_index (a : ArtFile) (i : Nat) (h : a.imageMetas.length ≤ i) (pix : Bytes) :
    extractImage a i pix = .ok (.error .bounds) := extractImage_index h pix

theorem C11_index_verify (a : ArtFile) (i : Nat) : verifyIndex a i = .ok () ↔ i < a.imageMetas.length := by
  unfold verifyIndex; split <;> simp <;> omega

/-! bridging: the shadow flag is bit 2 of the image type word (measured); it selects the 2- or 256-colour palette copy -/
theorem C11_gen_isShadow : Gen.Layout.mask_ImageType_isShadow = 4 := by decide
theorem C11_gen_palette_entries : Gen.Layout.size_Palette8Bit = 256 * Gen.Layout.size_Color := by decide

/-! non-vacuity: a file with one palette and one 4x2 image loads, extraction of index 0 yields a bitmap, index 1 an error,
    and without the guards the fault is reachable (the primitives are not vacuous) -/
def exArt1 : ArtFile := ⟨[List.replicate 256 ⟨1, 2, 3, 4⟩], [⟨4, 2, 2, 3, 0, 0⟩], [], 0⟩
def outcome (r : FaultM Bytes) : Nat := match r with | .error _ => 0 | .ok (.error _) => 1 | .ok (.ok b) => 2 + b.length
set_option maxRecDepth 100000 in
example : outcome (extractImage exArt1 0 (zeros 1100)) = 2 + 14 + 40 + 1024 + 8 := by decide
set_option maxRecDepth 100000 in
example : outcome (extractImage exArt1 0 (zeros 1087)) = 1 := by decide
example : outcome (extractImage exArt1 1 (zeros 1100)) = 1 := by decide
/-- without the index check the access would fault: the primitive is not vacuous -/
example : idx exArt1.imageMetas 1 = .error .vectorIndex := rfl
example : idx ([] : List Nat) 0 = .error .vectorIndex := rfl
example : slice [1, 2, 3] 2 2 = .error .oobRead := rfl
example : ∃ r, bmpRows [] 0 0 0 5 = .ok r := ⟨_, rfl⟩

end Op2.Prt
