import Op2Proofs.Lzh.Drain
import Op2Proofs.Lzh.Bits
import Op2Proofs.Lzh.Encode
import Op2Model.Gen.Constants
import Op2Model.Gen.Layout
import Op2Model.Gen.Formulas
/-!
# C04 — LZH decompression equals the reference decoder, however it is drained

`Spec.decode data` is the reference: textbook LZSS over the unbounded output history (most distances reach back into
an unbounded run of spaces), the 314-symbol adaptive Huffman tree, do-while on the bit cursor.  `St`, `getData`,
`getInternal` are `HuffLZ` as written: 4 KiB circular window doubling as output queue.
-/
namespace Op2.Props.C04
open Op2 Op2.Huff Op2.Lzh Op2.Lzh.Spec

/-! ## facts regenerated from the source on every run -/


theorem C04_gen_constants :
    (Gen.Constants.huff_symbolCount_scraped = true → Gen.Constants.huff_symbolCount = symbolCount) ∧
    (Gen.Constants.huff_matchBase_scraped = true → Gen.Constants.huff_matchBase = matchBase) ∧
    (Gen.Constants.huff_literalLimit_scraped = true → Gen.Constants.huff_literalLimit = 256) ∧
    (Gen.Constants.huff_fillByte_scraped = true → Gen.Constants.huff_fillByte = fillByte.toNat) ∧
    (Gen.Constants.huff_windowMask_scraped = true → Gen.Constants.huff_windowMask + 1 = N) ∧ Gen.Layout.huffLZ_bufferSize = N := by decide

/-- the tuning constant of `FillDecompressBuffer` leaves room for the longest code (60 bytes) in the 4096-byte window -/
theorem C04_gen_maxFill_safe : 0 < Gen.Constants.huff_maxFill ∧ Gen.Constants.huff_maxFill + (symbolCount - 1 - matchBase) < N := by
  decide

/-- `GetOffsetModifiers` as translated from the clang AST equals the model's table, for every 8-bit code (by kernel
    evaluation of all 256 codes: any spelling of the function inside the translator's fragment is accepted) -/
theorem C04_gen_offsetModifiers_table : Gen.Formulas.gen_GetOffsetModifiers_translated = true →
    (List.range 256).all (fun o => decide (Gen.Formulas.gen_GetOffsetModifiers (Int.ofNat o)
      = (Int.ofNat (offsetMods o).1, Int.ofNat (offsetMods o).2))) = true := by decide +kernel

theorem C04_gen_offsetModifiers : Gen.Formulas.gen_GetOffsetModifiers_translated = true → ∀ o : Nat, o < 256 →
    Gen.Formulas.gen_GetOffsetModifiers (Int.ofNat o) = (Int.ofNat (offsetMods o).1, Int.ofNat (offsetMods o).2) := by
  intro ht o h
  have := List.all_eq_true.mp (C04_gen_offsetModifiers_table ht) o (List.mem_range.mpr h)
  simpa using this

attribute [local irreducible] Spec.run TA.init

/-! ## the bit reader -/

/-- **`BitStreamReader` with its one-byte shift register is the pure bit stream** (MSB first, zero past the end, the
    cursor stops at the end for single bits and overshoots by at most 7 for `ReadNext8Bits`): every sequence of
    `ReadNextBit` / `ReadNext8Bits` calls returns the same values and cursors -/
theorem C04_bit_reader_refines (data : Array UInt8) (ops : List BitOp) :
    runC data { pos := 0, buf := 0 } ops = runA data 0 ops :=
  run_refines data ops _ (cinv_init data)

/-- the pure stream is what the property describes: bit `p` is bit `7 - p % 8` of byte `p / 8`, and 0 past the end -/
theorem C04_bit_stream (data : Array UInt8) (p : Nat) :
    bitAt data p = (byteAt data (p / 8) / 2 ^ (7 - p % 8)) % 2 ∧ (bitSize data ≤ p → bitAt data p = 0) := by
  refine ⟨bitAt_eq data p, ?_⟩
  intro h
  rw [bitAt_eq]
  have : data.size ≤ p / 8 := by unfold bitSize at h; omega
  have : byteAt data (p / 8) = 0 := by unfold byteAt; simp [Array.getD_eq_getD_getElem?, this]
  rw [this]; simp

/-! ## termination -/

/-- the reference decoder terminates on every byte string (its fuel, the bit length plus two, is never exhausted) -/
theorem C04_terminates (data : Array UInt8) : (Spec.decode data).2 ≠ .fuel := by
  show (Spec.run data (bitSize data + 2) (TA.init symbolCount) 0 []).2 ≠ .fuel
  exact run_terminates data _ _ _ _ treeOk_init (by omega)

/-! ## staying inside the decoder's own memory -/

/-- every decoded offset is a 12-bit number and every match is 3..60 bytes long: the copy source and destination are
    window indices `< 4096` -/
theorem C04_offsets_in_window (data : Array UInt8) (t t' : TA) (p p2 off len : Nat) (hT : t.T = symbolCount)
    (h : decodeSym data t p = .mat t' p2 off len) : off < N ∧ 3 ≤ len ∧ len ≤ 60 :=
  decodeSym_mat hT h

/-- every reachable decoder object keeps its 4096-byte buffer, its indices inside it, and a well-formed tree whose
    tables keep their sizes; every buffer store and tree store is therefore in bounds -/
theorem C04_window_safe (data : Array UInt8) :
    ∀ (st : St) (hist : List UInt8) (taken : Nat) (res : List UInt8 × Status), Inv data st hist taken res →
      st.buf.size = N ∧ st.w < N ∧ st.r < N ∧ st.unread < N :=
  fun st _ _ _ i => ⟨i.win.size, i.win.hw, i.hr, unread_lt st⟩

/-! ## the drain interfaces deliver the reference output -/

/-- **drain independence**: for every byte string and every finite sequence of `GetData(k)` / `GetInternalBuffer`
    calls, the bytes delivered (concatenated) are exactly the first so-many bytes of the reference output, and a call
    fails only if the reference decoder itself ends at the tree's capacity -/
theorem C04_refines (data : Array UInt8) (calls : List Call) :
    (drain (St.init data) calls).1.flatten = (Spec.decode data).1.take (drain (St.init data) calls).1.flatten.length ∧
    ((drain (St.init data) calls).2 = true → (Spec.decode data).2 = .capacity) := by
  have := drain_spec data _ calls (St.init data) [] 0 (inv_init data)
  rw [List.drop_zero] at this
  exact this

/-- `GetData(k)` on a fresh decoder returns the first `min k |output|` bytes of the reference output (so a caller that
    asks for more than there is gets everything, and a short count means the output has ended) -/
theorem C04_getData_first (data : Array UInt8) (k : Nat) (h : (Spec.decode data).2 = .done) :
    ∃ st', getData (St.init data) k = .ok ((Spec.decode data).1.take k, st') := by
  rcases getData_spec data _ (St.init data) k [] 0 (inv_init data) with ⟨_, hcap⟩ | ⟨st', _, a, _⟩
  · have : (Spec.decode data).2 = .capacity := hcap
    rw [h] at this; cases this
  · rw [List.drop_zero] at a
    exact ⟨st', a⟩

/-- two schedules that deliver the same number of bytes deliver the same bytes -/
theorem C04_schedule_independent (data : Array UInt8) (c1 c2 : List Call)
    (h : (drain (St.init data) c1).1.flatten.length = (drain (St.init data) c2).1.flatten.length) :
    (drain (St.init data) c1).1.flatten = (drain (St.init data) c2).1.flatten := by
  rw [(C04_refines data c1).1, (C04_refines data c2).1, h]

/-- within capacity no call fails -/
theorem C04_no_error_within_capacity (data : Array UInt8) (calls : List Call) (h : (Spec.decode data).2 = .done) :
    (drain (St.init data) calls).2 = false := by
  cases hd : (drain (St.init data) calls).2 with
  | false => rfl
  | true => have := (C04_refines data calls).2 hd; rw [h] at this; cases this

/-- `GetInternalBuffer` returning no bytes means the whole reference output has been delivered (this is the loop
    condition of `VolFile::ExtractFileLzh`) -/
theorem C04_internal_empty_means_done (data : Array UInt8) (st : St) (hist : List UInt8) (taken : Nat)
    (i : Inv data st hist taken (Spec.run data (bitSize data + 2) (TA.init symbolCount) 0 []))
    (st' : St) (h : getInternal st = .ok ([], st')) : taken = (Spec.decode data).1.length := by
  rcases getInternal_spec data _ st hist taken i with ⟨⟨e, he⟩, _⟩ | ⟨st2, hist2, bytes, a, _, _, d⟩
  · rw [he] at h; cases h
  · rw [a] at h
    simp only [Except.ok.injEq, Prod.mk.injEq] at h
    have := d h.1
    rw [this]
    show _ = ((Spec.run data (bitSize data + 2) (TA.init symbolCount) 0 []).1.reverse).length
    rw [List.length_reverse]

/-- **capacity**: when the input needs more symbol updates than the tree's counters can represent, the reference
    output stops at that code, and no drain schedule ever delivers a byte beyond it (`C04_refines` bounds every
    delivery by the reference output) -/
theorem C04_capacity (data : Array UInt8) (calls : List Call) :
    (drain (St.init data) calls).1.flatten.length ≤ (Spec.decode data).1.length := by
  have h := (C04_refines data calls).1
  have := congrArg List.length h
  rw [List.length_take] at this
  omega

/-- on every tree the decoder can reach, no tree query is ever refused: the walk stays on nodes, ends on a leaf and
    yields a symbol `< 314` — the only error a code can end in is the refusal of the update -/
theorem C04_no_query_error (data : Array UInt8) (t : TA) (k : TreeOk t) (p : Nat) : decodeSym data t p ≠ .badQuery :=
  decodeSym_not_badQuery k data p

/-- **the refusal happens exactly at the capacity limit**: a code is refused iff the root counter is full
    (65535 = 314 + 65221 updates, `C15_array_reachable`), and then nothing is appended -/
theorem C04_refused_iff_counter_full (data : Array UInt8) (t : TA) (k : TreeOk t) (p : Nat) (hist : List UInt8) :
    Spec.step data t p hist = .cap ↔ t.cnt.getD t.root 0 ≥ TF.maxCount :=
  step_cap_iff_full k data p hist

/-- if the reference decoder ends at capacity, it stopped in a state whose tree is well formed and full -/
theorem C04_capacity_point (data : Array UInt8) : ∀ fuel (t : TA) (p : Nat) (hist : List UInt8), TreeOk t →
    (Spec.run data fuel t p hist).2 = .capacity →
    ∃ t' p', TreeOk t' ∧ t'.cnt.getD t'.root 0 ≥ TF.maxCount ∧
      Spec.step data t' p' (Spec.run data fuel t p hist).1 = .cap := by
  intro fuel
  induction fuel with
  | zero => intro t p hist _ h; simp [Spec.run] at h
  | succ f ih =>
    intro t p hist k h
    simp only [Spec.run] at h ⊢
    cases hs : Spec.step data t p hist with
    | cap =>
      simp only [hs]
      exact ⟨t, p, k, (step_cap_iff_full k data p hist).mp hs, hs⟩
    | last hist' => simp [hs] at h
    | next t' p' hist' =>
      simp only [hs] at h ⊢
      obtain ⟨k', _, _, _⟩ := step_next k hs
      exact ih t' p' hist' k' h

/-! ## the encoder round trip -/

/-- the hypotheses of the round-trip law, spelled out: a literal is a byte, a match is 3..60 bytes from distance
    1..4096 -/
theorem C04_token_wf (tok : Token) :
    tok.WF ↔ (match tok with
      | .lit b => b < 256
      | .mat len dist => 3 ≤ len ∧ len ≤ 60 ∧ 1 ≤ dist ∧ dist ≤ 4096) := by
  cases tok <;> exact Iff.rfl

/-- the length bound of the round-trip law: the payload's codes plus seven (the most the padding bits can yield) are
    within the 65221 updates the 314-symbol tree accepts before its root counter is full -/
theorem C04_token_limit : tokenLimit = 65214 ∧ tokenLimit + 7 + symbolCount = TF.maxCount := by decide

/-- **encoder round trip**: every payload (a list of well-formed tokens, at most 65214 of them so that the tree never
    fills) compressed by the independent encoder `Spec.encode` is decoded by the reference decoder to completion
    (`.done`), the decoded string begins with the payload, and fewer than eight codes are decoded beyond the payload's:
    the decoder reads `Spec.codeCount` codes in all, fewer than `ts.length + 8` -/
theorem C04_encoder_prefix (ts : List Token) (hwf : ∀ tok ∈ ts, tok.WF) (hlen : ts.length + 7 ≤ 65221) :
    ∃ out, Spec.decode (Spec.encode ts).toArray = (out, .done) ∧
      (Spec.expand [] ts).reverse <+: out ∧
      Spec.codeCount (Spec.encode ts).toArray < ts.length + 8 := by
  obtain ⟨out, h1, h2, h3⟩ := decode_encode_prefix ts hwf (by have := C04_token_limit.1; omega)
  have := paddingBits_lt ts
  exact ⟨out, h1, h2, by omega⟩

/-- the further codes are those of the last byte's padding bits: beyond the payload's codes the decoder reads at most
    one code per zero bit the encoder added to fill the last byte (fewer than eight), and exactly one code in all when
    the payload is empty -/
theorem C04_encoder_padding_codes (ts : List Token) (hwf : ∀ tok ∈ ts, tok.WF) (hlen : ts.length + 7 ≤ 65221) :
    Spec.codeCount (Spec.encode ts).toArray ≤ max 1 (ts.length + paddingBits ts) ∧ paddingBits ts < 8 ∧
    paddingBits ts = bitSize (Spec.encode ts).toArray - (encodeBits (TA.init symbolCount) ts).length := by
  obtain ⟨_, _, _, h3⟩ := decode_encode_prefix ts hwf (by have := C04_token_limit.1; omega)
  exact ⟨h3, paddingBits_lt ts, rfl⟩

/-- so every drain schedule delivers the payload first: the bytes `GetData` returns for a request of the payload's
    length are the payload -/
theorem C04_encoder_getData (ts : List Token) (hwf : ∀ tok ∈ ts, tok.WF) (hlen : ts.length + 7 ≤ 65221) :
    ∃ st', getData (St.init (Spec.encode ts).toArray) (Spec.expand [] ts).length = .ok ((Spec.expand [] ts).reverse, st') := by
  obtain ⟨out, h1, h2, _⟩ := C04_encoder_prefix ts hwf hlen
  obtain ⟨st', h⟩ := C04_getData_first (Spec.encode ts).toArray (Spec.expand [] ts).length (by rw [h1])
  refine ⟨st', ?_⟩
  rw [h, h1]
  have := List.prefix_iff_eq_take.mp h2
  rw [List.length_reverse] at this
  rw [← this]

/-- non-vacuity: a concrete payload (two literals and an overlapping match) satisfies the hypotheses -/
example : (∀ tok ∈ [Token.lit 65, Token.lit 66, Token.mat 5 2], tok.WF) ∧
    [Token.lit 65, Token.lit 66, Token.mat 5 2].length + 7 ≤ 65221 := by
  refine ⟨?_, by decide⟩
  intro tok h
  simp only [List.mem_cons, List.mem_nil_iff, or_false] at h
  rcases h with rfl | rfl | rfl
  · show 65 < 256; omega
  · show 66 < 256; omega
  · show 3 ≤ 5 ∧ 5 ≤ 60 ∧ 1 ≤ 2 ∧ 2 ≤ 4096; omega

/-- non-vacuity: the initial object satisfies the invariant all of the above rest on -/
example (data : Array UInt8) : Inv data (St.init data) [] 0 (Spec.run data (bitSize data + 2) (TA.init symbolCount) 0 []) :=
  inv_init data

end Op2.Props.C04
