import Op2Model.Lzh
/-! # C04 — placeholder while the proofs are being written (replaced below in the same session) -/
