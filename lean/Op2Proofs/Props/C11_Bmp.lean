import Op2Proofs.Props.C08
import Op2Proofs.Tileset.Use
/-!
# C11 (part bmp) — the bitmap and tileset loaders are safe on arbitrary bytes; what they return is safe to use

Memory errors and undefined arithmetic are explicit values of the model (`Out.fault`): `std::abs(INT32_MIN)`,
`height *= -1` on `INT32_MIN`, a row pointer / iterator range outside the pixel vector, an over-wide shift.  The theorems
say that no byte string reaches one, neither while loading nor in any public operation on a returned object.
Termination is by construction: every model function is total and the row loops run `|height|` times.
-/
namespace Op2.Props.C11
open Op2 Op2.Bmp Op2.Tileset Op2.Parser Op2.Props.C08

/-- some public operation on the object ran into an undefined operation (`SwapRedAndBlue`, `GetScanLineOrientation`
    are total functions of the model and cannot) -/
def anyFault (f : Bmp) : Bool :=
  (validate f).isFault || (verifyPalette f).isFault ||
  (verifyPixelSize f.ih.bitCount f.ih.width f.ih.height f.pixels.length).isFault ||
  (write f).isFault || (writeFile f).isFault || (absoluteHeight f).isFault || (invert f).isFault ||
  (validateTs f).isFault || (writeCustom f).isFault

theorem loaded_no_fault {f : Bmp} (L : Loaded f) : anyFault f = false := by
  unfold anyFault
  rw [L.validate_ok, L.verifyPalette_ok, L.verifyPixelSize_ok, L.write_ok, L.absoluteHeight_ok, L.invert_ok]
  have h1 : (writeFile f).isFault = false := by rcases L.writeFile_ok with e | e <;> rw [e] <;> rfl
  have h2 : (validateTs f).isFault = false := by rcases validateTs_cases f with e | e <;> rw [e] <;> rfl
  have h3 : (writeCustom f).isFault = false := by
    cases h : writeCustom f with
    | fault g => exact (writeCustom_no_fault L g h).elim
    | ok _ => rfl
    | err _ => rfl
  rw [h1, h2, h3]; rfl

/-! ## loading -/

/-- `ReadIndexed` on arbitrary bytes: an object or an ordinary error, never an undefined operation -/
theorem C11_no_fault_load_bmp (b : Bytes) : (Bmp.read b).isFault = false := by
  unfold Bmp.read runOut
  split
  · rename_i o rest hp
    cases o with
    | fault g => exact (bmp_no_fault hp).elim
    | ok _ => rfl
    | err _ => rfl
  · rfl

/-- `ReadTileset` (both formats) on arbitrary bytes likewise -/
theorem C11_no_fault_load_tileset (b : Bytes) (hb : b.length < W64) : (Tileset.read b).isFault = false := by
  rw [read_eq b hb]
  split
  · split
    · unfold readCustom runOut
      split
      · rename_i o rest hp
        cases o with
        | fault g => exact (custom_no_fault hp).elim
        | ok _ => rfl
        | err _ => rfl
      · rfl
    · have := C11_no_fault_load_bmp b
      cases h : Bmp.read b with
      | fault g => rw [h] at this; cases this
      | err e => rfl
      | ok f => simp only; rcases validateTs_cases f with e | e <;> rw [e] <;> rfl
  · rfl

/-! ## using what was loaded -/

/-- every public operation on a bitmap `ReadIndexed` returned is free of undefined operations -/
theorem C11_no_fault_use_bmp (b : Bytes) (f : Bmp) (h : Bmp.read b = .ok f) : anyFault f = false :=
  loaded_no_fault (read_loaded h)

theorem tileset_loaded {b : Bytes} {f : Bmp} (hb : b.length < W64) (h : Tileset.read b = .ok f) : Loaded f := by
  rw [read_eq b hb] at h
  split at h
  · split at h
    · unfold readCustom runOut at h
      split at h
      · rename_i o rest hp; subst h; exact (custom_ok hp).1
      · cases h
    · cases hr : Bmp.read b with
      | fault g => rw [hr] at h; cases h
      | err e => rw [hr] at h; cases h
      | ok f' =>
        rw [hr] at h
        simp only at h
        rcases validateTs_cases f' with e | e <;> rw [e] at h
        · injection h with h; subst h; exact read_loaded hr
        · cases h
  · cases h

/-- … and on a bitmap `ReadTileset` returned from either format -/
theorem C11_no_fault_use_tileset (b : Bytes) (f : Bmp) (hb : b.length < W64) (h : Tileset.read b = .ok f) : anyFault f = false :=
  loaded_no_fault (tileset_loaded hb h)

/-- the mutating operations return objects with the same guarantees, so every *sequence* of public operations on a loaded
    object is free of undefined operations as well -/
theorem C11_use_closed (f : Bmp) (L : Loaded f) :
    (∃ g, invert f = .ok g ∧ Loaded g) ∧ Loaded (swapRedAndBlue f) ∧ anyFault f = false :=
  ⟨⟨_, L.invert_ok, L.invert_loaded⟩, L.swap_loaded, loaded_no_fault L⟩

/-! ## prefixes -/

/-- an accepted bitmap file: every proper prefix that cuts into the bytes the reader consumed (headers, palette, pixel
    section) is refused with an ordinary error.  For a file without trailing bytes that is every proper prefix. -/
theorem C11_prefix_strict_bmp (b : Bytes) (f : Bmp) (h : Bmp.read b = .ok f) :
    54 + 4 * f.palette.length + f.pixels.length ≤ b.length ∧
    ∀ k, k < 54 + 4 * f.palette.length + f.pixels.length → ∃ e, Bmp.read (b.take k) = .err e := by
  obtain ⟨rest, hp⟩ := read_ok h
  obtain ⟨_, _, hlen⟩ := bmp_ok hp
  refine ⟨by omega, ?_⟩
  intro k hk
  have hkl : k ≤ b.length := by omega
  have hp' := bmp_len_mono hkl hp
  obtain ⟨e, he⟩ := (local_bmp k).prefix_refused hp' k (by omega)
  refine ⟨e, ?_⟩
  unfold Bmp.read runOut
  have : (b.take k).length = k := by rw [List.length_take]; omega
  rw [this, he]

/-- number of bytes `ReadTileset` consumed for an accepted file -/
def tilesetConsumed (b : Bytes) (f : Bmp) : Nat :=
  if b.take 4 = tagPBMP then 1096 + f.pixels.length else 54 + 4 * f.palette.length + f.pixels.length

/-- the same for the format-detecting loader, whichever format the file is in -/
theorem C11_prefix_strict_tileset (b : Bytes) (f : Bmp) (hb : b.length < W64) (h : Tileset.read b = .ok f) :
    tilesetConsumed b f ≤ b.length ∧ ∀ k, k < tilesetConsumed b f → ∃ e, Tileset.read (b.take k) = .err e := by
  have hfull := h
  rw [read_eq b hb] at h
  unfold tilesetConsumed
  have hlt : ∀ k, (b.take k).length < W64 := by intro k; rw [List.length_take]; omega
  split at h
  · rename_i h4
    split at h
    · rename_i htag
      rw [if_pos htag]
      unfold readCustom runOut at h
      split at h
      · rename_i o rest hp
        subst h
        have hc := (custom_ok hp).2.2.2.2.2.2.1
        refine ⟨by omega, ?_⟩
        intro k hk
        rw [read_eq _ (hlt k)]
        by_cases hk4 : 4 ≤ (b.take k).length
        · rw [if_pos hk4]
          have hk4' : 4 ≤ k := by rw [List.length_take] at hk4; omega
          have : (b.take k).take 4 = b.take 4 := by rw [List.take_take, Nat.min_eq_left hk4']
          rw [this, if_pos htag]
          obtain ⟨e, he⟩ := local_custom.prefix_refused hp k (by omega)
          exact ⟨e, by unfold readCustom runOut; rw [he]⟩
        · rw [if_neg hk4]; exact ⟨_, rfl⟩
      · cases h
    · rename_i htag
      rw [if_neg htag]
      cases hr : Bmp.read b with
      | fault g => rw [hr] at h; cases h
      | err e => rw [hr] at h; cases h
      | ok f' =>
        rw [hr] at h
        simp only at h
        rcases validateTs_cases f' with ev | ev <;> rw [ev] at h
        · injection h with h; subst h
          obtain ⟨hle, hpre⟩ := C11_prefix_strict_bmp b f' hr
          refine ⟨hle, ?_⟩
          intro k hk
          rw [read_eq _ (hlt k)]
          by_cases hk4 : 4 ≤ (b.take k).length
          · rw [if_pos hk4]
            have hk4' : 4 ≤ k := by rw [List.length_take] at hk4; omega
            have : (b.take k).take 4 = b.take 4 := by rw [List.take_take, Nat.min_eq_left hk4']
            rw [this, if_neg htag]
            obtain ⟨e, he⟩ := hpre k hk
            exact ⟨e, by rw [he]⟩
          · rw [if_neg hk4]; exact ⟨_, rfl⟩
        · cases h
  · cases h

/-! ## non-vacuity -/

/-- a 1-bit 1×1 bitmap file (66 bytes, nothing trailing): accepted, so the theorems above speak about it -/
def sample : Bytes :=
  [0x42, 0x4D, 0x42, 0, 0, 0, 0, 0, 0, 0, 0x3E, 0, 0, 0,
   0x28, 0, 0, 0, 1, 0, 0, 0, 1, 0, 0, 0, 1, 0, 1, 0, 0, 0, 0, 0, 0, 0, 0, 0, 0, 0, 0, 0, 0, 0, 0, 0, 0, 0, 0, 0, 0, 0, 0, 0,
   0, 0, 0, 0, 0xFF, 0xFF, 0xFF, 0,
   0x80, 0, 0, 0]

example : (Bmp.read sample).isOk = true := by decide
example : ∃ f, Bmp.read sample = .ok f ∧ 54 + 4 * f.palette.length + f.pixels.length = sample.length := ⟨_, rfl, by decide⟩
/-- the hostile header of D16 (height −2^31, width 0) is refused by the model of the repaired reader -/
example : (Bmp.read ([0x42, 0x4D, 0x3E, 0, 0, 0, 0, 0, 0, 0, 0x3E, 0, 0, 0,
   0x28, 0, 0, 0, 0, 0, 0, 0, 0, 0, 0, 0x80, 1, 0, 1, 0, 0, 0, 0, 0, 0, 0, 0, 0, 0, 0, 0, 0, 0, 0, 0, 0, 0, 0, 0, 0, 0, 0, 0, 0,
   0, 0, 0, 0, 0xFF, 0xFF, 0xFF, 0])).isOk = false := by decide

end Op2.Props.C11
