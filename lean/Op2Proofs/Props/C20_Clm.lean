import Op2Proofs.Clm.Sets
import Op2Proofs.Props.C03
import Op2Model.Gen.Constants
/-!
# C20, part clm — CLM creation refuses what does not fit its on-disk fields

* a member whose data offset + length is beyond 32 bits ⇒ error (both directions at the level of `PrepareIndex`);
* a name longer than 8 characters ⇒ error;
* what is written never carries a truncated or wrapped value: in every archive `create` returns, the 32-bit offset and
  length fields *are* the true running sums (`C03_layout`), and the whole file is at most 2^32 − 1 bytes long.
-/
namespace Op2.Props.C20_Clm
open Op2 Op2.Clm Op2.Wave

/-- `PrepareIndex` refuses exactly when the end of some member (equivalently: of the last one) does not fit 32 bits -/
theorem C20_clm_prepareIndex_exact (start : Nat) (items : List (Bytes × Nat)) :
    prepareIndex start items = none ↔ items ≠ [] ∧ start + (items.map (·.2)).sum > offsetLimit :=
  prepareIndex_none_iff items start

/-- **offset + length beyond 32 bits ⇒ error.**  Whatever the files are: if all of them pass intake and the index plus the
    announced audio lengths end beyond 2^32 − 1, creation fails with an error (no archive, no hang). -/
theorem C20_clm_offset_overflow_refused (files : List (Bytes × Content)) (infos : List Info)
    (hlen : ∀ f ∈ files, f.2.len < 2 ^ 63)
    (hint : intakeAll ((sorted files).map (·.2)) = .ok infos) (hne : files ≠ [])
    (hbig : headerSize + files.length * entrySize + (infos.map (·.dataLen)).sum > offsetLimit) :
    create files = .err := by
  apply create_err_of_not_ok files hlen
  intro a ha
  obtain ⟨infos', idx, hc⟩ := (create_ok_iff files a).mp ha
  have sh := hc.shape
  have : infos' = infos := by
    have := hc.1; rw [hint] at this; injection this with this; exact this.symm
  subst this
  have := sh.fits hne
  omega

/-- converse (non-vacuity of the limit): at or below the limit `PrepareIndex` succeeds — nothing that fits is refused -/
theorem C20_clm_fits_accepted (start : Nat) (items : List (Bytes × Nat))
    (h : start + (items.map (·.2)).sum ≤ offsetLimit) : ∃ idx, prepareIndex start items = some idx := by
  cases hp : prepareIndex start items with
  | some idx => exact ⟨idx, rfl⟩
  | none => have := ((prepareIndex_none_iff items start).mp hp).2; omega

/-- the boundary itself: one member ending exactly at 2^32 − 1 is accepted, one byte more is refused -/
example : (prepareIndex 76 [([97], 4294967295 - 76)]).isSome = true ∧ prepareIndex 76 [([97], 4294967296 - 76)] = none := by
  constructor
  · obtain ⟨idx, h⟩ := C20_clm_fits_accepted 76 [([97], 4294967295 - 76)] (by decide)
    rw [h]; rfl
  · exact (prepareIndex_none_iff _ _).mpr ⟨by simp, by decide⟩

/-- **no truncated or wrapped value is ever written**: every archive `create` returns is at most 2^32 − 1 bytes long, and
    its stored offsets are the true running sums of the stored lengths, starting right after the index -/
theorem C20_clm_no_wrapped_fields (files : List (Bytes × Content)) (a : Archive) (h : create files = .ok a) :
    a.toBytes.length ≤ offsetLimit ∧
    Spec.offs a.toBytes = Spec.offsetsFrom (60 + 16 * Spec.count a.toBytes) (Spec.lens a.toBytes) ∧
    60 + 16 * Spec.count a.toBytes + (Spec.lens a.toBytes).sum = a.toBytes.length := by
  have wf := C03.C03_layout files a h
  refine ⟨?_, wf.2.2.2.2.1, wf.2.2.2.2.2⟩
  obtain ⟨infos, idx, hc⟩ := (create_ok_iff files a).mp h
  have sh := hc.shape
  rw [sh.bytes]
  simp only [List.length_append, version_length, unknown_length, Parser.encU32_length, sh.fmt_len, sh.idx_len,
    flatMap_toBytes_length, sh.datas_lens]
  by_cases he : files = []
  · subst he
    have : infos = [] := List.eq_nil_of_length_eq_zero (by simpa using sh.infos_len)
    subst this
    decide
  · have := sh.fits he
    unfold headerSize entrySize at this
    omega

/-- **a name longer than 8 characters ⇒ error**, wherever it stands in the set and whatever the other files are -/
theorem C20_clm_long_name_refused (files : List (Bytes × Content)) (hlen : ∀ f ∈ files, f.2.len < 2 ^ 63)
    (h : ∃ f ∈ files, (nameOf f.1).length > nameMax) : create files = .err :=
  (C03.C03_refusals files hlen).2.2.1 h

/-- converse: names of exactly 8 characters are packed (and read back in full) -/
example : C03.bytesOf? (create [([97, 98, 99, 100, 101, 102, 103, 104, 46, 119], ⟨C03.exWav.enc, 0⟩)]) =
    some (Spec.encode (C03.exFmt ++ [0, 0]) [([97, 98, 99, 100, 101, 102, 103, 104], [66, 66, 66, 66])]) := by decide
example : C03.bytesOf? (create [([97, 98, 99, 100, 101, 102, 103, 104, 105, 46, 119], ⟨C03.exWav.enc, 0⟩)]) = none := by decide

/-- a sparse 4 GiB track is a number in the model: a one-track set whose data would end at 2^32 is refused, one byte
    less is packed (evaluated, not proved by cases: the decision depends on lengths only) -/
def sparseWav (L : Nat) : Content :=
  ⟨tagRIFF ++ encU32 (36 + L) ++ tagWAVE ++ tagFmt ++ encU32 16 ++ C03.exFmt ++ tagData ++ encU32 L, L⟩
example : C03.bytesOf? (create [([97, 46, 119], sparseWav (4294967296 - 76))]) = none := by decide

/-! ## bridging lemmas -/

theorem C20_gen_clm_offset_limit : Gen.Constants.clm_offsetLimit_scraped = true → Gen.Constants.clm_offsetLimit = Clm.offsetLimit := by decide
theorem C20_gen_clm_name_max : Gen.Constants.clm_nameMax_scraped = true → Gen.Constants.clm_nameMax = Clm.nameMax := by decide

end Op2.Props.C20_Clm
