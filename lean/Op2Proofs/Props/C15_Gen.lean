import Op2Proofs.GenBits
import Op2Model.HuffArr
/-!
# C15 — bridging lemmas: the accessors and the constructor's size arithmetic of `AdaptiveHuffmanTree`, as translated from the current
C++ on this run (`Op2Model/Gen/Bits.lean`), are the bounds-checked queries `TA.child / isLeaf / nodeData` and the table sizes of
`TA.init` (`Op2Model/HuffArr.lean`).  `NodeType` is `unsigned short`: the lemmas hold for trees whose node count and link values fit
16 bits (`C15`: all indices are `< 3T - 1 ≤ 941`).  Vacuous when a function left the translator's fragment.
-/
set_option linter.unusedSimpArgs false
set_option linter.unusedVariables false
namespace Op2.Props.C15
open Op2 Op2.Huff Op2.GenBridge Op2.GenBits
open Op2.Gen.Bits

/-- `linkOrData` as the generated definitions see it -/
def linkOf (a : TA) : Int → Int := fun i => (a.link.getD i.toNat 0 : Int)

theorem C15_gen_verify_index : AdaptiveHuffmanTree_VerifyNodeIndexInBounds_translated = true →
    ∀ (a : TA) (node : Nat), a.n < 65536 → node < 65536 →
      AdaptiveHuffmanTree_VerifyNodeIndexInBounds a.n node = (if node ≥ a.n then none else some ()) := by
  gen_bridge =>
    intro a node hn hnode
    simp only [AdaptiveHuffmanTree_VerifyNodeIndexInBounds]
    bits_norm
    bits_close

/-- the first guard of `UpdateCodeCount` (`TA.updateChecked`: `code ≥ T` is refused) -/
theorem C15_gen_verify_data : AdaptiveHuffmanTree_VerifyNodeDataInBounds_translated = true →
    ∀ (a : TA) (code : Nat), a.T < 65536 → code < 65536 →
      AdaptiveHuffmanTree_VerifyNodeDataInBounds a.T code = (if code ≥ a.T then none else some ()) := by
  gen_bridge =>
    intro a code hn hc
    simp only [AdaptiveHuffmanTree_VerifyNodeDataInBounds]
    bits_norm
    bits_close

theorem C15_gen_child : (AdaptiveHuffmanTree_GetChildNode_translated && AdaptiveHuffmanTree_VerifyNodeIndexInBounds_translated) = true →
    ∀ (a : TA) (node bit : Nat), a.n < 65536 → node < 65536 → bit ≤ 1 → a.link.getD node 0 + bit < 65536 →
      AdaptiveHuffmanTree_GetChildNode a.n (linkOf a) node bit = okOr (fun c : Nat => (c : Int)) (a.child node bit) := by
  gen_bridge =>
    intro a node bit hn hnode hbit hl
    have hidx : ((node : Int) % 18446744073709551616).toNat = node := by omega
    simp only [AdaptiveHuffmanTree_GetChildNode, AdaptiveHuffmanTree_VerifyNodeIndexInBounds, TA.child, linkOf, hidx]
    generalize a.link.getD node 0 = L at *
    bits_norm
    bits_close

theorem C15_gen_isLeaf : (AdaptiveHuffmanTree_IsLeaf_translated && AdaptiveHuffmanTree_VerifyNodeIndexInBounds_translated) = true →
    ∀ (a : TA) (node : Nat), a.n < 65536 → node < 65536 → a.link.getD node 0 < 65536 →
      AdaptiveHuffmanTree_IsLeaf a.n (linkOf a) node =
        okOr (fun b : Bool => if b then (1 : Int) else 0) (a.isLeaf node) := by
  gen_bridge =>
    intro a node hn hnode hl
    have hidx : ((node : Int) % 18446744073709551616).toNat = node := by omega
    simp only [AdaptiveHuffmanTree_IsLeaf, AdaptiveHuffmanTree_VerifyNodeIndexInBounds, TA.isLeaf, linkOf, hidx]
    generalize a.link.getD node 0 = L at *
    bits_norm
    (repeat' split) <;>
      simp only [okOr_ok, okOr_error, bind_none', bind_some', Option.bind_none, Option.bind_some, reduceCtorEq, Option.some.injEq,
        decide_eq_true_eq, ge_iff_le] at * <;>
      (repeat' split) <;> first | omega | trivial | rfl

/-- `GetNodeData` on a leaf (`linkOrData[node] ≥ nodeCount`, which `GetNextCode` has established through `IsLeaf`) -/
theorem C15_gen_nodeData : (AdaptiveHuffmanTree_GetNodeData_translated && AdaptiveHuffmanTree_VerifyNodeIndexInBounds_translated) = true →
    ∀ (a : TA) (node : Nat), a.n < 65536 → node < 65536 → a.link.getD node 0 < 65536 → a.n ≤ a.link.getD node 0 →
      AdaptiveHuffmanTree_GetNodeData a.n (linkOf a) node = okOr (fun c : Nat => (c : Int)) (a.nodeData node) := by
  gen_bridge =>
    intro a node hn hnode hl hleaf
    have hidx : ((node : Int) % 18446744073709551616).toNat = node := by omega
    simp only [AdaptiveHuffmanTree_GetNodeData, AdaptiveHuffmanTree_VerifyNodeIndexInBounds, TA.nodeData, linkOf, hidx]
    generalize a.link.getD node 0 = L at *
    bits_norm
    bits_close

/-- the constructor's arithmetic: `nodeCount = 2T - 1`, `rootNodeIndex = 2T - 2`, tables of `2T - 1`, `2T - 1`, `3T - 1` entries —
    the `n`, `root` and table sizes (`TA.Sized`) of the model's initial tree; `GetRootNodeIndex` returns the stored root -/
theorem C15_gen_create : (AdaptiveHuffmanTree_Create_translated && AdaptiveHuffmanTree_GetRootNodeIndex_translated) = true →
    ∀ (T : Nat), 1 ≤ T → 3 * T - 1 < 65536 →
      AdaptiveHuffmanTree_Create T =
        some ((T : Int), ((TA.init T).n : Int), ((TA.init T).root : Int), ((TA.init T).link.size : Int),
              ((TA.init T).cnt.size : Int), ((TA.init T).par.size : Int)) ∧
      AdaptiveHuffmanTree_GetRootNodeIndex (TA.init T).root = some ((TA.init T).root : Int) ∧ (TA.init T).Sized := by
  gen_bridge =>
    intro T h1 h2
    have hn : (TA.init T).n = 2 * T - 1 := rfl
    have hr : (TA.init T).root = 2 * T - 1 - 1 := rfl
    have hT : (TA.init T).T = T := rfl
    have s1 : (TA.init T).link.size = 2 * T - 1 := by simp [TA.init, TA.ofTF, TF.n, TF.init]
    have s2 : (TA.init T).cnt.size = 2 * T - 1 := by simp [TA.init, TA.ofTF, TF.n, TF.init]
    have s3 : (TA.init T).par.size = 2 * T - 1 + T := by simp [TA.init, TA.ofTF, TF.n, TF.init]
    refine ⟨?_, rfl, ?_⟩
    · rw [hn, hr, s1, s2, s3]
      simp only [AdaptiveHuffmanTree_Create]
      bits_norm
      bits_close
    · exact ⟨by rw [s1, hn], by rw [s2, hn], by rw [s3, hn, hT]⟩

end Op2.Props.C15
