import Op2Model.Gen.Layout
import Op2Proofs.Vol.Refuse
/-!
# C20 (VOL part) — `CreateArchive` refuses quantities that do not fit their on-disk fields, before the destination exists

`createFs out files fs` is the effect of `VolFile::CreateArchive(out, files)` on the file system `fs`: the pair of the
resulting file system and the outcome.  `(fs, .error .refused)` says: an error, and nothing was created or altered.
File contents are `Content.bytes b | Content.zeros n`, so a 4 GiB member is a number.
-/
namespace Op2.Vol
open Op2 Op2.Str

/-! ## facts regenerated from the source -/
theorem C20_gen_lenField : Gen.Layout.mask_VolSectionHeader_length = int32Max := by decide
theorem C20_gen_sizeField : Gen.Layout.off_VolIndexEntry_compressionType - Gen.Layout.off_VolIndexEntry_fileSize = 4 := by decide

/-- **a member that does not fit the 31-bit block length / `int32_t` size field is refused, and nothing is written** —
    whatever else is in the file list, in whatever order -/
theorem C20_vol_member_too_large (out : Bytes) (files : List InFile) (fs : Fs)
    (h : ∃ f ∈ files, f.content.len ≥ 2147483648) : createFs out files fs = (fs, .error .refused) := by
  apply createFs_refused
  apply create_refused_of_not_ok
  intro b hb
  obtain ⟨_, hsmall, _, _⟩ := create_ok_basic out files b hb
  obtain ⟨f, hf, hlen⟩ := h
  have := hsmall f ((sortCI_perm nameOf files).mem_iff.mpr hf)
  simp only [int32Max] at this; omega

/-- **an accumulated block offset beyond 32 bits is refused, and nothing is written**: `blockOffset l k` is where the k-th
    block of the archive would start (header plus the padded blocks before it, in ℕ), `l` the inputs in archive order -/
theorem C20_vol_offset_overflow (out : Bytes) (files : List InFile) (fs : Fs)
    (hH : Spec.headerLen (descOf (sortCI nameOf files)) < 2147483648)
    (h : ∃ k, k < files.length ∧ blockOffset (sortCI nameOf files) k > 4294967295) :
    createFs out files fs = (fs, .error .refused) := by
  apply createFs_refused
  apply create_refused_of_not_ok
  intro b hb
  obtain ⟨g, _⟩ := create_ok out files b hb hH
  obtain ⟨k, hk, hoff⟩ := h
  have hl : (sortCI nameOf files).length = files.length := (sortCI_perm nameOf files).length_eq
  have := (offsFit_iff _ _ _).mp g.fit k (by omega)
  simp only [blockOffset, uint32Max] at *; omega

/-- **converse (non-vacuity of the refusals): just below every limit the archive is written**, and it is the reference
    encoding of the sorted inputs -/
theorem C20_vol_fits_succeeds (out : Bytes) (files : List InFile) (fs : Fs) (h : Fits out files) :
    createFs out files fs = (fs.write out (Spec.refEncode (descOf (sortCI nameOf files))), .ok ()) := by
  unfold createFs
  rw [create_of_good out files h.good]

/-- the two refusals are exactly what separates `Fits` from failure on the size side: if everything else is in order,
    creation succeeds **iff** every member is below 2^31 bytes and every block offset is below 2^32 -/
theorem C20_vol_refusal_exact (out : Bytes) (files : List InFile) (fs : Fs)
    (hn : NoDupCI nameOf files) (hH : Spec.headerLen (descOf (sortCI nameOf files)) < 2147483648)
    (hs : ∀ f ∈ files, Path.pathsAreEqual out f.path = false) (ho : out ≠ []) :
    (createFs out files fs).2 = .ok () ↔
      (∀ f ∈ files, f.content.len < 2147483648) ∧ ∀ k, k < files.length → blockOffset (sortCI nameOf files) k ≤ 4294967295 := by
  constructor
  · intro hok
    by_cases h1 : ∃ f ∈ files, f.content.len ≥ 2147483648
    · rw [C20_vol_member_too_large out files fs h1] at hok; simp at hok
    · by_cases h2 : ∃ k, k < files.length ∧ blockOffset (sortCI nameOf files) k > 4294967295
      · rw [C20_vol_offset_overflow out files fs hH h2] at hok; simp at hok
      · refine ⟨fun f hf => ?_, fun k hk => ?_⟩
        · apply Classical.byContradiction; intro hc; exact h1 ⟨f, hf, by omega⟩
        · apply Classical.byContradiction; intro hc; exact h2 ⟨k, hk, by omega⟩
  · rintro ⟨h1, h2⟩
    rw [C20_vol_fits_succeeds out files fs ⟨hn, h1, hH, h2, hs, ho⟩]

/-! ## non-vacuity -/

/-- a 2 GiB sparse member next to a small one: refused, file system untouched -/
example : createFs [111] [⟨[97], .bytes [1, 2, 3]⟩, ⟨[98], .zeros 2147483648⟩] [([111], [9])] = ([([111], [9])], .error .refused) :=
  C20_vol_member_too_large _ _ _ ⟨⟨[98], .zeros 2147483648⟩, by simp, by simp [Content.len]⟩

/-- the largest member that fits is accepted by `plan` (decided on lengths only) -/
example : ∃ p, plan [111] [⟨[97], .zeros 2147483647⟩] = .ok p ∧ planLength p = 2147483712 := by
  refine ⟨_, rfl, ?_⟩
  decide

end Op2.Vol
