import Op2Model.Vol
import Op2Model.Gen.Layout
/-! # C20 (VOL part) — CreateArchive refuses quantities that do not fit their fields (theorems; work in progress) -/
namespace Op2.Vol
open Op2

theorem C20_gen_lenField : Gen.Layout.mask_VolSectionHeader_length = int32Max := by decide

end Op2.Vol
