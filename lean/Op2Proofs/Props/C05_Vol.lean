import Op2Model.Vol
import Op2Model.Gen.Layout
import Op2Proofs.Vol.Safety
/-!
# C05 (VOL part) — the VOL reader is safe on arbitrary bytes

* opening arbitrary bytes never faults (`C05_open_no_fault`); what is opened satisfies `View.Inv` (`open_inv`);
* no call on an opened archive, after any history of calls, faults (`C05_calls_no_fault`, `C05_no_fault`);
* the answer of a call depends on the parsed archive only, never on the shared reader's position, and a call —
  failed or not — leaves every later answer unchanged (`C05_history_independent`, `C05_failed_call_is_noop`);
* a delivered stream is exactly the stored extent, an extent that leaves the file is refused
  (`C05_stream_exact`, `C05_stream_never_short`);
* the pinned code does fault, on concrete witnesses (D6, D7), where the repaired code opens resp. refuses.

The proofs are in `Op2Proofs.Vol.Safety`.
-/
namespace Op2.Vol
open Op2

theorem C05_gen_entrySize : Gen.Layout.size_VolIndexEntry = entrySize := by decide
theorem C05_gen_secSize : Gen.Layout.size_VolSectionHeader = secSize := by decide

/-! ## witnesses -/

/-- one member `a.txt` = "hello"; the `voli` length field says 15 (one entry and one byte) -/
def witnessD6 : Bytes :=
  [86, 79, 76, 32, 52, 0, 0, 128,          -- "VOL " 0x34
   118, 111, 108, 104, 0, 0, 0, 128,       -- "volh" 0
   118, 111, 108, 115, 12, 0, 0, 128,      -- "vols" 12
   6, 0, 0, 0,                             -- actual name-table length
   97, 46, 116, 120, 116, 0,               -- "a.txt\0"
   0, 0,
   118, 111, 108, 105, 15, 0, 0, 128,      -- "voli" 15
   0, 0, 0, 0,  60, 0, 0, 0,  5, 0, 0, 0,  0, 1,
   0, 0,
   86, 66, 76, 75, 5, 0, 0, 128,           -- "VBLK" 5
   104, 101, 108, 108, 111,                -- "hello"
   0, 0, 0]

/-- two valid entries, but the actual name-table length 6 covers only the first name -/
def witnessD7 : Bytes :=
  [86, 79, 76, 32, 68, 0, 0, 128,          -- "VOL " 0x44
   118, 111, 108, 104, 0, 0, 0, 128,       -- "volh" 0
   118, 111, 108, 115, 16, 0, 0, 128,      -- "vols" 16
   6, 0, 0, 0,                             -- actual name-table length: the first name only
   97, 46, 116, 120, 116, 0,               -- "a.txt\0"
   66, 46, 98, 105, 110, 0,                -- "B.bin\0"
   118, 111, 108, 105, 28, 0, 0, 128,      -- "voli" 28
   0, 0, 0, 0,  76, 0, 0, 0,  5, 0, 0, 0,  0, 1,
   6, 0, 0, 0,  92, 0, 0, 0,  7, 0, 0, 0,  0, 1,
   86, 66, 76, 75, 5, 0, 0, 128,           -- "VBLK" 5
   104, 101, 108, 108, 111,                -- "hello"
   0, 0, 0,
   86, 66, 76, 75, 7, 0, 0, 128,           -- "VBLK" 7
   49, 50, 51, 52, 53, 54, 55,             -- "1234567"
   0]

/-- `witnessD6` cut off two bytes into the payload of its only block -/
def witnessShort : Bytes := witnessD6.take 70

/-- what the repaired code makes of `witnessD6` -/
def viewD6 : View :=
  { file := witnessD6, names := [[97, 46, 116, 120, 116]],
    entries := [{ nameOff := 0, dataOff := 60, size := 5, comp := 256 }], count := 1 }

theorem open_witnessD6 : Vol.open witnessD6 = .ok viewD6 := by rfl

/-- what any version makes of the header of `witnessShort` -/
def viewShort : View := { viewD6 with file := witnessShort }

theorem open_witnessShort : Vol.open witnessShort = .ok viewShort := by rfl

/-- what the pinned code makes of `witnessD7` -/
def viewD7 : View :=
  { file := witnessD7, names := [[97, 46, 116, 120, 116]],
    entries := [{ nameOff := 0, dataOff := 76, size := 5, comp := 256 },
                { nameOff := 6, dataOff := 92, size := 7, comp := 256 }], count := 2 }

theorem pinned_open_witnessD7 : openWith Cfg.pinned witnessD7 = .ok viewD7 := by rfl

/-! ## A. the invariant -/

theorem C05_open_inv (b : Bytes) (v : View) (h : Vol.open b = .ok v) : v.Inv ∧ v.file = b := open_inv b v h

example : ∃ v, Vol.open witnessD6 = .ok v ∧ v.Inv ∧ v.count = 1 :=
  ⟨viewD6, open_witnessD6, (open_inv _ _ open_witnessD6).1, rfl⟩

/-! ## B. opening arbitrary bytes never faults -/

theorem C05_open_no_fault (b : Bytes) (f : Fault) : Vol.open b ≠ .error (.fault f) := open_noFault b f

/-- both other outcomes occur: an ordinary error, and success -/
example : Vol.open [] = .error (.err .format) ∧ Vol.open (witnessD6.take 59) = .error (.err .format)
    ∧ ∃ v, Vol.open witnessD6 = .ok v :=
  ⟨by rfl, by rfl, viewD6, open_witnessD6⟩

/-! ## C. calls on an opened archive never fault -/

theorem C05_calls_no_fault (v : View) (hv : v.Inv) (r : Nat) (op : Op) (f : Fault) :
    (Obj.step { view := v, rpos := r } op).1 ≠ .fail (.fault f) := step_noFault v hv r op f

theorem C05_no_fault (b : Bytes) (v : View) (h : Vol.open b = .ok v) (r : Nat) (ops : List Op) (f : Fault) :
    Res.fail (.fault f) ∉ Obj.run { view := v, rpos := r } ops := run_open_noFault b v h r ops f

/-- a history with good and bad calls: the bad ones are ordinary errors -/
example : Obj.run { view := viewD6, rpos := 0 }
      [.count, .name 0, .name 1, .size 0, .kind 0, .index [65, 46, 84, 88, 84], .index [98], .contains [98],
       .stream 0, .stream 7, .streamByName [97, 46, 116, 120, 116], .extract 0]
    = [.num 1, .bytes [97, 46, 116, 120, 116], .fail (.err .bounds), .num 5, .num 256, .num 0, .fail (.err .format),
       .num 0, .bytes [104, 101, 108, 108, 111], .fail (.err .bounds), .bytes [104, 101, 108, 108, 111],
       .bytes [104, 101, 108, 108, 111]] := by rfl

/-- the invariant is needed: on a view that violates it (what the pinned code builds from `witnessD7`) a call faults -/
example : ∃ v : View, ¬ v.Inv ∧ (Obj.step { view := v, rpos := 0 } (.name 1)).1 = .fail (.fault .vecIndex) :=
  ⟨{ file := [], names := [[97]], entries := [], count := 2 }, by decide, by rfl⟩

/-! ## D. history independence; a call leaves every later answer unchanged -/

theorem C05_history_independent (o : Obj) (r : Nat) (op : Op) :
    (Obj.step { o with rpos := r } op).1 = (o.step op).1 := step_rpos_irrelevant o r op

theorem C05_failed_call_is_noop (o : Obj) (op : Op) (ops : List Op) :
    Obj.run (o.step op).2 ops = Obj.run o ops := run_after_step o op ops

/-- the reader position does move (so the statements are not about a constant object): after a successful and
    after a failed block access it differs from where it started -/
example : ((Obj.step { view := viewD6, rpos := 0 } (.stream 0)).2.rpos = 68) ∧
    (∃ v, Vol.open witnessShort = .ok v ∧ (Obj.step { view := v, rpos := 0 } (.extract 0)).1 = .fail (.err .bounds)
      ∧ (Obj.step { view := v, rpos := 0 } (.extract 0)).2.rpos = 68) :=
  ⟨by rfl, viewShort, open_witnessShort, by rfl, by rfl⟩

/-! ## E. streams are exact or refused -/

theorem C05_stream_exact (v : View) (i : Nat) (b : Bytes) (h : v.stream i = .ok b) :
    ∃ e, i < v.count ∧ v.entries[i]? = some e ∧ e.dataOff + 8 ≤ v.file.length ∧
      (let len := decU32 (v.file.drop (e.dataOff + 4)) % padFlag
       e.dataOff + 8 + len ≤ v.file.length ∧ b = (v.file.drop (e.dataOff + 8)).take len ∧ b.length = len) :=
  stream_exact v i b h

example : ∃ v, Vol.open witnessD6 = .ok v ∧ v.stream 0 = .ok [104, 101, 108, 108, 111] :=
  ⟨viewD6, open_witnessD6, by rfl⟩

theorem C05_stream_never_short (v : View) (i : Nat) (e : Entry) (he : v.entries[i]? = some e) (hi : i < v.count)
    (hout : v.file.length < e.dataOff + 8 + decU32 (v.file.drop (e.dataOff + 4)) % padFlag) :
    ∃ x, v.stream i = .error (.err x) := stream_never_short v i e he hi hout

/-- the hypotheses on a damaged archive: the block header is there, the payload is cut short -/
example : ∃ v e, Vol.open witnessShort = .ok v ∧ v.entries[0]? = some e ∧ 0 < v.count ∧
    e.dataOff + 8 ≤ v.file.length ∧
    v.file.length < e.dataOff + 8 + decU32 (v.file.drop (e.dataOff + 4)) % padFlag ∧
    v.stream 0 = .error (.err .bounds) :=
  ⟨viewShort, _, open_witnessShort, rfl, by decide, by decide, by decide, by rfl⟩

/-- … and on one where the block header itself is beyond the end -/
example : ∃ v e, Vol.open (witnessD6.take 62) = .ok v ∧ v.entries[0]? = some e ∧ 0 < v.count ∧
    v.file.length < e.dataOff + 8 ∧ v.stream 0 = .error (.err .bounds) :=
  ⟨{ viewD6 with file := witnessD6.take 62 }, _, by rfl, rfl, by decide, by decide, by rfl⟩

/-! ## F. the defects of the pinned code -/

/-- D6: the whole `voli` section (15 bytes) is copied into a buffer of whole entries (14 bytes) -/
theorem C05_pinned_D6_faults : openWith Cfg.pinned witnessD6 = .error (.fault .oobWrite) := by rfl

theorem C05_fixed_D6_opens : ∃ v, Vol.open witnessD6 = .ok v ∧ v.count = 1 :=
  ⟨viewD6, open_witnessD6, rfl⟩

/-- D7: two valid entries, one name: the pinned code opens the archive and `GetName(1)` indexes past the vector -/
theorem C05_pinned_D7_faults : ∃ v, openWith Cfg.pinned witnessD7 = .ok v ∧ v.name 1 = .error (.fault .vecIndex) :=
  ⟨viewD7, pinned_open_witnessD7, by rfl⟩

theorem C05_fixed_D7_refuses : Vol.open witnessD7 = .error (.err .format) := by rfl

/-- the view the pinned code builds from `witnessD7` violates the invariant (which is why `C05_calls_no_fault`
    does not apply to it); everything else about it is in order: both streams are delivered -/
example : ∃ v, openWith Cfg.pinned witnessD7 = .ok v ∧ ¬ v.Inv ∧ v.count = 2 ∧ v.names.length = 1 ∧
    v.stream 1 = .ok [49, 50, 51, 52, 53, 54, 55] :=
  ⟨viewD7, pinned_open_witnessD7, by decide, rfl, rfl, by rfl⟩

end Op2.Vol
