import Op2Model.Vol
import Op2Model.Gen.Layout
/-! # C05 (VOL part) — the VOL reader is safe on arbitrary bytes (theorems; work in progress) -/
namespace Op2.Vol
open Op2

theorem C05_gen_entrySize : Gen.Layout.size_VolIndexEntry = entrySize := by decide
theorem C05_gen_secSize : Gen.Layout.size_VolSectionHeader = secSize := by decide

end Op2.Vol
