import Op2Proofs.GenTactics
import Op2Proofs.Tileset.Write
import Op2Proofs.Props.C11_Bmp
import Op2Model.Gen.Layout
import Op2Model.Gen.Formulas
/-!
# C09 — tilesets load to the same picture from custom and standard formats

Model: `Op2Model/Tileset.lean` (`peekIsCustom`, `read`, `readCustom`, `writeCustom`, `validateTs`, frozen `Spec.encode`).
A *picture* is what a bitmap object shows (`picture`: 256 colours, 32-byte rows listed top-down); `ValidPicture f` says the
object is an 8-bit, 32-pixel-wide bitmap whose height is a multiple of 32 (either sign), with at most 256 palette entries and
32·|height| pixel bytes.
-/
namespace Op2.Props.C09
open Op2 Op2.Bmp Op2.Tileset Op2.Props.C08 Op2.Props.C11

/-! ## the custom-format bytes -/

/-- saving a valid picture writes exactly the independent description of the format applied to the picture the object
    shows: the bytes are a function of the picture alone (orientation in memory, palette padding do not matter) -/
theorem C09_bytes (f : Bmp) (hv : ValidPicture f) : writeCustom f = .ok (Spec.encode (picture f)) :=
  writeCustom_spec hv

/-- two objects showing the same picture are saved to the same bytes -/
theorem C09_bytes_function_of_picture (f g : Bmp) (hf : ValidPicture f) (hg : ValidPicture g) (h : picture f = picture g) :
    writeCustom f = writeCustom g := by
  rw [C09_bytes f hf, C09_bytes g hg, h]

/-! ## round trips through the format-detecting loader -/

/-- custom-format save, then `ReadTileset`: the same picture, top-down, identical colours -/
theorem C09_custom_rt (f : Bmp) (hv : ValidPicture f) (hc : 32 * f.ih.height.natAbs ≤ allocCap) :
    ∃ w g, writeCustom f = .ok w ∧ Tileset.read w = .ok g ∧
      g = bmpOfPicture (picture f) ∧ picture g = picture f ∧ g.ih.height ≤ 0 ∧
      g.palette = f.palette ++ List.replicate (256 - f.palette.length) Color.black := by
  have hwf := picture_wf hv
  have hl := picture_rows_length f
  refine ⟨_, _, C09_bytes f hv, spec_read (picture f) hwf (by rw [hl]; exact hc), rfl, ?_, ?_, rfl⟩
  · exact picture_bmpOfPicture _ hwf
  · show -((picture f).rows.length : Int) ≤ 0
    omega

/-- the same picture stored as a standard bitmap by `WriteIndexed` loads through `ReadTileset` to the same picture
    (orientation as stored).  Stated for objects with the reader's invariants (`Loaded`: everything `ReadIndexed`,
    `ReadTileset` or the factories return). -/
theorem C09_bmp_same (f : Bmp) (L : Loaded f) (hv : ValidPicture f) :
    ∃ w g, write f = .ok w ∧ Tileset.read w = .ok g ∧ picture g = picture f ∧ g.ih.height = f.ih.height ∧
      g.pixels = f.pixels := by
  obtain ⟨h8, h32, hm, hlo, hhi, hpal, hpx⟩ := hv
  have hp32 : pitch f.ih.bitCount f.ih.width = 32 := by rw [h8, h32]; exact pitch_8_32
  have hb32 : pixByteWidth f.ih.bitCount f.ih.width = 32 := by rw [h8, h32]; decide
  have hpix : (normalize f).pixels = f.pixels := by
    unfold normalize
    simp only
    rw [hp32, hb32]
    have hrows := storedRows_row_length 32 f.ih.height.natAbs f.pixels (by rw [hpx, Nat.mul_comm]; exact Nat.le_refl _)
    have : (storedRows f.pixels 32 f.ih.height.natAbs).map (fun r => r.take 32 ++ zeros (32 - 32)) =
        storedRows f.pixels 32 f.ih.height.natAbs := by
      apply map_id_of_forall
      intro r hr
      rw [List.take_of_length_le (by rw [hrows r hr]; exact Nat.le_refl _)]
      simp [zeros]
    rw [this, storedRows_flatten 32 _ _ (by rw [hpx, Nat.mul_comm])]
  have hlen : (Loaded.written f).length < W64 := by
    rw [written_eq, Bmp.encode_length (by rfl)]
    have := L.cap; have := L.fullPalette_length; have := L.pow_bits_le
    have e : (normalize f).palette.length = 2 ^ f.ih.bitCount := L.fullPalette_length
    rw [e, hpix]; unfold allocCap W64 at *; omega
  have hrd : Tileset.read (Loaded.written f) = .ok (normalize f) := by
    rw [read_eq _ hlen, read_written L]
    have h4 : 4 ≤ (Loaded.written f).length := by
      rw [written_eq, Bmp.encode_length (by rfl)]; omega
    rw [if_pos h4]
    have hnot : ¬ (Loaded.written f).take 4 = tagPBMP := by
      rw [written_eq]
      unfold encode normalize BmpHeader.enc BmpHeader.create fileSignature
      simp only [List.append_assoc, List.cons_append, List.nil_append]
      intro h
      have := congrArg (fun l => l.head?) h
      simp [tagPBMP] at this
    rw [if_neg hnot]
    simp only
    have hvt : validateTs (normalize f) = .ok () := by
      refine (validateTs_ok_iff _).mpr ⟨h8, h32, ?_⟩
      show toU32 f.ih.height % 32 = 0
      unfold toU32 W32; omega
    rw [hvt]
  refine ⟨_, _, L.write_ok, hrd, ?_, rfl, hpix⟩
  unfold picture
  rw [hpix]
  have : (normalize f).palette ++ List.replicate (256 - (normalize f).palette.length) Color.black =
      f.palette ++ List.replicate (256 - f.palette.length) Color.black := by
    show fullPalette f.ih.bitCount f.palette ++ List.replicate (256 - (fullPalette f.ih.bitCount f.palette).length) Color.black = _
    rw [L.fullPalette_length, h8]
    unfold fullPalette
    simp
  rw [this]
  rfl

/-! ## the detector -/

/-- `PeekIsCustomTileset` answers by the next four bytes alone (`true` exactly for "PBMP"; an error when fewer than four
    remain) and leaves the reader — position included — exactly as it was -/
theorem C09_peek (s : Stream.MemR) (hi : s.Inv) :
    peekIsCustom s =
      (if s.pos + 4 ≤ s.data.length then .ok (decide ((s.data.drop s.pos).take 4 = tagPBMP)) else .error .bounds, s) :=
  peekIsCustom_eval s hi

/-- the loader dispatches on that answer only -/
theorem C09_dispatch (b : Bytes) (hb : b.length < W64) :
    (4 ≤ b.length → b.take 4 = tagPBMP → Tileset.read b = readCustom b) ∧
    (4 ≤ b.length → b.take 4 ≠ tagPBMP → ∀ g, Tileset.read b = .ok g → Bmp.read b = .ok g) := by
  constructor
  · intro h4 ht; rw [read_eq b hb, if_pos h4, if_pos ht]
  · intro h4 ht g hg
    rw [read_eq b hb, if_pos h4, if_neg ht] at hg
    cases hr : Bmp.read b with
    | fault x => rw [hr] at hg; cases hg
    | err e => rw [hr] at hg; cases hg
    | ok f' =>
      rw [hr] at hg; simp only at hg
      rcases validateTs_cases f' with e | e <;> rw [e] at hg
      · exact hg
      · cases hg

/-! ## refusals -/

/-- the tileset constraints -/
def Constraints (f : Bmp) : Prop := f.ih.bitCount = 8 ∧ f.ih.width = 32 ∧ f.ih.height % 32 = 0
instance (f : Bmp) : Decidable (Constraints f) := by unfold Constraints; infer_instance

theorem validateTs_iff (f : Bmp) : validateTs f = .ok () ↔ Constraints f := by
  rw [validateTs_ok_iff]; unfold Constraints toU32 W32
  constructor <;> rintro ⟨a, b, c⟩ <;> exact ⟨a, b, by omega⟩

/-- a picture violating the constraints is refused on save, and the loader never returns one, whatever the bytes and
    whichever format they are in; in particular such a picture stored as a standard bitmap is refused on load -/
theorem C09_refuse :
    (∀ f, ¬ Constraints f → ∃ e, writeCustom f = .err e) ∧
    (∀ b g, b.length < W64 → Tileset.read b = .ok g → Constraints g) ∧
    (∀ f, Loaded f → ¬ Constraints f → ∃ w, write f = .ok w ∧ ∃ e, Tileset.read w = .err e) := by
  have hload : ∀ b g, b.length < W64 → Tileset.read b = .ok g → Constraints g := by
    intro b g hb h
    rw [read_eq b hb] at h
    split at h
    · split at h
      · unfold readCustom runOut at h
        split at h
        · rename_i o rest hp; subst h
          have := (custom_ok hp).2.2.2.2.2.2.2
          exact (validateTs_iff g).mp this
        · cases h
      · cases hr : Bmp.read b with
        | fault x => rw [hr] at h; cases h
        | err e => rw [hr] at h; cases h
        | ok f' =>
          rw [hr] at h; simp only at h
          rcases validateTs_cases f' with e | e <;> rw [e] at h
          · injection h with h; subst h; exact (validateTs_iff _).mp e
          · cases h
    · cases h
  refine ⟨?_, hload, ?_⟩
  · intro f hn
    have : validateTs f = .err .format := by
      rcases validateTs_cases f with e | e
      · exact (hn ((validateTs_iff f).mp e)).elim
      · exact e
    exact ⟨.format, by unfold writeCustom; rw [this]⟩
  · intro f L hn
    refine ⟨_, L.write_ok, ?_⟩
    have hlen : (Loaded.written f).length < W64 := by
      rw [written_eq, Bmp.encode_length (by rfl)]
      have e : (normalize f).palette.length = 2 ^ f.ih.bitCount := L.fullPalette_length
      have := L.cap; have := L.pow_bits_le
      rw [e, normalize_pixels_length L]; unfold allocCap W64 at *; omega
    cases hr : Tileset.read (Loaded.written f) with
    | err e => exact ⟨e, rfl⟩
    | fault x => have := C11_no_fault_load_tileset _ hlen; rw [hr] at this; cases this
    | ok g =>
      have hc := hload _ g hlen hr
      -- `g` can only be the normal form of `f`, which has `f`'s depth, width and height
      have h4 : 4 ≤ (Loaded.written f).length := by rw [written_eq, Bmp.encode_length (by rfl)]; omega
      have hnot : (Loaded.written f).take 4 ≠ tagPBMP := by
        rw [written_eq]
        unfold encode normalize BmpHeader.enc BmpHeader.create fileSignature
        simp only [List.append_assoc, List.cons_append, List.nil_append]
        intro h
        have := congrArg (fun l => l.head?) h
        simp [tagPBMP] at this
      have := (C09_dispatch _ hlen).2 h4 hnot g hr
      rw [read_written L] at this
      injection this with this
      subst this
      exact (hn hc).elim

/-! ## bridging lemmas: measured layout and constants of the tileset records -/

open Op2.Gen.Layout in
theorem C09_gen_layout :
    size_SectionHeader = 8 ∧ off_SectionHeader_tag = 0 ∧ off_SectionHeader_length = 4 ∧
    size_TilesetHeader = sizeTilesetHeader ∧ off_TilesetHeader_sectionHead = 0 ∧ off_TilesetHeader_tagCount = 8 ∧
    off_TilesetHeader_pixelWidth = 12 ∧ off_TilesetHeader_pixelHeight = 16 ∧ off_TilesetHeader_bitDepth = 20 ∧
    off_TilesetHeader_flags = 24 ∧
    size_PpalHeader = sizePpalHeader ∧ off_PpalHeader_ppal = 0 ∧ off_PpalHeader_head = 8 ∧ off_PpalHeader_tagCount = 16 ∧
    ts_DefaultSectionSize = headSectionSize ∧ ts_DefaultTagCount = headTagCount ∧ ts_DefaultPixelWidth = pixelWidth ∧
    ts_DefaultPixelHeightMultiple = heightMultiple ∧ ts_DefaultBitDepth = bitDepth ∧ ts_DefaultFlags = flags ∧
    ts_DefaultPpalSectionSize = ppalSectionSize ∧ ts_DefaultHeadSectionSize = ppalHeadSectionSize ∧
    ts_PpalDefaultTagCount = ppalTagCount ∧ ts_DefaultPaletteHeaderSize = paletteSectionSize ∧
    ts_TagFileSignature = tagPBMP.map UInt8.toNat ∧ ts_TagHead = tagHead.map UInt8.toNat ∧
    ts_TagPpal = tagPPAL.map UInt8.toNat ∧ ts_TagPpalHead = tagHead.map UInt8.toNat ∧ ts_TagData = tagData.map UInt8.toNat ∧
    size_Color = 4 ∧ off_Color_red = 0 ∧ off_Color_green = 1 ∧ off_Color_blue = 2 ∧ off_Color_alpha = 3 := by decide

open Op2.GenTactics in
/-- `CalculatePixelHeaderLength` and `CalculatePbmpSectionSize` as translated from the current source (clang AST; `sizeof`s and
    constants are the ones measured in `Gen/Layout`) are the model's section-length formulas, for every 32-bit height -/
theorem C09_gen_section_sizes (h : Nat) (hh : h < W32) :
    (Gen.Formulas.gen_CalculatePixelHeaderLength_translated && Gen.Formulas.gen_CalculatePbmpSectionSize_translated) = true →
    Gen.Formulas.gen_CalculatePixelHeaderLength (h : Int) = ((pixelHeaderLength h : Nat) : Int) ∧
    Gen.Formulas.gen_CalculatePbmpSectionSize (h : Int) = ((pbmpSectionSize h : Nat) : Int) := by
  gen_guard =>
  have e32 : ((2 : Int) ^ 32) = 4294967296 := by decide
  have e64 : ((2 : Int) ^ 64) = 18446744073709551616 := by decide
  unfold Gen.Formulas.gen_CalculatePbmpSectionSize Gen.Formulas.gen_CalculatePixelHeaderLength Gen.Formulas.castU
    pbmpSectionSize pixelHeaderLength
  simp only [Gen.Layout.ts_DefaultPixelWidth, Gen.Layout.size_Tag, Gen.Layout.size_TilesetHeader, Gen.Layout.size_PpalHeader,
    Gen.Layout.ts_DefaultPaletteHeaderSize, pixelWidth, sizeTag, sizeTilesetHeader, sizePpalHeader, paletteSectionSize, W32, e32, e64,
    Int.reduceToNat, Int.reducePow, Int.reduceMod, Int.reduceMul, Int.reduceAdd, Int.reduceSub, Int.reduceDiv, Int.reduceNeg] at *
  omega

/-- the model's constants are the frozen description's literals -/
theorem C09_spec_constants :
    headSectionSize = 0x14 ∧ headTagCount = 2 ∧ pixelWidth = 32 ∧ bitDepth = 8 ∧ flags = 8 ∧ ppalSectionSize = 1048 ∧
    ppalHeadSectionSize = 4 ∧ ppalTagCount = 1 ∧ paletteSectionSize = 1024 ∧
    Spec.ascii4 'P' 'B' 'M' 'P' = tagPBMP ∧ Spec.ascii4 'h' 'e' 'a' 'd' = tagHead ∧ Spec.ascii4 'P' 'P' 'A' 'L' = tagPPAL ∧
    Spec.ascii4 'd' 'a' 't' 'a' = tagData := by decide

/-! ## non-vacuity -/

/-- a 32×0 picture with a one-entry palette, as `ReadIndexed` returns it from a 58-byte file -/
def tiny : Bmp :=
  { bh := BmpHeader.create 58 58,
    ih := { headerSize := 40, width := 32, height := 0, planes := 1, bitCount := 8, compression := 0, imageSize := 0,
            xRes := 0, yRes := 0, used := 1, important := 0 },
    palette := [⟨10, 20, 30, 0⟩], pixels := [] }

example : ValidPicture tiny := by decide
example : ¬ Constraints { tiny with ih := { tiny.ih with width := 31 } } := by decide

end Op2.Props.C09
