import Op2Model.Clm
import Op2Proofs.GenGuards
/-!
# C03 / C20 (CLM) — the refusal conditions of `ClmFile::PrepareIndex` and of the name-length loop of
`ClmFile::CreateArchive`, as regenerated from the current C++ (`Op2Model/Gen/Guards.lean`), are those of the model
(`Clm.prepareIndex`, `Clm.create`) for ALL values of the C++ types.

Ranges: `offset` is the running `uint64_t` sum; at the head of every iteration it is at most 2^32 (it starts as
`60 + 16·n` and the previous iteration's guard passed), `dataLength` is a `uint32_t`.  Under these hypotheses the 64-bit
sum cannot wrap, so `offset + len > UINT32_MAX` and `offset > UINT32_MAX - len` are the same refusal; a 32-bit sum, `>=`,
or `INT32_MAX` are not.
-/
set_option linter.unusedSimpArgs false
set_option linter.unusedVariables false
namespace Op2.Props.C03Gen
open Op2 Op2.Gen.Guards Op2.GenTactics Op2.GenGuards

/-- `PrepareIndex`, one entry: the generated refusal is `offset + dataLength > Clm.offsetLimit` -/
theorem C03_gen_prepareIndex_guard : ClmFile_PrepareIndex_guards_translated = true →
    ∀ (off len : Nat), off ≤ W32 → len < W32 →
      (ClmFile_PrepareIndex_refuses off len = true ↔ off + len > Clm.offsetLimit) := by
  gen_guard =>
    intro off len h1 h2
    unfold ClmFile_PrepareIndex_refuses
    guard_iff
    simp only [Clm.offsetLimit, W32] at *
    guard_norm; omega

/-- the same against the model function itself: `Clm.prepareIndex` refuses the entry iff the generated guards do -/
theorem C03_gen_prepareIndex_model : ClmFile_PrepareIndex_guards_translated = true →
    ∀ (name : Bytes) (off len : Nat), off ≤ W32 → len < W32 →
      (Clm.prepareIndex off [(name, len)]).isNone = ClmFile_PrepareIndex_refuses off len := by
  gen_guard_h h =>
    intro name off len h1 h2
    have hg := C03_gen_prepareIndex_guard h off len h1 h2
    simp only [Clm.prepareIndex]
    by_cases hc : off + len > Clm.offsetLimit
    · simp [hc, hg.mpr hc]
    · have : ClmFile_PrepareIndex_refuses off len = false := by
        cases hr : ClmFile_PrepareIndex_refuses off len with
        | false => rfl
        | true => exact absurd (hg.mp hr) hc
      simp [hc, this]

/-- `CreateArchive`: a name is refused iff it is longer than `Clm.nameMax` (`std::string::size()` is a `size_t`) -/
theorem C03_gen_nameMax_guard : ClmFile_CreateArchive_guards_translated = true →
    ∀ (n : Nat), n < W64 →
      (ClmFile_CreateArchive_refuses n = true ↔ n > Clm.nameMax) := by
  gen_guard =>
    intro n h1
    unfold ClmFile_CreateArchive_refuses
    guard_iff
    simp only [Clm.nameMax, W64] at *
    guard_norm; omega

end Op2.Props.C03Gen
