import Op2Proofs.Bmp.Ops
import Op2Proofs.Bmp.GenBridge
import Op2Proofs.Bmp.RoundTrip
import Op2Model.Gen.Layout
/-!
# C08 — indexed bitmaps read back valid and round-trip pixels, palette, geometry

Model: `Op2Model/Bmp.lean` (`read`, `write`, `validate`, `create1/2/3`, `invert`).  Helper lemmas: `Op2Proofs/Bmp/*`.
-/
namespace Op2.Props.C08
open Op2 Op2.Bmp

theorem read_ok {b : Bytes} {f : Bmp} (h : Bmp.read b = .ok f) : ∃ rest, Rd.bmp b.length b = .ok (.ok f, rest) := by
  unfold Bmp.read runOut at h
  split at h
  · rename_i o rest hp; subst h; exact ⟨rest, hp⟩
  · cases h

theorem read_loaded {b : Bytes} {f : Bmp} (h : Bmp.read b = .ok f) : Loaded f := by
  obtain ⟨rest, hp⟩ := read_ok h
  exact (bmp_ok hp).1

/-! ## the pitch law -/

/-- for every width and depth: the row size in ℕ is a multiple of four, holds `w·bits` bits, and no smaller multiple of
    four does -/
theorem C08_pitch_law (bits w : Nat) :
    pitchN bits w % 4 = 0 ∧ w * bits ≤ 8 * pitchN bits w ∧ ∀ m, m % 4 = 0 → w * bits ≤ 8 * m → pitchN bits w ≤ m :=
  pitchN_law bits w

/-- the `size_t` formula of the code equals the ℕ law on every non-negative `int32_t` width and every `uint16_t` depth -/
theorem C08_pitch_model (bits : Nat) (w : Int) (hb : bits < 65536) (h0 : 0 ≤ w) (h1 : w < 2147483648) :
    pitch bits w = pitchN bits w.toNat ∧ pixByteWidth bits w = (w.toNat * bits + 7) / 8 :=
  ⟨pitch_of_nonneg bits w hb h0 h1, pixByteWidth_of_nonneg bits w hb h0 h1⟩

/-! ## bridging lemmas: translated formulas, measured layouts and constants -/

open Op2.Gen.Formulas in
/-- `ImageHeader::CalcPixelByteWidth` / `CalculatePitch` as translated from the current source are the model's
    formulas on the whole argument range (negative widths included) -/
theorem C08_gen_pitch (bits : Nat) (w : Int) (hb : bits < 65536) :
    (gen_CalcPixelByteWidth_translated && gen_CalculatePitch_translated) = true →
    gen_CalcPixelByteWidth (bits : Int) w = (pixByteWidth bits w : Nat) ∧ gen_CalculatePitch (bits : Int) w = (pitch bits w : Nat) := by
  intro h
  have h1 : gen_CalcPixelByteWidth_translated = true := by revert h; cases gen_CalcPixelByteWidth_translated <;> simp
  exact ⟨gen_CalcPixelByteWidth_eq bits w hb h1, gen_CalculatePitch_eq bits w hb h⟩

open Op2.Gen.Layout in
/-- the on-disk records are laid out as the model's serialisers write them, and the default constants are the model's -/
theorem C08_gen_layout :
    size_BmpHeader = sizeBmpHeader ∧ off_BmpHeader_fileSignature = 0 ∧ off_BmpHeader_size = 2 ∧ off_BmpHeader_reserved1 = 6 ∧
    off_BmpHeader_reserved2 = 8 ∧ off_BmpHeader_pixelOffset = 10 ∧
    size_ImageHeader = sizeImageHeader ∧ off_ImageHeader_headerSize = 0 ∧ off_ImageHeader_width = 4 ∧ off_ImageHeader_height = 8 ∧
    off_ImageHeader_planes = 12 ∧ off_ImageHeader_bitCount = 14 ∧ off_ImageHeader_compression = 16 ∧ off_ImageHeader_imageSize = 20 ∧
    off_ImageHeader_xResolution = 24 ∧ off_ImageHeader_yResolution = 28 ∧ off_ImageHeader_usedColorMapEntries = 32 ∧
    off_ImageHeader_importantColorCount = 36 ∧
    size_Color = 4 ∧ off_Color_red = 0 ∧ off_Color_green = 1 ∧ off_Color_blue = 2 ∧ off_Color_alpha = 3 ∧
    bmp_FileSignature = fileSignature.map UInt8.toNat ∧ bmp_ValidBitCounts = validBitCounts ∧
    bmp_DefaultPlanes = 1 ∧ bmp_DefaultImageSize = 0 ∧ bmp_DefaultXResolution = 0 ∧ bmp_DefaultYResolution = 0 ∧
    bmp_DefaultUsedColorMapEntries = 0 ∧ bmp_DefaultImportantColorCount = 0 ∧ bmp_DefaultReserved1 = 0 ∧ bmp_DefaultReserved2 = 0 ∧
    bmp_CompressionUncompressed = 0 ∧ bmp_Black = Color.black.enc.map UInt8.toNat := by decide

/-- the header serialisers put every field at its measured offset -/
theorem C08_enc_lengths (b : BmpHeader) (h : ImageHeader) (hs : b.sig.length = 2) :
    b.enc.length = sizeBmpHeader ∧ h.enc.length = sizeImageHeader := by
  unfold BmpHeader.enc ImageHeader.enc encI32
  simp [encU16, encU32, hs, sizeBmpHeader, sizeImageHeader]

/-! ## accepted ⇒ valid -/

/-- every byte string the reader accepts yields a bitmap that passes the library's own `Validate`, has a non-negative
    width, exactly `|height|` rows of the smallest multiple-of-four length holding `width·bits` bits, and a palette no
    longer than the depth allows -/
theorem C08_read_valid (b : Bytes) (f : Bmp) (h : Bmp.read b = .ok f) :
    validate f = .ok () ∧ 0 ≤ f.ih.width ∧
    f.pixels.length = pitchN f.ih.bitCount f.ih.width.toNat * f.ih.height.natAbs ∧
    (storedRows f.pixels (pitchN f.ih.bitCount f.ih.width.toNat) f.ih.height.natAbs).length = f.ih.height.natAbs ∧
    (∀ r ∈ storedRows f.pixels (pitchN f.ih.bitCount f.ih.width.toNat) f.ih.height.natAbs,
        r.length = pitchN f.ih.bitCount f.ih.width.toNat) ∧
    (storedRows f.pixels (pitchN f.ih.bitCount f.ih.width.toNat) f.ih.height.natAbs).flatten = f.pixels ∧
    f.palette.length ≤ 2 ^ f.ih.bitCount ∧ (f.ih.bitCount = 1 ∨ f.ih.bitCount = 4 ∨ f.ih.bitCount = 8) := by
  have L := read_loaded h
  have hp : pitch f.ih.bitCount f.ih.width = pitchN f.ih.bitCount f.ih.width.toNat :=
    pitch_of_nonneg _ _ (by have := L.bits_le; omega) L.width_nonneg L.ihRange.width.2
  have hn := L.npix
  rw [hp] at hn
  refine ⟨L.validate_ok, L.width_nonneg, hn, storedRows_length _ _ _, ?_, ?_, L.palette_le, L.bits⟩
  · exact storedRows_row_length _ _ _ (by rw [hn, Nat.mul_comm]; exact Nat.le_refl _)
  · exact storedRows_flatten _ _ _ (by rw [hn, Nat.mul_comm])

/-! ## `InvertScanLines` -/

/-- flipping once reverses the row list and negates the height, leaving everything else alone; flipping twice restores
    the original.  (`read` refuses height −2^31, the one height whose negation is undefined.) -/
theorem C08_invert (b : Bytes) (f : Bmp) (h : Bmp.read b = .ok f) :
    ∃ g, invert f = .ok g ∧ g.ih.height = -f.ih.height ∧
      storedRows g.pixels (pitch f.ih.bitCount f.ih.width) f.ih.height.natAbs =
        (storedRows f.pixels (pitch f.ih.bitCount f.ih.width) f.ih.height.natAbs).reverse ∧
      g.pixels.length = f.pixels.length ∧
      g.bh = f.bh ∧ g.palette = f.palette ∧ g.ih = { f.ih with height := -f.ih.height } ∧
      invert g = .ok f := by
  have L := read_loaded h
  let p := pitch f.ih.bitCount f.ih.width
  let n := f.ih.height.natAbs
  have hrows : ∀ r ∈ (storedRows f.pixels p n).reverse, r.length = p := by
    intro r hr
    exact storedRows_row_length p n f.pixels (by rw [L.npix, Nat.mul_comm]; exact Nat.le_refl _) r (List.mem_reverse.mp hr)
  have hlen : ((storedRows f.pixels p n).reverse).length = n := by simp [storedRows_length]
  have hcut : storedRows (storedRows f.pixels p n).reverse.flatten p n = (storedRows f.pixels p n).reverse := by
    have := storedRows_of_flatten p _ hrows
    rw [hlen] at this; exact this
  have hflat : ((storedRows f.pixels p n).reverse.flatten).length = f.pixels.length := by
    rw [List.length_flatten]
    have : (List.map List.length (storedRows f.pixels p n).reverse) = List.replicate n p := by
      apply List.eq_replicate_iff.mpr
      refine ⟨by simp [storedRows_length], ?_⟩
      intro x hx
      obtain ⟨r, hr, e⟩ := List.mem_map.mp hx
      rw [← e]; exact hrows r hr
    rw [this, List.sum_replicate_nat, L.npix, Nat.mul_comm]
  refine ⟨_, L.invert_ok, rfl, hcut, hflat, rfl, rfl, rfl, ?_⟩
  -- the flipped object is again one the reader could have returned (same invariants), so `invert_ok` applies to it
  have L2 : Loaded { f with ih := { f.ih with height := -f.ih.height }, pixels := (storedRows f.pixels p n).reverse.flatten } := by
    refine ⟨L.bhRange, ?_, L.sig, ?_, L.npal, ?_, ?_, ?_⟩
    · have := L.ihRange
      have hne := L.height_ne
      exact ⟨this.headerSize, this.width, by have := this.height; unfold I32_MIN at hne; constructor <;> simp <;> omega,
             this.planes, this.bitCount, this.compression, this.imageSize, this.xRes, this.yRes, this.used, this.important⟩
    · obtain ⟨a1, a2, a3, a4, a5, a6, a7, a8⟩ := L.valid
      have := L.ihRange.height
      exact ⟨a1, a2, a3, a4, by unfold I32_MIN at *; simp; omega, a6, a7, a8⟩
    · show ((storedRows f.pixels p n).reverse.flatten).length = pitch f.ih.bitCount f.ih.width * (-f.ih.height).natAbs
      rw [hflat, L.npix]; simp
    · show Rd.pixelBytes f.bh = ((storedRows f.pixels p n).reverse.flatten).length
      rw [hflat]; exact L.pixSize
    · show ((storedRows f.pixels p n).reverse.flatten).length ≤ allocCap
      rw [hflat]; exact L.cap
  rw [L2.invert_ok]
  simp only [Int.neg_neg, Int.natAbs_neg]
  show Out.ok { f with ih := { f.ih with height := f.ih.height }, pixels := (storedRows (storedRows f.pixels p n).reverse.flatten p n).reverse.flatten } = _
  rw [hcut, List.reverse_reverse, storedRows_flatten p n f.pixels (by rw [L.npix, Nat.mul_comm])]

/-! ## write, then read (`WriteIndexed` followed by `ReadIndexed`) -/

/-- whatever the reader accepted can be written, and the written bytes read back with the same geometry and depth, the
    palette extended entry for entry to `2^bits` colours, and every stored row equal to its meaningful bytes followed by
    zero padding -/
theorem C08_rt (b : Bytes) (f : Bmp) (h : Bmp.read b = .ok f) :
    ∃ w f', write f = .ok w ∧ Bmp.read w = .ok f' ∧
      f'.ih.width = f.ih.width ∧ f'.ih.height = f.ih.height ∧ f'.ih.bitCount = f.ih.bitCount ∧
      f.palette <+: f'.palette ∧ f'.palette.length = 2 ^ f.ih.bitCount ∧
      f'.pixels.length = f.pixels.length ∧
      storedRows f'.pixels (pitch f.ih.bitCount f.ih.width) f.ih.height.natAbs =
        (storedRows f.pixels (pitch f.ih.bitCount f.ih.width) f.ih.height.natAbs).map
          (fun r => r.take (pixByteWidth f.ih.bitCount f.ih.width) ++
                    zeros (pitch f.ih.bitCount f.ih.width - pixByteWidth f.ih.bitCount f.ih.width)) := by
  have L := read_loaded h
  refine ⟨Loaded.written f, normalize f, L.write_ok, read_written L, rfl, rfl, rfl, ?_, L.fullPalette_length,
          normalize_pixels_length L, ?_⟩
  · exact List.prefix_append _ _
  · exact storedRows_padded _ _ _ _ (pixByteWidth_le_pitch _ _) (by rw [L.npix, Nat.mul_comm]; exact Nat.le_refl _)

/-- a 1-bit 1×1 file: 14 + 40 header bytes, two palette entries, one padded row -/
def sample : Bytes :=
  [0x42, 0x4D, 0x42, 0, 0, 0, 0, 0, 0, 0, 0x3E, 0, 0, 0,
   0x28, 0, 0, 0, 1, 0, 0, 0, 1, 0, 0, 0, 1, 0, 1, 0, 0, 0, 0, 0, 0, 0, 0, 0, 0, 0, 0, 0, 0, 0, 0, 0, 0, 0, 0, 0, 0, 0, 0, 0,
   0, 0, 0, 0, 0xFF, 0xFF, 0xFF, 0,
   0x80, 0, 0, 0]

/-- non-vacuity: the reader accepts `sample` -/
example : (Bmp.read sample).isOk = true := by decide

/-- padding bytes of every stored row are zero -/
def CleanPadding (f : Bmp) : Prop :=
  ∀ r ∈ storedRows f.pixels (pitch f.ih.bitCount f.ih.width) f.ih.height.natAbs,
    r.drop (pixByteWidth f.ih.bitCount f.ih.width) = zeros (pitch f.ih.bitCount f.ih.width - pixByteWidth f.ih.bitCount f.ih.width)

/-- `CreateIndexed(bitCount, width, height)`: what it returns is written and read back unchanged -/
theorem C08_factory_rt1 (bits w : Nat) (h : Int) (f : Bmp) (hh : -2147483648 ≤ h ∧ h < 2147483648)
    (hc : create1 bits w h = .ok f) : ∃ wr, write f = .ok wr ∧ Bmp.read wr = .ok f := by
  obtain ⟨s, hs, e⟩ := create1_inv hc
  subst e
  exact shape_rt_zeros hs hh _ (by rw [List.length_replicate]; exact (createShape_ok hs).2.2.2.2.2.2.2.2.2)

/-- `CreateIndexed(bitCount, width, height, palette)` -/
theorem C08_factory_rt2 (bits w : Nat) (h : Int) (pal : List Color) (f : Bmp) (hh : -2147483648 ≤ h ∧ h < 2147483648)
    (hc : create2 bits w h pal = .ok f) : ∃ wr, write f = .ok wr ∧ Bmp.read wr = .ok f := by
  obtain ⟨s, hs, hp, e⟩ := create2_inv hc
  subst e
  exact shape_rt_zeros hs hh _ (create2_palette_length (createShape_ok hs).2.2.2.2.2.2.2.2.2 hp)

/-- `CreateIndexed(bitCount, width, height, palette, pixels)`: unchanged when the supplied rows have zero padding -/
theorem C08_factory_rt3 (bits w : Nat) (h : Int) (pal : List Color) (px : Bytes) (f : Bmp)
    (hh : -2147483648 ≤ h ∧ h < 2147483648) (hc : create3 bits w h pal px = .ok f) (hp : CleanPadding f) :
    ∃ wr, write f = .ok wr ∧ Bmp.read wr = .ok f := by
  obtain ⟨s, hs, hl, e, hv⟩ := create3_inv hc
  subst e
  exact shape_rt hs hh _ px (create2_palette_length (createShape_ok hs).2.2.2.2.2.2.2.2.2 hl) (verify_npix hs hv) hp

/-- non-vacuity of the factory round trips: each factory returns an object for small arguments -/
example : (create1 8 3 (-2)).isOk = true := by decide
example : (create2 4 5 2 [⟨1, 2, 3, 0⟩]).isOk = true := by decide
example : (create3 1 1 1 [] [0x80, 0, 0, 0]).isOk = true := by decide

/-- the hypothesis `CleanPadding` of `C08_factory_rt3` cannot be dropped: a supplied row with a non-zero padding byte is
    accepted by the factory and comes back changed (the writer zeroes the padding) -/
example : ∃ f wr f', create3 1 1 1 [] [0x80, 1, 0, 0] = .ok f ∧ write f = .ok wr ∧ Bmp.read wr = .ok f' ∧ f' ≠ f :=
  ⟨_, _, _, rfl, rfl, rfl, by decide⟩

end Op2.Props.C08
