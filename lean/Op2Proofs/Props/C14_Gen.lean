import Op2Proofs.GenBridge
import Op2Proofs.WriterLemmas
/-!
# C14 — bridging lemmas: the guards and cursor updates of `MemoryWriter` and `DynamicMemoryWriter`, as translated from
the current C++ on this run (`Op2Model/Gen/Streams.lean`), are those of the hand-written models `MemW.*` / `DynW.*`
for which the theorems of `C14.lean` are proved.  Arguments range over all of `[0, 2^64)`; the object is any state
satisfying the invariant the refinement maintains (`MemW.Inv`: `pos ≤ length < 2^64`).
-/
set_option linter.unusedSimpArgs false
set_option linter.unusedVariables false
namespace Op2.Props.C14
open Op2 Op2.Stream Op2.GenBridge
open Op2.Gen.Streams

/-! ## MemoryWriter -/

theorem C14_gen_memw_seek : MemoryWriter_Seek_translated = true →
    ∀ (s : MemW) (p : Nat), s.Inv → p < W64 →
      MemoryWriter_Seek s.buf.length s.pos p = okOr (fun s' : MemW => (s'.pos : Int)) (MemW.seek s p) := by
  gen_bridge =>
    intro s p hi hk
    obtain ⟨hi, hl⟩ := hi
    simp only [MemW.seek]
    split <;> simp only [okOr_ok, okOr_error] <;>
    simp only [MemoryWriter_Seek, u64, W64] at * <;> gen_close

/-- `SeekForward` = wrap-free guard, then `Seek(this->offset + offset)` -/
theorem C14_gen_memw_fwd : (MemoryWriter_SeekForward_translated && MemoryWriter_Seek_translated) = true →
    ∀ (s : MemW) (d : Nat), s.Inv → d < W64 →
      MemoryWriter_SeekForward s.buf.length s.pos d = okOr (fun s' : MemW => (s'.pos : Int)) (MemW.fwd s d) := by
  gen_bridge =>
    intro s d hi hk
    obtain ⟨hi, hl⟩ := hi
    simp only [MemW.fwd, MemW.seek]
    (repeat' split) <;> simp only [okOr_ok, okOr_error] <;>
    simp only [MemoryWriter_SeekForward, MemoryWriter_Seek, bind_ite, bind_none', bind_some', u64, W64] at * <;> gen_close

theorem C14_gen_memw_back : (MemoryWriter_SeekBackward_translated && MemoryWriter_Seek_translated) = true →
    ∀ (s : MemW) (d : Nat), s.Inv → d < W64 →
      MemoryWriter_SeekBackward s.buf.length s.pos d = okOr (fun s' : MemW => (s'.pos : Int)) (MemW.back s d) := by
  gen_bridge =>
    intro s d hi hk
    obtain ⟨hi, hl⟩ := hi
    simp only [MemW.back, MemW.seek]
    (repeat' split) <;> simp only [okOr_ok, okOr_error] <;>
    simp only [MemoryWriter_SeekBackward, MemoryWriter_Seek, bind_ite, bind_none', bind_some', u64, W64] at * <;> gen_close

/-- `WriteImplementation`: same refusal; on success the new offset, and the `memcpy` destination offset and length are
    the model's `pos'`, `pos`, `|b|` — the model patches exactly `b.length` bytes of the buffer at `pos` -/
theorem C14_gen_memw_write : MemoryWriter_WriteImplementation_translated = true →
    ∀ (s : MemW) (b : Bytes), s.Inv → b.length < W64 →
      MemoryWriter_WriteImplementation s.buf.length s.pos b.length =
        okOr (fun s' : MemW => ((s'.pos : Int), (s.pos : Int), (b.length : Int))) (MemW.write s b) := by
  gen_bridge =>
    intro s b hi hk
    obtain ⟨hi, hl⟩ := hi
    simp only [MemW.write]
    split <;> simp only [okOr_ok, okOr_error] <;>
    simp only [MemoryWriter_WriteImplementation, u64, W64] at * <;> gen_close

/-! ## DynamicMemoryWriter (`streamBuffer.size()` is the position; `resize(n, 0)` is the only effect) -/

/-- `SeekForward`: refused (bounds) exactly when the model refuses for bounds; otherwise `resize(size + offset, 0)`
    — the allocation failure of `resize` itself is inside the vector and not part of the translated fragment -/
theorem C14_gen_dynw_fwd : DynamicMemoryWriter_SeekForward_translated = true →
    ∀ (s : DynW) (d : Nat), s.content.length < W64 → d < W64 →
      (DynamicMemoryWriter_SeekForward s.content.length d = none ↔ DynW.fwd s d = .error .bounds) ∧
      (DynamicMemoryWriter_SeekForward s.content.length d = none ∨
        DynamicMemoryWriter_SeekForward s.content.length d = some (((s.content.length + d : Nat) : Int), 0)) ∧
      (∀ s', DynW.fwd s d = .ok s' → s'.content.length = s.content.length + d) := by
  gen_bridge =>
    intro s d hl hd
    simp only [DynW.fwd]
    refine ⟨?_, ?_, ?_⟩
    · (repeat' split) <;>
      simp only [reduceCtorEq, Except.error.injEq, iff_true, iff_false] <;>
      simp only [DynamicMemoryWriter_SeekForward, u64, W64] at * <;> gen_close
    · simp only [DynamicMemoryWriter_SeekForward, u64, W64] at *
      (repeat' split) <;> first
        | (left; rfl)
        | (right; simp only [Option.some.injEq, Prod.mk.injEq]; and_intros <;> omega)
    · intro s'
      (repeat' split) <;> simp only [reduceCtorEq, Except.ok.injEq, false_imp_iff] <;>
      (try (intro h; subst h; simp only [List.length_append, zeros, List.length_replicate]))

theorem C14_gen_dynw_back : DynamicMemoryWriter_SeekBackward_translated = true →
    ∀ (s : DynW) (d : Nat), s.content.length < W64 → d < W64 →
      DynamicMemoryWriter_SeekBackward s.content.length d =
        okOr (fun s' : DynW => ((s'.content.length : Int), (0 : Int))) (DynW.back s d) := by
  gen_bridge =>
    intro s d hl hd
    simp only [DynW.back]
    split <;> simp only [okOr_ok, okOr_error, List.length_take] <;>
    simp only [DynamicMemoryWriter_SeekBackward, u64, W64] at * <;> gen_close

/-- `Seek(p)` has no guard of its own: `resize(p, 0)` -/
theorem C14_gen_dynw_seek : DynamicMemoryWriter_Seek_translated = true →
    ∀ (len p : Nat), len < W64 → p < W64 →
      DynamicMemoryWriter_Seek len p = some ((p : Int), 0) := by
  gen_bridge =>
    intro len p hl hp
    simp only [DynamicMemoryWriter_Seek, u64, W64] at *
    gen_close

/-- `WriteImplementation`: `resize(size + n)`, then `n` bytes copied to offset `size` — the model appends -/
theorem C14_gen_dynw_write : DynamicMemoryWriter_WriteImplementation_translated = true →
    ∀ (s : DynW) (b : Bytes), s.content.length + b.length < W64 →
      DynamicMemoryWriter_WriteImplementation s.content.length b.length =
        some (((DynW.write s b).content.length : Int), (s.content.length : Int), (b.length : Int)) := by
  gen_bridge =>
    intro s b hl
    simp only [DynW.write, List.length_append, DynamicMemoryWriter_WriteImplementation, u64, W64] at *
    gen_close

end Op2.Props.C14
