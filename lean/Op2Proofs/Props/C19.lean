import Op2Proofs.GenTactics
import Op2Proofs.SortLemmas
import Op2Proofs.PathLemmas6
import Op2Model.Path
import Op2Model.Bits
import Op2Model.Gen.Formulas
/-!
# C19 — ordering, path-equality and bit helpers obey the laws their callers assume

Property theorems only; lemmas live in `Op2Proofs.StrOrder` / `Op2Proofs.SortLemmas`.
All string theorems are for *all* byte strings, no length bound.
-/
namespace Op2.Props.C19
open Op2 Op2.Str

/-! ## (1) "comes before" is a strict weak ordering whose incomparability is case-insensitive equality -/

theorem C19_lt_irrefl (a : Bytes) : ltCI a a = false := ltF_irrefl lowerI a

theorem C19_lt_trans (a b c : Bytes) (h1 : ltCI a b = true) (h2 : ltCI b c = true) : ltCI a c = true :=
  ltF_trans lowerI a b c h1 h2

theorem C19_incomparable_iff_equal_ignoring_case (a b : Bytes) :
    (ltCI a b = false ∧ ltCI b a = false) ↔ eqCI a b = true := incomp_iff_eqF lowerI a b

theorem C19_incomparability_trans (a b c : Bytes)
    (h1 : ltCI a b = false ∧ ltCI b a = false) (h2 : ltCI b c = false ∧ ltCI c b = false) :
    ltCI a c = false ∧ ltCI c a = false := incomp_trans lowerI a b c h1 h2

/-! ## (2) sorting is deterministic up to equal names; adjacent-duplicate detection is complete -/

/-- whatever `std::sort` returns (some weakly sorted permutation), on input without
    case-insensitively equal names it is *the* sorted arrangement — the same for every input order -/
theorem C19_sort_deterministic {α : Type} (key : α → Bytes) (l₁ l₂ s₁ s₂ : List α)
    (hperm : l₁.Perm l₂) (hnodup : NoDupCI key l₁)
    (p₁ : s₁.Perm l₁) (p₂ : s₂.Perm l₂) (hs₁ : SortedW key s₁) (hs₂ : SortedW key s₂) : s₁ = s₂ := by
  rw [sorted_perm_eq_sortCI key p₁ hs₁ hnodup,
      sorted_perm_eq_sortCI key p₂ hs₂ (hnodup.perm key hperm)]
  exact sortCI_perm_invariant key hperm hnodup

/-- on a sorted list, the adjacent comparison finds a duplicate iff *any* two names are equal ignoring case -/
theorem C19_adjacent_duplicate_detection_complete (l : List Bytes) (hs : SortedW id l) :
    hasAdjacentDup l = true ↔ ¬ NoDupCI id l := hasAdjacentDup_iff l hs

/-- non-vacuity: a sorted list with a non-adjacent-looking duplicate ("a", "A") is detected -/
example : hasAdjacentDup [[97], [65], [98]] = true ∧ SortedW id [[97], [65], [98]] := by
  refine ⟨by decide, ?_⟩
  unfold SortedW; decide

/-! ## (3) path equality is an equivalence relation containing case-insensitive string equality -/

open Op2.Path in
theorem C19_pathEq_refl (a : Bytes) : pathsAreEqual a a = true := by simp [pathsAreEqual]

open Op2.Path in
theorem C19_pathEq_symm (a b : Bytes) (h : pathsAreEqual a b = true) : pathsAreEqual b a = true := by
  simp only [pathsAreEqual, beq_iff_eq] at *; exact h.symm

open Op2.Path in
theorem C19_pathEq_trans (a b c : Bytes) (h1 : pathsAreEqual a b = true) (h2 : pathsAreEqual b c = true) :
    pathsAreEqual a c = true := by
  simp only [pathsAreEqual, beq_iff_eq] at *; exact h1.trans h2

theorem lower_eq_imp_upper_eq (x y : UInt8) (h : lowerI x = lowerI y) : upperB x = upperB y := by
  have hx := x.toNat_lt
  have hy := y.toNat_lt
  have key : x.toNat = y.toNat ∨ (65 ≤ x.toNat ∧ x.toNat ≤ 90 ∧ y.toNat = x.toNat + 32)
      ∨ (65 ≤ y.toNat ∧ y.toNat ≤ 90 ∧ x.toNat = y.toNat + 32) := by
    unfold lowerI at h
    split at h <;> split at h <;> (try split at h) <;> (try split at h) <;> omega
  rcases key with e | ⟨h1, h2, h3⟩ | ⟨h1, h2, h3⟩
  · have : x = y := UInt8.toNat_inj.mp e
    rw [this]
  · unfold upperB
    have c1 : ¬ (97 ≤ x.toNat ∧ x.toNat ≤ 122) := by omega
    have c2 : (97 ≤ y.toNat ∧ y.toNat ≤ 122) := by omega
    rw [if_neg c1, if_pos c2]
    apply UInt8.toNat_inj.mp
    rw [UInt8.toNat_ofNat']
    omega
  · unfold upperB
    have c1 : (97 ≤ x.toNat ∧ x.toNat ≤ 122) := by omega
    have c2 : ¬ (97 ≤ y.toNat ∧ y.toNat ≤ 122) := by omega
    rw [if_pos c1, if_neg c2]
    apply UInt8.toNat_inj.mp
    rw [UInt8.toNat_ofNat']
    omega

theorem eqCI_imp_toUpper_eq : ∀ a b : Bytes, eqCI a b = true → toUpper a = toUpper b
  | [], [], _ => rfl
  | x :: xs, y :: ys, h => by
    simp only [eqCI, eqF, Bool.and_eq_true, beq_iff_eq] at h
    simp only [toUpper, List.map_cons]
    rw [lower_eq_imp_upper_eq x y h.1]
    have := eqCI_imp_toUpper_eq xs ys h.2
    simp only [toUpper] at this
    rw [this]
  | [], _ :: _, h => by simp [eqCI, eqF] at h
  | _ :: _, [], h => by simp [eqCI, eqF] at h

open Op2.Path in
/-- path equality contains case-insensitive string equality -/
theorem C19_pathEq_contains_eqCI (a b : Bytes) (h : eqCI a b = true) : pathsAreEqual a b = true := by
  simp only [pathsAreEqual, beq_iff_eq]
  rw [eqCI_imp_toUpper_eq a b h]

/-! ## (4) the power-of-two test is exact for all 2^32 inputs, the logarithm for all 32 powers -/

theorem C19_isPow2_exact (v : Nat) (hv : v < W32) : Bits.isPow2 v = true ↔ ∃ k, k < 32 ∧ v = 2 ^ k := by
  unfold Bits.isPow2
  by_cases h0 : v = 0
  · subst h0
    simp
    intro k _ h
    have : 0 < 2 ^ k := Nat.pos_of_ne_zero (by simp)
    omega
  · have e : u32 (W32 + v - 1) = v - 1 := by unfold u32 W32 at *; omega
    rw [e]
    have hb : (v != 0) = true := by simpa using h0
    rw [hb, Bool.true_and, beq_iff_eq]
    constructor
    · intro h
      obtain ⟨k, hk⟩ := (Nat.ne_zero_and_sub_one_eq_zero_iff_isPowerOfTwo (n := v)).mp ⟨h0, h⟩
      refine ⟨k, ?_, hk⟩
      rcases Nat.lt_or_ge k 32 with hlt | hge
      · exact hlt
      · have : 2 ^ 32 ≤ 2 ^ k := Nat.pow_le_pow_right (by omega) hge
        unfold W32 at hv; omega
    · rintro ⟨k, _, hk⟩
      exact ((Nat.ne_zero_and_sub_one_eq_zero_iff_isPowerOfTwo (n := v)).mpr ⟨k, hk⟩).2

theorem C19_log2_exact : ∀ k, k < 32 → Bits.log2OfPow2 (2 ^ k) = k := by decide

/-! ## bridging lemmas: the formulas translated from the current C++ are the model's -/

open Op2.Gen.Formulas in
theorem gen_Log2OfPowerOf2_powers : gen_Log2OfPowerOf2_translated = true →
    ∀ k : Nat, k < 32 → gen_Log2OfPowerOf2 ((2 : Int) ^ k) = k := by decide

open Op2.Gen.Formulas in
/-- the translated `IsPowerOf2` accepts the 32 powers of two … -/
theorem gen_IsPowerOf2_powers : gen_IsPowerOf2_translated = true →
    ∀ k : Nat, k < 32 → gen_IsPowerOf2 ((2 : Int) ^ k) = 1 := by decide

open Op2.Gen.Formulas Op2.GenTactics in
/-- … and agrees with the model on every 32-bit value -/
theorem gen_IsPowerOf2_eq (v : Nat) (hv : v < W32) : gen_IsPowerOf2_translated = true →
    gen_IsPowerOf2 (v : Int) = if Bits.isPow2 v then 1 else 0 := by
  gen_guard =>
  unfold gen_IsPowerOf2 Bits.isPow2 castU
  by_cases h0 : v = 0
  · subst h0; simp
  · have e1 : ((v : Int) - (1 : Int) % 2 ^ 32) % 2 ^ 32 = ((v - 1 : Nat) : Int) := by
      unfold W32 at hv; omega
    have e2 : u32 (W32 + v - 1) = v - 1 := by unfold u32 W32 at *; omega
    rw [e1, e2]
    have hv0 : (v : Int) ≠ 0 := by omega
    simp only [Int.toNat_natCast, hv0, ne_eq, not_false_eq_true, if_true]
    have hb : (v != 0) = true := by simpa using h0
    rw [hb, Bool.true_and]
    by_cases hz : v &&& (v - 1) = 0
    · first | (simp [hz]; done) | (simp [hz, h0]; done) | (simp_all; done) | (simp [hz, h0, hv0] <;> omega)
    · first | (simp [hz]; done) | (simp [hz, h0]; done) | (simp_all; done) | (simp [hz, h0, hv0] <;> omega)

/-! ## (5) path laws: leading `./`, join, split/re-join, extension replacement

Side conditions are stated on the bytes.  "relative" is `p.head? ≠ some sep` (`Op2.Path.Rel`), which is
exactly "no root component" (`Op2.Path.hasRootComponent_eq_false_iff`); a "plain name" is non-empty and
free of `/` (`Op2.Path.Plain`).  Lemmas live in `Op2Proofs.PathLemmas`…`PathLemmas6`. -/

open Op2.Path in
/-- (a) path equality ignores a leading `./` on *every* relative path (the empty path included) -/
theorem C19_pathEq_ignores_leading_dot_slash (p : Bytes) (hrel : p.head? ≠ some sep) :
    pathsAreEqual ([dot, sep] ++ p) p = true := pathsAreEqual_dotslash p hrel

open Op2.Path in
/-- (b) joining a relative directory (any relative string: empty, trailing or doubled slashes, `.`/`..`
    elements) with a plain name and taking the file name back returns that name -/
theorem C19_filename_of_join (d n : Bytes) (hd : d.head? ≠ some sep) (hn : n ≠ [] ∧ sep ∉ n) :
    ∃ r, xAppend d n = .ok r ∧ getFilename r = n :=
  ⟨_, xAppend_rel_plain d n hd hn, filename_joinT_snoc _ n (toks_append_plain d n hn)⟩

open Op2.Path in
/-- (c) splitting a relative path (trailing slash allowed, empty allowed) into directory and file name
    and re-joining succeeds and gives an equal path -/
theorem C19_split_rejoin (p : Bytes) (hrel : p.head? ≠ some sep) :
    ∃ r, xAppend (getDirectory p) (getFilename p) = .ok r ∧ pathsAreEqual r p = true := by
  have hpl := elems_rel_plain p hrel
  exact ⟨_, rejoin_rel p hrel,
    pathsAreEqual_of_elems_eq _ p (joinT_rel _ hpl) hrel (elems_joinT _ hpl)⟩

open Op2.Path in
/-- (d) replacing the extension of a separator-free name by an extension `e` (= `s` or `"." ++ s`, `s`
    non-empty and free of `.` and `/`) makes it match `e` in any letter case -/
theorem C19_change_extension_matches (f s e e' : Bytes) (hf : sep ∉ f)
    (hs : s ≠ [] ∧ dot ∉ s ∧ sep ∉ s) (he : e = s ∨ e = dot :: s) (hcase : eqCI e e' = true) :
    extensionMatches (changeFileExtension f e) e' = true :=
  chext_matches f e e' hf ((isExt_iff e).mpr ⟨s, hs.1, hs.2.1, hs.2.2, he⟩)
    (eqCI_imp_toUpper_eq e e' hcase).symm

open Op2.Path in
/-- (d) with "case variant" read as equal upper-casings -/
theorem C19_change_extension_matches_upper (f e e' : Bytes) (hf : sep ∉ f) (he : IsExt e)
    (hcase : toUpper e' = toUpper e) : extensionMatches (changeFileExtension f e) e' = true :=
  chext_matches f e e' hf he hcase

open Op2.Path in
/-- the side condition of (a)–(c) in the library's own terms: a path has no root component
    (`XFile::HasRootComponent` is false) exactly when it does not start with a separator -/
theorem C19_relative_iff_no_root_component (p : Bytes) :
    hasRootComponent p = false ↔ p.head? ≠ some sep := hasRootComponent_eq_false_iff p

open Op2.Path in
/-- (a) is sharp: a leading `./` is ignored on relative paths and on no other path -/
theorem C19_pathEq_leading_dot_slash_iff (p : Bytes) :
    pathsAreEqual ([dot, sep] ++ p) p = true ↔ p.head? ≠ some sep := pathsAreEqual_dotslash_iff p

open Op2.Path in
/-- (b) with the directory's side condition phrased through `HasRootComponent` -/
theorem C19_filename_of_join_no_root (d n : Bytes) (hd : hasRootComponent d = false)
    (hn : n ≠ [] ∧ sep ∉ n) : ∃ r, xAppend d n = .ok r ∧ getFilename r = n :=
  C19_filename_of_join d n ((hasRootComponent_eq_false_iff d).mp hd) hn

open Op2.Path in
/-- (c) with the side condition phrased through `HasRootComponent` -/
theorem C19_split_rejoin_no_root (p : Bytes) (hp : hasRootComponent p = false) :
    ∃ r, xAppend (getDirectory p) (getFilename p) = .ok r ∧ pathsAreEqual r p = true :=
  C19_split_rejoin p ((hasRootComponent_eq_false_iff p).mp hp)

open Op2.Path in
/-- (d) for *every* path `f` — with directories, root name, trailing slash, empty: whatever precedes it,
    the replaced extension is matched in any letter case -/
theorem C19_change_extension_matches_every_path (f s e e' : Bytes)
    (hs : s ≠ [] ∧ dot ∉ s ∧ sep ∉ s) (he : e = s ∨ e = dot :: s) (hcase : eqCI e e' = true) :
    extensionMatches (changeFileExtension f e) e' = true :=
  chext_matches_any f e e' ((isExt_iff e).mpr ⟨s, hs.1, hs.2.1, hs.2.2, he⟩)
    (eqCI_imp_toUpper_eq e e' hcase).symm

open Op2.Path in
/-- what `ChangeFileExtension` then reports as the extension: `"." ++ s` -/
theorem C19_extension_after_change (f s e : Bytes)
    (hs : s ≠ [] ∧ dot ∉ s ∧ sep ∉ s) (he : e = s ∨ e = dot :: s) :
    getFileExtension (changeFileExtension f e) = dot :: s := by
  have hx := (isExt_iff e).mpr ⟨s, hs.1, hs.2.1, hs.2.2, he⟩
  have := extension_replaceExtension_any f e hx
  have hb : extBody e = s := by
    rcases he with rfl | rfl
    · cases e with
      | nil => exact absurd rfl hs.1
      | cons c r =>
        have hc : c ≠ dot := by intro h; apply hs.2.1; simp [h]
        simp [extBody, hc]
    · simp [extBody]
  rw [hb] at this
  exact this

/-! ### the unrestricted statements of (b) and (c) are false (of the model and of the library alike:
`path.fnappend 2f2f 62` answers `//b`, `path.rejoin 2f` answers `err` on both sides) -/

open Op2.Path in
/-- (b) without "relative": every directory `d` -/
def C19_filename_of_join_full : Prop :=
  ∀ d n : Bytes, n ≠ [] ∧ sep ∉ n → ∃ r, xAppend d n = .ok r ∧ getFilename r = n

open Op2.Path in
/-- `"//"` joined with `"b"` is the root name `"//b"`, whose file name is `"//b"` -/
theorem C19_filename_of_join_full_fails : ¬ C19_filename_of_join_full := by
  intro h
  obtain ⟨r, h1, h2⟩ := h [sep, sep] [98] (by decide)
  have e : xAppend [sep, sep] [98] = .ok [sep, sep, 98] := rfl
  rw [e] at h1
  cases h1
  revert h2; decide

open Op2.Path in
/-- (c) without "relative": every path `p` -/
def C19_split_rejoin_full : Prop :=
  ∀ p : Bytes, ∃ r, xAppend (getDirectory p) (getFilename p) = .ok r ∧ pathsAreEqual r p = true

open Op2.Path in
/-- the file name of `"/"` is `"/"`, which `Append` refuses as a second argument -/
theorem C19_split_rejoin_full_fails : ¬ C19_split_rejoin_full := by
  intro h
  obtain ⟨r, h1, _⟩ := h [sep]
  have e : xAppend (getDirectory [sep]) (getFilename [sep]) = .error .refused := rfl
  rw [e] at h1
  cases h1

/-! ### non-vacuity and sharpness of the side conditions ("a" = 97, "B" = 66, "x" = 120) -/

open Op2.Path in
/-- hypotheses of (a)–(d) are satisfiable: `"d/a"`, (`"d/"`, `"a.b"`), `"d//a/"`, (`"a.b"`, `".x"`, `".X"`) -/
example : ([100, sep, 97] : Bytes).head? ≠ some sep
    ∧ (([100, sep] : Bytes).head? ≠ some sep ∧ ([97, dot, 66] : Bytes) ≠ [] ∧ sep ∉ ([97, dot, 66] : Bytes))
    ∧ ([100, sep, sep, 97, sep] : Bytes).head? ≠ some sep
    ∧ (sep ∉ ([97, dot, 66] : Bytes) ∧ IsExt [dot, 120] ∧ eqCI [dot, 120] [dot, 88] = true) := by decide

open Op2.Path in
/-- the conclusions on these points, computed: `./d/a` = `d/a`; `"./"` = `""` -/
example : pathsAreEqual [dot, sep, 100, sep, 97] [100, sep, 97] = true
    ∧ pathsAreEqual [dot, sep] [] = true
    ∧ (xAppend [100, sep] [97, dot, 66]).toOption.map getFilename = some [97, dot, 66]
    ∧ extensionMatches (changeFileExtension [97, dot, 66] [dot, 120]) [dot, 88] = true := by decide

open Op2.Path in
/-- sharpness: (a) fails on `"/a"`; (b) fails for the empty name; (c) re-joining `"/"` is refused;
    (d) fails for `e = "x.y"` (the new extension is `.y`) -/
example : pathsAreEqual ([dot, sep] ++ [sep, 97]) [sep, 97] = false
    ∧ (xAppend [97] []).toOption.map getFilename = some [97]
    ∧ (xAppend (getDirectory [sep]) (getFilename [sep])).toOption = none
    ∧ extensionMatches (changeFileExtension [97] [120, dot, 121]) [120, dot, 121] = false := by decide

end Op2.Props.C19
