import Op2Proofs.Prt.WriteFacts
import Op2Model.Gen.Layout
/-!
# C20 (PRT part) — a frame whose layer list disagrees with its 7-bit count is refused by the writer
-/
namespace Op2.Prt
open Op2

/-- any frame, anywhere in the file, whose recorded count differs from the number of layers makes `Write` fail:
    nothing (in particular no truncated or wrapped count) is returned -/
theorem C20_layer_count_refused (a : ArtFile) (an : Animation) (f : Frame) (han : an ∈ a.animations) (hf : f ∈ an.frames)
    (h : f.layerMeta.count ≠ f.layers.length) : ∃ e, write a = .error e := by
  cases hw : write a with
  | error e => exact ⟨e, rfl⟩
  | ok w => exact absurd ((write_ok hw).2.1 an han f hf) h

/-- in particular a list that is longer by a multiple of 128 (the count it would wrap to) is refused -/
theorem C20_layer_count_no_wrap (a : ArtFile) (an : Animation) (f : Frame) (han : an ∈ a.animations) (hf : f ∈ an.frames)
    (hc : f.layerMeta.count < 128) (h : f.layers.length ≥ 128) : ∃ e, write a = .error e :=
  C20_layer_count_refused a an f han hf (by omega)

/-- converse (non-vacuity): a well-formed structure is written, and the first byte of each frame carries exactly the
    count (below 128) in its low seven bits and the optional-data flag in the top bit -/
theorem C20_layer_count_accepted (a : ArtFile) (hr : a.Rep) (hrules : rules a) : write a = .ok (encFile a) := write_of hr hrules

theorem C20_frame_byte (f : Frame) (hc : f.layerMeta.count < 128) :
    ∃ tail, encFrame f = UInt8.ofNat (f.layerMeta.count + 128 * f.layerMeta.flag.toNat) :: tail ∧
      (UInt8.ofNat (f.layerMeta.count + 128 * f.layerMeta.flag.toNat)).toNat % 128 = f.layerMeta.count := by
  refine ⟨_, rfl, ?_⟩
  rw [UInt8.toNat_ofNat']
  cases f.layerMeta.flag <;> simp <;> omega

/-! bridging: the count is the low 7 bits of the one-byte `LayerMetadata`, the flag its top bit (measured) -/
theorem C20_gen_layerMetadata : Gen.Layout.size_LayerMetadata = 1 ∧ Gen.Layout.mask_LayerMetadata_count = 127 ∧
    Gen.Layout.mask_LayerMetadata_bReadOptionalData = 128 := by decide

set_option maxRecDepth 16384 in
theorem C20_gen_metaOfByte : ∀ m < 256, metaOfByte m =
    ⟨m &&& Gen.Layout.mask_LayerMetadata_count, (m &&& Gen.Layout.mask_LayerMetadata_bReadOptionalData) != 0⟩ := by decide

set_option maxRecDepth 16384 in
theorem C20_gen_metaToByte : ∀ c < 128, ∀ fl : Bool, metaToByte ⟨c, fl⟩ =
    c ||| (if fl then Gen.Layout.mask_LayerMetadata_bReadOptionalData else 0) := by decide

/-- 127 layers with count 127 are written; 128 layers cannot be (no 7-bit count equals 128) -/
def frameN (n c : Nat) : Frame := ⟨⟨c, false⟩, ⟨0, false⟩, 0, 0, 0, 0, List.replicate n ⟨0, 0, 0, 0, 0⟩⟩
def fileN (n c : Nat) : ArtFile := ⟨[], [], [⟨0, 0, 0, 0, 0, 0, 0, 0, [frameN n c], []⟩], 0⟩

theorem C20_limit_127_written : write (fileN 127 127) = .ok (encFile (fileN 127 127)) := by
  apply write_of
  · refine ⟨by decide, by decide, by simp [fileN], by decide, by decide, by simp [fileN], by decide, by decide, ?_,
      by simp [fileN, totalFrames, W32], by simp [fileN, totalLayers, frameLayers, frameN, W32], by decide⟩
    intro an han
    simp [fileN] at han; subst han
    refine ⟨by decide, by decide, by decide, by decide, by decide, by decide, by decide, by decide, by decide, by decide, ?_, by decide, by decide, by simp⟩
    intro f hf; simp at hf; subst hf
    refine ⟨by simp [frameN, LayerMeta.Rep], by simp [frameN, LayerMeta.Rep], by decide, by decide, by decide, by decide,
      by simp [frameN], by simp [frameN], ?_⟩
    intro l hl; simp [frameN] at hl; rw [hl]; simp [Layer.Rep]
  · refine ⟨by simp [fileN], ?_⟩
    intro an han f hf
    simp [fileN] at han; subst han; simp at hf; subst hf; simp [frameN]

example : ∀ c < 128, ∃ e, write (fileN 128 c) = .error e := by
  intro c hc
  exact C20_layer_count_no_wrap (fileN 128 c) ⟨0, 0, 0, 0, 0, 0, 0, 0, [frameN 128 c], []⟩ (frameN 128 c) (by simp [fileN]) (by simp) hc
    (by simp [frameN])

end Op2.Prt
