import Op2Model.Vol
import Op2Proofs.GenGuards
/-!
# C01 / C20 (VOL) — the refusal conditions of `VolFile::PrepareHeader` and `VolFile::ReadVolHeader`, as regenerated from
the current C++ (`Op2Model/Gen/Guards.lean`), are those of the model (`Vol.prepLoop`, the index-table test of `Vol.plan`,
`Vol.offLoop`; the five header tests of `Vol.openWith`) for ALL values of the C++ types.

Ranges: a file length and `std::string::size()` are `size_t` (the lemma asks `< 2^63`, `fileCount() < 2^60`: the 64-bit
sums of the guards then cannot wrap — a vector of 2^60 strings does not exist), `stringTableLength`, `dataBlockOffset`
and the four section lengths are `uint32_t`, the previous member's `fileSize` is an `int32_t` that passed the first guard.
-/
set_option linter.unusedSimpArgs false
set_option linter.unusedVariables false
namespace Op2.Props.C01Gen
open Op2 Op2.Vol Op2.Gen.Guards Op2.GenTactics Op2.GenGuards

/-! ## the model's refusals, read off the model functions -/
theorem prepLoop_one_refused (f : InFile) (stl : Nat) :
    refused (prepLoop [f] stl) = decide (f.content.len > int32Max ∨ stl + (nameOf f).length + 1 > uint32Max) := by
  simp only [prepLoop]
  by_cases h1 : f.content.len > int32Max
  · simp [h1]
  · by_cases h2 : stl + (nameOf f).length + 1 > uint32Max
    · simp [h1, h2]
    · simp [h1, h2]

theorem offLoop_one_refused (po ps : Nat) (e : Entry) :
    refused (offLoop po ps [e]) = decide (mask64 (u64 (po + ps + blockPad)) > uint32Max) := by
  simp only [offLoop]
  by_cases h1 : mask64 (u64 (po + ps + blockPad)) > uint32Max
  · simp [h1]
  · simp [h1]

/-- `PrepareHeader`: member size (`> INT32_MAX`), name table (`> UINT32_MAX`, 64-bit sum), index table
    (`count * sizeof(IndexEntry) > UINT32_MAX`), next block offset (`(prev.offset + prev.size + 11) & ~3 > UINT32_MAX` in 64 bits) -/
theorem C01_gen_prepareHeader_refuses : VolFile_PrepareHeader_guards_translated = true →
    ∀ (f : InFile) (stl n po ps cnt : Nat) (e : Entry),
      f.content.len < 2 ^ 63 → stl < W32 → (nameOf f).length < 2 ^ 63 → n < 2 ^ 60 → po < W32 → ps ≤ int32Max → cnt < W64 →
      VolFile_PrepareHeader_refuses f.content.len stl (nameOf f).length n po ps cnt =
        (refused (prepLoop [f] stl) || decide (n * entrySize > uint32Max) || refused (offLoop po ps [e])) := by
  gen_guard =>
    intro f stl n po ps cnt e h1 h2 h3 h4 h5 h6 h7
    rw [prepLoop_one_refused, offLoop_one_refused]
    generalize f.content.len = len at *
    generalize (nameOf f).length = nl at *
    unfold VolFile_PrepareHeader_refuses
    guard_beq
    simp only [int32Max, uint32Max, entrySize, blockPad, mask64, u64, W32, W64, Op2.Gen.Layout.size_VolIndexEntry] at *
    guard_norm
    rw [and_mask64 _ (by omega)]
    repeat rw [and_mask64 _ (by omega)]
    -- no-wrap facts about the model-side quantities (omega's elimination is inexact on `14 * n` otherwise)
    have e1 : ((n : Int) * 14) / 18446744073709551616 = 0 := by omega
    have e1' : (14 * (n : Int)) / 18446744073709551616 = 0 := by omega
    have e2 : ((po + ps + 11 : Nat) : Int) / 18446744073709551616 = 0 := by omega
    omega

/-- `ReadVolHeader`: the five tests on the file length and the section lengths (`ReadTag` results) -/
theorem C01_gen_readVolHeader_refuses : VolFile_ReadVolHeader_guards_translated = true →
    ∀ (L hl vh sl il : Nat), L < 2 ^ 63 → hl < W32 → vh < W32 → sl < W32 → il < W32 →
      (VolFile_ReadVolHeader_refuses L hl vh sl il = true ↔
        (L < secSize ∨ L < hl + secSize ∨ vh ≠ 0 ∨ hl < sl + secSize * 2 + 4 ∨ hl < u32 (sl + il + headerExtra))) := by
  gen_guard =>
    intro L hl vh sl il h1 h2 h3 h4 h5
    unfold VolFile_ReadVolHeader_refuses
    guard_iff
    simp only [secSize, headerExtra, u32, W32, W64, Op2.Gen.Layout.size_VolSectionHeader] at *
    guard_norm
    omega

/-! ## `ReadVolHeader` against the model function `Vol.openWith` -/
theorem readTag_lt (file : Bytes) (p : Nat) (tag : Bytes) (n : Nat) (h : readTag file p tag = .ok n) : n < W32 := by
  unfold readTag at h
  split at h
  · cases h
  split at h
  · cases h
  split at h
  · cases h
  simp only [Except.ok.injEq] at h
  have : decU32 (List.drop 4 ‹Bytes›) % padFlag < padFlag := Nat.mod_lt _ (by decide)
  simp only [padFlag, W32] at *
  omega

/-- the model function performs the five tests: a file that `Vol.openWith` accepts passed them, on the section lengths the
    model read with `readTag` -/
theorem openWith_ok_tests (cfg : Cfg) (file : Bytes) (v : View) (h : openWith cfg file = .ok v) :
    ∃ hl sl il p, readTag file 0 tagVOL = .ok hl ∧ readTag file 8 tagVOLH = .ok 0 ∧ readTag file 16 tagVOLS = .ok sl ∧
      readTag file p tagVOLI = .ok il ∧
      ¬ (file.length < secSize ∨ file.length < hl + secSize ∨ (0 : Nat) ≠ 0 ∨ hl < sl + secSize * 2 + 4 ∨ hl < u32 (sl + il + headerExtra)) := by
  unfold openWith at h
  split at h
  · cases h
  split at h
  · cases h
  rename_i hl e1
  split at h
  · cases h
  split at h
  · cases h
  rename_i vh e2
  split at h
  · cases h
  split at h
  · cases h
  rename_i sl e3
  split at h
  · cases h
  split at h
  · cases h
  rename_i a e4
  simp only at h
  split at h
  · cases h
  split at h
  · cases h
  rename_i chars e5
  split at h
  · cases h
  rename_i il e6
  split at h
  · cases h
  rename_i entries e7
  split at h
  · cases h
  have hv : vh = 0 := Decidable.of_not_not ‹¬vh ≠ 0›
  subst hv
  refine ⟨hl, sl, il, _, e1, e2, e3, e6, ?_⟩
  rintro (g | g | g | g | g) <;> contradiction

/-- tie to the model FUNCTION: whatever `Vol.openWith` accepts, the regenerated `ReadVolHeader` does not refuse (on the file
    length and the section lengths the model read) — i.e. every regenerated guard is one the model applies -/
theorem C01_gen_open_accepted_not_refused : VolFile_ReadVolHeader_guards_translated = true →
    ∀ (cfg : Cfg) (file : Bytes) (v : View), file.length < 2 ^ 63 → openWith cfg file = .ok v →
      ∃ hl sl il p, readTag file 0 tagVOL = .ok hl ∧ readTag file 8 tagVOLH = .ok 0 ∧ readTag file 16 tagVOLS = .ok sl ∧
        readTag file p tagVOLI = .ok il ∧ VolFile_ReadVolHeader_refuses file.length hl 0 sl il = false := by
  gen_guard_h ht =>
    intro cfg file v hL h
    obtain ⟨hl, sl, il, p, e1, e2, e3, e4, hn⟩ := openWith_ok_tests cfg file v h
    refine ⟨hl, sl, il, p, e1, e2, e3, e4, ?_⟩
    cases hr : VolFile_ReadVolHeader_refuses file.length hl 0 sl il with
    | false => rfl
    | true =>
      exact absurd ((C01_gen_readVolHeader_refuses ht file.length hl 0 sl il hL (readTag_lt _ _ _ _ e1) (by decide)
        (readTag_lt _ _ _ _ e3) (readTag_lt _ _ _ _ e4)).mp hr) hn

end Op2.Props.C01Gen
