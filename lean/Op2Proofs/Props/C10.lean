import Op2Proofs.Prt.ReadFacts
import Op2Proofs.Prt.WriteFacts
import Op2Proofs.Prt.RoundTrip
import Op2Proofs.Prt.Bytes
import Op2Proofs.Prt.SpecEq
/-!
# C10 — PRT sprite metadata round-trips and always satisfies its cross-field rules
-/
namespace Op2.Prt
open Op2 Op2.Parser Op2.Parser.PrtInv

/-- every accepted byte string yields a structure satisfying the cross-field rules — stated in ℕ: the scan-line width is
    the image width rounded up to four *without* 32-bit wrap, each palette index names an existing palette, each
    frame's 7-bit count is the number of its layers -/
theorem C10_read_rules (b : Bytes) (a : ArtFile) (h : read b = .ok a) : rules a := by
  obtain ⟨hs, rest, hr⟩ := read_eq_ok h
  exact (post_readFull _ _ _ hr).2.1

/-- … and is representable (every field within its C++ type, every palette 256 colours, optional bytes zero unless
    their flag is set) -/
theorem C10_read_rep (b : Bytes) (a : ArtFile) (h : read b = .ok a) : a.Rep := by
  obtain ⟨hs, rest, hr⟩ := read_eq_ok h
  exact (post_readFull _ _ _ hr).1

/-- structures violating the cross-field rules are refused by the writer -/
theorem C10_writer_refuses (a : ArtFile) (hr : a.Rep) (h : ¬ rules a) : ∃ e, write a = .error e := by
  cases hw : write a with
  | error e => exact ⟨e, rfl⟩
  | ok w => exact absurd (write_rules hr hw) h

/-- write → read yields an equal structure: the structure just read is always written (never refused), and reading
    the written bytes returns it again, consuming all of them -/
theorem C10_rt (b : Bytes) (a : ArtFile) (h : read b = .ok a) :
    ∃ w, write a = .ok w ∧ read w = .ok a ∧ consumed w = w.length := by
  have hr := C10_read_rep b a h
  have hrules := C10_read_rules b a h
  exact ⟨encFile a, write_of hr hrules, (read_write a hr hrules).1, (read_write a hr hrules).2⟩

/-- the same for every well-formed structure, however it was obtained -/
theorem C10_rt_wf (a : ArtFile) (h : Spec.WF a) : ∃ w, write a = .ok w ∧ read w = .ok a :=
  ⟨encFile a, write_of h.1 h.2, (read_write a h.1 h.2).1⟩

/-- writing is byte-stable: read, write, read again, write again — the second output is identical to the first -/
theorem C10_stable (b : Bytes) (a : ArtFile) (h : read b = .ok a) (w : Bytes) (hw : write a = .ok w)
    (a' : ArtFile) (h' : read w = .ok a') : write a' = .ok w := by
  obtain ⟨w0, hw0, hr0, _⟩ := C10_rt b a h
  rw [hw] at hw0
  have : w = w0 := by simpa using hw0
  subst this
  rw [hr0] at h'
  have : a = a' := by simpa using h'
  subst this
  exact hw

/-- every accepted input is, byte for byte, the encoding of the returned structure (with the palette headers `hs` the
    input had) followed by the untouched rest, where
    `encFileH hs a = "CPAL" ++ u32 |palettes| ++ (hs zip palettes).flatMap (h ++ encPalette p) ++ u32 |images| ++
     images.flatMap encImage ++ u32 |animations| ++ u32 (total frames) ++ u32 (total layers) ++ u32 unknownAnimationCount ++
     animations.flatMap encAnim`.
    In particular the palette / image / animation counts and the frame and layer totals stored in the input equal the
    actual contents of the structure. -/
theorem C10_read_layout (b : Bytes) (hs : List Bytes) (a : ArtFile) (rest : Bytes) (h : readFull b = .ok ((hs, a), rest)) :
    b = encFileH hs a ++ rest := by
  have := inv_readFull _ _ _ h
  exact this

/-- the palette count sits at offset 4, every palette has 256 colours, the totals fit their 32-bit fields -/
theorem C10_read_totals (b : Bytes) (a : ArtFile) (h : read b = .ok a) :
    decU32 (b.drop 4) = a.palettes.length ∧
    (∀ p ∈ a.palettes, p.length = 256) ∧
    totalFrames a.animations < W32 ∧ totalLayers a.animations < W32 := by
  obtain ⟨hs, rest, hr⟩ := read_eq_ok h
  have hp := post_readFull _ _ _ hr
  refine ⟨?_, hp.1.2.2.1, hp.1.2.2.2.2.2.2.2.2.2.1, hp.1.2.2.2.2.2.2.2.2.2.2.1⟩
  rw [(readFull_headers hr).1]; exact hp.2.2.1

/-- palettes are red-green-blue(-alpha) fields in memory and blue-green-red(-alpha) bytes in the file: the accepted
    input consists of the `CPAL` header, then per palette its 28 header bytes and, for each of its colours in order, the
    four bytes blue, green, red, alpha; then the rest of the file -/
theorem C10_palette_order (b : Bytes) (hs : List Bytes) (a : ArtFile) (rest : Bytes) (h : readFull b = .ok ((hs, a), rest)) :
    (∃ tail, b = tagCPAL ++ encU32 a.palettes.length ++
      (hs.zip a.palettes).flatMap (fun hp => hp.1 ++ hp.2.flatMap (fun c => [c.blue, c.green, c.red, c.alpha])) ++ tail) ∧
      hs.length = a.palettes.length ∧ (∀ h ∈ hs, h.length = 28) ∧ (∀ p ∈ a.palettes, p.length = 256) := by
  have hp := post_readFull _ _ _ h
  refine ⟨?_, hp.2.2.1, fun x hx => (hp.2.2.2 x hx).1, hp.1.2.2.1⟩
  obtain ⟨tail, ht⟩ := encFileH_palettes hs a
  exact ⟨tail ++ rest, by rw [C10_read_layout b hs a rest h, ht]; simp only [List.append_assoc]⟩

/-- … and the writer emits the same order after the canonical header -/
theorem C10_palette_order_write (a : ArtFile) (w : Bytes) (h : write a = .ok w) :
    ∃ tail, w = tagCPAL ++ encU32 a.palettes.length ++
      a.palettes.flatMap (fun p => canonicalPaletteHeader ++ p.flatMap (fun c => [c.blue, c.green, c.red, c.alpha])) ++ tail := by
  obtain ⟨_, _, rfl⟩ := write_ok h
  exact encFile_palettes a

/-- whenever the input's palette section headers are canonical, writing reproduces the input bytes (the consumed part;
    the reader does not look at what follows) -/
theorem C10_bytes (b : Bytes) (a : ArtFile) (h : read b = .ok a) (hc : canonicalPaletteHeaders b) :
    write a = .ok (b.take (consumed b)) := by
  obtain ⟨hs, rest, hr⟩ := read_eq_ok h
  have hp := post_readFull _ _ _ hr
  obtain ⟨hnp, hat⟩ := readFull_headers hr
  have hcan : ∀ x ∈ hs, x = canonicalPaletteHeader := by
    intro x hx
    obtain ⟨i, hi, rfl⟩ := List.getElem_of_mem hx
    rw [← hat i hi]; exact hc i (by rw [hnp]; exact hi)
  have hb := C10_read_layout b hs a rest hr
  rw [encFileH_of_canonical hs a hp.2.2.1 hcan] at hb
  have hcons : consumed b = (encFile a).length := by
    unfold consumed; rw [hr]; simp only; rw [hb]; simp
  rw [write_of hp.1 hp.2.1, hcons, hb]
  simp

/-- and for every accepted input, canonical headers or not, the written bytes are those of the input with each palette
    header replaced by the canonical one -/
theorem C10_bytes_general (b : Bytes) (hs : List Bytes) (a : ArtFile) (rest : Bytes) (h : readFull b = .ok ((hs, a), rest)) :
    b = encFileH hs a ++ rest ∧ write a = .ok (encFileH (a.palettes.map fun _ => canonicalPaletteHeader) a) := by
  have hp := post_readFull _ _ _ h
  refine ⟨C10_read_layout b hs a rest h, ?_⟩
  rw [write_of hp.1 hp.2.1, encFileH_of_canonical _ a (by simp) (by intro x hx; simp at hx; exact hx.2.symm)]

/- "Writing never alters the in-memory object": `write : ArtFile → Except Err Bytes` is a function; its argument is a value,
   not a reference, so the clause has no content in the model.  It is checked on the real object (structural dump before
   = after `Write`, also after a refused `Write`) by the correspondence run only. -/

/-- against the frozen, independently written format description: a well-formed structure is written as exactly
    `Spec.encode`, and the reader accepts every spec-encoded file and returns the structure -/
theorem C10_spec (a : ArtFile) (h : Spec.WF a) : write a = .ok (Spec.encode a) ∧ read (Spec.encode a) = .ok a := by
  rw [spec_encode a h.1]
  exact ⟨write_of h.1 h.2, (read_write a h.1 h.2).1⟩

/-- the rules are stated in ℕ: for a 32-bit width the 64-bit machine formula of `ValidateImageMetadata` is the true
    round-up, and no 32-bit scan-line width equals the round-up of a width above 2^32 − 4 (the wrap behind D23) -/
theorem C10_roundup_exact (w : Nat) (hw : w < W32) : u64 (w + 3) / 4 * 4 = roundUp4 w ∧ (w > 4294967292 → ∀ s < W32, s ≠ roundUp4 w) := by
  unfold u64 W64 roundUp4; unfold W32 at *
  exact ⟨by omega, fun h s hs => by omega⟩

/-! ## bridging lemmas: generated layout facts the model relies on -/
theorem C10_gen_sizes : Gen.Layout.size_SectionHeader = 8 ∧ Gen.Layout.size_PaletteHeader = 28 ∧ Gen.Layout.size_Palette8Bit = 1024 ∧
    Gen.Layout.size_Color = 4 ∧ Gen.Layout.size_ImageMeta = 20 ∧ Gen.Layout.size_Layer = 8 ∧ Gen.Layout.size_LayerMetadata = 1 ∧
    Gen.Layout.size_UnknownContainer = 16 := by decide
theorem C10_gen_imageMeta_offsets : [Gen.Layout.off_ImageMeta_scanLineByteWidth, Gen.Layout.off_ImageMeta_pixelDataOffset,
    Gen.Layout.off_ImageMeta_height, Gen.Layout.off_ImageMeta_width, Gen.Layout.off_ImageMeta_type, Gen.Layout.off_ImageMeta_paletteIndex] =
    [0, 4, 8, 12, 16, 18] := by decide
theorem C10_gen_layer_offsets : [Gen.Layout.off_Layer_bitmapIndex, Gen.Layout.off_Layer_unknown, Gen.Layout.off_Layer_frameIndex,
    Gen.Layout.off_Layer_pixelOffset] = [0, 2, 3, 4] := by decide
theorem C10_gen_paletteHeader_offsets : [Gen.Layout.off_SectionHeader_length, Gen.Layout.off_PaletteHeader_sectionHeader,
    Gen.Layout.off_PaletteHeader_remainingTagCount, Gen.Layout.off_PaletteHeader_dataHeader] = [4, 8, 16, 20] := by decide
theorem C10_gen_color_order : [Gen.Layout.off_Color_red, Gen.Layout.off_Color_green, Gen.Layout.off_Color_blue, Gen.Layout.off_Color_alpha] =
    [0, 1, 2, 3] := by decide
/-- the header `PaletteHeader::CreatePaletteHeader()` builds in the current source is the model's canonical header, and it
    passes the reader's validation -/
theorem C10_gen_canonical_header : Gen.Layout.prt_canonicalPaletteHeader.map UInt8.ofNat = canonicalPaletteHeader ∧
    paletteHeaderOk canonicalPaletteHeader = true := by decide
theorem C10_gen_tag : Gen.Layout.prt_TagPalette.map UInt8.ofNat = tagCPAL := by decide
theorem C10_gen_frame_bits : Gen.Layout.mask_LayerMetadata_count = 127 ∧ Gen.Layout.mask_LayerMetadata_bReadOptionalData = 128 := by decide

/-! ## non-vacuity -/
/-- one animation with two frames (both flag combinations that carry optional bytes), an unknown-container entry -/
def exArt : ArtFile :=
  ⟨[], [], [⟨1, 2, 3, 4, 5, 6, 7, 8,
      [⟨⟨1, true⟩, ⟨5, false⟩, 9, 10, 0, 0, [⟨300, 1, 2, 65535, 4⟩]⟩, ⟨⟨0, false⟩, ⟨127, true⟩, 0, 0, 11, 12, []⟩],
      [⟨1, 2, 3, 4294967295⟩]⟩], 77⟩

def rtOk (a : ArtFile) : Bool :=
  match write a with
  | .ok w => (match read w with | .ok a' => decide (a' = a) && decide (consumed w = w.length) | .error _ => false)
  | .error _ => false

example : (write exArt).toOption.map List.length = some 100 := by decide
example : rtOk exArt = true := by decide
example : (write exArt).toOption = some (Spec.encode exArt) := by decide
example : canonicalPaletteHeaders (Spec.encode exArt) := by
  intro i hi
  have : decU32 ((Spec.encode exArt).drop 4) = 0 := by decide
  omega

/-- the same structure with a count of 2 over a single layer: refused -/
def exBad : ArtFile :=
  ⟨[], [], [⟨1, 2, 3, 4, 5, 6, 7, 8, [⟨⟨2, true⟩, ⟨5, false⟩, 9, 10, 0, 0, [⟨300, 1, 2, 65535, 4⟩]⟩], []⟩], 0⟩
example : (write exBad).toOption = none := by decide
/-- width 0xFFFFFFFE with scan line 0 (accepted by the 32-bit formula before the repair) violates the rules -/
example : ¬ rules ⟨[], [⟨0, 0, 0, 4294967294, 0, 0⟩], [], 0⟩ := by
  intro h
  have := (h.1 ⟨0, 0, 0, 4294967294, 0, 0⟩ (by simp)).1
  simp at this

end Op2.Prt
