import Op2Proofs.Prt.ReadFacts
import Op2Proofs.Prt.WriteFacts
import Op2Proofs.Prt.RoundTrip
/-!
# C10 — PRT sprite metadata round-trips and always satisfies its cross-field rules
-/
namespace Op2.Prt
open Op2 Op2.Parser

/-- every accepted byte string yields a structure satisfying the cross-field rules — stated in ℕ: the scan-line width is
    the image width rounded up to four *without* 32-bit wrap, each palette index names an existing palette, each
    frame's 7-bit count is the number of its layers -/
theorem C10_read_rules (b : Bytes) (a : ArtFile) (h : read b = .ok a) : rules a := by
  obtain ⟨hs, rest, hr⟩ := read_eq_ok h
  exact (post_readFull _ _ _ hr).2.1

/-- … and is representable (every field within its C++ type, every palette 256 colours, optional bytes zero unless
    their flag is set) -/
theorem C10_read_rep (b : Bytes) (a : ArtFile) (h : read b = .ok a) : a.Rep := by
  obtain ⟨hs, rest, hr⟩ := read_eq_ok h
  exact (post_readFull _ _ _ hr).1

/-- structures violating the cross-field rules are refused by the writer -/
theorem C10_writer_refuses (a : ArtFile) (hr : a.Rep) (h : ¬ rules a) : ∃ e, write a = .error e := by
  cases hw : write a with
  | error e => exact ⟨e, rfl⟩
  | ok w => exact absurd (write_rules hr hw) h

/-- write → read yields an equal structure: the structure just read is always written (never refused), and reading
    the written bytes returns it again, consuming all of them -/
theorem C10_rt (b : Bytes) (a : ArtFile) (h : read b = .ok a) :
    ∃ w, write a = .ok w ∧ read w = .ok a ∧ consumed w = w.length := by
  have hr := C10_read_rep b a h
  have hrules := C10_read_rules b a h
  exact ⟨encFile a, write_of hr hrules, (read_write a hr hrules).1, (read_write a hr hrules).2⟩

/-- the same for every well-formed structure, however it was obtained -/
theorem C10_rt_wf (a : ArtFile) (h : Spec.WF a) : ∃ w, write a = .ok w ∧ read w = .ok a :=
  ⟨encFile a, write_of h.1 h.2, (read_write a h.1 h.2).1⟩

/-- writing is byte-stable: read, write, read again, write again — the second output is identical to the first -/
theorem C10_stable (b : Bytes) (a : ArtFile) (h : read b = .ok a) (w : Bytes) (hw : write a = .ok w)
    (a' : ArtFile) (h' : read w = .ok a') : write a' = .ok w := by
  obtain ⟨w0, hw0, hr0, _⟩ := C10_rt b a h
  rw [hw] at hw0
  have : w = w0 := by simpa using hw0
  subst this
  rw [hr0] at h'
  have : a = a' := by simpa using h'
  subst this
  exact hw

/- "Writing never alters the in-memory object": `write : ArtFile → Except Err Bytes` is a function; its argument is a value,
   not a reference, so the clause has no content in the model.  It is checked on the real object (structural dump before
   = after `Write`, also after a refused `Write`) by the correspondence run only. -/

end Op2.Prt
