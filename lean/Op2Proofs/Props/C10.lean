import Op2Proofs.Prt.ReadFacts
import Op2Proofs.Prt.WriteFacts
/-!
# C10 — PRT sprite metadata round-trips and always satisfies its cross-field rules
-/
namespace Op2.Prt
open Op2 Op2.Parser

/-- every accepted byte string yields a structure satisfying the cross-field rules — stated in ℕ: the scan-line width is
    the image width rounded up to four *without* 32-bit wrap, each palette index names an existing palette, each
    frame's 7-bit count is the number of its layers -/
theorem C10_read_rules (b : Bytes) (a : ArtFile) (h : read b = .ok a) : rules a := by
  obtain ⟨hs, rest, hr⟩ := read_eq_ok h
  exact (post_readFull _ _ _ hr).2.1

/-- … and is representable (every field within its C++ type, every palette 256 colours, optional bytes zero unless
    their flag is set) -/
theorem C10_read_rep (b : Bytes) (a : ArtFile) (h : read b = .ok a) : a.Rep := by
  obtain ⟨hs, rest, hr⟩ := read_eq_ok h
  exact (post_readFull _ _ _ hr).1

/-- structures violating the cross-field rules are refused by the writer -/
theorem C10_writer_refuses (a : ArtFile) (hr : a.Rep) (h : ¬ rules a) : ∃ e, write a = .error e := by
  cases hw : write a with
  | error e => exact ⟨e, rfl⟩
  | ok w => exact absurd (write_rules hr hw) h

/- "Writing never alters the in-memory object": `write : ArtFile → Except Err Bytes` is a function; its argument is a value,
   not a reference, so the clause has no content in the model.  It is checked on the real object (structural dump before
   = after `Write`, also after a refused `Write`) by the correspondence run only. -/

end Op2.Prt
