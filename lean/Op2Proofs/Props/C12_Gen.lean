import Op2Proofs.GenBridge
/-!
# C12 — bridging lemmas: the guards and cursor updates of `MemoryReader` and `SliceReader<W>`, as translated from the
current C++ on this run (`Op2Model/Gen/Streams.lean`), are those of the hand-written models `MemR.*` / `Slice.*`
for which the refinement theorems of `C12.lean` are proved.

Arguments range over the whole of `[0, 2^64)`, so the wrap-around behaviour of a guard is part of what is compared; the
object is any state satisfying the class invariant the refinement theorems maintain (`pos ≤ length < 2^64`; for a slice
`start ≤ wrapped position ≤ start + length ≤ wrapped length < 2^64`), so a rewrite that is equivalent on reachable
states passes.
-/
set_option linter.unusedSimpArgs false
set_option linter.unusedVariables false
namespace Op2.Props.C12
open Op2 Op2.Stream Op2.GenBridge
open Op2.Gen.Streams

/-! ## MemoryReader -/

/-- `Seek`: same guard, same new position -/
theorem C12_gen_memr_seek : MemoryReader_Seek_translated = true →
    ∀ (s : MemR) (p : Nat), s.Inv → p < W64 →
      MemoryReader_Seek s.data.length s.pos p = okOr (fun s' : MemR => (s'.pos : Int)) (MemR.seek s p) := by
  gen_bridge =>
    intro s p hi hk
    obtain ⟨hi, hl⟩ := hi
    simp only [MemR.seek]
    split <;> simp only [okOr_ok, okOr_error] <;>
    simp only [MemoryReader_Seek, u64, W64] at * <;> gen_close

/-- `SeekForward`: same guard (both disjuncts, in 64-bit arithmetic), same new position -/
theorem C12_gen_memr_fwd : MemoryReader_SeekForward_translated = true →
    ∀ (s : MemR) (d : Nat), s.Inv → d < W64 →
      MemoryReader_SeekForward s.data.length s.pos d = okOr (fun s' : MemR => (s'.pos : Int)) (MemR.fwd s d) := by
  gen_bridge =>
    intro s d hi hk
    obtain ⟨hi, hl⟩ := hi
    simp only [MemR.fwd]
    split <;> simp only [okOr_ok, okOr_error] <;>
    simp only [MemoryReader_SeekForward, u64, W64] at * <;> gen_close

theorem C12_gen_memr_back : MemoryReader_SeekBackward_translated = true →
    ∀ (s : MemR) (d : Nat), s.Inv → d < W64 →
      MemoryReader_SeekBackward s.data.length s.pos d = okOr (fun s' : MemR => (s'.pos : Int)) (MemR.back s d) := by
  gen_bridge =>
    intro s d hi hk
    obtain ⟨hi, hl⟩ := hi
    simp only [MemR.back]
    split <;> simp only [okOr_ok, okOr_error] <;>
    simp only [MemoryReader_SeekBackward, u64, W64] at * <;> gen_close

/-- `ReadImplementation`: same guard; on success the new position, and the `memcpy` source offset and length are the
    model's `pos'`, `pos`, `k` — the model returns `s.window k = (data.drop pos).take k`, the bytes so addressed -/
theorem C12_gen_memr_read : MemoryReader_ReadImplementation_translated = true →
    ∀ (s : MemR) (k : Nat), s.Inv → k < W64 →
      MemoryReader_ReadImplementation s.data.length s.pos k =
        okOr (fun r : Bytes × MemR => ((r.2.pos : Int), (s.pos : Int), (k : Int))) (MemR.read s k) := by
  gen_bridge =>
    intro s k hi hk
    obtain ⟨hi, hl⟩ := hi
    simp only [MemR.read]
    split <;> simp only [okOr_ok, okOr_error] <;>
    simp only [MemoryReader_ReadImplementation, u64, W64] at * <;> gen_close

/-- `ReadPartial`: for the count `n` the model computes, the generated function moves the position to the same place,
    returns `n`, and copies `n` bytes from offset `pos` -/
theorem C12_gen_memr_readPartial : MemoryReader_ReadPartial_translated = true →
    ∀ (s : MemR) (k : Nat), s.Inv → k < W64 →
      ∃ n : Nat, MemR.readPartial s k = (s.window n, { s with pos := u64 (s.pos + n) }) ∧
        MemoryReader_ReadPartial s.data.length s.pos k = some (((u64 (s.pos + n) : Nat) : Int), (n : Int), (s.pos : Int), (n : Int)) := by
  gen_bridge =>
    intro s k hi hk
    obtain ⟨hi, hl⟩ := hi
    refine ⟨_, rfl, ?_⟩
    generalize hn : (if k < u64 (W64 + s.data.length - s.pos) then k else u64 (W64 + s.data.length - s.pos)) = n
    split at hn <;> simp only [MemoryReader_ReadPartial, u64, W64] at * <;> gen_close

/-- `Slice(start, length) const`: same guard; the new reader is built from `&streamBuffer[start]`, `length` — the
    model's `(data.drop start).take length` -/
theorem C12_gen_memr_slice2 : MemoryReader_Slice2_translated = true →
    ∀ (s : MemR) (a n : Nat), s.Inv → a < W64 → n < W64 →
      MemoryReader_Slice2 s.data.length s.pos a n = okOr (fun _ : MemR => ((a : Int), (n : Int))) (MemR.slice2 s a n) := by
  gen_bridge =>
    intro s a n hi ha hn
    obtain ⟨hi, hl⟩ := hi
    simp only [MemR.slice2]
    split <;> simp only [okOr_ok, okOr_error] <;>
    simp only [MemoryReader_Slice2, u64, W64] at * <;> gen_close

/-- `Slice(length)`: slice at the position, then advance; fails when either step fails -/
theorem C12_gen_memr_slice1 : (MemoryReader_Slice1_translated && MemoryReader_Slice2_translated &&
      MemoryReader_SeekForward_translated) = true →
    ∀ (s : MemR) (n : Nat), s.Inv → n < W64 →
      MemoryReader_Slice1 s.data.length s.pos n =
        okOr (fun r : MemR × MemR => ((r.2.pos : Int), (s.pos : Int), (n : Int))) (MemR.slice1 s n) := by
  gen_bridge h =>
    intro s n hi hn
    simp only [Bool.and_eq_true] at h
    have hp : s.pos < W64 := Nat.lt_of_le_of_lt hi.1 hi.2
    have h2 := C12_gen_memr_slice2 h.1.2 s s.pos n hi hp hn
    have hf := C12_gen_memr_fwd h.2 s n hi hn
    simp only [MemoryReader_Slice1, h2, hf, MemR.slice1]
    cases MemR.slice2 s s.pos n <;> cases MemR.fwd s n <;> simp only [okOr_ok, okOr_error, bind_none', bind_some']

/-! ## SliceReader<W>: reads and seeks

The model `Slice.read W s k` etc. is parametric in the wrapped stream.  Instantiated with the recording stream
`probeW` it shows its own guard (`error` or not) and the value it hands to the wrapped stream (`arg`), which is what
the generated definitions compute from `startingOffset`, `sliceLength`, `wrappedStream.Position()`. -/

/-- the slice `[start, start + len)` of a wrapped stream of length `wl` that stands at position `wp` -/
@[reducible] def probeSlice (wl start len wp : Nat) : Slice Probe := { w := { length := wl, position := wp }, start := start, len := len }

/-- the invariant of a slice (`sliceGood` of the refinement proof, for the recording stream) -/
def ProbeGood (wl start len wp : Nat) : Prop := start ≤ wp ∧ wp ≤ start + len ∧ start + len ≤ wl ∧ wl < W64

theorem C12_gen_slice_read : SliceReader_ReadImplementation_translated = true →
    ∀ (wl start len wp k : Nat), ProbeGood wl start len wp → k < W64 →
      SliceReader_ReadImplementation start len wp k =
        okOr (fun r : Bytes × Slice Probe => r.2.w.arg) (Slice.read probeW (probeSlice wl start len wp) k) := by
  gen_bridge =>
    intro wl start len wp k hg h4
    obtain ⟨g1, g2, g3, g4⟩ := hg
    simp only [Slice.read]
    split <;> simp only [Slice.position, probeW, probeSlice, okOr_ok, okOr_error] at * <;>
    simp only [SliceReader_ReadImplementation, u64, W64] at * <;> gen_close

theorem C12_gen_slice_readPartial : SliceReader_ReadPartial_translated = true →
    ∀ (wl start len wp k : Nat), ProbeGood wl start len wp → k < W64 →
      SliceReader_ReadPartial start len wp k = some (Slice.readPartial probeW (probeSlice wl start len wp) k).2.w.arg := by
  gen_bridge =>
    intro wl start len wp k hg h4
    obtain ⟨g1, g2, g3, g4⟩ := hg
    simp only [Slice.readPartial]
    split <;> simp only [Slice.position, probeW, probeSlice, SliceReader_ReadPartial, u64, W64] at * <;> gen_close

theorem C12_gen_slice_seek : SliceReader_Seek_translated = true →
    ∀ (wl start len wp p : Nat), ProbeGood wl start len wp → p < W64 →
      SliceReader_Seek start len wp p =
        okOr (fun r : Slice Probe => r.w.arg) (Slice.seek probeW (probeSlice wl start len wp) p) := by
  gen_bridge =>
    intro wl start len wp p hg h4
    obtain ⟨g1, g2, g3, g4⟩ := hg
    simp only [Slice.seek]
    split <;> simp only [Slice.position, probeW, probeSlice, okOr_ok, okOr_error] at * <;>
    simp only [SliceReader_Seek, u64, W64] at * <;> gen_close

theorem C12_gen_slice_fwd : SliceReader_SeekForward_translated = true →
    ∀ (wl start len wp d : Nat), ProbeGood wl start len wp → d < W64 →
      SliceReader_SeekForward start len wp d =
        okOr (fun r : Slice Probe => r.w.arg) (Slice.fwd probeW (probeSlice wl start len wp) d) := by
  gen_bridge =>
    intro wl start len wp d hg h4
    obtain ⟨g1, g2, g3, g4⟩ := hg
    simp only [Slice.fwd]
    split <;> simp only [Slice.position, probeW, probeSlice, okOr_ok, okOr_error] at * <;>
    simp only [SliceReader_SeekForward, u64, W64] at * <;> gen_close

theorem C12_gen_slice_back : SliceReader_SeekBackward_translated = true →
    ∀ (wl start len wp d : Nat), ProbeGood wl start len wp → d < W64 →
      SliceReader_SeekBackward start len wp d =
        okOr (fun r : Slice Probe => r.w.arg) (Slice.back probeW (probeSlice wl start len wp) d) := by
  gen_bridge =>
    intro wl start len wp d hg h4
    obtain ⟨g1, g2, g3, g4⟩ := hg
    simp only [Slice.back]
    split <;> simp only [Slice.position, probeW, probeSlice, okOr_ok, okOr_error] at * <;>
    simp only [SliceReader_SeekBackward, u64, W64] at * <;> gen_close

/-- `Position()` -/
theorem C12_gen_slice_position : SliceReader_Position_translated = true →
    ∀ (wl start len wp : Nat), ProbeGood wl start len wp →
      SliceReader_Position start len wp = some ((Slice.position probeW (probeSlice wl start len wp) : Nat) : Int) := by
  gen_bridge =>
    intro wl start len wp hg
    obtain ⟨g1, g2, g3, g4⟩ := hg
    simp only [Slice.position, probeW, probeSlice, SliceReader_Position, u64, W64] at *
    gen_close

end Op2.Props.C12
