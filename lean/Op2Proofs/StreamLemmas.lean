import Op2Model.Stream
namespace Op2.Stream
open Op2

theorem window_of_slice (data : Bytes) (start len p k : Nat) (h1 : p + k ≤ len) :
    (((data.drop start).take len).drop p).take k = (data.drop (start + p)).take k := by
  rw [List.drop_take, List.take_take, List.drop_drop]
  congr 1
  omega

/-! ### MemoryReader refines the abstract reader -/

theorem mem_refines (s : MemR) (h : s.Inv) (op : ROp) (ha : op.argOk) : MemR.step s op = RSpec.step s op := by
  obtain ⟨h1, h2⟩ := h
  unfold W64 at h2
  cases op <;> simp only [MemR.step, RSpec.step, ROp.argOk] at *
  case read k =>
    have e0 : u64 (W64 + s.data.length - s.pos) = s.data.length - s.pos := by unfold u64 W64; omega
    simp only [MemR.read, e0]
    by_cases c : k > s.data.length - s.pos
    · have : ¬ (s.pos + k ≤ s.data.length) := by omega
      simp [c, this]
    · have : s.pos + k ≤ s.data.length := by omega
      have e : u64 (s.pos + k) = s.pos + k := by unfold u64 W64; omega
      simp [c, this, e]
  case readPartial k =>
    have e0 : u64 (W64 + s.data.length - s.pos) = s.data.length - s.pos := by unfold u64 W64; omega
    simp only [MemR.readPartial, e0]
    have e2 : (if k < s.data.length - s.pos then k else s.data.length - s.pos) = min k (s.data.length - s.pos) := by
      rw [Nat.min_def]; split <;> split <;> omega
    rw [e2]
    have e3 : u64 (s.pos + min k (s.data.length - s.pos)) = s.pos + min k (s.data.length - s.pos) := by
      unfold u64 W64; omega
    rw [e3]
  case peek k =>
    have e0 : u64 (W64 + s.data.length - s.pos) = s.data.length - s.pos := by unfold u64 W64; omega
    simp only [MemR.peek, MemR.read, e0]
    by_cases c : k > s.data.length - s.pos
    · have : ¬ (s.pos + k ≤ s.data.length) := by omega
      simp [c, this]
    · have : s.pos + k ≤ s.data.length := by omega
      have e : u64 (s.pos + k) = s.pos + k := by unfold u64 W64; omega
      have e4 : u64 (W64 + (s.pos + k) - k) = s.pos := by unfold u64 W64; omega
      have c2 : ¬ k > s.pos + k := by omega
      simp [c, this, e, MemR.back, c2, e4]
  case seek p =>
    simp only [MemR.seek]
    by_cases c : p > s.data.length
    · have : ¬ p ≤ s.data.length := by omega
      simp [c, this]
    · have : p ≤ s.data.length := by omega
      simp [c, this]
  case fwd d =>
    simp only [MemR.fwd]
    by_cases c : s.pos + d ≤ s.data.length
    · have e : u64 (s.pos + d) = s.pos + d := by unfold u64 W64; omega
      have : ¬ (s.pos + d > s.data.length ∨ s.pos + d < s.pos) := by omega
      simp [e, c, this]
    · have : u64 (s.pos + d) > s.data.length ∨ u64 (s.pos + d) < s.pos := by unfold u64 W64 at *; omega
      simp [c, this]
  case back d =>
    simp only [MemR.back]
    by_cases c : d > s.pos
    · have : ¬ d ≤ s.pos := by omega
      simp [c, this]
    · have : d ≤ s.pos := by omega
      have e : u64 (W64 + s.pos - d) = s.pos - d := by unfold u64 W64 at *; omega
      simp [c, this, e]
  case seekBegin =>
    simp [MemR.seek]
  case seekEnd =>
    have e0 : u64 (W64 + s.data.length - s.pos) = s.data.length - s.pos := by unfold u64 W64; omega
    have e1 : u64 (s.pos + (s.data.length - s.pos)) = s.data.length := by unfold u64 W64; omega
    have : ¬ (s.data.length > s.data.length ∨ s.data.length < s.pos) := by omega
    have c3 : ¬ s.data.length < s.pos := by omega
    simp [MemR.seekEnd, MemR.fwd, e0, e1, c3]

theorem spec_inv (s : RSpec) (h : s.Inv) (op : ROp) : (RSpec.step s op).2.Inv := by
  obtain ⟨h1, h2⟩ := h
  cases op <;> simp only [RSpec.step] <;> (try split) <;> simp [RSpec.Inv] <;> omega

end Op2.Stream
