import Op2Model.Parser
/-!
# Structural lemmas about sequential parsers

* `Local p`   — success is a function of the consumed prefix only (so trailing bytes are ignored and the number of
                bytes consumed depends on the prefix alone), and **every proper prefix that cuts into the consumed
                part is refused** (prefix-strictness; the core of C07/C11 "prefixes are refused").
* `Reads p s a` — `p` run on `s ++ rest` returns `a` and exactly `rest` (what a serialiser's output must satisfy).
Both are closed under `pure / fail / take / bind / many`, and under `if`/`match` by `split`.
-/
namespace Op2.Parser
open Op2

def Local {α : Type} (p : Parser α) : Prop :=
  ∀ xs a rest, p xs = .ok (a, rest) →
    ∃ n, n ≤ xs.length ∧ rest = xs.drop n ∧
      (∀ ys, n ≤ ys.length → ys.take n = xs.take n → p ys = .ok (a, ys.drop n)) ∧
      (∀ k, k < n → ∃ e, p (xs.take k) = .error e)

theorem local_pure {α : Type} (a : α) : Local (pure a) := by
  intro xs a' rest h
  simp [pure] at h
  obtain ⟨rfl, rfl⟩ := h
  exact ⟨0, by simp, by simp, by intro ys _ _; simp [pure], by intro k hk; omega⟩

theorem local_fail {α : Type} (e : Err) : Local (fail e : Parser α) := by
  intro xs a rest h; simp [fail] at h

theorem local_take (k : Nat) : Local (take k) := by
  intro xs a rest h
  unfold take at h
  split at h
  · rename_i hk
    simp at h
    obtain ⟨rfl, rfl⟩ := h
    refine ⟨k, hk, rfl, ?_, ?_⟩
    · intro ys hy e; simp [take, hy, e]
    · intro j hj
      refine ⟨.bounds, ?_⟩
      simp [take, List.length_take]; omega
  · simp at h

theorem local_bind {α β : Type} {p : Parser α} {f : α → Parser β} (hp : Local p) (hf : ∀ a, Local (f a)) :
    Local (bind p f) := by
  intro xs b rest h
  unfold bind at h
  split at h
  · rename_i a r1 hpx
    obtain ⟨n1, hn1, rfl, det1, str1⟩ := hp xs a _ hpx
    obtain ⟨n2, hn2, rfl, det2, str2⟩ := hf a _ b _ h
    simp at hn2
    refine ⟨n1 + n2, by omega, by simp [List.drop_drop], ?_, ?_⟩
    · intro ys hy e
      have e1 : ys.take n1 = xs.take n1 := by
        have := congrArg (List.take n1) e
        simpa [List.take_take, Nat.min_eq_left (Nat.le_add_right n1 n2)] using this
      have := det1 ys (by omega) e1
      simp only [bind, this]
      have e2 : (ys.drop n1).take n2 = (xs.drop n1).take n2 := by
        have := congrArg (List.drop n1) e
        simpa [List.drop_take] using this
      rw [det2 (ys.drop n1) (by simp; omega) e2]
      simp [List.drop_drop]
    · intro k hk
      by_cases hk1 : k < n1
      · obtain ⟨e, he⟩ := str1 k hk1
        exact ⟨e, by simp [bind, he]⟩
      · have hk1 : n1 ≤ k := by omega
        have e1 : (xs.take k).take n1 = xs.take n1 := by simp [List.take_take, Nat.min_eq_left hk1]
        have := det1 (xs.take k) (by simp [List.length_take]; omega) e1
        obtain ⟨e, he⟩ := str2 (k - n1) (by omega)
        refine ⟨e, ?_⟩
        simp only [bind, this]
        have : (xs.take k).drop n1 = (xs.drop n1).take (k - n1) := by
          rw [List.drop_take]
        rw [this, he]
  · simp at h

theorem local_map {α β : Type} {p : Parser α} (f : α → β) (hp : Local p) : Local (map p f) :=
  local_bind hp (fun _ => local_pure _)

theorem local_guard (c : Bool) (e : Err) : Local (guard c e) := by
  unfold guard; split
  · exact local_pure _
  · exact local_fail _

theorem local_u8 : Local u8 := local_map _ (local_take 1)
theorem local_u16 : Local u16 := local_map _ (local_take 2)
theorem local_u32 : Local u32 := local_map _ (local_take 4)

theorem local_many {α : Type} {p : Parser α} (hp : Local p) : ∀ n, Local (many p n)
  | 0 => local_pure _
  | n + 1 => local_bind hp (fun _ => local_bind (local_many hp n) (fun _ => local_pure _))

/-! ### consequences of `Local`, in the form the properties use -/

/-- trailing bytes are ignored: the result and the number of bytes consumed are those of the prefix -/
theorem Local.trailing {α : Type} {p : Parser α} (hp : Local p) {xs : Bytes} {a : α} {rest : Bytes}
    (h : p xs = .ok (a, rest)) (junk : Bytes) :
    p (xs.take (xs.length - rest.length) ++ junk) = .ok (a, junk) := by
  obtain ⟨n, hn, rfl, det, _⟩ := hp xs a rest h
  have hl : xs.length - (xs.drop n).length = n := by simp [List.length_drop]; omega
  rw [hl]
  have := det (xs.take n ++ junk) (by simp [List.length_take]; omega)
    (by rw [List.take_append_of_le_length (by simp [List.length_take]; omega)]; simp [List.take_take])
  rw [this]
  have : (List.take n xs).length = n := by simp [List.length_take]; omega
  rw [List.drop_append_of_le_length (by omega), List.drop_of_length_le (by omega)]; rfl

/-- every proper prefix that cuts into the consumed portion is refused -/
theorem Local.prefix_refused {α : Type} {p : Parser α} (hp : Local p) {xs : Bytes} {a : α} {rest : Bytes}
    (h : p xs = .ok (a, rest)) (k : Nat) (hk : k < xs.length - rest.length) :
    ∃ e, p (xs.take k) = .error e := by
  obtain ⟨n, hn, rfl, _, str⟩ := hp xs a rest h
  have hl : xs.length - (xs.drop n).length = n := by simp [List.length_drop]; omega
  exact str k (by omega)

/-! ### `Reads` -/

/-- running `p` on `s ++ rest` yields `a` and leaves exactly `rest` -/
def Reads {α : Type} (p : Parser α) (s : Bytes) (a : α) : Prop := ∀ rest, p (s ++ rest) = .ok (a, rest)

theorem reads_take (s : Bytes) : Reads (take s.length) s s := by
  intro rest; simp [take]

theorem reads_take' (s : Bytes) (k : Nat) (h : s.length = k) : Reads (take k) s s := by
  subst h; exact reads_take s

theorem reads_pure {α : Type} (a : α) : Reads (pure a) [] a := by intro rest; rfl

theorem reads_bind {α β : Type} {p : Parser α} {f : α → Parser β} {s1 s2 : Bytes} {a : α} {b : β}
    (h1 : Reads p s1 a) (h2 : Reads (f a) s2 b) : Reads (bind p f) (s1 ++ s2) b := by
  intro rest
  show Parser.bind p f (s1 ++ s2 ++ rest) = _
  unfold Parser.bind
  rw [List.append_assoc, h1 (s2 ++ rest)]
  exact h2 rest

theorem reads_map {α β : Type} {p : Parser α} {s : Bytes} {a : α} (f : α → β) (h : Reads p s a) :
    Reads (map p f) s (f a) := by
  have := reads_bind (f := fun a => Parser.pure (f a)) h (reads_pure (f a))
  simpa [map] using this

theorem reads_guard_true (e : Err) : Reads (guard true e) [] () := reads_pure ()

/-! ### the little-endian codecs of `Op2Model.Basic` -/

theorem decU16_encU16 (v : Nat) (h : v < 65536) (rest : Bytes) : decU16 (encU16 v ++ rest) = v := by
  simp only [encU16, decU16, List.cons_append, List.nil_append, UInt8.toNat_ofNat']
  omega

theorem decU32_encU32 (v : Nat) (h : v < 4294967296) (rest : Bytes) : decU32 (encU32 v ++ rest) = v := by
  simp only [encU32, decU32, List.cons_append, List.nil_append, UInt8.toNat_ofNat']
  omega

theorem encU16_length (v : Nat) : (encU16 v).length = 2 := rfl
theorem encU32_length (v : Nat) : (encU32 v).length = 4 := rfl

theorem reads_u8 (v : Nat) (h : v < 256) : Reads u8 (encU8 v) v := by
  have := reads_map (fun b : Bytes => (b.headD 0).toNat) (reads_take' (encU8 v) 1 rfl)
  have e : ((encU8 v).headD 0).toNat = v := by simp [encU8, UInt8.toNat_ofNat']; omega
  rw [e] at this; exact this

theorem reads_u16 (v : Nat) (h : v < 65536) : Reads u16 (encU16 v) v := by
  have := reads_map decU16 (reads_take' (encU16 v) 2 rfl)
  have e := decU16_encU16 v h []
  rw [List.append_nil] at e
  rw [e] at this; exact this

theorem reads_u32 (v : Nat) (h : v < 4294967296) : Reads u32 (encU32 v) v := by
  have := reads_map decU32 (reads_take' (encU32 v) 4 rfl)
  have e := decU32_encU32 v h []
  rw [List.append_nil] at e
  rw [e] at this; exact this

/-- a list of items, each read back by `p` from its own encoding -/
theorem reads_many {α : Type} {p : Parser α} {enc : α → Bytes} (hp : ∀ a, Reads p (enc a) a) :
    ∀ (as : List α), Reads (many p as.length) (as.flatMap enc) as
  | [] => reads_pure []
  | a :: as => by
    have ht := reads_many hp as
    have := reads_bind (f := fun a => Parser.bind (many p as.length) (fun as => Parser.pure (a :: as))) (hp a)
      (reads_bind (f := fun as => Parser.pure (a :: as)) ht (reads_pure (a :: as)))
    simpa [many, List.flatMap_cons] using this

/-- the same under a per-element well-formedness hypothesis -/
theorem reads_many_of {α : Type} {p : Parser α} {enc : α → Bytes} {P : α → Prop} (hp : ∀ a, P a → Reads p (enc a) a) :
    ∀ (as : List α), (∀ a ∈ as, P a) → Reads (many p as.length) (as.flatMap enc) as
  | [], _ => reads_pure []
  | a :: as, h => by
    have ht := reads_many_of hp as (fun x hx => h x (by simp [hx]))
    have := reads_bind (f := fun a => Parser.bind (many p as.length) (fun as => Parser.pure (a :: as))) (hp a (h a (by simp)))
      (reads_bind (f := fun as => Parser.pure (a :: as)) ht (reads_pure (a :: as)))
    simpa [many, List.flatMap_cons] using this

/-- `Reads` gives the whole-input statement: the serialisation followed by anything parses to the value, consuming
    exactly the serialisation -/
theorem Reads.run {α : Type} {p : Parser α} {s : Bytes} {a : α} (h : Reads p s a) (rest : Bytes) :
    Parser.run p (s ++ rest) = .ok (a, s.length) := by
  unfold Parser.run; rw [h rest]; simp

end Op2.Parser
