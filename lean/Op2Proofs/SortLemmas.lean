import Op2Proofs.StrOrder
/-!
# Lemmas: insertion sort by the case-insensitive order; uniqueness of the sorted arrangement;
completeness of adjacent-duplicate detection (C19, used by C01/C03)
-/
namespace Op2.Str
variable {α : Type} (key : α → Bytes)

/-- weakly sorted: no later element comes strictly before an earlier one -/
def SortedW (l : List α) : Prop := l.Pairwise (fun a b => ltCI (key b) (key a) = false)
/-- strictly sorted -/
def SortedS (l : List α) : Prop := l.Pairwise (fun a b => ltCI (key a) (key b) = true)
/-- no two elements have names equal ignoring case -/
def NoDupCI (l : List α) : Prop := l.Pairwise (fun a b => eqCI (key a) (key b) = false)

theorem insertCI_perm (x : α) : ∀ l : List α, (insertCI key x l).Perm (x :: l)
  | [] => List.Perm.refl _
  | y :: ys => by
    simp only [insertCI]
    split
    · exact List.Perm.refl _
    · exact ((insertCI_perm x ys).cons y).trans (List.Perm.swap x y ys)

theorem sortCI_perm : ∀ l : List α, (sortCI key l).Perm l
  | [] => List.Perm.refl _
  | x :: xs => by
    show (insertCI key x (sortCI key xs)).Perm (x :: xs)
    exact (insertCI_perm key x _).trans ((sortCI_perm xs).cons x)

theorem mem_insertCI {x z : α} {l : List α} : z ∈ insertCI key x l ↔ z = x ∨ z ∈ l := by
  rw [(insertCI_perm key x l).mem_iff]; simp

theorem insertCI_sorted (x : α) : ∀ l : List α, SortedW key l → SortedW key (insertCI key x l)
  | [], _ => by simp [insertCI, SortedW]
  | y :: ys, h => by
    unfold SortedW at h ⊢
    rw [List.pairwise_cons] at h
    simp only [insertCI]
    split
    · rename_i hxy
      rw [List.pairwise_cons]
      refine ⟨?_, List.pairwise_cons.mpr h⟩
      intro z hz
      rcases List.mem_cons.mp hz with rfl | hz
      · exact ltF_asymm _ _ _ hxy
      · cases hzx : ltCI (key z) (key x)
        · rfl
        · have := ltF_trans _ _ _ _ hzx hxy
          have h2 := h.1 z hz
          unfold ltCI at h2; rw [this] at h2; exact absurd h2 (by simp)
    · rename_i hxy
      rw [List.pairwise_cons]
      refine ⟨?_, insertCI_sorted x ys h.2⟩
      intro z hz
      rcases (mem_insertCI key).mp hz with rfl | hz
      · simpa using hxy
      · exact h.1 z hz

theorem sortCI_sorted : ∀ l : List α, SortedW key (sortCI key l)
  | [] => by simp [sortCI, SortedW]
  | x :: xs => insertCI_sorted key x _ (sortCI_sorted xs)

theorem NoDupCI.perm {l l' : List α} (h : NoDupCI key l) (p : l.Perm l') : NoDupCI key l' := by
  unfold NoDupCI at *
  refine p.pairwise h ?_
  intro a b hab
  cases h2 : eqCI (key b) (key a)
  · rfl
  · have := eqF_symm _ _ _ h2
    unfold eqCI at hab; rw [this] at hab; exact absurd hab (by simp)

/-- a weakly sorted list without case-insensitive duplicates is strictly sorted -/
theorem SortedW.strict {l : List α} (hs : SortedW key l) (hn : NoDupCI key l) : SortedS key l := by
  unfold SortedW NoDupCI SortedS at *
  induction l with
  | nil => exact List.Pairwise.nil
  | cons a l ih =>
    rw [List.pairwise_cons] at hs hn ⊢
    refine ⟨?_, ih hs.2 hn.2⟩
    intro b hb
    cases hab : ltCI (key a) (key b)
    · have := (incomp_iff_eqF lowerI (key a) (key b)).mp ⟨hab, hs.1 b hb⟩
      have h2 := hn.1 b hb
      unfold eqCI at h2; rw [this] at h2; exact absurd h2 (by simp)
    · rfl

/-- two strictly sorted arrangements of the same elements coincide -/
theorem SortedS.unique {l₁ l₂ : List α} (h₁ : SortedS key l₁) (h₂ : SortedS key l₂) (p : l₁.Perm l₂) : l₁ = l₂ := by
  refine List.Perm.eq_of_pairwise ?_ h₁ h₂ p
  intro a b _ _ hab hba
  have := ltF_asymm _ _ _ hab
  unfold ltCI at hba; rw [this] at hba; exact absurd hba (by simp)

/-- **order independence**: on duplicate-free input the sorted result does not depend on the input order -/
theorem sortCI_perm_invariant {l₁ l₂ : List α} (p : l₁.Perm l₂) (hn : NoDupCI key l₁) :
    sortCI key l₁ = sortCI key l₂ := by
  have p1 := sortCI_perm key l₁
  have p2 := sortCI_perm key l₂
  have s1 := (sortCI_sorted key l₁).strict key (hn.perm key p1.symm)
  have s2 := (sortCI_sorted key l₂).strict key (hn.perm key (p.trans p2.symm))
  exact s1.unique key s2 (p1.trans (p.trans p2.symm))

/-- any sorting routine's output (a weakly sorted permutation) equals `sortCI` on duplicate-free input:
    the model's insertion sort is a faithful stand-in for `std::sort` there -/
theorem sorted_perm_eq_sortCI {l s : List α} (p : s.Perm l) (hs : SortedW key s) (hn : NoDupCI key l) :
    s = sortCI key l := by
  have s1 := hs.strict key (hn.perm key p.symm)
  have p2 := sortCI_perm key l
  have s2 := (sortCI_sorted key l).strict key (hn.perm key p2.symm)
  exact s1.unique key s2 (p.trans p2.symm)

/-! ### adjacent-duplicate detection on a sorted list is complete -/

/-- some pair (not necessarily adjacent) is equal ignoring case -/
def HasDupCI (l : List Bytes) : Prop := ¬ NoDupCI id l

theorem hasAdjacentDup_sound : ∀ l : List Bytes, hasAdjacentDup l = true → HasDupCI l
  | [], h => by simp [hasAdjacentDup] at h
  | [_], h => by simp [hasAdjacentDup] at h
  | a :: b :: rest, h => by
    simp only [hasAdjacentDup, Bool.or_eq_true] at h
    intro hn
    unfold NoDupCI at hn
    rw [List.pairwise_cons] at hn
    rcases h with h | h
    · have := hn.1 b (by simp)
      simp only [id] at this; rw [h] at this; exact absurd this (by simp)
    · exact hasAdjacentDup_sound (b :: rest) h hn.2

theorem hasAdjacentDup_complete : ∀ l : List Bytes, SortedW id l → HasDupCI l → hasAdjacentDup l = true
  | [], _, h => by exact absurd (List.Pairwise.nil) h
  | [_], _, h => by exact absurd (List.pairwise_singleton _ _) h
  | a :: b :: rest, hs, h => by
    simp only [hasAdjacentDup, Bool.or_eq_true]
    unfold SortedW at hs
    rw [List.pairwise_cons] at hs
    by_cases hab : eqCI a b = true
    · exact Or.inl hab
    · right
      apply hasAdjacentDup_complete (b :: rest) hs.2
      intro hn
      apply h
      unfold NoDupCI at hn ⊢
      rw [List.pairwise_cons]
      refine ⟨?_, hn⟩
      intro c hc
      simp only [id]
      rcases List.mem_cons.mp hc with rfl | hc
      · simpa using hab
      · -- a ~ c with b between them would force a ~ b
        cases hac : eqCI a c
        · rfl
        · exfalso
          have hba : ltCI b a = false := hs.1 b (by simp)
          have hcb : ltCI c b = false := by
            have := hs.2; rw [List.pairwise_cons] at this; exact this.1 c hc
          cases hab2 : ltCI a b
          · exact hab ((incomp_iff_eqF lowerI a b).mp ⟨hab2, hba⟩)
          · have := ltF_of_eqF_left lowerI a b c hab2 hac
            unfold ltCI at hcb; rw [this] at hcb; exact absurd hcb (by simp)

theorem hasAdjacentDup_iff (l : List Bytes) (hs : SortedW id l) : hasAdjacentDup l = true ↔ HasDupCI l :=
  ⟨hasAdjacentDup_sound l, hasAdjacentDup_complete l hs⟩

end Op2.Str
