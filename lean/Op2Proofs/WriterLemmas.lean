import Op2Model.Stream
namespace Op2.Stream
open Op2

/-! ### fixed-buffer writer -/
def MemW.Inv (s : MemW) : Prop := s.pos ≤ s.buf.length ∧ s.buf.length < W64

def WOp.argOk : WOp → Prop
  | .write b => b.length < W64
  | .seek k | .fwd k | .back k => k < W64
  | .seekBegin | .seekEnd => True

/-- what the history implies, in ℕ: a failing operation changes nothing -/
def MemW.spec (s : MemW) : WOp → Bool × MemW
  | .write b => if s.pos + b.length ≤ s.buf.length then (true, { buf := patch s.buf s.pos b, pos := s.pos + b.length }) else (false, s)
  | .seek p => if p ≤ s.buf.length then (true, { s with pos := p }) else (false, s)
  | .fwd d => if s.pos + d ≤ s.buf.length then (true, { s with pos := s.pos + d }) else (false, s)
  | .back d => if d ≤ s.pos then (true, { s with pos := s.pos - d }) else (false, s)
  | .seekBegin => (true, { s with pos := 0 })
  | .seekEnd => (true, { s with pos := s.buf.length })

theorem patch_length (buf : Bytes) (pos : Nat) (b : Bytes) (h : pos + b.length ≤ buf.length) :
    (patch buf pos b).length = buf.length := by
  simp [patch]; omega

/-- bytes outside `[pos, pos + |b|)` are untouched -/
theorem patch_outside (buf : Bytes) (pos : Nat) (b : Bytes) (h : pos + b.length ≤ buf.length) (i : Nat)
    (hi : i < pos ∨ pos + b.length ≤ i) : (patch buf pos b)[i]? = buf[i]? := by
  unfold patch
  rcases hi with hi | hi
  · rw [List.append_assoc, List.getElem?_append_left (by simp; omega)]
    simp [List.getElem?_take, hi]
  · rw [List.getElem?_append_right (by simp; omega)]
    simp only [List.length_append, List.length_take]
    rw [List.getElem?_drop]
    congr 1
    have : min pos buf.length = pos := by omega
    omega

/-- bytes inside are the written ones -/
theorem patch_inside (buf : Bytes) (pos : Nat) (b : Bytes) (h : pos + b.length ≤ buf.length) (i : Nat)
    (hi : i < b.length) : (patch buf pos b)[pos + i]? = b[i]? := by
  unfold patch
  rw [List.getElem?_append_left (by simp; omega)]
  rw [List.getElem?_append_right (by simp; omega)]
  simp only [List.length_take]
  congr 1
  have : min pos buf.length = pos := by omega
  omega

theorem memw_refines (s : MemW) (h : s.Inv) (op : WOp) (ha : op.argOk) : MemW.step s op = MemW.spec s op := by
  obtain ⟨h1, h2⟩ := h
  have eleft : u64 (W64 + s.buf.length - s.pos) = s.buf.length - s.pos := by unfold u64 W64 at *; omega
  cases op <;> simp only [MemW.step, MemW.spec, WOp.argOk] at *
  case write b =>
    simp only [MemW.write, eleft]
    by_cases c : s.pos + b.length ≤ s.buf.length
    · have c' : ¬ b.length > s.buf.length - s.pos := by omega
      have e : u64 (s.pos + b.length) = s.pos + b.length := by unfold u64 W64 at *; omega
      simp [c, c', e]
    · have c' : b.length > s.buf.length - s.pos := by omega
      simp [c, c']
  case seek p =>
    simp only [MemW.seek]
    by_cases c : p ≤ s.buf.length
    · have c' : ¬ p > s.buf.length := by omega
      simp [c, c']
    · have c' : p > s.buf.length := by omega
      simp [c, c']
  case fwd d =>
    simp only [MemW.fwd, MemW.seek, eleft]
    by_cases c : s.pos + d ≤ s.buf.length
    · have c' : ¬ d > s.buf.length - s.pos := by omega
      have e : u64 (s.pos + d) = s.pos + d := by unfold u64 W64 at *; omega
      have c2 : ¬ s.pos + d > s.buf.length := by omega
      simp [c, c', e, c2]
    · have c' : d > s.buf.length - s.pos := by omega
      simp [c, c']
  case back d =>
    simp only [MemW.back, MemW.seek]
    by_cases c : d ≤ s.pos
    · have c' : ¬ d > s.pos := by omega
      have e : u64 (W64 + s.pos - d) = s.pos - d := by unfold u64 W64 at *; omega
      have c2 : ¬ s.pos - d > s.buf.length := by omega
      simp [c, c', e, c2]
    · have c' : d > s.pos := by omega
      simp [c, c']
  case seekBegin => simp [MemW.seek]
  case seekEnd =>
    have e : u64 (s.pos + (s.buf.length - s.pos)) = s.buf.length := by unfold u64 W64 at *; omega
    have c' : ¬ s.buf.length - s.pos > s.buf.length - s.pos := by omega
    simp [MemW.fwd, MemW.seek, eleft, e]

theorem memw_spec_inv (s : MemW) (h : s.Inv) (op : WOp) : (MemW.spec s op).2.Inv := by
  obtain ⟨h1, h2⟩ := h
  cases op <;> simp only [MemW.spec] <;> (try split) <;> simp only [MemW.Inv] <;>
    (try rw [patch_length _ _ _ (by assumption)]) <;> omega

/-- the buffer never changes size, and a refused operation changes nothing at all -/
theorem memw_spec_frame (s : MemW) (h : s.Inv) (op : WOp) :
    (MemW.spec s op).2.buf.length = s.buf.length ∧ ((MemW.spec s op).1 = false → (MemW.spec s op).2 = s) := by
  cases op <;> simp only [MemW.spec] <;> (try split) <;> simp_all [patch_length]

def runW {σ : Type} (f : σ → WOp → Bool × σ) : σ → List WOp → List Bool × σ
  | s, [] => ([], s)
  | s, op :: ops => let r := f s op; let rest := runW f r.2 ops; (r.1 :: rest.1, rest.2)

theorem memw_refines_hist (ops : List WOp) : ∀ (s : MemW), s.Inv → (∀ op ∈ ops, op.argOk) →
    runW MemW.step s ops = runW MemW.spec s ops := by
  induction ops with
  | nil => intros; rfl
  | cons op ops ih =>
    intro s h ha
    have e := memw_refines s h op (ha op (by simp))
    simp only [runW, e]
    rw [ih _ (memw_spec_inv s h op) (fun o ho => ha o (by simp [ho]))]

/-! ### growing writer -/
theorem dynw_refines (s : DynW) (op : WOp) (hlen : s.content.length ≤ dynCap) (ha : op.argOk) :
    (DynW.step s op).1 = (dynSpec s.content op).1 ∧ (DynW.step s op).2.content = (dynSpec s.content op).2 := by
  have hcap : dynCap < W64 := by decide
  cases op <;> simp only [DynW.step, dynSpec, WOp.argOk] at *
  case write b => simp [DynW.write]
  case seek p =>
    simp only [DynW.seek]
    by_cases c : p > dynCap
    · simp [c]
    · by_cases c2 : p ≤ s.content.length <;> simp [c, c2]
  case fwd d =>
    simp only [DynW.fwd]
    by_cases c0 : d > W64 - 1 - s.content.length
    · have c : s.content.length + d > dynCap := by unfold W64 dynCap at *; omega
      simp [c0, c]
    · by_cases c : s.content.length + d > dynCap <;> simp [c0, c]
  case back d =>
    simp only [DynW.back]
    by_cases c : d ≤ s.content.length
    · have : ¬ d > s.content.length := by omega
      simp [c, this]
    · have : d > s.content.length := by omega
      simp [c, this]
  case seekBegin => simp [DynW.seek]
  case seekEnd =>
    have c0 : ¬ 0 > W64 - 1 - s.content.length := by omega
    have c : ¬ dynCap < s.content.length := by omega
    simp [DynW.fwd, zeros, c0, c]

/-! ### the copy loop -/
theorem copy_spec (B : Nat) (hB : 0 < B) : ∀ fuel (r : RSpec) (w : Bytes), r.pos ≤ r.data.length →
    r.data.length - r.pos < fuel →
    copyLoop B fuel r w = ({ r with pos := r.data.length }, w ++ r.data.drop r.pos) := by
  intro fuel
  induction fuel with
  | zero => intro r w _ h; omega
  | succ fuel ih =>
    intro r w hp hf
    simp only [copyLoop, RSpec.window]
    by_cases hz : r.data.length - r.pos = 0
    · have hpos : r.pos = r.data.length := by omega
      have : min B (r.data.length - r.pos) = 0 := by omega
      simp [this, hpos]
    · have hn : 0 < min B (r.data.length - r.pos) := by omega
      have hlen : ((r.data.drop r.pos).take (min B (r.data.length - r.pos))).length = min B (r.data.length - r.pos) := by
        simp [List.length_take, List.length_drop]
      have hne : ¬ ((r.data.drop r.pos).take (min B (r.data.length - r.pos))).length = 0 := by rw [hlen]; omega
      simp only [hne, if_false]
      rw [ih _ _ (by simp only; omega) (by simp only; omega)]
      simp only [List.append_assoc]
      congr 2
      have : List.drop (r.pos + min B (r.data.length - r.pos)) r.data
          = List.drop (min B (r.data.length - r.pos)) (List.drop r.pos r.data) := by
        rw [List.drop_drop]
      rw [this]
      exact List.take_append_drop _ _

end Op2.Stream
