import Op2Proofs.SysEquiv
import Op2Proofs.WriterLemmas
/-!
# Copying a reader of any backend into a writer
-/
namespace Op2.Stream

/-- the copy loop over an object of any backend is the copy loop over what the object exposes -/
theorem copyLoopRd_abs (B : Nat) (hB : B < W64) (fuel : Nat) : ∀ (r : Rd) (w : Bytes), r.Good →
    ((copyLoopRd B fuel r w).1.abs, (copyLoopRd B fuel r w).2) = copyLoop B fuel r.abs w ∧ (copyLoopRd B fuel r w).1.Good := by
  induction fuel with
  | zero => intro r w hr; exact ⟨rfl, hr⟩
  | succ fuel ih =>
    intro r w hr
    obtain ⟨h1, h2⟩ := Rd.step_abs r (.readPartial B) hr hB
    have hg := Rd.step_good r (.readPartial B) hr hB
    simp only [copyLoopRd, copyLoop]
    generalize hres : r.step (.readPartial B) = res at h1 h2 hg
    obtain ⟨o, r'⟩ := res
    simp only [RSpec.step] at h1 h2
    simp only at h1 h2 hg
    subst h1
    simp only
    by_cases hc : (r.abs.window (min B (r.abs.data.length - r.abs.pos))).length = 0
    · rw [if_pos hc, if_pos hc]; exact ⟨by rw [h2], hg⟩
    · rw [if_neg hc, if_neg hc]
      obtain ⟨e, g⟩ := ih r' (w ++ r.abs.window (min B (r.abs.data.length - r.abs.pos))) hg
      rw [h2] at e
      exact ⟨e, g⟩

/-- **every backend, every chunk size, every source length and start position**: the writer receives exactly the bytes between
    the reader's cursor and the end of what it exposes, and the reader ends at its end -/
theorem copy_every_backend (B : Nat) (hB : 0 < B) (hB64 : B < W64) (r : Rd) (hr : r.Good) (w : Bytes) (fuel : Nat)
    (hf : r.abs.data.length - r.abs.pos < fuel) :
    (copyLoopRd B fuel r w).2 = w ++ r.abs.data.drop r.abs.pos ∧
    (copyLoopRd B fuel r w).1.abs = { r.abs with pos := r.abs.data.length } ∧ (copyLoopRd B fuel r w).1.Good := by
  obtain ⟨e, g⟩ := copyLoopRd_abs B hB64 fuel r w hr
  have hp : r.abs.pos ≤ r.abs.data.length := by
    cases r with
    | mem m => exact hr.1
    | file f => exact hr.1
    | fsl s =>
      have hl := sliceAbs_len (ab := id) s hr.2.1
      obtain ⟨_, g1, g2, g3⟩ := hr
      simp only [Rd.abs, hl]; simp only [sliceAbs, id] at *; omega
    | fss s =>
      have hl := sliceAbs_len (ab := sliceAbs id) s hr.2.1
      obtain ⟨_, g1, g2, g3⟩ := hr
      simp only [Rd.abs, hl]; simp only [sliceAbs] at *; omega
  rw [copy_spec B hB fuel r.abs w hp hf] at e
  exact ⟨congrArg Prod.snd e, congrArg Prod.fst e, g⟩

end Op2.Stream
