import Op2Proofs.SysEquiv
import Op2Proofs.LittleEndian
/-!
# Typed helpers over a live reader object of any backend

`Rd.read` is the checked `Read(k)` the typed helpers (`ReadNullTerminatedString`, `Read<SizeType>(container)`) are written
against; the model driver runs them over `Rd.read` for every backend.  One simulation lemma puts all of them on the
abstract reader over what the object exposes.
-/
namespace Op2.Stream

theorem Rd.read_sim (r : Rd) (hr : r.Good) (k : Nat) (hk : k < W64) :
    SimRes Eq Rd.abs Rd.Good (r.read k) (RSpec.rd r.abs k) := by
  obtain ⟨h1, h2⟩ := Rd.step_abs r (.read k) hr hk
  have hg := Rd.step_good r (.read k) hr hk
  unfold Rd.read RSpec.rd
  generalize r.step (.read k) = res at h1 h2 hg
  obtain ⟨o, r'⟩ := res
  simp only at h1 h2 hg
  generalize RSpec.step r.abs (.read k) = res' at h1 h2
  obtain ⟨o', a'⟩ := res'
  simp only at h1 h2
  subst h1; subst h2
  cases o with
  | bytes b => exact ⟨rfl, rfl, hg⟩
  | unit => exact rfl
  | err => exact rfl

/-- `ReadNullTerminatedString(maxCount)` on any backend = on the abstract reader over what the object exposes -/
theorem Rd.readNT_sim (r : Rd) (hr : r.Good) (fuel : Nat) (acc : Bytes) :
    SimRes Eq Rd.abs Rd.Good (readNT Rd.read fuel r acc) (readNT RSpec.rd fuel r.abs acc) :=
  Op2.Stream.readNT_sim Eq Rd.read Rd.abs Rd.Good (fun t ht => Rd.read_sim t ht 1 (by unfold W64; omega)) fuel r acc hr

/-- `Read<SizeType>(container)` on any backend = on the abstract reader over what the object exposes -/
theorem Rd.readPrefixed_sim (r : Rd) (hr : r.Good) (width : Nat) (signed : Bool) (esz maxSize cap : Nat)
    (hw : width < W64) (hcap : cap ≤ W64) :
    SimRes Eq Rd.abs Rd.Good (readPrefixed Rd.read width signed esz maxSize cap r)
      (readPrefixed RSpec.rd width signed esz maxSize cap r.abs) :=
  Op2.Stream.readPrefixed_sim Eq (fun _ => rfl) Rd.read Rd.abs Rd.Good (fun t k ht hk => Rd.read_sim t ht k hk)
    width signed esz maxSize cap hw hcap r hr

end Op2.Stream
