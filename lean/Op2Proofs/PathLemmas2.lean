import Op2Proofs.PathLemmas
/-!
# Op2Proofs.PathLemmas2 — `split`, `elems`, `filename`, `genericString`, `parentPath`, `appendRaw`
on relative paths, and how upper-casing commutes with them
-/
namespace Op2.Path
open Op2

/-! ## `split` / `elems` on a relative path -/

theorem split_rel (s : Bytes) (h : Rel s) : split s = withTrailingDot s (scan s 0 0 [] []) := by
  cases s with
  | nil => simp [split, withTrailingDot, scan]
  | cons c r =>
    have hc : c ≠ sep := by intro e; apply h; simp [e]
    simp only [split, if_neg hc]

theorem withTrailingDot_kinds (s : Bytes) (cs : List Cmpt) (hk : ∀ c ∈ cs, c.kind = Kind.file) :
    ∀ c ∈ withTrailingDot s cs, c.kind = Kind.file := by
  intro c hc
  unfold withTrailingDot at hc
  split at hc
  · split at hc
    · simp only [List.mem_append, List.mem_singleton] at hc
      rcases hc with hc | hc
      · exact hk c hc
      · rw [hc]
    · exact hk c hc
  · exact hk c hc

theorem withTrailingDot_texts (s : Bytes) (cs : List Cmpt) (hk : ∀ c ∈ cs, c.kind = Kind.file) :
    (withTrailingDot s cs).map (·.text)
      = cs.map (·.text) ++ (if s.getLast? = some sep ∧ cs ≠ [] then [[dot]] else []) := by
  unfold withTrailingDot
  split
  · rename_i l last hl hlast
    have hne : cs ≠ [] := by intro e; rw [e] at hlast; simp at hlast
    have hkl : last.kind = Kind.file := hk last (List.mem_of_getLast? hlast)
    rw [hl]
    by_cases e : l = sep
    · simp [e, hkl, hne]
    · simp [e]
  · rename_i hno
    have : ¬ (s.getLast? = some sep ∧ cs ≠ []) := by
      rintro ⟨h1, h2⟩
      obtain ⟨last, hlast⟩ : ∃ last, cs.getLast? = some last := by
        cases cs with
        | nil => exact absurd rfl h2
        | cons a r => exact ⟨_, List.getLast?_cons⟩
      exact hno _ _ h1 hlast
    simp [this]

theorem split_rel_kinds (s : Bytes) (h : Rel s) : ∀ c ∈ split s, c.kind = Kind.file := by
  rw [split_rel s h]
  exact withTrailingDot_kinds _ _ (scan_kinds s 0 0 [] [] (by simp))

/-- the elements of a relative path: its tokens, then `"."` if it ends in a separator -/
theorem elems_rel (s : Bytes) (h : Rel s) :
    elems s = toks s [] ++ (if s.getLast? = some sep then [[dot]] else []) := by
  unfold elems
  rw [split_rel s h, withTrailingDot_texts _ _ (scan_kinds s 0 0 [] [] (by simp))]
  have ht : (scan s 0 0 [] []).map (·.text) = toks s [] := by simpa using scan_texts s 0 0 [] []
  rw [ht]
  congr 1
  by_cases hl : s.getLast? = some sep
  · have hs : s ≠ [] := by intro e; rw [e] at hl; simp at hl
    have hne : scan s 0 0 [] [] ≠ [] := by
      intro e
      rw [e] at ht
      exact toks_ne_nil_of_rel s h hs ht.symm
    simp [hl, hne]
  · simp [hl]

theorem dot_plain : Plain [dot] := by decide

theorem elems_rel_plain (s : Bytes) (h : Rel s) : ∀ t ∈ elems s, Plain t := by
  intro t ht
  rw [elems_rel s h, List.mem_append] at ht
  rcases ht with ht | ht
  · exact toks_plain s [] (by simp) t ht
  · split at ht
    · simp only [List.mem_singleton] at ht
      rw [ht]; exact dot_plain
    · simp at ht

theorem hasRootComponent_rel (s : Bytes) (h : Rel s) : hasRootComponent s = false := by
  have hk := split_rel_kinds s h
  simp only [hasRootComponent, hasRootName, hasRootDir, Bool.or_eq_false_iff, List.any_eq_false,
    decide_eq_true_eq]
  constructor <;> intro c hc e <;> have := hk c hc <;> rw [e] at this <;> exact absurd this (by decide)

/-- a plain name is its own single element -/
theorem elems_plain (n : Bytes) (h : Plain n) : elems n = [n] := by
  have hr : Rel n := by
    cases n with
    | nil => exact absurd rfl h.1
    | cons c r => intro e; apply h.2; simp at e; simp [e]
  rw [elems_rel n hr, toks_nosep n [] h.2, if_neg (plain_getLast h)]
  simp [h.1]

theorem plain_rel {n : Bytes} (h : Plain n) : Rel n := by
  cases n with
  | nil => exact absurd rfl h.1
  | cons c r => intro e; apply h.2; simp at e; simp [e]

theorem filename_eq (s : Bytes) : filename s = ((elems s).getLast?).getD [] := by
  unfold filename elems
  rw [List.getLast?_map]

/-! ## `genericString` -/

def gsStep (st : Bytes × Bool) (c : Cmpt) : Bytes × Bool :=
  if c.kind = Kind.rootDir then (st.1 ++ [sep], st.2)
  else ((if st.2 then st.1 ++ [sep] else st.1) ++ c.text, c.kind = Kind.file)

theorem genericString_eq (s : Bytes) : genericString s = ((split s).foldl gsStep ([], false)).1 := rfl

theorem foldl_gsStep_true (cs : List Cmpt) (hk : ∀ c ∈ cs, c.kind = Kind.file) : ∀ acc : Bytes,
    cs.foldl gsStep (acc, true) = (acc ++ sepCat (cs.map (·.text)), true) := by
  induction cs with
  | nil => intro acc; simp [sepCat]
  | cons c r ih =>
    intro acc
    have hc : c.kind = Kind.file := hk c (by simp)
    simp only [List.foldl_cons, gsStep, hc, List.map_cons, sepCat]
    rw [if_neg (by decide)]
    simp only [if_true, decide_true]
    rw [ih (fun c hc => hk c (by simp [hc]))]
    simp

theorem foldl_gsStep_file (cs : List Cmpt) (hk : ∀ c ∈ cs, c.kind = Kind.file) :
    (cs.foldl gsStep ([], false)).1 = joinT (cs.map (·.text)) := by
  cases cs with
  | nil => rfl
  | cons c r =>
    have hc : c.kind = Kind.file := hk c (by simp)
    simp only [List.foldl_cons, gsStep, hc, List.map_cons, joinT]
    rw [if_neg (by decide)]
    simp only [Bool.false_eq_true, if_false, decide_true, List.nil_append]
    rw [foldl_gsStep_true r (fun c hc => hk c (by simp [hc]))]

theorem genericString_rel (s : Bytes) (h : Rel s) : genericString s = joinT (elems s) := by
  rw [genericString_eq, foldl_gsStep_file _ (split_rel_kinds s h)]
  rfl

/-- tokens joined by single separators are already in generic form, and split into those tokens -/
theorem elems_joinT (ts : List Bytes) (h : ∀ t ∈ ts, Plain t) : elems (joinT ts) = ts := by
  rw [elems_rel _ (joinT_rel ts h), toks_joinT ts h, if_neg (joinT_getLast ts h)]
  simp

theorem genericString_joinT (ts : List Bytes) (h : ∀ t ∈ ts, Plain t) :
    genericString (joinT ts) = joinT ts := by
  rw [genericString_rel _ (joinT_rel ts h), elems_joinT ts h]

/-! ## `appendRaw` and `parentPath` -/

theorem appendRaw_nil_left (q : Bytes) : appendRaw [] q = q := by simp [appendRaw]

theorem appendRaw_plain (acc t : Bytes) (h1 : acc ≠ []) (h2 : acc.getLast? ≠ some sep) (ht : Plain t) :
    appendRaw acc t = acc ++ sep :: t := by
  unfold appendRaw
  cases hl : acc.getLast? with
  | none => simp at hl; exact absurd hl h1
  | some l =>
    cases t with
    | nil => exact absurd rfl ht.1
    | cons f t' =>
      have hf : f ≠ sep := by intro e; apply ht.2; simp [e]
      have hl' : l ≠ sep := by intro e; apply h2; rw [hl, e]
      simp [hl', hf]

theorem appendRaw_endsSep (acc t : Bytes) (h : acc.getLast? = some sep) : appendRaw acc t = acc ++ t := by
  unfold appendRaw
  rw [h]
  cases t <;> simp

theorem foldl_appendRaw_acc (ts : List Bytes) (h : ∀ t ∈ ts, Plain t) : ∀ acc : Bytes,
    acc ≠ [] → acc.getLast? ≠ some sep → ts.foldl appendRaw acc = acc ++ sepCat ts := by
  induction ts with
  | nil => intro acc _ _; simp [sepCat]
  | cons t r ih =>
    intro acc h1 h2
    have ht : Plain t := h t (by simp)
    simp only [List.foldl_cons, sepCat]
    rw [appendRaw_plain acc t h1 h2 ht, ih (fun u hu => h u (by simp [hu])) _ (by simp)]
    · simp
    · have : sep :: t ≠ [] := by simp
      rw [List.getLast?_append, List.getLast?_cons_of_ne_nil ht.1]
      exact or_ne_sep (plain_getLast ht) h2

theorem foldl_appendRaw (ts : List Bytes) (h : ∀ t ∈ ts, Plain t) : ts.foldl appendRaw [] = joinT ts := by
  cases ts with
  | nil => rfl
  | cons t r =>
    have ht : Plain t := h t (by simp)
    simp only [List.foldl_cons, appendRaw_nil_left, joinT]
    exact foldl_appendRaw_acc r (fun u hu => h u (by simp [hu])) t ht.1 (plain_getLast ht)

theorem parentPath_rel (s : Bytes) (h : Rel s) : parentPath s = joinT (elems s).dropLast := by
  have hp : ∀ t ∈ (elems s).dropLast, Plain t :=
    fun t ht => elems_rel_plain s h t (List.dropLast_subset _ ht)
  have e : (split s).dropLast.map (·.text) = (elems s).dropLast := by
    unfold elems; rw [List.map_dropLast]
  have hlen : (split s).length = (elems s).length := by unfold elems; simp
  unfold parentPath
  simp only [e, hlen]
  split
  · rename_i hl
    have : (elems s).dropLast = [] := by
      apply List.eq_nil_of_length_eq_zero
      rw [List.length_dropLast]; omega
    rw [this]; rfl
  · exact foldl_appendRaw _ hp

/-! ## upper-casing commutes with splitting -/

theorem upperB_eq_low (c k : UInt8) (hk : k.toNat < 65) : Str.upperB c = k ↔ c = k := by
  unfold Str.upperB
  split
  · rename_i h
    constructor
    · intro e
      have h2 := congrArg UInt8.toNat e
      rw [UInt8.toNat_ofNat'] at h2
      omega
    · intro e; subst e; omega
  · exact Iff.rfl

theorem upperB_eq_sep (c : UInt8) : Str.upperB c = sep ↔ c = sep := upperB_eq_low c sep (by decide)

theorem upperB_eq_dot (c : UInt8) : Str.upperB c = dot ↔ c = dot := upperB_eq_low c dot (by decide)

theorem toUpper_isEmpty (s : Bytes) : (Str.toUpper s).isEmpty = s.isEmpty := by
  cases s <;> rfl

theorem toUpper_reverse (s : Bytes) : Str.toUpper s.reverse = (Str.toUpper s).reverse := by
  simp [Str.toUpper]

theorem toUpper_append (a b : Bytes) : Str.toUpper (a ++ b) = Str.toUpper a ++ Str.toUpper b := by
  simp [Str.toUpper]

theorem toUpper_nil : Str.toUpper ([] : Bytes) = [] := rfl

theorem toks_toUpper (s : Bytes) : ∀ cur : Bytes,
    toks (Str.toUpper s) (Str.toUpper cur) = (toks s cur).map Str.toUpper := by
  induction s with
  | nil =>
    intro cur
    rw [toUpper_nil]
    simp only [toks, toUpper_isEmpty]
    split
    · rfl
    · simp [toUpper_reverse]
  | cons c r ih =>
    intro cur
    have e1 : Str.toUpper (c :: r) = Str.upperB c :: Str.toUpper r := rfl
    rw [e1]
    simp only [toks, upperB_eq_sep, toUpper_isEmpty]
    split
    · split
      · exact ih []
      · rw [List.map_cons, ← ih [], toUpper_reverse]
        rfl
    · exact ih (c :: cur)

theorem rel_toUpper (s : Bytes) : Rel (Str.toUpper s) ↔ Rel s := by
  cases s with
  | nil => simp [Rel, Str.toUpper]
  | cons c r => simp [Rel, Str.toUpper, upperB_eq_sep]

theorem getLast_toUpper_sep (s : Bytes) : (Str.toUpper s).getLast? = some sep ↔ s.getLast? = some sep := by
  unfold Str.toUpper
  rw [List.getLast?_map]
  cases s.getLast? with
  | none => simp
  | some l => simp [upperB_eq_sep]

theorem toUpper_dot : Str.toUpper [dot] = [dot] := by decide

theorem elems_toUpper_rel (s : Bytes) (h : Rel s) : elems (Str.toUpper s) = (elems s).map Str.toUpper := by
  rw [elems_rel _ ((rel_toUpper s).mpr h), elems_rel s h]
  have := toks_toUpper s []
  rw [toUpper_nil] at this
  rw [this, List.map_append]
  congr 1
  have hl := getLast_toUpper_sep s
  by_cases e : s.getLast? = some sep
  · rw [if_pos e, if_pos (hl.mpr e)]; decide
  · rw [if_neg e, if_neg (fun x => e (hl.mp x))]; rfl

/-- two relative paths with the same elements are equal paths -/
theorem pathsAreEqual_of_elems_eq (a b : Bytes) (ha : Rel a) (hb : Rel b) (h : elems a = elems b) :
    pathsAreEqual a b = true := by
  simp only [pathsAreEqual, beq_iff_eq]
  rw [elems_toUpper_rel a ha, elems_toUpper_rel b hb, h]

end Op2.Path
