import Op2Proofs.Huff.F
namespace Op2.Huff
namespace TF

theorem Struct.child_iff {t : TF} (s : Struct t) {k x : Nat} (hk : k < t.n) (hl : t.link k < t.n)
    (hx : x < t.n - 1) : (t.link k = x ∨ t.link k + 1 = x) ↔ k = t.par x := by
  constructor
  · rintro (e | e)
    · have := s.parL k hk; rw [e] at this; exact this.symm
    · have := s.parR k hk hl; rw [e] at this; exact this.symm
  · intro e
    obtain ⟨_, _, _, h⟩ := s.parent_lt hx
    rw [e]; exact h

theorem Struct.ind_sum {t : TF} (s : Struct t) {k x : Nat} (hk : k < t.n) (hl : t.link k < t.n)
    (hx : x < t.n - 1) :
    (if t.link k = x then 1 else 0) + (if t.link k + 1 = x then 1 else 0) = (if k = t.par x then 1 else 0) := by
  have h := s.child_iff hk hl hx
  by_cases e1 : t.link k = x
  · have e2 : ¬ (t.link k + 1 = x) := by omega
    have e3 : k = t.par x := h.mp (Or.inl e1)
    rw [if_pos e1, if_neg e2, if_pos e3]
  · by_cases e2 : t.link k + 1 = x
    · have e3 : k = t.par x := h.mp (Or.inr e2)
      rw [if_neg e1, if_pos e2, if_pos e3]
    · have e3 : ¬ (k = t.par x) := fun e => by rcases h.mpr e with h | h <;> contradiction
      rw [if_neg e1, if_neg e2, if_neg e3]

theorem Struct.root_not_child {t : TF} (s : Struct t) {k : Nat} (hk : k < t.n) (hl : t.link k < t.n) :
    t.link k ≠ t.root ∧ t.link k + 1 ≠ t.root := by
  have := s.rng k hk; unfold root; omega

/-- the sums invariant expressed on the corrected counts: `cntm k + [k = c] = cntm l + cntm (l+1)` -/
theorem LoopInv.sums_m {t : TF} {c : Nat} (L : LoopInv t c) (hc : c ≠ t.root) {k : Nat} (hk : k < t.n)
    (hl : t.link k < t.n) :
    t.cntm c k + (if k = c then 1 else 0) = t.cntm c (t.link k) + t.cntm c (t.link k + 1) := by
  have hc' : c < t.n - 1 := by have := L.hc; unfold root at hc; omega
  have h := L.sums k hk hl
  have hi := L.st.ind_sum hk hl hc'
  have hcpos := L.cpos
  have e0 : ∀ x, t.cnt x = t.cntm c x + (if x = c then 1 else 0) := by
    intro x; simp only [cntm]; split
    · rename_i e; rw [e]; omega
    · omega
  rw [e0 k, e0 (t.link k), e0 (t.link k + 1)] at h
  by_cases e : k = t.par c
  · rw [if_pos ⟨hc, e⟩] at h
    rw [if_pos e] at hi
    omega
  · have e' : ¬ (c ≠ t.root ∧ k = t.par c) := fun h => e h.2
    rw [if_neg e'] at h
    rw [if_neg e] at hi
    omega
end TF
end Op2.Huff
