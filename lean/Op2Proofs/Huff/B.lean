import Op2Proofs.Huff.Inv
namespace Op2.Huff
namespace TF

theorem Struct.parent_lt {t : TF} (s : Struct t) {j : Nat} (hj : j < t.n - 1) :
    t.par j < t.n ∧ t.link (t.par j) < t.n ∧ j < t.par j ∧
    (t.link (t.par j) = j ∨ t.link (t.par j) + 1 = j) := by
  rcases Nat.mod_two_eq_zero_or_one j with h | h
  · obtain ⟨h1, h2⟩ := s.chL j hj h
    have := s.rng _ h1
    refine ⟨h1, by omega, by omega, Or.inl h2⟩
  · obtain ⟨h1, h2⟩ := s.chR j hj h
    have := s.rng _ h1
    refine ⟨h1, by omega, by omega, Or.inr h2⟩

/-- sibling of a non-root node -/
def sib (j : Nat) : Nat := if j % 2 = 0 then j + 1 else j - 1

theorem Struct.children {t : TF} (s : Struct t) {j : Nat} (hj : j < t.n - 1) :
    (t.link (t.par j) = j ∧ t.link (t.par j) + 1 = sib j) ∨ (t.link (t.par j) = sib j ∧ t.link (t.par j) + 1 = j) := by
  unfold sib
  rcases Nat.mod_two_eq_zero_or_one j with h | h
  · obtain ⟨h1, h2⟩ := s.chL j hj h
    left; simp [h, h2]
  · obtain ⟨h1, h2⟩ := s.chR j hj h
    right; simp [h]; omega

theorem LoopInv.parent_ge {t : TF} {c : Nat} (L : LoopInv t c) (hc : c ≠ t.root) :
    t.cnt c ≤ t.cnt (t.par c) := by
  have hc' : c < t.n - 1 := by have := L.hc; unfold root at hc; omega
  obtain ⟨h1, h2, h3, _⟩ := L.st.parent_lt hc'
  have hs := L.sums _ h1 h2
  simp only [hc, ne_eq, not_false_eq_true, true_and, if_true] at hs
  rcases L.st.children hc' with ⟨e1, e2⟩ | ⟨e1, e2⟩
  · rw [e2, e1] at hs
    have hsn : sib c < t.n := by
      have := L.st.rng _ h1; omega
    have := L.pos (sib c) hsn
    have hne : sib c ≠ c := by unfold sib; split <;> omega
    simp only [cntm, hne, if_false] at this
    omega
  · rw [e2, e1] at hs
    have hsn : sib c < t.n := by
      have := L.st.rng _ h1; omega
    have := L.pos (sib c) hsn
    have hne : sib c ≠ c := by
      unfold sib; split <;> omega
    simp only [cntm, hne, if_false] at this
    omega
end TF
end Op2.Huff
