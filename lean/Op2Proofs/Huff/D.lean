import Op2Proofs.Huff.C
namespace Op2.Huff
namespace TF

theorem swap_T (t : TF) (a b : Nat) : (t.swap a b).T = t.T := rfl
theorem swap_n (t : TF) (a b : Nat) : (t.swap a b).n = t.n := rfl
theorem swap_root (t : TF) (a b : Nat) : (t.swap a b).root = t.root := rfl

theorem swap_link (t : TF) (a b i : Nat) :
    (t.swap a b).link i = if i = b then t.link a else if i = a then t.link b else t.link i := by
  simp [swap, upd_apply]

theorem swap_cnt (t : TF) (a b i : Nat) :
    (t.swap a b).cnt i = if i = b then t.cnt a else if i = a then t.cnt b else t.cnt i := by
  simp [swap, upd_apply]

theorem swap_par (t : TF) (a b j : Nat) :
    (t.swap a b).par j =
      if t.link b < t.n ∧ j = t.link b + 1 then a else if j = t.link b then a
      else if t.link a < t.n ∧ j = t.link a + 1 then b else if j = t.link a then b else t.par j := by
  simp only [swap, upd_apply]
  by_cases c1 : t.link a < t.n <;> by_cases c2 : t.link b < t.n <;> simp [c1, c2, upd_apply] <;> grind

theorem Struct.link_inj {t : TF} (s : Struct t) {i j : Nat} (hi : i < t.n) (hj : j < t.n)
    (e : t.link i = t.link j) : i = j := by
  have := s.parL i hi; have := s.parL j hj; simp_all

theorem Struct.link_ne_succ {t : TF} (s : Struct t) {i j : Nat} (hi : i < t.n) (hj : j < t.n)
    (hl : t.link i < t.n) (e : t.link i + 1 = t.link j) : False := by
  have := s.rng i hi; have := s.rng j hj; omega

/-- swap of `a < b` preserves the structure provided b's children lie below a and b is not the root -/
theorem swap_struct (t : TF) (a b : Nat) (s : Struct t) (hab : a < b) (hb : b < t.n - 1)
    (hbelow : t.link b < t.n → t.link b + 1 < a) : Struct (t.swap a b) := by
  have hbn : b < t.n := by omega
  have ha : a < t.n := by omega
  have ra := s.rng a ha
  have rb := s.rng b hbn
  have hroot : t.root < t.n := by unfold root; omega
  have rr := s.rng _ hroot
  have hri := s.rootInner
  refine ⟨s.hT, ?_, ?_, ?_, ?_, ?_, ?_, ?_⟩
  · intro i hi
    rw [swap_n] at hi ⊢; rw [swap_T, swap_link]
    have ri := s.rng i hi
    split
    · subst_vars; omega
    · split
      · subst_vars; omega
      · exact ri
  · intro i hi
    rw [swap_n] at hi
    rw [swap_link, swap_par]
    have ri := s.rng i hi
    have pi := s.parL i hi
    have := @Struct.link_inj t s i a hi ha
    have := @Struct.link_inj t s i b hi hbn
    have := @Struct.link_inj t s a b ha hbn
    have := @Struct.link_ne_succ t s a i ha hi
    have := @Struct.link_ne_succ t s b i hbn hi
    have := @Struct.link_ne_succ t s i a hi ha
    have := @Struct.link_ne_succ t s i b hi hbn
    have := @Struct.link_ne_succ t s a b ha hbn
    have := @Struct.link_ne_succ t s b a hbn ha
    grind
  · intro i hi hl
    rw [swap_n] at hi hl
    rw [swap_link] at hl ⊢
    rw [swap_par]
    have ri := s.rng i hi
    have pi := s.parR i hi
    have pa := s.parR a ha
    have pb := s.parR b hbn
    have i1 := @Struct.link_inj t s i a hi ha
    have i2 := @Struct.link_inj t s i b hi hbn
    have i3 := @Struct.link_inj t s a b ha hbn
    have n1 := @Struct.link_ne_succ t s a i ha hi
    have n2 := @Struct.link_ne_succ t s b i hbn hi
    have n3 := @Struct.link_ne_succ t s i a hi ha
    have n4 := @Struct.link_ne_succ t s i b hi hbn
    have n5 := @Struct.link_ne_succ t s a b ha hbn
    have n6 := @Struct.link_ne_succ t s b a hbn ha
    clear rr hri hroot
    by_cases e1 : i = b
    · subst e1; simp only [if_true] at hl ⊢; grind
    · by_cases e2 : i = a
      · subst e2; simp only [e1, if_false, if_true] at hl ⊢; grind
      · simp only [e1, e2, if_false] at hl ⊢; grind
  · intro j hj hm
    rw [swap_n] at hj ⊢
    rw [swap_par, swap_link]
    obtain ⟨h1, h2⟩ := s.chL j hj hm
    have pLa := s.parL a ha; have pLb := s.parL b hbn
    have pRa := s.parR a ha; have pRb := s.parR b hbn
    grind
  · intro j hj hm
    rw [swap_n] at hj ⊢
    rw [swap_par, swap_link]
    obtain ⟨h1, h2⟩ := s.chR j hj hm
    have pLa := s.parL a ha; have pLb := s.parL b hbn
    have pRa := s.parR a ha; have pRb := s.parR b hbn
    grind
  · intro j hj1 hj2
    rw [swap_n] at hj1 hj2 ⊢; rw [swap_T] at hj2
    rw [swap_par, swap_link]
    obtain ⟨h1, h2⟩ := s.chC j hj1 hj2
    have pLa := s.parL a ha; have pLb := s.parL b hbn
    grind
  · rw [swap_root, swap_n, swap_link]
    have : t.root ≠ b := by unfold root; omega
    have : t.root ≠ a := by unfold root; omega
    simp [*]
end TF
end Op2.Huff
