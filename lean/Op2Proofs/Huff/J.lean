import Op2Proofs.Huff.I
namespace Op2.Huff
namespace TF

theorem walk_append (t : TF) (node : Nat) (xs : List Nat) (b : Nat) :
    walk t node (xs ++ [b]) = t.link (walk t node xs) + b := by
  simp [walk, List.foldl_append]

theorem Struct.down {t : TF} (s : Struct t) {j : Nat} (hj : j < t.n - 1) : t.link (t.par j) + j % 2 = j := by
  rcases Nat.mod_two_eq_zero_or_one j with h | h
  · rw [h]; exact (s.chL j hj h).2
  · rw [h]; exact (s.chR j hj h).2

/-- decoding the (root-to-leaf ordered) path bits of node `j` from the root arrives at `j` -/
theorem walk_up {t : TF} (s : Struct t) : ∀ fuel j, j < t.n → t.root - j ≤ fuel →
    walk t t.root (up t j fuel).reverse = j := by
  intro fuel
  induction fuel with
  | zero =>
    intro j hj h
    have : j = t.root := by unfold root at *; omega
    simp [up, walk, this]
  | succ fuel ih =>
    intro j hj h
    simp only [up]
    split
    · rename_i e; simp [walk, e]
    · rename_i e
      have hj' : j < t.n - 1 := by unfold root at e; omega
      obtain ⟨hp, _, hlt, _⟩ := s.parent_lt hj'
      rw [List.reverse_cons, walk_append, ih (t.par j) hp (by omega)]
      exact s.down hj'

/-- **C15 prefix-code core**: decoding the encoder's bits from the root reaches the leaf that holds `code` -/
theorem decode_encode {t : TF} (s : Struct t) {code : Nat} (hcode : code < t.T) :
    let leaf := walk t t.root (encode t code)
    leaf < t.n ∧ t.link leaf = code + t.n := by
  intro leaf
  obtain ⟨h1, h2⟩ := s.chC (code + t.n) (by omega) (by omega)
  have : leaf = t.par (code + t.n) := walk_up s t.n _ h1 (by unfold root; omega)
  rw [this]; exact ⟨h1, h2⟩

/-- all bits are 0/1 and every proper prefix of the path stays on inner nodes -/
theorem up_bits (t : TF) : ∀ fuel j b, b ∈ up t j fuel → b < 2 := by
  intro fuel
  induction fuel with
  | zero => intro j b h; simp [up] at h
  | succ fuel ih =>
    intro j b h
    simp only [up] at h
    split at h
    · simp at h
    · rcases List.mem_cons.mp h with h | h
      · rw [h]; omega
      · exact ih _ _ h
end TF
end Op2.Huff
