import Op2Proofs.Huff.M
/-!
# The LZHUF-style reference update equals the modelled update on every well-formed tree
-/
namespace Op2.Huff
open TF

theorem ref_find_eq_scan (t : TF) (c : Nat) : ∀ fuel l, Ref.find t (t.cnt c) l fuel = scan t c l fuel := by
  intro fuel
  induction fuel with
  | zero => intro l; rfl
  | succ f ih => intro l; simp only [Ref.find, scan, ih]

theorem scan_ge (t : TF) (c : Nat) : ∀ fuel l, l ≤ scan t c l fuel := by
  intro fuel
  induction fuel with
  | zero => intro l; exact Nat.le_refl _
  | succ f ih =>
    intro l
    simp only [scan]
    split
    · exact Nat.le_trans (Nat.le_succ l) (ih (l + 1))
    · exact Nat.le_refl _

theorem ref_exchange_eq_swap (t : TF) (c l : Nat) (h : c ≠ l) : Ref.exchange t c l = t.swap c l := by
  have hl : upd (upd t.link l (t.link c)) c (t.link l) = upd (upd t.link c (t.link l)) l (t.link c) := by
    funext j
    simp only [upd]
    by_cases e1 : j = c <;> by_cases e2 : j = l
    · exact absurd (e1.symm.trans e2) h
    · simp [e1, h]
    · simp [e2, Ne.symm h]
    · simp [e1, e2]
  show ({ t with cnt := _, par := _, link := upd (upd t.link l (t.link c)) c (t.link l) } : TF) = _
  rw [hl]; rfl

theorem ref_climb_eq : ∀ f (t : TF) (c : Nat), LoopInv (t.bump c) c → (t.bump c).root - c ≤ f →
    Ref.climb t c (f + 1) = climb (t.bump c) c f := by
  intro f
  induction f with
  | zero =>
    intro t c L h
    have hc : c = (t.bump c).root := by have := L.hc; unfold root at *; omega
    simp only [Ref.climb, climb]
    rw [if_pos hc]
  | succ f ih =>
    intro t c L h
    by_cases hc : c = (t.bump c).root
    · simp only [Ref.climb, climb]; rw [if_pos hc, if_pos hc]
    · have X := step_ctx L hc
      obtain ⟨L', hlt⟩ := step_inv L hc
      have hn : (t.bump c).n = ((t.bump c).n - 1) + 1 := by
        have := L.st.hT; have : (t.bump c).n = 2 * (t.bump c).T - 1 := rfl; omega
      have hscan : scan (t.bump c) c c (t.bump c).n =
          if (t.bump c).cnt c > (t.bump c).cnt (c + 1) then scan (t.bump c) c (c + 1) ((t.bump c).n - 1) else c := by
        rw [hn]; simp only [scan]; rw [← hn]
      have lhs : climb (t.bump c) c (f + 1) =
          climb (((t.bump c).swap c (scan (t.bump c) c c (t.bump c).n)).bump
                  (((t.bump c).swap c (scan (t.bump c) c c (t.bump c).n)).par (scan (t.bump c) c c (t.bump c).n)))
                (((t.bump c).swap c (scan (t.bump c) c c (t.bump c).n)).par (scan (t.bump c) c c (t.bump c).n)) f := by
        simp only [climb]; rw [if_neg hc]
      rw [lhs]
      have hm : ((t.bump c).swap c (scan (t.bump c) c c (t.bump c).n)).root -
          ((t.bump c).swap c (scan (t.bump c) c c (t.bump c).n)).par (scan (t.bump c) c c (t.bump c).n) ≤ f := by
        rw [swap_root]; omega
      by_cases g : (t.bump c).cnt c > (t.bump c).cnt (c + 1)
      · -- the order is disturbed: search from c + 1, exchange
        have rhs : Ref.climb t c (f + 1 + 1) =
            Ref.climb (Ref.exchange (t.bump c) c (Ref.find (t.bump c) ((t.bump c).cnt c) (c + 1) ((t.bump c).n - 1)))
              ((Ref.exchange (t.bump c) c (Ref.find (t.bump c) ((t.bump c).cnt c) (c + 1) ((t.bump c).n - 1))).par
                (Ref.find (t.bump c) ((t.bump c).cnt c) (c + 1) ((t.bump c).n - 1))) (f + 1) := by
          simp only [Ref.climb]; rw [if_neg hc, if_pos g]
        rw [rhs, ref_find_eq_scan]
        have hb : scan (t.bump c) c c (t.bump c).n = scan (t.bump c) c (c + 1) ((t.bump c).n - 1) := by
          rw [hscan, if_pos g]
        rw [← hb]
        have hne : c ≠ scan (t.bump c) c c (t.bump c).n := by
          have := scan_ge (t.bump c) c ((t.bump c).n - 1) (c + 1); rw [← hb] at this; omega
        rw [ref_exchange_eq_swap _ _ _ hne]
        exact ih _ _ L' hm
      · have hb : scan (t.bump c) c c (t.bump c).n = c := by rw [hscan, if_neg g]
        have rhs : Ref.climb t c (f + 1 + 1) = Ref.climb (t.bump c) ((t.bump c).par c) (f + 1) := by
          simp only [Ref.climb]; rw [if_neg hc, if_neg g]
        rw [rhs]
        rw [hb] at L' hm ⊢
        rw [swap_self _ _ L.st L.hc] at L' hm ⊢
        exact ih _ _ L' hm

/-- **reference equivalence**: on every well-formed tree the LZHUF-style update and the modelled update produce the same
    three tables (hence the same shape, the same code for every symbol) -/
theorem ref_update_eq {t : TF} (w : WF t) {code : Nat} (hcode : code < t.T) : Ref.update t code = t.update code := by
  obtain ⟨L, _⟩ := w.start hcode
  unfold Ref.update TF.update
  exact ref_climb_eq t.n t _ L (by rw [bump_root]; unfold root; omega)

end Op2.Huff
