import Op2Proofs.Huff.H
namespace Op2.Huff
namespace TF

theorem step_inv {t : TF} {c : Nat} (L : LoopInv t c) (hc : c ≠ t.root) :
    let b := scan t c c t.n
    let t1 := t.swap c b
    let p := t1.par b
    LoopInv (t1.bump p) p ∧ c < p := by
  intro b t1 p
  have X : StepCtx t c b t1 := step_ctx L hc
  have hpb : p = t.par b := X.par_above b (Nat.le_refl _) X.hbn
  rw [hpb]
  have hm : ∀ i, (t1.bump (t.par b)).cntm (t.par b) i = t1.cnt i := by
    intro i; simp only [cntm, bump_cnt]; split <;> simp_all
  refine ⟨⟨bump_struct X.st1 _, X.hp, ?_, ?_, ?_, ?_⟩, by have := X.hbp; have := X.hb1; omega⟩
  · intro i hi; rw [hm]; exact X.pos1 i hi
  · rw [bump_cnt, if_pos rfl]; have := X.pos1 _ X.hp; omega
  · intro i hi; rw [hm, hm]; exact X.sorted1 i hi
  · intro i hi hl
    exact X.sums1 i hi hl

theorem LoopInv.toWF {t : TF} (L : LoopInv t t.root) : WF t := by
  refine ⟨L.st, ?_, ?_, ?_⟩
  · intro i hi
    have := L.pos i hi
    simp only [cntm] at this
    split at this <;> omega
  · intro i hi
    have := L.sorted i hi
    have hcp := L.cpos
    have hr : t.root = t.n - 1 := rfl
    simp only [cntm] at this
    split at this <;> split at this <;> omega
  · intro i hi hl
    have := L.sums i hi hl
    have e : ¬ (t.root ≠ t.root ∧ i = t.par t.root) := fun h => h.1 rfl
    rwa [if_neg e] at this

theorem climb_wf : ∀ fuel (t : TF) (c : Nat), LoopInv t c → t.root - c ≤ fuel → WF (climb t c fuel) := by
  intro fuel
  induction fuel with
  | zero =>
    intro t c L h
    have : c = t.root := by have := L.hc; unfold root at *; omega
    subst this
    simpa [climb] using L.toWF
  | succ fuel ih =>
    intro t c L h
    simp only [climb]
    split
    · rename_i e; subst e; exact L.toWF
    · rename_i e
      obtain ⟨L', hlt⟩ := step_inv L e
      exact ih _ _ L' (by
        show (t.swap c (scan t c c t.n)).root - _ ≤ fuel
        rw [swap_root]; omega)

theorem WF.start {t : TF} (w : WF t) {code : Nat} (hcode : code < t.T) :
    let c := t.par (code + t.n)
    LoopInv (t.bump c) c ∧ c ≠ t.root := by
  intro c
  obtain ⟨hcn, hlc⟩ := w.st.chC (code + t.n) (by omega) (by omega)
  change c < t.n at hcn
  change t.link c = code + t.n at hlc
  have hr : t.root = t.n - 1 := rfl
  clear_value c
  have hne : c ≠ t.root := by
    intro e
    have := w.st.rootInner
    rw [← e] at this
    omega
  refine ⟨⟨bump_struct w.st c, hcn, ?_, ?_, ?_, ?_⟩, hne⟩
  · intro i hi
    change i < t.n at hi
    have := w.pos i hi
    by_cases e : i = c
    · rw [e] at this ⊢; simp only [cntm, bump_cnt, if_true]; omega
    · simp only [cntm, bump_cnt, if_neg e]; exact this
  · rw [bump_cnt, if_pos rfl]; have := w.pos c hcn; omega
  · intro i hi
    change i + 1 < t.n at hi
    have := w.sorted i hi
    have e0 : ∀ x, (t.bump c).cntm c x = t.cnt x := by
      intro x
      by_cases e : x = c
      · rw [e]; simp only [cntm, bump_cnt, if_true]; omega
      · simp only [cntm, bump_cnt, if_neg e]
    rw [e0, e0]; exact this
  · intro i hi hl
    change t.link i < t.n at hl
    change i < t.n at hi
    show (if c ≠ t.root ∧ i = t.par c then (t.bump c).cnt i + 1 else (t.bump c).cnt i) =
      (t.bump c).cnt (t.link i) + (t.bump c).cnt (t.link i + 1)
    have hc' : c < t.n - 1 := by unfold root at hne; omega
    have hs := w.sums i hi hl
    have hind := w.st.ind_sum hi hl hc'
    have hic : i ≠ c := by intro e; rw [e] at hl; omega
    rw [bump_cnt, bump_cnt, bump_cnt, if_neg hic]
    by_cases e : i = t.par c
    · rw [if_pos ⟨hne, e⟩]; rw [if_pos e] at hind
      by_cases e1 : t.link i = c
      · have e2 : ¬ (t.link i + 1 = c) := by omega
        rw [if_pos e1, if_neg e2]; rw [← e1]; omega
      · have e2 : t.link i + 1 = c := by
          rw [if_neg e1] at hind
          by_cases e2 : t.link i + 1 = c
          · exact e2
          · rw [if_neg e2] at hind; omega
        rw [if_neg e1, if_pos e2]; rw [← e2]; omega
    · have e' : ¬ (c ≠ t.root ∧ i = t.par c) := fun h => e h.2
      rw [if_neg e']; rw [if_neg e] at hind
      have e1 : ¬ (t.link i = c) := by intro h; rw [if_pos h] at hind; omega
      have e2 : ¬ (t.link i + 1 = c) := by intro h; rw [if_pos h] at hind; omega
      rw [if_neg e1, if_neg e2]; exact hs

/-- **C15 core**: one update keeps the tree well formed -/
theorem update_wf {t : TF} (w : WF t) {code : Nat} (hcode : code < t.T) : WF (t.update code) := by
  obtain ⟨L, _⟩ := w.start hcode
  exact climb_wf t.n _ _ L (by show (t.bump _).root - _ ≤ t.n; rw [bump_root]; unfold root; omega)
end TF
end Op2.Huff
