import Op2Proofs.Huff.E
namespace Op2.Huff
namespace TF

theorem bump_link (t : TF) (p : Nat) : (t.bump p).link = t.link := rfl
theorem bump_par (t : TF) (p : Nat) : (t.bump p).par = t.par := rfl
theorem bump_T (t : TF) (p : Nat) : (t.bump p).T = t.T := rfl
theorem bump_n (t : TF) (p : Nat) : (t.bump p).n = t.n := rfl
theorem bump_root (t : TF) (p : Nat) : (t.bump p).root = t.root := rfl
theorem bump_cnt (t : TF) (p i : Nat) : (t.bump p).cnt i = if i = p then t.cnt p + 1 else t.cnt i := by
  simp [bump, upd_apply]

theorem bump_struct {t : TF} (s : Struct t) (p : Nat) : Struct (t.bump p) :=
  ⟨s.hT, s.rng, s.parL, s.parR, s.chL, s.chR, s.chC, s.rootInner⟩

/-- facts about the leader `b`, the swapped tree `t1` and `p = par b`, shared by the step lemmas -/
structure StepCtx (t : TF) (c b : Nat) (t1 : TF) : Prop where
  L : LoopInv t c
  hc : c ≠ t.root
  hb1 : c ≤ b
  hbq : b < t.par c
  hblock : ∀ j, c < j → j ≤ b → t.cnt j + 1 = t.cnt c
  hstop : t.cnt c ≤ t.cnt (b + 1)
  ht1 : t1 = t.swap c b

theorem step_ctx {t : TF} {c : Nat} (L : LoopInv t c) (hc : c ≠ t.root) :
    StepCtx t c (scan t c c t.n) (t.swap c (scan t c c t.n)) := by
  have hcn := L.hc
  have hc' : c < t.n - 1 := by unfold root at hc; omega
  obtain ⟨hq, hql, hcq, _⟩ := L.st.parent_lt hc'
  obtain ⟨hb1, hbq, hblock, hstop⟩ := scan_spec L hc t.n c (Nat.le_refl _) hcq (by omega)
    (by intro j h1 h2; omega)
  exact ⟨L, hc, hb1, hbq, hblock, hstop, rfl⟩

namespace StepCtx
variable {t : TF} {c b : Nat} {t1 : TF} (X : StepCtx t c b t1)
include X

theorem hcn : c < t.n := X.L.hc
theorem hc' : c < t.n - 1 := by have := X.L.hc; have := X.hc; unfold root at *; omega
theorem hq : t.par c < t.n := (X.L.st.parent_lt X.hc').1
theorem hcq : c < t.par c := (X.L.st.parent_lt X.hc').2.2.1
theorem hb' : b < t.n - 1 := by have := X.hq; have := X.hbq; omega
theorem hbn : b < t.n := by have := X.hb'; omega
theorem hp : t.par b < t.n := (X.L.st.parent_lt X.hb').1
theorem hbp : b < t.par b := (X.L.st.parent_lt X.hb').2.2.1
theorem hbv : b ≠ c → t.cnt b + 1 = t.cnt c := fun e => X.hblock b (by have := X.hb1; omega) (Nat.le_refl _)

theorem st1 : Struct t1 := by
  by_cases e : b = c
  · rw [X.ht1, e, swap_self t c X.L.st X.hcn]; exact X.L.st
  · have hcb : c < b := by have := X.hb1; omega
    rw [X.ht1]
    exact swap_struct t c b X.L.st hcb X.hb'
      (fun hl => X.L.leader_children_below X.hc hcb X.hbq (X.hblock b hcb (Nat.le_refl _)) hl)

/-- parents of nodes at or above `b` are not touched by the swap -/
theorem par_above (j : Nat) (hj : b ≤ j) (hjn : j < t.n) : t1.par j = t.par j := by
  rw [X.ht1, swap_par]
  have rc := X.L.st.rng c X.hcn
  have rb := X.L.st.rng b X.hbn
  have := X.hb1
  have : ¬ (t.link b < t.n ∧ j = t.link b + 1) := by omega
  have : ¬ (j = t.link b) := by omega
  have : ¬ (t.link c < t.n ∧ j = t.link c + 1) := by omega
  have : ¬ (j = t.link c) := by omega
  simp [*]

theorem cnt1 (i : Nat) : t1.cnt i = if i = b then t.cnt c else if i = c then t.cnt b else t.cnt i := by
  rw [X.ht1]; exact swap_cnt t c b i

theorem link1 (i : Nat) : t1.link i = if i = b then t.link c else if i = c then t.link b else t.link i := by
  rw [X.ht1]; exact swap_link t c b i

theorem key (j : Nat) : t1.cnt j = t.cntm c j + (if j = b then 1 else 0) := by
  rw [X.cnt1]
  have hcpos := X.L.cpos
  by_cases e1 : j = b
  · rw [if_pos e1, if_pos e1]
    by_cases e2 : j = c
    · rw [e2]; simp [cntm]; omega
    · have hbc : b ≠ c := by omega
      have := X.hbv hbc
      rw [e1]; simp [cntm, hbc]; omega
  · rw [if_neg e1, if_neg e1]
    by_cases e2 : j = c
    · have hbc : b ≠ c := by omega
      have := X.hbv hbc
      rw [if_pos e2, e2]; simp [cntm]; omega
    · rw [if_neg e2]; simp [cntm, e2]

theorem pos1 (i : Nat) (hi : i < t.n) : 1 ≤ t1.cnt i := by
  rw [X.key]; have := X.L.pos i hi; omega

theorem sorted1 (i : Nat) (hi : i + 1 < t.n) : t1.cnt i ≤ t1.cnt (i + 1) := by
  rw [X.key, X.key]
  have s0 := X.L.sorted i hi
  have hcpos := X.L.cpos
  by_cases e1 : i = b
  · have : i + 1 ≠ b := by omega
    simp only [e1, if_true, if_false]
    rw [e1] at this
    simp only [this, if_false]
    have hne : b + 1 ≠ c := by have := X.hb1; omega
    have e3 : t.cntm c (b + 1) = t.cnt (b + 1) := by simp [cntm, hne]
    have e4 : t.cntm c b + 1 = t.cnt c := by
      by_cases e : b = c
      · rw [e]; simp [cntm]; omega
      · have := X.hbv e; simp [cntm, e]; omega
    have := X.hstop
    omega
  · simp only [e1, if_false]
    split <;> omega
end StepCtx
end TF
end Op2.Huff
