import Op2Proofs.Huff.D
namespace Op2.Huff
namespace TF

theorem LoopInv.mono {t : TF} {c : Nat} (L : LoopInv t c) :
    ∀ d i, i + d < t.n → t.cntm c i ≤ t.cntm c (i + d) := by
  intro d
  induction d with
  | zero => intro i _; exact Nat.le_refl _
  | succ d ih =>
    intro i h
    have h1 := ih i (by omega)
    have h2 := L.sorted (i + d) (by omega)
    rw [Nat.add_assoc] at h2
    exact Nat.le_trans h1 h2

theorem LoopInv.mono' {t : TF} {c : Nat} (L : LoopInv t c) {i j : Nat} (hij : i ≤ j) (hj : j < t.n) :
    t.cntm c i ≤ t.cntm c j := by
  have := L.mono (j - i) i (by omega)
  rwa [Nat.add_sub_cancel' hij] at this

theorem swap_self (t : TF) (a : Nat) (s : Struct t) (ha : a < t.n) : t.swap a a = t := by
  have pL := s.parL a ha
  have pR := s.parR a ha
  cases t with
  | mk T link cnt par =>
    simp only [swap, TF.mk.injEq, true_and]
    refine ⟨?_, ?_, ?_⟩
    · funext j; simp only [upd_apply]; split <;> simp_all
    · funext j; simp only [upd_apply]; split <;> simp_all
    · funext j
      simp only at pL pR
      by_cases c1 : link a < TF.n ⟨T, link, cnt, par⟩
      · have := pR c1
        simp only [c1, if_true, upd_apply]
        repeat' split
        all_goals simp_all
      · simp only [c1, if_false, upd_apply]
        repeat' split
        all_goals simp_all

/-- children of the block leader lie strictly below the current node -/
theorem LoopInv.leader_children_below {t : TF} {c b : Nat} (L : LoopInv t c) (hc : c ≠ t.root)
    (hcb : c < b) (hbq : b < t.par c) (hv : t.cnt b + 1 = t.cnt c) (hl : t.link b < t.n) :
    t.link b + 1 < c := by
  have hc' : c < t.n - 1 := by have := L.hc; unfold root at hc; omega
  obtain ⟨hq, _, _, _⟩ := L.st.parent_lt hc'
  have hbn : b < t.n := by omega
  have rb := L.st.rng b hbn
  have hs := L.sums b hbn hl
  have hne : ¬ (c ≠ t.root ∧ b = t.par c) := by omega
  simp only [hne, if_false] at hs
  have pL := L.st.parL b hbn
  have pR := L.st.parR b hbn hl
  -- neither child is c
  have n1 : t.link b ≠ c := by intro e; rw [e] at pL; omega
  have n2 : t.link b + 1 ≠ c := by intro e; rw [e] at pR; omega
  have p1 := L.pos (t.link b) (by omega)
  have p2 := L.pos (t.link b + 1) (by omega)
  simp only [cntm, n1, n2, if_false] at p1 p2
  -- if link b + 1 ≥ c then its count is at least cnt c - 1
  refine Nat.lt_of_not_le (fun hge => ?_)
  have hgt : c < t.link b + 1 := by omega
  have := L.mono' (Nat.le_of_lt hgt) (by omega)
  simp only [cntm, n2, if_true, if_false] at this
  omega
end TF
end Op2.Huff
