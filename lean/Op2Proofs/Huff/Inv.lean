import Op2Model.Huff
/-! # Invariants of the adaptive Huffman tree (C15) -/
namespace Op2.Huff
namespace TF
structure Struct (t : TF) : Prop where
  hT : 2 ≤ t.T
  rng : ∀ i, i < t.n → (t.link i < t.n - 1 ∧ t.link i % 2 = 0 ∧ t.link i + 1 < i) ∨ (t.n ≤ t.link i ∧ t.link i < t.n + t.T)
  parL : ∀ i, i < t.n → t.par (t.link i) = i
  parR : ∀ i, i < t.n → t.link i < t.n → t.par (t.link i + 1) = i
  /-- every non-root node / code slot is somebody's child -/
  chL : ∀ j, j < t.n - 1 → j % 2 = 0 → t.par j < t.n ∧ t.link (t.par j) = j
  chR : ∀ j, j < t.n - 1 → j % 2 = 1 → t.par j < t.n ∧ t.link (t.par j) + 1 = j
  chC : ∀ j, t.n ≤ j → j < t.n + t.T → t.par j < t.n ∧ t.link (t.par j) = j
  rootInner : t.link t.root < t.n

/-- counts with the current node's increment taken back -/
def cntm (t : TF) (c : Nat) (j : Nat) : Nat := if j = c then t.cnt j - 1 else t.cnt j

structure LoopInv (t : TF) (c : Nat) : Prop where
  st : Struct t
  hc : c < t.n
  pos : ∀ i, i < t.n → 1 ≤ t.cntm c i
  cpos : 2 ≤ t.cnt c
  sorted : ∀ i, i + 1 < t.n → t.cntm c i ≤ t.cntm c (i + 1)
  sums : ∀ i, i < t.n → t.link i < t.n →
    (if c ≠ t.root ∧ i = t.par c then t.cnt i + 1 else t.cnt i) = t.cnt (t.link i) + t.cnt (t.link i + 1)

structure WF (t : TF) : Prop where
  st : Struct t
  pos : ∀ i, i < t.n → 1 ≤ t.cnt i
  sorted : ∀ i, i + 1 < t.n → t.cnt i ≤ t.cnt (i + 1)
  sums : ∀ i, i < t.n → t.link i < t.n → t.cnt i = t.cnt (t.link i) + t.cnt (t.link i + 1)
end TF
end Op2.Huff
