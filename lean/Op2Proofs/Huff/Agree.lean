import Op2Proofs.Huff.Arr
/-!
# Well-formedness only looks inside the tables

Two trees that agree on every table entry (`link`, `cnt` below `n`; `par` below `n + T`) are well formed together.
Used to start the array tree (`TA.init T` freezes `TF.init T`, and reads 0 outside the tables).
-/
namespace Op2.Huff
namespace TF

structure Agree (t u : TF) : Prop where
  hT : t.T = u.T
  link : ∀ i, i < t.n → t.link i = u.link i
  cnt : ∀ i, i < t.n → t.cnt i = u.cnt i
  par : ∀ j, j < t.n + t.T → t.par j = u.par j

theorem Agree.n_eq {t u : TF} (g : Agree t u) : t.n = u.n := by unfold n; rw [g.hT]

theorem Agree.struct {t u : TF} (g : Agree t u) (s : Struct t) : Struct u := by
  have hn := g.n_eq
  have hT := g.hT
  have hT2 := s.hT
  have hnT : t.n = 2 * t.T - 1 := rfl
  refine ⟨by rw [← hT]; exact s.hT, ?_, ?_, ?_, ?_, ?_, ?_, ?_⟩
  · intro i hi
    rw [← hn] at hi ⊢; rw [← hT, ← g.link i hi]; exact s.rng i hi
  · intro i hi
    rw [← hn] at hi
    have r := s.rng i hi
    rw [← g.link i hi, ← g.par _ (by omega)]; exact s.parL i hi
  · intro i hi hl
    rw [← hn] at hi hl
    rw [← g.link i hi] at hl ⊢
    rw [← g.par _ (by omega)]; exact s.parR i hi hl
  · intro j hj hm
    rw [← hn] at hj ⊢
    obtain ⟨h1, h2⟩ := s.chL j hj hm
    rw [← g.par j (by omega), ← g.link _ h1]; exact ⟨h1, h2⟩
  · intro j hj hm
    rw [← hn] at hj ⊢
    obtain ⟨h1, h2⟩ := s.chR j hj hm
    rw [← g.par j (by omega), ← g.link _ h1]; exact ⟨h1, h2⟩
  · intro j h1 h2
    rw [← hn] at h1 h2 ⊢; rw [← hT] at h2
    obtain ⟨h3, h4⟩ := s.chC j h1 h2
    rw [← g.par j h2, ← g.link _ h3]; exact ⟨h3, h4⟩
  · have : u.root = t.root := by unfold root; rw [hn]
    rw [this, ← hn, ← g.link _ (by unfold root; omega)]; exact s.rootInner

theorem Agree.wf {t u : TF} (g : Agree t u) (w : WF t) : WF u := by
  have hn := g.n_eq
  have hT2 := w.st.hT
  have hnT : t.n = 2 * t.T - 1 := rfl
  refine ⟨g.struct w.st, ?_, ?_, ?_⟩
  · intro i hi; rw [← hn] at hi; rw [← g.cnt i hi]; exact w.pos i hi
  · intro i hi; rw [← hn] at hi; rw [← g.cnt i (by omega), ← g.cnt (i + 1) hi]; exact w.sorted i hi
  · intro i hi hl
    rw [← hn] at hi hl
    rw [← g.link i hi] at hl ⊢
    have r := w.st.rng i hi
    rw [← g.cnt i hi, ← g.cnt _ hl, ← g.cnt _ (by omega)]
    exact w.sums i hi hl

end TF

namespace TA
open TF

theorem ofTF_agree' (t : TF) : Agree t (ofTF t).view :=
  ⟨rfl, fun i hi => ((ofTF_agree t).1 i hi).symm, fun i hi => ((ofTF_agree t).2.1 i hi).symm,
   fun j hj => ((ofTF_agree t).2.2 j hj).symm⟩

/-- the array tree starts well formed, for every size -/
theorem init_wf (T : Nat) (hT : 2 ≤ T) : WF (TA.init T).view ∧ (TA.init T).Sized ∧ (TA.init T).T = T :=
  ⟨(ofTF_agree' (TF.init T)).wf (TF.init_wf hT), ofTF_sized _, rfl⟩

theorem init_root_cnt (T : Nat) (hT : 2 ≤ T) : (TA.init T).view.cnt (TA.init T).view.root = T := by
  have g := ofTF_agree' (TF.init T)
  have hr : (TA.init T).view.root = (TF.init T).root := rfl
  rw [hr]
  show (ofTF (TF.init T)).view.cnt (TF.init T).root = T
  rw [← g.cnt _ (by rw [TF.init_root, TF.init_n]; omega)]
  exact TF.init_root_cnt T hT

end TA
end Op2.Huff
