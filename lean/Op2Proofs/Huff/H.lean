import Op2Proofs.Huff.G
namespace Op2.Huff
namespace TF
namespace StepCtx
variable {t : TF} {c b : Nat} {t1 : TF} (X : StepCtx t c b t1)
include X

/-- new count of any node in terms of the corrected old counts -/
theorem newcnt (x : Nat) : (t1.bump (t.par b)).cnt x =
    t.cntm c x + (if x = b then 1 else 0) + (if x = t.par b then 1 else 0) := by
  rw [bump_cnt, X.key, X.key]
  have := X.hbp
  by_cases e : x = t.par b
  · have : ¬ (t.par b = b) := by omega
    rw [if_pos e, if_pos e, e, if_neg this]
  · rw [if_neg e, if_neg e, Nat.add_zero]

/-- the generic computation: children of old node `k` carry the new counts -/
theorem children_new (k : Nat) (hk : k < t.n) (hl : t.link k < t.n) :
    (t1.bump (t.par b)).cnt (t.link k) + (t1.bump (t.par b)).cnt (t.link k + 1) =
      t.cntm c k + (if k = c then 1 else 0) + (if k = t.par b then 1 else 0)
        + (if t.par b ≠ t.root ∧ k = t.par (t.par b) then 1 else 0) := by
  rw [X.newcnt, X.newcnt]
  have hs := X.L.sums_m X.hc hk hl
  have hib := X.L.st.ind_sum hk hl X.hb'
  have hp := X.hp
  by_cases er : t.par b = t.root
  · have hnr := X.L.st.root_not_child hk hl
    rw [← er] at hnr
    have e' : ¬ (t.par b ≠ t.root ∧ k = t.par (t.par b)) := fun h => h.1 er
    rw [if_neg hnr.1, if_neg hnr.2, if_neg e']
    omega
  · have hp' : t.par b < t.n - 1 := by unfold root at er; omega
    have hip := X.L.st.ind_sum hk hl hp'
    by_cases e : k = t.par (t.par b)
    · rw [if_pos (show t.par b ≠ t.root ∧ k = t.par (t.par b) from ⟨er, e⟩)]; rw [if_pos e] at hip; omega
    · have e' : ¬ (t.par b ≠ t.root ∧ k = t.par (t.par b)) := fun h => e h.2
      rw [if_neg e']; rw [if_neg e] at hip; omega

theorem sums1 (i : Nat) (hi : i < t.n) (hl : t1.link i < t.n) :
    (if t.par b ≠ t.root ∧ i = t1.par (t.par b) then (t1.bump (t.par b)).cnt i + 1 else (t1.bump (t.par b)).cnt i)
      = (t1.bump (t.par b)).cnt (t1.link i) + (t1.bump (t.par b)).cnt (t1.link i + 1) := by
  have hp := X.hp
  have hbp := X.hbp
  have hb1 := X.hb1
  have hcn := X.hcn
  have hbn := X.hbn
  have hcpos := X.L.cpos
  rw [X.par_above (t.par b) (by omega) hp]
  have hg : t.par b ≠ t.root → t.par b < t.par (t.par b) := by
    intro er
    have hp' : t.par b < t.n - 1 := by unfold root at er; omega
    exact (X.L.st.parent_lt hp').2.2.1
  -- the old node whose children sit under position i after the swap
  obtain ⟨k, hk, hkn, hkp, hkg, hkc⟩ : ∃ k, t1.link i = t.link k ∧ k < t.n ∧
      ((k = t.par b) ↔ (i = t.par b)) ∧
      ((t.par b ≠ t.root ∧ k = t.par (t.par b)) ↔ (t.par b ≠ t.root ∧ i = t.par (t.par b))) ∧
      t.cntm c i + (if i = b then 1 else 0) = t.cntm c k + (if k = c then 1 else 0) := by
    rw [X.link1]
    by_cases e1 : i = b
    · refine ⟨c, by rw [if_pos e1], hcn, ?_, ?_, ?_⟩
      · constructor <;> intro h <;> omega
      · constructor <;> rintro ⟨h1, h2⟩ <;> have := hg h1 <;> omega
      · rw [if_pos e1, if_pos rfl, e1]
        by_cases e : b = c
        · rw [e]
        · have := X.hbv e
          simp only [cntm, e, if_false, if_true]; omega
    · by_cases e2 : i = c
      · have hbc : b ≠ c := fun h => e1 (by omega)
        refine ⟨b, by rw [if_neg e1, if_pos e2], hbn, ?_, ?_, ?_⟩
        · constructor <;> intro h <;> omega
        · constructor <;> rintro ⟨h1, h2⟩ <;> have := hg h1 <;> omega
        · rw [if_neg e1, if_neg hbc, e2]
          have := X.hbv hbc
          simp only [cntm, hbc, if_false, if_true]; omega
      · refine ⟨i, by rw [if_neg e1, if_neg e2], hi, Iff.rfl, Iff.rfl, ?_⟩
        rw [if_neg e1, if_neg e2]
  rw [hk] at hl ⊢
  rw [X.children_new k hkn hl, X.newcnt i]
  have d1 : (if k = t.par b then 1 else 0) = (if i = t.par b then 1 else 0) := by
    by_cases e : i = t.par b
    · rw [if_pos e, if_pos (hkp.mpr e)]
    · rw [if_neg e, if_neg (fun h => e (hkp.mp h))]
  rw [d1]
  by_cases e3 : t.par b ≠ t.root ∧ i = t.par (t.par b)
  · rw [if_pos e3, if_pos (hkg.mpr e3)]; omega
  · rw [if_neg e3, if_neg (fun h => e3 (hkg.mp h))]; omega
end StepCtx
end TF
end Op2.Huff
