import Op2Proofs.Huff.B
namespace Op2.Huff
namespace TF

/-- what the block-leader scan returns -/
theorem scan_spec {t : TF} {c : Nat} (L : LoopInv t c) (hc : c ≠ t.root) :
    ∀ fuel b, c ≤ b → b < t.par c → t.par c ≤ b + fuel →
      (∀ j, c < j → j ≤ b → t.cnt j + 1 = t.cnt c) →
      let r := scan t c b fuel
      b ≤ r ∧ r < t.par c ∧ (∀ j, c < j → j ≤ r → t.cnt j + 1 = t.cnt c) ∧ t.cnt c ≤ t.cnt (r + 1) := by
  have hc' : c < t.n - 1 := by have := L.hc; unfold root at hc; omega
  obtain ⟨hq, _, _, _⟩ := L.st.parent_lt hc'
  have hge := L.parent_ge hc
  intro fuel
  induction fuel with
  | zero => intro b h1 h2 h3 _; omega
  | succ fuel ih =>
    intro b h1 h2 h3 h4
    simp only [scan]
    split
    · rename_i hgt
      have hb1 : b + 1 < t.par c := by
        by_cases e : b + 1 = t.par c
        · rw [e] at hgt; omega
        · omega
      have hcnt : t.cnt (b + 1) + 1 = t.cnt c := by
        have s1 := L.sorted c (by omega)
        -- cntm c c = cnt c - 1 ≤ cntm (c+1) ... chain up to b+1 via h4
        have hs : t.cntm c c ≤ t.cntm c (b + 1) := by
          by_cases e : b = c
          · subst e; exact s1
          · have hb := h4 b (by omega) (Nat.le_refl _)
            have s2 := L.sorted b (by omega)
            simp only [cntm] at s2 ⊢
            have : b ≠ c := e
            have : b + 1 ≠ c := by omega
            simp_all
            omega
        simp only [cntm, if_true] at hs
        have : b + 1 ≠ c := by omega
        simp only [this, if_false] at hs
        have := L.cpos
        omega
      have := ih (b + 1) (by omega) hb1 (by omega) (by
        intro j hj1 hj2
        by_cases e : j = b + 1
        · subst e; exact hcnt
        · exact h4 j hj1 (by omega))
      simp only at this
      refine ⟨by omega, this.2.1, this.2.2.1, this.2.2.2⟩
    · rename_i hle
      exact ⟨Nat.le_refl _, h2, h4, by omega⟩
end TF
end Op2.Huff
