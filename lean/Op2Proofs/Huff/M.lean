import Op2Proofs.Huff.L
namespace Op2.Huff
namespace TF

/-- the root counter goes up by exactly one per climb (nothing is ever swapped with the root) -/
theorem climb_root_cnt : ∀ fuel (t : TF) (c : Nat), LoopInv t c → t.root - c ≤ fuel →
    (climb t c fuel).cnt t.root = t.cnt t.root + (if c = t.root then 0 else 1) := by
  intro fuel
  induction fuel with
  | zero =>
    intro t c L h
    have : c = t.root := by have := L.hc; unfold root at *; omega
    simp [climb, this]
  | succ fuel ih =>
    intro t c L h
    simp only [climb]
    split
    · rename_i e; simp [e]
    · rename_i e
      obtain ⟨L', hlt⟩ := step_inv L e
      have X : StepCtx t c (scan t c c t.n) (t.swap c (scan t c c t.n)) := step_ctx L e
      have hpb : (t.swap c (scan t c c t.n)).par (scan t c c t.n) = t.par (scan t c c t.n) :=
        X.par_above _ (Nat.le_refl _) X.hbn
      have hroot : ((t.swap c (scan t c c t.n)).bump ((t.swap c (scan t c c t.n)).par (scan t c c t.n))).root = t.root := by
        rw [bump_root, swap_root]
      have := ih _ _ L' (by rw [hroot]; omega)
      rw [hroot] at this
      rw [this]
      have hb' := X.hb'
      have hc' := X.hc'
      have hr : t.root = t.n - 1 := rfl
      have c1 : (t.swap c (scan t c c t.n)).cnt t.root = t.cnt t.root := by
        rw [X.cnt1]; rw [if_neg (by omega), if_neg (by omega)]
      generalize (t.swap c (scan t c c t.n)).par (scan t c c t.n) = p at *
      rw [bump_cnt]
      by_cases e2 : t.root = p
      · rw [if_pos e2, if_pos e2.symm, ← e2, c1]
      · rw [if_neg e2, if_neg (fun h => e2 h.symm), c1]

theorem update_root_cnt {t : TF} (w : WF t) {code : Nat} (hcode : code < t.T) :
    (t.update code).cnt t.root = t.cnt t.root + 1 := by
  obtain ⟨L, hne⟩ := w.start hcode
  have hroot : (t.bump (t.par (code + t.n))).root = t.root := bump_root _ _
  have := climb_root_cnt t.n _ _ L (by rw [hroot]; have := L.hc; rw [bump_n] at this; unfold root; omega)
  rw [hroot] at this
  unfold update
  simp only []
  rw [this, bump_cnt, if_neg (fun h => hne h.symm), if_neg hne]

/-- every count is bounded by the root's -/
theorem WF.cnt_le_root {t : TF} (w : WF t) : ∀ i, i < t.n → t.cnt i ≤ t.cnt t.root := by
  have hr : t.root = t.n - 1 := rfl
  have key : ∀ d i, i + d = t.n - 1 → t.cnt i ≤ t.cnt (t.n - 1) := by
    intro d
    induction d with
    | zero => intro i h; have : i = t.n - 1 := by omega
              rw [this]; exact Nat.le_refl _
    | succ d ih =>
      intro i h
      have h1 := w.sorted i (by omega)
      have h2 := ih (i + 1) (by omega)
      omega
  intro i hi
  rw [hr]
  exact key (t.n - 1 - i) i (by omega)

/-- sum of `f` over `[a, a+len)` -/
def sumFrom (f : Nat → Nat) (a : Nat) : Nat → Nat
  | 0 => 0
  | len + 1 => f a + sumFrom f (a + 1) len

theorem sumFrom_snoc (f : Nat → Nat) : ∀ len a, sumFrom f a (len + 1) = sumFrom f a len + f (a + len) := by
  intro len
  induction len with
  | zero => intro a; simp [sumFrom]
  | succ len ih =>
    intro a
    rw [sumFrom, ih (a + 1), sumFrom]
    have : a + 1 + len = a + (len + 1) := by omega
    rw [this]; omega

theorem sumFrom_const_one (f : Nat → Nat) : ∀ len a, (∀ j, a ≤ j → j < a + len → f j = 1) → sumFrom f a len = len := by
  intro len
  induction len with
  | zero => intro a _; rfl
  | succ len ih =>
    intro a h
    rw [sumFrom, h a (Nat.le_refl _) (by omega), ih (a + 1) (fun j h1 h2 => h j (by omega) (by omega))]
    omega

/-- the queue argument: after merging the first `k` pairs the counts still waiting sum to `T` -/
theorem init_queue_sum (T : Nat) (hT : 2 ≤ T) : ∀ k, k ≤ T - 1 → sumFrom (cntI T) (2 * k) (T - k) = T := by
  intro k
  induction k with
  | zero => intro _; exact sumFrom_const_one _ _ _ (fun j _ h => cntI_leaf (by omega))
  | succ k ih =>
    intro hk
    have h0 := ih (by omega)
    -- [2k, T+k) = {2k, 2k+1} ++ [2k+2, T+k);  [2k+2, T+k+1) = [2k+2, T+k) ++ {T+k}
    have e1 : T - k = (T - k - 2) + 1 + 1 := by omega
    rw [e1, sumFrom, sumFrom] at h0
    have e2 : T - (k + 1) = (T - k - 2) + 1 := by omega
    rw [e2, sumFrom_snoc]
    have hin := cntI_inner (T := T) (i := T + k) (by omega) (by omega)
    have a1 : 2 * (T + k - T) = 2 * k := by omega
    rw [a1] at hin
    have a2 : 2 * (k + 1) + (T - k - 2) = T + k := by omega
    have a3 : 2 * k + 1 + 1 = 2 * (k + 1) := by omega
    rw [a2, hin]
    rw [a3] at h0
    omega

theorem init_root_cnt (T : Nat) (hT : 2 ≤ T) : (init T).cnt (init T).root = T := by
  have := init_queue_sum T hT (T - 1) (Nat.le_refl _)
  have e : T - (T - 1) = 1 := by omega
  rw [e, sumFrom, sumFrom] at this
  rw [init_cnt, init_root]
  have e2 : 2 * (T - 1) = 2 * T - 1 - 1 := by omega
  rw [e2] at this
  omega

end TF
end Op2.Huff
