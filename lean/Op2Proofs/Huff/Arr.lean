import Op2Model.HuffArr
import Op2Proofs.Huff.M
/-!
# The array tree refines the function-level tree (and every store is in bounds)
-/
namespace Op2.Huff
open TF

theorem vw_set (a : Array Nat) (i v : Nat) (h : i < a.size) : vw (a.setIfInBounds i v) = upd (vw a) i v := by
  funext j
  simp only [vw, upd, Array.getD_eq_getD_getElem?, Array.getElem?_setIfInBounds]
  by_cases e : j = i
  · subst e; simp [h]
  · have : ¬ (i = j) := fun h => e h.symm
    simp [e, this]

namespace TA

theorem view_T (a : TA) : a.view.T = a.T := rfl
theorem view_n (a : TA) : a.view.n = a.n := rfl
theorem view_root (a : TA) : a.view.root = a.root := rfl
theorem view_link (a : TA) (i : Nat) : a.view.link i = a.link.getD i 0 := rfl
theorem view_cnt (a : TA) (i : Nat) : a.view.cnt i = a.cnt.getD i 0 := rfl
theorem view_par (a : TA) (i : Nat) : a.view.par i = a.par.getD i 0 := rfl

theorem scan_view (a : TA) (c : Nat) : ∀ fuel b, scan a.cnt c b fuel = TF.scan a.view c b fuel := by
  intro fuel
  induction fuel with
  | zero => intro b; rfl
  | succ f ih =>
    intro b
    show (if a.cnt.getD c 0 > a.cnt.getD (b + 1) 0 then scan a.cnt c (b + 1) f else b) =
      (if a.view.cnt c > a.view.cnt (b + 1) then TF.scan a.view c (b + 1) f else b)
    rw [ih]; rfl

theorem bump_view (a : TA) (s : a.Sized) (i : Nat) (hi : i < a.n) :
    (a.bump i).view = a.view.bump i ∧ (a.bump i).Sized := by
  obtain ⟨s1, s2, s3⟩ := s
  refine ⟨?_, ?_⟩
  · show ({ T := a.T, link := vw a.link, cnt := vw (a.cnt.setIfInBounds i (a.cnt.getD i 0 + 1)), par := vw a.par } : TF) = _
    rw [vw_set _ _ _ (by omega)]; rfl
  · refine ⟨s1, ?_, s3⟩
    show (a.cnt.setIfInBounds _ _).size = a.n
    rw [Array.size_setIfInBounds]; exact s2

theorem vw_setIf (c : Prop) [Decidable c] (arr : Array Nat) (i v : Nat) (h : c → i < arr.size) :
    vw (if c then arr.setIfInBounds i v else arr) = if c then upd (vw arr) i v else vw arr := by
  by_cases hc : c
  · rw [if_pos hc, if_pos hc]; exact vw_set _ _ _ (h hc)
  · rw [if_neg hc, if_neg hc]

theorem size_setIf (c : Prop) [Decidable c] (arr : Array Nat) (i v : Nat) :
    (if c then arr.setIfInBounds i v else arr).size = arr.size := by
  split <;> simp

/-- the stores of `SwapNodes` all land inside the tables whenever both nodes are nodes and their links are links or
    symbols — and then the array swap is the function-level swap -/
theorem swap_view (a : TA) (s : a.Sized) (x y : Nat) (hx : x < a.n) (hy : y < a.n)
    (hlx : a.link.getD x 0 < a.n + a.T) (hly : a.link.getD y 0 < a.n + a.T) (hT : 1 ≤ a.T) :
    (a.swap x y).view = a.view.swap x y ∧ (a.swap x y).Sized := by
  obtain ⟨s1, s2, s3⟩ := s
  -- the four stages of the parent table
  have p1 : vw (a.par.setIfInBounds (a.link.getD x 0) y) = upd (vw a.par) (a.link.getD x 0) y :=
    vw_set _ _ _ (by omega)
  have z1 : (a.par.setIfInBounds (a.link.getD x 0) y).size = a.n + a.T := by rw [Array.size_setIfInBounds]; exact s3
  have p2 := vw_setIf (a.link.getD x 0 < a.n) (a.par.setIfInBounds (a.link.getD x 0) y) (a.link.getD x 0 + 1) y
    (by intro h; omega)
  have z2 := size_setIf (a.link.getD x 0 < a.n) (a.par.setIfInBounds (a.link.getD x 0) y) (a.link.getD x 0 + 1) y
  have p3 := vw_set (if a.link.getD x 0 < a.n then (a.par.setIfInBounds (a.link.getD x 0) y).setIfInBounds (a.link.getD x 0 + 1) y
      else a.par.setIfInBounds (a.link.getD x 0) y) (a.link.getD y 0) x (by omega)
  have z3 : ((if a.link.getD x 0 < a.n then (a.par.setIfInBounds (a.link.getD x 0) y).setIfInBounds (a.link.getD x 0 + 1) y
      else a.par.setIfInBounds (a.link.getD x 0) y).setIfInBounds (a.link.getD y 0) x).size = a.n + a.T := by
    rw [Array.size_setIfInBounds]; omega
  have p4 := vw_setIf (a.link.getD y 0 < a.n) ((if a.link.getD x 0 < a.n then (a.par.setIfInBounds (a.link.getD x 0) y).setIfInBounds (a.link.getD x 0 + 1) y
      else a.par.setIfInBounds (a.link.getD x 0) y).setIfInBounds (a.link.getD y 0) x) (a.link.getD y 0 + 1) x (by intro h; omega)
  have z4 := size_setIf (a.link.getD y 0 < a.n) ((if a.link.getD x 0 < a.n then (a.par.setIfInBounds (a.link.getD x 0) y).setIfInBounds (a.link.getD x 0 + 1) y
      else a.par.setIfInBounds (a.link.getD x 0) y).setIfInBounds (a.link.getD y 0) x) (a.link.getD y 0 + 1) x
  refine ⟨?_, ?_⟩
  · unfold swap TF.swap view
    congr 1
    · rw [vw_set _ _ _ (by rw [Array.size_setIfInBounds]; omega), vw_set _ _ _ (by omega)]; rfl
    · rw [vw_set _ _ _ (by rw [Array.size_setIfInBounds]; omega), vw_set _ _ _ (by omega)]; rfl
    · rw [p4, p3, p2, p1]; rfl
  · refine ⟨?_, ?_, ?_⟩
    · show ((a.link.setIfInBounds _ _).setIfInBounds _ _).size = a.n
      rw [Array.size_setIfInBounds, Array.size_setIfInBounds]; exact s1
    · show ((a.cnt.setIfInBounds _ _).setIfInBounds _ _).size = a.n
      rw [Array.size_setIfInBounds, Array.size_setIfInBounds]; exact s2
    · show (if a.link.getD y 0 < a.n then _ else _ : Array Nat).size = a.n + a.T
      rw [z4, z3]

theorem root_eq (a : TA) : a.root = a.view.root := rfl
theorem bump_root' (a : TA) (i : Nat) : (a.bump i).root = a.root := rfl
theorem swap_root' (a : TA) (x y : Nat) : (a.swap x y).root = a.root := rfl
theorem bump_T' (a : TA) (i : Nat) : (a.bump i).T = a.T := rfl
theorem swap_T' (a : TA) (x y : Nat) : (a.swap x y).T = a.T := rfl

/-- one round of the climb loop on arrays is the function-level round -/
theorem climb_view : ∀ fuel (a : TA) (c : Nat), a.Sized → LoopInv a.view c → a.root - c ≤ fuel →
    (climb a c fuel).view = TF.climb a.view c fuel ∧ (climb a c fuel).Sized ∧ (climb a c fuel).T = a.T := by
  intro fuel
  induction fuel with
  | zero => intro a c s _ _; exact ⟨rfl, s, rfl⟩
  | succ f ih =>
    intro a c s L h
    by_cases e : c = a.root
    · have e' : c = a.view.root := e
      have h1 : climb a c (f + 1) = a := by simp only [climb, if_pos e]
      have h2 : TF.climb a.view c (f + 1) = a.view := by simp only [TF.climb, if_pos e']
      rw [h1, h2]; exact ⟨rfl, s, rfl⟩
    · have e' : ¬ (c = a.view.root) := e
      have X := step_ctx L e'
      obtain ⟨L', hlt⟩ := step_inv L e'
      have hb := X.hbn
      have rc := L.st.rng c L.hc
      have rb := L.st.rng _ hb
      have hpar := X.par_above _ (Nat.le_refl _) hb
      have hpX := X.hp
      have hT := L.st.hT
      -- name the leader
      generalize hbdef : TF.scan a.view c c a.view.n = b at *
      obtain ⟨sv, ss⟩ := swap_view a s c b L.hc hb
        (by show a.view.link c < a.view.n + a.view.T; omega)
        (by show a.view.link b < a.view.n + a.view.T; omega) (by show 1 ≤ a.view.T; omega)
      have hp : (a.swap c b).par.getD b 0 = (a.view.swap c b).par b := by rw [← sv]; rfl
      have h1 : climb a c (f + 1) = climb ((a.swap c b).bump ((a.view.swap c b).par b)) ((a.view.swap c b).par b) f := by
        simp only [climb, if_neg e]
        rw [scan_view, show a.n = a.view.n from rfl, hbdef, hp]
      have h2 : TF.climb a.view c (f + 1) = TF.climb ((a.view.swap c b).bump ((a.view.swap c b).par b)) ((a.view.swap c b).par b) f := by
        simp only [TF.climb, if_neg e']
        rw [hbdef]
      rw [h1, h2]
      generalize hpdef : (a.view.swap c b).par b = p at *
      have hpn : p < (a.swap c b).n := by rw [hpar]; exact hpX
      obtain ⟨bv, bs⟩ := bump_view (a.swap c b) ss p hpn
      have hL : LoopInv ((a.swap c b).bump p).view p := by rw [bv, sv]; exact L'
      have hm : ((a.swap c b).bump p).root - p ≤ f := by
        rw [bump_root', swap_root']; omega
      have := ih _ _ bs hL hm
      rw [bv, sv] at this
      rw [bump_T', swap_T'] at this
      exact this

/-- **refinement**: on a well-formed tree of the right size the array update computes the function-level update; in
    particular every table index it reads or writes is inside the tables -/
theorem update_view (a : TA) (s : a.Sized) (w : WF a.view) (code : Nat) (hcode : code < a.T) :
    (a.update code).view = a.view.update code ∧ (a.update code).Sized ∧ (a.update code).T = a.T := by
  obtain ⟨L, _⟩ := w.start (show code < a.view.T from hcode)
  show (climb (a.bump (a.view.par (code + a.view.n))) (a.view.par (code + a.view.n)) a.view.n).view =
      TF.climb (a.view.bump (a.view.par (code + a.view.n))) (a.view.par (code + a.view.n)) a.view.n ∧
    (climb (a.bump (a.view.par (code + a.view.n))) (a.view.par (code + a.view.n)) a.view.n).Sized ∧
    (climb (a.bump (a.view.par (code + a.view.n))) (a.view.par (code + a.view.n)) a.view.n).T = a.T
  generalize a.view.par (code + a.view.n) = c at *
  have hc : c < a.n := L.hc
  obtain ⟨bv, bs⟩ := bump_view a s c hc
  have := climb_view a.view.n (a.bump c) c bs (by rw [bv]; exact L)
    (by rw [bump_root']; show a.n - 1 - c ≤ a.n; omega)
  rw [bv, bump_T'] at this
  exact this

theorem updateChecked_view (a : TA) (s : a.Sized) (w : WF a.view) (code : Nat) :
    (match a.updateChecked code with
     | .ok a' => TF.updateChecked a.view code = .ok a'.view ∧ a'.Sized
     | .error e => TF.updateChecked a.view code = .error e) := by
  unfold updateChecked TF.updateChecked
  by_cases h1 : code ≥ a.T
  · rw [if_pos h1, if_pos (show code ≥ a.view.T from h1)]
  · rw [if_neg h1, if_neg (show ¬ code ≥ a.view.T from h1)]
    by_cases h2 : a.cnt.getD a.root 0 ≥ maxCount
    · rw [if_pos h2, if_pos (show a.view.cnt a.view.root ≥ maxCount from h2)]
    · rw [if_neg h2, if_neg (show ¬ a.view.cnt a.view.root ≥ maxCount from h2)]
      obtain ⟨uv, us, _⟩ := update_view a s w code (by omega)
      exact ⟨by rw [uv], us⟩

/-! ### freezing a function-level tree -/

theorem vw_ofFn (k : Nat) (f : Nat → Nat) (i : Nat) (hi : i < k) : vw (Array.ofFn (n := k) (fun j => f j.val)) i = f i := by
  simp [vw, Array.getD_eq_getD_getElem?, hi]

theorem ofTF_sized (t : TF) : (ofTF t).Sized := by
  refine ⟨?_, ?_, ?_⟩ <;> simp [ofTF, TA.n, TF.n]

/-- the frozen tables agree with the functions on every index inside the tables -/
theorem ofTF_agree (t : TF) :
    (∀ i, i < t.n → (ofTF t).view.link i = t.link i) ∧ (∀ i, i < t.n → (ofTF t).view.cnt i = t.cnt i) ∧
    (∀ i, i < t.n + t.T → (ofTF t).view.par i = t.par i) :=
  ⟨fun i hi => vw_ofFn _ _ i hi, fun i hi => vw_ofFn _ _ i hi, fun i hi => vw_ofFn _ _ i hi⟩

end TA
end Op2.Huff
