import Op2Proofs.Huff.J
namespace Op2.Huff
namespace TF

/-- initial subtree counts of the balanced tree built by the constructor -/
theorem init_n (T : Nat) : (init T).n = 2 * T - 1 := rfl

theorem cntI_leaf {T i : Nat} (h : i < T) : cntI T i = 1 := by
  rw [cntI]; simp [h]

theorem cntI_inner {T i : Nat} (h1 : T ≤ i) (h2 : i < 2 * T - 1) :
    cntI T i = cntI T (2 * (i - T)) + cntI T (2 * (i - T) + 1) := by
  rw [cntI]
  have : ¬ i < T := by omega
  simp [this, h2]

theorem cntI_pos (T : Nat) : ∀ i, i < 2 * T - 1 → 1 ≤ cntI T i := by
  intro i
  induction i using Nat.strongRecOn with
  | _ i ih =>
    intro hi
    by_cases h : i < T
    · rw [cntI_leaf h]; omega
    · rw [cntI_inner (by omega) hi]
      have := ih (2 * (i - T)) (by omega) (by omega)
      omega

theorem cntI_sorted (T : Nat) : ∀ i, i + 1 < 2 * T - 1 → cntI T i ≤ cntI T (i + 1) := by
  intro i
  induction i using Nat.strongRecOn with
  | _ i ih =>
    intro hi
    by_cases h1 : i + 1 < T
    · rw [cntI_leaf (by omega), cntI_leaf h1]; omega
    · by_cases h2 : i < T
      · -- i = T - 1
        have hi1 : T ≤ i + 1 := by omega
        rw [cntI_leaf h2, cntI_inner hi1 hi]
        have := cntI_pos T (2 * (i + 1 - T)) (by omega)
        omega
      · have hTi : T ≤ i := by omega
        rw [cntI_inner hTi (by omega), cntI_inner (by omega) hi]
        have e : 2 * (i + 1 - T) = 2 * (i - T) + 2 := by omega
        rw [e]
        have s0 := ih (2 * (i - T)) (by omega) (by omega)
        have s1 := ih (2 * (i - T) + 1) (by omega) (by omega)
        have s2 := ih (2 * (i - T) + 2) (by omega) (by omega)
        have e2 : 2 * (i - T) + 1 + 1 = 2 * (i - T) + 2 := rfl
        rw [e2] at s1
        omega

theorem init_link (T i : Nat) : (init T).link i = if i < T then i + (2 * T - 1) else 2 * (i - T) := rfl
theorem init_par (T j : Nat) : (init T).par j = if j < 2 * T - 1 then j / 2 + T else j - (2 * T - 1) := rfl
theorem init_cnt (T i : Nat) : (init T).cnt i = cntI T i := rfl
theorem init_T (T : Nat) : (init T).T = T := rfl
theorem init_root (T : Nat) : (init T).root = 2 * T - 1 - 1 := rfl

theorem init_struct {T : Nat} (hT : 2 ≤ T) : Struct (init T) := by
  refine ⟨hT, ?_, ?_, ?_, ?_, ?_, ?_, ?_⟩
  · intro i hi
    rw [init_n] at hi ⊢; rw [init_T, init_link]
    by_cases h : i < T
    · rw [if_pos h]; right; omega
    · rw [if_neg h]; left; omega
  · intro i hi
    rw [init_n] at hi
    rw [init_par, init_link]
    by_cases h : i < T
    · have : ¬ (i + (2 * T - 1) < 2 * T - 1) := by omega
      rw [if_pos h, if_neg this]; omega
    · have : 2 * (i - T) < 2 * T - 1 := by omega
      rw [if_neg h, if_pos this]; omega
  · intro i hi hl
    rw [init_n] at hi hl
    rw [init_link] at hl
    rw [init_par, init_link]
    by_cases h : i < T
    · rw [if_pos h] at hl; omega
    · have : 2 * (i - T) + 1 < 2 * T - 1 := by omega
      rw [if_neg h, if_pos this]; omega
  · intro j hj hm
    rw [init_n] at hj ⊢
    have hjn : j < 2 * T - 1 := by omega
    rw [init_link, init_par, if_pos hjn]
    have : ¬ (j / 2 + T < T) := by omega
    rw [if_neg this]; omega
  · intro j hj hm
    rw [init_n] at hj ⊢
    have hjn : j < 2 * T - 1 := by omega
    rw [init_link, init_par, if_pos hjn]
    have : ¬ (j / 2 + T < T) := by omega
    rw [if_neg this]; omega
  · intro j hj1 hj2
    rw [init_n] at hj1 hj2 ⊢; rw [init_T] at hj2
    have hjn : ¬ (j < 2 * T - 1) := by omega
    rw [init_link, init_par, if_neg hjn]
    have : j - (2 * T - 1) < T := by omega
    rw [if_pos this]; omega
  · rw [init_root, init_n, init_link]
    have : ¬ (2 * T - 1 - 1 < T) := by omega
    rw [if_neg this]; omega

/-- **C15 base case**: the constructor's tree is well formed for every `T ≥ 2` -/
theorem init_wf {T : Nat} (hT : 2 ≤ T) : WF (init T) := by
  refine ⟨init_struct hT, ?_, ?_, ?_⟩
  · intro i hi; exact cntI_pos T i hi
  · intro i hi; exact cntI_sorted T i hi
  · intro i hi hl
    rw [init_n] at hi hl
    rw [init_link] at hl
    have h : ¬ i < T := by intro h; rw [if_pos h] at hl; omega
    rw [init_cnt, init_cnt, init_cnt, init_link, if_neg h]
    exact cntI_inner (by omega) hi

theorem climb_T : ∀ fuel (t : TF) (c : Nat), (climb t c fuel).T = t.T := by
  intro fuel
  induction fuel with
  | zero => intro t c; rfl
  | succ fuel ih =>
    intro t c
    simp only [climb]
    split
    · rfl
    · rw [ih]; rfl

theorem update_T (t : TF) (code : Nat) : (t.update code).T = t.T := by
  simp only [update]; rw [climb_T]; rfl

/-- every reachable tree is well formed -/
theorem reachable_wf {T : Nat} (hT : 2 ≤ T) (codes : List Nat) (h : ∀ c ∈ codes, c < T) :
    WF (codes.foldl update (init T)) := by
  suffices ∀ t : TF, WF t → t.T = T → WF (codes.foldl update t) from this _ (init_wf hT) rfl
  induction codes with
  | nil => intro t w _; exact w
  | cons c cs ih =>
    intro t w e
    simp only [List.foldl_cons]
    have hc : c < t.T := by rw [e]; exact h c (by simp)
    refine ih (fun x hx => h x (by simp [hx])) _ (update_wf w hc) ?_
    rw [update_T]; exact e
end TF

end Op2.Huff
