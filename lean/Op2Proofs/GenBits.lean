import Op2Proofs.GenBridge
import Op2Model.Gen.Bits
/-!
# Helpers for the bridging lemmas about `Op2.Gen.Bits` (bit reader, window indices, tree accessors)

The generated definitions spell C++ bit operations on `Int` (`Int.ofNat (a.toNat &&& b.toNat)`, `a * 2 ^ n.toNat`, `a / 2 ^ n.toNat`,
`castS 32 a`, `a % 2^w`).  The lemmas below turn each of them into arithmetic *by its meaning* (`x &&& (2^n - 1) = x % 2^n`, a
shift is a multiplication / division by a power of two, OR of two numbers with disjoint bit ranges is their sum), after which
`omega` decides the statement — so `& 0xFFF` and `% 4096`, `>> 3` and `/ 8`, hoisted locals, swapped branches … are all accepted,
and a different mask / shift / comparison leaves an arithmetic goal that is false.
-/
namespace Op2.GenBits
open Op2.Gen.Formulas

theorem castS_32 (x : Int) : castS 32 x = (x + 2147483648) % 4294967296 - 2147483648 := by
  simp only [castS, Nat.reduceSub, Int.reducePow]

/-- a value that fits is not changed by the conversion to `int` (side conditions are discharged by `omega`) -/
theorem castS32_small (x : Int) (h0 : 0 ≤ x) (h1 : x < 2147483648) : castS 32 x = x := by
  rw [castS_32]; omega
/-- nor by a reduction modulo a larger power of two -/
theorem emod_small (x m : Int) (h0 : 0 ≤ x) (h1 : x < m) : x % m = x := Int.emod_eq_of_lt h0 h1

/-! masks `2^n - 1` -/
theorem and_1 (n : Nat) : n &&& 1 = n % 2 := Nat.and_two_pow_sub_one_eq_mod n 1
theorem and_3 (n : Nat) : n &&& 3 = n % 4 := Nat.and_two_pow_sub_one_eq_mod n 2
theorem and_7 (n : Nat) : n &&& 7 = n % 8 := Nat.and_two_pow_sub_one_eq_mod n 3
theorem and_15 (n : Nat) : n &&& 15 = n % 16 := Nat.and_two_pow_sub_one_eq_mod n 4
theorem and_31 (n : Nat) : n &&& 31 = n % 32 := Nat.and_two_pow_sub_one_eq_mod n 5
theorem and_63 (n : Nat) : n &&& 63 = n % 64 := Nat.and_two_pow_sub_one_eq_mod n 6
theorem and_127 (n : Nat) : n &&& 127 = n % 128 := Nat.and_two_pow_sub_one_eq_mod n 7
theorem and_255 (n : Nat) : n &&& 255 = n % 256 := Nat.and_two_pow_sub_one_eq_mod n 8
theorem and_511 (n : Nat) : n &&& 511 = n % 512 := Nat.and_two_pow_sub_one_eq_mod n 9
theorem and_1023 (n : Nat) : n &&& 1023 = n % 1024 := Nat.and_two_pow_sub_one_eq_mod n 10
theorem and_2047 (n : Nat) : n &&& 2047 = n % 2048 := Nat.and_two_pow_sub_one_eq_mod n 11
theorem and_4095 (n : Nat) : n &&& 4095 = n % 4096 := Nat.and_two_pow_sub_one_eq_mod n 12
theorem and_8191 (n : Nat) : n &&& 8191 = n % 8192 := Nat.and_two_pow_sub_one_eq_mod n 13
theorem and_65535 (n : Nat) : n &&& 65535 = n % 65536 := Nat.and_two_pow_sub_one_eq_mod n 16

/-! single-bit masks `2^n` -/
theorem and_pow (x n : Nat) : x &&& 2 ^ n = x / 2 ^ n % 2 * 2 ^ n := by
  apply Nat.eq_of_testBit_eq
  intro i
  rw [Nat.testBit_and, Nat.testBit_two_pow, ← Nat.toNat_testBit, Nat.testBit_mul_two_pow]
  by_cases h : n = i
  · subst h
    cases hx : x.testBit n <;> simp
  · cases hx : x.testBit n <;> simp [h]
    intro hle
    have : i - n ≠ 0 := by omega
    rcases Nat.exists_eq_succ_of_ne_zero this with ⟨m, hm⟩
    rw [hm]; simp [Nat.testBit_succ]
theorem and_2 (n : Nat) : n &&& 2 = n / 2 % 2 * 2 := and_pow n 1
theorem and_4 (n : Nat) : n &&& 4 = n / 4 % 2 * 4 := and_pow n 2
theorem and_8 (n : Nat) : n &&& 8 = n / 8 % 2 * 8 := and_pow n 3
theorem and_16 (n : Nat) : n &&& 16 = n / 16 % 2 * 16 := and_pow n 4
theorem and_32 (n : Nat) : n &&& 32 = n / 32 % 2 * 32 := and_pow n 5
theorem and_64 (n : Nat) : n &&& 64 = n / 64 % 2 * 64 := and_pow n 6
theorem and_128 (n : Nat) : n &&& 128 = n / 128 % 2 * 128 := and_pow n 7

/-- OR of two numbers whose bit ranges are disjoint (`a` a multiple of `2^k`, `b < 2^k`) is their sum -/
theorem or_disj (k : Nat) {a b : Nat} (ha : a % 2 ^ k = 0) (hb : b < 2 ^ k) : a ||| b = a + b := by
  have e : a = (a / 2 ^ k) <<< k := by
    rw [Nat.shiftLeft_eq]
    have := Nat.div_add_mod a (2 ^ k)
    rw [ha, Nat.add_zero, Nat.mul_comm] at this
    exact this.symm
  rw [e, ← Nat.shiftLeft_add_eq_or_of_lt hb]
theorem or_disj' (k : Nat) {a b : Nat} (ha : a % 2 ^ k = 0) (hb : b < 2 ^ k) : b ||| a = a + b := by
  rw [Nat.or_comm]; exact or_disj k ha hb

/-- every byte: `∀ b < 256, P b` by kernel evaluation of the 256 instances -/
theorem forall_byte {P : Nat → Prop} (h : ∀ b : Fin 256, P b.val) : ∀ b, b < 256 → P b := fun b hb => h ⟨b, hb⟩

/-- literal arithmetic, masks and shifts by literals -/
macro "bits_num" : tactic =>
  `(tactic| (try simp only [
      Int.reduceToNat, Int.reducePow, Int.reduceMod, Int.reduceMul, Int.reduceAdd, Int.reduceSub, Int.reduceDiv,
      Int.reduceNeg, Nat.reducePow, Nat.reduceMul, Nat.reduceAdd, Nat.reduceSub, Nat.reduceMod, Nat.reduceDiv,
      Int.toNat_natCast, Int.ofNat_eq_natCast, Int.toNat_zero,
      and_2, and_4, and_8, and_16, and_32, and_64, and_128,
      and_1, and_3, and_7, and_15, and_31, and_63, and_127, and_255, and_511, and_1023, and_2047, and_4095, and_8191, and_65535,
      Nat.shiftRight_eq_div_pow, Nat.shiftLeft_eq] at *))

/-- normalisation of generated terms: `bits_num`, then conversions that cannot change the value (`castS 32 x`, `x % 2^w` with
    `0 ≤ x < 2^w` provable by `omega` from the context) are dropped; the remaining `castS 32` are unfolded to arithmetic -/
macro "bits_norm" : tactic =>
  `(tactic| (
    bits_num
    (try simp (disch := omega) only [castS32_small, emod_small,
      Int.reduceToNat, Int.reducePow, Int.reduceMod, Int.reduceMul, Int.reduceAdd, Int.reduceSub, Int.reduceDiv,
      Int.reduceNeg, Nat.reducePow, Nat.reduceMul, Nat.reduceAdd, Nat.reduceSub, Nat.reduceMod, Nat.reduceDiv,
      Int.toNat_natCast, Int.ofNat_eq_natCast, Int.toNat_zero,
      and_2, and_4, and_8, and_16, and_32, and_64, and_128,
      and_1, and_3, and_7, and_15, and_31, and_63, and_127, and_255, and_511, and_1023, and_2047, and_4095, and_8191, and_65535,
      Nat.shiftRight_eq_div_pow, Nat.shiftLeft_eq] at *)
    (try simp (disch := omega) only [castS_32, emod_small, Int.add_sub_cancel,
      Int.reduceToNat, Int.reducePow, Int.reduceMod, Int.reduceMul, Int.reduceAdd, Int.reduceSub, Int.reduceDiv,
      Int.reduceNeg, Int.toNat_natCast] at *)))

/-- case-split every remaining `if`/`match`, then linear arithmetic (`omega` first: `rfl` on terms with 64-bit literals can run
    into the recursion limit) -/
macro "bits_close" : tactic =>
  `(tactic| ((repeat' split) <;>
      (try simp only [Option.some.injEq, Prod.mk.injEq, reduceCtorEq, GenBridge.okOr_ok, GenBridge.okOr_error,
                      GenBridge.bind_none', GenBridge.bind_some'] at *) <;>
      first | omega | trivial | (and_intros <;> first | omega | trivial) | rfl))

end Op2.GenBits
