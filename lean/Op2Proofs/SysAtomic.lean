import Op2Model.StreamSys
/-!
# A failed request leaves the object exactly as it was — every backend, every state, every argument
-/
namespace Op2.Stream

theorem mem_step_err_noop (s : MemR) (op : ROp) (h : (MemR.step s op).1 = .err) : (MemR.step s op).2 = s := by
  cases op <;> simp only [MemR.step] at h ⊢ <;> (try split at h) <;> first | rfl | cases h | (split <;> first | rfl | simp_all)

theorem rspec_step_err_noop (s : RSpec) (op : ROp) (h : (RSpec.step s op).1 = .err) : (RSpec.step s op).2 = s := by
  cases op <;> simp only [RSpec.step] at h ⊢ <;> first | cases h | (split <;> simp_all)

theorem slice_step_err_noop {σ : Type} (W : Wrapped σ) (s : Slice σ) (op : ROp) (h : (Slice.step W s op).1 = .err) :
    (Slice.step W s op).2 = s := by
  cases op <;> simp only [Slice.step] at h ⊢ <;> (try split at h) <;> first | rfl | cases h | (split <;> first | rfl | simp_all)

/-- a refused read / peek / seek changes nothing: position, window, wrapped stream — on all four backends, from any state (no
    invariant assumed) and for any argument -/
theorem Rd.step_err_noop (r : Rd) (op : ROp) (h : (r.step op).1 = .err) : (r.step op).2 = r := by
  cases r with
  | mem s => simp only [Rd.step] at h ⊢; rw [mem_step_err_noop s op h]
  | file s => simp only [Rd.step] at h ⊢; rw [rspec_step_err_noop s op h]
  | fsl s => simp only [Rd.step] at h ⊢; rw [slice_step_err_noop fileWrapped s op h]
  | fss s => simp only [Rd.step] at h ⊢; rw [slice_step_err_noop fslW s op h]

/-- … and so does a refused derivation, and an unsupported one -/
theorem Rd.ostep_refused_noop (r : Rd) (o : OOp)
    (h : (r.ostep o).1 = .out .err ∨ (r.ostep o).1 = .failed ∨ (r.ostep o).1 = .unsupported) : (r.ostep o).2 = r := by
  cases o with
  | op x =>
    simp only [Rd.ostep] at h ⊢
    rcases h with h | h | h
    · exact Rd.step_err_noop r x (by simpa using h)
    · cases h
    · cases h
  | derive d =>
    simp only [Rd.ostep] at h ⊢
    cases hd : r.derive d with
    | none => rfl
    | some e =>
      cases e with
      | error e => rfl
      | ok p => rw [hd] at h; simp at h

end Op2.Stream
