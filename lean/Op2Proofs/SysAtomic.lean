import Op2Model.StreamSys
/-!
# A failed request leaves the object exactly as it was — every backend, every state, every argument
-/
namespace Op2.Stream

theorem mem_step_err_noop (s : MemR) (op : ROp) (h : (MemR.step s op).1 = .err) : (MemR.step s op).2 = s := by
  cases op <;> simp only [MemR.step] at h ⊢ <;> (try split at h) <;> first | rfl | cases h | (split <;> first | rfl | simp_all)

theorem rspec_step_err_noop (s : RSpec) (op : ROp) (h : (RSpec.step s op).1 = .err) : (RSpec.step s op).2 = s := by
  cases op <;> simp only [RSpec.step] at h ⊢ <;> first | cases h | (split <;> simp_all)

theorem slice_step_err_noop {σ : Type} (W : Wrapped σ) (s : Slice σ) (op : ROp) (h : (Slice.step W s op).1 = .err) :
    (Slice.step W s op).2 = s := by
  cases op <;> simp only [Slice.step] at h ⊢ <;> (try split at h) <;> first | rfl | cases h | (split <;> first | rfl | simp_all)

/-- a refused read / peek / seek changes nothing: position, window, wrapped stream — on all four backends, from any state (no
    invariant assumed) and for any argument -/
theorem Rd.step_err_noop (r : Rd) (op : ROp) (h : (r.step op).1 = .err) : (r.step op).2 = r := by
  cases r with
  | mem s => simp only [Rd.step] at h ⊢; rw [mem_step_err_noop s op h]
  | file s => simp only [Rd.step] at h ⊢; rw [rspec_step_err_noop s op h]
  | fsl s => simp only [Rd.step] at h ⊢; rw [slice_step_err_noop fileWrapped s op h]
  | fss s => simp only [Rd.step] at h ⊢; rw [slice_step_err_noop fslW s op h]

/-- … and so does a refused derivation, and an unsupported one -/
theorem Rd.ostep_refused_noop (r : Rd) (o : OOp)
    (h : (r.ostep o).1 = .out .err ∨ (r.ostep o).1 = .failed ∨ (r.ostep o).1 = .unsupported) : (r.ostep o).2 = r := by
  cases o with
  | op x =>
    simp only [Rd.ostep] at h ⊢
    rcases h with h | h | h
    · exact Rd.step_err_noop r x (by simpa using h)
    · cases h
    · cases h
  | derive d =>
    simp only [Rd.ostep] at h ⊢
    cases hd : r.derive d with
    | none => rfl
    | some e =>
      cases e with
      | error e => rfl
      | ok p => rw [hd] at h; simp at h

end Op2.Stream

namespace Op2.Stream

/-- a refused request leaves the whole system as it was -/
theorem Sys.step_refused_noop (objs : Sys) (i : Nat) (o : OOp)
    (h : (Sys.step objs i o).1 = some (.out .err) ∨ (Sys.step objs i o).1 = some .failed ∨ (Sys.step objs i o).1 = some .unsupported ∨
         (Sys.step objs i o).1 = none) : (Sys.step objs i o).2 = objs := by
  unfold Sys.step at h ⊢
  cases hi : objs[i]? with
  | none => rfl
  | some r =>
    rw [hi] at h
    simp only at h ⊢
    have hlt : i < objs.length := by
      rcases Nat.lt_or_ge i objs.length with h' | h'
      · exact h'
      · rw [List.getElem?_eq_none h'] at hi; cases hi
    have hget : objs[i] = r := by rw [List.getElem?_eq_getElem hlt] at hi; exact Option.some.inj hi
    cases hx : (r.ostep o).1 with
    | made n => rw [hx] at h; simp at h
    | out y =>
      rw [hx] at h; simp only [Option.some.injEq, OOut.out.injEq, reduceCtorEq, or_false] at h
      have := Rd.ostep_refused_noop r o (Or.inl (by rw [hx, h]))
      simp only; rw [this, ← hget]; exact List.set_getElem_self hlt
    | failed =>
      have := Rd.ostep_refused_noop r o (Or.inr (Or.inl hx))
      simp only; rw [this, ← hget]; exact List.set_getElem_self hlt
    | unsupported =>
      have := Rd.ostep_refused_noop r o (Or.inr (Or.inr hx))
      simp only; rw [this, ← hget]; exact List.set_getElem_self hlt

end Op2.Stream
