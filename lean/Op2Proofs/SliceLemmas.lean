import Op2Proofs.StreamLemmas
namespace Op2.Stream
open Op2

/-- what `SliceReader` may assume of the stream it wraps: on *in-bounds* calls it behaves like the
    abstract reader `ab s`; nothing is assumed about out-of-bounds calls. -/
structure WrappedOK {σ : Type} (W : Wrapped σ) (ab : σ → RSpec) (G : σ → Prop) : Prop where
  inv : ∀ s, G s → (ab s).Inv
  len : ∀ s, G s → W.length s = (ab s).data.length
  pos : ∀ s, G s → W.position s = (ab s).pos
  read : ∀ s k, G s → (ab s).pos + k ≤ (ab s).data.length →
    ∃ s', W.read s k = .ok ((ab s).window k, s') ∧ G s' ∧ ab s' = { ab s with pos := (ab s).pos + k }
  readPartial : ∀ s k, G s → (ab s).pos + k ≤ (ab s).data.length →
    ∃ s', W.readPartial s k = ((ab s).window k, s') ∧ G s' ∧ ab s' = { ab s with pos := (ab s).pos + k }
  seek : ∀ s p, G s → p ≤ (ab s).data.length →
    ∃ s', W.seek s p = .ok s' ∧ G s' ∧ ab s' = { ab s with pos := p }
  fwd : ∀ s d, G s → (ab s).pos + d ≤ (ab s).data.length →
    ∃ s', W.fwd s d = .ok s' ∧ G s' ∧ ab s' = { ab s with pos := (ab s).pos + d }
  back : ∀ s d, G s → d ≤ (ab s).pos →
    ∃ s', W.back s d = .ok s' ∧ G s' ∧ ab s' = { ab s with pos := (ab s).pos - d }

variable {σ : Type} {W : Wrapped σ} {ab : σ → RSpec} {G : σ → Prop}

/-- what a slice exposes: exactly the window `[start, start+len)` of the wrapped data, positions from 0 -/
def sliceAbs (ab : σ → RSpec) (s : Slice σ) : RSpec :=
  { data := ((ab s.w).data.drop s.start).take s.len, pos := (ab s.w).pos - s.start }

def sliceGood (G : σ → Prop) (ab : σ → RSpec) (s : Slice σ) : Prop :=
  G s.w ∧ s.start + s.len ≤ (ab s.w).data.length ∧ s.start ≤ (ab s.w).pos ∧ (ab s.w).pos ≤ s.start + s.len

theorem sliceAbs_len (s : Slice σ) (h : s.start + s.len ≤ (ab s.w).data.length) :
    (sliceAbs ab s).data.length = s.len := by
  simp [sliceAbs]; omega

theorem slice_position_eq (ok : WrappedOK W ab G) (s : Slice σ) (hs : sliceGood G ab s) :
    Slice.position W s = (ab s.w).pos - s.start := by
  obtain ⟨hg, h1, h2, h3⟩ := hs
  have hi := ok.inv s.w hg
  unfold RSpec.Inv W64 at hi
  unfold Slice.position u64
  rw [ok.pos s.w hg]
  unfold W64; omega

theorem sliceAbs_window (s : Slice σ) (hs : sliceGood G ab s) (k : Nat)
    (hk : (ab s.w).pos - s.start + k ≤ s.len) :
    (sliceAbs ab s).window k = (ab s.w).window k := by
  obtain ⟨_, h1, h2, h3⟩ := hs
  unfold RSpec.window sliceAbs
  simp only
  rw [window_of_slice _ _ _ _ _ hk]
  congr 2; omega


theorem sliceAbs_setw (s : Slice σ) (w' : σ) (p : Nat) (h : ab w' = { ab s.w with pos := p }) :
    sliceAbs ab { s with w := w' } = { data := (sliceAbs ab s).data, pos := p - s.start } := by
  simp [sliceAbs, h]

theorem sliceGood_setw (s : Slice σ) (hs : sliceGood G ab s) (w' : σ) (p : Nat) (g' : G w')
    (h : ab w' = { ab s.w with pos := p }) (hp1 : s.start ≤ p) (hp2 : p ≤ s.start + s.len) :
    sliceGood G ab { s with w := w' } := by
  obtain ⟨_, h1, _, _⟩ := hs
  refine ⟨g', ?_, ?_, ?_⟩ <;> simp [h] <;> assumption

/-- `q` = the slice-relative position -/
abbrev relPos (ab : σ → RSpec) (s : Slice σ) : Nat := (ab s.w).pos - s.start

theorem slice_left (ok : WrappedOK W ab G) (s : Slice σ) (hs : sliceGood G ab s) :
    u64 (W64 + s.len - Slice.position W s) = s.len - relPos ab s := by
  rw [slice_position_eq ok s hs]
  obtain ⟨hg, h1, h2, h3⟩ := hs
  obtain ⟨_, hi2⟩ := ok.inv s.w hg
  unfold u64 W64 at *; unfold relPos; omega

theorem slice_read_ok (ok : WrappedOK W ab G) (s : Slice σ) (hs : sliceGood G ab s) (k : Nat)
    (hin : relPos ab s + k ≤ s.len) :
    ∃ s', Slice.read W s k = .ok ((sliceAbs ab s).window k, s') ∧ sliceGood G ab s' ∧
      sliceAbs ab s' = { data := (sliceAbs ab s).data, pos := relPos ab s + k } := by
  have hl := slice_left ok s hs
  have hs' := hs
  obtain ⟨hg, h1, h2, h3⟩ := hs
  unfold relPos at *
  have hb : (ab s.w).pos + k ≤ (ab s.w).data.length := by omega
  obtain ⟨w', e1, g', a'⟩ := ok.read s.w k hg hb
  refine ⟨{ s with w := w' }, ?_, sliceGood_setw s hs' w' _ g' a' (by omega) (by omega), ?_⟩
  · have c : ¬ k > s.len - ((ab s.w).pos - s.start) := by omega
    simp only [Slice.read, hl, c, if_false, e1]
    rw [sliceAbs_window s hs' k hin]
  · rw [sliceAbs_setw s w' _ a']; congr 1; omega

theorem slice_read_err (ok : WrappedOK W ab G) (s : Slice σ) (hs : sliceGood G ab s) (k : Nat)
    (hout : ¬ relPos ab s + k ≤ s.len) : Slice.read W s k = .error .bounds := by
  have hl := slice_left ok s hs
  obtain ⟨_, _, h2, h3⟩ := hs
  unfold relPos at *
  have c : k > s.len - ((ab s.w).pos - s.start) := by omega
  simp only [Slice.read, hl, c, if_true]

theorem slice_readPartial_ok (ok : WrappedOK W ab G) (s : Slice σ) (hs : sliceGood G ab s) (k : Nat) :
    ∃ s', Slice.readPartial W s k = ((sliceAbs ab s).window (min k (s.len - relPos ab s)), s') ∧ sliceGood G ab s' ∧
      sliceAbs ab s' = { data := (sliceAbs ab s).data, pos := relPos ab s + min k (s.len - relPos ab s) } := by
  have hl := slice_left ok s hs
  have hs' := hs
  obtain ⟨hg, h1, h2, h3⟩ := hs
  unfold relPos at *
  have e2 : (if k < s.len - ((ab s.w).pos - s.start) then k else s.len - ((ab s.w).pos - s.start))
      = min k (s.len - ((ab s.w).pos - s.start)) := by rw [Nat.min_def]; split <;> split <;> omega
  generalize hn : min k (s.len - ((ab s.w).pos - s.start)) = n at *
  have hin : (ab s.w).pos - s.start + n ≤ s.len := by omega
  have hb : (ab s.w).pos + n ≤ (ab s.w).data.length := by omega
  obtain ⟨w', e1, g', a'⟩ := ok.readPartial s.w n hg hb
  refine ⟨{ s with w := w' }, ?_, sliceGood_setw s hs' w' _ g' a' (by omega) (by omega), ?_⟩
  · simp only [Slice.readPartial, hl, e2, e1]
    rw [sliceAbs_window s hs' n hin]
  · rw [sliceAbs_setw s w' _ a']; congr 1; omega

theorem slice_seek_ok (ok : WrappedOK W ab G) (s : Slice σ) (hs : sliceGood G ab s) (p : Nat) (hp : p ≤ s.len) :
    ∃ s', Slice.seek W s p = .ok s' ∧ sliceGood G ab s' ∧
      sliceAbs ab s' = { data := (sliceAbs ab s).data, pos := p } := by
  have hs' := hs
  obtain ⟨hg, h1, h2, h3⟩ := hs
  obtain ⟨_, hi2⟩ := ok.inv s.w hg
  have e : u64 (s.start + p) = s.start + p := by unfold u64 W64 at *; omega
  obtain ⟨w', e1, g', a'⟩ := ok.seek s.w (s.start + p) hg (by omega)
  refine ⟨{ s with w := w' }, ?_, sliceGood_setw s hs' w' _ g' a' (by omega) (by omega), ?_⟩
  · have c : ¬ p > s.len := by omega
    simp only [Slice.seek, c, if_false, e, e1]
  · rw [sliceAbs_setw s w' _ a']; congr 1; omega

theorem slice_seek_err (s : Slice σ) (p : Nat) (hp : ¬ p ≤ s.len) : Slice.seek W s p = .error .bounds := by
  have c : p > s.len := by omega
  simp only [Slice.seek, c, if_true]

theorem slice_fwd_ok (ok : WrappedOK W ab G) (s : Slice σ) (hs : sliceGood G ab s) (d : Nat)
    (hin : relPos ab s + d ≤ s.len) :
    ∃ s', Slice.fwd W s d = .ok s' ∧ sliceGood G ab s' ∧
      sliceAbs ab s' = { data := (sliceAbs ab s).data, pos := relPos ab s + d } := by
  have hl := slice_left ok s hs
  have hs' := hs
  obtain ⟨hg, h1, h2, h3⟩ := hs
  unfold relPos at *
  obtain ⟨w', e1, g', a'⟩ := ok.fwd s.w d hg (by omega)
  refine ⟨{ s with w := w' }, ?_, sliceGood_setw s hs' w' _ g' a' (by omega) (by omega), ?_⟩
  · have c : ¬ d > s.len - ((ab s.w).pos - s.start) := by omega
    simp only [Slice.fwd, hl, c, if_false, e1]
  · rw [sliceAbs_setw s w' _ a']; congr 1; omega

theorem slice_fwd_err (ok : WrappedOK W ab G) (s : Slice σ) (hs : sliceGood G ab s) (d : Nat)
    (hout : ¬ relPos ab s + d ≤ s.len) : Slice.fwd W s d = .error .bounds := by
  have hl := slice_left ok s hs
  obtain ⟨_, _, h2, h3⟩ := hs
  unfold relPos at *
  have c : d > s.len - ((ab s.w).pos - s.start) := by omega
  simp only [Slice.fwd, hl, c, if_true]

theorem slice_back_ok (ok : WrappedOK W ab G) (s : Slice σ) (hs : sliceGood G ab s) (d : Nat)
    (hin : d ≤ relPos ab s) :
    ∃ s', Slice.back W s d = .ok s' ∧ sliceGood G ab s' ∧
      sliceAbs ab s' = { data := (sliceAbs ab s).data, pos := relPos ab s - d } := by
  have hp := slice_position_eq ok s hs
  have hs' := hs
  obtain ⟨hg, h1, h2, h3⟩ := hs
  unfold relPos at *
  obtain ⟨w', e1, g', a'⟩ := ok.back s.w d hg (by omega)
  refine ⟨{ s with w := w' }, ?_, sliceGood_setw s hs' w' _ g' a' (by omega) (by omega), ?_⟩
  · have c : ¬ d > (ab s.w).pos - s.start := by omega
    simp only [Slice.back, hp, c, if_false, e1]
  · rw [sliceAbs_setw s w' _ a']; congr 1; omega

theorem slice_back_err (ok : WrappedOK W ab G) (s : Slice σ) (hs : sliceGood G ab s) (d : Nat)
    (hout : ¬ d ≤ relPos ab s) : Slice.back W s d = .error .bounds := by
  have hp := slice_position_eq ok s hs
  unfold relPos at *
  have c : d > (ab s.w).pos - s.start := by omega
  simp only [Slice.back, hp, c, if_true]

/-- the result of one refined step: same observable, good state, abstraction commutes -/
def StepOK (G : σ → Prop) (ab : σ → RSpec) (s : Slice σ) (op : ROp) (r : Out × Slice σ) : Prop :=
  r.1 = (RSpec.step (sliceAbs ab s) op).1 ∧ sliceGood G ab r.2 ∧ sliceAbs ab r.2 = (RSpec.step (sliceAbs ab s) op).2

/-- **`SliceReader<W>` refines the abstract reader over its window**, for every operation with every
    64-bit argument, provided only that `W` behaves on in-bounds calls -/
theorem slice_refines (ok : WrappedOK W ab G) (s : Slice σ) (hs : sliceGood G ab s) (op : ROp) (ha : op.argOk) :
    StepOK G ab s op (Slice.step W s op) := by
  have hlenS : (sliceAbs ab s).data.length = s.len := sliceAbs_len s hs.2.1
  have hposS : (sliceAbs ab s).pos = relPos ab s := rfl
  have hself : sliceAbs ab s = { data := (sliceAbs ab s).data, pos := relPos ab s } := rfl
  unfold StepOK
  cases op <;> simp only [Slice.step, RSpec.step, hlenS, hposS]
  case read k =>
    by_cases c : relPos ab s + k ≤ s.len
    · obtain ⟨s', e, g, a⟩ := slice_read_ok ok s hs k c
      simp only [e, c, if_true]; exact ⟨trivial, g, a⟩
    · simp only [slice_read_err ok s hs k c, c, if_false]; exact ⟨trivial, hs, trivial⟩
  case readPartial k =>
    obtain ⟨s', e, g, a⟩ := slice_readPartial_ok ok s hs k
    simp only [e]; exact ⟨trivial, g, a⟩
  case peek k =>
    by_cases c : relPos ab s + k ≤ s.len
    · obtain ⟨s', e, g, a⟩ := slice_read_ok ok s hs k c
      have hq : relPos ab s' = relPos ab s + k := by
        have := congrArg RSpec.pos a; simpa [sliceAbs] using this
      obtain ⟨s'', e2, g2, a2⟩ := slice_back_ok ok s' g k (by omega)
      simp only [Slice.peek, e, e2, c, if_true]
      refine ⟨trivial, g2, ?_⟩
      rw [a2, a, hq]; simp
      exact hself.symm ▸ rfl
    · simp only [Slice.peek, slice_read_err ok s hs k c, c, if_false]; exact ⟨trivial, hs, trivial⟩
  case seek p =>
    by_cases c : p ≤ s.len
    · obtain ⟨s', e, g, a⟩ := slice_seek_ok ok s hs p c
      simp only [e, c, if_true]; exact ⟨trivial, g, a⟩
    · simp only [slice_seek_err s p c, c, if_false]; exact ⟨trivial, hs, trivial⟩
  case fwd d =>
    by_cases c : relPos ab s + d ≤ s.len
    · obtain ⟨s', e, g, a⟩ := slice_fwd_ok ok s hs d c
      simp only [e, c, if_true]; exact ⟨trivial, g, a⟩
    · simp only [slice_fwd_err ok s hs d c, c, if_false]; exact ⟨trivial, hs, trivial⟩
  case back d =>
    by_cases c : d ≤ relPos ab s
    · obtain ⟨s', e, g, a⟩ := slice_back_ok ok s hs d c
      simp only [e, c, if_true]; exact ⟨trivial, g, a⟩
    · simp only [slice_back_err ok s hs d c, c, if_false]; exact ⟨trivial, hs, trivial⟩
  case seekBegin =>
    obtain ⟨s', e, g, a⟩ := slice_seek_ok ok s hs 0 (by omega)
    simp only [e]; exact ⟨trivial, g, a⟩
  case seekEnd =>
    have hl := slice_left ok s hs
    have hle : relPos ab s ≤ s.len := by
      obtain ⟨_, h1, h2, h3⟩ := hs; unfold relPos; omega
    obtain ⟨s', e, g, a⟩ := slice_fwd_ok ok s hs (s.len - relPos ab s) (by omega)
    simp only [Slice.seekEnd, hl, e]
    refine ⟨trivial, g, ?_⟩
    rw [a]; congr 1; omega

end Op2.Stream
