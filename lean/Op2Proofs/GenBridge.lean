import Op2Model.Stream
import Op2Model.Gen.Streams
/-!
# Helpers for the bridging lemmas between `Op2.Gen.Streams` (regenerated from the C++ on every run) and the
hand-written stream models of `Op2Model/Stream.lean`.

Every bridging lemma has the form `<fn>_translated = true → ∀ values < 2^64, generated result = view of the model's
result`.  It is stated *semantically* (equality of results for all inputs), so any spelling of a guard that is
equivalent in 64-bit arithmetic passes, and any that is not leaves an `omega` goal open.  If the function left the
translator's fragment (`_translated = false`, reported as `formulas_fallback` in the evidence) the lemma is vacuous
and the function is tied by the differential run alone.
-/
namespace Op2.GenBridge
open Op2 Op2.Stream

/-- what a generated definition can see of a model result: `none` for an exception, else a tuple of integers -/
def okOr {α β : Type} (f : α → β) : Except Err α → Option β
  | .ok a => some (f a)
  | .error _ => none

@[simp] theorem okOr_ok {α β : Type} (f : α → β) (a : α) : okOr f (.ok a) = some (f a) := rfl
@[simp] theorem okOr_error {α β : Type} (f : α → β) (e : Err) : okOr f (.error e : Except Err α) = none := rfl

/-- a wrapped stream that only reports a length and a position and records the argument of the last call it
    received: instantiating the (parametric) `Slice` model with it exposes the model's guard and the value it
    passes down, without restating either -/
structure Probe where
  length : Nat
  position : Nat
  arg : Int := -1

@[reducible] def probeW : Wrapped Probe where
  length p := p.length
  position p := p.position
  read p k := .ok ([], { p with arg := k })
  readPartial p k := ([], { p with arg := k })
  seek p k := .ok { p with arg := k }
  fwd p k := .ok { p with arg := k }
  back p k := .ok { p with arg := k }

/-- composed calls: push `bind` through the callee's `if`s so that only `if`s over arithmetic remain -/
theorem bind_ite {α β : Type} (c : Prop) [Decidable c] (a b : Option α) (f : α → Option β) :
    (if c then a else b).bind f = if c then a.bind f else b.bind f := by
  split <;> rfl
theorem bind_none' {α β : Type} (f : α → Option β) : (none : Option α).bind f = none := rfl
theorem bind_some' {α β : Type} (a : α) (f : α → Option β) : (some a).bind f = f a := rfl

/-- closes `flag = true → …` when the function fell back (flag is `false`) -/
macro "gen_fallback" : tactic => `(tactic| (intro h; exact absurd h (by decide)))

/-- case-split every remaining `if`/`match`, then linear arithmetic with `%` by literals -/
macro "gen_close" : tactic =>
  `(tactic| ((repeat' split) <;>
      (try simp only [Option.some.injEq, Prod.mk.injEq, reduceCtorEq, okOr_ok, okOr_error] at *) <;>
      first | rfl | trivial | omega | (and_intros <;> first | trivial | omega)))

/-- `gen_bridge => tac`: the lemma is vacuous if the function fell back; otherwise `tac` proves the body -/
macro "gen_bridge" " => " t:tacticSeq : tactic => `(tactic| first | gen_fallback | (intro _; ($t)))
/-- the same, naming the hypothesis `flags = true` (for lemmas that use the lemmas of the composed functions) -/
macro "gen_bridge" h:ident " => " t:tacticSeq : tactic => `(tactic| first | gen_fallback | (intro $h:ident; ($t)))

end Op2.GenBridge
