import Op2Model.Stream
import Op2Proofs.StreamLemmas
/-!
# `ReadNullTerminatedString` — what the byte-at-a-time loop delivers, for every cursor, content and `maxCount`

`readNT rd fuel s acc` is the C++ loop `for (i = 0; i < maxCount; ++i) { Read(c); if (c == 0) break; str.push_back(c); }`
with `fuel = maxCount`.  `ntSpec` is the independent description: the longest NUL-free prefix of the first `maxCount`
bytes ahead of the cursor; the terminator is consumed when one was met; running off the end of the data is an error.
-/
namespace Op2.Stream

/-- a reader's checked `Read(k)` as the typed helpers see it (an exception is an `Err`) -/
def RSpec.rd (s : RSpec) (k : Nat) : Except Err (Bytes × RSpec) :=
  match s.step (.read k) with
  | (.bytes b, s') => .ok (b, s')
  | _ => .error .bounds

/-- string and number of bytes consumed, or `none` when the data ends before a terminator or `m` characters -/
def ntSpec (rest : Bytes) (m : Nat) : Option (Bytes × Nat) :=
  let str := (rest.take m).takeWhile (· != 0)
  if str.length < (rest.take m).length then some (str, str.length + 1)
  else if m ≤ rest.length then some (str, m) else none

theorem rd_one_nil (s : RSpec) (h : s.data.drop s.pos = []) (hp : s.pos ≤ s.data.length) :
    s.rd 1 = .error .bounds := by
  have : s.data.length ≤ s.pos := by
    have := congrArg List.length h; simp at this; omega
  unfold RSpec.rd RSpec.step
  have : ¬ (s.pos + 1 ≤ s.data.length) := by omega
  simp [this]

theorem rd_one_cons (s : RSpec) (c : UInt8) (t : Bytes) (h : s.data.drop s.pos = c :: t) :
    s.rd 1 = .ok ([c], { s with pos := s.pos + 1 }) := by
  have hl : s.pos + 1 ≤ s.data.length := by
    have := congrArg List.length h; simp at this; omega
  unfold RSpec.rd RSpec.step
  simp [hl, RSpec.window, h]

theorem drop_succ_of_cons (d : Bytes) (p : Nat) (c : UInt8) (t : Bytes) (h : d.drop p = c :: t) : d.drop (p + 1) = t := by
  have : d.drop (p + 1) = (d.drop p).drop 1 := by rw [List.drop_drop]
  rw [this, h]; rfl

/-- the loop, for every fuel, cursor and accumulator -/
theorem readNT_spec (fuel : Nat) (s : RSpec) (acc : Bytes) (hp : s.pos ≤ s.data.length) :
    readNT RSpec.rd fuel s acc =
      match ntSpec (s.data.drop s.pos) fuel with
      | some (str, n) => .ok (acc.reverse ++ str, { s with pos := s.pos + n })
      | none => .error .bounds := by
  induction fuel generalizing s acc with
  | zero => simp [readNT, ntSpec]
  | succ fuel ih =>
    cases hrest : s.data.drop s.pos with
    | nil =>
      simp [readNT, rd_one_nil s hrest hp, ntSpec]
    | cons c t =>
      have hl : s.pos + 1 ≤ s.data.length := by
        have := congrArg List.length hrest; simp at this; omega
      simp only [readNT, rd_one_cons s c t hrest]
      by_cases hc : c = 0
      · subst hc
        simp [ntSpec]
      · rw [if_neg hc]
        have ht : ({ s with pos := s.pos + 1 } : RSpec).data.drop ({ s with pos := s.pos + 1 } : RSpec).pos = t :=
          drop_succ_of_cons s.data s.pos c t hrest
        rw [ih { s with pos := s.pos + 1 } (c :: acc) hl, ht]
        have hne : (c != 0) = true := by simpa using hc
        unfold ntSpec
        simp only [List.take_succ_cons, List.takeWhile_cons, hne, if_true, List.length_cons]
        by_cases h1 : (List.takeWhile (fun x => x != 0) (List.take fuel t)).length < (List.take fuel t).length
        · have h1' : (List.takeWhile (fun x => x != 0) (List.take fuel t)).length + 1 < (List.take fuel t).length + 1 := by omega
          rw [if_pos h1, if_pos h1']
          simp [Nat.add_assoc, Nat.add_comm 1]
        · have h1' : ¬ (List.takeWhile (fun x => x != 0) (List.take fuel t)).length + 1 < (List.take fuel t).length + 1 := by omega
          rw [if_neg h1, if_neg h1']
          by_cases h2 : fuel ≤ t.length
          · have h2' : fuel + 1 ≤ t.length + 1 := by omega
            rw [if_pos h2, if_pos h2']
            simp [Nat.add_assoc, Nat.add_comm 1]
          · have h2' : ¬ fuel + 1 ≤ t.length + 1 := by omega
            rw [if_neg h2, if_neg h2']

/-- `maxCount` beyond the remaining bytes + 1 changes nothing (the executable driver cuts the fuel there) -/
theorem ntSpec_fuel_cut (rest : Bytes) (m : Nat) : ntSpec rest m = ntSpec rest (min m (rest.length + 1)) := by
  by_cases h : m ≤ rest.length + 1
  · rw [Nat.min_eq_left h]
  · have hm : min m (rest.length + 1) = rest.length + 1 := by omega
    rw [hm]
    have t1 : rest.take m = rest := List.take_of_length_le (by omega)
    have t2 : rest.take (rest.length + 1) = rest := List.take_of_length_le (by omega)
    unfold ntSpec
    simp only [t1, t2]
    have : ¬ m ≤ rest.length := by omega
    have : ¬ rest.length + 1 ≤ rest.length := by omega
    simp [*]

end Op2.Stream

namespace Op2.Stream

/-- the same helper over the `MemoryReader` model (u64 guards) -/
def MemR.rd (s : MemR) (k : Nat) : Except Err (Bytes × MemR) :=
  match MemR.step s (.read k) with
  | (.bytes b, s') => .ok (b, s')
  | _ => .error .bounds

theorem memrd_eq (s : MemR) (h : s.Inv) (k : Nat) (hk : k < W64) : MemR.rd s k = RSpec.rd s k := by
  unfold MemR.rd RSpec.rd
  rw [mem_refines s h (.read k) hk]
  cases RSpec.step s (.read k) with
  | mk o s' => cases o <;> rfl

theorem rd_inv (s s' : RSpec) (b : Bytes) (k : Nat) (h : s.Inv) (hr : RSpec.rd s k = .ok (b, s')) : s'.Inv := by
  have := spec_inv s h (.read k)
  unfold RSpec.rd at hr
  split at hr
  · next b' s'' heq => cases hr; rw [heq] at this; exact this
  · cases hr

theorem readNT_mem (fuel : Nat) (s : MemR) (acc : Bytes) (h : s.Inv) :
    readNT MemR.rd fuel s acc = readNT RSpec.rd fuel s acc := by
  induction fuel generalizing s acc with
  | zero => rfl
  | succ fuel ih =>
    simp only [readNT]
    rw [memrd_eq s h 1 (by unfold W64; omega)]
    cases hr : RSpec.rd s 1 with
    | error e => rfl
    | ok p =>
      obtain ⟨b, s'⟩ := p
      have hi := rd_inv s s' b 1 h hr
      simp only
      split
      · split
        · rfl
        · exact ih s' _ hi
      · rfl

end Op2.Stream
