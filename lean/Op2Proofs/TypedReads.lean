import Op2Model.Stream
import Op2Proofs.StreamLemmas
import Op2Proofs.SliceNesting
/-!
# `ReadNullTerminatedString` — what the byte-at-a-time loop delivers, for every cursor, content and `maxCount`

`readNT rd fuel s acc` is the C++ loop `for (i = 0; i < maxCount; ++i) { Read(c); if (c == 0) break; str.push_back(c); }`
with `fuel = maxCount`.  `ntSpec` is the independent description: the longest NUL-free prefix of the first `maxCount`
bytes ahead of the cursor; the terminator is consumed when one was met; running off the end of the data is an error.
-/
namespace Op2.Stream

/-- a reader's checked `Read(k)` as the typed helpers see it (an exception is an `Err`) -/
def RSpec.rd (s : RSpec) (k : Nat) : Except Err (Bytes × RSpec) :=
  match s.step (.read k) with
  | (.bytes b, s') => .ok (b, s')
  | _ => .error .bounds

/-- string and number of bytes consumed, or `none` when the data ends before a terminator or `m` characters -/
def ntSpec (rest : Bytes) (m : Nat) : Option (Bytes × Nat) :=
  let str := (rest.take m).takeWhile (· != 0)
  if str.length < (rest.take m).length then some (str, str.length + 1)
  else if m ≤ rest.length then some (str, m) else none

theorem rd_one_nil (s : RSpec) (h : s.data.drop s.pos = []) (hp : s.pos ≤ s.data.length) :
    s.rd 1 = .error .bounds := by
  have : s.data.length ≤ s.pos := by
    have := congrArg List.length h; simp at this; omega
  unfold RSpec.rd RSpec.step
  have : ¬ (s.pos + 1 ≤ s.data.length) := by omega
  simp [this]

theorem rd_one_cons (s : RSpec) (c : UInt8) (t : Bytes) (h : s.data.drop s.pos = c :: t) :
    s.rd 1 = .ok ([c], { s with pos := s.pos + 1 }) := by
  have hl : s.pos + 1 ≤ s.data.length := by
    have := congrArg List.length h; simp at this; omega
  unfold RSpec.rd RSpec.step
  simp [hl, RSpec.window, h]

theorem drop_succ_of_cons (d : Bytes) (p : Nat) (c : UInt8) (t : Bytes) (h : d.drop p = c :: t) : d.drop (p + 1) = t := by
  have : d.drop (p + 1) = (d.drop p).drop 1 := by rw [List.drop_drop]
  rw [this, h]; rfl

/-- the loop, for every fuel, cursor and accumulator -/
theorem readNT_spec (fuel : Nat) (s : RSpec) (acc : Bytes) (hp : s.pos ≤ s.data.length) :
    readNT RSpec.rd fuel s acc =
      match ntSpec (s.data.drop s.pos) fuel with
      | some (str, n) => .ok (acc.reverse ++ str, { s with pos := s.pos + n })
      | none => .error .bounds := by
  induction fuel generalizing s acc with
  | zero => simp [readNT, ntSpec]
  | succ fuel ih =>
    cases hrest : s.data.drop s.pos with
    | nil =>
      simp [readNT, rd_one_nil s hrest hp, ntSpec]
    | cons c t =>
      have hl : s.pos + 1 ≤ s.data.length := by
        have := congrArg List.length hrest; simp at this; omega
      simp only [readNT, rd_one_cons s c t hrest]
      by_cases hc : c = 0
      · subst hc
        simp [ntSpec]
      · rw [if_neg hc]
        have ht : ({ s with pos := s.pos + 1 } : RSpec).data.drop ({ s with pos := s.pos + 1 } : RSpec).pos = t :=
          drop_succ_of_cons s.data s.pos c t hrest
        rw [ih { s with pos := s.pos + 1 } (c :: acc) hl, ht]
        have hne : (c != 0) = true := by simpa using hc
        unfold ntSpec
        simp only [List.take_succ_cons, List.takeWhile_cons, hne, if_true, List.length_cons]
        by_cases h1 : (List.takeWhile (fun x => x != 0) (List.take fuel t)).length < (List.take fuel t).length
        · have h1' : (List.takeWhile (fun x => x != 0) (List.take fuel t)).length + 1 < (List.take fuel t).length + 1 := by omega
          rw [if_pos h1, if_pos h1']
          simp [Nat.add_assoc, Nat.add_comm 1]
        · have h1' : ¬ (List.takeWhile (fun x => x != 0) (List.take fuel t)).length + 1 < (List.take fuel t).length + 1 := by omega
          rw [if_neg h1, if_neg h1']
          by_cases h2 : fuel ≤ t.length
          · have h2' : fuel + 1 ≤ t.length + 1 := by omega
            rw [if_pos h2, if_pos h2']
            simp [Nat.add_assoc, Nat.add_comm 1]
          · have h2' : ¬ fuel + 1 ≤ t.length + 1 := by omega
            rw [if_neg h2, if_neg h2']

/-- `maxCount` beyond the remaining bytes + 1 changes nothing (the executable driver cuts the fuel there) -/
theorem ntSpec_fuel_cut (rest : Bytes) (m : Nat) : ntSpec rest m = ntSpec rest (min m (rest.length + 1)) := by
  by_cases h : m ≤ rest.length + 1
  · rw [Nat.min_eq_left h]
  · have hm : min m (rest.length + 1) = rest.length + 1 := by omega
    rw [hm]
    have t1 : rest.take m = rest := List.take_of_length_le (by omega)
    have t2 : rest.take (rest.length + 1) = rest := List.take_of_length_le (by omega)
    unfold ntSpec
    simp only [t1, t2]
    have : ¬ m ≤ rest.length := by omega
    have : ¬ rest.length + 1 ≤ rest.length := by omega
    simp [*]

end Op2.Stream

namespace Op2.Stream

/-- the same helper over the `MemoryReader` model (u64 guards) -/
def MemR.rd (s : MemR) (k : Nat) : Except Err (Bytes × MemR) :=
  match MemR.step s (.read k) with
  | (.bytes b, s') => .ok (b, s')
  | _ => .error .bounds

theorem memrd_eq (s : MemR) (h : s.Inv) (k : Nat) (hk : k < W64) : MemR.rd s k = RSpec.rd s k := by
  unfold MemR.rd RSpec.rd
  rw [mem_refines s h (.read k) hk]
  cases RSpec.step s (.read k) with
  | mk o s' => cases o <;> rfl

theorem rd_inv (s s' : RSpec) (b : Bytes) (k : Nat) (h : s.Inv) (hr : RSpec.rd s k = .ok (b, s')) : s'.Inv := by
  have := spec_inv s h (.read k)
  unfold RSpec.rd at hr
  split at hr
  · next b' s'' heq => cases hr; rw [heq] at this; exact this
  · cases hr

theorem readNT_mem (fuel : Nat) (s : MemR) (acc : Bytes) (h : s.Inv) :
    readNT MemR.rd fuel s acc = readNT RSpec.rd fuel s acc := by
  induction fuel generalizing s acc with
  | zero => rfl
  | succ fuel ih =>
    simp only [readNT]
    rw [memrd_eq s h 1 (by unfold W64; omega)]
    cases hr : RSpec.rd s 1 with
    | error e => rfl
    | ok p =>
      obtain ⟨b, s'⟩ := p
      have hi := rd_inv s s' b 1 h hr
      simp only
      split
      · split
        · rfl
        · exact ih s' _ hi
      · rfl

end Op2.Stream

namespace Op2.Stream
/-! ## the loop over ANY reader that refines the abstract one on single-byte reads

`SimRes E ab G r r'`: the concrete result `r` and the abstract result `r'` agree — both fail (error kinds related by
`E`: take `Eq` when they coincide, `fun _ _ => True` when they need not), or both succeed with the same bytes, the
concrete final state satisfying the invariant `G` and abstracting (`ab`) to the abstract final state. -/

def SimRes {σ : Type} (E : Err → Err → Prop) (ab : σ → RSpec) (G : σ → Prop)
    (r : Except Err (Bytes × σ)) (r' : Except Err (Bytes × RSpec)) : Prop :=
  match r, r' with
  | .ok (b, s'), .ok (b', a') => b = b' ∧ ab s' = a' ∧ G s'
  | .error e, .error e' => E e e'
  | .ok _, .error _ => False
  | .error _, .ok _ => False

/-- the abstract reader hands out exactly one byte for `Read(1)` -/
theorem rd_one_singleton (a a' : RSpec) (b : Bytes) (h : RSpec.rd a 1 = .ok (b, a')) : ∃ c, b = [c] := by
  unfold RSpec.rd RSpec.step at h
  by_cases hin : a.pos + 1 ≤ a.data.length
  · simp only [hin, if_true, Except.ok.injEq, Prod.mk.injEq] at h
    obtain ⟨hb, _⟩ := h
    have hl : b.length = 1 := by
      rw [← hb]; simp only [RSpec.window, List.length_take, List.length_drop]; omega
    match b, hl with
    | [c], _ => exact ⟨c, rfl⟩
  · simp [hin] at h

/-- **simulation**: a reader whose `Read(1)` agrees with the abstract reader's on every state satisfying `G`
    (same success/failure, same byte, abstraction commutes, `G` kept) runs the whole
    `ReadNullTerminatedString` loop in agreement with the abstract reader: same success/failure, same string,
    and the final state abstracts to the abstract final state -/
theorem readNT_sim {σ : Type} (E : Err → Err → Prop) (rd : σ → Nat → Except Err (Bytes × σ)) (ab : σ → RSpec)
    (G : σ → Prop) (hstep : ∀ s, G s → SimRes E ab G (rd s 1) (RSpec.rd (ab s) 1))
    (fuel : Nat) (s : σ) (acc : Bytes) (hs : G s) :
    SimRes E ab G (readNT rd fuel s acc) (readNT RSpec.rd fuel (ab s) acc) := by
  induction fuel generalizing s acc with
  | zero => exact ⟨rfl, rfl, hs⟩
  | succ fuel ih =>
    have h := hstep s hs
    simp only [readNT]
    cases h1 : rd s 1 with
    | error e =>
      cases h2 : RSpec.rd (ab s) 1 with
      | error e' => rw [h1, h2] at h; exact h
      | ok p' => rw [h1, h2] at h; exact h.elim
    | ok p =>
      cases h2 : RSpec.rd (ab s) 1 with
      | error e' => rw [h1, h2] at h; exact h.elim
      | ok p' =>
        obtain ⟨b, s'⟩ := p
        obtain ⟨b', a'⟩ := p'
        rw [h1, h2] at h
        obtain ⟨hb, ha, hg⟩ := h
        subst hb
        obtain ⟨c, rfl⟩ := rd_one_singleton (ab s) a' b h2
        subst ha
        simp only
        by_cases hc : c = 0
        · rw [if_pos hc, if_pos hc]; exact ⟨rfl, rfl, hg⟩
        · rw [if_neg hc, if_neg hc]; exact ih s' (c :: acc) hg

/-- the simulation composed with `readNT_spec`: over any refining reader the loop delivers what `ntSpec` says of the
    bytes ahead of the abstract cursor, and the final state abstracts to the cursor advanced by the consumed count -/
theorem readNT_refined {σ : Type} (E : Err → Err → Prop) (rd : σ → Nat → Except Err (Bytes × σ)) (ab : σ → RSpec)
    (G : σ → Prop) (hstep : ∀ s, G s → SimRes E ab G (rd s 1) (RSpec.rd (ab s) 1))
    (m : Nat) (s : σ) (hs : G s) (hp : (ab s).pos ≤ (ab s).data.length) :
    match ntSpec ((ab s).data.drop (ab s).pos) m with
    | some (str, n) => ∃ s', readNT rd m s [] = .ok (str, s') ∧ G s' ∧ ab s' = { ab s with pos := (ab s).pos + n }
    | none => ∃ e, readNT rd m s [] = .error e ∧ E e .bounds := by
  have h := readNT_sim E rd ab G hstep m s [] hs
  rw [readNT_spec m (ab s) [] hp] at h
  cases hn : ntSpec ((ab s).data.drop (ab s).pos) m with
  | none =>
    rw [hn] at h
    cases hr : readNT rd m s [] with
    | error e => rw [hr] at h; exact ⟨e, rfl, h⟩
    | ok p => rw [hr] at h; exact h.elim
  | some q =>
    obtain ⟨str, n⟩ := q
    rw [hn] at h
    cases hr : readNT rd m s [] with
    | error e => rw [hr] at h; exact h.elim
    | ok p =>
      obtain ⟨b, s'⟩ := p
      rw [hr] at h
      obtain ⟨hb, ha, hg⟩ := h
      refine ⟨s', ?_, hg, ha⟩
      rw [hb]; simp

/-! ## instance: `SliceReader<W>` -/

/-- a slice's checked `Read(k)` as the typed helpers see it (the driver's `Rd.read` on a slice backend) -/
def Slice.rd {σ : Type} (W : Wrapped σ) (s : Slice σ) (k : Nat) : Except Err (Bytes × Slice σ) :=
  match Slice.step W s (.read k) with
  | (.bytes b, s') => .ok (b, s')
  | _ => .error .bounds

variable {σ : Type} {W : Wrapped σ} {ab : σ → RSpec} {G : σ → Prop}

/-- one checked read of a slice agrees with the abstract reader over the slice's window — errors included -/
theorem slice_rd_sim (ok : WrappedOK W ab G) (s : Slice σ) (hs : sliceGood G ab s) (k : Nat) (hk : k < W64) :
    SimRes Eq (sliceAbs ab) (sliceGood G ab) (Slice.rd W s k) (RSpec.rd (sliceAbs ab s) k) := by
  obtain ⟨e1, g, a⟩ := slice_refines ok s hs (.read k) hk
  unfold Slice.rd RSpec.rd
  generalize Slice.step W s (.read k) = r at e1 g a
  generalize RSpec.step (sliceAbs ab s) (.read k) = r' at e1 a
  obtain ⟨o, s'⟩ := r
  obtain ⟨o', a'⟩ := r'
  simp only at e1 g a
  subst e1; subst a
  cases o with
  | bytes b => exact ⟨rfl, rfl, g⟩
  | unit => exact rfl
  | err => exact rfl

/-- `ReadNullTerminatedString` over a slice of any in-bounds-correct stream runs exactly like the abstract reader
    over the slice's window -/
theorem readNT_slice (ok : WrappedOK W ab G) (fuel : Nat) (s : Slice σ) (acc : Bytes) (hs : sliceGood G ab s) :
    SimRes Eq (sliceAbs ab) (sliceGood G ab) (readNT (Slice.rd W) fuel s acc)
      (readNT RSpec.rd fuel (sliceAbs ab s) acc) :=
  readNT_sim Eq (Slice.rd W) (sliceAbs ab) (sliceGood G ab)
    (fun t ht => slice_rd_sim ok t ht 1 (by unfold W64; omega)) fuel s acc hs

/-- … hence delivers what `ntSpec` says of the window ahead of the slice's cursor -/
theorem readNT_slice_spec (ok : WrappedOK W ab G) (m : Nat) (s : Slice σ) (hs : sliceGood G ab s) :
    match ntSpec ((sliceAbs ab s).data.drop (sliceAbs ab s).pos) m with
    | some (str, n) => ∃ s', readNT (Slice.rd W) m s [] = .ok (str, s') ∧ sliceGood G ab s' ∧
        sliceAbs ab s' = { sliceAbs ab s with pos := (sliceAbs ab s).pos + n }
    | none => readNT (Slice.rd W) m s [] = .error .bounds := by
  have h := readNT_refined Eq (Slice.rd W) (sliceAbs ab) (sliceGood G ab)
    (fun t ht => slice_rd_sim ok t ht 1 (by unfold W64; omega)) m s hs ((sliceWrappedOK ok).inv s hs).1
  cases hn : ntSpec ((sliceAbs ab s).data.drop (sliceAbs ab s).pos) m with
  | none =>
    rw [hn] at h
    obtain ⟨e, he, rfl⟩ := h
    exact he
  | some q => rw [hn] at h; exact h

/-- the slice's own `Position()` is the abstract cursor -/
theorem slice_position_abs (ok : WrappedOK W ab G) (s : Slice σ) (hs : sliceGood G ab s) :
    Slice.position W s = (sliceAbs ab s).pos := slice_position_eq ok s hs

end Op2.Stream
