import Op2Proofs.Prt.WriteFacts
/-! The writer's output equals the frozen format description `Spec.encode` on well-formed structures. -/
namespace Op2.Prt
open Op2

theorem spec_paletteBlock (p : Palette) : Spec.paletteBlock p = canonicalPaletteHeader ++ encPalette p := by
  simp [Spec.paletteBlock, Spec.sect, canonicalPaletteHeader, tagPPAL, tagHead, tagData, encPalette, colorToFile]
  rfl

theorem spec_imageRecord (im : ImageMeta) : Spec.imageRecord im = encImage im := by
  simp [Spec.imageRecord, encU32s, encU16s, encImage]

theorem spec_layerRecord (l : Layer) : Spec.layerRecord l = encLayer l := by
  simp [Spec.layerRecord, encU16s, encLayer, encU8]

theorem spec_metaByte (m : LayerMeta) (h : m.Rep) : [Spec.metaByte m] = encU8 (metaToByte m) := by
  unfold LayerMeta.Rep at h
  cases m with | mk c fl =>
  cases fl <;> simp [Spec.metaByte, metaToByte, encU8, Nat.mod_eq_of_lt h]

theorem spec_frameBlock (f : Frame) (h1 : f.layerMeta.Rep) (h2 : f.unknownBits.Rep) : Spec.frameBlock f = encFrame f := by
  have e1 := spec_metaByte _ h1
  have e2 := spec_metaByte _ h2
  have e : [Spec.metaByte f.layerMeta, Spec.metaByte f.unknownBits] = encU8 (metaToByte f.layerMeta) ++ encU8 (metaToByte f.unknownBits) := by
    rw [← e1, ← e2]; rfl
  unfold Spec.frameBlock encFrame
  rw [e]
  have e3 : f.layers.flatMap Spec.layerRecord = f.layers.flatMap encLayer := by
    have : Spec.layerRecord = encLayer := funext spec_layerRecord
    rw [this]
  rw [e3]
  cases f.layerMeta.flag <;> cases f.unknownBits.flag <;> simp [encOpt, encU8]

theorem flatMap_congr' {α : Type} {f g : α → Bytes} : ∀ (l : List α), (∀ x ∈ l, f x = g x) → l.flatMap f = l.flatMap g
  | [], _ => rfl
  | x :: xs, h => by
    simp only [List.flatMap_cons]
    rw [h x (by simp), flatMap_congr' xs (fun y hy => h y (by simp [hy]))]

theorem spec_animBlock (an : Animation) (h : ∀ f ∈ an.frames, f.layerMeta.Rep ∧ f.unknownBits.Rep) : Spec.animBlock an = encAnim an := by
  unfold Spec.animBlock encAnim
  rw [flatMap_congr' an.frames (fun f hf => spec_frameBlock f (h f hf).1 (h f hf).2)]
  have e : an.unknownContainer.flatMap (fun c => encU32s [c.u1, c.u2, c.u3, c.u4]) = an.unknownContainer.flatMap encUC :=
    flatMap_congr' _ (fun c _ => by simp [encU32s, encUC])
  rw [e]
  simp [encU32s, encAnimHead]

theorem spec_encode (a : ArtFile) (h : a.Rep) : Spec.encode a = encFile a := by
  unfold Spec.encode encFile
  have e1 : a.palettes.flatMap Spec.paletteBlock = a.palettes.flatMap (fun p => canonicalPaletteHeader ++ encPalette p) :=
    flatMap_congr' _ (fun p _ => spec_paletteBlock p)
  have e2 : a.imageMetas.flatMap Spec.imageRecord = a.imageMetas.flatMap encImage := flatMap_congr' _ (fun im _ => spec_imageRecord im)
  have e3 : a.animations.flatMap Spec.animBlock = a.animations.flatMap encAnim := by
    apply flatMap_congr'
    intro an han
    apply spec_animBlock
    intro f hf
    have := (h.2.2.2.2.2.2.2.2.1 an han).2.2.2.2.2.2.2.2.2.2.1 f hf
    exact ⟨this.1, this.2.1⟩
  rw [e1, e2, e3]
  simp [Spec.sect, tagCPAL, encU32s]

end Op2.Prt
