import Op2Proofs.Prt.ReadFacts
/-! Follow-up operations on a loaded object never reach a `Fault`. -/
namespace Op2.Prt
open Op2

theorem idx_ok {α : Type} {v : List α} {i : Nat} (h : i < v.length) : idx v i = .ok v[i] := by
  unfold idx; simp [List.getElem?_eq_getElem h]

theorem slice_ok {b : Bytes} {off len : Nat} (h : off + len ≤ b.length) : ∃ r, slice b off len = .ok r ∧ r.length = len := by
  unfold slice; rw [if_pos h]
  exact ⟨_, rfl, by simp [List.length_take, List.length_drop]; omega⟩

/-- the row loop of the bitmap writer stays inside the pixel buffer -/
theorem bmpRows_ok (pixels : Bytes) (pitch rowBytes : Nat) (hrow : rowBytes ≤ pitch) :
    ∀ (n y : Nat), y * pitch + n * pitch ≤ pixels.length → ∃ r, bmpRows pixels pitch rowBytes y n = .ok r
  | 0, y, _ => ⟨[], by simp [bmpRows]⟩
  | n + 1, y, h => by
    rw [Nat.succ_mul] at h
    obtain ⟨row, hrow', _⟩ := slice_ok (b := pixels) (off := y * pitch) (len := rowBytes) (by omega)
    obtain ⟨rest, hrest⟩ := bmpRows_ok pixels pitch rowBytes hrow n (y + 1) (by rw [Nat.succ_mul]; omega)
    exact ⟨row ++ zeros (pitch - rowBytes) ++ rest, by simp [bmpRows, hrow', hrest]⟩

theorem bmpEmit_no_fault (bitCount width height : Nat) (palette : List Color) (pixels : Bytes) :
    ∃ r, bmpEmit bitCount width height palette pixels = .ok r := by
  unfold bmpEmit
  simp only
  split
  · exact ⟨_, rfl⟩
  · split
    · exact ⟨_, rfl⟩
    · rename_i _ hlen
      have hlen : pixels.length = (((width * bitCount + 7) / 8 + 3) / 4 * 4) * height := by simpa using hlen
      obtain ⟨rows, hrows⟩ := bmpRows_ok pixels (((width * bitCount + 7) / 8 + 3) / 4 * 4) ((width * bitCount + 7) / 8)
        (by omega) height 0 (by rw [hlen, Nat.mul_comm]; simp [Nat.mul_comm])
      rw [hrows]
      exact ⟨_, rfl⟩

/-- on a representable structure obeying the rules, extraction never faults -/
theorem extractImage_no_fault {a : ArtFile} (hr : a.Rep) (hrules : rules a) (i : Nat) (pix : Bytes) :
    ∃ r, extractImage a i pix = .ok r := by
  unfold extractImage verifyIndex
  split
  · exact ⟨_, rfl⟩
  · rename_i _ hv
    split at hv
    · simp at hv
    · rename_i hi
      have hi : i < a.imageMetas.length := by omega
      rw [idx_ok hi]
      simp only
      have hmem : a.imageMetas[i] ∈ a.imageMetas := List.getElem_mem hi
      have hp := (hrules.1 _ hmem).1
      rw [idx_ok hp]
      simp only
      have hpl : (a.palettes[(a.imageMetas[i]).paletteIndex]).length = 256 := hr.2.2.1 _ (List.getElem_mem hp)
      rw [hpl]
      have h2 : ¬ (2 ^ (if isShadow a.imageMetas[i] = true then 1 else 8) > 256) := by split <;> decide
      rw [if_neg h2]
      split
      · exact ⟨_, rfl⟩
      · split
        · exact ⟨_, rfl⟩
        · rename_i _ hb
          obtain ⟨px, hpx, _⟩ := slice_ok (b := pix) (off := a.imageMetas[i].pixelDataOffset + 14 + 40 + 1024)
            (len := a.imageMetas[i].scanLineByteWidth * a.imageMetas[i].height) (by omega)
          rw [hpx]
          simp only
          split
          · exact ⟨_, rfl⟩
          · split
            · exact ⟨_, rfl⟩
            · exact bmpEmit_no_fault _ _ _ _ _

theorem extractImage_index {a : ArtFile} {i : Nat} (h : a.imageMetas.length ≤ i) (pix : Bytes) :
    extractImage a i pix = .ok (.error .bounds) := by
  unfold extractImage verifyIndex
  rw [if_pos (by omega)]

theorem frameCount_ok {a : ArtFile} {i : Nat} (h : i < a.animations.length) : frameCount a i = .ok a.animations[i].frames.length := by
  unfold frameCount; rw [idx_ok h]

theorem layerCount_ok {a : ArtFile} {i j : Nat} (h : i < a.animations.length) (hj : j < a.animations[i].frames.length) :
    layerCount a i j = .ok (a.animations[i].frames[j]).layers.length := by
  unfold layerCount; rw [idx_ok h]; simp only; rw [idx_ok hj]

end Op2.Prt
