import Op2Model.Prt
import Op2Proofs.ParserLemmas
/-! decode ∘ encode = id for the fixed-size records of the PRT format -/
namespace Op2.Prt
open Op2 Op2.Parser

theorem imageOfBytes_enc (im : ImageMeta) (h : im.Rep) : imageOfBytes (encImage im) = im := by
  obtain ⟨h1, h2, h3, h4, h5, h6⟩ := h
  unfold W32 at h1 h2 h3 h4
  cases im
  simp only [imageOfBytes, encImage, encU32, encU16, decU32, decU16, List.cons_append, List.nil_append, List.drop_succ_cons,
    List.drop_zero, UInt8.toNat_ofNat', ImageMeta.mk.injEq] at *
  refine ⟨?_, ?_, ?_, ?_, ?_, ?_⟩ <;> omega

theorem layerOfBytes_enc (l : Layer) (h : l.Rep) : layerOfBytes (encLayer l) = l := by
  obtain ⟨h1, h2, h3, h4, h5⟩ := h
  cases l
  simp only [layerOfBytes, encLayer, encU16, encU8, decU16, byteAt, List.cons_append, List.nil_append, List.drop_succ_cons,
    List.drop_zero, UInt8.toNat_ofNat', Layer.mk.injEq, List.getD_cons_succ, List.getD_cons_zero] at *
  refine ⟨?_, ?_, ?_, ?_, ?_⟩ <;> omega

theorem ucOfBytes_enc (c : UnknownContainer) (h : c.Rep) : ucOfBytes (encUC c) = c := by
  obtain ⟨h1, h2, h3, h4⟩ := h
  unfold W32 at h1 h2 h3 h4
  cases c
  simp only [ucOfBytes, encUC, encU32, decU32, List.cons_append, List.nil_append, List.drop_succ_cons,
    List.drop_zero, UInt8.toNat_ofNat', UnknownContainer.mk.injEq] at *
  refine ⟨?_, ?_, ?_, ?_⟩ <;> omega

theorem colorOfFile_enc (c : Color) : colorOfFile (colorToFile c) = c := by
  cases c; simp [colorOfFile, colorToFile, byteAt]

theorem metaOfByte_enc (m : LayerMeta) (h : m.Rep) : metaOfByte (metaToByte m) = m := by
  unfold LayerMeta.Rep at h
  cases m with | mk c fl =>
  cases fl <;> simp [metaOfByte, metaToByte] at * <;> omega

theorem metaToByte_lt (m : LayerMeta) (h : m.Rep) : metaToByte m < 256 := by
  unfold LayerMeta.Rep at h
  cases m with | mk c fl =>
  cases fl <;> simp [metaToByte] at * <;> omega

end Op2.Prt

namespace Op2.Prt
open Op2 Op2.Parser

theorem animHead_count (an : Animation) (n : Nat) (hn : n < W32) : decU32 ((encAnimHead an ++ encU32 n).drop 32) = n := by
  unfold W32 at hn
  simp only [encAnimHead, encU32, decU32, List.cons_append, List.nil_append, List.drop_succ_cons, List.drop_zero,
    UInt8.toNat_ofNat']
  omega

theorem animOfParts_enc (an : Animation) (n : Nat) (h : an.Rep) :
    animOfParts (encAnimHead an ++ encU32 n) an.frames an.unknownContainer = an := by
  obtain ⟨h1, h2, h3, h4, h5, h6, h7, h8, _⟩ := h
  unfold W32 at h1 h2 h3 h4 h5 h6 h7 h8
  cases an
  simp only [animOfParts, encAnimHead, encU32, decU32, List.cons_append, List.nil_append, List.drop_succ_cons, List.drop_zero,
    UInt8.toNat_ofNat', Animation.mk.injEq, and_true] at *
  refine ⟨?_, ?_, ?_, ?_, ?_, ?_, ?_, ?_⟩ <;> omega

theorem animHead_length (an : Animation) (n : Nat) : (encAnimHead an ++ encU32 n).length = 36 := rfl

end Op2.Prt
