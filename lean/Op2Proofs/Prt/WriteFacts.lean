import Op2Model.Prt
/-! The PRT writer: when it succeeds, what it emits, and that success implies the cross-field rules. -/
namespace Op2.Prt
open Op2

theorem writeFrame_ok {f : Frame} {b : Bytes} (h : writeFrame f = .ok b) :
    f.layerMeta.count = f.layers.length ∧ b = encFrame f := by
  unfold writeFrame at h
  split at h
  · simp at h
  · rename_i hc; simp at h; exact ⟨by simpa using hc, h.symm⟩

theorem writeFrame_of {f : Frame} (h : f.layerMeta.count = f.layers.length) : writeFrame f = .ok (encFrame f) := by
  unfold writeFrame; simp [h]

theorem writeFrames_ok : ∀ {fs : List Frame} {b : Bytes}, writeFrames fs = .ok b →
    (∀ f ∈ fs, f.layerMeta.count = f.layers.length) ∧ b = fs.flatMap encFrame
  | [], b, h => by simp [writeFrames] at h; simp [h]
  | f :: fs, b, h => by
    unfold writeFrames at h
    split at h
    · simp at h
    · rename_i b1 h1
      split at h
      · simp at h
      · rename_i bs h2
        simp at h
        obtain ⟨hc, rfl⟩ := writeFrame_ok h1
        obtain ⟨hcs, rfl⟩ := writeFrames_ok h2
        refine ⟨?_, by simp [h.symm]⟩
        intro g hg
        rcases List.mem_cons.mp hg with rfl | hg
        · exact hc
        · exact hcs g hg

theorem writeFrames_of : ∀ {fs : List Frame}, (∀ f ∈ fs, f.layerMeta.count = f.layers.length) →
    writeFrames fs = .ok (fs.flatMap encFrame)
  | [], _ => by simp [writeFrames]
  | f :: fs, h => by
    unfold writeFrames
    rw [writeFrame_of (h f (by simp)), writeFrames_of (fun g hg => h g (by simp [hg]))]
    simp

/-- bytes of one animation -/
def encAnim (an : Animation) : Bytes :=
  encAnimHead an ++ encU32 an.frames.length ++ an.frames.flatMap encFrame ++ encU32 an.unknownContainer.length ++
  an.unknownContainer.flatMap encUC

theorem writeAnim_ok {an : Animation} {b : Bytes} (h : writeAnim an = .ok b) :
    (∀ f ∈ an.frames, f.layerMeta.count = f.layers.length) ∧ b = encAnim an := by
  unfold writeAnim at h
  split at h
  · simp at h
  · split at h
    · simp at h
    · rename_i fs hfs
      split at h
      · simp at h
      · simp at h
        obtain ⟨hc, rfl⟩ := writeFrames_ok hfs
        exact ⟨hc, by rw [← h]; simp [encAnim]⟩

theorem writeAnim_of {an : Animation} (h : ∀ f ∈ an.frames, f.layerMeta.count = f.layers.length)
    (h1 : an.frames.length ≤ M32) (h2 : an.unknownContainer.length ≤ M32) : writeAnim an = .ok (encAnim an) := by
  unfold writeAnim
  rw [if_neg (by omega), writeFrames_of h]
  simp only
  rw [if_neg (by omega)]; rfl

theorem writeAnims_ok : ∀ {ans : List Animation} {b : Bytes}, writeAnims ans = .ok b →
    (∀ an ∈ ans, ∀ f ∈ an.frames, f.layerMeta.count = f.layers.length) ∧ b = ans.flatMap encAnim
  | [], b, h => by simp [writeAnims] at h; simp [h]
  | an :: ans, b, h => by
    unfold writeAnims at h
    split at h
    · simp at h
    · rename_i b1 h1
      split at h
      · simp at h
      · rename_i bs h2
        simp at h
        obtain ⟨hc, rfl⟩ := writeAnim_ok h1
        obtain ⟨hcs, rfl⟩ := writeAnims_ok h2
        refine ⟨?_, by simp [h.symm]⟩
        intro g hg
        rcases List.mem_cons.mp hg with rfl | hg
        · exact hc
        · exact hcs g hg

theorem writeAnims_of : ∀ {ans : List Animation},
    (∀ an ∈ ans, (∀ f ∈ an.frames, f.layerMeta.count = f.layers.length) ∧ an.frames.length ≤ M32 ∧ an.unknownContainer.length ≤ M32) →
    writeAnims ans = .ok (ans.flatMap encAnim)
  | [], _ => by simp [writeAnims]
  | an :: ans, h => by
    unfold writeAnims
    have := h an (by simp)
    rw [writeAnim_of this.1 this.2.1 this.2.2, writeAnims_of (fun g hg => h g (by simp [hg]))]
    simp

/-- bytes of a whole file, in the shape the writer emits them -/
def encFile (a : ArtFile) : Bytes :=
  tagCPAL ++ encU32 a.palettes.length ++ a.palettes.flatMap (fun p => canonicalPaletteHeader ++ encPalette p) ++
  encU32 a.imageMetas.length ++ a.imageMetas.flatMap encImage ++
  encU32 a.animations.length ++ encU32 (totalFrames a.animations) ++ encU32 (totalLayers a.animations) ++
  encU32 a.unknownAnimationCount ++ a.animations.flatMap encAnim

theorem write_ok {a : ArtFile} {w : Bytes} (h : write a = .ok w) :
    (∀ im ∈ a.imageMetas, imageOk a.palettes.length im = true) ∧
    (∀ an ∈ a.animations, ∀ f ∈ an.frames, f.layerMeta.count = f.layers.length) ∧ w = encFile a := by
  unfold write at h
  split at h
  · simp at h
  · rename_i hv
    split at h
    · simp at h
    split at h
    · simp at h
    split at h
    · simp at h
    split at h
    · simp at h
    split at h
    · simp at h
    split at h
    · simp at h
    · rename_i ans hans
      simp at h
      obtain ⟨hc, rfl⟩ := writeAnims_ok hans
      refine ⟨?_, hc, by rw [← h]; simp [encFile]⟩
      simp only [Bool.not_eq_true', Bool.not_eq_false] at hv
      have : a.imageMetas.all (imageOk a.palettes.length) = true := by simpa using hv
      exact List.all_eq_true.mp this

theorem write_of {a : ArtFile} (hr : a.Rep) (hrules : rules a) : write a = .ok (encFile a) := by
  obtain ⟨hp1, _, _, hi1, _, hir, ha1, _, har, htf, htl, _⟩ := hr
  have hv : a.imageMetas.all (imageOk a.palettes.length) = true := by
    rw [List.all_eq_true]
    intro im him
    have := hrules.1 im him
    have hw := (hir im him).2.2.2.1
    unfold imageOk
    simp only [Bool.and_eq_true, beq_iff_eq, decide_eq_true_eq]
    refine ⟨?_, this.1⟩
    rw [this.2]; unfold roundUp4 u64 W64; unfold W32 at hw; omega
  have hans : writeAnims a.animations = .ok (a.animations.flatMap encAnim) := by
    apply writeAnims_of
    intro an han
    have := har an han
    refine ⟨hrules.2 an han, ?_, ?_⟩
    · have := this.2.2.2.2.2.2.2.2.1; unfold W32 at this; unfold M32; omega
    · have := this.2.2.2.2.2.2.2.2.2.2.2.1; unfold W32 at this; unfold M32; omega
  unfold write
  unfold W32 at hp1 hi1 ha1 htf htl
  rw [hv]
  simp only [Bool.not_true, Bool.false_eq_true, if_false]
  rw [if_neg (by unfold M32; omega), if_neg (by unfold M32; omega), if_neg (by unfold M32; omega),
    if_neg (by unfold M32; omega), if_neg (by unfold M32; omega), hans]
  rfl

/-- success of the writer implies the cross-field rules (for representable structures) -/
theorem write_rules {a : ArtFile} {w : Bytes} (hr : a.Rep) (h : write a = .ok w) : rules a := by
  obtain ⟨hv, hc, _⟩ := write_ok h
  refine ⟨?_, hc⟩
  intro im him
  have hw := (hr.2.2.2.2.2.1 im him).2.2.2.1
  have := hv im him
  unfold imageOk at this
  simp only [Bool.and_eq_true, beq_iff_eq, decide_eq_true_eq] at this
  refine ⟨this.2, ?_⟩
  rw [this.1]; unfold roundUp4 u64 W64; unfold W32 at hw; omega

end Op2.Prt
