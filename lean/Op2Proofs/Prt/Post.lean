import Op2Model.Prt
import Op2Proofs.ParserLemmas
/-! Postconditions of parsers: what holds of every value a parser returns (`Post`), closed under the combinators. -/
namespace Op2.Parser.PrtInv
open Op2

theorem bind_ok {α β : Type} {p : Parser α} {f : α → Parser β} {xs : Bytes} {b : β} {rest : Bytes}
    (h : bind p f xs = .ok (b, rest)) : ∃ a r1, p xs = .ok (a, r1) ∧ f a r1 = .ok (b, rest) := by
  unfold bind at h
  split at h
  · rename_i a r1 hp; exact ⟨a, r1, hp, h⟩
  · simp at h

theorem guard_ok {c : Bool} {e : Err} {xs : Bytes} {u : Unit} {rest : Bytes}
    (h : guard c e xs = .ok (u, rest)) : c = true ∧ rest = xs := by
  unfold guard at h
  split at h
  · rename_i hc; simp [pure] at h; exact ⟨hc, h.symm⟩
  · simp [fail] at h

theorem take_ok {k : Nat} {xs a rest : Bytes} (h : take k xs = .ok (a, rest)) :
    a.length = k ∧ xs = a ++ rest := by
  unfold take at h
  split at h
  · rename_i hk; simp at h; obtain ⟨rfl, rfl⟩ := h
    exact ⟨by simp [List.length_take]; omega, by simp⟩
  · simp at h

theorem pure_ok {α : Type} {a b : α} {xs rest : Bytes} (h : (pure a : Parser α) xs = .ok (b, rest)) : b = a ∧ rest = xs := by
  simp [pure] at h; exact ⟨h.1.symm, h.2.symm⟩

theorem map_ok {α β : Type} {p : Parser α} {f : α → β} {xs : Bytes} {b : β} {rest : Bytes}
    (h : map p f xs = .ok (b, rest)) : ∃ a, p xs = .ok (a, rest) ∧ b = f a := by
  obtain ⟨a, r1, hp, hf⟩ := bind_ok h
  obtain ⟨rfl, rfl⟩ := pure_ok hf
  exact ⟨a, hp, rfl⟩

/-- `Q` holds of every value `p` returns -/
def Post {α : Type} (p : Parser α) (Q : α → Prop) : Prop := ∀ xs a rest, p xs = .ok (a, rest) → Q a

theorem post_pure {α : Type} {a : α} {Q : α → Prop} (h : Q a) : Post (pure a) Q := by
  intro xs b rest hb; obtain ⟨rfl, _⟩ := pure_ok hb; exact h

theorem post_bind {α β : Type} {p : Parser α} {f : α → Parser β} {Q1 : α → Prop} {Q2 : β → Prop}
    (hp : Post p Q1) (hf : ∀ a, Q1 a → Post (f a) Q2) : Post (bind p f) Q2 := by
  intro xs b rest h
  obtain ⟨a, r1, h1, h2⟩ := bind_ok h
  exact hf a (hp _ _ _ h1) _ _ _ h2

theorem post_map {α β : Type} {p : Parser α} {f : α → β} {Q1 : α → Prop} {Q2 : β → Prop}
    (hp : Post p Q1) (hf : ∀ a, Q1 a → Q2 (f a)) : Post (map p f) Q2 :=
  post_bind hp (fun a ha => post_pure (hf a ha))

theorem post_take (k : Nat) : Post (take k) (fun b => b.length = k) := by
  intro xs a rest h; exact (take_ok h).1

theorem post_guard (c : Bool) (e : Err) : Post (guard c e) (fun _ => c = true) := by
  intro xs a rest h; exact (guard_ok h).1

theorem post_true {α : Type} (p : Parser α) : Post p (fun _ => True) := fun _ _ _ _ => trivial

theorem post_many {α : Type} {p : Parser α} {Q : α → Prop} (hp : Post p Q) :
    ∀ n, Post (many p n) (fun as => as.length = n ∧ ∀ a ∈ as, Q a)
  | 0 => post_pure ⟨rfl, by simp⟩
  | n + 1 => post_bind hp (fun a ha => post_bind (post_many hp n) (fun as has =>
      post_pure ⟨by simp [has.1], by
        intro x hx
        rcases List.mem_cons.mp hx with rfl | hx
        · exact ha
        · exact has.2 x hx⟩))

theorem post_u8 : Post u8 (fun v => v < 256) := by
  refine post_map (post_take 1) ?_
  intro b _; exact (b.headD 0).toNat_lt

theorem decU16_lt (b : Bytes) : decU16 b < 65536 := by
  unfold decU16; split
  · rename_i a b _; have := a.toNat_lt; have := b.toNat_lt; omega
  · omega

theorem decU32_lt (b : Bytes) : decU32 b < 4294967296 := by
  unfold decU32; split
  · rename_i a b c d _; have := a.toNat_lt; have := b.toNat_lt; have := c.toNat_lt; have := d.toNat_lt; omega
  · omega

theorem post_u32 : Post u32 (fun v => v < 4294967296) := post_map (post_true _) (fun b _ => decU32_lt b)

end Op2.Parser.PrtInv
