import Op2Model.Prt
import Op2Proofs.ParserLemmas
/-! `Local` for every parser of the PRT reader: success depends on the consumed prefix only, and every proper prefix
that cuts into the consumed part is refused. -/
namespace Op2.Prt
open Op2 Op2.Parser

theorem local_colorP : Local colorP := local_map _ (local_take 4)
theorem local_imageP : Local imageP := local_map _ (local_take 20)
theorem local_layerP : Local layerP := local_map _ (local_take 8)
theorem local_ucP : Local ucP := local_map _ (local_take 16)

theorem local_optP (flag : Bool) : Local (optP flag) := by
  unfold optP; split
  · exact local_bind local_u8 (fun _ => local_bind local_u8 (fun _ => local_pure _))
  · exact local_pure _

theorem local_paletteP : Local paletteP :=
  local_bind (local_take 28) fun _ => local_bind (local_guard _ _) fun _ =>
    local_bind (local_many local_colorP 256) fun _ => local_pure _

theorem local_frameP : Local frameP :=
  local_bind local_u8 fun _ => local_bind local_u8 fun _ => local_bind (local_optP _) fun _ =>
    local_bind (local_optP _) fun _ => local_bind (local_many local_layerP _) fun _ => local_pure _

theorem local_animP : Local animP :=
  local_bind (local_take 36) fun _ => local_bind (local_guard _ _) fun _ =>
    local_bind (local_many local_frameP _) fun _ => local_bind local_u32 fun _ => local_bind (local_guard _ _) fun _ =>
      local_bind (local_many local_ucP _) fun _ => local_pure _

theorem local_readFull : Local readFull :=
  local_bind (local_take 8) fun _ => local_bind (local_guard _ _) fun _ => local_bind (local_guard _ _) fun _ =>
    local_bind (local_many local_paletteP _) fun _ => local_bind local_u32 fun _ => local_bind (local_guard _ _) fun _ =>
      local_bind (local_many local_imageP _) fun _ => local_bind (local_guard _ _) fun _ => local_bind local_u32 fun _ =>
        local_bind (local_guard _ _) fun _ => local_bind (local_take 12) fun _ => local_bind (local_many local_animP _) fun _ =>
          local_bind (local_guard _ _) fun _ => local_pure _

end Op2.Prt
