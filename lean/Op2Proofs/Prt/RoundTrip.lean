import Op2Proofs.Prt.Codec
import Op2Proofs.Prt.WriteFacts
/-! `Reads`: the reader run on what the writer emits returns the structure and leaves exactly the rest. -/
namespace Op2.Prt
open Op2 Op2.Parser

theorem reads_imageP (im : ImageMeta) (h : im.Rep) : Reads imageP (encImage im) im := by
  have := reads_map imageOfBytes (reads_take' (encImage im) 20 rfl)
  rw [imageOfBytes_enc im h] at this; exact this

theorem reads_layerP (l : Layer) (h : l.Rep) : Reads layerP (encLayer l) l := by
  have := reads_map layerOfBytes (reads_take' (encLayer l) 8 rfl)
  rw [layerOfBytes_enc l h] at this; exact this

theorem reads_ucP (c : UnknownContainer) (h : c.Rep) : Reads ucP (encUC c) c := by
  have := reads_map ucOfBytes (reads_take' (encUC c) 16 rfl)
  rw [ucOfBytes_enc c h] at this; exact this

theorem reads_colorP (c : Color) : Reads colorP (colorToFile c) c := by
  have := reads_map colorOfFile (reads_take' (colorToFile c) 4 rfl)
  rw [colorOfFile_enc c] at this; exact this

theorem reads_guard {c : Bool} (e : Err) (h : c = true) : Reads (guard c e) [] () := by
  subst h; exact reads_pure ()

theorem canonical_ok : paletteHeaderOk canonicalPaletteHeader = true := by decide

theorem reads_paletteP (p : Palette) (h : p.length = 256) :
    Reads paletteP (canonicalPaletteHeader ++ encPalette p) (canonicalPaletteHeader, p) := by
  have hc : Reads (many colorP 256) (encPalette p) p := by
    have := reads_many reads_colorP p
    rw [h] at this; exact this
  have := reads_bind (f := fun h => Parser.bind (guard (paletteHeaderOk h)) fun _ => Parser.bind (many colorP 256) fun cs => Parser.pure (h, cs))
    (reads_take' canonicalPaletteHeader 28 rfl)
    (reads_bind (f := fun _ => Parser.bind (many colorP 256) fun cs => Parser.pure (canonicalPaletteHeader, cs))
      (reads_guard .format canonical_ok)
      (reads_bind (f := fun cs => Parser.pure (canonicalPaletteHeader, cs)) hc (reads_pure _)))
  simpa [paletteP] using this

theorem reads_optP (fl : Bool) (x y : Nat) (hx : x < 256) (hy : y < 256) (hz : fl = false → x = 0 ∧ y = 0) :
    Reads (optP fl) (encOpt fl x y) (x, y) := by
  unfold optP encOpt
  cases fl
  · obtain ⟨rfl, rfl⟩ := hz rfl
    simpa using reads_pure ((0, 0) : Nat × Nat)
  · have := reads_bind (f := fun x => Parser.bind Parser.u8 fun y => Parser.pure (x, y)) (reads_u8 x hx)
      (reads_bind (f := fun y => Parser.pure (x, y)) (reads_u8 y hy) (reads_pure (x, y)))
    simpa using this

theorem reads_frameP (f : Frame) (h : f.Rep) (hc : f.layerMeta.count = f.layers.length) : Reads frameP (encFrame f) f := by
  obtain ⟨h1, h2, ho1, ho2, ho3, ho4, hz1, hz2, hl⟩ := h
  have hls : Reads (many layerP (metaOfByte (metaToByte f.layerMeta)).count) (f.layers.flatMap encLayer) f.layers := by
    rw [metaOfByte_enc _ h1, hc]
    exact reads_many_of (P := Layer.Rep) reads_layerP f.layers hl
  have hopt1 : Reads (optP (metaOfByte (metaToByte f.layerMeta)).flag) (encOpt f.layerMeta.flag f.optional1 f.optional2)
      (f.optional1, f.optional2) := by rw [metaOfByte_enc _ h1]; exact reads_optP _ _ _ ho1 ho2 hz1
  have hopt2 : Reads (optP (metaOfByte (metaToByte f.unknownBits)).flag) (encOpt f.unknownBits.flag f.optional3 f.optional4)
      (f.optional3, f.optional4) := by rw [metaOfByte_enc _ h2]; exact reads_optP _ _ _ ho3 ho4 hz2
  have := reads_bind (f := fun m => Parser.bind Parser.u8 fun ub => Parser.bind (optP (metaOfByte m).flag) fun (o12 : Nat × Nat) =>
      Parser.bind (optP (metaOfByte ub).flag) fun (o34 : Nat × Nat) => Parser.bind (many layerP (metaOfByte m).count) fun ls =>
        Parser.pure (⟨metaOfByte m, metaOfByte ub, o12.1, o12.2, o34.1, o34.2, ls⟩ : Frame))
    (reads_u8 _ (metaToByte_lt _ h1))
    (reads_bind (f := fun ub => Parser.bind (optP (metaOfByte (metaToByte f.layerMeta)).flag) fun (o12 : Nat × Nat) =>
      Parser.bind (optP (metaOfByte ub).flag) fun (o34 : Nat × Nat) => Parser.bind (many layerP (metaOfByte (metaToByte f.layerMeta)).count) fun ls =>
        Parser.pure (⟨metaOfByte (metaToByte f.layerMeta), metaOfByte ub, o12.1, o12.2, o34.1, o34.2, ls⟩ : Frame))
      (reads_u8 _ (metaToByte_lt _ h2))
      (reads_bind (f := fun (o12 : Nat × Nat) => Parser.bind (optP (metaOfByte (metaToByte f.unknownBits)).flag) fun (o34 : Nat × Nat) =>
          Parser.bind (many layerP (metaOfByte (metaToByte f.layerMeta)).count) fun ls =>
            Parser.pure (⟨metaOfByte (metaToByte f.layerMeta), metaOfByte (metaToByte f.unknownBits), o12.1, o12.2, o34.1, o34.2, ls⟩ : Frame))
        hopt1
        (reads_bind (f := fun (o34 : Nat × Nat) => Parser.bind (many layerP (metaOfByte (metaToByte f.layerMeta)).count) fun ls =>
            Parser.pure (⟨metaOfByte (metaToByte f.layerMeta), metaOfByte (metaToByte f.unknownBits), f.optional1, f.optional2, o34.1, o34.2, ls⟩ : Frame))
          hopt2
          (reads_bind (f := fun ls =>
              Parser.pure (⟨metaOfByte (metaToByte f.layerMeta), metaOfByte (metaToByte f.unknownBits), f.optional1, f.optional2, f.optional3, f.optional4, ls⟩ : Frame))
            hls (reads_pure _)))))
  rw [metaOfByte_enc _ h1, metaOfByte_enc _ h2] at this
  simpa [frameP, encFrame] using this

end Op2.Prt

namespace Op2.Prt
open Op2 Op2.Parser

attribute [local irreducible] fits in
theorem reads_animP_aux (HD FB UB : Bytes) (frs : List Frame) (ucs : List UnknownContainer) (hlen : HD.length = 36)
    (hcount : decU32 (HD.drop 32) = frs.length) (hframes : Reads (many frameP frs.length) FB frs)
    (hucs : Reads (many ucP ucs.length) UB ucs) (hnu : ucs.length < 4294967296)
    (hg1 : frs.length * Gen.Layout.size_Frame ≤ allocCap) (hg2 : ucs.length * Gen.Layout.size_UnknownContainer ≤ allocCap) :
    Reads animP (HD ++ (FB ++ (encU32 ucs.length ++ UB))) (animOfParts HD frs ucs) := by
  have hg1' : fits (decU32 (HD.drop 32)) Gen.Layout.size_Frame = true := by rw [hcount]; exact fits_iff.mpr hg1
  have hg2' : fits ucs.length Gen.Layout.size_UnknownContainer = true := fits_iff.mpr hg2
  have hframes' : Reads (many frameP (decU32 (HD.drop 32))) FB frs := by rw [hcount]; exact hframes
  have := reads_bind (f := fun hd => Parser.bind (guard (fits (decU32 (hd.drop 32)) Gen.Layout.size_Frame) .alloc) fun _ =>
      Parser.bind (many frameP (decU32 (hd.drop 32))) fun frs => Parser.bind Parser.u32 fun nuc =>
        Parser.bind (guard (fits nuc Gen.Layout.size_UnknownContainer) .alloc) fun _ =>
          Parser.bind (many ucP nuc) fun ucs => Parser.pure (animOfParts hd frs ucs))
    (reads_take' HD 36 hlen)
    (reads_bind (f := fun _ => Parser.bind (many frameP (decU32 (HD.drop 32))) fun frs => Parser.bind Parser.u32 fun nuc =>
        Parser.bind (guard (fits nuc Gen.Layout.size_UnknownContainer) .alloc) fun _ =>
          Parser.bind (many ucP nuc) fun ucs => Parser.pure (animOfParts HD frs ucs))
      (reads_guard .alloc hg1')
      (reads_bind (f := fun frs => Parser.bind Parser.u32 fun nuc =>
          Parser.bind (guard (fits nuc Gen.Layout.size_UnknownContainer) .alloc) fun _ =>
            Parser.bind (many ucP nuc) fun ucs => Parser.pure (animOfParts HD frs ucs))
        hframes'
        (reads_bind (f := fun nuc => Parser.bind (guard (fits nuc Gen.Layout.size_UnknownContainer) .alloc) fun _ =>
            Parser.bind (many ucP nuc) fun ucs' => Parser.pure (animOfParts HD frs ucs'))
          (reads_u32 _ hnu)
          (reads_bind (f := fun _ => Parser.bind (many ucP ucs.length) fun ucs' => Parser.pure (animOfParts HD frs ucs'))
            (reads_guard .alloc hg2')
            (reads_bind (f := fun ucs' => Parser.pure (animOfParts HD frs ucs')) hucs (reads_pure _))))))
  have e : HD ++ ([] ++ (FB ++ (encU32 ucs.length ++ ([] ++ (UB ++ []))))) = HD ++ (FB ++ (encU32 ucs.length ++ UB)) := by simp
  rw [e] at this
  unfold animP
  exact this

theorem reads_animP (an : Animation) (h : an.Rep) (hc : ∀ f ∈ an.frames, f.layerMeta.count = f.layers.length) :
    Reads animP (encAnim an) an := by
  have hrep := h
  obtain ⟨_, _, _, _, _, _, _, _, hnf, hfa, hfr, hnu, hua, hur⟩ := h
  have hframes : Reads (many frameP an.frames.length) (an.frames.flatMap encFrame) an.frames :=
    reads_many_of (P := fun f => f.Rep ∧ f.layerMeta.count = f.layers.length)
      (fun f hf => reads_frameP f hf.1 hf.2) an.frames (fun f hf => ⟨hfr f hf, hc f hf⟩)
  have hucs : Reads (many ucP an.unknownContainer.length) (an.unknownContainer.flatMap encUC) an.unknownContainer :=
    reads_many_of (P := UnknownContainer.Rep) reads_ucP an.unknownContainer hur
  have := reads_animP_aux (encAnimHead an ++ encU32 an.frames.length) _ _ an.frames an.unknownContainer (animHead_length an _)
    (animHead_count an _ hnf) hframes hucs hnu hfa hua
  rw [animOfParts_enc an _ hrep] at this
  have e : encAnim an = (encAnimHead an ++ encU32 an.frames.length) ++ (an.frames.flatMap encFrame ++
      (encU32 an.unknownContainer.length ++ an.unknownContainer.flatMap encUC)) := by simp [encAnim]
  rw [e]; exact this

end Op2.Prt

namespace Op2.Prt
open Op2 Op2.Parser

theorem bind_reads {α β : Type} {p : Parser α} {f : α → Parser β} {s : Bytes} {a : α} (h : Reads p s a) (r : Bytes) :
    Parser.bind p f (s ++ r) = f a r := by
  unfold Parser.bind; rw [h r]

theorem bind_guard_true {β : Type} {c : Bool} {e : Err} {f : Unit → Parser β} (h : c = true) (r : Bytes) :
    Parser.bind (guard c e) f r = f () r := by
  subst h; rfl

attribute [local irreducible] fits tagOk imagesOk totalsOk in
theorem reads_readFull_aux (SH PB IB TOT AB : Bytes) (hps : List (Bytes × Palette)) (ims : List ImageMeta) (ans : List Animation)
    (hshl : SH.length = 8) (htag : tagOk SH = true) (hnp : decU32 (SH.drop 4) = hps.length)
    (hfit0 : fits hps.length Gen.Layout.size_Palette8Bit = true) (hpal : Reads (many paletteP hps.length) PB hps)
    (hni : ims.length < 4294967296) (hfit1 : fits ims.length Gen.Layout.size_ImageMeta = true)
    (himg : Reads (many imageP ims.length) IB ims) (hval : imagesOk hps.length ims = true)
    (hna : ans.length < 4294967296) (hfit2 : fits ans.length Gen.Layout.size_Animation = true) (htl : TOT.length = 12)
    (hanim : Reads (many animP ans.length) AB ans)
    (htot : totalsOk ans TOT = true) :
    Reads readFull (SH ++ (PB ++ (encU32 ims.length ++ (IB ++ (encU32 ans.length ++ (TOT ++ AB))))))
      (hps.map (·.1), ⟨hps.map (·.2), ims, ans, decU32 (TOT.drop 8)⟩) := by
  intro rest
  have e : (SH ++ (PB ++ (encU32 ims.length ++ (IB ++ (encU32 ans.length ++ (TOT ++ AB)))))) ++ rest =
      SH ++ (PB ++ (encU32 ims.length ++ (IB ++ (encU32 ans.length ++ (TOT ++ (AB ++ rest)))))) := by simp
  rw [e]
  unfold readFull
  rw [bind_reads (reads_take' SH 8 hshl), bind_guard_true htag, hnp, bind_guard_true hfit0, bind_reads hpal,
    bind_reads (reads_u32 _ hni), bind_guard_true hfit1, bind_reads himg, bind_guard_true hval,
    bind_reads (reads_u32 _ hna), bind_guard_true hfit2, bind_reads (reads_take' TOT 12 htl), bind_reads hanim,
    bind_guard_true htot]
  rfl

end Op2.Prt

namespace Op2.Prt
open Op2 Op2.Parser

theorem totals_dec (x y z : Nat) (hx : x < W32) (hy : y < W32) (hz : z < W32) :
    decU32 (encU32 x ++ (encU32 y ++ encU32 z)) = x ∧ decU32 ((encU32 x ++ (encU32 y ++ encU32 z)).drop 4) = y ∧
    decU32 ((encU32 x ++ (encU32 y ++ encU32 z)).drop 8) = z := by
  unfold W32 at hx hy hz
  simp only [encU32, decU32, List.cons_append, List.nil_append, List.drop_succ_cons, List.drop_zero, UInt8.toNat_ofNat']
  refine ⟨?_, ?_, ?_⟩ <;> omega

theorem cpal_dec (n : Nat) (hn : n < W32) : tagOk (tagCPAL ++ encU32 n) = true ∧ decU32 ((tagCPAL ++ encU32 n).drop 4) = n := by
  unfold W32 at hn
  refine ⟨by simp [tagOk, tagCPAL, encU32], ?_⟩
  simp only [tagCPAL, encU32, decU32, List.cons_append, List.nil_append, List.drop_succ_cons, List.drop_zero, UInt8.toNat_ofNat']
  omega

/-- the reader run on the writer's output (followed by anything) returns the structure and consumes exactly the output -/
theorem reads_readFull (a : ArtFile) (hr : a.Rep) (hrules : rules a) :
    Reads readFull (encFile a) (a.palettes.map (fun _ => canonicalPaletteHeader), a) := by
  obtain ⟨hp1, hp2, hp3, hi1, hi2, hi3, ha1, ha2, ha3, htf, htl, hunk⟩ := hr
  let hps : List (Bytes × Palette) := a.palettes.map (fun p => (canonicalPaletteHeader, p))
  have hlen : hps.length = a.palettes.length := by simp [hps]
  have hpal : Reads (many paletteP hps.length) (hps.flatMap (fun hp => hp.1 ++ encPalette hp.2)) hps := by
    apply reads_many_of (P := fun hp => hp.1 = canonicalPaletteHeader ∧ hp.2.length = 256)
    · intro hp h; obtain ⟨h1, h2⟩ := h
      have := reads_paletteP hp.2 h2
      rw [← h1] at this; exact this
    · intro hp h
      simp only [hps, List.mem_map] at h
      obtain ⟨p, hp', rfl⟩ := h
      exact ⟨rfl, hp3 p hp'⟩
  have himg : Reads (many imageP a.imageMetas.length) (a.imageMetas.flatMap encImage) a.imageMetas :=
    reads_many_of (P := ImageMeta.Rep) reads_imageP a.imageMetas hi3
  have hanim : Reads (many animP a.animations.length) (a.animations.flatMap encAnim) a.animations :=
    reads_many_of (P := fun an => an.Rep ∧ ∀ f ∈ an.frames, f.layerMeta.count = f.layers.length)
      (fun an h => reads_animP an h.1 h.2) a.animations (fun an h => ⟨ha3 an h, hrules.2 an h⟩)
  have hval : imagesOk hps.length a.imageMetas = true := by
    rw [hlen]; unfold imagesOk; rw [List.all_eq_true]
    intro im him
    have := hrules.1 im him
    have hw := (hi3 im him).2.2.2.1
    unfold imageOk
    simp only [Bool.and_eq_true, beq_iff_eq, decide_eq_true_eq]
    refine ⟨?_, this.1⟩
    rw [this.2]; unfold roundUp4 u64 W64; unfold W32 at hw; omega
  obtain ⟨ht1, ht2, ht3⟩ := totals_dec _ _ _ htf htl hunk
  have htot : totalsOk a.animations (encU32 (totalFrames a.animations) ++ (encU32 (totalLayers a.animations) ++ encU32 a.unknownAnimationCount)) = true := by
    unfold totalsOk; rw [ht1, ht2]; simp
  have hcp := cpal_dec a.palettes.length hp1
  have := reads_readFull_aux (tagCPAL ++ encU32 a.palettes.length) _ _
    (encU32 (totalFrames a.animations) ++ (encU32 (totalLayers a.animations) ++ encU32 a.unknownAnimationCount)) _
    hps a.imageMetas a.animations rfl hcp.1 (by rw [hlen]; exact hcp.2) (by rw [hlen]; exact fits_iff.mpr hp2) hpal hi1
    (fits_iff.mpr hi2) himg hval ha1 (fits_iff.mpr ha2) rfl hanim htot
  rw [ht3] at this
  have e1 : hps.map (·.1) = a.palettes.map (fun _ => canonicalPaletteHeader) := by simp [hps]
  have e2 : hps.map (·.2) = a.palettes := by
    simp only [hps, List.map_map]
    have : ((fun x : Bytes × Palette => x.2) ∘ fun p => (canonicalPaletteHeader, p)) = id := rfl
    rw [this, List.map_id]
  have e3 : hps.flatMap (fun hp => hp.1 ++ encPalette hp.2) = a.palettes.flatMap (fun p => canonicalPaletteHeader ++ encPalette p) := by
    simp [hps, List.flatMap_map]
  rw [e1, e2, e3] at this
  have e : encFile a = tagCPAL ++ encU32 a.palettes.length ++ (a.palettes.flatMap (fun p => canonicalPaletteHeader ++ encPalette p) ++
      (encU32 a.imageMetas.length ++ (a.imageMetas.flatMap encImage ++ (encU32 a.animations.length ++
        ((encU32 (totalFrames a.animations) ++ (encU32 (totalLayers a.animations) ++ encU32 a.unknownAnimationCount)) ++
          a.animations.flatMap encAnim))))) := by simp [encFile]
  rw [e]; exact this

/-- write → read is the identity on every well-formed structure -/
theorem read_write (a : ArtFile) (hr : a.Rep) (hrules : rules a) : read (encFile a) = .ok a ∧ consumed (encFile a) = (encFile a).length := by
  have := reads_readFull a hr hrules []
  rw [List.append_nil] at this
  constructor
  · unfold read; rw [this]
  · unfold consumed; rw [this]; simp

end Op2.Prt
