import Op2Proofs.Prt.Post
/-! What holds of everything the PRT reader returns: representable, cross-field rules. -/
namespace Op2.Prt
open Op2 Op2.Parser Op2.Parser.PrtInv

theorem post_imageP : Post imageP ImageMeta.Rep := by
  refine post_map (post_true _) ?_
  intro b _
  exact ⟨decU32_lt _, decU32_lt _, decU32_lt _, decU32_lt _, decU16_lt _, decU16_lt _⟩

theorem post_layerP : Post layerP Layer.Rep := by
  refine post_map (post_true _) ?_
  intro b _
  exact ⟨decU16_lt _, (byteAt b 2).toNat_lt, (byteAt b 3).toNat_lt, decU16_lt _, decU16_lt _⟩

theorem post_ucP : Post ucP UnknownContainer.Rep := by
  refine post_map (post_true _) ?_
  intro b _
  exact ⟨decU32_lt _, decU32_lt _, decU32_lt _, decU32_lt _⟩

theorem post_paletteP : Post paletteP (fun hp => hp.1.length = 28 ∧ paletteHeaderOk hp.1 = true ∧ hp.2.length = 256) := by
  refine post_bind (post_take 28) fun h hl => post_bind (post_guard _ _) fun _ hok =>
    post_bind (post_many (post_true colorP) 256) fun cs hcs => post_pure ⟨hl, hok, hcs.1⟩

theorem post_optP (flag : Bool) :
    Post (optP flag) (fun o => o.1 < 256 ∧ o.2 < 256 ∧ (flag = false → o.1 = 0 ∧ o.2 = 0)) := by
  unfold optP; split
  · rename_i hf
    exact post_bind post_u8 fun x hx => post_bind post_u8 fun y hy => post_pure ⟨hx, hy, by simp [hf]⟩
  · exact post_pure ⟨by omega, by omega, fun _ => ⟨rfl, rfl⟩⟩

theorem metaOfByte_rep (m : Nat) : (metaOfByte m).Rep := by
  unfold metaOfByte LayerMeta.Rep; simp; omega

theorem post_frameP : Post frameP (fun f => f.Rep ∧ f.layerMeta.count = f.layers.length) := by
  refine post_bind post_u8 fun m _ => post_bind post_u8 fun ub _ =>
    post_bind (post_optP _) fun o12 h12 => post_bind (post_optP _) fun o34 h34 =>
      post_bind (post_many post_layerP _) fun ls hls => post_pure ?_
  exact ⟨⟨metaOfByte_rep m, metaOfByte_rep ub, h12.1, h12.2.1, h34.1, h34.2.1, h12.2.2, h34.2.2, hls.2⟩, hls.1.symm⟩

theorem post_animP : Post animP (fun an => an.Rep ∧ ∀ f ∈ an.frames, f.layerMeta.count = f.layers.length) := by
  refine post_bind (post_true _) fun hd _ => post_bind (post_guard _ _) fun _ hg1 =>
    post_bind (post_many post_frameP _) fun frs hfrs => post_bind post_u32 fun nuc hnuc =>
      post_bind (post_guard _ _) fun _ hg2 => post_bind (post_many post_ucP _) fun ucs hucs => post_pure ?_
  have hg1 := fits_iff.mp hg1
  have hg2 := fits_iff.mp hg2
  refine ⟨⟨decU32_lt _, decU32_lt _, decU32_lt _, decU32_lt _, decU32_lt _, decU32_lt _, decU32_lt _, decU32_lt _,
    ?_, ?_, fun f hf => (hfrs.2 f hf).1, ?_, ?_, hucs.2⟩, fun f hf => (hfrs.2 f hf).2⟩
  · show frs.length < W32; rw [hfrs.1]; exact decU32_lt _
  · show frs.length * _ ≤ _; rw [hfrs.1]; exact hg1
  · show ucs.length < W32; rw [hucs.1]; exact hnuc
  · show ucs.length * _ ≤ _; rw [hucs.1]; exact hg2

theorem imageOk_rules {np : Nat} {im : ImageMeta} (hr : im.Rep) (h : imageOk np im = true) :
    im.paletteIndex < np ∧ im.scanLineByteWidth = roundUp4 im.width := by
  unfold imageOk at h
  simp only [Bool.and_eq_true, beq_iff_eq, decide_eq_true_eq] at h
  refine ⟨h.2, ?_⟩
  have hw := hr.2.2.2.1
  rw [h.1]; unfold roundUp4 u64 W64; unfold W32 at hw; omega

/-- everything `readFull` returns -/
theorem post_readFull : Post readFull (fun r =>
    r.2.Rep ∧ rules r.2 ∧ r.1.length = r.2.palettes.length ∧ ∀ h ∈ r.1, h.length = 28 ∧ paletteHeaderOk h = true) := by
  refine post_bind (post_true _) fun sh _ => post_bind (post_true _) fun _ _ => post_bind (post_guard _ _) fun _ hg0 =>
    post_bind (post_many post_paletteP _) fun hps hhps => post_bind post_u32 fun ni hni =>
      post_bind (post_guard _ _) fun _ hg1 => post_bind (post_many post_imageP _) fun ims hims =>
        post_bind (post_guard _ _) fun _ hval => post_bind post_u32 fun na hna => post_bind (post_guard _ _) fun _ hg2 =>
          post_bind (post_true _) fun tot _ => post_bind (post_many post_animP _) fun ans hans =>
            post_bind (post_guard _ _) fun _ htot => post_pure ?_
  have hg0 := fits_iff.mp hg0
  have hg1 := fits_iff.mp hg1
  have hg2 := fits_iff.mp hg2
  simp only [totalsOk, Bool.and_eq_true, beq_iff_eq] at htot
  have hval' : ∀ im ∈ ims, imageOk hps.length im = true := List.all_eq_true.mp (by simpa [imagesOk] using hval)
  refine ⟨⟨?_, ?_, ?_, ?_, ?_, hims.2, ?_, ?_, fun an h => (hans.2 an h).1, ?_, ?_, decU32_lt _⟩, ⟨?_, ?_⟩, by simp, ?_⟩
  · show (hps.map (·.2)).length < W32; simp [hhps.1]; exact decU32_lt _
  · show (hps.map (·.2)).length * _ ≤ _; simp [hhps.1]; exact hg0
  · intro p hp
    simp only [List.mem_map] at hp
    obtain ⟨x, hx, rfl⟩ := hp
    exact (hhps.2 x hx).2.2
  · show ims.length < W32; rw [hims.1]; exact hni
  · show ims.length * _ ≤ _; rw [hims.1]; exact hg1
  · show ans.length < W32; rw [hans.1]; exact hna
  · show ans.length * _ ≤ _; rw [hans.1]; exact hg2
  · show totalFrames ans < W32; rw [htot.1]; exact decU32_lt _
  · show totalLayers ans < W32; rw [htot.2]; exact decU32_lt _
  · intro im him
    have := imageOk_rules (hims.2 im him) (hval' im him)
    simpa using this
  · intro an han f hf; exact (hans.2 an han).2 f hf
  · intro h hh
    simp only [List.mem_map] at hh
    obtain ⟨x, hx, rfl⟩ := hh
    exact ⟨(hhps.2 x hx).1, (hhps.2 x hx).2.1⟩

theorem read_eq_ok {b : Bytes} {a : ArtFile} (h : read b = .ok a) : ∃ hs rest, readFull b = .ok ((hs, a), rest) := by
  unfold read at h
  split at h
  · rename_i hs a' rest hr; simp at h; subst h; exact ⟨hs, rest, hr⟩
  · simp at h

end Op2.Prt
