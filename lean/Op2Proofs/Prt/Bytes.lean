import Op2Proofs.Prt.Inv
import Op2Proofs.Prt.ReadFacts
/-! C10_bytes: with canonical palette headers the writer reproduces the consumed input bytes; where the headers sit. -/
namespace Op2.Prt
open Op2 Op2.Parser Op2.Parser.PrtInv

/-- the 28 bytes of the `i`-th palette header of a PRT file (format: 8-byte `CPAL` section header, then blocks of
    28 + 1024 bytes) -/
def paletteHeaderAt (b : Bytes) (i : Nat) : Bytes := (b.drop (8 + 1052 * i)).take 28

/-- the input's palette section headers are the canonical ones (those `PaletteHeader::CreatePaletteHeader` makes) -/
def canonicalPaletteHeaders (b : Bytes) : Prop :=
  ∀ i, i < decU32 (b.drop 4) → paletteHeaderAt b i = canonicalPaletteHeader

theorem drop_len_add (l1 l2 : Bytes) (k : Nat) : (l1 ++ l2).drop (l1.length + k) = l2.drop k := by
  rw [List.drop_append, List.drop_of_length_le (by omega), Nat.add_sub_cancel_left, List.nil_append]

theorem encPalette_length (p : Palette) : (encPalette p).length = 4 * p.length := by
  unfold encPalette
  induction p with
  | nil => rfl
  | cons c cs ih => simp [List.flatMap_cons, colorToFile, ih]; omega

theorem zip_canonical : ∀ (hs : List Bytes) (ps : List Palette), hs.length = ps.length → (∀ h ∈ hs, h = canonicalPaletteHeader) →
    (hs.zip ps).flatMap (fun hp => hp.1 ++ encPalette hp.2) = ps.flatMap (fun p => canonicalPaletteHeader ++ encPalette p)
  | [], [], _, _ => rfl
  | [], _ :: _, h, _ => by simp at h
  | _ :: _, [], h, _ => by simp at h
  | h :: hs, p :: ps, hl, hc => by
    have := zip_canonical hs ps (by simpa using hl) (fun x hx => hc x (by simp [hx]))
    simp [List.flatMap_cons, this, hc h (by simp)]

/-- in a sequence of (28-byte header, 256-colour palette) blocks the `i`-th header starts at `1052·i` -/
theorem block_header_at : ∀ (L : List (Bytes × Palette)) (tail : Bytes) (i : Nat) (hi : i < L.length),
    (∀ x ∈ L, x.1.length = 28 ∧ x.2.length = 256) →
    ((L.flatMap (fun hp => hp.1 ++ encPalette hp.2) ++ tail).drop (1052 * i)).take 28 = (L[i]).1
  | [], _, i, hi, _ => by simp at hi
  | x :: L, tail, 0, _, hx => by
    have h1 := (hx x (by simp)).1
    simp only [List.flatMap_cons, Nat.mul_zero, List.drop_zero, List.append_assoc, List.getElem_cons_zero]
    rw [List.take_append_of_le_length (by omega)]
    exact List.take_of_length_le (by omega)
  | x :: L, tail, i + 1, hi, hx => by
    have h1 := hx x (by simp)
    have hl : (x.1 ++ encPalette x.2).length = 1052 := by simp [encPalette_length, h1.1, h1.2]
    have := block_header_at L tail i (by simpa using hi) (fun y hy => hx y (by simp [hy]))
    simp only [List.flatMap_cons, List.getElem_cons_succ]
    rw [show 1052 * (i + 1) = (x.1 ++ encPalette x.2).length + 1052 * i by omega, List.append_assoc, drop_len_add]
    exact this

theorem readFull_headers {b : Bytes} {hs : List Bytes} {a : ArtFile} {rest : Bytes} (h : readFull b = .ok ((hs, a), rest)) :
    decU32 (b.drop 4) = hs.length ∧ ∀ i (hi : i < hs.length), paletteHeaderAt b i = hs[i] := by
  have hinv := inv_readFull _ _ _ h
  have hp := post_readFull _ _ _ h
  simp only at hinv hp
  obtain ⟨hrep, _, hlen, hhs⟩ := hp
  have hnp : a.palettes.length < W32 := hrep.1
  -- shape of b: 8 header bytes, the blocks, a tail
  have hb : b = (tagCPAL ++ encU32 a.palettes.length) ++ ((hs.zip a.palettes).flatMap (fun hp => hp.1 ++ encPalette hp.2) ++
      (encU32 a.imageMetas.length ++ a.imageMetas.flatMap encImage ++ encU32 a.animations.length ++
        encU32 (totalFrames a.animations) ++ encU32 (totalLayers a.animations) ++ encU32 a.unknownAnimationCount ++
        a.animations.flatMap encAnim ++ rest)) := by
    rw [hinv]; simp [encFileH]
  have h8 : (tagCPAL ++ encU32 a.palettes.length).length = 8 := rfl
  constructor
  · rw [hb, hlen]
    unfold W32 at hnp
    simp only [tagCPAL, encU32, decU32, List.cons_append, List.nil_append, List.drop_succ_cons, List.drop_zero, UInt8.toNat_ofNat']
    omega
  · intro i hi
    have hzl : (hs.zip a.palettes).length = hs.length := by simp [hlen]
    have hblocks : ∀ x ∈ hs.zip a.palettes, x.1.length = 28 ∧ x.2.length = 256 := by
      intro x hx
      have := List.of_mem_zip hx
      exact ⟨(hhs x.1 this.1).1, hrep.2.2.1 x.2 this.2⟩
    unfold paletteHeaderAt
    rw [hb, show 8 + 1052 * i = (tagCPAL ++ encU32 a.palettes.length).length + 1052 * i by rw [h8], drop_len_add,
      block_header_at (hs.zip a.palettes) _ i (by omega) hblocks]
    simp [List.getElem_zip]

end Op2.Prt

namespace Op2.Prt
open Op2 Op2.Parser Op2.Parser.PrtInv

theorem encFileH_of_canonical (hs : List Bytes) (a : ArtFile) (hl : hs.length = a.palettes.length)
    (hc : ∀ h ∈ hs, h = canonicalPaletteHeader) : encFileH hs a = encFile a := by
  unfold encFileH encFile
  rw [zip_canonical hs a.palettes hl hc]

theorem encFileH_palettes (hs : List Bytes) (a : ArtFile) : ∃ tail, encFileH hs a = tagCPAL ++ encU32 a.palettes.length ++
    (hs.zip a.palettes).flatMap (fun hp => hp.1 ++ hp.2.flatMap (fun c => [c.blue, c.green, c.red, c.alpha])) ++ tail :=
  ⟨encU32 a.imageMetas.length ++ a.imageMetas.flatMap encImage ++
      encU32 a.animations.length ++ encU32 (totalFrames a.animations) ++ encU32 (totalLayers a.animations) ++
      encU32 a.unknownAnimationCount ++ a.animations.flatMap encAnim, by
    unfold encFileH; simp only [List.append_assoc]; rfl⟩

theorem encFile_palettes (a : ArtFile) : ∃ tail, encFile a = tagCPAL ++ encU32 a.palettes.length ++
    a.palettes.flatMap (fun p => canonicalPaletteHeader ++ p.flatMap (fun c => [c.blue, c.green, c.red, c.alpha])) ++ tail :=
  ⟨encU32 a.imageMetas.length ++ a.imageMetas.flatMap encImage ++
      encU32 a.animations.length ++ encU32 (totalFrames a.animations) ++ encU32 (totalLayers a.animations) ++
      encU32 a.unknownAnimationCount ++ a.animations.flatMap encAnim, by
    unfold encFile; simp only [List.append_assoc]; rfl⟩

end Op2.Prt
