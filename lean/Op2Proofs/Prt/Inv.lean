import Op2Proofs.Prt.Post
import Op2Proofs.Prt.WriteFacts
/-! parse → print: whatever the reader accepts is, byte for byte, the encoding of what it returns (plus the rest). -/
namespace Op2.Prt
open Op2 Op2.Parser Op2.Parser.PrtInv

macro "u8eq" : tactic => `(tactic| (apply UInt8.toNat_inj.mp; simp only [UInt8.toNat_ofNat']; omega))

theorem encU8_toNat (a : UInt8) : encU8 a.toNat = [a] := by
  have := a.toNat_lt
  simp only [encU8, List.cons.injEq, and_true]; u8eq

theorem encU16_decU16_cons (a b : UInt8) (rest : Bytes) : encU16 (decU16 (a :: b :: rest)) = [a, b] := by
  have := a.toNat_lt; have := b.toNat_lt
  simp only [encU16, decU16, List.cons.injEq, and_true]
  refine ⟨?_, ?_⟩ <;> u8eq

theorem encU32_decU32_cons (a b c d : UInt8) (rest : Bytes) : encU32 (decU32 (a :: b :: c :: d :: rest)) = [a, b, c, d] := by
  have := a.toNat_lt; have := b.toNat_lt; have := c.toNat_lt; have := d.toNat_lt
  simp only [encU32, decU32, List.cons.injEq, and_true]
  refine ⟨?_, ?_, ?_, ?_⟩ <;> u8eq

/-- `p` accepts only inputs that are `enc` of its result followed by what it leaves -/
def Inv {α : Type} (p : Parser α) (enc : α → Bytes) : Prop := ∀ xs a rest, p xs = .ok (a, rest) → xs = enc a ++ rest

theorem inv_map_take {α : Type} (k : Nat) (dec : Bytes → α) (enc : α → Bytes) (h : ∀ bs : Bytes, bs.length = k → enc (dec bs) = bs) :
    Inv (map (take k) dec) enc := by
  intro xs a rest hp
  obtain ⟨bs, hb, rfl⟩ := map_ok hp
  obtain ⟨hl, rfl⟩ := take_ok hb
  rw [h bs hl]

theorem inv_many {α : Type} {p : Parser α} {enc : α → Bytes} (hp : Inv p enc) : ∀ n, Inv (many p n) (fun as => as.flatMap enc)
  | 0 => by intro xs a rest h; obtain ⟨rfl, rfl⟩ := pure_ok h; simp
  | n + 1 => by
    intro xs as rest h
    unfold many at h
    obtain ⟨a, r1, h1, h2⟩ := bind_ok h
    obtain ⟨as', r2, h3, h4⟩ := bind_ok h2
    obtain ⟨rfl, rfl⟩ := pure_ok h4
    rw [hp _ _ _ h1, inv_many hp n _ _ _ h3]
    simp

theorem inv_u8 : Inv Parser.u8 encU8 := by
  apply inv_map_take
  intro bs h
  match bs, h with
  | [a], _ => exact encU8_toNat a

theorem inv_u32 : Inv Parser.u32 encU32 := by
  apply inv_map_take
  intro bs h
  match bs, h with
  | [a, b, c, d], _ => exact encU32_decU32_cons a b c d []

theorem inv_colorP : Inv colorP colorToFile := by
  apply inv_map_take
  intro bs h
  match bs, h with
  | [a, b, c, d], _ => rfl

theorem inv_imageP : Inv imageP encImage := by
  apply inv_map_take
  intro bs h
  match bs, h with
  | [b0, b1, b2, b3, b4, b5, b6, b7, b8, b9, b10, b11, b12, b13, b14, b15, b16, b17, b18, b19], _ =>
    simp only [imageOfBytes, encImage, List.drop_succ_cons, List.drop_zero, encU32_decU32_cons, encU16_decU16_cons,
      List.cons_append, List.nil_append]

theorem inv_layerP : Inv layerP encLayer := by
  apply inv_map_take
  intro bs h
  match bs, h with
  | [b0, b1, b2, b3, b4, b5, b6, b7], _ =>
    simp only [layerOfBytes, encLayer, byteAt, List.drop_succ_cons, List.drop_zero, encU16_decU16_cons, encU8_toNat,
      List.cons_append, List.nil_append, List.getD_cons_succ, List.getD_cons_zero]

theorem inv_ucP : Inv ucP encUC := by
  apply inv_map_take
  intro bs h
  match bs, h with
  | [b0, b1, b2, b3, b4, b5, b6, b7, b8, b9, b10, b11, b12, b13, b14, b15], _ =>
    simp only [ucOfBytes, encUC, List.drop_succ_cons, List.drop_zero, encU32_decU32_cons, List.cons_append, List.nil_append]

theorem inv_optP (flag : Bool) : Inv (optP flag) (fun o => encOpt flag o.1 o.2) := by
  intro xs o rest h
  unfold optP at h
  cases flag
  · simp only [Bool.false_eq_true, if_false] at h
    obtain ⟨rfl, rfl⟩ := pure_ok h
    simp [encOpt]
  · simp only [if_true] at h
    obtain ⟨x, r1, h1, h2⟩ := bind_ok h
    obtain ⟨y, r2, h3, h4⟩ := bind_ok h2
    obtain ⟨rfl, rfl⟩ := pure_ok h4
    rw [inv_u8 _ _ _ h1, inv_u8 _ _ _ h3]
    simp [encOpt]

theorem metaToByte_dec (m : Nat) (h : m < 256) : metaToByte (metaOfByte m) = m := by
  unfold metaToByte metaOfByte
  by_cases hm : m / 128 = 1
  · simp [hm]; omega
  · have : m / 128 = 0 := by omega
    simp [this]; omega

theorem inv_frameP : Inv frameP encFrame := by
  intro xs f rest h
  unfold frameP at h
  obtain ⟨m, r1, h1, h⟩ := bind_ok h
  obtain ⟨ub, r2, h2, h⟩ := bind_ok h
  obtain ⟨o12, r3, h3, h⟩ := bind_ok h
  obtain ⟨o34, r4, h4, h⟩ := bind_ok h
  obtain ⟨ls, r5, h5, h⟩ := bind_ok h
  obtain ⟨rfl, rfl⟩ := pure_ok h
  have hm := post_u8 _ _ _ h1
  have hub := post_u8 _ _ _ h2
  rw [inv_u8 _ _ _ h1, inv_u8 _ _ _ h2, inv_optP _ _ _ _ h3, inv_optP _ _ _ _ h4, inv_many inv_layerP _ _ _ _ h5]
  simp only [encFrame, metaToByte_dec m hm, metaToByte_dec ub hub, List.append_assoc]

end Op2.Prt

namespace Op2.Prt
open Op2 Op2.Parser Op2.Parser.PrtInv

theorem inv_paletteP : Inv paletteP (fun hp => hp.1 ++ encPalette hp.2) := by
  intro xs hp rest h
  unfold paletteP at h
  obtain ⟨hd, r1, h1, h⟩ := bind_ok h
  obtain ⟨_, r2, h2, h⟩ := bind_ok h
  obtain ⟨cs, r3, h3, h⟩ := bind_ok h
  obtain ⟨rfl, rfl⟩ := pure_ok h
  obtain ⟨_, rfl⟩ := guard_ok h2
  rw [(take_ok h1).2, inv_many inv_colorP _ _ _ _ h3]
  simp [encPalette]

theorem animHead_inv (hd : Bytes) (h : hd.length = 36) (frs : List Frame) (ucs : List UnknownContainer) :
    encAnimHead (animOfParts hd frs ucs) ++ encU32 (decU32 (hd.drop 32)) = hd := by
  match hd, h with
  | b0 :: b1 :: b2 :: b3 :: b4 :: b5 :: b6 :: b7 :: b8 :: b9 :: b10 :: b11 :: b12 :: b13 :: b14 :: b15 :: b16 :: b17 :: b18 :: b19 :: b20 :: b21 :: b22 :: b23 :: b24 :: b25 :: b26 :: b27 :: b28 :: b29 :: b30 :: b31 :: b32 :: b33 :: b34 :: b35 :: [], _ =>
    simp only [animOfParts, encAnimHead, List.drop_succ_cons, List.drop_zero, encU32_decU32_cons, List.cons_append, List.nil_append]

theorem inv_animP : Inv animP encAnim := by
  intro xs an rest h
  unfold animP at h
  obtain ⟨hd, r1, h1, h⟩ := bind_ok h
  obtain ⟨_, r2, h2, h⟩ := bind_ok h
  obtain ⟨frs, r3, h3, h⟩ := bind_ok h
  obtain ⟨nuc, r4, h4, h⟩ := bind_ok h
  obtain ⟨_, r5, h5, h⟩ := bind_ok h
  obtain ⟨ucs, r6, h6, h⟩ := bind_ok h
  obtain ⟨rfl, rfl⟩ := pure_ok h
  obtain ⟨_, rfl⟩ := guard_ok h2
  obtain ⟨_, rfl⟩ := guard_ok h5
  obtain ⟨hl, rfl⟩ := take_ok h1
  have hfl := (post_many (post_true frameP) _ _ _ _ h3).1
  have hul := (post_many (post_true ucP) _ _ _ _ h6).1
  rw [inv_many inv_frameP _ _ _ _ h3, inv_u32 _ _ _ h4, inv_many inv_ucP _ _ _ _ h6]
  have e : encAnim (animOfParts hd frs ucs) = (encAnimHead (animOfParts hd frs ucs) ++ encU32 (decU32 (hd.drop 32))) ++
      frs.flatMap encFrame ++ encU32 nuc ++ ucs.flatMap encUC := by
    simp [encAnim, animOfParts, hfl, hul]
  rw [e, animHead_inv hd hl]
  simp

/-- the file with the palette headers `hs` (one per palette) instead of the canonical ones -/
def encFileH (hs : List Bytes) (a : ArtFile) : Bytes :=
  tagCPAL ++ encU32 a.palettes.length ++ (hs.zip a.palettes).flatMap (fun hp => hp.1 ++ encPalette hp.2) ++
  encU32 a.imageMetas.length ++ a.imageMetas.flatMap encImage ++
  encU32 a.animations.length ++ encU32 (totalFrames a.animations) ++ encU32 (totalLayers a.animations) ++
  encU32 a.unknownAnimationCount ++ a.animations.flatMap encAnim

theorem zip_fst_snd {α β : Type} : ∀ (l : List (α × β)), (l.map (·.1)).zip (l.map (·.2)) = l
  | [] => rfl
  | x :: xs => by simp [zip_fst_snd xs]

theorem cpal_inv (sh : Bytes) (h : sh.length = 8) (ht : tagOk sh = true) : tagCPAL ++ encU32 (decU32 (sh.drop 4)) = sh := by
  match sh, h with
  | [b0, b1, b2, b3, b4, b5, b6, b7], _ =>
    simp only [tagOk, List.take_succ_cons, List.take_zero, beq_iff_eq] at ht
    simp only [List.drop_succ_cons, List.drop_zero, encU32_decU32_cons, ← ht, List.cons_append, List.nil_append]

theorem totals_inv (tot : Bytes) (h : tot.length = 12) :
    encU32 (decU32 tot) ++ encU32 (decU32 (tot.drop 4)) ++ encU32 (decU32 (tot.drop 8)) = tot := by
  match tot, h with
  | [b0, b1, b2, b3, b4, b5, b6, b7, b8, b9, b10, b11], _ =>
    simp only [List.drop_succ_cons, List.drop_zero, encU32_decU32_cons, List.cons_append, List.nil_append]

/-- every accepted input is the encoding of the returned structure (with the palette headers it had) followed by the
    untouched rest: every count and total field of the input therefore equals the actual contents -/
theorem inv_readFull : Inv readFull (fun r => encFileH r.1 r.2) := by
  intro xs r rest h
  unfold readFull at h
  obtain ⟨sh, r1, h1, h⟩ := bind_ok h
  obtain ⟨_, r2, h2, h⟩ := bind_ok h
  obtain ⟨_, r3, h3, h⟩ := bind_ok h
  obtain ⟨hps, r4, h4, h⟩ := bind_ok h
  obtain ⟨ni, r5, h5, h⟩ := bind_ok h
  obtain ⟨_, r6, h6, h⟩ := bind_ok h
  obtain ⟨ims, r7, h7, h⟩ := bind_ok h
  obtain ⟨_, r8, h8, h⟩ := bind_ok h
  obtain ⟨na, r9, h9, h⟩ := bind_ok h
  obtain ⟨_, r10, h10, h⟩ := bind_ok h
  obtain ⟨tot, r11, h11, h⟩ := bind_ok h
  obtain ⟨ans, r12, h12, h⟩ := bind_ok h
  obtain ⟨_, r13, h13, h⟩ := bind_ok h
  obtain ⟨rfl, rfl⟩ := pure_ok h
  obtain ⟨htag, rfl⟩ := guard_ok h2
  obtain ⟨_, rfl⟩ := guard_ok h3
  obtain ⟨_, rfl⟩ := guard_ok h6
  obtain ⟨_, rfl⟩ := guard_ok h8
  obtain ⟨_, rfl⟩ := guard_ok h10
  obtain ⟨htot, rfl⟩ := guard_ok h13
  obtain ⟨hshl, rfl⟩ := take_ok h1
  obtain ⟨htl, rfl⟩ := take_ok h11
  have hpl := (post_many (post_true paletteP) _ _ _ _ h4).1
  have hil := (post_many (post_true imageP) _ _ _ _ h7).1
  have hal := (post_many (post_true animP) _ _ _ _ h12).1
  simp only [totalsOk, Bool.and_eq_true, beq_iff_eq] at htot
  rw [inv_many inv_paletteP _ _ _ _ h4, inv_u32 _ _ _ h5, inv_many inv_imageP _ _ _ _ h7, inv_u32 _ _ _ h9,
    inv_many inv_animP _ _ _ _ h12]
  simp only [encFileH, zip_fst_snd, List.length_map, hpl, hil, hal, htot.1, htot.2]
  have e1 := cpal_inv sh hshl htag
  have e2 := totals_inv tot htl
  generalize decU32 (sh.drop 4) = np at e1 hpl ⊢
  rw [← e1]
  conv => lhs; rw [← e2]
  simp only [List.append_assoc]

end Op2.Prt
