import Op2Proofs.SysGood
/-!
# Backend equivalence for whole systems

`Rd.abs` is what an object is to its user: the bytes it exposes and the cursor relative to them.  Every request
(64-bit arguments) acts on a well-formed object exactly as the abstract reader acts on `abs` — whichever backend — and
the two slice-creating requests succeed under the same condition and create objects with the same `abs`.  Hence a system
rooted in a memory reader and one rooted in a file reader over the same data answer every interleaved history alike.
Copy construction is excluded: a copied `FileReader` reopens its file at position 0 and a copied file slice starts at the
beginning of its window, whereas a copied memory reader keeps its position (a documented difference between the backends,
modelled in `Rd.derive`).
-/
namespace Op2.Stream

def Rd.abs : Rd → RSpec
  | .mem s => s
  | .file s => s
  | .fsl s => sliceAbs id s
  | .fss s => sliceAbs (sliceAbs id) s

def Rd.NoFss : Rd → Prop
  | .fss _ => False
  | _ => True

theorem Rd.abs_content (r : Rd) : r.abs.data = r.content := by
  cases r <;> rfl

/-- one read / seek request, any backend: the answer and the new `abs` are the abstract reader's -/
theorem Rd.step_abs (r : Rd) (op : ROp) (hr : r.Good) (ha : op.argOk) :
    (r.step op).1 = (RSpec.step r.abs op).1 ∧ (r.step op).2.abs = (RSpec.step r.abs op).2 := by
  cases r with
  | mem s => simp only [Rd.step, Rd.abs, Rd.Good] at *; rw [mem_refines s hr op ha]; exact ⟨rfl, rfl⟩
  | file s => exact ⟨rfl, rfl⟩
  | fsl s =>
    obtain ⟨h1, _, h3⟩ := slice_refines fileWrappedOK s hr op ha
    exact ⟨h1, h3⟩
  | fss s =>
    obtain ⟨h1, _, h3⟩ := slice_refines (sliceWrappedOK fileWrappedOK) s hr op ha
    exact ⟨h1, h3⟩

theorem Rd.step_noFss (r : Rd) (op : ROp) (h : r.NoFss) : (r.step op).2.NoFss := by
  cases r <;> first | exact h.elim | trivial

end Op2.Stream

namespace Op2.Stream

/-- `Slice(start, len)`: the same success condition — in ℕ, on what the object exposes — and the same new object, on every
    backend; the parent is untouched -/
theorem Rd.slice_abs (r : Rd) (a b : Nat) (hr : r.Good) (hn : r.NoFss) (ha : a < W64) (hb : b < W64) :
    (a + b ≤ r.abs.data.length → ∃ n, r.derive (.slice a b) = some (.ok (n, r)) ∧ n.Good ∧ n.NoFss ∧
        n.abs = { data := (r.abs.data.drop a).take b, pos := 0 }) ∧
    (¬ a + b ≤ r.abs.data.length → r.derive (.slice a b) = some (.error .bounds)) := by
  cases r with
  | mem m =>
    obtain ⟨h1, h2⟩ := hr
    simp only [Rd.abs, Rd.derive]
    constructor
    · intro hin
      have e : u64 (a + b) = a + b := by unfold u64 W64 at *; omega
      have c : ¬ (a + b > m.data.length ∨ a + b < a) := by omega
      refine ⟨Rd.mem { data := (m.data.drop a).take b, pos := 0 }, by simp [MemR.slice2, e, c, Except.map], ?_, trivial, rfl⟩
      refine ⟨Nat.zero_le _, ?_⟩
      simp only [List.length_take, List.length_drop]; omega
    · intro hout
      have c : u64 (a + b) > m.data.length ∨ u64 (a + b) < a := by unfold u64 W64 at *; omega
      simp [MemR.slice2, c, Except.map]
  | file f =>
    simp only [Rd.abs, Rd.derive]
    constructor
    · intro hin
      obtain ⟨s, e, g, x⟩ := slice_create_ok fileWrappedOK _ (inv_rewind f hr) a b hin
      exact ⟨Rd.fsl s, by rw [e]; rfl, g, trivial, x⟩
    · intro hout
      rw [slice_create_err fileWrappedOK _ (inv_rewind f hr) a b ha hb hout]; rfl
  | fsl s =>
    have hlen : (sliceAbs id s).data.length = s.len := sliceAbs_len s hr.2.1
    obtain ⟨hg, g1, g2, g3⟩ := hr
    obtain ⟨_, hi2⟩ := fileWrappedOK.inv s.w hg
    simp only [id] at g1 g2 g3 hi2
    simp only [Rd.abs, Rd.derive, hlen]
    constructor
    · intro hfit
      have e1 : u64 (a + b) = a + b := by unfold u64 W64 at *; omega
      have c : ¬ (a + b > s.len ∨ b > W64 - 1 - a) := by unfold W64 at *; omega
      have e2 : u64 (s.start + a) = s.start + a := by unfold u64 W64 at *; omega
      obtain ⟨t, e, g, x⟩ := slice_create_ok fileWrappedOK s.w hg (s.start + a) b (by simp only [id]; omega)
      refine ⟨Rd.fsl t, ?_, g, trivial, ?_⟩
      · simp only [Slice.slice2, e1, c, if_false, e2, e]; rfl
      · simp only [Rd.abs]
        rw [x]
        simp only [sliceAbs, id]
        congr 1
        rw [List.drop_take, List.take_take, List.drop_drop]
        congr 1; omega
    · intro hout
      simp only [Slice.slice2]
      by_cases c1 : b > W64 - 1 - a
      · simp [c1, Except.map]
      · have e1 : u64 (a + b) = a + b := by unfold u64 W64 at *; omega
        have : a + b > s.len := by omega
        simp [e1, this, Except.map]
  | fss s => exact hn.elim

end Op2.Stream

namespace Op2.Stream

/-- `Slice(len)` at the cursor: same condition, same new object, and the parent advances by `len` exactly on success — on
    every backend -/
theorem Rd.here_abs (r : Rd) (a : Nat) (hr : r.Good) (hn : r.NoFss) (ha : a < W64) :
    (r.abs.pos + a ≤ r.abs.data.length → ∃ n r', r.derive (.here a) = some (.ok (n, r')) ∧ n.Good ∧ n.NoFss ∧ r'.Good ∧ r'.NoFss ∧
        n.abs = { data := (r.abs.data.drop r.abs.pos).take a, pos := 0 } ∧ r'.abs = { r.abs with pos := r.abs.pos + a }) ∧
    (¬ r.abs.pos + a ≤ r.abs.data.length → r.derive (.here a) = some (.error .bounds)) := by
  have hpos : r.abs.pos < W64 := by
    cases r with
    | mem m => exact Nat.lt_of_le_of_lt hr.1 hr.2
    | file f => exact Nat.lt_of_le_of_lt hr.1 hr.2
    | fsl s =>
      obtain ⟨hg, g1, g2, g3⟩ := hr
      obtain ⟨_, hi2⟩ := fileWrappedOK.inv s.w hg
      simp only [id] at g1 g2 g3 hi2
      simp only [Rd.abs, sliceAbs, id]; omega
    | fss s => exact hn.elim
  -- the two-argument form at the cursor, then the checked skip
  obtain ⟨sok, serr⟩ := Rd.slice_abs r r.abs.pos a hr hn hpos ha
  have hstep := Rd.step_abs r (.fwd a) hr ha
  have hgood := Rd.step_good r (.fwd a) hr ha
  constructor
  · intro hin
    obtain ⟨n, e, gn, nn, an⟩ := sok hin
    cases r with
    | mem m =>
      simp only [Rd.abs] at *
      simp only [Rd.derive, Option.some.injEq] at e ⊢
      cases hs : MemR.slice2 m m.pos a with
      | error x => rw [hs] at e; simp [Except.map] at e
      | ok sl =>
        rw [hs] at e; simp only [Except.map, Except.ok.injEq, Prod.mk.injEq] at e
        simp only [Rd.step, MemR.step] at hstep hgood
        cases hf : MemR.fwd m a with
        | error x => rw [hf] at hstep; simp [RSpec.step, hin] at hstep
        | ok m' =>
          rw [hf] at hstep hgood
          simp only [RSpec.step, hin, if_true, Rd.abs] at hstep
          refine ⟨n, Rd.mem m', ?_, gn, nn, hgood, trivial, an, hstep.2⟩
          simp only [MemR.slice1, hs, hf, Except.map, ← e.1]
    | file f =>
      simp only [Rd.abs] at *
      simp only [Rd.derive, Option.some.injEq] at e ⊢
      cases hs : Slice.create fileWrapped { f with pos := 0 } f.pos a with
      | error x => rw [hs] at e; simp [Except.map] at e
      | ok sl =>
        rw [hs] at e; simp only [Except.map, Except.ok.injEq, Prod.mk.injEq] at e
        have e3 : u64 (f.pos + a) = f.pos + a := by obtain ⟨h1, h2⟩ := hr; unfold u64 W64 at *; omega
        refine ⟨n, Rd.file { f with pos := f.pos + a }, ?_, gn, nn, ⟨hin, hr.2⟩, trivial, an, rfl⟩
        simp only [FileR.fwd, e3, Nat.not_lt.mpr (Nat.le_add_right _ _), if_false, ← e.1]
    | fsl s =>
      simp only [Rd.derive, Option.some.injEq] at e ⊢
      have hp : Slice.position fileWrapped s = (sliceAbs id s).pos := slice_position_eq fileWrappedOK s hr
      simp only [Rd.abs] at *
      cases hs : Slice.slice2 fileWrapped s (sliceAbs id s).pos a with
      | error x => rw [hs] at e; simp [Except.map] at e
      | ok sl =>
        rw [hs] at e; simp only [Except.map, Except.ok.injEq, Prod.mk.injEq] at e
        simp only [Rd.step, Slice.step] at hstep hgood
        cases hf : Slice.fwd fileWrapped s a with
        | error x => rw [hf] at hstep; simp [RSpec.step, hin] at hstep
        | ok s' =>
          rw [hf] at hstep hgood
          simp only [RSpec.step, hin, if_true, Rd.abs] at hstep
          refine ⟨n, Rd.fsl s', ?_, gn, nn, hgood, trivial, an, hstep.2⟩
          simp only [Slice.slice1, hp, hs, hf, Except.map, ← e.1]
    | fss s => exact hn.elim
  · intro hout
    have e := serr hout
    cases r with
    | mem m =>
      simp only [Rd.abs] at *
      simp only [Rd.derive, Option.some.injEq] at e ⊢
      cases hs : MemR.slice2 m m.pos a with
      | error x => rw [hs] at e; simp only [Except.map, Except.error.injEq] at e; simp only [MemR.slice1, hs, Except.map, e]
      | ok sl => rw [hs] at e; simp [Except.map] at e
    | file f =>
      simp only [Rd.abs] at *
      simp only [Rd.derive, Option.some.injEq] at e ⊢
      cases hs : Slice.create fileWrapped { f with pos := 0 } f.pos a with
      | error x => rw [hs] at e; simp only [Except.map, Except.error.injEq] at e; rw [e]
      | ok sl => rw [hs] at e; simp [Except.map] at e
    | fsl s =>
      simp only [Rd.derive, Option.some.injEq] at e ⊢
      have hp : Slice.position fileWrapped s = (sliceAbs id s).pos := slice_position_eq fileWrappedOK s hr
      simp only [Rd.abs] at *
      cases hs : Slice.slice2 fileWrapped s (sliceAbs id s).pos a with
      | error x => rw [hs] at e; simp only [Except.map, Except.error.injEq] at e; simp only [Slice.slice1, hp, hs, Except.map, e]
      | ok sl => rw [hs] at e; simp [Except.map] at e
    | fss s => exact hn.elim

end Op2.Stream

namespace Op2.Stream

/-! ## the specification: one abstract reader per object -/

/-- answers as the user sees them: a created object is seen through `abs` -/
inductive AOut where
  | out (o : Out)
  | made (a : RSpec)
  | failed
  | unsupported

def OOut.abs : OOut → AOut
  | .out o => .out o
  | .made n => .made n.abs
  | .failed => .failed
  | .unsupported => .unsupported

/-- requests other than copy construction (on which the backends differ by design) -/
def OOp.noCopy : OOp → Prop
  | .derive .copy => False
  | _ => True

/-- the specification of one request, in ℕ, on the exposed bytes and the relative cursor only -/
def specOStep (s : RSpec) : OOp → AOut × RSpec
  | .op x => ((.out (RSpec.step s x).1), (RSpec.step s x).2)
  | .derive (.slice a b) =>
      if a + b ≤ s.data.length then (.made { data := (s.data.drop a).take b, pos := 0 }, s) else (.failed, s)
  | .derive (.here a) =>
      if s.pos + a ≤ s.data.length then (.made { data := (s.data.drop s.pos).take a, pos := 0 }, { s with pos := s.pos + a })
      else (.failed, s)
  | .derive .copy => (.unsupported, s)

/-- **refinement, per object**: on every backend, every request except copy construction, with 64-bit arguments, answers and
    moves exactly as `specOStep` says of `abs`; well-formedness is kept and inherited by the created object -/
theorem Rd.ostep_refines (r : Rd) (o : OOp) (hr : r.Good) (hn : r.NoFss) (ho : o.argOk) (hc : o.noCopy) :
    ((r.ostep o).1.abs, (r.ostep o).2.abs) = specOStep r.abs o ∧
    (r.ostep o).2.Good ∧ (r.ostep o).2.NoFss ∧ (∀ n, (r.ostep o).1 = .made n → n.Good ∧ n.NoFss) := by
  cases o with
  | op x =>
    obtain ⟨h1, h2⟩ := Rd.step_abs r x hr ho
    refine ⟨?_, Rd.step_good r x hr ho, Rd.step_noFss r x hn, by intro n hx; simp [Rd.ostep] at hx⟩
    simp only [Rd.ostep, OOut.abs, specOStep, h1, h2]
  | derive d =>
    cases d with
    | slice a b =>
      obtain ⟨ha, hb⟩ := ho
      obtain ⟨sok, serr⟩ := Rd.slice_abs r a b hr hn ha hb
      by_cases hin : a + b ≤ r.abs.data.length
      · obtain ⟨n, e, gn, nn, an⟩ := sok hin
        refine ⟨?_, ?_, ?_, ?_⟩
        · simp only [Rd.ostep, e, OOut.abs, specOStep, hin, if_true, an]
        · simp only [Rd.ostep, e]; exact hr
        · simp only [Rd.ostep, e]; exact hn
        · intro m hm; simp only [Rd.ostep, e, OOut.made.injEq] at hm; subst hm; exact ⟨gn, nn⟩
      · have e := serr hin
        refine ⟨?_, ?_, ?_, ?_⟩
        · simp only [Rd.ostep, e, OOut.abs, specOStep, hin, if_false]
        · simp only [Rd.ostep, e]; exact hr
        · simp only [Rd.ostep, e]; exact hn
        · intro m hm; simp [Rd.ostep, e] at hm
    | here a =>
      obtain ⟨sok, serr⟩ := Rd.here_abs r a hr hn ho
      by_cases hin : r.abs.pos + a ≤ r.abs.data.length
      · obtain ⟨n, r', e, gn, nn, gr, nr, an, ar⟩ := sok hin
        refine ⟨?_, ?_, ?_, ?_⟩
        · simp only [Rd.ostep, e, OOut.abs, specOStep, hin, if_true, an, ar]
        · simp only [Rd.ostep, e]; exact gr
        · simp only [Rd.ostep, e]; exact nr
        · intro m hm; simp only [Rd.ostep, e, OOut.made.injEq] at hm; subst hm; exact ⟨gn, nn⟩
      · have e := serr hin
        refine ⟨?_, ?_, ?_, ?_⟩
        · simp only [Rd.ostep, e, OOut.abs, specOStep, hin, if_false]
        · simp only [Rd.ostep, e]; exact hr
        · simp only [Rd.ostep, e]; exact hn
        · intro m hm; simp [Rd.ostep, e] at hm
    | copy => exact hc.elim

end Op2.Stream

namespace Op2.Stream

/-! ## the specification of a whole system, and the refinement -/

abbrev SSys := List RSpec

def SSys.step (objs : SSys) (i : Nat) (o : OOp) : Option AOut × SSys :=
  match objs[i]? with
  | none => (none, objs)
  | some s =>
    match (specOStep s o).1 with
    | .made n => (some (.made n), objs.set i (specOStep s o).2 ++ [n])
    | x => (some x, objs.set i (specOStep s o).2)

def SSys.run : SSys → List (Nat × OOp) → List (Nat × Option AOut) × SSys
  | objs, [] => ([], objs)
  | objs, (i, o) :: h =>
    let (x, objs') := SSys.step objs i o
    let (xs, objs'') := SSys.run objs' h
    ((i, x) :: xs, objs'')

def Sys.Ok (objs : Sys) : Prop := ∀ r ∈ objs, r.Good ∧ r.NoFss

theorem Sys.step_refines (objs : Sys) (i : Nat) (o : OOp) (h : Sys.Ok objs) (ho : o.argOk) (hc : o.noCopy) :
    ((Sys.step objs i o).1.map OOut.abs, (Sys.step objs i o).2.map Rd.abs) = SSys.step (objs.map Rd.abs) i o ∧
    Sys.Ok (Sys.step objs i o).2 := by
  unfold Sys.step SSys.step
  rw [List.getElem?_map]
  cases hi : objs[i]? with
  | none => exact ⟨rfl, h⟩
  | some r =>
    have hr : r ∈ objs := List.mem_of_getElem? hi
    obtain ⟨hg, hn⟩ := h r hr
    obtain ⟨e, g2, n2, hm⟩ := Rd.ostep_refines r o hg hn ho hc
    simp only [Option.map_some]
    rw [← e]
    simp only
    have keep : ∀ q ∈ objs.set i (r.ostep o).2, q.Good ∧ q.NoFss := by
      intro q hq
      rcases List.mem_or_eq_of_mem_set hq with hq | hq
      · exact h q hq
      · rw [hq]; exact ⟨g2, n2⟩
    cases hx : (r.ostep o).1 with
    | made n =>
      simp only [OOut.abs, Option.map_some, List.map_append, List.map_set, List.map_cons, List.map_nil]
      refine ⟨trivial, ?_⟩
      intro q hq
      rcases List.mem_append.mp hq with hq | hq
      · exact keep q hq
      · simp only [List.mem_singleton] at hq
        rw [hq]; exact hm n hx
    | out y => simp only [OOut.abs, Option.map_some, List.map_set]; exact ⟨trivial, keep⟩
    | failed => simp only [OOut.abs, Option.map_some, List.map_set]; exact ⟨trivial, keep⟩
    | unsupported => simp only [OOut.abs, Option.map_some, List.map_set]; exact ⟨trivial, keep⟩

/-- **refinement, whole systems, every history**: a system of well-formed reader objects of any mix of backends answers every
    interleaved history (64-bit arguments, no copy construction) exactly as the list of abstract readers `objs.map abs` does,
    and ends as that list does -/
theorem Sys.run_refines (h : List (Nat × OOp)) : ∀ objs : Sys, Sys.Ok objs → (∀ p ∈ h, p.2.argOk ∧ p.2.noCopy) →
    ((Sys.run objs h).1.map (fun p => (p.1, p.2.map OOut.abs)), (Sys.run objs h).2.map Rd.abs) = SSys.run (objs.map Rd.abs) h := by
  induction h with
  | nil => intro objs _ _; rfl
  | cons p h ih =>
    obtain ⟨i, o⟩ := p
    intro objs hok ha
    obtain ⟨ho, hc⟩ := ha (i, o) (List.mem_cons_self ..)
    obtain ⟨e, ok'⟩ := Sys.step_refines objs i o hok ho hc
    have ih' := ih (Sys.step objs i o).2 ok' (fun q hq => ha q (List.mem_cons_of_mem _ hq))
    simp only [Sys.run, SSys.run, List.map_cons]
    rw [← e]
    simp only
    rw [← ih']

/-- **backend equivalence for systems**: the same history on a memory reader and on a file reader over the same bytes — with
    all the slices, slices of slices and cursor slices it creates on the way — gives the same answers, and leaves
    corresponding objects exposing the same bytes at the same positions -/
theorem Sys.backend_equivalence (data : Bytes) (hd : data.length < W64) (h : List (Nat × OOp))
    (ha : ∀ p ∈ h, p.2.argOk ∧ p.2.noCopy) :
    let m := Sys.run [Rd.mem { data := data, pos := 0 }] h
    let f := Sys.run [Rd.file { data := data, pos := 0 }] h
    m.1.map (fun p => (p.1, p.2.map OOut.abs)) = f.1.map (fun p => (p.1, p.2.map OOut.abs)) ∧
    m.2.map Rd.abs = f.2.map Rd.abs := by
  have okm : Sys.Ok [Rd.mem { data := data, pos := 0 }] := by
    intro r hr; simp only [List.mem_singleton] at hr; rw [hr]; exact ⟨⟨Nat.zero_le _, hd⟩, trivial⟩
  have okf : Sys.Ok [Rd.file { data := data, pos := 0 }] := by
    intro r hr; simp only [List.mem_singleton] at hr; rw [hr]; exact ⟨⟨Nat.zero_le _, hd⟩, trivial⟩
  have e1 := Sys.run_refines h _ okm ha
  have e2 := Sys.run_refines h _ okf ha
  have : [Rd.mem { data := data, pos := 0 }].map Rd.abs = [Rd.file { data := data, pos := 0 }].map Rd.abs := rfl
  rw [this] at e1
  rw [← e2] at e1
  exact ⟨congrArg Prod.fst e1, congrArg Prod.snd e1⟩

end Op2.Stream

namespace Op2.Stream

/-- what the correspondence run prints of an object after every step — `Position()` and `Length()` as the backend computes them
    (u64 arithmetic on the wrapped cursor for slices) — are the relative cursor and the size of what the object exposes -/
theorem Rd.observables (r : Rd) (hr : r.Good) : r.pos = r.abs.pos ∧ r.len = r.abs.data.length ∧ r.pos ≤ r.len := by
  cases r with
  | mem m => exact ⟨rfl, rfl, hr.1⟩
  | file f => exact ⟨rfl, rfl, hr.1⟩
  | fsl s =>
    have hp := slice_position_eq fileWrappedOK s hr
    have hl := sliceAbs_len (ab := id) s hr.2.1
    obtain ⟨_, g1, g2, g3⟩ := hr
    simp only [id] at g1 g2 g3 hp
    refine ⟨hp, hl.symm, ?_⟩
    simp only [Rd.pos, Rd.len, hp]; omega
  | fss s =>
    have hp := slice_position_eq (sliceWrappedOK fileWrappedOK) s hr
    have hl := sliceAbs_len (ab := sliceAbs id) s hr.2.1
    obtain ⟨_, g1, g2, g3⟩ := hr
    refine ⟨hp, hl.symm, ?_⟩
    simp only [Rd.pos, Rd.len, fslW, hp]; omega

end Op2.Stream
