import Op2Proofs.Tileset.Inv
import Op2Proofs.Bmp.Closure
/-!
# Tileset operations on loaded objects: no faults; the loader unfolded; prefixes
-/
namespace Op2.Tileset
open Op2 Op2.Bmp Op2.Parser

theorem validateTs_cases (f : Bmp) : validateTs f = .ok () ∨ validateTs f = .err .format := by
  unfold validateTs; split <;> simp

theorem validateTs_ok_iff (f : Bmp) :
    validateTs f = .ok () ↔ f.ih.bitCount = 8 ∧ f.ih.width = 32 ∧ toU32 f.ih.height % 32 = 0 := by
  unfold validateTs bitDepth heightMultiple
  split
  · rename_i h; simp [h]
  · rename_i h; simp; intro a b c; exact h ⟨a, b, c⟩

/-- saving a loaded object in the custom format never reaches an undefined operation -/
theorem writeCustom_no_fault {f : Bmp} (L : Loaded f) (g : Fault) : writeCustom f ≠ .fault g := by
  unfold writeCustom
  rcases validateTs_cases f with hv | hv
  · rw [hv]
    simp only
    rw [L.verifyPalette_ok]
    simp only
    by_cases htd : isTopDown { f with palette := f.palette ++ List.replicate (256 - f.palette.length) Color.black } = true
    · rw [if_pos htd]
      simp only
      have : absoluteHeight { f with palette := f.palette ++ List.replicate (256 - f.palette.length) Color.black } = .ok f.ih.height.natAbs := by
        unfold absoluteHeight; exact (by rw [show ({ f with palette := f.palette ++ List.replicate (256 - f.palette.length) Color.black } : Bmp).ih.height = f.ih.height from rfl, L.abs])
      rw [this]
      simp
    · rw [if_neg htd]
      have hi := invert_ok' { f with palette := f.palette ++ List.replicate (256 - f.palette.length) Color.black }
        L.height_ne L.ihRange.height (by show f.ih.height.natAbs * pitch f.ih.bitCount f.ih.width ≤ f.pixels.length
                                         rw [L.npix, Nat.mul_comm]; exact Nat.le_refl _)
      rw [hi]
      simp only
      unfold absoluteHeight
      have hne := L.height_ne; have hr := L.ihRange.height
      have : absI32 (-f.ih.height) = .ok f.ih.height.natAbs := by
        unfold absI32; rw [if_neg (by unfold I32_MIN at *; omega)]; simp
      simp only [this]
      simp
  · rw [hv]; simp

/-- `ReadTileset` unfolded: signature test on the first four bytes, then one of the two readers -/
theorem read_eq (b : Bytes) (hb : b.length < W64) :
    Tileset.read b =
      if 4 ≤ b.length then
        (if b.take 4 = tagPBMP then readCustom b
         else match Bmp.read b with
           | .ok f => (match validateTs f with | .ok _ => .ok f | .err e => .err e | .fault g => .fault g)
           | o => o)
      else .err .bounds := by
  unfold Tileset.read
  rw [peekIsCustom_eval _ ⟨Nat.zero_le _, hb⟩]
  simp only [Nat.zero_add, List.drop_zero]
  by_cases h4 : 4 ≤ b.length
  · rw [if_pos h4, if_pos h4]
    by_cases ht : b.take 4 = tagPBMP
    · simp [ht]
    · simp [ht]
      cases Bmp.read b <;> rfl
  · rw [if_neg h4, if_neg h4]

end Op2.Tileset
