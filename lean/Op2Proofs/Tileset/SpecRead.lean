import Op2Proofs.Bmp.Ops
import Op2Model.Tileset
/-!
# The format-detecting loader accepts every file written according to the frozen description of the custom
format and returns exactly the described picture as a top-down 8-bit bitmap
-/
namespace Op2.Tileset
open Op2 Op2.Bmp Op2.Parser

/-! ## rewriting lemmas: one parser step on its own encoding followed by anything -/

theorem bind_reads {α β : Type} {p : Parser α} {s : Bytes} {a : α} (h : Reads p s a) (f : α → Parser β) (rest : Bytes) :
    Parser.bind p f (s ++ rest) = f a rest := by
  unfold Parser.bind; rw [h rest]

theorem reads_sectionHeader (tag : Bytes) (len : Nat) (ht : tag.length = 4) (hl : len < 4294967296) :
    Reads Rd.sectionHeader (tag ++ encU32 len) (tag, len) := by
  unfold Rd.sectionHeader
  have := reads_bind (f := fun tag => Parser.bind Parser.u32 fun len => Parser.pure (tag, len)) (reads_take' tag 4 ht)
    (reads_bind (f := fun len => Parser.pure (tag, len)) (reads_u32 len hl) (reads_pure (tag, len)))
  simpa using this

theorem bind_sectionHeader {β : Type} (tag : Bytes) (len : Nat) (ht : tag.length = 4) (hl : len < 4294967296)
    (f : Bytes × Nat → Parser β) (rest : Bytes) :
    Parser.bind Rd.sectionHeader f (tag ++ (encU32 len ++ rest)) = f (tag, len) rest := by
  rw [← List.append_assoc]; exact bind_reads (reads_sectionHeader tag len ht hl) f rest

theorem bind_u32 {β : Type} (v : Nat) (hv : v < 4294967296) (f : Nat → Parser β) (rest : Bytes) :
    Parser.bind Parser.u32 f (encU32 v ++ rest) = f v rest := bind_reads (reads_u32 v hv) f rest

theorem bind_guard {β : Type} (c : Bool) (e : Err) (hc : c = true) (f : Unit → Parser β) (rest : Bytes) :
    Parser.bind (guard c e) f rest = f () rest := by
  subst hc; rfl


/-! ## closed facts -/

theorem ascii_PBMP : Spec.ascii4 'P' 'B' 'M' 'P' = tagPBMP := by decide
theorem ascii_head : Spec.ascii4 'h' 'e' 'a' 'd' = tagHead := by decide
theorem ascii_PPAL : Spec.ascii4 'P' 'P' 'A' 'L' = tagPPAL := by decide
theorem ascii_data : Spec.ascii4 'd' 'a' 't' 'a' = tagData := by decide

theorem pitch_8_32 : pitch 8 32 = 32 := by decide
theorem i32_32 : Op2.i32 32 = 32 := by decide

/-! ## `CreateIndexed(8, 32, int32_t(h * -1))` -/

theorem neg_height (h : Nat) (hh : h < 2147483648) : Op2.i32 (((W32 - 1) * h) % W32) = -(h : Int) := by
  unfold Op2.i32 W32
  omega

def shapeOf (h : Nat) : Shape :=
  { bh := BmpHeader.create (sizeBmpHeader + sizeImageHeader + 1024 + 32 * h) (sizeBmpHeader + sizeImageHeader + 1024),
    ih := { headerSize := sizeImageHeader, width := 32, height := -(h : Int), planes := 1, bitCount := 8,
            compression := 0, imageSize := 0, xRes := 0, yRes := 0, used := 0, important := 0 },
    npal := 256, npix := 32 * h }

theorem createShape_ok (h : Nat) (hc : 32 * h ≤ allocCap) :
    createShape 8 32 (Op2.i32 (((W32 - 1) * h) % W32)) = .ok (shapeOf h) := by
  have hh : h < 2147483648 := by unfold allocCap at hc; omega
  rw [neg_height h hh]
  unfold createShape ImageHeader.create
  rw [i32_32, if_pos ⟨by decide, by decide, by unfold I32_MIN; omega⟩]
  simp only
  have habs : absI32 (-(h : Int)) = .ok h := by
    unfold absI32; rw [if_neg (by unfold I32_MIN; omega)]; simp
  rw [if_neg (by decide), habs]
  simp only
  rw [pitch_8_32, Nat.mod_eq_of_lt (by unfold allocCap W64 at *; omega), if_neg (by omega),
    if_neg (by unfold sizeBmpHeader sizeImageHeader allocCap W32 at *; omega)]
  rfl


/-! ## palette and pixels -/

theorem reads_color (c : Color) : Reads Bmp.Rd.color (Color.enc c) c := by
  have := reads_map Color.ofBytes (reads_take' (Color.enc c) 4 rfl)
  exact this

theorem flatMap_bgra (pal : List Color) : pal.flatMap Spec.bgra = (pal.map Color.swapRB).flatMap Color.enc := by
  induction pal with
  | nil => rfl
  | cons c cs ih => simp only [List.flatMap_cons, List.map_cons, ih]; rfl

theorem reads_palette (pal : List Color) :
    Reads (many Bmp.Rd.color pal.length) (pal.flatMap Spec.bgra) (pal.map Color.swapRB) := by
  have := reads_many (p := Bmp.Rd.color) (enc := Color.enc) reads_color (pal.map Color.swapRB)
  rw [List.length_map, ← flatMap_bgra] at this
  exact this

theorem swapRB_swapRB (c : Color) : c.swapRB.swapRB = c := rfl

theorem map_swapRB_swapRB (pal : List Color) : (pal.map Color.swapRB).map Color.swapRB = pal := by
  rw [List.map_map]
  have : Color.swapRB ∘ Color.swapRB = id := by funext c; rfl
  rw [this, List.map_id]

theorem flatten_length_32 : ∀ (rows : List Bytes), (∀ r ∈ rows, r.length = 32) → rows.flatten.length = 32 * rows.length
  | [], _ => rfl
  | r :: rs, h => by
    have h1 := h r (by simp)
    have h2 := flatten_length_32 rs (fun x hx => h x (by simp [hx]))
    simp only [List.flatten_cons, List.length_append, List.length_cons, h1, h2]
    omega


/-! ## the result -/

def bmpOf (pal : List Color) (h : Nat) (px : Bytes) : Bmp :=
  { bh := BmpHeader.create (sizeBmpHeader + sizeImageHeader + 1024 + 32 * h) (sizeBmpHeader + sizeImageHeader + 1024),
    ih := { headerSize := sizeImageHeader, width := 32, height := -(h : Int), planes := 1, bitCount := 8,
            compression := 0, imageSize := 0, xRes := 0, yRes := 0, used := 0, important := 0 },
    palette := pal, pixels := px }

theorem validateTs_bmpOf (pal : List Color) (h : Nat) (px : Bytes) (h32 : h % 32 = 0) :
    validateTs (bmpOf pal h px) = .ok () := by
  unfold validateTs
  rw [if_pos]
  refine ⟨rfl, rfl, ?_⟩
  show toU32 (-(h : Int)) % heightMultiple = 0
  unfold toU32 heightMultiple W32
  omega

/-- the bytes of the frozen description, right-nested -/
def layout (pal : List Color) (h : Nat) (px junk : Bytes) : Bytes :=
  tagPBMP ++ (encU32 (1068 + 32 * h) ++
  (tagHead ++ (encU32 20 ++ (encU32 2 ++ (encU32 32 ++ (encU32 h ++ (encU32 8 ++ (encU32 8 ++
  (tagPPAL ++ (encU32 1048 ++
  (tagHead ++ (encU32 4 ++ (encU32 1 ++
  (tagData ++ (encU32 1024 ++ (pal.flatMap Spec.bgra ++
  (tagData ++ (encU32 (32 * h) ++ (px ++ junk)))))))))))))))))))

theorem custom_layout (pal : List Color) (h : Nat) (px junk : Bytes) (hpal : pal.length = 256) (h32 : h % 32 = 0)
    (hc : 32 * h ≤ allocCap) (hpx : px.length = 32 * h) :
    Rd.custom (layout pal h px junk) = .ok (.ok (bmpOf pal h px), junk) := by
  have hh : h < 2147483648 := by unfold allocCap at hc; omega
  have hc' : 32 * h ≤ 1073741824 := hc
  unfold Rd.custom layout
  rw [bind_sectionHeader tagPBMP (1068 + 32 * h) rfl (by omega)]
  rw [bind_guard _ _ (by simp)]
  rw [bind_sectionHeader tagHead 20 rfl (by omega)]
  rw [bind_u32 2 (by omega), bind_u32 32 (by omega), bind_u32 h (by omega), bind_u32 8 (by omega), bind_u32 8 (by omega)]
  rw [bind_guard _ _ (by unfold tilesetHeaderOk; exact decide_eq_true ⟨rfl, rfl, rfl, h32, by omega, rfl⟩)]
  rw [bind_sectionHeader tagPPAL 1048 rfl (by omega), bind_sectionHeader tagHead 4 rfl (by omega), bind_u32 1 (by omega)]
  rw [bind_guard _ _ (by decide)]
  rw [bind_sectionHeader tagData 1024 rfl (by omega)]
  rw [bind_guard _ _ (by decide)]
  have e8 : 8 % W16 = 8 := by decide
  rw [e8, createShape_ok h hc]
  simp only [shapeOf]
  rw [← hpal, bind_reads (reads_palette pal)]
  rw [bind_sectionHeader tagData (32 * h) rfl (by omega)]
  rw [bind_guard _ _ (decide_eq_true ⟨rfl, by unfold pixelHeaderLength pixelWidth W32; omega⟩)]
  rw [← hpx, bind_reads (reads_take px)]
  have ef : swapRedAndBlue
      { bh := BmpHeader.create (sizeBmpHeader + sizeImageHeader + 1024 + List.length px)
                (sizeBmpHeader + sizeImageHeader + 1024),
        ih := { headerSize := sizeImageHeader, width := 32, height := -(h : Int), planes := 1, bitCount := 8,
                compression := 0, imageSize := 0, xRes := 0, yRes := 0, used := 0, important := 0 },
        palette := List.map Color.swapRB pal, pixels := px } = bmpOf pal h px := by
    unfold swapRedAndBlue bmpOf
    simp only [map_swapRB_swapRB, hpx]
  rw [ef, validateTs_bmpOf pal h px h32]
  rfl


/-! ## `PeekIsCustomTileset` -/

theorem peekIsCustom_tag (rest : Bytes) (hl : rest.length + 4 < W64) :
    (peekIsCustom { data := tagPBMP ++ rest, pos := 0 }).1 = .ok true := by
  have hlen : (tagPBMP ++ rest).length = rest.length + 4 := by simp [tagPBMP]
  have hr : Stream.MemR.read { data := tagPBMP ++ rest, pos := 0 } 4 =
      .ok (tagPBMP, { data := tagPBMP ++ rest, pos := 4 }) := by
    unfold Stream.MemR.read
    rw [if_neg (by
      show ¬ 4 > u64 (W64 + (tagPBMP ++ rest).length - 0)
      rw [hlen]; unfold u64 W64 at *; omega)]
    rfl
  have hb : Stream.MemR.back { data := tagPBMP ++ rest, pos := 4 } 4 = .ok { data := tagPBMP ++ rest, pos := 0 } := by
    unfold Stream.MemR.back
    rw [if_neg (by show ¬ 4 > 4; omega)]
    have e0 : u64 (W64 + 4 - 4) = 0 := by decide
    show Except.ok ({ data := tagPBMP ++ rest, pos := u64 (W64 + 4 - 4) } : Stream.MemR) = _
    rw [e0]
  unfold peekIsCustom Stream.MemR.peek
  rw [hr]; simp only; rw [hb]
  rfl


/-! ## the theorems -/

/-- the bitmap object the frozen description calls for: top-down, 8 bits, 32 wide, the palette and the rows as given -/
def bmpOfPicture (p : Spec.Picture) : Bmp :=
  let n := 32 * p.rows.length
  { bh := BmpHeader.create (sizeBmpHeader + sizeImageHeader + 1024 + n) (sizeBmpHeader + sizeImageHeader + 1024),
    ih := { headerSize := sizeImageHeader, width := 32, height := -(p.rows.length : Int), planes := 1, bitCount := 8,
            compression := 0, imageSize := 0, xRes := 0, yRes := 0, used := 0, important := 0 },
    palette := p.palette, pixels := p.rows.flatten }

theorem bmpOfPicture_eq (p : Spec.Picture) : bmpOfPicture p = bmpOf p.palette p.rows.length p.rows.flatten := rfl

theorem encode_layout (p : Spec.Picture) (junk : Bytes) :
    Spec.encode p ++ junk = layout p.palette p.rows.length p.rows.flatten junk := by
  unfold Spec.encode layout
  simp only [ascii_PBMP, ascii_head, ascii_PPAL, ascii_data, Spec.le32, List.append_assoc]

/-- `Rd.custom` reads the encoding of a well-formed picture back, whatever follows it -/
theorem spec_custom_reads (p : Spec.Picture) (hw : p.WF) (hc : 32 * p.rows.length ≤ allocCap) :
    Reads Rd.custom (Spec.encode p) (.ok (bmpOfPicture p)) := by
  intro junk
  rw [encode_layout, bmpOfPicture_eq]
  exact custom_layout p.palette p.rows.length p.rows.flatten junk hw.1 hw.2.1 hc (flatten_length_32 p.rows hw.2.2.2)

theorem spec_readCustom (p : Spec.Picture) (hw : p.WF) (hc : 32 * p.rows.length ≤ allocCap) (junk : Bytes) :
    readCustom (Spec.encode p ++ junk) = .ok (bmpOfPicture p) := by
  unfold readCustom runOut
  rw [spec_custom_reads p hw hc junk]

theorem bgra_length : ∀ (pal : List Color), (pal.flatMap Spec.bgra).length = 4 * pal.length
  | [] => rfl
  | c :: cs => by
    have := bgra_length cs
    simp only [List.flatMap_cons, List.length_append, List.length_cons, this, Spec.bgra, List.length_nil]
    omega

theorem layout_length (pal : List Color) (h : Nat) (px junk : Bytes) :
    (layout pal h px junk).length = 72 + 4 * pal.length + px.length + junk.length := by
  simp only [layout, List.length_append, encU32_length, bgra_length, tagPBMP, tagHead, tagPPAL, tagData,
    List.length_cons, List.length_nil]
  omega

theorem encode_length (p : Spec.Picture) (hw : p.WF) : (Spec.encode p).length = 1096 + 32 * p.rows.length := by
  have e := encode_layout p []
  rw [List.append_nil] at e
  rw [e, layout_length, hw.1, flatten_length_32 p.rows hw.2.2.2, List.length_nil]
  omega

/-- the format-detecting loader accepts every file written according to the frozen description and returns exactly the
    described picture as a top-down 8-bit bitmap -/
theorem spec_read (p : Spec.Picture) (hw : p.WF) (hc : 32 * p.rows.length ≤ allocCap) :
    Tileset.read (Spec.encode p) = .ok (bmpOfPicture p) := by
  unfold Tileset.read
  have hp : (peekIsCustom { data := Spec.encode p, pos := 0 }).1 = .ok true := by
    have hl := encode_length p hw
    have e := encode_layout p []
    rw [List.append_nil] at e
    rw [e] at hl ⊢
    unfold layout at hl ⊢
    apply peekIsCustom_tag
    rw [List.length_append] at hl
    have : tagPBMP.length = 4 := rfl
    unfold allocCap at hc; unfold W64
    omega
  rw [hp]
  simp only
  have := spec_readCustom p hw hc []
  rw [List.append_nil] at this
  exact this

end Op2.Tileset
