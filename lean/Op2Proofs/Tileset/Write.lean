import Op2Proofs.Tileset.SpecRead
import Op2Proofs.Tileset.Use
/-!
# `WriteCustomTileset` on a valid picture produces exactly the frozen description of the format
-/
namespace Op2.Tileset
open Op2 Op2.Bmp

theorem encU32_mod (v : Nat) : encU32 (v % W32) = encU32 v := by
  unfold encU32 W32
  have e : ∀ a b : Nat, a % 256 = b % 256 → UInt8.ofNat a = UInt8.ofNat b := by
    intro a b h
    apply UInt8.toNat_inj.mp
    simp only [UInt8.toNat_ofNat']
    exact h
  congr 1
  · exact e _ _ (by omega)
  congr 1
  · exact e _ _ (by omega)
  congr 1
  · exact e _ _ (by omega)
  congr 1
  · exact e _ _ (by omega)

/-- the bytes `WriteCustomTileset` emits for a top-down object with a 256-entry palette -/
def customBytes (pal : List Color) (h : Nat) (px : Bytes) : Bytes := layout pal h px []

theorem picture_wf {f : Bmp} (hv : ValidPicture f) : (picture f).WF := by
  obtain ⟨h8, h32, hm, hlo, hhi, hpal, hpx⟩ := hv
  unfold picture Spec.Picture.WF
  have hl : (storedRows f.pixels 32 f.ih.height.natAbs).length = f.ih.height.natAbs := storedRows_length _ _ _
  have hrows : ∀ r ∈ storedRows f.pixels 32 f.ih.height.natAbs, r.length = 32 :=
    storedRows_row_length 32 _ _ (by rw [hpx, Nat.mul_comm]; exact Nat.le_refl _)
  unfold I32_MIN I32_MAX at *
  refine ⟨by simp; omega, ?_, ?_, ?_⟩
  · split <;> simp [hl] <;> omega
  · split <;> simp [hl] <;> omega
  · intro r hr
    split at hr
    · exact hrows r hr
    · exact hrows r (List.mem_reverse.mp hr)

theorem picture_rows_length (f : Bmp) : (picture f).rows.length = f.ih.height.natAbs := by
  unfold picture
  split <;> simp [storedRows_length]

theorem picture_palette (f : Bmp) :
    (picture f).palette = f.palette ++ List.replicate (256 - f.palette.length) Color.black := rfl
theorem picture_rows_td (f : Bmp) (h : f.ih.height < 0) : (picture f).rows = storedRows f.pixels 32 f.ih.height.natAbs := by
  unfold picture; simp only; rw [if_pos h]
theorem picture_rows_bu (f : Bmp) (h : ¬ f.ih.height < 0) :
    (picture f).rows = (storedRows f.pixels 32 f.ih.height.natAbs).reverse := by
  unfold picture; simp only; rw [if_neg h]

/-- saving a valid picture: the bytes are the frozen description of the picture it shows -/
theorem writeCustom_spec {f : Bmp} (hv : ValidPicture f) : writeCustom f = .ok (Spec.encode (picture f)) := by
  have hwf := picture_wf hv
  obtain ⟨h8, h32, hm, hlo, hhi, hpal, hpx⟩ := hv
  unfold I32_MIN I32_MAX at *
  have hvt : validateTs f = .ok () := (validateTs_ok_iff f).mpr ⟨h8, h32, by unfold toU32 W32; omega⟩
  have hvp : verifyPalette f = .ok () := by unfold verifyPalette; rw [if_pos ⟨by omega, by rw [h8]; exact hpal⟩]
  have hne : f.ih.height ≠ Bmp.I32_MIN := by unfold Bmp.I32_MIN; omega
  have hp32 : pitch f.ih.bitCount f.ih.width = 32 := by rw [h8, h32]; exact pitch_8_32
  have e := encode_layout (picture f) []
  rw [List.append_nil] at e
  rw [e, picture_rows_length]
  unfold writeCustom
  rw [hvt]; simp only
  rw [hvp]; simp only
  have habs : ∀ g : Bmp, g.ih.height = f.ih.height ∨ g.ih.height = -f.ih.height → absoluteHeight g = .ok f.ih.height.natAbs := by
    intro g hg
    unfold absoluteHeight absI32
    rcases hg with hg | hg <;> rw [hg, if_neg (by unfold Bmp.I32_MIN; omega)] <;> simp
  have hnum : ∀ h : Nat, h % 32 = 0 → h < 2147483648 →
      encSection tagPBMP (pbmpSectionSize h) ++
       (encSection tagHead headSectionSize ++ encU32 headTagCount ++ encU32 pixelWidth ++
        encU32 ((h / heightMultiple * heightMultiple) % W32) ++ encU32 bitDepth ++ encU32 flags) ++
       (encSection tagPPAL ppalSectionSize ++ encSection tagHead ppalHeadSectionSize ++ encU32 ppalTagCount) ++
       encSection tagData paletteSectionSize = 
      tagPBMP ++ (encU32 (1068 + 32 * h) ++ (tagHead ++ (encU32 20 ++ (encU32 2 ++ (encU32 32 ++ (encU32 h ++ (encU32 8 ++ (encU32 8 ++
      (tagPPAL ++ (encU32 1048 ++ (tagHead ++ (encU32 4 ++ (encU32 1 ++ (tagData ++ encU32 1024)))))))))))))) := by
    intro h hm hl
    have e1 : pbmpSectionSize h = (1068 + 32 * h) % W32 := by
      unfold pbmpSectionSize pixelHeaderLength sizeTag sizeTilesetHeader sizePpalHeader paletteSectionSize pixelWidth W32; omega
    have e2 : (h / heightMultiple * heightMultiple) % W32 = h := by unfold heightMultiple W32; omega
    rw [e1, e2, ← encU32_mod (1068 + 32 * h)]
    simp only [encSection, headSectionSize, headTagCount, pixelWidth, bitDepth, flags, ppalSectionSize, ppalHeadSectionSize,
      ppalTagCount, paletteSectionSize, List.append_assoc]
  have hx : ∀ h : Nat, encSection tagData (pixelHeaderLength h) = tagData ++ encU32 (32 * h) := by
    intro h; unfold encSection pixelHeaderLength pixelWidth; rw [encU32_mod]
  by_cases htd : f.ih.height < 0
  · -- stored top-down already
    have ht : isTopDown { f with palette := f.palette ++ List.replicate (256 - f.palette.length) Color.black } = true := by
      unfold isTopDown; exact decide_eq_true htd
    rw [if_pos ht]; simp only
    have hf1 : absoluteHeight { f with palette := f.palette ++ List.replicate (256 - f.palette.length) Color.black } =
        .ok f.ih.height.natAbs := habs _ (Or.inl rfl)
    rw [hf1]; simp only
    rw [hnum _ (by omega) (by omega), hx]
    unfold layout
    rw [picture_palette, picture_rows_td f htd, storedRows_flatten 32 _ _ (by rw [hpx, Nat.mul_comm]), flatMap_bgra]
    simp only [encPalette, List.append_assoc, List.append_nil]
  · -- stored bottom-up: flipped first
    have ht : ¬ isTopDown { f with palette := f.palette ++ List.replicate (256 - f.palette.length) Color.black } = true := by
      unfold isTopDown; simp; omega
    rw [if_neg ht]
    have hr : -2147483648 ≤ f.ih.height ∧ f.ih.height < 2147483648 := ⟨by omega, by omega⟩
    have hi := invert_ok' { f with palette := f.palette ++ List.replicate (256 - f.palette.length) Color.black }
      hne hr (by
        show f.ih.height.natAbs * pitch f.ih.bitCount f.ih.width ≤ f.pixels.length
        rw [hp32, hpx, Nat.mul_comm]; exact Nat.le_refl _)
    rw [hi]; simp only
    have hf2 : ∀ px : Bytes, absoluteHeight (Bmp.mk f.bh { f.ih with height := -f.ih.height }
          (f.palette ++ List.replicate (256 - f.palette.length) Color.black) px) = .ok f.ih.height.natAbs :=
      fun px => habs _ (Or.inr rfl)
    rw [hf2]; simp only
    rw [hnum _ (by omega) (by omega), hx, hp32]
    unfold layout
    rw [picture_palette, picture_rows_bu f htd, flatMap_bgra]
    simp only [encPalette, List.append_assoc, List.append_nil]

/-- the object the loader builds from a well-formed picture shows that picture -/
theorem picture_bmpOfPicture (p : Spec.Picture) (hwf : p.WF) : picture (bmpOfPicture p) = p := by
  obtain ⟨pal, rows⟩ := p
  obtain ⟨hpal, _, _, hrows⟩ := hwf
  simp only at hpal hrows
  unfold picture bmpOfPicture
  simp only
  have e1 : (-(rows.length : Int)).natAbs = rows.length := by omega
  rw [e1, storedRows_of_flatten 32 rows hrows, hpal]
  simp only [Nat.sub_self, List.replicate_zero, List.append_nil]
  by_cases h0 : rows.length = 0
  · have : rows = [] := List.eq_nil_of_length_eq_zero h0
    subst this; simp
  · rw [if_pos (by omega)]

end Op2.Tileset
