import Op2Proofs.Tileset.Inv
/-!
# The custom tileset reader and its two header guards `tilesetHeaderOk` / `ppalHeaderOk`

The header of a custom tileset file lies at fixed offsets (nothing before byte 56 is of variable length):

```
 0 "PBMP"  4 len | 8 "head" 12 len 16 tagCount 20 pixelWidth 24 pixelHeight 28 bitDepth 32 flags | 36 "PPAL" 40 len 44 "head" 48 len 52 tagCount
```

`custom_headers`: whenever `Rd.custom` returns at all (as a parser: any outcome, any rest), the fields decoded at these offsets
satisfy both predicates; `custom_bad_tilesetHeader` / `custom_bad_ppalHeader`: when the file is long enough for the reader to reach
the guard and everything before it is accepted, a header failing the predicate is refused with `Err.format` (and with *some* error
without those side conditions).  No generated code is involved here: this is the model-side half of the tie
`C++ Validate = predicate = what the reader checks` (the other half is `Props/C09_Gen.lean`).
-/
namespace Op2.Tileset
open Op2 Op2.Bmp Op2.Parser Op2.Parser.BmpInv

/-- the four bytes at offset `off` (a `Tag` as the reader sees it) -/
def tagAt (b : Bytes) (off : Nat) : Bytes := (b.drop off).take 4
/-- the little-endian `uint32_t` at offset `off` -/
def u32At (b : Bytes) (off : Nat) : Nat := decU32 ((b.drop off).take 4)

/-- the byte at offset `i` -/
def byteAt (b : Bytes) (i : Nat) : UInt8 := b.getD i 0

/-- a tag inside the file is its four bytes -/
theorem tagAt_bytes (b : Bytes) (n : Nat) (hl : n + 4 ≤ b.length) :
    tagAt b n = [byteAt b n, byteAt b (n + 1), byteAt b (n + 2), byteAt b (n + 3)] := by
  have g : ∀ i, byteAt b (n + i) = (b.drop n).getD i 0 := by
    intro i; simp [byteAt, List.getD_eq_getElem?_getD, List.getElem?_drop]
  have g0 := g 0; rw [Nat.add_zero] at g0
  rw [g0, g 1, g 2, g 3]
  unfold tagAt
  have hlen : 4 ≤ (b.drop n).length := by rw [List.length_drop]; omega
  generalize b.drop n = xs at hlen
  match xs, hlen with
  | a :: b :: c :: d :: t, _ => rfl

/-- `TilesetHeader::Validate` on the header stored in `b` -/
def tilesetHeaderOkAt (b : Bytes) : Bool :=
  tilesetHeaderOk (tagAt b 8) (u32At b 12) (u32At b 16) (u32At b 20) (u32At b 24)
/-- `PpalHeader::Validate` on the header stored in `b` -/
def ppalHeaderOkAt (b : Bytes) : Bool :=
  ppalHeaderOk (tagAt b 36) (u32At b 40) (tagAt b 44) (u32At b 48) (u32At b 52)

/-! ### one parser step at offset `n` of `b`: what was read, and where the parser stands afterwards -/

theorem sectionHeader_off {b : Bytes} {n : Nat} {t : Bytes × Nat} {rest : Bytes}
    (h : Rd.sectionHeader (b.drop n) = .ok (t, rest)) :
    t.1 = tagAt b n ∧ t.2 = u32At b (n + 4) ∧ rest = b.drop (n + 8) := by
  unfold Rd.sectionHeader at h
  obtain ⟨tag, r1, a1, h⟩ := bind_ok.mp h
  obtain ⟨len, r2, a2, h⟩ := bind_ok.mp h
  have := pure_ok.mp h; injection this with e1 e2
  obtain ⟨hl, h3⟩ := take_ok.mp a1; injection h3 with h3 h4
  obtain ⟨_, _, b3, b4⟩ := u32_ok a2
  subst e1 e2 h3 h4 b3
  refine ⟨rfl, ?_, ?_⟩
  · show len = u32At b (n + 4)
    rw [b4]; unfold u32At; rw [List.drop_drop]
  · rw [List.drop_drop, List.drop_drop]

theorem u32_off {b : Bytes} {n v : Nat} {rest : Bytes} (h : Parser.u32 (b.drop n) = .ok (v, rest)) :
    v = u32At b n ∧ rest = b.drop (n + 4) := by
  obtain ⟨_, _, b3, b4⟩ := u32_ok h
  exact ⟨b4, by rw [b3, List.drop_drop]⟩

theorem guard_off {c : Bool} {e : Err} {xs : Bytes} {u : Unit} {rest : Bytes} (h : guard c e xs = .ok (u, rest)) :
    c = true ∧ rest = xs := by
  obtain ⟨g, e⟩ := guard_ok.mp h
  injection e with _ e
  exact ⟨g, e⟩

/-- **the reader checks exactly the named predicates on the stored header**: if `Rd.custom` returns at all, the fields at their offsets
    satisfy `tilesetHeaderOk` and `ppalHeaderOk` -/
theorem custom_headers {b : Bytes} {o : Out Bmp} {rest : Bytes} (hh : Rd.custom b = .ok (o, rest)) :
    tilesetHeaderOkAt b = true ∧ ppalHeaderOkAt b = true := by
  unfold Rd.custom at hh
  obtain ⟨sig, r1, a1, hh⟩ := bind_ok.mp hh
  obtain ⟨_, e1⟩ := sectionHeader_off (b := b) (n := 0) a1; obtain ⟨_, e1⟩ := e1; subst e1
  obtain ⟨_, r2, a2, hh⟩ := bind_ok.mp hh
  obtain ⟨_, e2⟩ := guard_off a2; subst e2
  obtain ⟨head, r3, a3, hh⟩ := bind_ok.mp hh
  obtain ⟨t3, l3, e3⟩ := sectionHeader_off a3; subst e3
  obtain ⟨tagCount, r4, a4, hh⟩ := bind_ok.mp hh
  obtain ⟨v4, e4⟩ := u32_off a4; subst e4
  obtain ⟨pw, r5, a5, hh⟩ := bind_ok.mp hh
  obtain ⟨v5, e5⟩ := u32_off a5; subst e5
  obtain ⟨ph, r6, a6, hh⟩ := bind_ok.mp hh
  obtain ⟨v6, e6⟩ := u32_off a6; subst e6
  obtain ⟨bd, r7, a7, hh⟩ := bind_ok.mp hh
  obtain ⟨v7, e7⟩ := u32_off a7; subst e7
  obtain ⟨fl, r8, a8, hh⟩ := bind_ok.mp hh
  obtain ⟨v8, e8⟩ := u32_off a8; subst e8
  obtain ⟨_, r9, a9, hh⟩ := bind_ok.mp hh
  obtain ⟨g9, e9⟩ := guard_off a9; subst e9
  obtain ⟨ppal, r10, a10, hh⟩ := bind_ok.mp hh
  obtain ⟨t10, l10, e10⟩ := sectionHeader_off a10; subst e10
  obtain ⟨phead, r11, a11, hh⟩ := bind_ok.mp hh
  obtain ⟨t11, l11, e11⟩ := sectionHeader_off a11; subst e11
  obtain ⟨ptc, r12, a12, hh⟩ := bind_ok.mp hh
  obtain ⟨v12, e12⟩ := u32_off a12; subst e12
  obtain ⟨_, r13, a13, hh⟩ := bind_ok.mp hh
  obtain ⟨g13, e13⟩ := guard_off a13
  rw [t3, l3, v4, v5, v6] at g9
  rw [t10, l10, t11, l11, v12] at g13
  exact ⟨g9, g13⟩

/-! ### the converse: a header failing a predicate is refused -/

/-- a header failing either predicate: the reader returns an error (whatever else the bytes hold) -/
theorem custom_bad_header {b : Bytes} (hbad : tilesetHeaderOkAt b = false ∨ ppalHeaderOkAt b = false) :
    ∃ e, Rd.custom b = .error e := by
  cases hr : Rd.custom b with
  | error e => exact ⟨e, rfl⟩
  | ok r =>
    obtain ⟨o, rest⟩ := r
    obtain ⟨h1, h2⟩ := custom_headers hr
    rcases hbad with h | h
    · rw [h1] at h; cases h
    · rw [h2] at h; cases h

theorem bind_sectionHeader_off {β : Type} (b : Bytes) (n : Nat) (f : Bytes × Nat → Parser β) (hl : n + 8 ≤ b.length) :
    Parser.bind Rd.sectionHeader f (b.drop n) = f (tagAt b n, u32At b (n + 4)) (b.drop (n + 8)) := by
  have h1 : 4 ≤ (b.drop n).length := by rw [List.length_drop]; omega
  have h2 : 4 ≤ ((b.drop n).drop 4).length := by rw [List.length_drop, List.length_drop]; omega
  unfold Rd.sectionHeader Parser.u32 Parser.map
  simp only [Parser.bind, Parser.take, Parser.pure, if_pos h1, if_pos h2]
  unfold tagAt u32At
  rw [List.drop_drop, List.drop_drop]

theorem bind_u32_off {β : Type} (b : Bytes) (n : Nat) (f : Nat → Parser β) (hl : n + 4 ≤ b.length) :
    Parser.bind Parser.u32 f (b.drop n) = f (u32At b n) (b.drop (n + 4)) := by
  have h1 : 4 ≤ (b.drop n).length := by rw [List.length_drop]; omega
  unfold Parser.u32 Parser.map
  simp only [Parser.bind, Parser.take, Parser.pure, if_pos h1]
  unfold u32At
  rw [List.drop_drop]

theorem bind_guard_true {β : Type} {c : Bool} {e : Err} (hc : c = true) (f : Unit → Parser β) (xs : Bytes) :
    Parser.bind (guard c e) f xs = f () xs := by
  subst hc; rfl

theorem bind_guard_false {β : Type} {c : Bool} {e : Err} (hc : c = false) (f : Unit → Parser β) (xs : Bytes) :
    Parser.bind (guard c e) f xs = .error e := by
  subst hc; rfl

/-- the error value: a file long enough to hold the tileset header, with an accepted signature section, whose tileset header fails
    `tilesetHeaderOk`, is refused with `Err.format` (the `throw std::runtime_error` of `TilesetHeader::Validate`) -/
theorem custom_bad_tilesetHeader {b : Bytes} (hl : 36 ≤ b.length) (hsig : tagAt b 0 = tagPBMP) (hlen : u32At b 4 ≠ 0)
    (hbad : tilesetHeaderOkAt b = false) : Rd.custom b = .error .format := by
  unfold Rd.custom
  show Parser.bind Rd.sectionHeader _ (b.drop 0) = _
  rw [bind_sectionHeader_off b 0 _ (by omega)]
  rw [bind_guard_true (decide_eq_true ⟨hsig, hlen⟩)]
  rw [bind_sectionHeader_off b _ _ (by omega)]
  rw [bind_u32_off b _ _ (by omega), bind_u32_off b _ _ (by omega), bind_u32_off b _ _ (by omega), bind_u32_off b _ _ (by omega),
    bind_u32_off b _ _ (by omega)]
  exact bind_guard_false hbad _ _

/-- the same for the palette header: everything up to it accepted, `ppalHeaderOk` fails: `Err.format` -/
theorem custom_bad_ppalHeader {b : Bytes} (hl : 56 ≤ b.length) (hsig : tagAt b 0 = tagPBMP) (hlen : u32At b 4 ≠ 0)
    (hok : tilesetHeaderOkAt b = true) (hbad : ppalHeaderOkAt b = false) : Rd.custom b = .error .format := by
  unfold Rd.custom
  show Parser.bind Rd.sectionHeader _ (b.drop 0) = _
  rw [bind_sectionHeader_off b 0 _ (by omega)]
  rw [bind_guard_true (decide_eq_true ⟨hsig, hlen⟩)]
  rw [bind_sectionHeader_off b _ _ (by omega)]
  rw [bind_u32_off b _ _ (by omega), bind_u32_off b _ _ (by omega), bind_u32_off b _ _ (by omega), bind_u32_off b _ _ (by omega),
    bind_u32_off b _ _ (by omega)]
  rw [bind_guard_true (c := tilesetHeaderOk _ _ _ _ _) hok]
  rw [bind_sectionHeader_off b _ _ (by omega), bind_sectionHeader_off b _ _ (by omega), bind_u32_off b _ _ (by omega)]
  exact bind_guard_false hbad _ _

end Op2.Tileset
