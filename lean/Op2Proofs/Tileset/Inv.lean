import Op2Proofs.Bmp.LocalRd
import Op2Proofs.Bmp.Ops
import Op2Proofs.Bmp.RoundTrip
import Op2Model.Tileset
/-!
# The custom tileset reader: what acceptance implies (`custom_ok`), no fault, locality; the detector evaluated
-/
namespace Op2.Tileset
open Op2 Op2.Bmp Op2.Parser Op2.Parser.BmpInv

/-! ### `CreateIndexed` as used by the reader -/

theorem createShape_no_fault (bits w : Nat) (h : Int) (g : Fault) : createShape bits w h ≠ .fault g := by
  unfold createShape
  cases hc : ImageHeader.create (Op2.i32 w) h bits with
  | error e => simp
  | ok ih =>
    simp only
    split
    · simp
    · have hne : h ≠ I32_MIN := by
        unfold ImageHeader.create at hc
        split at hc
        · rename_i hcond; exact hcond.2.2
        · cases hc
      have : absI32 h = .ok h.natAbs := by unfold absI32; rw [if_neg hne]
      rw [this]
      simp only
      split
      · simp
      · split <;> simp

/-! ### inversion of `Rd.custom` -/

theorem sectionHeader_ok {xs : Bytes} {t : Bytes × Nat} {rest : Bytes} (h : Rd.sectionHeader xs = .ok (t, rest)) :
    t.1 = xs.take 4 ∧ xs.length = rest.length + 8 := by
  unfold Rd.sectionHeader at h
  obtain ⟨tag, r1, a1, h⟩ := bind_ok.mp h
  obtain ⟨len, r2, a2, h⟩ := bind_ok.mp h
  have := pure_ok.mp h; injection this with e1 e2
  obtain ⟨hl, h3⟩ := take_ok.mp a1; injection h3 with h3 h4
  have b := u32_ok a2
  subst e1 e2
  refine ⟨h3, ?_⟩
  have : r1.length = xs.length - 4 := by rw [h4]; simp
  omega

theorem swap_length (f : Bmp) : (swapRedAndBlue f).palette.length = f.palette.length := by
  simp [swapRedAndBlue]

/-- an accepted custom tileset: the returned object satisfies everything the BMP reader guarantees, is an 8-bit
    32-pixel-wide top-down picture, and the parser consumed the 1096 header/palette bytes plus the pixels -/
theorem custom_ok {xs : Bytes} {f : Bmp} {rest : Bytes} (hh : Rd.custom xs = .ok (.ok f, rest)) :
    Loaded f ∧ f.ih.bitCount = 8 ∧ f.ih.width = 32 ∧ f.ih.height ≤ 0 ∧ f.palette.length = 256 ∧
    xs.take 4 = tagPBMP ∧ xs.length = rest.length + (1096 + f.pixels.length) ∧ validateTs f = .ok () := by
  unfold Rd.custom at hh
  obtain ⟨sig, r1, a1, hh⟩ := bind_ok.mp hh
  obtain ⟨_, r2, a2, hh⟩ := bind_ok.mp hh
  obtain ⟨head, r3, a3, hh⟩ := bind_ok.mp hh
  obtain ⟨tagCount, r4, a4, hh⟩ := bind_ok.mp hh
  obtain ⟨pw, r5, a5, hh⟩ := bind_ok.mp hh
  obtain ⟨ph, r6, a6, hh⟩ := bind_ok.mp hh
  obtain ⟨bd, r7, a7, hh⟩ := bind_ok.mp hh
  obtain ⟨fl, r8, a8, hh⟩ := bind_ok.mp hh
  obtain ⟨_, r9, a9, hh⟩ := bind_ok.mp hh
  obtain ⟨ppal, r10, a10, hh⟩ := bind_ok.mp hh
  obtain ⟨phead, r11, a11, hh⟩ := bind_ok.mp hh
  obtain ⟨ptc, r12, a12, hh⟩ := bind_ok.mp hh
  obtain ⟨_, r13, a13, hh⟩ := bind_ok.mp hh
  obtain ⟨pdata, r14, a14, hh⟩ := bind_ok.mp hh
  obtain ⟨_, r15, a15, hh⟩ := bind_ok.mp hh
  obtain ⟨g2, e2⟩ := guard_ok.mp a2; injection e2 with _ e2
  obtain ⟨g9, e9⟩ := guard_ok.mp a9; injection e9 with _ e9
  obtain ⟨g13, e13⟩ := guard_ok.mp a13; injection e13 with _ e13
  obtain ⟨g15, e15⟩ := guard_ok.mp a15; injection e15 with _ e15
  have G2 := of_decide_eq_true g2
  have G9 := of_decide_eq_true g9
  have s1 := sectionHeader_ok a1; have s3 := sectionHeader_ok a3; have s10 := sectionHeader_ok a10
  have s11 := sectionHeader_ok a11; have s14 := sectionHeader_ok a14
  have u4 := u32_ok a4; have u5 := u32_ok a5; have u6 := u32_ok a6; have u7 := u32_ok a7; have u8 := u32_ok a8
  have u12 := u32_ok a12
  have hph : ph ≤ 2147483647 := G9.2.2.2.2.1
  have hpw : pw = 32 := G9.2.2.1
  have hrange : -2147483648 ≤ Op2.i32 (((W32 - 1) * ph) % W32) ∧ Op2.i32 (((W32 - 1) * ph) % W32) < 2147483648 := i32_range _
  have hneg : Op2.i32 (((W32 - 1) * ph) % W32) = -(ph : Int) := by
    have : ((W32 - 1) * ph) % W32 = (W32 - ph) % W32 := by unfold W32; omega
    rw [this]; unfold Op2.i32 W32; split <;> omega
  cases hs : createShape (bd % W16) pw (Op2.i32 (((W32 - 1) * ph) % W32)) with
  | fault g => simp only [hs] at hh; have := pure_ok.mp hh; injection this with e _; injection e
  | err e => simp only [hs] at hh; exact (fail_ok.mp hh).elim
  | ok bm =>
    simp only [hs] at hh
    obtain ⟨pal, r16, a16, hh⟩ := bind_ok.mp hh
    obtain ⟨xdata, r17, a17, hh⟩ := bind_ok.mp hh
    obtain ⟨_, r18, a18, hh⟩ := bind_ok.mp hh
    obtain ⟨px, r19, a19, hh⟩ := bind_ok.mp hh
    obtain ⟨g18, e18⟩ := guard_ok.mp a18; injection e18 with _ e18
    have P := many_length _ a16
    have Pc := many_consumes (k := 4) (fun _ _ _ h => color_ok h) _ a16
    have s17 := sectionHeader_ok a17
    obtain ⟨hl, t⟩ := take_ok.mp a19; injection t with t1 t2
    have lpx : px.length = bm.npix := by rw [t1, List.length_take]; omega
    cases hv : validateTs (swapRedAndBlue { bh := bm.bh, ih := bm.ih, palette := pal, pixels := px }) with
    | fault g => simp only [hv] at hh; have := pure_ok.mp hh; injection this with e _; injection e
    | err e => simp only [hv] at hh; exact (fail_ok.mp hh).elim
    | ok u =>
      simp only [hv] at hh
      have := pure_ok.mp hh; injection this with ef er; injection ef with ef
      have hv0 := hv
      unfold validateTs at hv
      split at hv
      · rename_i hcond
        have hb8 : bm.ih.bitCount = 8 := hcond.1
        have hw32 : bm.ih.width = 32 := hcond.2.1
        obtain ⟨c1, c2, c3, c4, c5, c6, c7, c8, c9, c10⟩ := Bmp.createShape_ok hs
        have hbits : bd % W16 = 8 := by rw [c9] at hb8; exact hb8
        rw [hbits] at c10 c9
        have hpal : pal.length = 2 ^ (bd % W16) := by rw [P, c10, hbits]
        have SL := (shape_loaded hs hrange (pal.map Color.swapRB) px (by rw [List.length_map]; exact hpal) lpx).1
        subst ef
        have hnp : bm.npal = 256 := c10
        have hht : bm.ih.height ≤ 0 := by
          have e : bm.ih.height = -(ph : Int) := by rw [c9]; exact hneg
          rw [e]; omega
        refine ⟨SL, hb8, hw32, hht, ?_, ?_, ?_, hv0⟩
        · show (pal.map Color.swapRB).length = 256
          rw [List.length_map, P, hnp]
        · rw [← s1.1]; exact G2.1
        · show xs.length = rest.length + (1096 + px.length)
          have L2 : r2.length = r1.length := by rw [e2]
          have L9 : r9.length = r8.length := by rw [e9]
          have L13 : r13.length = r12.length := by rw [e13]
          have L15 : r15.length = r14.length := by rw [e15]
          have L18 : r18.length = r17.length := by rw [e18]
          have Lr : rest.length = r18.length - bm.npix := by rw [er, t2, List.length_drop]
          rw [hnp] at Pc
          have q1 := s1.2; have q3 := s3.2; have q4 := u4.2.1; have q5 := u5.2.1; have q6 := u6.2.1; have q7 := u7.2.1
          have q8 := u8.2.1; have q10 := s10.2; have q11 := s11.2; have q12 := u12.2.1; have q14 := s14.2; have q17 := s17.2
          clear hh a1 a2 a3 a4 a5 a6 a7 a8 a9 a10 a11 a12 a13 a14 a15 a16 a17 a18 a19 hs SL hv
          omega
      · cases hv

/-- the custom reader never reaches an undefined operation -/
theorem custom_no_fault {xs : Bytes} {g : Fault} {rest : Bytes} : Rd.custom xs ≠ .ok (.fault g, rest) := by
  intro hh
  unfold Rd.custom at hh
  obtain ⟨sig, r1, a1, hh⟩ := bind_ok.mp hh
  obtain ⟨_, r2, a2, hh⟩ := bind_ok.mp hh
  obtain ⟨head, r3, a3, hh⟩ := bind_ok.mp hh
  obtain ⟨tagCount, r4, a4, hh⟩ := bind_ok.mp hh
  obtain ⟨pw, r5, a5, hh⟩ := bind_ok.mp hh
  obtain ⟨ph, r6, a6, hh⟩ := bind_ok.mp hh
  obtain ⟨bd, r7, a7, hh⟩ := bind_ok.mp hh
  obtain ⟨fl, r8, a8, hh⟩ := bind_ok.mp hh
  obtain ⟨_, r9, a9, hh⟩ := bind_ok.mp hh
  obtain ⟨ppal, r10, a10, hh⟩ := bind_ok.mp hh
  obtain ⟨phead, r11, a11, hh⟩ := bind_ok.mp hh
  obtain ⟨ptc, r12, a12, hh⟩ := bind_ok.mp hh
  obtain ⟨_, r13, a13, hh⟩ := bind_ok.mp hh
  obtain ⟨pdata, r14, a14, hh⟩ := bind_ok.mp hh
  obtain ⟨_, r15, a15, hh⟩ := bind_ok.mp hh
  cases hs : createShape (bd % W16) pw (Op2.i32 (((W32 - 1) * ph) % W32)) with
  | fault g' => exact createShape_no_fault _ _ _ _ hs
  | err e => simp only [hs] at hh; exact (fail_ok.mp hh).elim
  | ok bm =>
    simp only [hs] at hh
    obtain ⟨pal, r16, a16, hh⟩ := bind_ok.mp hh
    obtain ⟨xdata, r17, a17, hh⟩ := bind_ok.mp hh
    obtain ⟨_, r18, a18, hh⟩ := bind_ok.mp hh
    obtain ⟨px, r19, a19, hh⟩ := bind_ok.mp hh
    cases hv : validateTs (swapRedAndBlue { bh := bm.bh, ih := bm.ih, palette := pal, pixels := px }) with
    | fault g' => unfold validateTs at hv; split at hv <;> cases hv
    | err e => simp only [hv] at hh; exact (fail_ok.mp hh).elim
    | ok u => simp only [hv] at hh; have := pure_ok.mp hh; injection this with e _; injection e

theorem local_sectionHeader : Local Rd.sectionHeader := by
  unfold Rd.sectionHeader
  exact local_bind (local_take 4) fun _ => local_bind local_u32 fun _ => local_pure _

theorem local_custom : Local Rd.custom := by
  unfold Rd.custom
  refine local_bind local_sectionHeader fun _ => local_bind (local_guard _ _) fun _ =>
    local_bind local_sectionHeader fun _ => local_bind local_u32 fun _ => local_bind local_u32 fun pw => local_bind local_u32 fun ph =>
    local_bind local_u32 fun bd => local_bind local_u32 fun _ => local_bind (local_guard _ _) fun _ =>
    local_bind local_sectionHeader fun _ => local_bind local_sectionHeader fun _ => local_bind local_u32 fun _ =>
    local_bind (local_guard _ _) fun _ => local_bind local_sectionHeader fun _ => local_bind (local_guard _ _) fun _ => ?_
  cases createShape (bd % W16) pw (Op2.i32 (((W32 - 1) * ph) % W32)) with
  | fault g => exact local_pure _
  | err e => exact local_fail _
  | ok bm =>
    refine local_bind (local_many local_color _) fun pal => local_bind local_sectionHeader fun _ =>
      local_bind (local_guard _ _) fun _ => local_bind (local_take _) fun px => ?_
    dsimp only
    cases validateTs (swapRedAndBlue { bh := bm.bh, ih := bm.ih, palette := pal, pixels := px }) with
    | fault g => exact local_pure _
    | err e => exact local_fail _
    | ok u => exact local_pure _

/-! ### the detector -/

/-- `PeekIsCustomTileset` on a `MemoryReader` in a legal state: the answer is whether the next four bytes are the
    signature (an error when fewer than four remain) and the reader is exactly as before -/
theorem peekIsCustom_eval (s : Stream.MemR) (hi : s.Inv) :
    peekIsCustom s =
      (if s.pos + 4 ≤ s.data.length then .ok (decide ((s.data.drop s.pos).take 4 = tagPBMP)) else .error .bounds, s) := by
  obtain ⟨h1, h2⟩ := hi
  unfold peekIsCustom Stream.MemR.peek Stream.MemR.read
  have e1 : u64 (W64 + s.data.length - s.pos) = s.data.length - s.pos := by unfold u64 W64 at *; omega
  rw [e1]
  by_cases h : s.pos + 4 ≤ s.data.length
  · rw [if_neg (by omega), if_pos h]
    simp only
    unfold Stream.MemR.back
    have e2 : u64 (s.pos + 4) = s.pos + 4 := by unfold u64 W64 at *; omega
    simp only [e2]
    rw [if_neg (by omega)]
    have e3 : u64 (W64 + (s.pos + 4) - 4) = s.pos := by unfold u64 W64 at *; omega
    simp only [e3]
    rfl
  · rw [if_pos (by omega), if_neg h]

end Op2.Tileset
