import Op2Proofs.Bmp.Rows
/-!
# The public operations on an object the reader returned (`Loaded`): none faults; explicit results
-/
namespace Op2.Bmp
open Op2

namespace Loaded
variable {f : Bmp}

theorem height_ne (L : Loaded f) : f.ih.height ≠ I32_MIN := L.valid.2.2.2.2.1
theorem width_nonneg (L : Loaded f) : 0 ≤ f.ih.width := L.valid.2.2.2.1
theorem bits (L : Loaded f) : f.ih.bitCount = 1 ∨ f.ih.bitCount = 4 ∨ f.ih.bitCount = 8 := valid_bits L.valid
theorem bits_le (L : Loaded f) : f.ih.bitCount ≤ 8 := L.valid.2.2.2.2.2.1

theorem abs (L : Loaded f) : absI32 f.ih.height = .ok f.ih.height.natAbs := by
  unfold absI32; rw [if_neg L.height_ne]

theorem neg (L : Loaded f) : negI32 f.ih.height = .ok (-f.ih.height) := by
  unfold negI32; rw [if_neg L.height_ne]

theorem nowrap (L : Loaded f) : pitch f.ih.bitCount f.ih.width * f.ih.height.natAbs < W64 := by
  have := L.npix; have := L.cap; unfold allocCap W64 at *; omega

theorem verifyPixelSize_ok (L : Loaded f) : verifyPixelSize f.ih.bitCount f.ih.width f.ih.height f.pixels.length = .ok () := by
  unfold verifyPixelSize; rw [L.abs]
  simp only
  rw [if_pos (by rw [Nat.mod_eq_of_lt L.nowrap]; exact L.npix)]

theorem palette_le (L : Loaded f) : f.palette.length ≤ 2 ^ f.ih.bitCount := by
  rw [L.npal]; unfold Rd.paletteCount
  have := L.valid.2.2.2.2.2.2.1
  split <;> omega

theorem validate_ok (L : Loaded f) : validate f = .ok () := by
  unfold validate
  rw [if_neg (by simp [L.sig]), if_neg (by simp [L.valid]), if_neg (by simp [L.bits_le, L.palette_le])]
  exact L.verifyPixelSize_ok

theorem verifyPalette_ok (L : Loaded f) : verifyPalette f = .ok () := by
  unfold verifyPalette; rw [if_pos ⟨L.bits_le, L.palette_le⟩]

theorem absoluteHeight_ok (L : Loaded f) : absoluteHeight f = .ok f.ih.height.natAbs := by
  unfold absoluteHeight; rw [L.abs]

theorem create_ok (L : Loaded f) :
    ImageHeader.create f.ih.width f.ih.height f.ih.bitCount =
      .ok { headerSize := sizeImageHeader, width := f.ih.width, height := f.ih.height, planes := 1, bitCount := f.ih.bitCount,
            compression := 0, imageSize := 0, xRes := 0, yRes := 0, used := 0, important := 0 } := by
  unfold ImageHeader.create
  rw [if_pos ⟨L.valid.2.2.1, L.width_nonneg, L.height_ne⟩]

theorem fullPalette_length (L : Loaded f) : (fullPalette f.ih.bitCount f.palette).length = 2 ^ f.ih.bitCount := by
  unfold fullPalette; have := L.palette_le; simp; omega

theorem pow_bits_le (L : Loaded f) : 2 ^ f.ih.bitCount ≤ 256 := by
  rcases L.bits with e | e | e <;> rw [e] <;> decide

/-- the bytes `WriteIndexed` produces for a loaded bitmap -/
def written (f : Bmp) : Bytes :=
  let bits := f.ih.bitCount
  let off := sizeBmpHeader + sizeImageHeader + 2 ^ bits * 4
  (BmpHeader.create (off + f.pixels.length) off).enc ++
  ({ headerSize := sizeImageHeader, width := f.ih.width, height := f.ih.height, planes := 1, bitCount := bits,
     compression := 0, imageSize := 0, xRes := 0, yRes := 0, used := 0, important := 0 } : ImageHeader).enc ++
  encPalette (fullPalette bits f.palette) ++
  ((storedRows f.pixels (pitch bits f.ih.width) f.ih.height.natAbs).map fun r =>
      r.take (pixByteWidth bits f.ih.width) ++ zeros (pitch bits f.ih.width - pixByteWidth bits f.ih.width)).flatten

theorem write_ok (L : Loaded f) : write f = .ok (written f) := by
  unfold write
  simp only
  rw [if_neg (by simp [L.bits_le]), if_neg (by simp [L.palette_le]), L.verifyPixelSize_ok]
  simp only
  rw [L.abs]
  simp only
  rw [Nat.mod_eq_of_lt L.nowrap, L.fullPalette_length, ← L.npix]
  have hsz : sizeBmpHeader + sizeImageHeader + 2 ^ f.ih.bitCount * 4 + f.pixels.length < W32 := by
    have := L.pow_bits_le; have := L.cap; unfold sizeBmpHeader sizeImageHeader allocCap W32 at *; omega
  rw [Nat.mod_eq_of_lt (by unfold W32 W64 at *; omega), if_neg (by unfold W32 at *; omega), L.create_ok]
  simp only
  rw [writeRows_ok _ _ (pixByteWidth_le_pitch _ _) _ 0 f.pixels (by rw [L.npix]; simp [Nat.mul_comm]) (by
        have := L.cap; unfold allocCap W64 at *; omega)]
  simp [written]

theorem invertRows_eq (L : Loaded f) :
    invertRows f.pixels (pitch f.ih.bitCount f.ih.width) f.ih.height.natAbs =
      .ok (storedRows f.pixels (pitch f.ih.bitCount f.ih.width) f.ih.height.natAbs).reverse.flatten :=
  invertRows_ok _ _ _ (by rw [L.npix, Nat.mul_comm]; exact Nat.le_refl _)

theorem invert_ok (L : Loaded f) :
    invert f = .ok { f with ih := { f.ih with height := -f.ih.height },
                            pixels := (storedRows f.pixels (pitch f.ih.bitCount f.ih.width) f.ih.height.natAbs).reverse.flatten } := by
  unfold invert
  rw [L.neg]
  simp only
  have : absI32 (-f.ih.height) = .ok f.ih.height.natAbs := by
    unfold absI32
    have := L.ihRange.height
    rw [if_neg (by unfold I32_MIN; omega)]
    simp
  rw [this]
  simp only
  rw [L.invertRows_eq]

end Loaded
end Op2.Bmp
