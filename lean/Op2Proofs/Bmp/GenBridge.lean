import Op2Proofs.Bmp.Arith
import Op2Model.Gen.Formulas
import Op2Proofs.GenTactics
/-!
# Tie of the model's row-size formulas to the formulas translated from `ImageHeader::CalcPixelByteWidth / CalculatePitch`
(only `Props/C08` depends on this file, so a rewritten but equivalent formula cannot disturb other properties)
-/
namespace Op2.Bmp
open Op2

/-! ### the translated formulas -/
open Op2.Gen.Formulas Op2.GenTactics

theorem gen_CalcPixelByteWidth_eq (bits : Nat) (w : Int) (hb : bits < 65536) :
    gen_CalcPixelByteWidth_translated = true → gen_CalcPixelByteWidth (bits : Int) w = (pixByteWidth bits w : Nat) := by
  gen_guard =>
  first
  | -- the source as pinned
    (unfold gen_CalcPixelByteWidth pixByteWidth toU64 castU W64
     have e8 : ((8 : Int) % 2 ^ 64) = 8 := by decide
     have e1 : ((1 : Int) % 2 ^ 64) = 1 := by decide
     simp only [e8, e1]
     have eb : ((bits : Int) % 2 ^ 64) = (bits : Int) := by omega
     rw [eb]
     have e7 : ((8 : Int) - 1) % 2 ^ 64 = 7 := by decide
     rw [e7]
     have hw : (w % 2 ^ 64) = ((w % 18446744073709551616).toNat : Int) := by omega
     rw [hw]
     generalize (w % 18446744073709551616).toNat = u
     rw [← Int.natCast_mul]
     generalize u * bits = m
     omega)
  | -- the same value written with other literals / a shift: only the product of the two converted arguments is non-linear
    (unfold gen_CalcPixelByteWidth pixByteWidth toU64
     simp only [castU, castS, W64, Int.reducePow, Int.reduceMod, Int.reduceSub, Int.reduceNeg, Int.reduceAdd, Int.reduceToNat,
                Nat.reducePow]
     have eb : ((bits : Int) % 18446744073709551616) = (bits : Int) := by omega
     have hw : (w % 18446744073709551616) = ((w % 18446744073709551616).toNat : Int) := by omega
     rw [eb, hw]
     generalize (w % 18446744073709551616).toNat = u
     rw [← Int.natCast_mul]
     generalize u * bits = m
     omega)

theorem gen_CalculatePitch_eq (bits : Nat) (w : Int) (hb : bits < 65536) :
    (gen_CalcPixelByteWidth_translated && gen_CalculatePitch_translated) = true →
    gen_CalculatePitch (bits : Int) w = (pitch bits w : Nat) := by
  gen_guard =>
  have hw' := gen_CalcPixelByteWidth_eq bits w hb (by decide)
  first
  | -- the source as pinned: `(bytesOfPixelsPerRow + 3) & ~3`
    (unfold gen_CalculatePitch
     simp only [hw']
     have em : (castU 64 (castS 32 (-(3 : Int) - 1))).toNat = 2 ^ 64 - 4 := by decide
     have e3 : castU 64 (3 : Int) = 3 := by decide
     rw [em, e3]
     unfold pitch
     generalize pixByteWidth bits w = q
     have : (castU 64 ((q : Int) + 3)).toNat = (q + 3) % W64 := by unfold castU W64; omega
     rw [this, and_mask4 _ (by unfold W64; omega)]
     rfl)
  | -- any rewriting of the rounding in plain `size_t` arithmetic (`/`, `*`, `%`, `+`, `-` with literals)
    (unfold gen_CalculatePitch pitch
     simp only [hw']
     generalize pixByteWidth bits w = q
     simp only [castU, castS, W64, Int.reducePow, Int.reduceMod, Int.reduceSub, Int.reduceNeg, Int.reduceAdd]
     omega)

end Op2.Bmp
