import Op2Proofs.Bmp.Ops
/-!
# Reading back what `WriteIndexed` wrote

`Reads` lemmas for every sub-parser of the BMP reader against the matching serialiser, and the core round trip:
the reader run on `Loaded.written f` returns `normalize f` (default header fields, full-length palette, zeroed row padding).
-/
namespace Op2.Bmp
open Op2 Op2.Parser

/-! ## field codecs -/

theorem toU32_lt (x : Int) : toU32 x < W32 := by
  unfold toU32 W32; omega

theorem i32_toU32 (x : Int) (h : -2147483648 ≤ x ∧ x < 2147483648) : Op2.i32 (toU32 x) = x := by
  unfold Op2.i32 toU32 W32
  split <;> omega

theorem reads_guard (c : Bool) (e : Err) (h : c = true) : Reads (guard c e) [] () := by
  subst h; exact reads_pure ()

theorem reads_i32 (x : Int) (h : -2147483648 ≤ x ∧ x < 2147483648) : Reads Rd.i32 (encI32 x) x := by
  have := reads_map Op2.i32 (reads_u32 (toU32 x) (by have := toU32_lt x; unfold W32 at this; exact this))
  rw [i32_toU32 x h] at this
  exact this

theorem reads_color (c : Color) : Reads Rd.color c.enc c := by
  have := reads_map Color.ofBytes (reads_take' c.enc 4 rfl)
  have e : Color.ofBytes c.enc = c := by cases c; rfl
  rw [e] at this; exact this

theorem reads_palette (p : List Color) : Reads (many Rd.color p.length) (encPalette p) p :=
  reads_many reads_color p

/-! ## headers -/

theorem reads_bmpHeader (len : Nat) (bh : BmpHeader) (hr : bh.InRange) (hs : bh.sig = fileSignature) (hl : ¬ bh.size < len) :
    Reads (Rd.bmpHeader len) bh.enc bh := by
  obtain ⟨sig, size, r1, r2, off⟩ := bh
  obtain ⟨h1, h2, h3, h4, h5⟩ := hr
  simp only at h1 h2 h3 h4 h5 hs hl
  unfold W32 at h2 h5; unfold W16 at h3 h4
  have := reads_bind (f := fun sig' => Parser.bind Parser.u32 fun size => Parser.bind Parser.u16 fun r1 =>
      Parser.bind Parser.u16 fun r2 => Parser.bind Parser.u32 fun off =>
      Parser.bind (guard (decide (sig' = fileSignature))) fun _ => Parser.bind (guard (decide (¬ size < len))) fun _ =>
      Parser.pure ({ sig := sig', size := size, reserved1 := r1, reserved2 := r2, pixelOffset := off } : BmpHeader))
    (reads_take' sig 2 h1)
    (reads_bind (f := fun size => Parser.bind Parser.u16 fun r1 =>
      Parser.bind Parser.u16 fun r2 => Parser.bind Parser.u32 fun off =>
      Parser.bind (guard (decide (sig = fileSignature))) fun _ => Parser.bind (guard (decide (¬ size < len))) fun _ =>
      Parser.pure ({ sig := sig, size := size, reserved1 := r1, reserved2 := r2, pixelOffset := off } : BmpHeader))
    (reads_u32 size h2)
    (reads_bind (f := fun r1 =>
      Parser.bind Parser.u16 fun r2 => Parser.bind Parser.u32 fun off =>
      Parser.bind (guard (decide (sig = fileSignature))) fun _ => Parser.bind (guard (decide (¬ size < len))) fun _ =>
      Parser.pure ({ sig := sig, size := size, reserved1 := r1, reserved2 := r2, pixelOffset := off } : BmpHeader))
    (reads_u16 r1 h3)
    (reads_bind (f := fun r2 => Parser.bind Parser.u32 fun off =>
      Parser.bind (guard (decide (sig = fileSignature))) fun _ => Parser.bind (guard (decide (¬ size < len))) fun _ =>
      Parser.pure ({ sig := sig, size := size, reserved1 := r1, reserved2 := r2, pixelOffset := off } : BmpHeader))
    (reads_u16 r2 h4)
    (reads_bind (f := fun off =>
      Parser.bind (guard (decide (sig = fileSignature))) fun _ => Parser.bind (guard (decide (¬ size < len))) fun _ =>
      Parser.pure ({ sig := sig, size := size, reserved1 := r1, reserved2 := r2, pixelOffset := off } : BmpHeader))
    (reads_u32 off h5)
    (reads_bind (f := fun _ => Parser.bind (guard (decide (¬ size < len))) fun _ =>
      Parser.pure ({ sig := sig, size := size, reserved1 := r1, reserved2 := r2, pixelOffset := off } : BmpHeader))
    (reads_guard _ _ (decide_eq_true hs))
    (reads_bind (f := fun _ =>
      Parser.pure ({ sig := sig, size := size, reserved1 := r1, reserved2 := r2, pixelOffset := off } : BmpHeader))
    (reads_guard _ _ (decide_eq_true hl))
    (reads_pure _)))))))
  simpa [Rd.bmpHeader, BmpHeader.enc] using this

theorem bind_reads {α β : Type} {p : Parser α} {s : Bytes} {a : α} (h : Reads p s a) (f : α → Parser β) (rest : Bytes) :
    Parser.bind p f (s ++ rest) = f a rest := by
  unfold Parser.bind; rw [h rest]

theorem reads_imageHeaderRaw (ih : ImageHeader) (hr : ih.InRange) : Reads Rd.imageHeaderRaw ih.enc ih := by
  obtain ⟨a1, a2, a3, a4, a5, a6, a7, a8, a9, a10, a11⟩ := ih
  obtain ⟨h1, h2, h3, h4, h5, h6, h7, h8, h9, h10, h11⟩ := hr
  simp only at h1 h2 h3 h4 h5 h6 h7 h8 h9 h10 h11
  unfold W32 at h1 h6 h7 h8 h9 h10 h11; unfold W16 at h4 h5
  intro rest
  unfold Rd.imageHeaderRaw ImageHeader.enc
  simp only [List.append_assoc]
  rw [bind_reads (reads_u32 _ h1), bind_reads (reads_i32 _ h2), bind_reads (reads_i32 _ h3), bind_reads (reads_u16 _ h4),
      bind_reads (reads_u16 _ h5), bind_reads (reads_u32 _ h6), bind_reads (reads_u32 _ h7), bind_reads (reads_u32 _ h8),
      bind_reads (reads_u32 _ h9), bind_reads (reads_u32 _ h10), bind_reads (reads_u32 _ h11)]
  rfl

theorem reads_imageHeader (ih : ImageHeader) (hr : ih.InRange) (hv : ih.Valid) : Reads Rd.imageHeader ih.enc ih := by
  intro rest
  unfold Rd.imageHeader
  rw [bind_reads (reads_imageHeaderRaw ih hr)]
  have h8 : ih.bitCount ≤ 8 := hv.2.2.2.2.2.1
  rw [decide_eq_true hv, decide_eq_true h8]
  rfl

/-! ## the whole file -/

/-- the serialisation of an object: headers, palette, pixel array as they are -/
def encode (g : Bmp) : Bytes := g.bh.enc ++ g.ih.enc ++ encPalette g.palette ++ g.pixels

/-- the converse of `bmp_ok`: an object with the reader's invariants is read back from its serialisation -/
theorem reads_bmp {g : Bmp} (L : Loaded g) (len : Nat) (hl : len ≤ g.bh.size) : Reads (Rd.bmp len) (encode g) (.ok g) := by
  intro rest
  obtain ⟨bh, ih, pal, px⟩ := g
  have hnp : pal.length = Rd.paletteCount ih := L.npal
  have hpx : Rd.pixelBytes bh = px.length := L.pixSize
  have hn : px.length = pitch ih.bitCount ih.width * ih.height.natAbs := L.npix
  have hw : pitch ih.bitCount ih.width * ih.height.natAbs < W64 := L.nowrap
  have hc : px.length ≤ allocCap := L.cap
  have ha : absI32 ih.height = .ok ih.height.natAbs := L.abs
  unfold encode Rd.bmp
  simp only [List.append_assoc]
  rw [bind_reads (reads_bmpHeader len bh L.bhRange L.sig (by show ¬ bh.size < len; simp at hl; omega)),
      bind_reads (reads_imageHeader ih L.ihRange L.valid), ← hnp, bind_reads (reads_palette pal)]
  simp only [ha]
  rw [decide_eq_true (by rw [hpx, hn, Nat.mod_eq_of_lt hw] : Rd.pixelBytes bh = pitch ih.bitCount ih.width * ih.height.natAbs % W64),
      decide_eq_true (by rw [hpx]; exact hc : Rd.pixelBytes bh ≤ allocCap)]
  rw [hpx]
  show Parser.bind (take px.length) _ (px ++ rest) = _
  rw [bind_reads (reads_take px)]
  rfl

theorem BmpHeader.enc_length (b : BmpHeader) (hs : b.sig.length = 2) : b.enc.length = 14 := by
  unfold BmpHeader.enc
  simp [encU16, encU32, hs]

theorem ImageHeader.enc_length (h : ImageHeader) : h.enc.length = 40 := by
  unfold ImageHeader.enc encI32
  simp [encU16, encU32]

theorem encPalette_length : ∀ (p : List Color), (encPalette p).length = 4 * p.length
  | [] => rfl
  | c :: p => by
    have := encPalette_length p
    unfold encPalette at *
    simp only [List.flatMap_cons, List.length_append, this, List.length_cons]
    simp [Color.enc]; omega

theorem encode_length {g : Bmp} (hs : g.bh.sig.length = 2) :
    (encode g).length = 54 + 4 * g.palette.length + g.pixels.length := by
  unfold encode
  simp only [List.length_append, BmpHeader.enc_length _ hs, ImageHeader.enc_length, encPalette_length]

/-- an object whose header records the exact file size is read back from its serialisation -/
theorem read_encode {g : Bmp} (L : Loaded g) (hsz : 54 + 4 * g.palette.length + g.pixels.length ≤ g.bh.size) :
    Bmp.read (encode g) = .ok g := by
  unfold Bmp.read runOut
  have := reads_bmp L (encode g).length (by rw [encode_length L.bhRange.sig]; exact hsz) []
  rw [List.append_nil] at this
  rw [this]

/-! ## padded rows -/

/-- a row cut to its meaningful bytes and padded with zeros -/
def padRow (p bpr : Nat) (r : Bytes) : Bytes := r.take bpr ++ zeros (p - bpr)

theorem padRow_length (p bpr : Nat) (hb : bpr ≤ p) (r : Bytes) (hr : r.length = p) : (padRow p bpr r).length = p := by
  unfold padRow zeros
  simp only [List.length_append, List.length_take, List.length_replicate]
  omega

theorem flatten_length_of_rows (p : Nat) : ∀ (R : List Bytes), (∀ r ∈ R, r.length = p) → R.flatten.length = R.length * p
  | [], _ => by simp
  | r :: R, h => by
    have := flatten_length_of_rows p R (fun x hx => h x (by simp [hx]))
    simp only [List.flatten_cons, List.length_append, List.length_cons, this, h r (by simp), Nat.add_mul]
    omega

theorem padded_rows (p bpr n : Nat) (px : Bytes) (hb : bpr ≤ p) (h : n * p ≤ px.length) :
    ∀ r ∈ (storedRows px p n).map (padRow p bpr), r.length = p := by
  intro r hr
  obtain ⟨r0, h0, e⟩ := List.mem_map.mp hr
  rw [← e]
  exact padRow_length p bpr hb r0 (storedRows_row_length p n px h r0 h0)

theorem padded_length (p bpr n : Nat) (px : Bytes) (hb : bpr ≤ p) (h : n * p ≤ px.length) :
    ((storedRows px p n).map (padRow p bpr)).flatten.length = n * p := by
  rw [flatten_length_of_rows p _ (padded_rows p bpr n px hb h), List.length_map, storedRows_length]

/-- cutting the padded pixel array into rows gives the padded rows -/
theorem storedRows_padded (p bpr n : Nat) (px : Bytes) (hb : bpr ≤ p) (h : n * p ≤ px.length) :
    storedRows ((storedRows px p n).map (padRow p bpr)).flatten p n = (storedRows px p n).map (padRow p bpr) := by
  have := storedRows_of_flatten p _ (padded_rows p bpr n px hb h)
  rw [List.length_map, storedRows_length] at this
  exact this

/-! ## what comes back after `write` -/

/-- the object `ReadIndexed` returns for the bytes `WriteIndexed` produced from `f`: default header fields, exact sizes,
    the palette filled up to `2^bits` entries, every row's padding zeroed -/
def normalize (f : Bmp) : Bmp :=
  let bits := f.ih.bitCount
  let off := sizeBmpHeader + sizeImageHeader + 2 ^ bits * 4
  let p := pitch bits f.ih.width
  let bpr := pixByteWidth bits f.ih.width
  { bh := BmpHeader.create (off + f.pixels.length) off,
    ih := { headerSize := sizeImageHeader, width := f.ih.width, height := f.ih.height, planes := 1, bitCount := bits,
            compression := 0, imageSize := 0, xRes := 0, yRes := 0, used := 0, important := 0 },
    palette := fullPalette bits f.palette,
    pixels := ((storedRows f.pixels p f.ih.height.natAbs).map fun r => r.take bpr ++ zeros (p - bpr)).flatten }

theorem written_eq (f : Bmp) : Loaded.written f = encode (normalize f) := rfl

theorem normalize_pixels_length {f : Bmp} (L : Loaded f) : (normalize f).pixels.length = f.pixels.length := by
  have := padded_length (pitch f.ih.bitCount f.ih.width) (pixByteWidth f.ih.bitCount f.ih.width) f.ih.height.natAbs f.pixels
    (pixByteWidth_le_pitch _ _) (by rw [L.npix, Nat.mul_comm]; exact Nat.le_refl _)
  rw [L.npix, Nat.mul_comm]
  exact this

theorem normalize_loaded {f : Bmp} (L : Loaded f) : Loaded (normalize f) := by
  have hpl := normalize_pixels_length L
  have hpow := L.pow_bits_le
  have hcap := L.cap
  have hr := L.ihRange
  obtain ⟨v1, v2, v3, v4, v5, v6, v7, v8⟩ := L.valid
  refine ⟨⟨rfl, ?_, by show 0 < W16; decide, by show 0 < W16; decide, ?_⟩,
          ⟨by show sizeImageHeader < W32; decide, hr.width, hr.height, by show 1 < W16; decide, hr.bitCount,
           by show 0 < W32; decide, by show 0 < W32; decide, by show 0 < W32; decide, by show 0 < W32; decide,
           by show 0 < W32; decide, by show 0 < W32; decide⟩,
          rfl, ⟨rfl, rfl, v3, v4, v5, v6, Nat.zero_le _, Nat.zero_le _⟩, ?_, ?_, ?_, ?_⟩
  · show sizeBmpHeader + sizeImageHeader + 2 ^ f.ih.bitCount * 4 + f.pixels.length < W32
    unfold sizeBmpHeader sizeImageHeader allocCap W32 at *; omega
  · show sizeBmpHeader + sizeImageHeader + 2 ^ f.ih.bitCount * 4 < W32
    unfold sizeBmpHeader sizeImageHeader W32 at *; omega
  · show (fullPalette f.ih.bitCount f.palette).length = 2 ^ f.ih.bitCount
    exact L.fullPalette_length
  · rw [hpl]; exact L.npix
  · rw [hpl]
    show (W32 + (sizeBmpHeader + sizeImageHeader + 2 ^ f.ih.bitCount * 4 + f.pixels.length)
          - (sizeBmpHeader + sizeImageHeader + 2 ^ f.ih.bitCount * 4)) % W32 = f.pixels.length
    unfold sizeBmpHeader sizeImageHeader allocCap W32 at *; omega
  · rw [hpl]; exact hcap

/-- the core round trip: the reader run on the writer's output returns the normalised object -/
theorem read_written {f : Bmp} (L : Loaded f) : Bmp.read (Loaded.written f) = .ok (normalize f) := by
  rw [written_eq]
  apply read_encode (normalize_loaded L)
  rw [normalize_pixels_length L]
  show 54 + 4 * (fullPalette f.ih.bitCount f.palette).length + f.pixels.length
        ≤ sizeBmpHeader + sizeImageHeader + 2 ^ f.ih.bitCount * 4 + f.pixels.length
  rw [L.fullPalette_length]
  unfold sizeBmpHeader sizeImageHeader; omega

/-! ## objects that are already in normal form -/

/-- header fields as `CreateIndexed` / `WriteIndexed` set them, exact sizes, full-length palette -/
structure Canonical (f : Bmp) : Prop where
  bh : f.bh = BmpHeader.create (sizeBmpHeader + sizeImageHeader + 2 ^ f.ih.bitCount * 4 + f.pixels.length)
                (sizeBmpHeader + sizeImageHeader + 2 ^ f.ih.bitCount * 4)
  ih : f.ih = { headerSize := sizeImageHeader, width := f.ih.width, height := f.ih.height, planes := 1,
                bitCount := f.ih.bitCount, compression := 0, imageSize := 0, xRes := 0, yRes := 0, used := 0, important := 0 }
  pal : f.palette.length = 2 ^ f.ih.bitCount

theorem padRow_clean (p bpr : Nat) (r : Bytes) (h : r.drop bpr = zeros (p - bpr)) : padRow p bpr r = r := by
  unfold padRow; rw [← h]; exact List.take_append_drop bpr r

theorem map_id_of_forall {α : Type} (g : α → α) : ∀ (l : List α), (∀ x ∈ l, g x = x) → l.map g = l
  | [], _ => rfl
  | a :: l, h => by
    rw [List.map_cons, h a (by simp), map_id_of_forall g l (fun x hx => h x (by simp [hx]))]

theorem normalize_eq {f : Bmp} (L : Loaded f) (C : Canonical f)
    (hp : ∀ r ∈ storedRows f.pixels (pitch f.ih.bitCount f.ih.width) f.ih.height.natAbs,
      r.drop (pixByteWidth f.ih.bitCount f.ih.width) = zeros (pitch f.ih.bitCount f.ih.width - pixByteWidth f.ih.bitCount f.ih.width)) :
    normalize f = f := by
  obtain ⟨bh, ih, pal, px⟩ := f
  have h1 := C.bh; have h2 := C.ih; have h3 := C.pal
  simp only at h1 h2 h3 hp
  have hpx : ((storedRows px (pitch ih.bitCount ih.width) ih.height.natAbs).map
      (padRow (pitch ih.bitCount ih.width) (pixByteWidth ih.bitCount ih.width))).flatten = px := by
    rw [map_id_of_forall _ _ (fun r hr => padRow_clean _ _ r (hp r hr))]
    exact storedRows_flatten _ _ _ (by rw [Nat.mul_comm]; exact L.npix)
  have hpal : fullPalette ih.bitCount pal = pal := by
    unfold fullPalette; rw [h3]; simp
  show Bmp.mk _ _ (fullPalette ih.bitCount pal)
      ((storedRows px (pitch ih.bitCount ih.width) ih.height.natAbs).map
        (padRow (pitch ih.bitCount ih.width) (pixByteWidth ih.bitCount ih.width))).flatten = _
  rw [hpx, hpal, ← h1, ← h2]

/-- a loaded object in normal form with clean padding survives write-then-read unchanged -/
theorem write_read_id {f : Bmp} (L : Loaded f) (C : Canonical f)
    (hp : ∀ r ∈ storedRows f.pixels (pitch f.ih.bitCount f.ih.width) f.ih.height.natAbs,
      r.drop (pixByteWidth f.ih.bitCount f.ih.width) = zeros (pitch f.ih.bitCount f.ih.width - pixByteWidth f.ih.bitCount f.ih.width)) :
    ∃ wr, write f = .ok wr ∧ Bmp.read wr = .ok f := by
  refine ⟨Loaded.written f, L.write_ok, ?_⟩
  rw [read_written L, normalize_eq L C hp]

/-! ## rows of an all-zero array -/

theorem storedRows_mem (p : Nat) : ∀ (n : Nat) (px : Bytes), ∀ r ∈ storedRows px p n, ∀ x ∈ r, x ∈ px
  | 0, px, r, hr, _, _ => by simp [storedRows] at hr
  | n + 1, px, r, hr, x, hx => by
    simp only [storedRows, List.mem_cons] at hr
    rcases hr with e | e
    · rw [e] at hx; exact List.mem_of_mem_take hx
    · exact List.mem_of_mem_drop (storedRows_mem p n (px.drop p) r e x hx)

theorem zeros_clean (p bpr n k : Nat) (h : n * p ≤ k) :
    ∀ r ∈ storedRows (zeros k) p n, r.drop bpr = zeros (p - bpr) := by
  intro r hr
  have hl : r.length = p := storedRows_row_length p n (zeros k) (by unfold zeros; simpa using h) r hr
  have hz : r = List.replicate p 0 := by
    apply List.eq_replicate_iff.mpr
    refine ⟨hl, ?_⟩
    intro x hx
    have := storedRows_mem p n (zeros k) r hr x hx
    unfold zeros at this
    exact (List.mem_replicate.mp this).2
  rw [hz]; unfold zeros; simp

/-! ## the factories -/

theorem createShape_ok {bits w : Nat} {h : Int} {s : Shape} (hs : createShape bits w h = .ok s) :
    bits ∈ validBitCounts ∧ 0 ≤ Op2.i32 w ∧ h ≠ I32_MIN ∧ bits ≤ 8 ∧
    s.npix = (pitch bits (Op2.i32 w) * h.natAbs) % W64 ∧ s.npix ≤ allocCap ∧
    sizeBmpHeader + sizeImageHeader + 2 ^ bits * 4 + s.npix ≤ W32 - 1 ∧
    s.bh = BmpHeader.create (sizeBmpHeader + sizeImageHeader + 2 ^ bits * 4 + s.npix) (sizeBmpHeader + sizeImageHeader + 2 ^ bits * 4) ∧
    s.ih = { headerSize := sizeImageHeader, width := Op2.i32 w, height := h, planes := 1, bitCount := bits, compression := 0,
             imageSize := 0, xRes := 0, yRes := 0, used := 0, important := 0 } ∧
    s.npal = 2 ^ bits := by
  unfold createShape ImageHeader.create at hs
  by_cases hc : bits ∈ validBitCounts ∧ 0 ≤ Op2.i32 w ∧ h ≠ I32_MIN
  · rw [if_pos hc] at hs
    simp only at hs
    by_cases h8 : bits ≤ 8
    · rw [if_neg (by simp [h8])] at hs
      have ha : absI32 h = .ok h.natAbs := by unfold absI32; rw [if_neg hc.2.2]
      simp only [ha] at hs
      by_cases hn : (pitch bits (Op2.i32 w) * h.natAbs) % W64 > allocCap
      · rw [if_pos hn] at hs; cases hs
      · rw [if_neg hn] at hs
        by_cases hz : sizeBmpHeader + sizeImageHeader + 2 ^ bits * 4 + (pitch bits (Op2.i32 w) * h.natAbs) % W64 > W32 - 1
        · rw [if_pos hz] at hs; cases hs
        · rw [if_neg hz] at hs
          injection hs with hs
          subst hs
          exact ⟨hc.1, hc.2.1, hc.2.2, h8, rfl, Nat.le_of_not_gt hn, Nat.le_of_not_gt hz, rfl, rfl, rfl⟩
    · rw [if_pos (by simp [h8])] at hs; cases hs
  · rw [if_neg hc] at hs; cases hs

/-- whatever vectors of the right sizes are put into a created shape, the object has the reader's invariants and is in
    normal form -/
theorem shape_loaded {bits w : Nat} {h : Int} {s : Shape} (hs : createShape bits w h = .ok s)
    (hh : -2147483648 ≤ h ∧ h < 2147483648) (pal : List Color) (px : Bytes)
    (hpal : pal.length = 2 ^ bits) (hpx : px.length = s.npix) :
    Loaded ⟨s.bh, s.ih, pal, px⟩ ∧ Canonical ⟨s.bh, s.ih, pal, px⟩ := by
  obtain ⟨c1, c2, c3, c4, c5, c6, c7, c8, c9, c10⟩ := createShape_ok hs
  obtain ⟨bh, ih, npal, npix⟩ := s
  simp only at c5 c6 c7 c8 c9 c10 hpx
  subst c8 c9
  have hb : bits = 1 ∨ bits = 4 ∨ bits = 8 := by simp [validBitCounts] at c1; omega
  have hpow : 2 ^ bits ≤ 256 := by rcases hb with e | e | e <;> rw [e] <;> decide
  have hwr := i32_range w
  have hV : ImageHeader.Valid (ImageHeader.mk sizeImageHeader (Op2.i32 w) h 1 bits 0 0 0 0 0 0) :=
    ⟨rfl, rfl, c1, c2, c3, c4, Nat.zero_le _, Nat.zero_le _⟩
  have hR : ImageHeader.InRange (ImageHeader.mk sizeImageHeader (Op2.i32 w) h 1 bits 0 0 0 0 0 0) :=
    ⟨by show sizeImageHeader < W32; decide, hwr, hh, by show 1 < W16; decide, Nat.lt_of_le_of_lt c4 (by decide),
     by show 0 < W32; decide, by show 0 < W32; decide, by show 0 < W32; decide, by show 0 < W32; decide,
     by show 0 < W32; decide, by show 0 < W32; decide⟩
  have pb := pitch_bound hV hR
  simp only at pb
  have hab : h.natAbs ≤ 2147483648 := by omega
  have nowrap : pitch bits (Op2.i32 w) * h.natAbs < W64 := by
    calc pitch bits (Op2.i32 w) * h.natAbs ≤ 2147483652 * 2147483648 := Nat.mul_le_mul pb hab
      _ < W64 := by unfold W64; omega
  rw [Nat.mod_eq_of_lt nowrap] at c5
  refine ⟨⟨⟨rfl, ?_, by show 0 < W16; decide, by show 0 < W16; decide, ?_⟩, hR, rfl, hV, ?_, ?_, ?_, ?_⟩, ⟨?_, rfl, hpal⟩⟩
  · show sizeBmpHeader + sizeImageHeader + 2 ^ bits * 4 + npix < W32
    unfold W32 at *; omega
  · show sizeBmpHeader + sizeImageHeader + 2 ^ bits * 4 < W32
    unfold W32 at *; omega
  · show pal.length = Rd.paletteCount _
    unfold Rd.paletteCount; rw [if_neg (by simp)]; exact hpal
  · show px.length = pitch bits (Op2.i32 w) * h.natAbs
    rw [hpx, c5]
  · show (W32 + (sizeBmpHeader + sizeImageHeader + 2 ^ bits * 4 + npix) - (sizeBmpHeader + sizeImageHeader + 2 ^ bits * 4)) % W32 = px.length
    rw [hpx]
    unfold allocCap at c6; unfold W32 at *; omega
  · show px.length ≤ allocCap
    rw [hpx]; exact c6
  · show BmpHeader.create _ _ = BmpHeader.create (sizeBmpHeader + sizeImageHeader + 2 ^ bits * 4 + px.length) _
    rw [hpx]

theorem create1_inv {bits w : Nat} {h : Int} {f : Bmp} (hc : create1 bits w h = .ok f) :
    ∃ s, createShape bits w h = .ok s ∧ f = ⟨s.bh, s.ih, List.replicate s.npal Color.black, zeros s.npix⟩ := by
  unfold create1 at hc
  cases hs : createShape bits w h with
  | ok s => simp only [hs] at hc; injection hc with hc; exact ⟨s, rfl, hc.symm⟩
  | err e => simp only [hs] at hc; cases hc
  | fault g => simp only [hs] at hc; cases hc

theorem create2_inv {bits w : Nat} {h : Int} {pal : List Color} {f : Bmp} (hc : create2 bits w h pal = .ok f) :
    ∃ s, createShape bits w h = .ok s ∧ pal.length ≤ 2 ^ bits ∧
      f = ⟨s.bh, s.ih, pal ++ (List.replicate s.npal Color.black).drop pal.length, zeros s.npix⟩ := by
  unfold create2 at hc
  by_cases h64 : 64 ≤ bits
  · rw [if_pos h64] at hc; cases hc
  · rw [if_neg h64] at hc
    by_cases hp : pal.length > 2 ^ bits
    · rw [if_pos hp] at hc; cases hc
    · rw [if_neg hp] at hc
      cases h1 : create1 bits w h with
      | ok f1 =>
        simp only [h1] at hc
        injection hc with hc
        obtain ⟨s, hs, e⟩ := create1_inv h1
        subst e
        exact ⟨s, hs, by omega, hc.symm⟩
      | err e => simp only [h1] at hc; cases hc
      | fault g => simp only [h1] at hc; cases hc

theorem create3_inv {bits w : Nat} {h : Int} {pal : List Color} {px : Bytes} {f : Bmp} (hc : create3 bits w h pal px = .ok f) :
    ∃ s, createShape bits w h = .ok s ∧ pal.length ≤ 2 ^ bits ∧
      f = ⟨s.bh, s.ih, pal ++ (List.replicate s.npal Color.black).drop pal.length, px⟩ ∧
      verifyPixelSize s.ih.bitCount s.ih.width s.ih.height px.length = .ok () := by
  unfold create3 at hc
  cases h2 : create2 bits w h pal with
  | ok f2 =>
    simp only [h2] at hc
    obtain ⟨s, hs, hp, e⟩ := create2_inv h2
    subst e
    simp only at hc
    cases hv : verifyPixelSize s.ih.bitCount s.ih.width s.ih.height px.length with
    | ok u => simp only [hv] at hc; injection hc with hc; exact ⟨s, hs, hp, hc.symm, hv⟩
    | err e => simp only [hv] at hc; cases hc
    | fault g => simp only [hv] at hc; cases hc
  | err e => simp only [h2] at hc; cases hc
  | fault g => simp only [h2] at hc; cases hc

theorem verify_npix {bits w : Nat} {h : Int} {s : Shape} (hs : createShape bits w h = .ok s) {n : Nat}
    (hv : verifyPixelSize s.ih.bitCount s.ih.width s.ih.height n = .ok ()) : n = s.npix := by
  obtain ⟨c1, c2, c3, c4, c5, c6, c7, c8, c9, c10⟩ := createShape_ok hs
  rw [c9] at hv
  simp only at hv
  unfold verifyPixelSize at hv
  have ha : absI32 h = .ok h.natAbs := by unfold absI32; rw [if_neg c3]
  simp only [ha] at hv
  by_cases e : n = (pitch bits (Op2.i32 w) * h.natAbs) % W64
  · rw [e, c5]
  · rw [if_neg e] at hv; cases hv

/-- a created shape filled with a full-length palette and a pixel array of the right size with clean padding survives
    write-then-read unchanged -/
theorem shape_rt {bits w : Nat} {h : Int} {s : Shape} (hs : createShape bits w h = .ok s)
    (hh : -2147483648 ≤ h ∧ h < 2147483648) (pal : List Color) (px : Bytes)
    (hpal : pal.length = 2 ^ bits) (hpx : px.length = s.npix)
    (hp : ∀ r ∈ storedRows px (pitch s.ih.bitCount s.ih.width) s.ih.height.natAbs,
      r.drop (pixByteWidth s.ih.bitCount s.ih.width) = zeros (pitch s.ih.bitCount s.ih.width - pixByteWidth s.ih.bitCount s.ih.width)) :
    ∃ wr, write ⟨s.bh, s.ih, pal, px⟩ = .ok wr ∧ Bmp.read wr = .ok ⟨s.bh, s.ih, pal, px⟩ := by
  obtain ⟨L, C⟩ := shape_loaded hs hh pal px hpal hpx
  exact write_read_id L C hp

/-- … in particular with an all-zero pixel array -/
theorem shape_rt_zeros {bits w : Nat} {h : Int} {s : Shape} (hs : createShape bits w h = .ok s)
    (hh : -2147483648 ≤ h ∧ h < 2147483648) (pal : List Color) (hpal : pal.length = 2 ^ bits) :
    ∃ wr, write ⟨s.bh, s.ih, pal, zeros s.npix⟩ = .ok wr ∧ Bmp.read wr = .ok ⟨s.bh, s.ih, pal, zeros s.npix⟩ := by
  have hz : (zeros s.npix).length = s.npix := by unfold zeros; simp
  obtain ⟨L, _⟩ := shape_loaded hs hh pal (zeros s.npix) hpal hz
  have hn : s.npix = pitch s.ih.bitCount s.ih.width * s.ih.height.natAbs := by
    have := L.npix; rw [hz] at this; exact this
  exact shape_rt hs hh pal (zeros s.npix) hpal hz
    (zeros_clean _ _ _ _ (by rw [hn, Nat.mul_comm]; exact Nat.le_refl _))

/-- the palette `CreateIndexed(bitCount, width, height, palette)` stores has `2^bits` entries -/
theorem create2_palette_length {bits : Nat} {pal : List Color} {n : Nat} (hn : n = 2 ^ bits) (hp : pal.length ≤ 2 ^ bits) :
    (pal ++ (List.replicate n Color.black).drop pal.length).length = 2 ^ bits := by
  simp only [List.length_append, List.length_drop, List.length_replicate]
  omega

end Op2.Bmp

