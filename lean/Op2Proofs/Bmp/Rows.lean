import Op2Proofs.Bmp.ReadInv
/-!
# Rows of a pixel array: `storedRows`, the two row loops (`writeRows`, `invertRows`) never leave the array when it holds
`n` rows, and what they produce
-/
namespace Op2.Bmp
open Op2

theorem storedRows_length (px : Bytes) (p : Nat) : ∀ n, (storedRows px p n).length = n
  | 0 => rfl
  | n + 1 => by
    have := storedRows_length (px.drop p) p n
    simp [storedRows, this]

theorem storedRows_row_length (p : Nat) : ∀ (n : Nat) (px : Bytes), n * p ≤ px.length → ∀ r ∈ storedRows px p n, r.length = p
  | 0, px, _, r, hr => by simp [storedRows] at hr
  | n + 1, px, h, r, hr => by
    simp only [storedRows, List.mem_cons] at hr
    have hp : p ≤ px.length := by rw [Nat.add_mul] at h; omega
    rcases hr with e | e
    · rw [e, List.length_take]; omega
    · exact storedRows_row_length p n (px.drop p) (by rw [List.length_drop, Nat.add_mul] at *; omega) r e

/-- the rows laid end to end are the array -/
theorem storedRows_flatten (p : Nat) : ∀ (n : Nat) (px : Bytes), px.length = n * p → (storedRows px p n).flatten = px
  | 0, px, h => by
    have : px = [] := List.eq_nil_of_length_eq_zero (by omega)
    simp [storedRows, this]
  | n + 1, px, h => by
    simp only [storedRows, List.flatten_cons]
    rw [storedRows_flatten p n (px.drop p) (by rw [List.length_drop, h, Nat.add_mul]; omega)]
    exact List.take_append_drop p px

/-- cutting a concatenation of `p`-byte rows gives the rows back -/
theorem storedRows_of_flatten (p : Nat) : ∀ (L : List Bytes), (∀ r ∈ L, r.length = p) → storedRows L.flatten p L.length = L
  | [], _ => rfl
  | r :: L, h => by
    have hr : r.length = p := h r (by simp)
    simp only [List.flatten_cons, List.length_cons, storedRows]
    rw [List.take_append_of_le_length (by omega), List.take_of_length_le (by omega),
        List.drop_append_of_le_length (by omega), List.drop_of_length_le (by omega), List.nil_append,
        storedRows_of_flatten p L (fun x hx => h x (by simp [hx]))]

theorem storedRows_snoc (p : Nat) : ∀ (n : Nat) (px : Bytes),
    storedRows px p (n + 1) = storedRows px p n ++ [(px.drop (n * p)).take p]
  | 0, px => by simp [storedRows]
  | n + 1, px => by
    have := storedRows_snoc p n (px.drop p)
    rw [storedRows, this]
    simp only [storedRows, List.cons_append, List.drop_drop]
    have : p + n * p = (n + 1) * p := by rw [Nat.add_mul]; omega
    rw [this]

theorem slice_ok {v : Bytes} {off n : Nat} (h : off + n ≤ v.length) : slice v off n = .ok ((v.drop off).take n) := by
  unfold slice; rw [if_pos h]

/-- `InvertScanLines`' loop stays inside an array of `n` rows and lists them last to first -/
theorem invertRows_ok (px : Bytes) (p : Nat) : ∀ n, n * p ≤ px.length →
    invertRows px p n = .ok (storedRows px p n).reverse.flatten
  | 0, _ => rfl
  | n + 1, h => by
    have h1 : n * p + p ≤ px.length := by rw [Nat.add_mul] at h; omega
    unfold invertRows
    rw [slice_ok h1, invertRows_ok px p n (by omega), storedRows_snoc]
    simp

/-- `WritePixels`' loop stays inside the array and writes each row's meaningful bytes followed by zero padding -/
theorem writeRows_ok (p bpr : Nat) (hb : bpr ≤ p) : ∀ (n y : Nat) (px : Bytes), (y + n) * p ≤ px.length → px.length < W64 →
    writeRows px p bpr n y = .ok (((storedRows (px.drop (y * p)) p n).map fun r => r.take bpr ++ zeros (p - bpr)).flatten)
  | 0, _, _, _, _ => rfl
  | n + 1, y, px, h, hl => by
    have h1 : y * p + p ≤ px.length := by
      have : (y + (n + 1)) * p = y * p + p + n * p := by simp [Nat.add_mul]; omega
      omega
    unfold writeRows
    rw [Nat.mod_eq_of_lt (by omega), slice_ok (by omega),
        writeRows_ok p bpr hb n (y + 1) px (by have : y + 1 + n = y + (n + 1) := by omega
                                               rw [this]; exact h) hl]
    simp only [storedRows, List.map_cons, List.flatten_cons, List.drop_drop]
    have e1 : (y + 1) * p = y * p + p := by rw [Nat.add_mul]; omega
    rw [e1, List.take_take, Nat.min_eq_left hb, List.append_assoc]

end Op2.Bmp
