import Op2Proofs.Bmp.ParserInv
import Op2Proofs.Bmp.Arith
/-!
# What acceptance by the BMP reader says about the returned object (`Loaded`)
-/
namespace Op2.Bmp
open Op2 Op2.Parser Op2.Parser.BmpInv

theorem decU32_lt (b : Bytes) : decU32 b < W32 := by
  unfold decU32 W32
  split
  · rename_i a b c d _
    have := a.toNat_lt; have := b.toNat_lt; have := c.toNat_lt; have := d.toNat_lt
    omega
  · omega

theorem decU16_lt (b : Bytes) : decU16 b < W16 := by
  unfold decU16 W16
  split
  · rename_i a b _
    have := a.toNat_lt; have := b.toNat_lt
    omega
  · omega

theorem i32_range (x : Nat) : -2147483648 ≤ Op2.i32 x ∧ Op2.i32 x < 2147483648 := by
  unfold Op2.i32 W32
  split <;> omega

theorem u32_ok {xs : Bytes} {v : Nat} {rest : Bytes} (h : Parser.u32 xs = .ok (v, rest)) :
    v < W32 ∧ xs.length = rest.length + 4 ∧ rest = xs.drop 4 ∧ v = decU32 (xs.take 4) := by
  unfold Parser.u32 at h
  obtain ⟨a, r, h1, h2⟩ := map_ok.mp h
  obtain ⟨hl, h3⟩ := take_ok.mp h1
  injection h2 with e1 e2; injection h3 with e3 e4
  subst e1 e2 e3 e4
  exact ⟨decU32_lt _, by simp [List.length_drop]; omega, rfl, rfl⟩

theorem u16_ok {xs : Bytes} {v : Nat} {rest : Bytes} (h : Parser.u16 xs = .ok (v, rest)) :
    v < W16 ∧ xs.length = rest.length + 2 ∧ rest = xs.drop 2 ∧ v = decU16 (xs.take 2) := by
  unfold Parser.u16 at h
  obtain ⟨a, r, h1, h2⟩ := map_ok.mp h
  obtain ⟨hl, h3⟩ := take_ok.mp h1
  injection h2 with e1 e2; injection h3 with e3 e4
  subst e1 e2 e3 e4
  exact ⟨decU16_lt _, by simp [List.length_drop]; omega, rfl, rfl⟩

theorem i32_ok {xs : Bytes} {v : Int} {rest : Bytes} (h : Rd.i32 xs = .ok (v, rest)) :
    -2147483648 ≤ v ∧ v < 2147483648 ∧ xs.length = rest.length + 4 ∧ rest = xs.drop 4 ∧ v = Op2.i32 (decU32 (xs.take 4)) := by
  unfold Rd.i32 at h
  obtain ⟨a, r, h1, h2⟩ := map_ok.mp h
  obtain ⟨_, hl, hr, hv⟩ := u32_ok h1
  injection h2 with e1 e2
  subst e1 e2
  exact ⟨(i32_range a).1, (i32_range a).2, hl, hr, by rw [hv]⟩

theorem color_ok {xs : Bytes} {c : Color} {rest : Bytes} (h : Rd.color xs = .ok (c, rest)) :
    xs.length = rest.length + 4 := by
  unfold Rd.color at h
  obtain ⟨a, r, h1, h2⟩ := map_ok.mp h
  obtain ⟨hl, h3⟩ := take_ok.mp h1
  injection h2 with e1 e2; injection h3 with e3 e4
  subst e2 e4
  simp [List.length_drop]; omega

/-- field ranges of a header that was read from bytes -/
structure ImageHeader.InRange (h : ImageHeader) : Prop where
  headerSize : h.headerSize < W32
  width : -2147483648 ≤ h.width ∧ h.width < 2147483648
  height : -2147483648 ≤ h.height ∧ h.height < 2147483648
  planes : h.planes < W16
  bitCount : h.bitCount < W16
  compression : h.compression < W32
  imageSize : h.imageSize < W32
  xRes : h.xRes < W32
  yRes : h.yRes < W32
  used : h.used < W32
  important : h.important < W32

structure BmpHeader.InRange (b : BmpHeader) : Prop where
  sig : b.sig.length = 2
  size : b.size < W32
  reserved1 : b.reserved1 < W16
  reserved2 : b.reserved2 < W16
  pixelOffset : b.pixelOffset < W32

theorem imageHeaderRaw_ok {xs : Bytes} {h : ImageHeader} {rest : Bytes} (hh : Rd.imageHeaderRaw xs = .ok (h, rest)) :
    h.InRange ∧ xs.length = rest.length + 40 := by
  unfold Rd.imageHeaderRaw at hh
  obtain ⟨v1, r1, a1, hh⟩ := bind_ok.mp hh
  obtain ⟨v2, r2, a2, hh⟩ := bind_ok.mp hh
  obtain ⟨v3, r3, a3, hh⟩ := bind_ok.mp hh
  obtain ⟨v4, r4, a4, hh⟩ := bind_ok.mp hh
  obtain ⟨v5, r5, a5, hh⟩ := bind_ok.mp hh
  obtain ⟨v6, r6, a6, hh⟩ := bind_ok.mp hh
  obtain ⟨v7, r7, a7, hh⟩ := bind_ok.mp hh
  obtain ⟨v8, r8, a8, hh⟩ := bind_ok.mp hh
  obtain ⟨v9, r9, a9, hh⟩ := bind_ok.mp hh
  obtain ⟨v10, r10, a10, hh⟩ := bind_ok.mp hh
  obtain ⟨v11, r11, a11, hh⟩ := bind_ok.mp hh
  have := pure_ok.mp hh; injection this with e1 e2
  subst e1 e2
  have b1 := u32_ok a1; have b2 := i32_ok a2; have b3 := i32_ok a3; have b4 := u16_ok a4; have b5 := u16_ok a5
  have b6 := u32_ok a6; have b7 := u32_ok a7; have b8 := u32_ok a8; have b9 := u32_ok a9; have b10 := u32_ok a10
  have b11 := u32_ok a11
  exact ⟨⟨b1.1, ⟨b2.1, b2.2.1⟩, ⟨b3.1, b3.2.1⟩, b4.1, b5.1, b6.1, b7.1, b8.1, b9.1, b10.1, b11.1⟩, by omega⟩

theorem imageHeader_ok {xs : Bytes} {h : ImageHeader} {rest : Bytes} (hh : Rd.imageHeader xs = .ok (h, rest)) :
    h.InRange ∧ h.Valid ∧ xs.length = rest.length + 40 := by
  unfold Rd.imageHeader at hh
  obtain ⟨v, r1, a1, hh⟩ := bind_ok.mp hh
  obtain ⟨_, r2, a2, hh⟩ := bind_ok.mp hh
  obtain ⟨_, r3, a3, hh⟩ := bind_ok.mp hh
  have := pure_ok.mp hh; injection this with e1 e2
  obtain ⟨g1, g2⟩ := guard_ok.mp a2; injection g2 with _ g2
  obtain ⟨g3, g4⟩ := guard_ok.mp a3; injection g4 with _ g4
  subst e1 e2 g2 g4
  have := imageHeaderRaw_ok a1
  exact ⟨this.1, of_decide_eq_true g1, this.2⟩

theorem bmpHeader_ok {len : Nat} {xs : Bytes} {b : BmpHeader} {rest : Bytes} (hh : Rd.bmpHeader len xs = .ok (b, rest)) :
    b.InRange ∧ b.sig = fileSignature ∧ len ≤ b.size ∧ xs.length = rest.length + 14 := by
  unfold Rd.bmpHeader at hh
  obtain ⟨v1, r1, a1, hh⟩ := bind_ok.mp hh
  obtain ⟨v2, r2, a2, hh⟩ := bind_ok.mp hh
  obtain ⟨v3, r3, a3, hh⟩ := bind_ok.mp hh
  obtain ⟨v4, r4, a4, hh⟩ := bind_ok.mp hh
  obtain ⟨v5, r5, a5, hh⟩ := bind_ok.mp hh
  obtain ⟨_, r6, a6, hh⟩ := bind_ok.mp hh
  obtain ⟨_, r7, a7, hh⟩ := bind_ok.mp hh
  have := pure_ok.mp hh; injection this with e1 e2
  obtain ⟨g1, g2⟩ := guard_ok.mp a6; injection g2 with _ g2
  obtain ⟨g3, g4⟩ := guard_ok.mp a7; injection g4 with _ g4
  subst e1 e2 g2 g4
  obtain ⟨hl, h1⟩ := take_ok.mp a1; injection h1 with h1 h1'
  have b2 := u32_ok a2; have b3 := u16_ok a3; have b4 := u16_ok a4; have b5 := u32_ok a5
  have s1 : v1 = fileSignature := of_decide_eq_true g1
  have s2 : ¬ v2 < len := of_decide_eq_true g3
  refine ⟨⟨by rw [s1]; rfl, b2.1, b3.1, b4.1, b5.1⟩, s1, (by show len ≤ v2; omega), ?_⟩
  have : r1.length = xs.length - 2 := by rw [h1']; simp
  omega

/-- what the reader guarantees about an object it returns -/
structure Loaded (f : Bmp) : Prop where
  bhRange : f.bh.InRange
  ihRange : f.ih.InRange
  sig : f.bh.sig = fileSignature
  valid : f.ih.Valid
  npal : f.palette.length = Rd.paletteCount f.ih
  npix : f.pixels.length = pitch f.ih.bitCount f.ih.width * f.ih.height.natAbs
  pixSize : Rd.pixelBytes f.bh = f.pixels.length
  cap : f.pixels.length ≤ allocCap

theorem valid_bits {h : ImageHeader} (hv : h.Valid) : h.bitCount = 1 ∨ h.bitCount = 4 ∨ h.bitCount = 8 := by
  obtain ⟨_, _, hm, _, _, h8, _, _⟩ := hv
  simp [validBitCounts] at hm
  omega

theorem pitch_bound {h : ImageHeader} (hv : h.Valid) (hr : h.InRange) : pitch h.bitCount h.width ≤ 2147483652 := by
  have hb := valid_bits hv
  obtain ⟨_, _, _, hw, _, _, _, _⟩ := hv
  rw [pitch_of_nonneg _ _ (by omega) hw hr.width.2]
  unfold pitchN
  have : h.width.toNat < 2147483648 := by have := hr.width.2; omega
  rcases hb with e | e | e <;> rw [e] <;> omega

/-- inversion of the whole reader: what was consumed, and `Loaded` -/
theorem bmp_ok {len : Nat} {xs : Bytes} {f : Bmp} {rest : Bytes} (hh : Rd.bmp len xs = .ok (.ok f, rest)) :
    Loaded f ∧ len ≤ f.bh.size ∧ xs.length = rest.length + (54 + 4 * f.palette.length + f.pixels.length) := by
  unfold Rd.bmp at hh
  obtain ⟨bh, r1, a1, hh⟩ := bind_ok.mp hh
  obtain ⟨ih, r2, a2, hh⟩ := bind_ok.mp hh
  obtain ⟨pal, r3, a3, hh⟩ := bind_ok.mp hh
  have B := bmpHeader_ok a1
  have I := imageHeader_ok a2
  have P := many_length _ a3
  have Pc := many_consumes (k := 4) (fun _ _ _ h => color_ok h) _ a3
  cases ha : absI32 ih.height with
  | error g =>
    simp only [ha] at hh
    have := pure_ok.mp hh; injection this with e1 e2; injection e1
  | ok a =>
    simp only [ha] at hh
    obtain ⟨_, r4, a4, hh⟩ := bind_ok.mp hh
    obtain ⟨_, r5, a5, hh⟩ := bind_ok.mp hh
    obtain ⟨px, r6, a6, hh⟩ := bind_ok.mp hh
    have := pure_ok.mp hh; injection this with e1 e2; injection e1 with e1
    obtain ⟨g1, g2⟩ := guard_ok.mp a4; injection g2 with _ g2
    obtain ⟨g3, g4⟩ := guard_ok.mp a5; injection g4 with _ g4
    obtain ⟨hl, t⟩ := take_ok.mp a6; injection t with t1 t2
    have L4 : r4.length = r3.length := by rw [g2]
    have L5 : r5.length = r4.length := by rw [g4]
    have Lr : rest.length = r5.length - Rd.pixelBytes bh := by rw [e2, t2, List.length_drop]
    have lpx : px.length = Rd.pixelBytes bh := by rw [t1, List.length_take]; omega
    subst e1
    have s1 : Rd.pixelBytes bh = (pitch ih.bitCount ih.width * a) % W64 := of_decide_eq_true g1
    have s2 : Rd.pixelBytes bh ≤ allocCap := of_decide_eq_true g3
    have ea : a = ih.height.natAbs := by
      unfold absI32 at ha; split at ha
      · injection ha
      · injection ha with ha; exact ha.symm
    have pb := pitch_bound I.2.1 I.1
    have hab : ih.height.natAbs ≤ 2147483648 := by have := I.1.height; omega
    have nowrap : pitch ih.bitCount ih.width * ih.height.natAbs < W64 := by
      calc pitch ih.bitCount ih.width * ih.height.natAbs ≤ 2147483652 * 2147483648 := Nat.mul_le_mul pb hab
        _ < W64 := by unfold W64; omega
    refine ⟨⟨B.1, I.1, B.2.1, I.2.1, P, ?_, lpx.symm, by show px.length ≤ allocCap; rw [lpx]; exact s2⟩, B.2.2.1, ?_⟩
    · show px.length = _
      rw [lpx, s1, ea, Nat.mod_eq_of_lt nowrap]
    · show xs.length = rest.length + (54 + 4 * pal.length + px.length)
      have := B.2.2.2; have := I.2.2
      omega

end Op2.Bmp
