import Op2Proofs.Bmp.ReadInv
/-!
# The BMP reader is a `Local` parser for every value of the stream-length parameter, and success does not depend on
that parameter beyond the one comparison `size < length`
-/
namespace Op2.Bmp
open Op2 Op2.Parser Op2.Parser.BmpInv

theorem local_i32 : Local Rd.i32 := local_map _ local_u32

theorem local_bmpHeader (len : Nat) : Local (Rd.bmpHeader len) := by
  unfold Rd.bmpHeader
  refine local_bind (local_take 2) fun _ => local_bind local_u32 fun _ => local_bind local_u16 fun _ =>
    local_bind local_u16 fun _ => local_bind local_u32 fun _ => local_bind (local_guard _ _) fun _ =>
    local_bind (local_guard _ _) fun _ => local_pure _

theorem local_imageHeaderRaw : Local Rd.imageHeaderRaw := by
  unfold Rd.imageHeaderRaw
  refine local_bind local_u32 fun _ => local_bind local_i32 fun _ => local_bind local_i32 fun _ =>
    local_bind local_u16 fun _ => local_bind local_u16 fun _ => local_bind local_u32 fun _ => local_bind local_u32 fun _ =>
    local_bind local_u32 fun _ => local_bind local_u32 fun _ => local_bind local_u32 fun _ => local_bind local_u32 fun _ =>
    local_pure _

theorem local_imageHeader : Local Rd.imageHeader := by
  unfold Rd.imageHeader
  exact local_bind local_imageHeaderRaw fun _ => local_bind (local_guard _ _) fun _ => local_bind (local_guard _ _) fun _ =>
    local_pure _

theorem local_color : Local Rd.color := local_map _ (local_take 4)

theorem local_bmp (len : Nat) : Local (Rd.bmp len) := by
  unfold Rd.bmp
  refine local_bind (local_bmpHeader len) fun bh => local_bind local_imageHeader fun ih =>
    local_bind (local_many local_color _) fun pal => ?_
  cases absI32 ih.height with
  | error g => exact local_pure _
  | ok a =>
    exact local_bind (local_guard _ _) fun _ => local_bind (local_guard _ _) fun _ => local_bind (local_take _) fun _ =>
      local_pure _

/-- a shorter stream only makes the length comparison easier to pass -/
theorem bmpHeader_len_mono {len len' : Nat} (hl : len' ≤ len) {xs : Bytes} {r : BmpHeader × Bytes}
    (h : Rd.bmpHeader len xs = .ok r) : Rd.bmpHeader len' xs = .ok r := by
  unfold Rd.bmpHeader at *
  obtain ⟨v1, r1, a1, h⟩ := bind_ok.mp h
  obtain ⟨v2, r2, a2, h⟩ := bind_ok.mp h
  obtain ⟨v3, r3, a3, h⟩ := bind_ok.mp h
  obtain ⟨v4, r4, a4, h⟩ := bind_ok.mp h
  obtain ⟨v5, r5, a5, h⟩ := bind_ok.mp h
  obtain ⟨u6, r6, a6, h⟩ := bind_ok.mp h
  obtain ⟨u7, r7, a7, h⟩ := bind_ok.mp h
  refine bind_ok.mpr ⟨v1, r1, a1, bind_ok.mpr ⟨v2, r2, a2, bind_ok.mpr ⟨v3, r3, a3, bind_ok.mpr ⟨v4, r4, a4,
    bind_ok.mpr ⟨v5, r5, a5, bind_ok.mpr ⟨u6, r6, a6, bind_ok.mpr ⟨u7, r7, ?_, h⟩⟩⟩⟩⟩⟩⟩
  obtain ⟨g1, g2⟩ := guard_ok.mp a7
  have : ¬ v2 < len := of_decide_eq_true g1
  exact guard_ok.mpr ⟨decide_eq_true (by omega), g2⟩

theorem bmp_len_mono {len len' : Nat} (hl : len' ≤ len) {xs : Bytes} {r : Out Bmp × Bytes}
    (h : Rd.bmp len xs = .ok r) : Rd.bmp len' xs = .ok r := by
  unfold Rd.bmp at *
  obtain ⟨bh, r1, a1, h⟩ := bind_ok.mp h
  exact bind_ok.mpr ⟨bh, r1, bmpHeader_len_mono hl a1, h⟩

/-- the reader never reaches the undefined `std::abs(INT32_MIN)`: `Validate` has refused that height before -/
theorem bmp_no_fault {len : Nat} {xs : Bytes} {g : Fault} {rest : Bytes} : Rd.bmp len xs ≠ .ok (.fault g, rest) := by
  intro hh
  unfold Rd.bmp at hh
  obtain ⟨bh, r1, a1, hh⟩ := bind_ok.mp hh
  obtain ⟨ih, r2, a2, hh⟩ := bind_ok.mp hh
  obtain ⟨pal, r3, a3, hh⟩ := bind_ok.mp hh
  have I := imageHeader_ok a2
  have hne : ih.height ≠ I32_MIN := I.2.1.2.2.2.2.1
  have ha : absI32 ih.height = .ok ih.height.natAbs := by unfold absI32; rw [if_neg hne]
  simp only [ha] at hh
  obtain ⟨_, r4, a4, hh⟩ := bind_ok.mp hh
  obtain ⟨_, r5, a5, hh⟩ := bind_ok.mp hh
  obtain ⟨px, r6, a6, hh⟩ := bind_ok.mp hh
  have := pure_ok.mp hh; injection this with e1 e2; injection e1

end Op2.Bmp
