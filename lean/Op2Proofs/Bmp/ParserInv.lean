import Op2Proofs.ParserLemmas
import Op2Model.Bmp
/-!
# Inversion lemmas for parsers (what success of a composite parser says about its parts) and small facts about `Out`
-/
namespace Op2.Parser.BmpInv
open Op2

theorem bind_ok {α β : Type} {p : Parser α} {f : α → Parser β} {xs : Bytes} {r : β × Bytes} :
    Parser.bind p f xs = .ok r ↔ ∃ a rest, p xs = .ok (a, rest) ∧ f a rest = .ok r := by
  unfold Parser.bind
  constructor
  · intro h
    split at h
    · rename_i a rest hp; exact ⟨a, rest, hp, h⟩
    · simp at h
  · rintro ⟨a, rest, hp, hf⟩
    rw [hp]; exact hf

theorem pure_ok {α : Type} {a : α} {xs : Bytes} {r : α × Bytes} : Parser.pure a xs = .ok r ↔ r = (a, xs) := by
  unfold Parser.pure; constructor
  · intro h; injection h with h; exact h.symm
  · intro h; rw [h]

theorem fail_ok {α : Type} {e : Err} {xs : Bytes} {r : α × Bytes} : (Parser.fail e : Parser α) xs = .ok r ↔ False := by
  unfold Parser.fail; simp

theorem guard_ok {c : Bool} {e : Err} {xs : Bytes} {r : Unit × Bytes} : guard c e xs = .ok r ↔ c = true ∧ r = ((), xs) := by
  unfold guard
  cases c
  · simp [Parser.fail]
  · simp [Parser.pure]; constructor <;> intro h <;> exact h.symm

theorem take_ok {k : Nat} {xs : Bytes} {r : Bytes × Bytes} :
    take k xs = .ok r ↔ k ≤ xs.length ∧ r = (xs.take k, xs.drop k) := by
  unfold take
  split
  · rename_i h; simp [h]; constructor <;> intro h <;> exact h.symm
  · rename_i h; simp [h]

theorem map_ok {α β : Type} {p : Parser α} {f : α → β} {xs : Bytes} {r : β × Bytes} :
    Parser.map p f xs = .ok r ↔ ∃ a rest, p xs = .ok (a, rest) ∧ r = (f a, rest) := by
  unfold Parser.map
  rw [bind_ok]
  constructor
  · rintro ⟨a, rest, hp, hf⟩; exact ⟨a, rest, hp, pure_ok.mp hf⟩
  · rintro ⟨a, rest, hp, hf⟩; exact ⟨a, rest, hp, pure_ok.mpr hf⟩

/-- `many p n` returns exactly `n` items -/
theorem many_length {α : Type} {p : Parser α} : ∀ (n : Nat) {xs : Bytes} {as : List α} {rest : Bytes},
    many p n xs = .ok (as, rest) → as.length = n
  | 0, xs, as, rest, h => by
    have := pure_ok.mp h; injection this with a b; subst a; rfl
  | n + 1, xs, as, rest, h => by
    unfold many at h
    obtain ⟨a, r1, _, h2⟩ := bind_ok.mp h
    obtain ⟨as', r2, h3, h4⟩ := bind_ok.mp h2
    have := pure_ok.mp h4; injection this with e1 e2
    subst e1
    simp [many_length n h3]

/-- … and consumes `n` times the item size when every item has the same size -/
theorem many_consumes {α : Type} {p : Parser α} {k : Nat}
    (hk : ∀ xs a rest, p xs = .ok (a, rest) → xs.length = rest.length + k) :
    ∀ (n : Nat) {xs : Bytes} {as : List α} {rest : Bytes}, many p n xs = .ok (as, rest) → xs.length = rest.length + n * k
  | 0, xs, as, rest, h => by
    have := pure_ok.mp h; injection this with a b; subst b; simp
  | n + 1, xs, as, rest, h => by
    unfold many at h
    obtain ⟨a, r1, h1, h2⟩ := bind_ok.mp h
    obtain ⟨as', r2, h3, h4⟩ := bind_ok.mp h2
    have := pure_ok.mp h4; injection this with e1 e2
    subst e2
    have a1 := hk _ _ _ h1
    have a2 := many_consumes hk n h3
    rw [a1, a2, Nat.add_mul]; omega

end Op2.Parser.BmpInv
