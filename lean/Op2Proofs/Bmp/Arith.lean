import Op2Model.Bmp
/-!
# Row-size arithmetic of the BMP model: the pitch law, no wrap-around for non-negative widths, and the tie to the
formulas translated from `ImageHeader::CalcPixelByteWidth / CalculatePitch`
-/
namespace Op2.Bmp
open Op2

theorem and_mask4 (x : Nat) (h : x < 2^64) : x &&& (2^64 - 4) = x / 4 * 4 := by
  apply Nat.eq_of_testBit_eq
  intro i
  rw [Nat.testBit_and]
  have e : (2^64 - 4 : Nat) = 2^2 * (2^62 - 1) := by decide
  rw [e]
  have e2 : x / 4 * 4 = 2^2 * (x / 2^2) := by omega
  rw [e2, Nat.testBit_two_pow_mul, Nat.testBit_two_pow_mul, Nat.testBit_two_pow_sub_one]
  by_cases hi : 2 ≤ i
  · simp only [hi, decide_true, Bool.true_and]
    rw [Nat.testBit_div_two_pow]
    have : i - 2 + 2 = i := by omega
    rw [this]
    by_cases h62 : i - 2 < 62
    · simp [h62]
    · simp [h62]
      apply Nat.testBit_lt_two_pow
      calc x < 2^64 := h
        _ ≤ 2^i := Nat.pow_le_pow_right (by decide) (by omega)
  · simp [hi]

theorem toU64_of_nonneg (w : Int) (h0 : 0 ≤ w) (h1 : w < 2147483648) : toU64 w = w.toNat := by
  unfold toU64 W64; omega

theorem toU64_lt (w : Int) : toU64 w < W64 := by
  unfold toU64 W64; omega

/-- for a non-negative width nothing wraps: the row holds `⌈w·bits/8⌉` bytes -/
theorem pixByteWidth_of_nonneg (bits : Nat) (w : Int) (hb : bits < 65536) (h0 : 0 ≤ w) (h1 : w < 2147483648) :
    pixByteWidth bits w = (w.toNat * bits + 7) / 8 := by
  unfold pixByteWidth
  rw [toU64_of_nonneg w h0 h1]
  have : w.toNat * bits < 2147483648 * 65536 := by
    have a : w.toNat < 2147483648 := by omega
    calc w.toNat * bits ≤ 2147483648 * bits := Nat.mul_le_mul_right _ (by omega)
      _ < 2147483648 * 65536 := Nat.mul_lt_mul_of_pos_left hb (by omega)
  generalize w.toNat * bits = m at *
  unfold W64; omega

/-- … and the pitch is the ℕ law `4·⌈w·bits/32⌉` -/
theorem pitch_of_nonneg (bits : Nat) (w : Int) (hb : bits < 65536) (h0 : 0 ≤ w) (h1 : w < 2147483648) :
    pitch bits w = pitchN bits w.toNat := by
  unfold pitch pitchN
  rw [pixByteWidth_of_nonneg bits w hb h0 h1]
  have : w.toNat * bits < 2147483648 * 65536 := by
    have a : w.toNat < 2147483648 := by omega
    calc w.toNat * bits ≤ 2147483648 * bits := Nat.mul_le_mul_right _ (by omega)
      _ < 2147483648 * 65536 := Nat.mul_lt_mul_of_pos_left hb (by omega)
  generalize w.toNat * bits = m at *
  unfold W64; omega

/-- the pitch law: `pitchN bits w` is the smallest multiple of four bytes that holds `w·bits` bits -/
theorem pitchN_law (bits w : Nat) :
    pitchN bits w % 4 = 0 ∧ w * bits ≤ 8 * pitchN bits w ∧ ∀ m, m % 4 = 0 → w * bits ≤ 8 * m → pitchN bits w ≤ m := by
  unfold pitchN
  generalize w * bits = k
  refine ⟨by omega, by omega, ?_⟩
  intro m hm hk; omega

theorem pixByteWidth_le_pitch (bits : Nat) (w : Int) : pixByteWidth bits w ≤ pitch bits w := by
  unfold pitch
  have : pixByteWidth bits w < W64 / 8 + 1 := by
    unfold pixByteWidth
    have := Nat.mod_lt ((toU64 w * bits) % W64 + 7) (by unfold W64; omega : W64 > 0)
    unfold W64 at *; omega
  unfold W64 at *; omega

end Op2.Bmp
