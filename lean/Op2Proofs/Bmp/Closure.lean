import Op2Proofs.Bmp.Ops
/-!
# `Loaded` is closed under the mutating operations, and `InvertScanLines` under the weaker hypotheses it really needs
-/
namespace Op2.Bmp
open Op2

/-- `InvertScanLines` needs only a negatable height and `|height|` rows of pixels -/
theorem invert_ok' (f : Bmp) (hne : f.ih.height ≠ I32_MIN) (hr : -2147483648 ≤ f.ih.height ∧ f.ih.height < 2147483648)
    (hp : f.ih.height.natAbs * pitch f.ih.bitCount f.ih.width ≤ f.pixels.length) :
    invert f = .ok { f with ih := { f.ih with height := -f.ih.height },
                            pixels := (storedRows f.pixels (pitch f.ih.bitCount f.ih.width) f.ih.height.natAbs).reverse.flatten } := by
  unfold invert negI32
  rw [if_neg hne]
  simp only
  have : absI32 (-f.ih.height) = .ok f.ih.height.natAbs := by
    unfold absI32
    rw [if_neg (by unfold I32_MIN; omega)]
    simp
  rw [this]
  simp only
  rw [invertRows_ok _ _ _ hp]

theorem flatten_rows_length (p : Nat) (n : Nat) (px : Bytes) (h : n * p ≤ px.length) :
    ((storedRows px p n).reverse.flatten).length = n * p := by
  rw [List.length_flatten]
  have : (List.map List.length (storedRows px p n).reverse) = List.replicate n p := by
    apply List.eq_replicate_iff.mpr
    refine ⟨by simp [storedRows_length], ?_⟩
    intro x hx
    obtain ⟨r, hr, e⟩ := List.mem_map.mp hx
    rw [← e]; exact storedRows_row_length p n px h r (List.mem_reverse.mp hr)
  rw [this, List.sum_replicate_nat]

namespace Loaded
variable {f : Bmp}

/-- the flipped bitmap has every property the reader guarantees, so any further operation is safe on it too -/
theorem invert_loaded (L : Loaded f) :
    Loaded { f with ih := { f.ih with height := -f.ih.height },
                    pixels := (storedRows f.pixels (pitch f.ih.bitCount f.ih.width) f.ih.height.natAbs).reverse.flatten } := by
  have hflat := flatten_rows_length (pitch f.ih.bitCount f.ih.width) f.ih.height.natAbs f.pixels
    (by rw [L.npix, Nat.mul_comm]; exact Nat.le_refl _)
  have hflat' : ((storedRows f.pixels (pitch f.ih.bitCount f.ih.width) f.ih.height.natAbs).reverse.flatten).length = f.pixels.length := by
    rw [hflat, L.npix, Nat.mul_comm]
  refine ⟨L.bhRange, ?_, L.sig, ?_, L.npal, ?_, ?_, ?_⟩
  · have := L.ihRange
    have hne := L.height_ne
    exact ⟨this.headerSize, this.width, by have := this.height; unfold I32_MIN at hne; constructor <;> simp <;> omega,
           this.planes, this.bitCount, this.compression, this.imageSize, this.xRes, this.yRes, this.used, this.important⟩
  · obtain ⟨a1, a2, a3, a4, a5, a6, a7, a8⟩ := L.valid
    have := L.ihRange.height
    exact ⟨a1, a2, a3, a4, by unfold I32_MIN at *; simp; omega, a6, a7, a8⟩
  · show _ = pitch f.ih.bitCount f.ih.width * (-f.ih.height).natAbs
    rw [hflat', L.npix]; simp
  · show Rd.pixelBytes f.bh = _
    rw [hflat']; exact L.pixSize
  · show _ ≤ allocCap
    rw [hflat']; exact L.cap

theorem swap_loaded (L : Loaded f) : Loaded (swapRedAndBlue f) :=
  ⟨L.bhRange, L.ihRange, L.sig, L.valid, by show (f.palette.map Color.swapRB).length = _; rw [List.length_map]; exact L.npal,
   L.npix, L.pixSize, L.cap⟩

theorem writeFile_ok (L : Loaded f) : writeFile f = .ok (written f) ∨ writeFile f = .err .refused := by
  unfold writeFile
  by_cases hc : f.ih.compression ≠ 0
  · right; rw [if_pos hc]
  · left; rw [if_neg hc, L.validate_ok]; exact L.write_ok

end Loaded
end Op2.Bmp
