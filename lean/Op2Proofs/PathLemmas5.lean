import Op2Proofs.PathLemmas4
/-!
# Op2Proofs.PathLemmas5 — paths that start with a separator

Their first component is a root name or a root directory, and its text contains a separator.
Consequences: "relative" (`Rel`) is exactly "no root component", and a leading `./` is ignored
by `pathsAreEqual` *only* on relative paths.
-/
namespace Op2.Path
open Op2

/-- first component is a root whose text contains a separator -/
def RootHead (cs : List Cmpt) : Prop :=
  ∃ c r, cs = c :: r ∧ (c.kind = Kind.rootName ∨ c.kind = Kind.rootDir) ∧ sep ∈ c.text

theorem withTrailingDot_head (s : Bytes) (c : Cmpt) (r : List Cmpt) :
    ∃ r', withTrailingDot s (c :: r) = c :: r' := by
  unfold withTrailingDot
  split
  · split
    · exact ⟨_, rfl⟩
    · exact ⟨_, rfl⟩
  · exact ⟨_, rfl⟩

theorem afterRootDir_head (s : Bytes) (c : Cmpt) (pre : List Cmpt) (rest : Bytes) (off : Nat)
    (hs : sep ∈ s) (hc : (c.kind = Kind.rootName ∨ c.kind = Kind.rootDir) ∧ sep ∈ c.text) :
    RootHead (afterRootDir s (c :: pre) rest off) := by
  unfold afterRootDir
  simp only
  split
  · exact ⟨_, _, rfl, Or.inr rfl, hs⟩
  · obtain ⟨r', e⟩ := withTrailingDot_head s c (pre ++ scan rest off off [] [])
    rw [List.cons_append, e]
    exact ⟨_, _, rfl, hc⟩

theorem split_rootHead (r0 : Bytes) : RootHead (split (sep :: r0)) := by
  have hsep : sep ∈ sep :: r0 := by simp
  have hrd : ∀ p : Nat, ((({ kind := Kind.rootDir, pos := p, text := [sep] } : Cmpt).kind = Kind.rootName ∨
      ({ kind := Kind.rootDir, pos := p, text := [sep] } : Cmpt).kind = Kind.rootDir) ∧
      sep ∈ ({ kind := Kind.rootDir, pos := p, text := [sep] } : Cmpt).text) :=
    fun p => ⟨Or.inr rfl, by simp⟩
  unfold split
  simp only [if_true]
  split
  · exact ⟨_, _, rfl, Or.inr rfl, by simp⟩
  · rename_i c1 r1
    split
    · split
      · exact ⟨_, _, rfl, Or.inl rfl, by simp⟩
      · rename_i c2 r2
        split
        · split
          · exact ⟨_, _, rfl, Or.inl rfl, by simp⟩
          · exact afterRootDir_head _ _ _ _ _ hsep ⟨Or.inl rfl, by simp⟩
        · exact afterRootDir_head _ _ _ _ _ hsep (hrd 0)
    · exact afterRootDir_head _ _ _ _ _ hsep (hrd 0)

theorem not_rel_iff (s : Bytes) : ¬ Rel s ↔ ∃ r, s = sep :: r := by
  cases s with
  | nil => simp [Rel]
  | cons c r => simp [Rel]

/-- "relative" is exactly "no root name and no root directory" -/
theorem hasRootComponent_eq_false_iff (s : Bytes) : hasRootComponent s = false ↔ Rel s := by
  constructor
  · intro h
    apply Classical.byContradiction
    intro hn
    obtain ⟨r, rfl⟩ := (not_rel_iff s).mp hn
    obtain ⟨c, cs, e, hk, _⟩ := split_rootHead r
    simp only [hasRootComponent, hasRootName, hasRootDir, e, List.any_cons, Bool.or_eq_false_iff,
      decide_eq_false_iff_not] at h
    rcases hk with hk | hk
    · exact h.1.1 hk
    · exact h.2.1 hk
  · exact hasRootComponent_rel s

/-! ## a leading `./` is ignored only on relative paths -/

theorem stripDots_plain (l : List Bytes) (h : ∀ t ∈ l, Plain t) : ∀ t ∈ stripDots l, Plain t := by
  induction l with
  | nil => intro t ht; simp [stripDots] at ht
  | cons c r ih =>
    intro t ht
    simp only [stripDots] at ht
    split at ht
    · exact ih (fun u hu => h u (by simp [hu])) t ht
    · exact h t ht

theorem stripDots_cons_of_sep (c : Bytes) (r : List Bytes) (hc : sep ∈ c) : stripDots (c :: r) = c :: r := by
  have : c ≠ [dot] := by intro e; rw [e] at hc; revert hc; decide
  simp [stripDots, this]

theorem pathsAreEqual_dotslash_abs (r : Bytes) : pathsAreEqual ([dot, sep] ++ sep :: r) (sep :: r) = false := by
  apply Bool.eq_false_iff.mpr
  intro h
  simp only [pathsAreEqual, beq_iff_eq] at h
  have hu : Str.toUpper (sep :: r) = sep :: Str.toUpper r := rfl
  rw [toUpper_dotslash, hu] at h
  obtain ⟨c, cs, e, _, hc⟩ := split_rootHead (Str.toUpper r)
  have he : elems (sep :: Str.toUpper r) = c.text :: cs.map (·.text) := by
    unfold elems; rw [e]; rfl
  rw [he, stripDots_cons_of_sep _ _ hc] at h
  have hrel : Rel ([dot, sep] ++ sep :: Str.toUpper r) := by
    show (some dot : Option UInt8) ≠ some sep
    decide
  have hpl := stripDots_plain _ (elems_rel_plain _ hrel)
  rw [h] at hpl
  exact (hpl c.text (by simp)).2 hc

theorem pathsAreEqual_dotslash_iff (p : Bytes) : pathsAreEqual ([dot, sep] ++ p) p = true ↔ Rel p := by
  constructor
  · intro h
    apply Classical.byContradiction
    intro hn
    obtain ⟨r, rfl⟩ := (not_rel_iff p).mp hn
    rw [pathsAreEqual_dotslash_abs r] at h
    exact absurd h (by decide)
  · exact pathsAreEqual_dotslash p

end Op2.Path
