import Op2Model.Str
/-!
# Op2Model.Path — lexical model of `std::experimental::filesystem::path` (libstdc++ 12, POSIX)
and of the `XFile` helpers built on it (C19, C01, C17).

The library selects the Filesystem-TS implementation (`XFile.cpp` tests `__cpp_lib_filesystem`
before any header defines it).  The TS differs from C++17 exactly where the properties look:
`"a/"` has filename `"."`, `".a"` has extension `".a"`, `p / q` never replaces `p`.

This file is *assumed behaviour of the standard library* (trusted base), tied to the real
library by the exhaustive `std-fspath` correspondence group.
-/
namespace Op2.Path
open Op2

def sep : UInt8 := 47   -- '/'
def dot : UInt8 := 46   -- '.'

inductive Kind | rootName | rootDir | file
  deriving DecidableEq, Repr

/-- one component: kind, start offset in the path string, text -/
structure Cmpt where
  kind : Kind
  pos  : Nat
  text : Bytes
  deriving DecidableEq, Repr

/-- scan file-name components of `s` (already positioned at absolute offset `off`);
    `cur` accumulates the current component in reverse, `start` is where it began -/
def scan : Bytes → Nat → Nat → Bytes → List Cmpt → List Cmpt
  | [], _off, start, cur, acc =>
      if cur.isEmpty then acc.reverse else ({ kind := .file, pos := start, text := cur.reverse } :: acc).reverse
  | c :: rest, off, start, cur, acc =>
      if c = sep then
        if cur.isEmpty then scan rest (off + 1) (off + 1) [] acc
        else scan rest (off + 1) (off + 1) [] ({ kind := .file, pos := start, text := cur.reverse } :: acc)
      else scan rest (off + 1) start (c :: cur) acc

/-- a trailing separator after a file name yields a final "." element (Filesystem TS) -/
def withTrailingDot (s : Bytes) (cs : List Cmpt) : List Cmpt :=
  match s.getLast?, cs.getLast? with
  | some l, some last =>
      if l = sep ∧ last.kind = Kind.file then cs ++ [({ kind := Kind.file, pos := s.length, text := [dot] } : Cmpt)] else cs
  | _, _ => cs

/-- components after a root directory at offset `off - 1`; a path that consists of the root
    directory alone *is* that one component, whose text is the whole string (`_M_trim`) -/
def afterRootDir (s : Bytes) (pre : List Cmpt) (rest : Bytes) (off : Nat) : List Cmpt :=
  let body := scan rest off off [] []
  if body.isEmpty ∧ pre.length = 1 then [({ kind := Kind.rootDir, pos := 0, text := s } : Cmpt)]
  else withTrailingDot s (pre ++ body)

/-- `path::_M_split_cmpts` followed by `_M_trim`, as a flat list of components. -/
def split (s : Bytes) : List Cmpt :=
  match s with
  | [] => []
  | c0 :: r0 =>
    if c0 = sep then
      match r0 with
      | [] => [{ kind := .rootDir, pos := 0, text := [sep] }]
      | c1 :: r1 =>
        if c1 = sep then
          match r1 with
          | [] => [{ kind := .rootName, pos := 0, text := s }]            -- "//"
          | c2 :: _ =>
            if c2 ≠ sep then
              -- root name "//xyz"
              let name := r1.takeWhile (· ≠ sep)
              let after := r1.dropWhile (· ≠ sep)
              let rn : Cmpt := { kind := .rootName, pos := 0, text := sep :: sep :: name }
              match after with
              | [] => [rn]
              | _ :: after' =>
                afterRootDir s [rn, { kind := .rootDir, pos := 2 + name.length, text := [sep] }] after' (3 + name.length)
            else
              afterRootDir s [{ kind := .rootDir, pos := 0, text := [sep] }] r0 1         -- "///foo"
        else afterRootDir s [{ kind := .rootDir, pos := 0, text := [sep] }] r0 1
    else withTrailingDot s (scan s 0 0 [] [])

def elems (s : Bytes) : List Bytes := (split s).map (·.text)

def hasRootName (s : Bytes) : Bool := (split s).any (fun c => c.kind = Kind.rootName)
def hasRootDir  (s : Bytes) : Bool := (split s).any (fun c => c.kind = Kind.rootDir)

/-- `path == path`: component-wise comparison of the native strings -/
def pathEq (a b : Bytes) : Bool := elems a == elems b

/-- `path::filename().string()` -/
def filename (s : Bytes) : Bytes := ((split s).getLast?.map (·.text)).getD []

/-- `_M_append` -/
def appendRaw (p q : Bytes) : Bytes :=
  match p.getLast?, q.head? with
  | some l, some f => if l ≠ sep ∧ f ≠ sep then p ++ [sep] ++ q else p ++ q
  | _, _ => p ++ q

/-- `path::parent_path().string()` -/
def parentPath (s : Bytes) : Bytes :=
  let cs := split s
  if cs.length < 2 then [] else (cs.dropLast.map (·.text)).foldl appendRaw []

/-- `path::generic_string()` -/
def genericString (s : Bytes) : Bytes :=
  let step (st : Bytes × Bool) (c : Cmpt) : Bytes × Bool :=
    if c.kind = .rootDir then (st.1 ++ [sep], st.2)
    else ((if st.2 then st.1 ++ [sep] else st.1) ++ c.text, c.kind = .file)
  ((split s).foldl step ([], false)).1

/-- `path::relative_path().string()` -/
def relativePath (s : Bytes) : Bytes :=
  let cs := split s
  let cs := match cs with | c :: r => if c.kind = Kind.rootName then r else cs | [] => []
  let cs := match cs with | c :: r => if c.kind = Kind.rootDir then r else cs | [] => []
  match cs with
  | c :: _ => s.drop c.pos
  | [] => []

/-- index of the last `.` in a component, TS rules (`_M_find_extension`) -/
def extPos (fn : Bytes) : Option Nat :=
  if fn.isEmpty then none
  else if fn.length ≤ 2 ∧ fn.head? = some dot then
    (if fn.length = 1 ∨ fn[1]? = some dot then none else some 0)
  else
    let r := fn.reverse
    match r.findIdx? (· = dot) with
    | some i => some (fn.length - 1 - i)
    | none => none

/-- the component `_M_find_extension` looks at: the whole path when it is a single component,
    otherwise the last component when it is a file name -/
def extCmpt (s : Bytes) : Option (Nat × Bytes) :=
  match split s with
  | [] => none
  | [c] => some (c.pos, c.text)
  | cs => match cs.getLast? with
    | some c => if c.kind = .file then some (c.pos, c.text) else none
    | none => none

/-- `path::extension().string()` -/
def extension (s : Bytes) : Bytes :=
  match extCmpt s with
  | some (_, fn) => match extPos fn with
    | some i => fn.drop i
    | none => []
  | none => []

/-- `path::replace_extension(e).string()` -/
def replaceExtension (s e : Bytes) : Bytes :=
  let base := match extCmpt s with
    | some (p, fn) => (match extPos fn with | some i => s.take (p + i) | none => s)
    | none => s
  if !e.isEmpty ∧ e.head? ≠ some dot then base ++ [dot] ++ e else base ++ e

/-! ## XFile -/

def getFilename (s : Bytes) : Bytes := filename s
def getFileExtension (s : Bytes) : Bytes := extension s
def hasRootComponent (s : Bytes) : Bool := hasRootName s || hasRootDir s

/-- `XFile::Append` -/
def xAppend (p1 p2 : Bytes) : Except Err Bytes :=
  if hasRootComponent p2 then .error .refused else .ok (genericString (appendRaw p1 p2))

/-- `XFile::GetDirectory` -/
def getDirectory (s : Bytes) : Bytes :=
  if s.isEmpty then [] else
  if s.getLast? = some sep then s else
  let r := genericString (parentPath s)
  if r.isEmpty then r else r ++ [sep]

def changeFileExtension (f e : Bytes) : Bytes := replaceExtension f e

/-- `XFile::ExtensionMatches` -/
def extensionMatches (p e : Bytes) : Bool :=
  let pe := Str.toUpper (extension p)
  let eu := Str.toUpper e
  let eu := if !eu.isEmpty ∧ eu.head? ≠ some dot then dot :: eu else eu
  pe == eu

/-- drop leading `"."` components (the `fix:` for D19 normalises this way) -/
def stripDots : List Bytes → List Bytes
  | c :: r => if c = [dot] then stripDots r else c :: r
  | [] => []

/-- `XFile::PathsAreEqual` (after the D19 repair): upper-case both, compare component lists
    with leading `.` components removed -/
def pathsAreEqual (a b : Bytes) : Bool :=
  stripDots (elems (Str.toUpper a)) == stripDots (elems (Str.toUpper b))

/-- `XFile::PathsAreEqual` as pinned (before the repair): only a *bare* name gets `./` prepended -/
def pathsAreEqualPinned (a b : Bytes) : Bool :=
  let norm (s : Bytes) : Bytes :=
    let r := relativePath s
    if !r.isEmpty ∧ pathEq r (filename s) then [dot, sep] ++ s else s
  pathEq (norm (Str.toUpper a)) (norm (Str.toUpper b))

end Op2.Path
