import Op2Model.Stream
/-!
# Op2Model.StreamSys — several live reader objects over one piece of data (C13, "independent under every interleaving")

A program holds a memory reader or file reader, slices of it, slices of those, and copies; it applies read / seek
operations to any of them in any order and derives further objects (`Slice(start, len)`, `Slice(len)` at the current
position, copy construction).  `Sys` is that situation: a list of objects, addressed by index, and `Sys.step` applies one
operation to one of them.  The correspondence run (`multi …` commands of `op2drv` / `op2model`) executes exactly
`Sys.step`; the property theorems (`Op2Proofs/Props/C13.lean`) show that what an object observes is a function of the
operations applied to that object alone.
-/
namespace Op2.Stream

/-- a live reader object of one of the backends under test -/
inductive Rd where
  | mem (s : MemR)
  | file (s : FileR)
  | fsl (s : Slice FileR)
  | fss (s : Slice (Slice FileR))

def fslW : Wrapped (Slice FileR) := Slice.asWrapped fileWrapped

namespace Rd
def pos : Rd → Nat
  | mem s => s.pos | file s => s.pos
  | fsl s => Slice.position fileWrapped s | fss s => Slice.position fslW s
def len : Rd → Nat
  | mem s => s.data.length | file s => s.data.length | fsl s => s.len | fss s => s.len
def step : Rd → ROp → Out × Rd
  | mem s, op => let (o, s') := MemR.step s op; (o, mem s')
  | file s, op => let (o, s') := RSpec.step s op; (o, file s')     -- in-bounds use only
  | fsl s, op => let (o, s') := Slice.step fileWrapped s op; (o, fsl s')
  | fss s, op => let (o, s') := Slice.step fslW s op; (o, fss s')
/-- the bytes this reader exposes (positions 0..len) -/
def content : Rd → Bytes
  | mem s => s.data | file s => s.data
  | fsl s => (s.w.data.drop s.start).take s.len
  | fss s => (((s.w.w.data.drop s.w.start).take s.w.len).drop s.start).take s.len
def read (r : Rd) (k : Nat) : Except Err (Bytes × Rd) :=
  match r.step (.read k) with
  | (.bytes b, r') => .ok (b, r')
  | _ => .error .bounds
end Rd

/-- operations that make a new object out of an existing one -/
inductive DOp where
  | slice (start len : Nat)      -- `Slice(start, len)`
  | here (len : Nat)             -- `Slice(len)`: at the current position, advancing the parent
  | copy                         -- copy construction

/-- `derive r d = ok (new, r')`: the new object and what has become of `r`; `none` where the library has no such
    operation (a slice of a `SliceReader<FileSliceReader>` is not part of the public interface) -/
def Rd.derive (r : Rd) : DOp → Option (Except Err (Rd × Rd))
  | .slice a b => match r with
    | .mem m => some ((MemR.slice2 m a b).map fun n => (Rd.mem n, r))
    | .file f => some ((Slice.create fileWrapped { f with pos := 0 } a b).map fun n => (Rd.fsl n, r))
    | .fsl s => some ((Slice.slice2 fileWrapped s a b).map fun n => (Rd.fsl n, r))
    | .fss _ => none
  | .here a => match r with
    | .mem m => some ((MemR.slice1 m a).map fun x => (Rd.mem x.1, Rd.mem x.2))
    | .file f => some (match Slice.create fileWrapped { f with pos := 0 } f.pos a with
        | .error e => .error e
        | .ok n => match FileR.fwd f a with
          | .error e => .error e
          | .ok f' => .ok (Rd.fsl n, Rd.file f'))
    | .fsl s => some ((Slice.slice1 fileWrapped s a).map fun x => (Rd.fsl x.1, Rd.fsl x.2))
    | .fss _ => none
  | .copy => match r with
    | .mem m => some (.ok (Rd.mem m, r))
    | .file f => some (.ok (Rd.file { f with pos := 0 }, r))      -- a copied FileReader reopens the file
    | .fsl s => some ((Slice.create fileWrapped s.w s.start s.len).map fun n => (Rd.fsl n, r))  -- copy re-initialises at the start
    | .fss _ => none

/-- what one object can be asked to do -/
inductive OOp where
  | op (o : ROp)
  | derive (d : DOp)

/-- what the caller sees of one such request -/
inductive OOut where
  | out (o : Out)          -- result of a read / seek operation
  | made (n : Rd)          -- a new object
  | failed                 -- derivation refused (exception): nothing is created
  | unsupported

/-- one request to one object: its answer, and the object afterwards -/
def Rd.ostep (r : Rd) : OOp → OOut × Rd
  | .op o => let (x, r') := r.step o; (.out x, r')
  | .derive d => match r.derive d with
    | none => (.unsupported, r)
    | some (.error _) => (.failed, r)
    | some (.ok (n, r')) => (.made n, r')

def runObj : Rd → List OOp → List OOut × Rd
  | r, [] => ([], r)
  | r, o :: os => let (x, r') := r.ostep o; let (xs, r'') := runObj r' os; (x :: xs, r'')

/-- the objects alive, in order of creation -/
abbrev Sys := List Rd

/-- request `o` to object `i`: the answer (`none` for an index that names no object) and the objects afterwards.
    A new object is appended; nothing else than object `i` is written. -/
def Sys.step (objs : Sys) (i : Nat) (o : OOp) : Option OOut × Sys :=
  match objs[i]? with
  | none => (none, objs)
  | some r =>
    let (x, r') := r.ostep o
    match x with
    | .made n => (some x, objs.set i r' ++ [n])
    | _ => (some x, objs.set i r')

/-- an interleaved history: the answers, tagged with the object asked, and the objects afterwards -/
def Sys.run : Sys → List (Nat × OOp) → List (Nat × Option OOut) × Sys
  | objs, [] => ([], objs)
  | objs, (i, o) :: h =>
    let (x, objs') := Sys.step objs i o
    let (xs, objs'') := Sys.run objs' h
    ((i, x) :: xs, objs'')

/-! ## `Writer::Write(Reader&)` over a live reader object of any backend -/

/-- `do { n = reader.ReadPartial(buf, B); writer.Write(buf, n); } while (n);` — the reader is an object of any backend, the writer
    is seen through the bytes it has received -/
def copyLoopRd (B : Nat) : Nat → Rd → Bytes → Rd × Bytes
  | 0, r, w => (r, w)
  | fuel + 1, r, w =>
    match r.step (.readPartial B) with
    | (.bytes chunk, r') => if chunk.length = 0 then (r', w ++ chunk) else copyLoopRd B fuel r' (w ++ chunk)
    | (_, r') => (r', w)

end Op2.Stream
